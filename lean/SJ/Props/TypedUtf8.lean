import SJ.Proofs.TypedUtf8
import SJ.Props.TypedSrc
import SJ.Props.Typed
/-!
# C14, typed targets: no `String`, `&str`, `char` or map key of a typed result is ill-formed

`c14_utf8` (`SJ/Props/C14.lean`) is about the `Value` machine. The one real defect of this clause in the pinned tree (a
`bool`-keyed map slicing a multi-byte key: panic, fixed in afff6b0) was on the TYPED path; this is the typed statement.

`TVal.utf8OK v` (`Proofs/TypedUtf8.lean`): every `str` inside `v` — `String` / `&str` targets, string-keyed map keys,
and every string and object key of a nested `Value` — is valid UTF-8 (`Spec.Utf8.validUtf8`: Unicode Table 3-7), and
every `char` — `char` targets and `char` keys — is a Unicode scalar value (≤ U+10FFFF, no surrogate). These are the
validity invariants of the Rust types the visitors are handed (`visit_str`, `visit_borrowed_str`, `visit_char`), which
`StrRead` establishes with `str::from_utf8_unchecked`. Variant and field NAMES do not occur in a `TVal` (a variant is
its index into the schema's `&'static [&'static str]`); `bytes` targets (`ByteBuf`) are byte buffers, not strings, and
are deliberately unconstrained (`parse_str_raw`: WTF-8 for lone surrogates, raw bytes pass through).
-/
namespace SJ.Props.TypedUtf8
open SJ SJ.Gen SJ.Model SJ.Model.Typed SJ.Props.Typed

/-- **C14 (typed targets, UTF-8).** Every string, char, map key inside a value the typed deserializer returns is
    well-formed, for every schema, configuration and fault mode: on byte sources (slice, reader) unconditionally —
    every string reaches its visitor through `parse_str`, whose closing quote runs the `as_str` check, `CharVisitor`
    decodes a checked string, a nested `Value` is built by the same machine —, on the `&str` source (which skips the
    check: `from_utf8_unchecked`) given that the input is valid UTF-8, which is what the type `&str` guarantees. -/
theorem c14_typed_utf8 (env : Env) (s : Schema) (bs : Bytes) (v : TVal) (h : deTypedTop env s bs = .ok v)
    (hstr : env.src = .str → Spec.Utf8.validUtf8 bs = true) : v.utf8OK = true := by
  obtain ⟨cfg, src, flt⟩ := env
  cases src with
  | str =>
    rw [SJ.Props.TypedSrc.c09_typed_str_slice cfg flt s bs (hstr rfl)] at h
    exact SJ.Proofs.TypedUtf8.deTypedTop_utf8 (env := { cfg := cfg, src := .slice, flt := flt }) (by simp) s bs v h
  | slice => exact SJ.Proofs.TypedUtf8.deTypedTop_utf8 (env := { cfg := cfg, src := .slice, flt := flt }) (by simp) s bs v h
  | reader => exact SJ.Proofs.TypedUtf8.deTypedTop_utf8 (env := { cfg := cfg, src := .reader, flt := flt }) (by simp) s bs v h

/-! non-vacuity. `{"é":["😀",{"k":"é"}]}` as `Map<char, (String, Value)>` from a slice: the char key U+00E9, the
    string U+1F600 (a surrogate pair), the nested object with key and string -/
def exDoc : Bytes :=
  [0x7b, 0x22, 0xc3, 0xa9, 0x22, 0x3a, 0x5b, 0x22, 0x5c, 0x75, 0x64, 0x38, 0x33, 0x64, 0x5c, 0x75, 0x64, 0x65, 0x30, 0x30, 0x22,
   0x2c, 0x7b, 0x22, 0x6b, 0x22, 0x3a, 0x22, 0xc3, 0xa9, 0x22, 0x7d, 0x5d, 0x7d]
def exSchema : Schema := .map .char (.tuple [.string, .any])
def exVal : TVal := .map [(.char 0xe9, .seq [.str [0xf0, 0x9f, 0x98, 0x80], .any (.obj [([0x6b], .str [0xc3, 0xa9])])])]
example : Top.isOk (deTypedTop { src := .slice } exSchema exDoc) exVal = true := by decide +kernel
example : exVal.utf8OK = true := by decide +kernel
/-- the predicate does discriminate: an ill-formed string, a surrogate as a char, an ill-formed key inside a `Value` -/
example : (TVal.str [0xff]).utf8OK = false ∧ (TVal.char 0xd800).utf8OK = false ∧
    (TVal.map [(.str [0xc3], .unit)]).utf8OK = false ∧ (TVal.any (.obj [([0xed, 0xa0, 0x80], .null)])).utf8OK = false := by
  decide +kernel
/-- byte sources reject what would violate it: `"\xff"` as `String` from a slice is `InvalidUnicodeCodePoint` at the closing
    quote; a lone `\ud800` as `char` is `UnexpectedEndOfHexEscape` -/
example : Top.isErr (deTypedTop { src := .slice } .string [0x22, 0xff, 0x22]) .InvalidUnicodeCodePoint 3 = true := by decide +kernel
example : Top.isErr (deTypedTop { src := .reader } .char [0x22, 0x5c, 0x75, 0x64, 0x38, 0x30, 0x30, 0x22])
    .UnexpectedEndOfHexEscape 8 = true := by decide +kernel
/-- the hypothesis on `&str` input is needed, and is exactly the type invariant: fed bytes that are not UTF-8 the model of the
    `&str` source hands them on unchecked -/
example : Top.isOk (deTypedTop { src := .str } .string [0x22, 0xff, 0x22]) (.str [0xff]) = true := by decide +kernel

end SJ.Props.TypedUtf8
