import SJ.Proofs.StreamTypedSrc
import SJ.Proofs.StreamTypedFault
import SJ.Proofs.StreamTypedPrefix
import SJ.Proofs.TypedEofEnd
import SJ.Proofs.StreamTypedValues
/-!
# `StreamDeserializer` over typed item types: the stream clauses of C12, C09, C13 and C10

`Model.StreamTyped.historyT env s n (start bs)` is the sequence of `(item, byte_offset())` pairs of `n` calls of `next()`
on a `StreamDeserializer<_, T>` over `bs`, `T` being the type whose `Deserialize` is the universal seed of schema `s`
(`harness/src/schema.rs`): an item is `None`, `Some(Ok(value))`, `Some(Err(parser error code at index))`,
`Some(Err(visitor error at index / unpositioned))` or (failing reader) `Some(Err(Io))`. Each theorem is listed in the
audit file of the property it serves (`Audit/C12.lean`, `C09.lean`, `C13.lean`, `C10.lean`); ops `tstream`, `tstream3`,
`tsfault` (`SJ/Drv/StreamTyped.lean`) compare the crate with the model and evaluate the same clauses on the crate's
histories.
-/
namespace SJ.Props.StreamTyped
open SJ SJ.Gen SJ.Model SJ.Model.Typed SJ.Model.StreamTyped SJ.Proofs.Typed SJ.Props.Typed SJ.Proofs.StreamTyped
open SJ.Model.Stream (SS skipWs isSelfDelineated isStreamDelim start)
open SJ.Model.Machine (Src)

/-! ## Bool-valued tests on histories (for kernel-evaluated examples) -/

def TItem.beq : TItem → TItem → Bool
  | .none, .none | .io, .io | .fuel, .fuel => true
  | .ok a, .ok b => a == b
  | .err c i, .err d j => c == d && i == j
  | .data i, .data j => i == j
  | _, _ => false

def histIs : List (TItem × Nat) → List (TItem × Nat) → Bool
  | [], [] => true
  | (x, o) :: a, (y, p) :: b => TItem.beq x y && o == p && histIs a b
  | _, _ => false

/-! ## C12 -/

/-- **C12 (typed items, fused).** Once the stream has failed — the flag of a reader, the truncation of a slice —
    every later `next()` is `None` and `byte_offset()` stays where it is, for any number of calls. -/
theorem c12_typed_fused (env : Env) (s : Schema) (k : Nat) (st : SS) (h : st.failed = true) :
    historyT env s k st = List.replicate k (.none, st.offset) :=
  historyT_failed env s k st h

/-- **C12 (typed items, which items fail the stream).** On a live stream a call that yields neither a value nor `None`
    fails the stream — every error of `T::deserialize` (parser error, visitor error, I/O error), an I/O error met by
    `parse_whitespace` or by `peek_end_of_value` — with ONE exception: the `trailing characters` report of
    `peek_end_of_value` after a complete bare scalar (`1x`, `truetrue`, `nullnull`). That report replaces the value,
    `byte_offset()` is already past the scalar (the error's index is `byte_offset() + 1`: the offending byte), and the
    stream goes on from there — with the offending byte, which is not a delimiter. -/
theorem c12_typed_error_fails (env : Env) (s : Schema) (st : SS) (hf : st.failed = false)
    (x : TItem) (st' : SS) (h : nextT env s st = (x, st')) (hne : x ≠ .none) (hv : ∀ v, x ≠ .ok v) :
    st'.failed = true ∨
    (∃ d tl, x = .err .TrailingCharacters (st'.offset + 1) ∧ st'.rest = d :: tl ∧ isStreamDelim d = false ∧ st'.failed = false) := by
  cases hsk : skipWs st.rest st.pos with
  | mk r p =>
    cases r with
    | nil =>
      rw [nextT_ws env s st hf p hsk] at h
      split at h
      · cases h; exact .inl rfl
      · cases h; exact absurd rfl hne
    | cons b r =>
      rw [nextT_item env s st hf b r p hsk] at h
      unfold deItem at h
      cases hd : deTyped env (Schema.size s + 1) 0 s (b :: r) p with
      | ok v rest' e =>
        rw [hd] at h
        cases hsd : isSelfDelineated b with
        | true => rw [afterDe_ok_sd _ _ _ _ _ _ _ hsd] at h; cases h; exact absurd rfl (hv v)
        | false =>
          cases rest' with
          | nil =>
            rw [afterDe_ok_nil _ _ _ _ _ _ hsd] at h
            split at h
            · cases h; exact .inl rfl
            · cases h; exact absurd rfl (hv v)
          | cons d tl =>
            rw [afterDe_ok_cons _ _ _ _ _ _ _ _ hsd] at h
            split at h
            · cases h; exact absurd rfl (hv v)
            · rename_i hdel
              cases h
              exact .inr ⟨d, tl, rfl, rfl, by simpa using hdel, rfl⟩
      | err c i => rw [hd] at h; cases h; exact .inl rfl
      | data i => rw [hd] at h; cases h; exact .inl rfl
      | raw _ _ => rw [hd] at h; cases h; exact .inl rfl
      | io => rw [hd] at h; cases h; exact .inl rfl
      | fuel => rw [hd] at h; cases h; exact .inl rfl

/-- … on whole histories: if the stream has failed after call `j`, the history of `j + 1 + k` calls is that of the first
    `j + 1` calls followed by `k` times `None`, `byte_offset()` unchanged. -/
theorem c12_typed_fused_after (env : Env) (s : Schema) (bs : Bytes) (j k : Nat)
    (h : (stateAfterT env s (j + 1) (start bs)).failed = true) :
    historyT env s (j + 1 + k) (start bs) =
      historyT env s (j + 1) (start bs) ++ List.replicate k (.none, (stateAfterT env s (j + 1) (start bs)).offset) := by
  rw [historyT_add, historyT_failed env s k _ h]

/-- **C12 (typed items, progress).** Along the calls on a stream over `bs`: `byte_offset()` never decreases; a call that
    yields a value moves it strictly forward (every value consumes at least one byte), to at most `|bs|`, and leaves the
    stream alive; hence `n` calls yield at most `|bs|` values, whatever `n` (`oks` counts the `Some(Ok(_))` items).
    `next()` terminates by construction (`deTyped` is structurally recursive; `typed_fuel_suffices`). -/
theorem c12_typed_progress (env : Env) (s : Schema) (bs : Bytes) :
    (∀ j, (stateAfterT env s j (start bs)).offset ≤ (stateAfterT env s (j + 1) (start bs)).offset) ∧
    (∀ j v, (nextT env s (stateAfterT env s j (start bs))).1 = .ok v →
      (stateAfterT env s j (start bs)).offset < (stateAfterT env s (j + 1) (start bs)).offset ∧
      (stateAfterT env s (j + 1) (start bs)).offset ≤ bs.length ∧
      (stateAfterT env s (j + 1) (start bs)).failed = false) ∧
    (∀ n, oks (historyT env s n (start bs)) ≤ bs.length) := by
  have hlive := fun j => live_stateAfterT env s bs.length j (start bs) (live_start bs)
  refine ⟨fun j => ?_, fun j v hv => ?_, fun n => ?_⟩
  · rw [stateAfterT_succ]; exact (nextT_facts env s _ _ (hlive j)).mono
  · rw [stateAfterT_succ]
    have hf := nextT_facts env s _ _ (hlive j)
    obtain ⟨h1, h2, _⟩ := hf.ok v hv
    exact ⟨h2, hf.le h1, h1⟩
  · have := oks_le env s bs.length n (start bs) (live_start bs)
    simpa [start] using this

/-- the `j`-th entry of a history is the item of the call made after `j` calls, with the offset after it (this reads
    `c12_typed_progress` on `historyT`) -/
theorem c12_typed_history_get (env : Env) (s : Schema) (bs : Bytes) (n j : Nat) (hj : j < n) :
    (historyT env s n (start bs))[j]? =
      some ((nextT env s (stateAfterT env s j (start bs))).1, (stateAfterT env s (j + 1) (start bs)).offset) :=
  historyT_get env s n j (start bs) hj

/-- one call on a live stream: an `Eof`-classified error is positioned at the end of the input -/
theorem nextT_eof_end (env : Env) (s : Schema) (N : Nat) (st : SS) (hl : Live N st) (c : Code) (i : Nat)
    (h : (nextT env s st).1 = .err c i) (hc : classify c = .eof) : i = N := by
  cases hf : st.failed with
  | true => rw [nextT_failed env s st hf] at h; cases h
  | false =>
    obtain ⟨_, h2⟩ := hl hf
    cases hsk : skipWs st.rest st.pos with
    | mk r p =>
      have hs := skipWs_eq hsk
      cases r with
      | nil => rw [nextT_ws env s st hf p hsk] at h; split at h <;> cases h
      | cons b r =>
        rw [nextT_item env s st hf b r p hsk] at h
        have hw := wie_deTyped (env := env) (N := N) (Schema.size s + 1) 0 s (b :: r) p (by omega)
        unfold deItem at h
        cases hd : deTyped env (Schema.size s + 1) 0 s (b :: r) p with
        | ok v rest' e =>
          rw [hd] at h
          cases hsd : isSelfDelineated b with
          | true => rw [afterDe_ok_sd _ _ _ _ _ _ _ hsd] at h; cases h
          | false =>
            cases rest' with
            | nil => rw [afterDe_ok_nil _ _ _ _ _ _ hsd] at h; split at h <;> cases h
            | cons d tl =>
              rw [afterDe_ok_cons _ _ _ _ _ _ _ _ hsd] at h
              split at h
              · cases h
              · cases h; cases hc
        | err c' i' => rw [hd] at h; cases h; exact hw.2 _ _ hd hc
        | data _ => rw [hd] at h; cases h
        | raw _ _ => rw [hd] at h; cases h
        | io => rw [hd] at h; cases h
        | fuel => rw [hd] at h; cases h

/-- **C12 (typed items, Eof only at the end).** Every `Eof`-classified error a typed stream over `bs` yields — whichever
    item, whichever call — is positioned at the end of the input: index `|bs|` (so that appending data to
    `bs[byte_offset()..]` and retrying makes sense). Every configuration, source, schema. -/
theorem c12_typed_eof_at_end (env : Env) (s : Schema) (bs : Bytes) (n : Nat) (c : Code) (i off : Nat)
    (h : (.err c i, off) ∈ historyT env s n (start bs)) (hc : classify c = .eof) : i = bs.length :=
  historyT_forall env s bs.length (fun x => ∀ c i, x = .err c i → classify c = .eof → i = bs.length)
    (fun st hl c i => nextT_eof_end env s bs.length st hl c i) n (start bs) (live_start bs) _ h c i rfl hc

/-- the model never runs out of fuel in a stream (total: every call is `None`, a value, an error) -/
theorem nextT_no_fuel (env : Env) (s : Schema) (bs : Bytes) (n : Nat) : ∀ x ∈ historyT env s n (start bs), x.1 ≠ .fuel :=
  historyT_forall env s bs.length (fun x => x ≠ .fuel) (fun st hl => (nextT_facts env s bs.length st hl).nofuel) n (start bs)
    (live_start bs)

/-! non-vacuity (C12). `1 2` as `u8`: 1 at offset 1, 2 at offset 3, `None` at 3. `1x`: the report of `peek_end_of_value`
(index 2, offset already 1), then `x` fails the stream (`expected value` at index 2), then `None` forever. `nullnull` as
`()`: the report at index 5 with offset 4, then the SECOND `null` is a value (offset 8). `"a""b"` as `String`: two values
without a separator. `[1` as `Vec<u8>`: `EofWhileParsingList` at index 2 = the length. -/
example : histIs (historyT {} (.int .u8) 3 (start [0x31, 0x20, 0x32])) [(.ok (.int 1), 1), (.ok (.int 2), 3), (.none, 3)] = true := by
  decide +kernel
example : histIs (historyT {} (.int .u8) 4 (start [0x31, 0x78]))
    [(.err .TrailingCharacters 2, 1), (.err .ExpectedSomeValue 2, 1), (.none, 1), (.none, 1)] = true := by decide +kernel
example : histIs (historyT {} .unit 3 (start [0x6e, 0x75, 0x6c, 0x6c, 0x6e, 0x75, 0x6c, 0x6c]))
    [(.err .TrailingCharacters 5, 4), (.ok .unit, 8), (.none, 8)] = true := by decide +kernel
example : histIs (historyT {} .string 3 (start [0x22, 0x61, 0x22, 0x22, 0x62, 0x22]))
    [(.ok (.str [0x61]), 3), (.ok (.str [0x62]), 6), (.none, 6)] = true := by decide +kernel
example : histIs (historyT {} (.seq (.int .u8)) 2 (start [0x5b, 0x31])) [(.err .EofWhileParsingList 2, 0), (.none, 0)] = true := by
  decide +kernel
example : oks (historyT {} (.int .u8) 7 (start [0x31, 0x20, 0x32])) = 2 := by decide +kernel

/-! ## C09 -/

/-- **C09 (streams of typed items, slice vs reader, with `byte_offset()`).** For every configuration, schema, byte
    string and number of calls (also under a failing reader): the slice's and the reader's histories have the same
    length and agree call by call — `HistSR`: the SAME `byte_offset()` after every call, and items that are identical
    (the same value, both `None`, the same parser error at the same index, the same visitor error at the same index or
    both unpositioned, both `Io`) except at the sites `c09_typed_slice_reader` names, where the READER's index is the
    slice's plus one and the slice's index is that of a byte of the input (`ItemSR`): a parser error with a `PeekCode`
    (`NumberOutOfRange` of the 128-bit path, `ExpectedNumericKey`, `ExpectedSomeValue` of `deserialize_enum`) or a
    positioned visitor error. In particular the two streams yield the same values, fail at the same call, and report
    `peek_end_of_value`'s `trailing characters` at the same index.

    **`byte_offset()` after an error.** The statement is about the model's offsets, which are the crate's for every call
    up to and INCLUDING the one that fails the stream (there both sources report the start of the failed item) and, for a
    reader, for every later call (the early return touches nothing). For a SLICE or `&str` the crate's later calls run
    `parse_whitespace` on the input truncated by `set_failed` and set `byte_offset()` to the index at which the failed
    parse stopped — at least the start of the failed item, at least the reported error index − 1, at most `|bs|`
    (`[256][1]` as `Vec<u8>`: error index 4, the slice's offset becomes 5, the reader's stays 0). That index is not
    exposed by `Model.Typed`; op `tstream3` checks these bounds on every case (C12 leaves it unconstrained). -/
theorem c09_typed_stream_sources (cfg : Machine.Cfg) (flt : Bool) (s : Schema) (bs : Bytes) (k : Nat) :
    HistSR bs.length (historyT { cfg := cfg, src := .slice, flt := flt } s k (start bs))
      (historyT { cfg := cfg, src := .reader, flt := flt } s k (start bs)) :=
  historyT_sr cfg flt s bs.length k (start bs) (live_start bs)

/-- **C09 (streams of typed items, `&str` vs slice).** On valid UTF-8 input (every `&str`) the `&str` source yields the
    very history of the slice source — items and offsets — for every schema, configuration and number of calls: the unread
    input of a stream stays valid UTF-8 after each item (the typed parser stops after an ASCII byte). -/
theorem c09_typed_stream_str_slice (cfg : Machine.Cfg) (flt : Bool) (s : Schema) (bs : Bytes) (k : Nat)
    (h : Spec.Utf8.validUtf8 bs = true) :
    historyT { cfg := cfg, src := .str, flt := flt } s k (start bs) = historyT { cfg := cfg, src := .slice, flt := flt } s k (start bs) :=
  historyT_su cfg flt s k (start bs) (.inr h)

/-- reading `HistSR`: equal lengths, equal offsets, values and `None` at the same calls -/
theorem histSR_offsets {N : Nat} {h1 h2 : List (TItem × Nat)} (h : HistSR N h1 h2) : h1.map (·.2) = h2.map (·.2) := by
  induction h with
  | nil => rfl
  | cons _ _ ih => simp [ih]

theorem histSR_values {N : Nat} {h1 h2 : List (TItem × Nat)} (h : HistSR N h1 h2) (j : Nat) (v : TVal) (o : Nat) :
    h1[j]? = some (.ok v, o) ↔ h2[j]? = some (.ok v, o) := by
  induction h generalizing j with
  | nil => simp
  | cons hi _ ih =>
    cases j with
    | zero =>
      simp only [List.getElem?_cons_zero, Option.some.injEq, Prod.mk.injEq]
      cases hi <;> simp
    | succ j => simpa using ih j

/-- … the corollary that reads like the property: same offsets after every call, the same values at the same calls -/
theorem c09_typed_stream_offsets (cfg : Machine.Cfg) (flt : Bool) (s : Schema) (bs : Bytes) (k : Nat) :
    (historyT { cfg := cfg, src := .slice, flt := flt } s k (start bs)).map (·.2) =
      (historyT { cfg := cfg, src := .reader, flt := flt } s k (start bs)).map (·.2) ∧
    ∀ (j : Nat) (v : TVal) (o : Nat), (historyT { cfg := cfg, src := .slice, flt := flt } s k (start bs))[j]? = some (TItem.ok v, o) ↔
      (historyT { cfg := cfg, src := .reader, flt := flt } s k (start bs))[j]? = some (TItem.ok v, o) :=
  ⟨histSR_offsets (c09_typed_stream_sources cfg flt s bs k), histSR_values (c09_typed_stream_sources cfg flt s bs k)⟩

/-! non-vacuity (C09). `[1][256][2]` as `Vec<u8>`: the second item is a visitor error, slice index 8, reader index 9 (the
`]` after `256` is peeked), offsets 3, 3, 3 from both. `"é" x` as `String`: identical from the three sources. -/
def exSR : Bytes := [0x5b, 0x31, 0x5d, 0x5b, 0x32, 0x35, 0x36, 0x5d, 0x5b, 0x32, 0x5d]
example : histIs (historyT { src := .slice } (.seq (.int .u8)) 3 (start exSR))
    [(.ok (.seq [.int 1]), 3), (.data (some 7), 3), (.none, 3)] = true := by decide +kernel
example : histIs (historyT { src := .reader } (.seq (.int .u8)) 3 (start exSR))
    [(.ok (.seq [.int 1]), 3), (.data (some 8), 3), (.none, 3)] = true := by decide +kernel
example : HistSR exSR.length (historyT { src := .slice } (.seq (.int .u8)) 3 (start exSR))
    (historyT { src := .reader } (.seq (.int .u8)) 3 (start exSR)) := c09_typed_stream_sources {} false _ _ 3
def exStr : Bytes := [0x22, 0xc3, 0xa9, 0x22, 0x20, 0x78]
example : histIs (historyT { src := .str } .string 3 (start exStr))
    [(.ok (.str [0xc3, 0xa9]), 4), (.err .ExpectedSomeValue 6, 5), (.none, 5)] = true := by decide +kernel
example : historyT { src := .str } .string 3 (start exStr) = historyT { src := .slice } .string 3 (start exStr) :=
  c09_typed_stream_str_slice {} false _ _ 3 (by decide +kernel)
/-- the hypothesis is needed (bytes no `&str` can hold) -/
example : histIs (historyT { src := .str } .string 1 (start [0x22, 0xff, 0x22])) [(.ok (.str [0xff]), 3)] = true ∧
    histIs (historyT { src := .slice } .string 1 (start [0x22, 0xff, 0x22])) [(.err .InvalidUnicodeCodePoint 3, 0)] = true := by
  decide +kernel

/-! ## C13 -/

/-- **C13 (streams of typed items over a failing reader).** Let the reader deliver exactly `bs` and then fail with an I/O
    error (`flt := true`); compare `n` calls with `n` calls on the same bytes followed by a clean end of input
    (`flt := false`). `HistFC`: either all `n` items are the clean run's, each a value or a `trailing characters` report
    of `peek_end_of_value` (the fault was not reached yet); or the failing stream's history is

    * a common prefix `pre` of such items — the SAME values, reports and offsets as the clean run —,
    * then exactly ONE terminal item: `Io`, or the clean run's own item at that call when that is a Syntax-classified
      parser error or a visitor (`Data`) error (raised on delivered bytes; with the same `byte_offset()`),
    * then `None` for every remaining call, `byte_offset()` unchanged.

    Never a value that the clean run does not yield, never an `Eof`-classified error, never `None` before the terminal
    item (a failing reader never reports the end of input), never a second error. Every schema, configuration, source. -/
theorem c13_typed_stream_fault (cfg : Machine.Cfg) (src : Src) (s : Schema) (bs : Bytes) (n : Nat) :
    HistFC n (historyT { cfg := cfg, src := src, flt := true } s n (start bs))
      (historyT { cfg := cfg, src := src, flt := false } s n (start bs)) :=
  historyT_fc cfg src s n (start bs) rfl

/-! non-vacuity (C13). `true` as `bool` then the fault: the value is complete but `peek_end_of_value` meets the I/O error —
`Io` (offset already 4), then `None`; with a clean end the value. `[1,]x` as `Vec<u8>`: the trailing comma is rejected on
delivered bytes in both runs. `1 2` then the fault, as `u8`: `1`, then `Io` inside the second number. -/
example : histIs (historyT { src := .reader, flt := true } .bool 3 (start [0x74, 0x72, 0x75, 0x65])) [(.io, 4), (.none, 4), (.none, 4)] = true ∧
    histIs (historyT { src := .reader, flt := false } .bool 3 (start [0x74, 0x72, 0x75, 0x65])) [(.ok (.bool true), 4), (.none, 4), (.none, 4)] = true := by
  decide +kernel
example : histIs (historyT { src := .reader, flt := true } (.seq (.int .u8)) 2 (start [0x5b, 0x31, 0x2c, 0x5d, 0x78]))
    [(.err .TrailingComma 4, 0), (.none, 0)] = true ∧
    histIs (historyT { src := .reader, flt := false } (.seq (.int .u8)) 2 (start [0x5b, 0x31, 0x2c, 0x5d, 0x78]))
    [(.err .TrailingComma 4, 0), (.none, 0)] = true := by decide +kernel
example : histIs (historyT { src := .reader, flt := true } (.int .u8) 3 (start [0x31, 0x20, 0x32]))
    [(.ok (.int 1), 1), (.io, 2), (.none, 2)] = true := by decide +kernel

/-! ## C10 -/

/-- **C10 (streams of typed items), every schema** — `bs.take k` against `bs`, in the shape of
    `c10_stream_prefix_partial`: as long as the stream over the whole input yields values (`hok`), the stream over the
    prefix yields the same values with the same `byte_offset()`s up to the ONE call `j` that runs into the cut, and that
    call yields `None` at the cut, a value ending exactly at the cut (a bare scalar cut short is a shorter scalar: the
    end of input delimits it), or an error positioned at the end of the prefix that is `Eof`-classified — or, `_partial`,
    the inherent `NumberOutOfRange` of a complete out-of-range float literal (open finding
    C10-out-of-range-number-prefix; only for schemas with an `f64` / `f32` / `Value` site: `c10_typed_stream_prefix`). -/
theorem c10_typed_stream_prefix_partial (env : Env) (hflt : env.flt = false) (s : Schema) (bs : Bytes) (k n : Nat)
    (hok : ∀ x ∈ historyT env s n (start bs), ∃ v, x.1 = .ok v) :
    historyT env s n (start (bs.take k)) = historyT env s n (start bs) ∨
    ∃ j, j < n ∧ historyT env s j (start (bs.take k)) = (historyT env s n (start bs)).take j ∧
      ∃ x, (historyT env s (j + 1) (start (bs.take k)))[j]? = some x ∧
        (x = (.none, (bs.take k).length) ∨ (∃ v', x = (.ok v', (bs.take k).length)) ∨
         ∃ c, x.1 = .err c (bs.take k).length ∧
           (classify c = .eof ∨ (Schema.rangeSite s = true ∧ c = .NumberOutOfRange))) := by
  have hcut : SJ.Proofs.StreamPrefix.CutOf (bs.drop k) (start bs) (start (bs.take k)) :=
    ⟨by simp [start], rfl, rfl, rfl, rfl⟩
  rcases historyT_prefix (A := fun c => classify c = .eof ∨ (Schema.rangeSite s = true ∧ c = .NumberOutOfRange)) hflt
      (fun _ h => .inl h) s (fun h => .inr ⟨h, rfl⟩) (bs.drop k) n (start bs) (start (bs.take k)) hcut hok with h | ⟨j, hj, h1, h2⟩
  · exact .inl h
  · refine .inr ⟨j, hj, h1, ?_⟩
    rw [historyT_get env s (j + 1) j _ (by omega), stateAfterT_succ]
    refine ⟨_, rfl, ?_⟩
    change AtEndItemT _ (0 + (bs.take k).length) _ at h2
    rw [Nat.zero_add] at h2
    rcases h2 with ⟨h3, h4⟩ | ⟨v', h3, h4, _⟩ | ⟨c, h3, h4⟩
    · left; rw [← h3, ← h4]
    · right; left; exact ⟨v', by rw [← h3, ← h4]⟩
    · right; right; exact ⟨c, h3, h4⟩

/-- **C10 (streams of typed items without a float / `Value` site)**: no exception — `None`, a value ending at the cut,
    or `Eof` at the cut. Covers streams of bool, the twelve integer widths, char, strings, bytes, unit, Option, newtype,
    Vec, tuples, maps with every key kind, structs, enums, `IgnoredAny`. -/
theorem c10_typed_stream_prefix (env : Env) (hflt : env.flt = false) (s : Schema) (hs : Schema.rangeSite s = false)
    (bs : Bytes) (k n : Nat) (hok : ∀ x ∈ historyT env s n (start bs), ∃ v, x.1 = .ok v) :
    historyT env s n (start (bs.take k)) = historyT env s n (start bs) ∨
    ∃ j, j < n ∧ historyT env s j (start (bs.take k)) = (historyT env s n (start bs)).take j ∧
      ∃ x, (historyT env s (j + 1) (start (bs.take k)))[j]? = some x ∧
        (x = (.none, (bs.take k).length) ∨ (∃ v', x = (.ok v', (bs.take k).length)) ∨
         ∃ c, x.1 = .err c (bs.take k).length ∧ classify c = .eof) := by
  rcases c10_typed_stream_prefix_partial env hflt s bs k n hok with h | ⟨j, hj, h1, x, hx, h2⟩
  · exact .inl h
  · refine .inr ⟨j, hj, h1, x, hx, ?_⟩
    rcases h2 with h2 | h2 | ⟨c, h3, h4⟩
    · exact .inl h2
    · exact .inr (.inl h2)
    · refine .inr (.inr ⟨c, h3, ?_⟩)
      rcases h4 with h4 | ⟨h4, _⟩
      · exact h4
      · rw [hs] at h4; cases h4

/-! non-vacuity (C10). `12 [3]`-like stream of `u8`: `12 3` yields 12 and 3; cut after `1` the stream yields `1` — a value
ending at the cut; as `Vec<u8>` items `[1] [2]` cut after `[1] [`: `[1]`, then `EofWhileParsingList` at index 5 with
`byte_offset()` 4. -/
def exP : Bytes := [0x31, 0x32, 0x20, 0x33]
example : histIs (historyT {} (.int .u8) 2 (start exP)) [(.ok (.int 12), 2), (.ok (.int 3), 4)] = true := by decide +kernel
example : histIs (historyT {} (.int .u8) 2 (start (exP.take 1))) [(.ok (.int 1), 1), (.none, 1)] = true := by decide +kernel
def exQ : Bytes := [0x5b, 0x31, 0x5d, 0x20, 0x5b, 0x32, 0x5d]
example : histIs (historyT {} (.seq (.int .u8)) 2 (start exQ)) [(.ok (.seq [.int 1]), 3), (.ok (.seq [.int 2]), 7)] = true := by
  decide +kernel
example : histIs (historyT {} (.seq (.int .u8)) 2 (start (exQ.take 5))) [(.ok (.seq [.int 1]), 3), (.err .EofWhileParsingList 5, 4)] = true := by
  decide +kernel


/-! ## C12: a stream of typed items yields exactly those items, in order, with exact offsets

The typed analogue of `c12_values`. The input is `w₀ x₁ w₁ … xₙ wₙ` (`TSeg` = item bytes `x`, value `v`, whitespace `w` after
it). There is no grammar of typed texts; an item is characterised by the item deserializer itself: `ItemOK env s P x v follow` —
`T::deserialize` (`deTyped` at depth 0 with the full fuel, exactly the call `next()` makes) started on the first byte of `x`
(absolute index `P`, not whitespace) with `follow` behind it returns `v` and leaves exactly `follow` unread. Each `wᵢ` is
whitespace (possibly empty) and the delimiter rule of `peek_end_of_value` holds (`DelimOK`: an item that does not start with
`[`, `{`, `"` is followed by the end of input or a byte of `Gen.streamDelims`). `expectedT` lists, for each item, `Some(Ok(vᵢ))`
with `byte_offset()` just past `xᵢ`, then `None` for every further call with `byte_offset()` past the trailing whitespace
(= the length of the input). What the theorem adds to the definition of `ItemOK` is the iterator's frame: the whitespace
skipped before each item, the offsets, the `peek_end_of_value` test that never fires, no failure, the end.

`ItemOK` is available wholesale for the texts of the C16 / C04 text-leg theorems (`Agree1`, `itemOK_of_agree1`):
`c12_typed_values_agree` — items that `deTyped` accepts in front of every admissible follower, separated by NON-EMPTY
whitespace. -/

open SJ.Proofs.StreamTypedValues SJ.Proofs.StreamValues in
/-- **C12 (typed items: values and offsets).** `n + k` calls of `next()` on a well-formed stream of `n` typed items
    (no failing reader). -/
theorem c12_typed_values (env : Env) (hflt : env.flt = false) (s : Schema) (w₀ : Bytes) (segs : List TSeg) (k : Nat)
    (hw : Spec.Grammar.Ws w₀) (hok : TStreamOK env s w₀.length segs) :
    historyT env s (segs.length + k) (start (w₀ ++ tsegsBytes segs)) = expectedT w₀.length segs k := by
  have := historyT_values env hflt s k segs w₀ 0 0 hw (by simpa using hok)
  simpa [start] using this

open SJ.Proofs.StreamTypedValues in
/-- reading `expectedT`: the `i`-th item is the `i`-th value, its offset is the length of the input up to and including that item -/
theorem c12_typed_expected_at (segs : List TSeg) (k base : Nat) (i : Nat) (hi : i < segs.length) :
    (expectedT base segs k)[i]? = some (.ok segs[i].v, base + (tsegsBytes (segs.take i)).length + segs[i].x.length) := by
  induction segs generalizing base i with
  | nil => simp at hi
  | cons sg r ih =>
    cases i with
    | zero => simp [expectedT, tsegsBytes]
    | succ j =>
      have hj := ih (base + sg.x.length + sg.w.length) j (by simpa using hi)
      simp only [expectedT, List.getElem?_cons_succ, hj, List.take_succ_cons, tsegsBytes, List.length_append,
        List.getElem_cons_succ]
      congr 3; omega

open SJ.Proofs.StreamTypedValues in
/-- … and after the items come `k` times `None`, at the offset of the end of the input -/
theorem c12_typed_expected_end (segs : List TSeg) (k base : Nat) :
    (expectedT base segs k).drop segs.length = List.replicate k (.none, base + (tsegsBytes segs).length) := by
  induction segs generalizing base with
  | nil => simp [expectedT, tsegsBytes]
  | cons sg r ih =>
    simp only [expectedT, List.length_cons, List.drop_succ_cons, ih, tsegsBytes, List.length_append]
    congr 2; omega

open SJ.Proofs.StreamTypedValues SJ.Proofs.StreamValues in
/-- the stream conditions from the text-leg agreement: every item text is accepted with its value in front of every
    admissible follower (`Agree1`), starts on a non-whitespace byte, and is followed by non-empty whitespace (the last one
    by any whitespace) -/
def AgreeStream (env : Env) (s : Schema) : List TSeg → Prop
  | [] => True
  | sg :: r => (∃ b tl, sg.x = b :: tl ∧ Machine.isWs b = false) ∧
      SJ.Proofs.Typed.Agree1 (deTyped env (Schema.size s + 1) 0 s) (.ok sg.v) sg.x ∧
      Spec.Grammar.Ws sg.w ∧ (r ≠ [] → sg.w ≠ []) ∧ AgreeStream env s r

open SJ.Proofs.StreamTypedValues SJ.Proofs.StreamValues in
theorem agreeStream_ok (env : Env) (s : Schema) : ∀ (segs : List TSeg) (P : Nat), AgreeStream env s segs →
    TStreamOK env s P segs := by
  intro segs
  induction segs with
  | nil => intro _ _; trivial
  | cons sg r ih =>
    intro P ⟨hhead, hag, hws, hne, hrest⟩
    -- what follows the item is empty or starts with a whitespace byte
    have hfol : sg.w ++ tsegsBytes r = [] ∨ ∃ c tl, sg.w ++ tsegsBytes r = c :: tl ∧ Machine.isWs c = true := by
      cases hw : sg.w with
      | nil =>
        cases r with
        | nil => left; simp [tsegsBytes]
        | cons a r' => exact absurd hw (hne (by simp))
      | cons c tl =>
        right
        refine ⟨c, tl ++ tsegsBytes r, by simp, ?_⟩
        rw [hw] at hws
        simp only [Spec.Grammar.Ws, List.all_cons, Bool.and_eq_true] at hws
        rw [SJ.Proofs.Complete.isWs_eq]; exact hws.1
    refine ⟨itemOK_of_agree1 env s _ _ _ P hhead hag ?_, hws, ?_, ih _ hrest⟩
    · rcases hfol with h | ⟨c, tl, h, hc⟩
      · exact Or.inl h
      · exact Or.inr ⟨c, tl, h, Or.inr (Or.inr (Or.inr (Or.inr hc)))⟩
    · rcases hfol with h | ⟨c, tl, h, hc⟩
      · exact Or.inr (Or.inl h)
      · refine Or.inr (Or.inr ⟨c, tl, h, ?_⟩)
        rcases SJ.Proofs.Typed.isWs_cases hc with rfl | rfl | rfl | rfl <;> decide

open SJ.Proofs.StreamTypedValues in
/-- **C12 (typed items), for the texts of the C16 / C04 text leg.** -/
theorem c12_typed_values_agree (env : Env) (hflt : env.flt = false) (s : Schema) (w₀ : Bytes) (segs : List TSeg) (k : Nat)
    (hw : Spec.Grammar.Ws w₀) (hok : AgreeStream env s segs) :
    historyT env s (segs.length + k) (start (w₀ ++ tsegsBytes segs)) = expectedT w₀.length segs k :=
  c12_typed_values env hflt s w₀ segs k hw (agreeStream_ok env s segs _ hok)

/-! non-vacuity: ` [true] [false,true]x`-like stream of `Vec<bool>` items: ` [true][false ,true] ` (the two items touch: both
    self-delineated) yields the two vectors at offsets 7 and 20, then `None` at 21 -/
section
open SJ.Proofs.StreamTypedValues
def exTSegs : List TSeg :=
  [⟨[0x5b, 0x74, 0x72, 0x75, 0x65, 0x5d], .seq [.bool true], []⟩,
   ⟨[0x5b, 0x66, 0x61, 0x6c, 0x73, 0x65, 0x20, 0x2c, 0x74, 0x72, 0x75, 0x65, 0x5d], .seq [.bool false, .bool true], [0x20]⟩]
theorem exTSegs_ok : TStreamOK {} (.seq .bool) 1 exTSegs :=
  ⟨⟨⟨0x5b, _, rfl, by decide⟩, rfl⟩, by decide, Or.inl ⟨0x5b, _, rfl, by decide⟩,
   ⟨⟨0x5b, _, rfl, by decide⟩, rfl⟩, by decide, Or.inl ⟨0x5b, _, rfl, by decide⟩, trivial⟩
example : historyT {} (.seq .bool) (2 + 2) (start ([0x20] ++ tsegsBytes exTSegs)) = expectedT 1 exTSegs 2 :=
  c12_typed_values {} rfl (.seq .bool) [0x20] exTSegs 2 (by decide) exTSegs_ok
example : histIs (expectedT 1 exTSegs 2)
    [(.ok (.seq [.bool true]), 7), (.ok (.seq [.bool false, .bool true]), 20), (.none, 21), (.none, 21)] = true := by decide +kernel
end

end SJ.Props.StreamTyped
