import SJ.Model.RawConv
import SJ.Props.C19Nested
import SJ.Props.C03
import SJ.Props.C04
import SJ.Props.C01
import SJ.Proofs.Schema
/-!
# C19 — `RawValue` ⇄ `Value`: "serialises back … also through `to_value`"

`Model.RawConv.toValueRaw cfg text` is `to_value(&raw)` for a `RawValue` holding `text` (`RawValueEmitter` parses the
text with `from_str::<Value>`); `Model.RawConv.fromValueRaw ext v` is the text of `from_value::<Box<RawValue>>(v)`
(`OwnedRawDeserializer` over `v.to_string()`).

* `c19_to_value`: for the text CAPTURED from a document, `to_value` gives exactly the `Value` the document itself
  deserialises to — `to_value(from_*::<Box<RawValue>>(doc)) = from_str::<Value>(doc)` — and succeeds only then;
* `c19_to_value_canon`: for any text, `to_value` succeeds with `v` iff the text is a JSON text whose tree denotes `v`
  (`canonM`, = `Spec.Canon.canon`) within the limits the `Value` parser enforces (depth, surrogate pairing, range);
* `c19_from_value`: `from_value::<Box<RawValue>>(v)` never fails and holds the compact text `to_string(&v)` — one
  grammar value, no whitespace around it — and `to_value` of it is `v` again (C04's hypotheses).
-/
namespace SJ.Props.C19
open SJ SJ.Gen SJ.Model.Machine SJ.Model.Stream SJ.Model.Raw SJ.Proofs.Machine SJ.Model.RawConv
open SJ.Spec.Grammar (CST Ws Derives JsonText depth surrogatesPaired)
open SJ.Proofs.CanonM SJ.Proofs.RawNested SJ.Proofs.RawSpan SJ.Proofs.Complete

theorem take_drop_split (bs : Bytes) (p e : Nat) (h1 : p ≤ e) (_h2 : e ≤ bs.length) :
    bs = bs.take p ++ (bs.drop p).take (e - p) ++ bs.drop e := by
  have : bs.drop e = (bs.drop p).drop (e - p) := by rw [List.drop_drop]; congr 1; omega
  rw [this, List.append_assoc, List.take_append_drop, List.take_append_drop]

/-- two readings `w₁ v₁ w₁'` and `w₂ v₂ w₂'` of the same bytes, each a grammar value between whitespace, single out
    the same value (both are what the `&str` capture model returns) -/
theorem value_unique (cfg : Cfg) (w₁ v₁ w₁' w₂ v₂ w₂' : Bytes) (t₁ t₂ : CST) (h : w₁ ++ v₁ ++ w₁' = w₂ ++ v₂ ++ w₂')
    (hw₁ : Ws w₁) (hw₁' : Ws w₁') (hw₂ : Ws w₂) (hw₂' : Ws w₂') (hd₁ : Derives v₁ t₁) (hd₂ : Derives v₂ t₂) : v₁ = v₂ := by
  have e1 := c19_top_complete cfg .str w₁ v₁ w₁' t₁ hw₁ hw₁' hd₁ (fun h => absurd rfl h)
  have e2 := c19_top_complete cfg .str w₂ v₂ w₂' t₂ hw₂ hw₂' hd₂ (fun h => absurd rfl h)
  rw [h, e2] at e1
  simp only [ROut.ok.injEq] at e1
  obtain ⟨hl, hl2⟩ := e1
  have hlen : v₁.length = v₂.length := by omega
  have h1 : ((w₁ ++ v₁ ++ w₁').drop w₁.length).take v₁.length = v₁ := by
    rw [List.append_assoc, List.drop_left' rfl, List.take_left' rfl]
  have h2 : ((w₂ ++ v₂ ++ w₂').drop w₂.length).take v₂.length = v₂ := by
    rw [List.append_assoc, List.drop_left' rfl, List.take_left' rfl]
  rw [← h1, ← h2, h, hl, hlen]

/-- **C19 (`to_value` of a captured text).** Let `from_*::<Box<RawValue>>` (any source) capture `bs[p..e]` from the
    document `bs`. Then `to_value` of that `RawValue` succeeds with `v` **iff** the document itself deserialises into
    the `Value` `v` (from a `&str`) — `to_value(raw)` is the `Value` of the text it was captured from, and it fails
    exactly when `from_str::<Value>` of the document fails (a lone surrogate escape, a number out of range, nesting
    beyond the recursion limit: what the scanner that delimits a `RawValue` does not check). -/
theorem c19_to_value (cfg : Cfg) (src : Src) (bs : Bytes) (p e : Nat) (h : rawTop cfg src bs = .ok p e) (v : JV) :
    toValueRaw cfg ((bs.drop p).take (e - p)) = .ok v ↔ parseTop ⟨cfg, .str, .value⟩ bs = .ok v := by
  obtain ⟨t', hd', hwp, hwe, hlt, hle, _⟩ := c19_top_span cfg src bs p e h
  have hsplit := take_drop_split bs p e (by omega) hle
  unfold toValueRaw
  constructor
  · intro hv
    obtain ⟨t, ⟨w₁, v0, w₂, hc, hw₁, hw₂, hd⟩, hcan, hdep, hsur, hutf, hnum⟩ :=
      SJ.Props.C02.c02_denotes ⟨cfg, .str, .value⟩ rfl _ v hv
    have hbs : bs = bs.take p ++ (w₁ ++ v0 ++ w₂) ++ bs.drop e := by rw [← hc]; exact hsplit
    have hjt : JsonText bs t :=
      ⟨bs.take p ++ w₁, v0, w₂ ++ bs.drop e, hbs.trans (by simp [List.append_assoc]), ws_append hwp hw₁,
        ws_append hw₂ hwe, hd⟩
    obtain ⟨v', hp, hc'⟩ := SJ.Props.C01.c01_complete_value ⟨cfg, .str, .value⟩ rfl bs t hjt hdep hsur hutf hnum
    rw [hcan] at hc'; cases hc'
    exact hp
  · intro hv
    obtain ⟨t, ⟨w₁, v0, w₂, hc, hw₁, hw₂, hd⟩, hcan, hdep, hsur, hutf, hnum⟩ :=
      SJ.Props.C02.c02_denotes ⟨cfg, .str, .value⟩ rfl bs v hv
    have heq : (bs.drop p).take (e - p) = v0 :=
      value_unique cfg _ _ _ _ _ _ t' t (by rw [← hsplit, ← hc]) hwp hwe hw₁ hw₂ hd' hd
    rw [heq]
    obtain ⟨v', hp, hc'⟩ := SJ.Props.C01.c01_complete_value ⟨cfg, .str, .value⟩ rfl v0 t
      ⟨[], v0, [], by simp, ws_nil, ws_nil, hd⟩ hdep hsur hutf hnum
    rw [hcan] at hc'; cases hc'
    exact hp

/-- … whatever source the document was (or is) read from: if `from_slice` / `from_reader::<Value>` accept it with `v`,
    `to_value` of the captured `RawValue` is `v` -/
theorem c19_to_value_of_parse (cfg : Cfg) (src src' : Src) (bs : Bytes) (p e : Nat) (h : rawTop cfg src bs = .ok p e)
    (v : JV) (hv : parseTop ⟨cfg, src', .value⟩ bs = .ok v) : toValueRaw cfg ((bs.drop p).take (e - p)) = .ok v := by
  obtain ⟨t', hd', hwp, hwe, hlt, hle, _⟩ := c19_top_span cfg src bs p e h
  have hsplit := take_drop_split bs p e (by omega) hle
  obtain ⟨t, ⟨w₁, v0, w₂, hc, hw₁, hw₂, hd⟩, hcan, hdep, hsur, _, hnum⟩ :=
    SJ.Props.C02.c02_denotes ⟨cfg, src', .value⟩ rfl bs v hv
  have heq : (bs.drop p).take (e - p) = v0 :=
    value_unique cfg _ _ _ _ _ _ t' t (by rw [← hsplit, ← hc]) hwp hwe hw₁ hw₂ hd' hd
  rw [heq]
  obtain ⟨v', hp, hc'⟩ := SJ.Props.C01.c01_complete_value ⟨cfg, .str, .value⟩ rfl v0 t
    ⟨[], v0, [], by simp, ws_nil, ws_nil, hd⟩ hdep hsur (fun h => absurd rfl h) hnum
  rw [hcan] at hc'; cases hc'
  exact hp

/-- **C19 (`to_value`, any text).** `to_value(&raw)` succeeds with `v` **iff** the text is a JSON text whose syntax tree
    `t` denotes `v` (`canonM cfg t = some v`; `canonM = Spec.Canon.canon`, `c02_canonM_eq_canon`) and stays within what
    the `Value` parser enforces: nesting depth ≤ 127 (unless `unbounded_depth`), surrogate escapes paired, numbers in
    range. (A `RawValue` always holds a JSON text — `c19_top_span`, `c19_field_capture` — so these three are the only
    ways `to_value` of a `RawValue` fails.) -/
theorem c19_to_value_canon (cfg : Cfg) (text : Bytes) (v : JV) :
    toValueRaw cfg text = .ok v ↔
    ∃ t, JsonText text t ∧ canonM cfg t = some v ∧ (cfg.limitOff = true ∨ depth t ≤ 127) ∧ surrogatesPaired t = true ∧
      Spec.Canon.numbersInRange (specCfg cfg) t = true := by
  unfold toValueRaw
  constructor
  · intro h
    obtain ⟨t, h1, h2, h3, h4, _, h6⟩ := SJ.Props.C02.c02_denotes ⟨cfg, .str, .value⟩ rfl text v h
    exact ⟨t, h1, h2, h3, h4, h6⟩
  · rintro ⟨t, h1, h2, h3, h4, h6⟩
    obtain ⟨v', hp, hc'⟩ := SJ.Props.C01.c01_complete_value ⟨cfg, .str, .value⟩ rfl text t h1 h3 h4
      (fun h => absurd rfl h) h6
    rw [h2] at hc'; cases hc'
    exact hp

open SJ.Model.Ser SJ.Spec.Program SJ.Spec.Image SJ.Spec.WF SJ.Props.C03 SJ.Props.C04 in
/-- **C19 (`from_value`).** `from_value::<Box<RawValue>>(v)` cannot fail (`Display for Value` cannot) and the
    `RawValue` holds exactly the bytes of `serde_json::to_string(&v)`: the compact rendering
    `render (imageOfValue ext v)`, which is ONE grammar value from its first to its last byte (no whitespace around it:
    it is a valid `RawValue`) and denotes `v`'s image; and `to_value` of that `RawValue` is `v` again for every
    well-formed `v` whose floats the printer / parser pair returns (C04's hypotheses; none under
    `arbitrary_precision`, none for float-free values). -/
theorem c19_from_value (cfg : Cfg) (ext : Ext) (hext : ExtOK ext) (v : JV) :
    ∃ s, fromValueRaw ext v = some s ∧ SJ.Model.Display.toString ext v = .ok s ∧
      (valueLitsOK v = true → s = render (imageOfValue ext v) ∧ Derives s (cstOf (imageOfValue ext v))) ∧
      (WFValue cfg v → FloatsRoundTrip cfg ext v → toValueRaw cfg s = .ok v) := by
  obtain ⟨⟨s, hs, hf, hr⟩, _, _⟩ := c03_display ext hext v
  refine ⟨s, hf, hs, fun hl => ⟨hr hl, ?_⟩, fun hwf hfl => ?_⟩
  · rw [hr hl]; exact (c03_value ext hext v hl).2.2.1
  · obtain ⟨bufs, hb, hp⟩ := c04_value cfg .str ext hext v hwf hfl
    have : s = bufs.flatten := by
      simp only [SJ.Model.Display.toString, hb, Except.map] at hs
      cases hs; rfl
    rw [this]; exact hp

/-! ## non-vacuity -/

/-- ` {"a" : [1 , 2]} ` captured (bytes 1..16) and passed to `to_value`: the `Value` of the document -/
def exDocTV : Bytes := [0x20, 0x7b, 0x22, 0x61, 0x22, 0x20, 0x3a, 0x20, 0x5b, 0x31, 0x20, 0x2c, 0x20, 0x32, 0x5d, 0x7d, 0x20]
theorem exDocTV_value : parseTop ⟨{}, .str, .value⟩ exDocTV = .ok (.obj [([0x61], .arr [.num (.pos 1), .num (.pos 2)])]) := by
  have h : Outcome.isOk (parseTop ⟨{}, .str, .value⟩ exDocTV) (.obj [([0x61], .arr [.num (.pos 1), .num (.pos 2)])]) = true := by
    decide +kernel
  cases hp : parseTop ⟨{}, .str, .value⟩ exDocTV with
  | err c i => rw [hp] at h; cases h
  | ok v => rw [hp] at h; rw [SJ.JV.eq_of_beq _ _ h]
example : rawTop {} .reader exDocTV = .ok 1 16 := rfl
example : toValueRaw {} ((exDocTV.drop 1).take (16 - 1)) = .ok (.obj [([0x61], .arr [.num (.pos 1), .num (.pos 2)])]) :=
  (c19_to_value {} .reader exDocTV 1 16 rfl _).mpr exDocTV_value
/-- `"\ud800"` is a valid `RawValue` (the scanner does not pair surrogates) whose `to_value` fails -/
example : rawTop {} .slice [0x22, 0x5c, 0x75, 0x64, 0x38, 0x30, 0x30, 0x22] = .ok 0 8 := rfl
example : Outcome.isErr (toValueRaw {} [0x22, 0x5c, 0x75, 0x64, 0x38, 0x30, 0x30, 0x22]) .UnexpectedEndOfHexEscape 8 = true := by
  decide +kernel
/-- `from_value::<Box<RawValue>>({"k":[null,-7]})` holds `{"k":[null,-7]}` -/
example : fromValueRaw SJ.Props.C03.ext0 (.obj [([0x6b], .arr [.null, .num (.neg (-7))])]) =
    some [0x7b, 0x22, 0x6b, 0x22, 0x3a, 0x5b, 0x6e, 0x75, 0x6c, 0x6c, 0x2c, 0x2d, 0x37, 0x5d, 0x7d] := by decide +kernel

end SJ.Props.C19
