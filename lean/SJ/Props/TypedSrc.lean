import SJ.Proofs.TypedSrc
import SJ.Proofs.TypedWithin
import SJ.Props.Typed
/-!
# C09, typed targets: the three sources of the typed text deserializer model

`c09_typed_slice_reader` relates `deTypedTop` with `src = .slice` and with `src = .reader` on every
configuration, schema and byte string (also in fault mode); `c09_typed_str_slice` relates `src = .str`
and `src = .slice` on valid UTF-8 (what the type `&str` guarantees). Op `tt3` (`SJ/Drv/Typed.lean`,
`judgePair`) evaluates the same clause on the crate's three outcomes; `c09_typed_slice_reader_class`
is that predicate, proved of the model.
-/
namespace SJ.Props.TypedSrc
open SJ SJ.Gen SJ.Model SJ.Model.Typed SJ.Proofs.Typed SJ.Props.Typed
open SJ.Model.Machine (Src)

/-- **Typed errors lie within the input** (typed analogue of `c11_within_input`): the index of every parser error and of
    every positioned visitor error of the typed deserializer counts at most the bytes of the input — from every source, in
    every configuration, also under a failing reader. -/
theorem typed_within_input (env : Env) (s : Schema) (bs : Bytes) :
    (∀ c i, deTypedTop env s bs = .err c i → i ≤ bs.length) ∧ (∀ i, deTypedTop env s bs = .data (some i) → i ≤ bs.length) :=
  win_deTypedTop env s bs

/-- **C09 (typed targets, slice vs reader).** For every configuration, schema and byte string — with a clean end of
    input or a failing reader alike — the typed deserializer's outcome from a byte slice and from an `io::Read` are
    *identical* (same value; same parser error code at the same index; same visitor error at the same index; both
    unpositioned; both `Io`), with exactly two exceptions, in both of which the READER's index is the slice's plus one
    (never the other way round) and the slice's index `i` is that of a byte of the input (`i < |bs|`: the byte the reader
    has pulled into its peek slot and counts):

    * a parser error whose code is `NumberOutOfRange`, `ExpectedNumericKey` or `ExpectedSomeValue` (`PeekCode`): the three
      sites that call `self.error(code)` — i.e. `read.position()` — while a byte is in the peek slot
      (`do_deserialize_i128/u128` after `scan_integer128`, `deserialize_numeric_key!` after `peek()`, `deserialize_enum`
      after `parse_whitespace()` found a byte other than `}`);
    * a visitor (`Data`) error, which `fix_position` positions with `read.position()`: one more for the reader when the
      byte that ended a number / the byte after which `end_seq` / `end_map` stopped / the `[` or `{` seen by
      `peek_invalid_type` is peeked.

    Every other error is created by `peek_error` (slice: `min(len, index + 1)` = the reader's count), after `next_char()`,
    or inside the byte-step machine (`runPfx_src`: identical from both sources), and agrees. -/
theorem c09_typed_slice_reader (cfg : Machine.Cfg) (flt : Bool) (s : Schema) (bs : Bytes) :
    deTypedTop { cfg := cfg, src := .slice, flt := flt } s bs = deTypedTop { cfg := cfg, src := .reader, flt := flt } s bs ∨
    (∃ c i, PeekCode c ∧ i < bs.length ∧ deTypedTop { cfg := cfg, src := .slice, flt := flt } s bs = .err c i ∧
      deTypedTop { cfg := cfg, src := .reader, flt := flt } s bs = .err c (i + 1)) ∨
    (∃ i, i < bs.length ∧ deTypedTop { cfg := cfg, src := .slice, flt := flt } s bs = .data (some i) ∧
      deTypedTop { cfg := cfg, src := .reader, flt := flt } s bs = .data (some (i + 1))) := by
  have hw := typed_within_input { cfg := cfg, src := .reader, flt := flt } s bs
  revert hw
  have h : SR (deTyped { cfg := cfg, src := .slice, flt := flt } (Schema.size s + 1) 0 s bs 0)
      (deTyped { cfg := cfg, src := .reader, flt := flt } (Schema.size s + 1) 0 s bs 0) :=
    sr_deTyped cfg flt (Schema.size s + 1) 0 s bs 0
  unfold deTypedTop
  generalize deTyped { cfg := cfg, src := .slice, flt := flt } (Schema.size s + 1) 0 s bs 0 = a at h
  generalize deTyped { cfg := cfg, src := .reader, flt := flt } (Schema.size s + 1) 0 s bs 0 = b at h
  cases h with
  | same => intro _; exact .inl (by cases a <;> rfl)
  | errP c i hc => intro hw; exact .inr (.inl ⟨c, i, hc, hw.1 c (i + 1) rfl, rfl, rfl⟩)
  | dataP i => intro hw; exact .inr (.inr ⟨i, hw.2 (i + 1) rfl, rfl, rfl⟩)

/-- outcome without its index -/
inductive Cls where
  | ok (v : TVal)
  | err (c : Code)
  | data (positioned : Bool)
  | io
  | fuel

def cls : Top → Cls
  | .ok v => .ok v
  | .err c _ => .err c
  | .data i => .data i.isSome
  | .io => .io
  | .fuel => .fuel

/-- the index an error's position counts (0 when there is none) -/
def idx : Top → Nat
  | .err _ i => i
  | .data (some i) => i
  | _ => 0

/-- **C09 (typed targets), as the clause reads** (and as `judgePair` in `SJ/Drv/Typed.lean` evaluates it on the crate's
    outcomes): slice and reader give the same class of outcome — both the same value, or both the same parser error
    code (hence message and category), or both a visitor error (category `Data`), positioned or not alike — and the
    reported index differs by at most one byte, the reader's being the larger. -/
theorem c09_typed_slice_reader_class (cfg : Machine.Cfg) (flt : Bool) (s : Schema) (bs : Bytes) :
    cls (deTypedTop { cfg := cfg, src := .slice, flt := flt } s bs) = cls (deTypedTop { cfg := cfg, src := .reader, flt := flt } s bs) ∧
    (idx (deTypedTop { cfg := cfg, src := .reader, flt := flt } s bs) = idx (deTypedTop { cfg := cfg, src := .slice, flt := flt } s bs) ∨
     idx (deTypedTop { cfg := cfg, src := .reader, flt := flt } s bs) = idx (deTypedTop { cfg := cfg, src := .slice, flt := flt } s bs) + 1) := by
  rcases c09_typed_slice_reader cfg flt s bs with h | ⟨c, i, _, _, h1, h2⟩ | ⟨i, _, h1, h2⟩
  · rw [h]; exact ⟨rfl, .inl rfl⟩
  · rw [h1, h2]; exact ⟨rfl, .inr rfl⟩
  · rw [h1, h2]; exact ⟨rfl, .inr rfl⟩

/-- … in particular a value from one source is the same value from the other -/
theorem c09_typed_slice_reader_ok (cfg : Machine.Cfg) (flt : Bool) (s : Schema) (bs : Bytes) (v : TVal) :
    deTypedTop { cfg := cfg, src := .slice, flt := flt } s bs = .ok v ↔ deTypedTop { cfg := cfg, src := .reader, flt := flt } s bs = .ok v := by
  rcases c09_typed_slice_reader cfg flt s bs with h | ⟨c, i, _, _, h1, h2⟩ | ⟨i, _, h1, h2⟩
  · rw [h]
  · rw [h1, h2]; simp
  · rw [h1, h2]; simp

/-- … and a parser error outside the three `self.error`-with-a-peeked-byte sites is reported at the same index -/
theorem c09_typed_slice_reader_err (cfg : Machine.Cfg) (flt : Bool) (s : Schema) (bs : Bytes) (c : Code) (i : Nat)
    (hc : ¬ PeekCode c) (h : deTypedTop { cfg := cfg, src := .slice, flt := flt } s bs = .err c i) :
    deTypedTop { cfg := cfg, src := .reader, flt := flt } s bs = .err c i := by
  rcases c09_typed_slice_reader cfg flt s bs with h' | ⟨c', i', hc', _, h1, _⟩ | ⟨i', _, h1, _⟩
  · rw [← h', h]
  · rw [h] at h1; cases h1; exact absurd hc' hc
  · rw [h] at h1; cases h1

/-- **C09 (typed targets, `&str` vs slice).** The model of the `&str` source differs from the slice source in one place
    only — `as_str`'s UTF-8 check of a decoded string is skipped (`StrRead` uses `from_utf8_unchecked`); positions are
    computed alike. A `&str` is valid UTF-8, and on every valid UTF-8 input the two sources give the IDENTICAL outcome
    (value, or error with the same code / class at the same index) for every schema and configuration: outside strings
    the typed parser consumes ASCII bytes only, so every string it starts to read begins on a character boundary of
    valid UTF-8 and the skipped check would not have fired (`runPfx_str_slice`). -/
theorem c09_typed_str_slice (cfg : Machine.Cfg) (flt : Bool) (s : Schema) (bs : Bytes) (h : Spec.Utf8.validUtf8 bs = true) :
    deTypedTop { cfg := cfg, src := .str, flt := flt } s bs = deTypedTop { cfg := cfg, src := .slice, flt := flt } s bs := by
  show deTypedTop (eStr cfg flt) s bs = deTypedTop (eSlice cfg flt) s bs
  unfold deTypedTop
  rw [su_deTyped cfg flt _ 0 s bs 0 h]
  rfl

/-- **C09 (typed targets).** On valid UTF-8 input all three sources: `&str` = slice exactly, slice and reader as in
    `c09_typed_slice_reader_class`. -/
theorem c09_typed_all_sources (cfg : Machine.Cfg) (s : Schema) (bs : Bytes) (h : Spec.Utf8.validUtf8 bs = true) :
    deTypedTop { cfg := cfg, src := .str } s bs = deTypedTop { cfg := cfg, src := .slice } s bs ∧
    cls (deTypedTop { cfg := cfg, src := .slice } s bs) = cls (deTypedTop { cfg := cfg, src := .reader } s bs) ∧
    (idx (deTypedTop { cfg := cfg, src := .reader } s bs) = idx (deTypedTop { cfg := cfg, src := .slice } s bs) ∨
     idx (deTypedTop { cfg := cfg, src := .reader } s bs) = idx (deTypedTop { cfg := cfg, src := .slice } s bs) + 1) :=
  ⟨c09_typed_str_slice cfg false s bs h, c09_typed_slice_reader_class cfg false s bs⟩

/-! ## non-vacuity: each exception arises, each is a one-byte shift of the reader -/

-- `256 ` as `u8`: visitor error (`invalid value`), fixed with the space after the number peeked: slice 3, reader 4
example : Top.isData (deTypedTop { src := .slice } (.int .u8) [0x32, 0x35, 0x36, 0x20]) (some 3) = true := by decide +kernel
example : Top.isData (deTypedTop { src := .reader } (.int .u8) [0x32, 0x35, 0x36, 0x20]) (some 4) = true := by decide +kernel
-- … at the very end of the input nothing is peeked: both 3
example : Top.isData (deTypedTop { src := .reader } (.int .u8) [0x32, 0x35, 0x36]) (some 3) = true := by decide +kernel
-- `[1]` as bool: `peek_invalid_type` sees `[` peeked: slice 0, reader 1
example : Top.isData (deTypedTop { src := .slice } .bool [0x5b, 0x31, 0x5d]) (some 0) = true := by decide +kernel
example : Top.isData (deTypedTop { src := .reader } .bool [0x5b, 0x31, 0x5d]) (some 1) = true := by decide +kernel
-- `{"x":1}` with `u8` keys: `ExpectedNumericKey` by `self.de.error` with `x` peeked: slice 2, reader 3
example : Top.isErr (deTypedTop { src := .slice } (.map (.int .u8) .bool) [0x7b, 0x22, 0x78, 0x22, 0x3a, 0x31, 0x7d]) .ExpectedNumericKey 2 = true := by
  decide +kernel
example : Top.isErr (deTypedTop { src := .reader } (.map (.int .u8) .bool) [0x7b, 0x22, 0x78, 0x22, 0x3a, 0x31, 0x7d]) .ExpectedNumericKey 3 = true := by
  decide +kernel
-- `{"V":true,}` for an enum: `ExpectedSomeValue` by `self.error` with `,` peeked: slice 9, reader 10
example : Top.isErr (deTypedTop { src := .slice } (.enum_ [([0x56], .newtype .bool)])
    [0x7b, 0x22, 0x56, 0x22, 0x3a, 0x74, 0x72, 0x75, 0x65, 0x2c, 0x7d]) .ExpectedSomeValue 9 = true := by decide +kernel
example : Top.isErr (deTypedTop { src := .reader } (.enum_ [([0x56], .newtype .bool)])
    [0x7b, 0x22, 0x56, 0x22, 0x3a, 0x74, 0x72, 0x75, 0x65, 0x2c, 0x7d]) .ExpectedSomeValue 10 = true := by decide +kernel
-- a `peek_error` site agrees: `[1,]` as `Vec<u8>`, trailing comma at 4 from both
example : Top.isErr (deTypedTop { src := .slice } (.seq (.int .u8)) [0x5b, 0x31, 0x2c, 0x5d]) .TrailingComma 4 = true := by decide +kernel
example : Top.isErr (deTypedTop { src := .reader } (.seq (.int .u8)) [0x5b, 0x31, 0x2c, 0x5d]) .TrailingComma 4 = true := by decide +kernel
example : ¬ PeekCode .TrailingComma := by intro h; rcases h with h | h | h <;> cases h

-- `&str` vs slice: the hypothesis is needed. `"\xff"` is not a `&str`; the model of the `&str` source would return it
-- unchecked as a `String`, the slice source rejects it (`InvalidUnicodeCodePoint` at the closing quote) …
example : Top.isOk (deTypedTop { src := .str } .string [0x22, 0xff, 0x22]) (.str [0xff]) = true := by decide +kernel
example : Top.isErr (deTypedTop { src := .slice } .string [0x22, 0xff, 0x22]) .InvalidUnicodeCodePoint 3 = true := by decide +kernel
-- … and on `["é"]` (valid UTF-8) both give the string
example : Top.isOk (deTypedTop { src := .str } (.seq .string) [0x5b, 0x22, 0xc3, 0xa9, 0x22, 0x5d]) (.seq [.str [0xc3, 0xa9]]) = true := by
  decide +kernel
example : deTypedTop { src := .slice } (.seq .string) [0x5b, 0x22, 0xc3, 0xa9, 0x22, 0x5d] =
    deTypedTop { src := .str } (.seq .string) [0x5b, 0x22, 0xc3, 0xa9, 0x22, 0x5d] :=
  (c09_typed_str_slice {} false _ _ (by decide +kernel)).symm

end SJ.Props.TypedSrc
