import SJ.Proofs.C02Floats
/-!
# C02 ∘ C07 / C08 — the float leaves of a parsed `Value`

`c02_value_is_canon` (C01Iff) says: whatever `from_str` / `from_slice` / `from_reader::<Value>` returns is
`Spec.Canon.canon` of a syntax tree of the text. For a number node `canon` is `Spec.Canon.numOf`, which is *defined* as
the configured conversion (`Model.Num.convertRoundtrip` / `convertDefault`), so by itself that theorem says nothing about
the accuracy of float values. The accuracy theorems are C07 (`float_roundtrip`: nearest-even for every literal) and C08
(default build: finite, signed, within 5 ulp, exact on the short window). Here the composition is stated about the parsed
value itself:

* `c02_floats_nearest_fr` — under `float_roundtrip`, for an accepted text shorter than `2^29 − 20` bytes (C07's digit
  bound), the value is `canon t` for a syntax tree `t` of the text in which **every** number node `p` satisfies
  `LeafNearest`: if `canon` puts a float `b` there, `b` is *the* IEEE-754 round-to-nearest-even binary64
  (`Spec.Ieee.roundNE64 … = some b`, and `IsNearestEven64`) of the exact decimal value `(litOf p).exact` of that literal
  (`Spec.Decimal`), with the literal's sign; if it puts an integer there, the literal is an integer literal and the
  integer is the value of its digits.
* `c02_floats_5ulp_default` — without `float_roundtrip` (and without `arbitrary_precision`), for an accepted text
  shorter than `2^30` bytes, likewise with `Leaf5ulp`: every float leaf is finite, carries the literal's sign, lies
  within 5 ulp of the literal's exact value, and *is* the correctly rounded value when the literal has at most 15
  significant digits and a net exponent within ±22.

"Every number node" (`AllNums`, structural recursion over the tree) includes the member values that a later duplicate
key discards. Both theorems therefore carry a second, value-level conjunct: every number `x` of the returned value
(`numLeaves v`: array elements and object member values at any depth) is `numOf` of a number node `p` of the tree
(`numNodes t`; `Proofs.C02Floats.canon_leaves`: `canon` only copies, `objectOf` selects among the member values), and
`NearestNum p x` resp. `Within5Num p x` holds. What remains open is only what C07 / C08 themselves leave: the size bounds
above, and for the default build the 5-ulp (not 0.5-ulp) bound outside the short window.
-/
namespace SJ.Props.C02Floats
open SJ SJ.Spec.Grammar SJ.Spec.Ieee SJ.Model.Machine SJ.Proofs.CanonM
open SJ.Proofs.C02Floats
open SJ.Proofs.NumLinkParser (litOf)

/-- **C02 ∘ C07.** Under `float_roundtrip`, every float of a parsed `Value` is the nearest-even binary64 of the exact
    decimal value of the literal it was parsed from, and every integer is the literal's exact integer. -/
theorem c02_floats_nearest_fr (env : Env) (henv : env.tgt = .value) (hfr : env.cfg.fr = true)
    (hap : env.cfg.ap = false) (bs : Bytes) (hlen : bs.length + 20 < 2 ^ 29) (v : JV)
    (h : parseTop env bs = .ok v) :
    ∃ t, JsonText bs t ∧ Spec.Canon.canon (specCfg env.cfg) t = some v ∧
      AllNums (LeafNearest (specCfg env.cfg)) t ∧
      ∀ x ∈ numLeaves v, ∃ p ∈ numNodes t, Spec.Canon.numOf (specCfg env.cfg) p = some x ∧ NearestNum p x := by
  obtain ⟨t, ht, hc⟩ := SJ.Props.C01Iff.c02_value_is_canon env henv bs v h
  have ha : AllNums (LeafNearest (specCfg env.cfg)) t :=
    jsonText_allNums _ ht fun p hwf hl => leaf_fr (specCfg env.cfg) hfr hap p hwf (by omega)
  refine ⟨t, ht, hc, ha, fun x hx => ?_⟩
  obtain ⟨p, hp, hn⟩ := canon_leaves _ t v hc x hx
  exact ⟨p, hp, hn, nearestNum_of_leaf _ p (allNums_mem _ t ha p hp) x hn⟩

/-- the document `{"a":[0.1,-2.5e-3],"n":7}` -/
def exDoc : Bytes := [0x7b, 0x22, 0x61, 0x22, 0x3a, 0x5b, 0x30, 0x2e, 0x31, 0x2c, 0x2d, 0x32, 0x2e, 0x35, 0x65, 0x2d, 0x33,
  0x5d, 0x2c, 0x22, 0x6e, 0x22, 0x3a, 0x37, 0x7d]
/-- its value: `0.1 = 0x3fb999999999999a`, `-0.0025 = 0xbf647ae147ae147b`, `7` an integer -/
def exVal : JV := .obj [([0x61], .arr [.num (.float 0x3fb999999999999a), .num (.float 0xbf647ae147ae147b)]),
  ([0x6e], .num (.pos 7))]
/-- the two float literals of the document -/
def exP1 : NumParts := ⟨false, [0x30], [0x2e, 0x31], []⟩
def exP2 : NumParts := ⟨true, [0x32], [0x2e, 0x35], [0x65, 0x2d, 0x33]⟩

/-- non-vacuity (hypotheses): the document is accepted under `float_roundtrip` with that value, and is short enough -/
example : (parseTop ⟨{ fr := true }, .slice, .value⟩ exDoc).isOk exVal = true ∧ exDoc.length + 20 < 2 ^ 29 := by
  decide +kernel
/-- the numbers of that value, and the literals of the text's tree they come from -/
example : numLeaves exVal = [.float 0x3fb999999999999a, .float 0xbf647ae147ae147b, .pos 7] := by decide
example : numNodes (.obj [([.raw 0x61], .arr [.num exP1, .num exP2]), ([.raw 0x6e], .num ⟨false, [0x37], [], []⟩)]) =
    [exP1, exP2, ⟨false, [0x37], [], []⟩] := by decide
/-- … and the conclusion, checked independently on the two float leaves: their exact values are `1/10` and `25/10000`
    and the floats stored are the nearest-even doubles of these -/
example : (litOf exP1).exact = (1, 10) ∧ (litOf exP2).exact = (25, 10000) := by decide
example : roundNE64 false 1 10 = some 0x3fb999999999999a ∧ roundNE64 true 25 10000 = some 0xbf647ae147ae147b := by
  decide +kernel

/-- a bare number document: the value-level reading of `c02_floats_nearest_fr` when the value is a float -/
theorem c02_float_document_nearest_fr (env : Env) (henv : env.tgt = .value) (hfr : env.cfg.fr = true)
    (hap : env.cfg.ap = false) (bs : Bytes) (hlen : bs.length + 20 < 2 ^ 29) (b : UInt64)
    (h : parseTop env bs = .ok (.num (.float b))) :
    ∃ p, JsonText bs (.num p) ∧ roundNE64 p.minus (litOf p).exact.1 (litOf p).exact.2 = some b ∧
      IsNearestEven64 p.minus (litOf p).exact.1 (litOf p).exact.2 b := by
  obtain ⟨t, ht, hc, ha, _⟩ := c02_floats_nearest_fr env henv hfr hap bs hlen _ h
  cases t with
  | num p =>
    simp only [Spec.Canon.canon, Option.map_eq_some_iff, JV.num.injEq] at hc
    obtain ⟨x, hx, rfl⟩ := hc
    simp only [AllNums] at ha
    exact ⟨p, ht, ha.1 b hx⟩
  | obj ms => simp [Spec.Canon.canon, Spec.Canon.objectOf] at hc
  | null => simp [Spec.Canon.canon] at hc
  | true_ => simp [Spec.Canon.canon] at hc
  | false_ => simp [Spec.Canon.canon] at hc
  | str s => simp [Spec.Canon.canon] at hc
  | arr ts => simp [Spec.Canon.canon] at hc

/-- ` 1e23 ` (with whitespace) from a reader: `0x44b52d02c7e14af6`, the nearest double of `10^23` -/
example : (parseTop ⟨{ fr := true }, .reader, .value⟩ [0x20, 0x31, 0x65, 0x32, 0x33, 0x20]).isOk
    (.num (.float 0x44b52d02c7e14af6)) = true := by decide +kernel
example : roundNE64 false (10 ^ 23) 1 = some 0x44b52d02c7e14af6 := by decide +kernel

/-- **C02 ∘ C08.** In the default build (no `float_roundtrip`, no `arbitrary_precision`), every float of a parsed
    `Value` is finite, carries its literal's sign, lies within 5 ulp of the literal's exact decimal value, and is the
    correctly rounded value when the literal is inside the exact window (≤ 15 significant digits, net exponent within
    ±22); every integer is the literal's exact integer. -/
theorem c02_floats_5ulp_default (env : Env) (henv : env.tgt = .value) (hfr : env.cfg.fr = false)
    (hap : env.cfg.ap = false) (bs : Bytes) (hlen : bs.length < 2 ^ 30) (v : JV)
    (h : parseTop env bs = .ok v) :
    ∃ t, JsonText bs t ∧ Spec.Canon.canon (specCfg env.cfg) t = some v ∧
      AllNums (Leaf5ulp (specCfg env.cfg)) t ∧
      ∀ x ∈ numLeaves v, ∃ p ∈ numNodes t, Spec.Canon.numOf (specCfg env.cfg) p = some x ∧ Within5Num p x := by
  obtain ⟨t, ht, hc⟩ := SJ.Props.C01Iff.c02_value_is_canon env henv bs v h
  have ha : AllNums (Leaf5ulp (specCfg env.cfg)) t :=
    jsonText_allNums _ ht fun p hwf hl => leaf_default (specCfg env.cfg) hfr hap p hwf (by omega)
  refine ⟨t, ht, hc, ha, fun x hx => ?_⟩
  obtain ⟨p, hp, hn⟩ := canon_leaves _ t v hc x hx
  exact ⟨p, hp, hn, within5Num_of_leaf _ p (allNums_mem _ t ha p hp) x hn⟩

/-- non-vacuity: the same document in the default build (both floats are inside the exact window, so the same bits), and
    a leaf outside the window: `[12345678901234567890e-300]` gives `0x059caf4b164e4802`, within 5 ulp of the exact value -/
example : (parseTop ⟨{}, .slice, .value⟩ exDoc).isOk exVal = true ∧ exDoc.length < 2 ^ 30 := by decide +kernel
example : (litOf exP1).sigVal < 10 ^ 15 ∧ -22 ≤ (litOf exP1).netExp ∧ (litOf exP1).netExp ≤ 22 ∧
    (litOf exP2).sigVal < 10 ^ 15 ∧ -22 ≤ (litOf exP2).netExp ∧ (litOf exP2).netExp ≤ 22 := by decide
example : (parseTop ⟨{}, .str, .value⟩ [0x5b, 0x31, 0x32, 0x33, 0x34, 0x35, 0x36, 0x37, 0x38, 0x39, 0x30, 0x31, 0x32, 0x33,
    0x34, 0x35, 0x36, 0x37, 0x38, 0x39, 0x30, 0x65, 0x2d, 0x33, 0x30, 0x30, 0x5d]).isOk
      (.arr [.num (.float 0x059caf4b164e4802)]) = true := by decide +kernel
example : withinUlps 5 false 12345678901234567890 (10 ^ 300) 0x059caf4b164e4802 = true := by decide +kernel

end SJ.Props.C02Floats
