import SJ.Model.IoKind
import SJ.Props.C13
import SJ.Props.TypedFaultEq
/-!
# C13 — "an error of category Io CARRYING THAT ERROR'S KIND" (reader side)

The models' `Io` outcomes (`ROut.io`, `Top.io`, `TItem.io`) carry no payload; `Model.IoKind` threads the failing read's
`io::Error` through `IoRead::next` / `peek` → `Error::io` → `io_error_kind()` as regenerated from `src/read.rs` and
`src/error.rs` on every run. The theorems are thin by design (the point is that the claim is stated, and breaks when one
of the four extracted shapes changes); the harness observes the same thing as `IO:<kind>` on every fault position.
-/
namespace SJ.Props.C13
open SJ SJ.Gen SJ.Model.Machine SJ.Model.IoFault SJ.Model.IoKind
open SJ.Model.Write (IoError Kind)

/-- **C13 (the extracted shapes).** As regenerated from the sources: a failed read is turned into `Error::io(err)` and
    nothing else, in both `IoRead::next` and `IoRead::peek`; `Error::io` stores that `io::Error`; `classify()` answers `Io`
    for it; `io_error_kind()` returns the stored error's kind; `io::Error::from` gives the stored error back. -/
theorem c13_io_error_kind_link :
    Gen.ioReadErrArms = 2 ∧ Gen.errorIoStoresError = true ∧ Gen.classifyIoIsIo = true ∧
    Gen.ioErrorKindReturnsInner = true ∧ Gen.intoIoKeepsInner = true := ⟨rfl, rfl, rfl, rfl, rfl⟩

/-- `runFaultK` is `runFault` with the error attached -/
theorem runFaultK_eq (e : IoError) (env : Env) : ∀ (bs : Bytes) (s : St) (i : Nat),
    runFaultK e env s i bs = attach e (runFault env s i bs)
  | [], _, _ => rfl
  | b :: bs, s, i => by
    simp only [runFaultK, runFault]
    cases h : step env s b with
    | ok s' => exact runFaultK_eq e env bs s' (i + 1)
    | error ca => obtain ⟨c, a⟩ := ca; rfl

/-- **C13 (kind preserved, `Value` / `IgnoredAny` from a reader).** The reader delivers `bs` and then fails with the
    `io::Error` `e`. The outcome is the payload-free outcome of `Model.IoFault.parseFault` with `e` attached, and:
    * when that outcome is `Io` (by `c13_read`: exactly when no delivered byte is rejected) the error's `classify()` is
      `Category::Io`, `io_error_kind()` is `Some(e.kind)` — THAT error's kind — and `io::Error::from(err)` is `e` itself
      (kind and everything else);
    * otherwise it is the parser error of the delivered bytes, whose `io_error_kind()` is `None`. -/
theorem c13_kind_preserved (e : IoError) (env : Env) (bs : Bytes) :
    parseFaultK e env bs = attach e (parseFault env bs) ∧
    (parseFault env bs = .io →
      (parseFaultK e env bs).classify = .io ∧ (parseFaultK e env bs).ioErrorKind = some e.kind ∧
      (parseFaultK e env bs).intoIo = some e) ∧
    (∀ c idx, parseFault env bs = .err c idx →
      parseFaultK e env bs = .other c idx ∧ (parseFaultK e env bs).ioErrorKind = none ∧
      (parseFaultK e env bs).classify = Gen.classify c) := by
  have h : parseFaultK e env bs = attach e (parseFault env bs) := runFaultK_eq e env bs init 0
  refine ⟨h, fun hio => ?_, fun c idx herr => ?_⟩
  · rw [h, hio]; exact ⟨rfl, rfl, rfl⟩
  · rw [h, herr]; exact ⟨rfl, rfl, rfl⟩

/-- … and conversely the kind is reported only for a delivered fault: `io_error_kind() = Some(k)` implies the outcome is
    the `Io` one and `k` is the kind of the reader's error. -/
theorem c13_kind_only_from_reader (e : IoError) (env : Env) (bs : Bytes) (k : Kind)
    (h : (parseFaultK e env bs).ioErrorKind = some k) : parseFault env bs = .io ∧ k = e.kind := by
  rw [(c13_kind_preserved e env bs).1] at h
  cases hp : parseFault env bs with
  | io => rw [hp] at h; simp only [attach, JErr.ioErrorKind, errorIo] at h; exact ⟨rfl, by cases h; rfl⟩
  | err c idx => rw [hp] at h; cases h

/-- **Typed targets.** In fault mode, whenever the same bytes followed by a clean end of input would be accepted or end in
    an Eof-classified error, the typed deserializer's outcome with the reader's error attached is the `Io` error whose
    `io_error_kind()` is that error's kind (`c13_typed_fault_io`); a Syntax error of the delivered bytes has none. -/
theorem c13_typed_kind_preserved (e : IoError) (env : Model.Typed.Env) (hf : env.flt = true) (s : Schema) (bs : Bytes)
    (h : (∃ v, Model.Typed.deTypedTop { env with flt := false } s bs = .ok v) ∨
         (∃ c i, Model.Typed.deTypedTop { env with flt := false } s bs = .err c i ∧ classify c = .eof)) :
    ∃ j, attachTop e (Model.Typed.deTypedTop env s bs) = some j ∧ j.classify = .io ∧ j.ioErrorKind = some e.kind ∧
      j.intoIo = some e := by
  rw [SJ.Props.TypedFaultEq.c13_typed_fault_io env hf s bs h]
  exact ⟨_, rfl, rfl, rfl, rfl⟩

/-- an item of a typed stream that is the `Io` error carries the kind -/
theorem c13_item_kind (e : IoError) : ∃ j, attachItem e .io = some j ∧ j.classify = .io ∧ j.ioErrorKind = some e.kind :=
  ⟨_, rfl, rfl, rfl⟩

/-! non-vacuity: `[1,` then `Err(PermissionDenied-like tag 7)`: Io with that kind; `[1,]` then the same error: the
    TrailingComma of the delivered bytes, no kind -/
example : (parseFaultK { kind := .other 7, payload := 3 } ⟨{}, .reader, .value⟩ [0x5b, 0x31, 0x2c]).ioErrorKind = some (.other 7) ∧
    (parseFaultK { kind := .other 7, payload := 3 } ⟨{}, .reader, .value⟩ [0x5b, 0x31, 0x2c]).intoIo = some { kind := .other 7, payload := 3 } ∧
    (parseFaultK { kind := .other 7 } ⟨{}, .reader, .value⟩ [0x5b, 0x31, 0x2c, 0x5d]).ioErrorKind = none := by
  decide +kernel

end SJ.Props.C13
