import SJ.Proofs.RawStructSlots
import SJ.Props.C19Nested
import SJ.Props.Typed
/-!
# C19 — `RawValue` as a struct field (and as the payload of an `Option`)

`Model.RawStruct.rawStructTop env fs deny` is `from_*::<S>` for `#[derive(Deserialize)] struct S { … }` whose fields
`fs` are `Box<RawValue>` / `&RawValue` (`.raw`), `Option<Box<RawValue>>` (`.optRaw`) or any `RawValue`-free type of the
typed universe (`.typed s`), with or without `deny_unknown_fields`: the typed model's own `deserialize_struct` /
`MapAccess` machinery and derive's visitor, with `deserialize_raw_value` (`Model.RawNested.deRaw`) as the field
deserialiser. The theorems are for structs whose fields are all raw (`RawOnly`; op `rawfld` runs the model with a typed
field too) given in object form; `Mem`, `MInner`, `KeyOK` are those of the map theorems (`SJ/Props/C19Nested.lean`):
a member is (key items, decoded key, value text).

* `c19_field_capture`: success **iff** the document is `ws { members } ws` with every key a string of the target, every
  member value ONE grammar value from its first to its last byte — captured (UTF-8 on byte sources) when the key names a
  field, skipped when it does not — and derive's visitor (`assign`: no field twice, no unknown field under
  `deny_unknown_fields`; `finishSlots`: only `Option` fields may be missing) accepts the members;
* `c19_field_text`: then every `Box<RawValue>` field holds exactly the value text of THE member its name selects —
  nothing before or after it, no surrounding whitespace, nothing altered —, an `Option` field `None` for a missing
  member or the text `null`, `Some` of exactly the text otherwise.
-/
namespace SJ.Props.C19
open SJ SJ.Gen SJ.Model.Machine SJ.Model.Stream SJ.Proofs.Machine
open SJ.Spec.Grammar (CST StrItem Ws Derives JsonText)
open SJ.Model.FromValue (nameIndex)
open SJ.Model.RawNested SJ.Model.RawStruct SJ.Proofs.RawNested SJ.Proofs.RawMap SJ.Proofs.RawKey SJ.Proofs.RawStruct

/-- **C19 (struct fields, exactly the values' texts).** For a struct whose fields are `Box<RawValue>` /
    `Option<Box<RawValue>>` and a document in object form (its first byte after whitespace is `{`; a struct may also be
    given as an array, which is `Vec`-like: `c19_nested_capture`): `from_*::<S>` succeeds with `v` **iff**
    `bs = w₀ "{" inner "}" w₃`, `MInner inner ms` (`inner = ws` or `ws member (ws "," ws member)* ws`,
    `member = key-literal ws ":" ws c`) where for every member the key is a well-formed literal with paired escapes
    decoding to the name `s` (valid UTF-8 on byte sources), `c` is one RFC 8259 `value` from its first to its last byte
    — and valid UTF-8 on byte sources if `s` names a field (it is captured; the value of an unknown field is only
    skipped) —, derive's `visit_map` accepts the member sequence (`assign … = some slots`: fields in any order, no field
    twice, unknown fields skipped unless `deny`), `missing_field` accepts the empty slots (`finishSlots`) and
    `v = struct (the slots' values)`. -/
theorem c19_field_capture (env : SJ.Model.Typed.Env) (hflt : env.flt = false) (fs : List (Bytes × FieldTy)) (hfs : RawOnly fs)
    (deny : Bool) (bs : Bytes) (v : TVal) :
    (rawStructTop env fs deny bs = .ok v ∧ ∃ w r, Ws w ∧ bs = w ++ 0x7b :: r) ↔
    ∃ (ms : List Mem) (w₀ inner w₃ : Bytes) (slots : List (Option TVal)) (vs : List TVal), v = .struct_ vs ∧
      bs = w₀ ++ [0x7b] ++ inner ++ [0x7d] ++ w₃ ∧ Ws w₀ ∧ Ws w₃ ∧ MInner inner ms ∧ (∀ m ∈ ms, FieldOK env fs m) ∧
      assign fs deny ms (fs.map fun _ => none) = some slots ∧ finishSlots fs slots = .ok vs := by
  constructor
  · rintro ⟨h, w, r, hw, hbs⟩
    obtain ⟨ms, inner, w₃, slots, vs, hv, hb, h₃, hin, hok, hass, hfin⟩ :=
      rawStructTop_sound env fs hfs deny bs v h w r hw hbs
    exact ⟨ms, w, inner, w₃, slots, vs, hv, hb, hw, h₃, hin, hok, hass, hfin⟩
  · rintro ⟨ms, w₀, inner, w₃, slots, vs, rfl, rfl, h₀, h₃, hin, hok, hass, hfin⟩
    exact ⟨rawStructTop_complete env hflt fs deny ms w₀ inner w₃ slots vs h₀ h₃ hin hok hass hfin,
      w₀, inner ++ [0x7d] ++ w₃, h₀, by simp⟩

/-- **C19 (struct fields: what each field holds).** In the situation of `c19_field_capture` — members `ms`, accepted by
    derive's visitor with the field values `vs` — for every field `i` (name `fs[i].1`; a member is FOR field `i` when
    its decoded key selects it, `nameIndex names key = some i`: the first field of that name, i.e. the field of that name):

    * either no member is for field `i`: then the field is an `Option<Box<RawValue>>` and holds `None`;
    * or EXACTLY ONE member is (`ms = pre ++ m :: post`, none in `pre`, `post`): a `Box<RawValue>` field holds
      `str c` — precisely that member's value text `c`, which by `c19_field_capture` is one grammar value from its first
      to its last byte —, an `Option<Box<RawValue>>` field holds `None` if `c` is `null` and `Some(str c)` otherwise. -/
theorem c19_field_text (fs : List (Bytes × FieldTy)) (hfs : RawOnly fs) (deny : Bool) (ms : List Mem)
    (slots : List (Option TVal)) (vs : List TVal)
    (hass : assign fs deny ms (fs.map fun _ => none) = some slots) (hfin : finishSlots fs slots = .ok vs) :
    vs.length = fs.length ∧ ∀ (i : Nat) (f : Bytes × FieldTy), fs[i]? = some f →
      ((∀ m ∈ ms, nameIndex (names fs) m.2.1 ≠ some i) ∧ f.2 = .optRaw ∧ vs[i]? = some .none) ∨
      (∃ pre m post, ms = pre ++ m :: post ∧ nameIndex (names fs) m.2.1 = some i ∧
        (∀ m' ∈ pre ++ post, nameIndex (names fs) m'.2.1 ≠ some i) ∧
        ((f.2 = .raw ∧ vs[i]? = some (.str m.2.2)) ∨ (f.2 = .optRaw ∧ vs[i]? = some (optVal m.2.2)))) := by
  obtain ⟨hsl, hslot⟩ := assign_slot fs deny ms (fs.map fun _ => none) slots (by simp) hass
  obtain ⟨hvl, hget⟩ := finishSlots_get fs slots vs hfs hfin
  refine ⟨hvl, fun i f hf => ?_⟩
  have hi : i < fs.length := by
    rcases Nat.lt_or_ge i fs.length with h | h
    · exact h
    · rw [List.getElem?_eq_none h] at hf; cases hf
  obtain ⟨g1, g2⟩ := hget i f hf
  rcases hslot i hi with ⟨hno, ho⟩ | ⟨pre, m, post, f', v, hms, him, hno, _, hf', hv, ho⟩
  · have hinit : (fs.map fun _ => (none : Option TVal)).getD i none = none := by
      simp only [List.getD_eq_getElem?_getD, List.getElem?_map]
      cases fs[i]? <;> rfl
    rw [hinit] at ho
    obtain ⟨h1, h2⟩ := g2 ho
    exact .inl ⟨hno, h1, h2⟩
  · rw [hf] at hf'
    cases hf'
    refine .inr ⟨pre, m, post, hms, him, hno, ?_⟩
    have := g1 v ho
    rcases hfs f (List.mem_of_getElem? hf) with hty | hty
    · rw [hty] at hv
      simp only [fieldVal, Option.some.injEq] at hv
      exact .inl ⟨hty, by rw [this, hv]⟩
    · rw [hty] at hv
      simp only [fieldVal, Option.some.injEq] at hv
      exact .inr ⟨hty, by rw [this, hv]⟩

/-! ## non-vacuity -/

/-- `struct S { a: Box<RawValue>, b: Option<Box<RawValue>>, c: Box<RawValue> }` -/
def exFields : List (Bytes × FieldTy) := [([0x61], .raw), ([0x62], .optRaw), ([0x63], .raw)]
theorem exFields_raw : RawOnly exFields := by
  intro f hf
  simp only [exFields, List.mem_cons, List.not_mem_nil, or_false] at hf
  rcases hf with rfl | rfl | rfl <;> simp

/-- ` {"c" : [1 , 2],"x":{ } , "a":"}" }`: fields in another order, an unknown field skipped, `b` missing -/
def exStructDoc : Bytes := [0x20, 0x7b, 0x22, 0x63, 0x22, 0x20, 0x3a, 0x20, 0x5b, 0x31, 0x20, 0x2c, 0x20, 0x32, 0x5d, 0x2c,
  0x22, 0x78, 0x22, 0x3a, 0x7b, 0x20, 0x7d, 0x20, 0x2c, 0x20, 0x22, 0x61, 0x22, 0x3a, 0x22, 0x7d, 0x22, 0x20, 0x7d]
open SJ.Props.Typed in
example : Top.isOk (rawStructTop { src := .reader } exFields false exStructDoc)
    (.struct_ [.str [0x22, 0x7d, 0x22], .none, .str [0x5b, 0x31, 0x20, 0x2c, 0x20, 0x32, 0x5d]]) = true := by decide +kernel
open SJ.Props.Typed in
/-- rejected: a duplicated field, a missing `Box<RawValue>` field, an unknown field under `deny_unknown_fields` (visitor
    errors), a field value that is not JSON -/
example : Top.isData (rawStructTop {} exFields false
    [0x7b, 0x22, 0x61, 0x22, 0x3a, 0x31, 0x2c, 0x22, 0x61, 0x22, 0x3a, 0x32, 0x2c, 0x22, 0x63, 0x22, 0x3a, 0x33, 0x7d]) (some 10) = true ∧
    Top.isData (rawStructTop {} exFields false [0x7b, 0x22, 0x61, 0x22, 0x3a, 0x31, 0x7d]) (some 7) = true ∧
    Top.isData (rawStructTop {} [([0x61], .raw)] true [0x7b, 0x22, 0x78, 0x22, 0x3a, 0x31, 0x7d]) (some 4) = true ∧
    Top.isErr (rawStructTop {} exFields false [0x7b, 0x22, 0x61, 0x22, 0x3a, 0x78, 0x7d]) .ExpectedSomeValue 6 = true := by
  decide +kernel
/-- `{"c":[1],"x":2,"a":"}"}`: the decomposition exists, and field `a` (index 0) holds the text of the member `"a":"}"` -/
def exStructDoc2 : Bytes := [0x7b, 0x22, 0x63, 0x22, 0x3a, 0x5b, 0x31, 0x5d, 0x2c, 0x22, 0x78, 0x22, 0x3a, 0x32, 0x2c, 0x22, 0x61,
  0x22, 0x3a, 0x22, 0x7d, 0x22, 0x7d]
theorem exStructDoc2_ok : rawStructTop { src := .reader } exFields false exStructDoc2 =
    .ok (.struct_ [.str [0x22, 0x7d, 0x22], .none, .str [0x5b, 0x31, 0x5d]]) := rfl
example : ∃ ms : List Mem, (∃ pre m post, ms = pre ++ m :: post ∧ nameIndex (names exFields) m.2.1 = some 0 ∧
    m.2.2 = [0x22, 0x7d, 0x22]) := by
  obtain ⟨ms, w₀, inner, w₃, slots, vs, hv, _, _, _, _, _, hass, hfin⟩ :=
    (c19_field_capture { src := .reader } rfl exFields exFields_raw false exStructDoc2 _).mp
      ⟨exStructDoc2_ok, [], _, by decide, rfl⟩
  simp only [TVal.struct_.injEq] at hv
  subst hv
  obtain ⟨_, hall⟩ := c19_field_text exFields exFields_raw false ms slots _ hass hfin
  rcases hall 0 ([0x61], .raw) rfl with ⟨_, h, _⟩ | ⟨pre, m, post, hms, hi, _, h | h⟩
  · cases h
  · refine ⟨ms, pre, m, post, hms, hi, ?_⟩
    have := h.2
    simp only [List.getElem?_cons_zero, Option.some.injEq, TVal.str.injEq] at this
    exact this.symm
  · cases h.1

end SJ.Props.C19
