import SJ.Props.C14
import SJ.Proofs.Sound.Step
import SJ.Proofs.EarliestStep
/-!
# C14 — the fallback arms of the byte-step machine, one by one

`Model/Machine.lean` is a total function over an EXPLICIT stack of frames; where the Rust keeps the same
information in its call stack (or, for `ignore_value`, in the `scratch` byte stack) an ill-shaped
combination "mode / top frame" cannot arise in the crate at all, or is an `unreachable!()`. The model has to
return something in those arms; it returns an ordinary error code (there is no separate `bug` outcome), so
"the fallback is never taken" cannot be read off the outcome. It is stated here as: the GUARD PATTERN of each
fallback arm (`Arm.taken`: the condition on the dispatched state under which the arm would be selected) holds
of no state the machine ever dispatches on, for every environment (all features, all three sources, both
targets `Value` and `IgnoredAny` / skipped values) and every input.

Everything is derived from results that exist: the shape invariant of the soundness development
(`Proofs.Sound.Inv`, `step1_inv`, `step_inv`), `Proofs.Earliest.step_lit_ne`, and `c14_again_once` /
`c14_no_fuel_machine` of `Props/C14.lean`. Nothing about `Inv` is re-proved.

What is NOT covered here: the fallbacks of the typed model (`Model.Typed`: its only outcome without a
counterpart in the crate is `.fuel`, excluded by `SJ.Props.Typed.typed_no_panic`), of the stream models and of
the serializer; panics that have no counterpart in a model (allocation failure, the compiled `unsafe` blocks,
real stack exhaustion - DESIGN.md section 9).
-/
namespace SJ.Props.C14Fallbacks
open SJ SJ.Gen SJ.Model.Machine SJ.Proofs.Machine SJ.Proofs.Sound SJ.Proofs.Earliest

/-- The six fallback arms of `Model/Machine.lean`, each with the site of the crate it stands for. -/
inductive Arm where
  /-- `closeArr`, arm `| _ =>` (a `]` closes an array but the top frame is not `.arr`).
      Rust: `de.rs` `deserialize_any` / `end_seq` run inside the `b'['` arm, so the enclosing frame IS the
      call-stack frame of that arm; for skipped values `ignore_value`'s `frame` byte popped from `scratch`,
      whose other values end in `_ => unreachable!()` (de.rs, the two `match frame` error-code selections). -/
  | closeArr
  /-- `closeObj`, arm `| _ =>` (a `}` closes an object but the top frame is not `.obj`).
      Rust: as `closeArr`, for `end_map` / `frame == b'{'`. -/
  | closeObj
  /-- `endStr`, arm `| _ =>` under `st.isKey` (a key string ends but the top frame is not `.obj`).
      Rust: keys are only parsed by `MapAccess::next_key_seed` / the `b'{'` frame of `ignore_value`. -/
  | keyEnd
  /-- `step1`, mode `.lit []` (a literal with no letters left is still in progress).
      Rust: `parse_ident` is a loop over the ident's bytes that returns when they are exhausted. -/
  | litNil
  /-- `step`, arm `.again` after `.again` (the byte that ended a number ends a number again).
      Rust: the terminator is only PEEKED by `parse_integer` &c. and is consumed by the caller's next read. -/
  | againTwice
  /-- `numValue`, arm `.outOfFuel` (the bounded loop of `f64_from_parts` ran out of the model's fuel).
      Rust: `f64_from_parts` is an unbounded `loop` that terminates; the fuel exists only in the model. -/
  | numFuel
deriving Repr, DecidableEq

/-- The guard pattern of each arm: the condition on the state `s` the machine dispatches on under which
    (for some input byte, or at end of input) the arm would be selected.  `closeArr` is invoked by `step1`
    exactly in modes `.afterElem` and `.val .arrFirst`; `closeObj` in `.objFirst` and `.afterMember`;
    `endStr` in mode `.str`; `numValue` (through `endNumber`) by `stepNum` and by `finish` in mode `.num`,
    both only in the phases `zero / int / frac / exp` (= `FinalPhase`; by inspection of the two definitions,
    the other four phases have no `finish` / are the first arm of `finish`). -/
def Arm.taken (env : Env) (s : St) : Arm → Prop
  | .closeArr => (s.mode = .afterElem ∨ s.mode = .val .arrFirst) ∧ ∀ es fs, s.stack ≠ .arr es :: fs
  | .closeObj => (s.mode = .objFirst ∨ s.mode = .afterMember) ∧ ∀ ms k fs, s.stack ≠ .obj ms k :: fs
  | .keyEnd => ∃ st, s.mode = .str st ∧ st.isKey = true ∧ ∀ ms k fs, s.stack ≠ .obj ms k :: fs
  | .litNil => ∃ v, s.mode = .lit [] v
  | .againTwice => ∃ b s' s'', step1 env s b = .again s' ∧ step1 env s' b = .again s''
  | .numFuel => ∃ n, s.mode = .num n ∧ FinalPhase n.phase ∧
      (Model.Num.convertDefault n.parts = .outOfFuel ∨ Model.Num.convertRoundtrip n.parts = .outOfFuel)

/-- the states after whole input bytes: everything `run` passes through -/
inductive Reach (env : Env) : St → Prop
  | init : Reach env init
  | step {s s' : St} (b : UInt8) : Reach env s → step env s b = .ok s' → Reach env s'

/-- every state `step1` is evaluated on: the states after whole bytes, and the intermediate state in which
    the byte that ended a number is dispatched once more -/
inductive Dispatched (env : Env) : St → Prop
  | whole {s : St} : Reach env s → Dispatched env s
  | again {s s0 : St} (b : UInt8) : Reach env s → step1 env s b = .again s0 → Dispatched env s0

/-- the shape invariant (plus "literals in progress have letters left") holds of every reachable state -/
theorem reach_inv {env : Env} {s : St} (h : Reach env s) : (∃ cs, Inv env s cs) ∧ LitNE s := by
  induction h with
  | init => exact ⟨⟨[], Inv.init env⟩, litNE_init⟩
  | step b _ hs ih =>
    obtain ⟨⟨cs, hi⟩, _⟩ := ih
    exact ⟨⟨_, step_inv env _ cs b _ hi hs⟩, fun rest v hm => step_lit_ne env _ b _ hs rest v hm⟩

theorem dispatched_inv {env : Env} {s : St} (h : Dispatched env s) : (∃ cs, Inv env s cs) ∧ LitNE s := by
  cases h with
  | whole hr => exact reach_inv hr
  | again b hr h1 =>
    obtain ⟨⟨cs, hi⟩, _⟩ := reach_inv hr
    have h2 := step1_inv env _ cs b hi
    rw [h1] at h2
    refine ⟨⟨cs, h2⟩, ?_⟩
    obtain ⟨v, rfl⟩ := step1_again env _ b _ h1
    intro rest v' hm
    unfold complete at hm
    split at hm <;> simp at hm

/-- a state satisfying the shape invariant matches the guard pattern of no fallback arm -/
theorem not_taken_of_inv {env : Env} {s : St} {cs : Bytes} (hi : Inv env s cs) (hl : LitNE s) (arm : Arm) :
    ¬ arm.taken env s := by
  cases arm with
  | closeArr =>
    rintro ⟨hm, hst⟩
    cases hi with
    | val ctx fs cs hp hf =>
      rcases hm with hm | hm
      · simp at hm
      · simp only [Mode.val.injEq] at hm
        obtain ⟨fs', _, _, rfl, _⟩ := hf hm
        exact hst _ _ rfl
    | afterElem => exact hst _ _ rfl
    | _ => simp at hm
  | closeObj =>
    rintro ⟨hm, hst⟩
    cases hi with
    | objFirst => exact hst _ _ _ rfl
    | afterMember => exact hst _ _ _ rfl
    | _ => simp at hm
  | keyEnd =>
    rintro ⟨st, hm, hk, hst⟩
    cases hi with
    | strVal st' fs pre items tail cs hp hk' =>
      simp only [Mode.str.injEq] at hm
      subst hm
      rw [hk] at hk'
      cases hk'
    | strKey => exact hst _ _ _ rfl
    | _ => simp at hm
  | litNil =>
    rintro ⟨v, hm⟩
    exact hl [] v hm rfl
  | againTwice =>
    rintro ⟨b, s', s'', h1, h2⟩
    exact SJ.Props.C14.c14_again_once env s b s' h1 s'' h2
  | numFuel =>
    rintro ⟨n, hm, hf, h⟩
    cases hi with
    | num n' fs pre cs hp hn hc =>
      simp only [Mode.num.injEq] at hm
      subst hm
      obtain ⟨h1, h2⟩ := SJ.Props.C14.c14_no_fuel_machine n' hn hf
      rcases h with h | h
      · exact h1 h
      · exact h2 h
    | _ => simp at hm

/-- `feed` (the prefix runs of `run`, `Proofs.Machine.run_append`) stays inside `Reach` -/
theorem reach_feed {env : Env} (xs : Bytes) : ∀ (s : St) (i : Nat) (s' : St) (j : Nat), Reach env s →
    feed env s i xs = .ok (s', j) → Reach env s' := by
  induction xs with
  | nil => intro s i s' j hr h; simp [feed] at h; rw [← h.1]; exact hr
  | cons b bs ih =>
    intro s i s' j hr h
    simp only [feed] at h
    cases hs : step env s b with
    | ok s1 => rw [hs] at h; exact ih s1 (i + 1) s' j (.step b hr hs) h
    | error e => obtain ⟨c, a⟩ := e; rw [hs] at h; cases h

/-- **C14, the machine's fallback arms are dead (state form).** For every environment, no state the machine
    dispatches on - after whole bytes, or in the middle of a byte that ended a number - matches the guard
    pattern of any of the six fallback arms. -/
theorem c14_no_fallback_dispatched (env : Env) (s : St) (h : Dispatched env s) (arm : Arm) :
    ¬ arm.taken env s := by
  obtain ⟨⟨cs, hi⟩, hl⟩ := dispatched_inv h
  exact not_taken_of_inv hi hl arm

/-- **C14, the machine's fallback arms are dead (run form).** For every environment (every feature
    combination, `&str` / slice / reader source, target `Value` or the skipping target `IgnoredAny`) and every
    input `p ++ rest`: if the machine gets through the prefix `p` and stands in `s`, then
    * the run of `parseTop` on the whole input continues from `s` (so these `s` are exactly the states the
      run passes through),
    * `s` satisfies the shape invariant of the soundness proof for the consumed bytes `p`,
    * `s` matches the guard pattern of no fallback arm - this covers the step on the next byte AND the end of
      input (`finish`, whose only fallback is `numFuel` through `endNumber`),
    * and if the next byte `b` ends a number (`step1 … = .again s0`) the intermediate state `s0`, on which the
      byte is dispatched once more, matches none either.
    Since the fallback arms return ordinary codes (`ExpectedSomeValue`, `ExpectedSomeIdent`,
    `NumberOutOfRange`) this is the precise sense of "never taken": whenever one of these codes is reported,
    it was produced by a non-fallback arm. -/
theorem c14_no_fallback (env : Env) (p rest : Bytes) (s : St) (j : Nat)
    (h : feed env init 0 p = .ok (s, j)) :
    parseTop env (p ++ rest) = run env s j rest ∧
    Inv env s p ∧
    (∀ arm : Arm, ¬ arm.taken env s) ∧
    (∀ b s0, step1 env s b = .again s0 → ∀ arm : Arm, ¬ arm.taken env s0) := by
  have hr : Reach env s := reach_feed p init 0 s j .init h
  refine ⟨?_, ?_, fun arm => c14_no_fallback_dispatched env s (.whole hr) arm,
    fun b s0 h1 arm => c14_no_fallback_dispatched env s0 (.again b hr h1) arm⟩
  · unfold parseTop
    rw [run_append, h]
  · have := feed_inv env init [] 0 p s j (Inv.init env) h
    simpa using this

/-! ## the same, read off the functions that contain the arms -/

/-- wherever `step1` invokes `closeArr`, the live arm is the one that runs -/
theorem c14_closeArr_live (env : Env) (s : St) (h : Dispatched env s)
    (hm : s.mode = .afterElem ∨ s.mode = .val .arrFirst) :
    ∃ es fs, s.stack = .arr es :: fs ∧
      closeArr env s = .next (complete fs (if env.tgt = .value then .arr es.reverse else .null)) := by
  have hn := c14_no_fallback_dispatched env s h .closeArr
  unfold closeArr
  split
  · rename_i es fs he; exact ⟨es, fs, he, rfl⟩
  · rename_i hne; exact absurd ⟨hm, fun es fs he => hne es fs he⟩ hn

/-- wherever `step1` invokes `closeObj`, the live arm is the one that runs -/
theorem c14_closeObj_live (env : Env) (s : St) (h : Dispatched env s)
    (hm : s.mode = .objFirst ∨ s.mode = .afterMember) :
    ∃ ms k fs, s.stack = .obj ms k :: fs ∧
      closeObj env s = .next (complete fs (if env.tgt = .value then mkObj env.cfg ms.reverse else .null)) := by
  have hn := c14_no_fallback_dispatched env s h .closeObj
  unfold closeObj
  split
  · rename_i ms k fs he; exact ⟨ms, k, fs, he, rfl⟩
  · rename_i hne; exact absurd ⟨hm, fun ms k fs he => hne ms k fs he⟩ hn

/-- a key string always ends inside an object frame -/
theorem c14_keyEnd_live (env : Env) (s : St) (h : Dispatched env s) (st : StrSt) (hm : s.mode = .str st)
    (hk : st.isKey = true) : ∃ ms k fs, s.stack = .obj ms k :: fs := by
  have hn := c14_no_fallback_dispatched env s h .keyEnd
  cases hs : s.stack with
  | nil => exact absurd ⟨st, hm, hk, fun ms k fs he => by rw [hs] at he; cases he⟩ hn
  | cons f fs =>
    cases f with
    | arr es => exact absurd ⟨st, hm, hk, fun ms k fs he => by rw [hs] at he; cases he⟩ hn
    | obj ms k => exact ⟨ms, k, fs, rfl⟩

/-- `step` never reports its own fallback: on a reachable state, `step env s b` is what the one or two
    `step1` dispatches produce -/
theorem c14_step_live (env : Env) (s : St) (h : Reach env s) (b : UInt8) (s0 : St)
    (h1 : step1 env s b = .again s0) :
    (∃ s', step1 env s0 b = .next s' ∧ step env s b = .ok s') ∨
    (∃ c a, step1 env s0 b = .err c a ∧ step env s b = .error (c, a)) := by
  have hn := c14_no_fallback_dispatched env s (.whole h) .againTwice
  cases h2 : step1 env s0 b with
  | next s' => exact .inl ⟨s', rfl, by simp only [step, h1, h2]⟩
  | err c a => exact .inr ⟨c, a, rfl, by simp only [step, h1, h2]⟩
  | again s'' => exact absurd ⟨b, s0, s'', h1, h2⟩ hn

/-- `numValue` (reached through `endNumber` from `stepNum` and from `finish`): whenever it reports
    `NumberOutOfRange` on a dispatched state, the converter returned `outOfRange` - the code comes from the live
    arm (`de.rs` `f64_from_parts` / `parse_exponent_overflow`: `ErrorCode::NumberOutOfRange`), never from the
    `outOfFuel` arm -/
theorem c14_numValue_live (env : Env) (s : St) (h : Dispatched env s) (n : NumSt) (hm : s.mode = .num n)
    (hf : FinalPhase n.phase) (he : numValue env n = .error .NumberOutOfRange) :
    (if env.cfg.fr then Model.Num.convertRoundtrip n.parts else Model.Num.convertDefault n.parts) = .outOfRange := by
  have hn := c14_no_fallback_dispatched env s h .numFuel
  have h1 : Model.Num.convertDefault n.parts ≠ .outOfFuel := fun hc => hn ⟨n, hm, hf, .inl hc⟩
  have h2 : Model.Num.convertRoundtrip n.parts ≠ .outOfFuel := fun hc => hn ⟨n, hm, hf, .inr hc⟩
  unfold numValue at he
  simp only at he
  split at he
  · cases he
  · split at he
    · cases he
    · cases he
    · cases he
    · assumption
    · rename_i hc
      split at hc
      · exact absurd hc h2
      · exact absurd hc h1

/-! ## non-vacuity: a concrete input -/

/-- `Value` from a slice, default features -/
def exEnv : Env := ⟨{}, .slice, .value⟩
/-- `{"k":[tru` -/
def exPrefix : Bytes := [0x7b, 0x22, 0x6b, 0x22, 0x3a, 0x5b, 0x74, 0x72, 0x75]
/-- `e]}` -/
def exRest : Bytes := [0x65, 0x5d, 0x7d]

/-- `{"k":[tru` into `Value` from a slice: the machine stands in a literal with one letter left, inside an
    array inside an object; the theorem applies to this prefix and whatever follows it (here `e]}`) -/
example : ∃ s j, feed exEnv init 0 exPrefix = .ok (s, j) ∧ s.stack.length = 2 ∧
    (∀ arm : Arm, ¬ arm.taken exEnv s) ∧ parseTop exEnv (exPrefix ++ exRest) = run exEnv s j exRest :=
  ⟨_, _, rfl, rfl, (c14_no_fallback exEnv exPrefix exRest _ _ rfl).2.2.1,
    (c14_no_fallback exEnv exPrefix exRest _ _ rfl).1⟩

/-- the guard patterns are not trivially false: an ill-shaped (unreachable) state matches `closeArr`'s -/
example : Arm.taken exEnv ⟨.afterElem, []⟩ .closeArr :=
  ⟨.inl rfl, fun _ _ h => by cases h⟩

/-- ... and there `closeArr` does take its fallback arm -/
example : closeArr exEnv ⟨.afterElem, []⟩ = .err .ExpectedSomeValue .incl := rfl

end SJ.Props.C14Fallbacks
