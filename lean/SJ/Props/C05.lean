import SJ.Proofs.Escape
import SJ.Proofs.Hex
import SJ.Proofs.Swar
import SJ.Proofs.Utf8Literal
import SJ.Proofs.Utf8Value
import SJ.Proofs.RoundTrip
import SJ.Props.C01
import SJ.Props.C02
/-!
# C05 — String contents survive escaping and unescaping exactly  (serializer side + the two
# self-contained pieces of the decoder: four-hex-digit decoding and the SWAR scanner)

Property theorems only; helper lemmas live in `SJ/Proofs/{Escape,Hex,Swar}.lean`.
The decode side (`c05_decode_spec`, `c05_decode_reject`, `c05_roundtrip`, `c05_str_source_utf8`, last
section) is stated over the byte-step parser machine and obtained from parser soundness and
completeness (C02 / C01) specialised to a single string literal; `c05_borrowed` and
`c05_bytes_target` (typed targets) are not part of this file.
-/
namespace SJ.Props.C05
open SJ

/-- **ESCAPE table.** The regenerated table has 256 entries and, for every byte value: the entry
    is zero exactly when the statement leaves the byte verbatim; otherwise an arm of
    `from_escape_table` matches (the `unreachable!()` is unreachable) and `write_char_escape`
    writes exactly the statement's spelling of that byte (`\"`, `\\`, `\b`, `\t`, `\n`, `\f`, `\r`,
    `\u00XX` in lower-case hex). Checked by evaluation over all 256 entries. -/
theorem c05_escape_table :
    Gen.escapeTable.length = 256 ∧
    ∀ b : UInt8,
      (Model.Escape.escapeOf b = Gen.escapeNone ↔ Spec.Str.needsEscape b = false) ∧
      (Model.Escape.escapeOf b = Gen.escapeNone → Spec.Str.escapeByte b = [b]) ∧
      (Model.Escape.escapeOf b ≠ Gen.escapeNone →
        ∃ ce, Model.Escape.fromEscapeTable (Model.Escape.escapeOf b) b = some ce ∧
              Model.Escape.writeCharEscape ce = Spec.Str.escapeByte b) := by
  refine ⟨Proofs.Escape.escapeTable_length, fun b => ?_⟩
  cases hz : (Model.Escape.escapeOf b == Gen.escapeNone) with
  | true =>
    have h := Proofs.Escape.entry_zero hz
    have he : Model.Escape.escapeOf b = Gen.escapeNone := by simpa using hz
    exact ⟨⟨fun _ => h.1, fun _ => he⟩, fun _ => h.2, fun hne => absurd he hne⟩
  | false =>
    have h := Proofs.Escape.entry_nonzero hz
    have he : Model.Escape.escapeOf b ≠ Gen.escapeNone := by simpa using hz
    exact ⟨⟨fun h0 => absurd h0 he, fun hn => by simp [h.1] at hn⟩, fun h0 => absurd h0 he, fun _ => h.2⟩

/-- **Escaping.** For every byte string `s` (in particular the UTF-8 bytes of every Rust string),
    the concatenation of everything `format_escaped_str` hands to the writer is the statement's
    literal: `"`, then each byte escaped per `escapeByte` (only `"`, `\` and U+0000–U+001F change;
    every byte ≥ 0x20 other than those two, hence every multi-byte sequence, is verbatim), then `"`. -/
theorem c05_escape_spec (s : Bytes) : Model.Escape.escapedBytes s = Spec.Str.escapeSpec s :=
  Proofs.Escape.escapedBytes_eq s

/-- **Buffers are cut only at ASCII positions.** Every buffer handed to the writer is the quote,
    the escape sequence of one byte that needs escaping (an ASCII byte; the sequence is ASCII), or a
    non-empty maximal run of bytes of `s` that need no escaping — delimited on each side by an end
    of `s` or by a byte that needs escaping, i.e. a byte `< 0x80`. So no buffer boundary falls
    inside a multi-byte UTF-8 sequence (C13: every buffer is valid UTF-8 on its own when `s` is). -/
theorem c05_escape_buffers_utf8_cut (s : Bytes) :
    (∀ buf ∈ Model.Escape.formatEscapedStr s,
      buf = [0x22] ∨ (∃ b, Spec.Str.needsEscape b = true ∧ buf = Spec.Str.escapeByte b) ∨
      Proofs.Escape.IsMaximalRun s buf) ∧
    (∀ b, Spec.Str.needsEscape b = true → b < 0x80 ∧ ∀ x ∈ Spec.Str.escapeByte b, x < 0x80) := by
  refine ⟨Proofs.Escape.formatEscapedStr_buffers s, fun b hb => ?_⟩
  have h := Proofs.Escape.asciiOnly b hb
  exact ⟨h.2, fun x hx => by simpa using List.all_eq_true.mp h.1 x hx⟩

/-- **Hex tables.** `HEX0`/`HEX1` as regenerated are what `build_hex_table(0)`/`(4)` computes
    from the extracted ranges of `decode_hex_val_slow`, and have 256 entries. -/
theorem c05_hex_tables :
    Gen.hex0 = Model.Hex.buildHexTable Gen.hexShift0 ∧ Gen.hex1 = Model.Hex.buildHexTable Gen.hexShift1 ∧
    Gen.hex0.length = 256 ∧ Gen.hex1.length = 256 :=
  ⟨Proofs.Hex.hex_tables_built.1, Proofs.Hex.hex_tables_built.2, Proofs.Hex.hex_tables_length.1,
    Proofs.Hex.hex_tables_length.2⟩

/-- **Four hex digits.** For all 2^32 groups of four bytes, `decode_four_hex_digits` returns the
    positional value when all four are hex digits (either case) and `None` otherwise. -/
theorem c05_hex4_spec (a b c d : UInt8) :
    Model.Hex.decodeFourHex a b c d = (do
      let x ← Model.Hex.hexDigitVal a
      let y ← Model.Hex.hexDigitVal b
      let z ← Model.Hex.hexDigitVal c
      let w ← Model.Hex.hexDigitVal d
      pure (x * 4096 + y * 256 + z * 16 + w)) :=
  Proofs.Hex.decodeFourHex_eq a b c d

/-- **SWAR scanner.** For every slice, every start index inside it and both modes,
    `skip_to_escape` stops exactly at the first escape byte at or after `index` (or at the end). -/
theorem c05_swar_first_escape (slice : Bytes) (index : Nat) (forbid : Bool) (h : index ≤ slice.length) :
    Model.Swar.skipToEscape slice index forbid = Model.Swar.firstEscape slice index forbid :=
  Proofs.Swar.skipToEscape_eq slice index forbid h

/-- the scanner never leaves the slice -/
theorem c05_swar_in_bounds (slice : Bytes) (index : Nat) (forbid : Bool) (h : index ≤ slice.length) :
    Model.Swar.skipToEscape slice index forbid ≤ slice.length := by
  rw [c05_swar_first_escape slice index forbid h]
  exact Proofs.Swar.firstEscape_le slice index forbid h

/-- `firstEscape` is what its name says: at or after `index`, at the end or on a stopping byte,
    and no stopping byte in between. -/
theorem c05_first_escape_char (slice : Bytes) (index : Nat) (forbid : Bool) (h : index ≤ slice.length) :
    let r := Spec.Str.firstEscape slice index forbid
    index ≤ r ∧ r ≤ slice.length ∧
    (r < slice.length → Spec.Str.stopsScan (slice.getD r 0) forbid = true) ∧
    (∀ j, index ≤ j → j < r → Spec.Str.stopsScan (slice.getD j 0) forbid = false) := by
  intro r
  have hle := Proofs.Swar.firstEscape_le slice index forbid h
  have hlen : (slice.drop index).length = slice.length - index := by simp
  refine ⟨Nat.le_add_right _ _, hle, fun hlt => ?_, fun j hj hjr => ?_⟩
  · have := Proofs.Swar.runLength_lt_stops (slice.drop index) forbid (by
      show Spec.Str.runLength (slice.drop index) forbid < _
      have : r = index + Spec.Str.runLength (slice.drop index) forbid := rfl
      omega)
    rw [List.getD_eq_getElem?_getD, List.getElem?_drop] at this
    rw [List.getD_eq_getElem?_getD]
    exact this
  · have := Proofs.Swar.runLength_before (slice.drop index) forbid (j - index) (by
      have : r = index + Spec.Str.runLength (slice.drop index) forbid := rfl
      omega)
    rw [List.getD_eq_getElem?_getD, List.getElem?_drop] at this
    rw [List.getD_eq_getElem?_getD]
    have hj' : index + (j - index) = j := by omega
    rw [hj'] at this
    exact this

/-! ## Non-vacuity: concrete evaluations (byte strings as explicit lists) -/

-- `a"\é<0x1f>` ↦ `"a\"\\é\u001f"`, written as fragment `a`, `\"`, `\\`, fragment `é`, `\u001f`
example : Model.Escape.formatEscapedStr [0x61, 0x22, 0x5c, 0xc3, 0xa9, 0x1f] =
    [[0x22], [0x61], [0x5c, 0x22], [0x5c, 0x5c], [0xc3, 0xa9], [0x5c, 0x75, 0x30, 0x30, 0x31, 0x66], [0x22]] := by
  decide +kernel
example : Spec.Str.escapeSpec [0x61, 0x22, 0x5c, 0xc3, 0xa9, 0x1f] =
    [0x22, 0x61, 0x5c, 0x22, 0x5c, 0x5c, 0xc3, 0xa9, 0x5c, 0x75, 0x30, 0x30, 0x31, 0x66, 0x22] := by decide +kernel
-- no empty fragments: two adjacent escapes, and the empty string
example : Model.Escape.formatEscapedStr [0x0a, 0x0a] = [[0x22], [0x5c, 0x6e], [0x5c, 0x6e], [0x22]] := by decide +kernel
example : Model.Escape.formatEscapedStr [] = [[0x22], [0x22]] := by decide +kernel
-- 0x7f and 0x80.. are not escaped
example : Model.Escape.formatEscapedStr [0x7f, 0x80] = [[0x22], [0x7f, 0x80], [0x22]] := by decide +kernel
-- `\u` groups: `12aB` = 0x12ab, `g` is not a hex digit, a `"` inside the group is rejected by the sign bit
example : Model.Hex.decodeFourHex 0x31 0x32 0x61 0x42 = some 0x12ab := by decide +kernel
example : Model.Hex.decodeFourHex 0x31 0x32 0x67 0x42 = none := by decide +kernel
example : Model.Hex.decodeFourHex 0x66 0x46 0x66 0x22 = none := by decide +kernel
example : Model.Hex.decodeFourHex 0x66 0x46 0x66 0x46 = some 0xffff := by decide +kernel
-- scanner: 9 clean bytes after the first one, then a control byte in the slow tail (index 10);
-- a quote in the second chunk (index 12); bail-out on an escape at `index`
example : Model.Swar.skipToEscape [0x61, 0x61, 0x61, 0x61, 0x61, 0x61, 0x61, 0x61, 0x61, 0x61, 0x1f] 0 true = 10 := by
  decide +kernel
example : Model.Swar.skipToEscape [0x61, 0xff, 0x80, 0x7f, 0x20, 0x61, 0x61, 0x61, 0x61, 0x61, 0x61, 0x61, 0x22,
    0x61, 0x61, 0x61, 0x61, 0x61] 0 true = 12 := by decide +kernel
example : Model.Swar.skipToEscape [0x61, 0x1f, 0x22] 1 true = 1 := by decide +kernel
example : Model.Swar.skipToEscape [0x61, 0x1f, 0x22] 1 false = 2 := by decide +kernel
example : Spec.Str.firstEscape [0x61, 0x1f, 0x22] 1 false = 2 := by decide +kernel

/-! ## the decode side: a single string literal through the parser (`Model.Machine`) -/

section decode
open SJ.Spec.Grammar SJ.Spec.Denote SJ.Model.Machine SJ.Proofs.CanonM

/-- **Decoding.** For a well-formed string literal (`"` items `"` with items = unescaped bytes,
    simple escapes, `\uXXXX`), parsing it into `Value` returns `String(s)` exactly when every surrogate
    escape is paired, the RFC 8259 §7 decoding (`decodeItems`: escapes replaced, pairs merged, raw bytes
    copied) is `s`, and — on byte sources, which check — `s` is valid UTF-8. -/
theorem c05_decode_spec (env : Env) (henv : env.tgt = .value) (items : List StrItem)
    (hwf : StrWF items = true) (s : Bytes) :
    parseTop env (strBytes items) = .ok (.str s) ↔
      surrogatesPairedStr items = true ∧ (env.src ≠ .str → Spec.Utf8.validUtf8 s = true) ∧
      decodeItems items = some s := by
  constructor
  · intro h
    obtain ⟨t, ht, hc, _, hs, hu, _⟩ := SJ.Props.C02.c02_denotes env henv _ _ h
    have := SJ.Proofs.Utf8.jsontext_strBytes items hwf t ht
    subst this
    simp only [canonM, Option.map_eq_some_iff, JV.str.injEq] at hc
    obtain ⟨s', hd, rfl⟩ := hc
    refine ⟨hs, fun hsrc => ?_, hd⟩
    have := hu hsrc
    simpa [Spec.Canon.stringsUtf8, hd] using this
  · rintro ⟨hs, hu, hd⟩
    obtain ⟨v, hp, hc⟩ := SJ.Props.C01.c01_complete_value env henv _ (.str items)
      (SJ.Proofs.Utf8.jsontext_of_strBytes items hwf) (Or.inr (by simp [depth])) hs
      (fun hsrc => by simpa [Spec.Canon.stringsUtf8, hd] using hu hsrc) rfl
    simp only [canonM, hd, Option.map_some, Option.some.injEq] at hc
    rw [hp, ← hc]

/-- … **and the literal is rejected otherwise** (unpaired surrogate escape, or a decoded text that is
    not UTF-8 on a byte source); in particular a string literal never parses to anything but a string. -/
theorem c05_decode_reject (env : Env) (henv : env.tgt = .value) (items : List StrItem)
    (hwf : StrWF items = true)
    (hno : ∀ s, ¬ (surrogatesPairedStr items = true ∧ (env.src ≠ .str → Spec.Utf8.validUtf8 s = true) ∧
      decodeItems items = some s)) :
    ∃ c i, parseTop env (strBytes items) = .err c i := by
  cases h : parseTop env (strBytes items) with
  | err c i => exact ⟨c, i, rfl⟩
  | ok v =>
    exfalso
    obtain ⟨t, ht, hc, _⟩ := SJ.Props.C02.c02_denotes env henv _ _ h
    have := SJ.Proofs.Utf8.jsontext_strBytes items hwf t ht
    subst this
    simp only [canonM, Option.map_eq_some_iff] at hc
    obtain ⟨s, _, rfl⟩ := hc
    exact hno s ((c05_decode_spec env henv items hwf s).1 h)

/-- `"é\u00e9\ud83d\ude00\n"` (raw `é`, the same as an escape, a surrogate pair, `\n`) -/
def exItems : List StrItem :=
  [.raw 0xc3, .raw 0xa9, .uni 0x30 0x30 0x65 0x39, .uni 0x64 0x38 0x33 0x64, .uni 0x64 0x65 0x30 0x30, .esc 0x6e]

example : strBytes exItems = [0x22, 0xc3, 0xa9, 0x5c, 0x75, 0x30, 0x30, 0x65, 0x39, 0x5c, 0x75, 0x64, 0x38, 0x33, 0x64,
    0x5c, 0x75, 0x64, 0x65, 0x30, 0x30, 0x5c, 0x6e, 0x22] := by decide +kernel
example : parseTop ⟨{}, .slice, .value⟩ (strBytes exItems) =
    .ok (.str [0xc3, 0xa9, 0xc3, 0xa9, 0xf0, 0x9f, 0x98, 0x80, 0x0a]) :=
  (c05_decode_spec ⟨{}, .slice, .value⟩ rfl exItems (by decide) _).2
    ⟨by decide, fun _ => by decide +kernel, by decide +kernel⟩
/-- a lone leading surrogate `"\ud83d"`, and a raw continuation byte on a byte source, are rejected -/
example : ∃ c i, parseTop ⟨{}, .str, .value⟩ (strBytes [.uni 0x64 0x38 0x33 0x64]) = .err c i :=
  c05_decode_reject _ rfl _ (by decide) (fun s h => absurd h.1 (by decide))
example : ∃ c i, parseTop ⟨{}, .slice, .value⟩ (strBytes [.raw 0xa9]) = .err c i :=
  c05_decode_reject _ rfl _ (by decide) (fun s h => by
    obtain ⟨_, hu, hd⟩ := h
    simp only [decodeItems, Option.map_some, Option.some.injEq] at hd
    subst hd
    exact absurd (hu (by decide)) (by decide +kernel))
/-- … which the `&str` source (whose input cannot contain it) would pass through unchecked -/
example : parseTop ⟨{}, .str, .value⟩ (strBytes [.raw 0xa9]) = .ok (.str [0xa9]) := rfl

theorem escapeByte_table : ∀ n : Nat, n < 256 →
    Spec.Str.escapeByte (UInt8.ofNat n) = (Spec.Image.escItem (UInt8.ofNat n)).bytes := by
  decide +kernel

/-- the statement's literal is the grammar's spelling of the chosen items -/
theorem escapeSpec_eq_strBytes (s : Bytes) : Spec.Str.escapeSpec s = strBytes (Spec.Image.strItems s) := by
  have hb : ∀ b : UInt8, Spec.Str.escapeByte b = (Spec.Image.escItem b).bytes := fun b => by
    simpa using escapeByte_table b.toNat b.toNat_lt
  have hf : s.flatMap Spec.Str.escapeByte = (Spec.Image.strItems s).flatMap StrItem.bytes := by
    induction s with
    | nil => rfl
    | cons b s ih => simp only [List.flatMap_cons, Spec.Image.strItems, List.map_cons, hb] at ih ⊢; rw [ih]
  simp only [Spec.Str.escapeSpec, strBytes, hf]

/-- **Round trip.** For every string `s` (valid UTF-8 — needed on byte sources only, which re-check),
    parsing the escaped literal `escapeSpec s` (= what `format_escaped_str` writes: `c05_escape_spec`)
    gives back `String(s)`: from any source, in any configuration. -/
theorem c05_roundtrip (env : Env) (henv : env.tgt = .value) (s : Bytes)
    (hs : env.src ≠ .str → Spec.Utf8.validUtf8 s = true) :
    parseTop env (Spec.Str.escapeSpec s) = .ok (.str s) := by
  rw [escapeSpec_eq_strBytes]
  exact (c05_decode_spec env henv _ (SJ.Proofs.SerEscape.strItems_wf s) s).2
    ⟨SJ.Proofs.RoundTrip.surrogatesPairedStr_strItems s, hs, SJ.Proofs.SerEscape.decode_strItems s⟩

/-- the same for the bytes the serializer model actually writes -/
theorem c05_roundtrip_written (env : Env) (henv : env.tgt = .value) (s : Bytes)
    (hs : env.src ≠ .str → Spec.Utf8.validUtf8 s = true) :
    parseTop env (Model.Escape.escapedBytes s) = .ok (.str s) := by
  rw [c05_escape_spec]; exact c05_roundtrip env henv s hs

example : parseTop ⟨{ po := true }, .str, .value⟩ (Model.Escape.escapedBytes [0x22, 0xc3, 0xa9, 0x0a]) =
    .ok (.str [0x22, 0xc3, 0xa9, 0x0a]) := c05_roundtrip_written _ rfl _ (fun h => absurd rfl h)

/-- `a"\é😀<0x1f>` → `"a\"\\é😀\u001f"` → back -/
example : parseTop ⟨{}, .reader, .value⟩
    (Spec.Str.escapeSpec [0x61, 0x22, 0x5c, 0xc3, 0xa9, 0xf0, 0x9f, 0x98, 0x80, 0x1f]) =
    .ok (.str [0x61, 0x22, 0x5c, 0xc3, 0xa9, 0xf0, 0x9f, 0x98, 0x80, 0x1f]) :=
  c05_roundtrip _ rfl _ (fun _ => by decide +kernel)
/-- the UTF-8 hypothesis is needed on byte sources: `escapeSpec [0xff] = "\xff"` is rejected there -/
example : (parseTop ⟨{}, .slice, .value⟩ (Spec.Str.escapeSpec [0xff])).isErr .InvalidUnicodeCodePoint 3 = true := by
  decide +kernel

/-- **`&str` source.** `StrRead` does not re-validate (`str::from_utf8_unchecked`); since its input is
    valid UTF-8, every string it returns is: escapes are ASCII and cut the text at character
    boundaries, `\uXXXX` and merged pairs decode to scalar values (`Proofs.Utf8.decodeItems_utf8`). For
    strings and keys nested anywhere in a value: `c14_utf8`. -/
theorem c05_str_source_utf8 (cfg : Cfg) (bs : Bytes) (hbs : Spec.Utf8.validUtf8 bs = true) (s : Bytes)
    (h : parseTop ⟨cfg, .str, .value⟩ bs = .ok (.str s)) : Spec.Utf8.validUtf8 s = true := by
  have := SJ.Proofs.Utf8.parse_stringsValid ⟨cfg, .str, .value⟩ bs _ h (fun _ => hbs)
  simpa [JV.stringsValid] using this

example : Spec.Utf8.validUtf8 [0xc3, 0xa9, 0xc3, 0xa9, 0xf0, 0x9f, 0x98, 0x80, 0x0a] = true :=
  c05_str_source_utf8 {} (strBytes exItems) (by decide +kernel) _
    ((c05_decode_spec ⟨{}, .str, .value⟩ rfl exItems (by decide) _).2
      ⟨by decide, fun h => absurd rfl h, by decide +kernel⟩)

end decode

end SJ.Props.C05
