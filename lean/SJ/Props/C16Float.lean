import SJ.Props.C16
import SJ.Proofs.LexTopParser
/-!
# C16, the text leg under `float_roundtrip`: the float hypothesis of `c16_text_agrees_partial` follows from C07

(A separate module: C07's proofs use Mathlib tactics, which `SJ.Props.C16` does not import.)
-/
namespace SJ.Props.C16
open SJ SJ.Model.FromValue

/-- **C16, the text leg under `float_roundtrip`.** As `c16_text_agrees_partial`, for values with arbitrary finite floats: the
    hypothesis "the printer / parser pair returns the floats of the value" is C07's round trip (`c07_correct` +
    the named hypothesis `RyuShortest` about the external printer `ryu`: shortest digits, at most 24 bytes, written with a
    fraction or an exponent, the exact value rounding to the float). A float under a 128-bit integer target is included (the
    proviso `floatsPointed` of `c16_text_agrees_partial` is part of `RyuShortest`). `arbitrary_precision`: `c16_text_agrees_ap_fr`
    (`Props/C16ApFloat.lean`). -/
theorem c16_text_agrees_fr (mcfg : Model.Machine.Cfg) (hfr : mcfg.fr = true) (hap : mcfg.ap = false) (src : Model.Machine.Src)
    (ext : Spec.Program.Ext) (hext : Spec.Program.ExtOK ext) (hr : SJ.Proofs.LexTopRoundtrip.RyuShortest ext) (ext' : Ext)
    (s : Schema) (hs : Proofs.Typed.agreeFrag2 s = true)
    (v : JV) (hv : Spec.WF.shapeOK (Proofs.CanonM.specCfg mcfg) v = true)
    (hx : s.svArr v = false)
    (hd : mcfg.limitOff = true ∨ Spec.WF.depthJV v ≤ 127) :
    ∃ bufs, Model.Ser.serCompact ext (Model.Ser.ofValue v) = .ok bufs ∧
      (match fromValue { po := mcfg.po, fr := mcfg.fr, ap := false } ext' s v with
       | .ok t => Model.Typed.deTypedTop { cfg := mcfg, src := src } s bufs.flatten = .ok t
       | .error _ => ∀ t, Model.Typed.deTypedTop { cfg := mcfg, src := src } s bufs.flatten ≠ .ok t) :=
  c16_text_agrees_partial mcfg hap src ext hext ext' s hs v hv
    (SJ.Proofs.RoundTrip.floatsRT_of_all _ ext
      (fun b hb => SJ.Proofs.LexTopParser.floatRT_fr (Proofs.CanonM.specCfg mcfg) hfr hap ext hext hr b hb) v hv)
    (.inr (Proofs.Typed.floatsPointed_of_all ext (fun b hb => by
        have h := (hr.f64_text b hb).2.1
        unfold Proofs.Typed.floatPointed
        rcases h with h | h
        · cases hf : (Spec.Number.splitNumber (ext.ryu64 b)).frac with
          | nil => exact absurd hf h
          | cons _ _ => simp
        · cases he : (Spec.Number.splitNumber (ext.ryu64 b)).exp with
          | nil => exact absurd he h
          | cons _ _ => simp) v (Proofs.Typed.shapeW_of_shapeOK _ hap v hv))) hx hd

/-- non-vacuity of the float hypothesis at one value: a printer that writes `1.5` for `0x3ff8000000000000` -/
example (ext : Spec.Program.Ext) (h : ext.ryu64 0x3ff8000000000000 = [0x31, 0x2e, 0x35]) :
    Spec.WF.floatsRT (Proofs.CanonM.specCfg { fr := true }) ext (.arr [.num (.float 0x3ff8000000000000)]) = true := by
  simp only [Spec.WF.floatsRT, Spec.WF.floatsRTs, Spec.WF.floatRT, h, Bool.and_true]
  decide +kernel

end SJ.Props.C16
