import SJ.Props.C03
import SJ.Proofs.ToValueImage
import SJ.Proofs.ProgSide
import SJ.Props.C01
import SJ.Props.C02Map
/-!
# C15 — `to_value` agrees with the text serialiser

Property theorems only; helper lemmas live in `SJ/Proofs/ToValue{Num,Keys,Image}.lean` (and, from other
branches, `SJ/Proofs/MkObj.lean`: the map built by successive insertion is the declarative
`Spec.Canon.objectOf`; `SJ/Proofs/NumInt.lean`: integer classification of the text parser).

* the model: `SJ.Model.ToValue.toValue cfg ext` (transcription of `value::Serializer` with its compound
  builders, `Number::from_*`, `Value::from(f32|f64)`), `keyVal` (`value::ser::MapKeySerializer`);
* the other implementation: `SJ.Model.Ser.serCompact` / `keySer` (C03: `to_string`);
* the specification both are compared with: `SJ.Spec.Image.image` (the data-model image of a program) and
  `SJ.Spec.ValueOf.valueOfImage` (the `Value` such an image denotes — numbers classified from their text
  as the parser does, objects through the map specification), which is `Spec.Canon.canon` of the syntax
  tree printed for the image (`canon_cstOf`);
* programs: all `SVal` with `inScope` (integers within their Rust type, no `numberLit`), in every
  configuration `cfg` (preserve_order, float_roundtrip, arbitrary_precision), any `ext` with `ExtOK ext`;
* the statement's exceptions as decidable predicates: `widenF32` (f32 held as f64 in a `Value`),
  `has128OutOfRange`, `floatsRT` (f64 equality needs the printed text to read back as the same double);
* `Some(_)` keys: both key serializers forward `serialize_some` (`c15_key_dispatch`; the former deviation of
  `value::ser::MapKeySerializer` is fixed in the tree), so no theorem excludes them;
* the parse of the printed text: `parserComplete` (C01 completeness + the map lemma of C02) and `c15_agree`,
  with the program-level side conditions `SVal.nest p ≤ 127` and (byte sources) `SVal.utf8OK p` of
  `SJ/Spec/ProgramSide.lean`, related to the printed tree in `SJ/Proofs/ProgSide.lean`.
-/
namespace SJ.Props.C15
open SJ SJ.Spec.Grammar SJ.Spec.Denote SJ.Spec.Program SJ.Spec.Image SJ.Spec.ValueOf
open SJ.Model.ToValue SJ.Model.Ser SJ.Model.Machine
open SJ.Proofs SJ.Proofs.CanonM SJ.Proofs.ToValueImage SJ.Proofs.ToValueKeys
open SJ.Props.C03 (ext0 ext0_ok)

/-! ## keys -/

/-- **C15 (keys).** The two key serializers agree on every key program: both fail with the same error
    class (`KeyMustBeAString`, or `FloatKeyMustBeFinite` for a NaN / ±inf key), or both succeed and the text
    serializer writes exactly the quoted, escaped key text that `value::ser::MapKeySerializer` returns. -/
theorem c15_keys (ext : Ext) (hext : ExtOK ext) (k : SVal) :
    match keySer ext k, keyVal ext k with
    | .ok kb, .ok kt => kb.flatten = quote kt
    | .error e, .error e' => e = e'
    | _, _ => False := by
  rw [keyVal_eq_keyText ext k]
  exact SerModel.keySer_rel ext hext k

/-- bool, i128, finite f32, char, enum and newtype keys are accepted by both, with these texts -/
example : keyVal ext0 (.bool true) = .ok [0x74, 0x72, 0x75, 0x65] ∧
    keyVal ext0 (.int .i128 (-170141183460469231731687303715884105728)) = .ok
      [0x2d, 0x31, 0x37, 0x30, 0x31, 0x34, 0x31, 0x31, 0x38, 0x33, 0x34, 0x36, 0x30, 0x34, 0x36, 0x39, 0x32, 0x33, 0x31, 0x37,
       0x33, 0x31, 0x36, 0x38, 0x37, 0x33, 0x30, 0x33, 0x37, 0x31, 0x35, 0x38, 0x38, 0x34, 0x31, 0x30, 0x35, 0x37, 0x32, 0x38] ∧
    keyVal ext0 (.newtypeStruct (.f32 0x3fc00000)) = .ok [0x31, 0x2e, 0x35] ∧
    keyVal ext0 (.char 0xe9) = .ok [0xc3, 0xa9] ∧ keyVal ext0 (.unitVariant [0x56]) = .ok [0x56] ∧
    keyVal ext0 (.f64 0x7ff0000000000000) = .error .floatKeyMustBeFinite ∧
    keyVal ext0 (.unit) = .error .keyMustBeAString ∧ keySer ext0 (.unit) = .error .keyMustBeAString :=
  ⟨rfl, rfl, rfl, rfl, rfl, rfl, rfl, rfl⟩

/-- `Option` keys (also nested and behind newtype structs) are transparent for both -/
example : keyVal ext0 (.some (.str [0x6b])) = .ok [0x6b] ∧ keyVal ext0 (.some (.newtypeStruct (.some (.int .u8 7)))) = .ok [0x37] ∧
    keyVal ext0 (.some .none) = .error .keyMustBeAString ∧
    toValue {} ext0 (.map none [(.some (.str [0x6b]), .int .u8 1)]) = .ok (.obj [([0x6b], .num (.pos 1))]) := ⟨rfl, rfl, rfl, rfl⟩

/-- **C15 (keys): the models' dispatch is the extracted source's.** Method by method of
    `serde::Serializer`, what the two hand-written key-serializer models do on a representative program
    (reject / forward to the payload / finiteness test / accept) is what `tools/extract.py` reads off
    `src/value/ser.rs` and `src/ser.rs` on this run; and those two tables coincide. (A change of either `MapKeySerializer` breaks this theorem.) -/
theorem c15_key_dispatch (m : Gen.KeyMethod) :
    probe (fun p => (keyVal extP p).map fun _ => ()) m = Gen.keyClassValue m ∧
    probe (fun p => (keySer extP p).map fun _ => ()) m = Gen.keyClassText m ∧
    Gen.keyClassValue m = Gen.keyClassText m := by
  refine ⟨probe_value m, probe_text m, ?_⟩
  cases m <;> rfl

example : Gen.keyClassValue .serialize_some = .forward ∧ Gen.keyClassText .serialize_some = .forward ∧
    Gen.keyClassValue .serialize_bool = .accept ∧ Gen.keyClassValue .serialize_f32 = .finite := ⟨rfl, rfl, rfl, rfl⟩

/-! ## success -/

/-- **C15 (success).** For every program within the Rust types in every
    configuration: `to_value` succeeds exactly when `to_string` succeeds, except that without
    `arbitrary_precision` a 128-bit integer outside [i64::MIN, u64::MAX] in value position makes
    `to_value` (only) fail. No hypothesis on hints or floats is needed. -/
theorem c15_success_iff (cfg : Cfg) (ext : Ext) (hext : ExtOK ext) (p : SVal) (hs : inScope p = true) :
    (∃ v, toValue cfg ext p = .ok v) ↔
      ((∃ bufs, serCompact ext p = .ok bufs) ∧ (cfg.ap = true ∨ has128OutOfRange p = false)) := by
  have hA := toValue_agree cfg ext hext p hs
  have hW := image_widen ext cfg.ap p
  have hC := fun e => (C03.c03_error_iff ext hext p e).1
  cases hi : image ext (widenF32 cfg.ap p) with
  | error e =>
    rw [hi] at hA hW
    have hip : image ext p = .error e := by
      cases hp : image ext p with
      | error e' => simp only [hp, SameErr] at hW; rw [hW]
      | ok d => simp [hp, SameErr] at hW
    have hser := (hC e).2 hip
    constructor
    · rintro ⟨v, hv⟩
      simp only [Agree, hv] at hA
      rcases hA with h | ⟨_, h⟩ <;> cases h
    · rintro ⟨⟨bufs, hb⟩, _⟩
      rw [hser] at hb; cases hb
  | ok d =>
    rw [hi] at hA hW
    have hser : ∃ bufs, serCompact ext p = .ok bufs := by
      cases hsr : serCompact ext p with
      | ok bufs => exact ⟨bufs, rfl⟩
      | error e =>
        have := (hC e).1 hsr
        rw [this] at hW; simp [SameErr] at hW
    simp only [Agree] at hA
    by_cases hb : (!cfg.ap && has128OutOfRange p) = true
    · rw [if_pos hb] at hA
      simp only [Bool.and_eq_true, Bool.not_eq_true'] at hb
      constructor
      · rintro ⟨v, hv⟩; rw [hv] at hA; cases hA
      · rintro ⟨_, h | h⟩
        · rw [hb.1] at h; cases h
        · rw [hb.2] at h; cases h
    · rw [if_neg hb] at hA
      obtain ⟨v, hv, _⟩ := hA
      refine ⟨fun _ => ⟨hser, ?_⟩, fun _ => ⟨v, hv⟩⟩
      cases hap : cfg.ap
      · right; simpa [hap] using hb
      · left; rfl

/-- a unit key after a valid one: rejected by both, with the same class; a NaN key likewise -/
example : inScope C03.progBad = true ∧ hasSomeKey C03.progBad = false ∧
    toValue {} ext0 C03.progBad = .error .keyMustBeAString ∧ serCompact ext0 C03.progBad = .error .keyMustBeAString ∧
    toValue { po := true } ext0 (.map none [(.f64 0x7ff8000000000000, .unit), (.unit, .unit)]) = .error .floatKeyMustBeFinite ∧
    serCompact ext0 (.map none [(.f64 0x7ff8000000000000, .unit), (.unit, .unit)]) = .error .floatKeyMustBeFinite :=
  ⟨rfl, rfl, rfl, rfl, rfl, rfl⟩

/-- **C15 (errors).** Where the 128-bit exception does not apply, the two serializers fail together *with
    the same error class* (`KeyMustBeAString` / `FloatKeyMustBeFinite`, decided by the first offending key
    in serialisation order). -/
theorem c15_error_iff (cfg : Cfg) (ext : Ext) (hext : ExtOK ext) (p : SVal) (hs : inScope p = true) (h128 : cfg.ap = true ∨ has128OutOfRange p = false) (e : SerErr) :
    toValue cfg ext p = .error e ↔ serCompact ext p = .error e := by
  have hA := toValue_agree cfg ext hext p hs
  have hW := image_widen ext cfg.ap p
  have hC := fun e => (C03.c03_error_iff ext hext p e).1
  have hb : (!cfg.ap && has128OutOfRange p) = false := by
    rcases h128 with h | h <;> simp [h]
  rw [hb] at hA
  cases hi : image ext (widenF32 cfg.ap p) with
  | error e' =>
    rw [hi] at hA hW
    have hip : image ext p = .error e' := by
      cases hp : image ext p with
      | error e'' => simp only [hp, SameErr] at hW; rw [hW]
      | ok d => simp [hp, SameErr] at hW
    have hser := (hC e').2 hip
    simp only [Agree] at hA
    rcases hA with h | ⟨h, _⟩
    · rw [h, hser]; constructor <;> (intro h'; cases h'; rfl)
    · cases h
  | ok d =>
    rw [hi] at hA hW
    simp only [Agree, Bool.false_eq_true, if_false] at hA
    obtain ⟨v, hv, _⟩ := hA
    constructor
    · intro h; rw [hv] at h; cases h
    · intro h
      have := (hC e).1 h
      rw [this] at hW; simp [SameErr] at hW

/-- **C15 (the 128-bit exception is exactly `NumberOutOfRange`).** Without `arbitrary_precision`, a
    program that `to_string` accepts and that serialises a 128-bit integer outside [i64::MIN, u64::MAX]
    makes `to_value` fail with `number out of range`. -/
theorem c15_128_error (cfg : Cfg) (ext : Ext) (hext : ExtOK ext) (p : SVal) (hs : inScope p = true) (hap : cfg.ap = false) (h128 : has128OutOfRange p = true)
    (bufs : List Bytes) (hser : serCompact ext p = .ok bufs) :
    toValue cfg ext p = .error .numberOutOfRange := by
  have hA := toValue_agree cfg ext hext p hs
  have hW := image_widen ext cfg.ap p
  have hC := fun e => (C03.c03_error_iff ext hext p e).1
  cases hi : image ext (widenF32 cfg.ap p) with
  | error e =>
    rw [hi] at hW
    have hip : image ext p = .error e := by
      cases hp : image ext p with
      | error e' => simp only [hp, SameErr] at hW; rw [hW]
      | ok d => simp [hp, SameErr] at hW
    have := (hC e).2 hip
    rw [this] at hser; cases hser
  | ok d =>
    rw [hi] at hA
    simpa [Agree, hap, h128] using hA

/-- an `i128` just below `i64::MIN` inside a struct variant: `to_string` prints it, `to_value` cannot hold
    it (default build), and can under `arbitrary_precision` -/
example : inScope (.structVariant [0x56] [([0x61], .int .i128 (-9223372036854775809))]) = true ∧
    has128OutOfRange (.structVariant [0x56] [([0x61], .int .i128 (-9223372036854775809))]) = true ∧
    toValue {} ext0 (.structVariant [0x56] [([0x61], .int .i128 (-9223372036854775809))]) = .error .numberOutOfRange ∧
    toValue {} ext0 (.structVariant [0x56] [([0x61], .int .i128 (-9223372036854775808))])
      = .ok (.obj [([0x56], .obj [([0x61], .num (.neg (-9223372036854775808)))])]) ∧
    toValue {} ext0 (.int .u128 18446744073709551615) = .ok (.num (.pos 18446744073709551615)) ∧
    toValue {} ext0 (.int .u128 18446744073709551616) = .error .numberOutOfRange ∧
    toValue { ap := true } ext0 (.int .u128 18446744073709551616)
      = .ok (.num (.lit [0x31, 0x38, 0x34, 0x34, 0x36, 0x37, 0x34, 0x34, 0x30, 0x37, 0x33, 0x37, 0x30, 0x39, 0x35, 0x35,
                         0x31, 0x36, 0x31, 0x36])) :=
  ⟨rfl, rfl, rfl, rfl, rfl, rfl, rfl⟩

/-! ## the value -/

/-- **C15 (value = the image's value).** If `to_value` succeeds, the f32-widened program has a data-model
    image `d` — the same `image` the text serializer's output is proved to denote (C03) — and the result
    is the `Value` that `d` denotes: integers classified as by the parser (or kept as text under
    `arbitrary_precision`), floats equal provided their printed text reads back as the same double
    (`floatsRT`: C07 under `float_roundtrip`, short literals by default, trivial under
    `arbitrary_precision`), objects with one entry per distinct key, last duplicate winning, sorted /
    in first-occurrence order. -/
theorem c15_value_is_image (cfg : Cfg) (ext : Ext) (hext : ExtOK ext) (p : SVal) (hs : inScope p = true) (hf : floatsRT (specCfg cfg) ext (widenF32 cfg.ap p) = true)
    (v : JV) (h : toValue cfg ext p = .ok v) :
    ∃ d, image ext (widenF32 cfg.ap p) = .ok d ∧ valueOfImage (specCfg cfg) d = some v := by
  have hA := toValue_agree cfg ext hext p hs
  cases hi : image ext (widenF32 cfg.ap p) with
  | error e =>
    rw [hi, h] at hA
    simp only [Agree] at hA
    rcases hA with h' | ⟨_, h'⟩ <;> cases h'
  | ok d =>
    rw [hi, h] at hA
    simp only [Agree] at hA
    split at hA
    · cases hA
    · obtain ⟨v', hv, hd⟩ := hA
      cases hv
      exact ⟨d, rfl, hd hf⟩

/-- `valueOfImage` is the parser's denotation of the tree the serializer prints for `d` -/
theorem c15_valueOfImage_is_canon (cfg : Spec.Canon.Cfg) (d : DV) :
    Spec.Canon.canon cfg (cstOf d) = valueOfImage cfg d := canon_cstOf cfg d

/-- `{"b": 1.5f32, "a": [i128 7, bytes [255]], "b": Some(-3i8), V{}}`-like program: duplicate key `b` (last
    wins), keys sorted by default and in first-occurrence order under preserve_order, the f32 widened,
    the i128 that fits held as `PosInt`, bytes as an array of numbers, an empty struct variant -/
def progB : SVal :=
  .map none [(.str [0x62], .f32 0x3fc00000), (.unitVariant [0x61], .tuple [.int .i128 7, .bytes [255]]),
             (.char 0x62, .some (.int .i8 (-3))), (.int .u8 0, .structVariant [0x56] [])]

example : progB.wf = true ∧ inScope progB = true ∧ has128OutOfRange progB = false ∧
    floatsRT {} ext0 (widenF32 false progB) = true ∧
    widenF32 false progB = .map none [(.str [0x62], .f64 0x3ff8000000000000),
      (.unitVariant [0x61], .tuple [.int .i128 7, .bytes [255]]), (.char 0x62, .some (.int .i8 (-3))),
      (.int .u8 0, .structVariant [0x56] [])] ∧
    toValue {} ext0 progB = .ok (.obj [([0x30], .obj [([0x56], .obj [])]), ([0x61], .arr [.num (.pos 7), .arr [.num (.pos 255)]]),
      ([0x62], .num (.neg (-3)))]) ∧
    toValue { po := true } ext0 progB = .ok (.obj [([0x62], .num (.neg (-3))),
      ([0x61], .arr [.num (.pos 7), .arr [.num (.pos 255)]]), ([0x30], .obj [([0x56], .obj [])])]) := by
  refine ⟨rfl, rfl, rfl, by decide +kernel, rfl, rfl, rfl⟩

/-- … and that value is the one the image of the widened `progB` denotes -/
example : (match image ext0 (widenF32 false progB) with | .ok d => valueOfImage {} d | .error _ => none) =
    some (.obj [([0x30], .obj [([0x56], .obj [])]), ([0x61], .arr [.num (.pos 7), .arr [.num (.pos 255)]]),
      ([0x62], .num (.neg (-3)))]) := by rfl

/-- **C15 (agreement with the text) — partial.** If `to_value` succeeds on a well-formed program, then
    `to_string` of the f32-widened program succeeds, its output is an RFC 8259 `value` with a syntax tree
    `t` that denotes the image, and the `Value` this tree denotes under the parser's rules
    (`Spec.Canon.canon`: property C02's right-hand side) is exactly the result of `to_value`.
    Missing for "equals the Value obtained by *parsing* `to_string(t)`": that the parser returns
    `canon t` on every derivable text within its side conditions — supplied by `c15_agree` below. -/
theorem c15_agree_partial (cfg : Cfg) (ext : Ext) (hext : ExtOK ext) (p : SVal) (hp : p.wf = true)
    (hs : inScope p = true)
    (hf : floatsRT (specCfg cfg) ext (widenF32 cfg.ap p) = true) (v : JV) (h : toValue cfg ext p = .ok v) :
    ∃ bufs d, serCompact ext (widenF32 cfg.ap p) = .ok bufs ∧ image ext (widenF32 cfg.ap p) = .ok d ∧
      Derives bufs.flatten (cstOf d) ∧ den (cstOf d) = some d ∧
      Spec.Canon.canon (specCfg cfg) (cstOf d) = some v := by
  obtain ⟨d, hd, hv⟩ := c15_value_is_image cfg ext hext p hs hf v h
  cases hsr : serCompact ext (widenF32 cfg.ap p) with
  | error e =>
    have := ((C03.c03_error_iff ext hext (widenF32 cfg.ap p) e).1).1 hsr
    rw [hd] at this; cases this
  | ok bufs =>
    obtain ⟨d', hd', _, hder, hden⟩ :=
      C03.c03_compact ext hext (widenF32 cfg.ap p) (by rw [wf_widen]; exact hp) bufs hsr
    rw [hd] at hd'; cases hd'
    exact ⟨bufs, d, rfl, hd, hder, hden, by rw [canon_cstOf]; exact hv⟩

/-- the parser property the agreement rests on: on a derivable text whose tree meets the acceptance side
    conditions (depth, surrogate pairing, number range) the `&str` parser returns the value the tree
    denotes. It is a theorem: `parserComplete` below. -/
def ParserComplete (cfg : Cfg) : Prop :=
  ∀ (bs : Bytes) (t : CST) (v : JV), Derives bs t → Spec.Canon.sideConditions (specCfg cfg) false t = true →
    Spec.Canon.canon (specCfg cfg) t = some v → parseTop ⟨cfg, .str, .value⟩ bs = .ok v

/-- **`ParserComplete` holds in every configuration**: completeness of the parser (C01,
    `c01_complete_sideConditions`) and the map-level lemma of C02 (`c02_canonM_eq_canon`: the object the
    machine builds by successive insertion is the declarative one). -/
theorem parserComplete (cfg : Cfg) : ParserComplete cfg := by
  intro bs t v hder hside hcanon
  obtain ⟨v', hp, hc⟩ := C01.c01_complete_sideConditions ⟨cfg, .str, .value⟩ rfl bs t
    ⟨[], bs, [], by simp, by decide, by decide, hder⟩ hside
  rw [C02Map.c02_canonM_eq_canon, hcanon] at hc
  cases hc; exact hp

/-- **C15 (agreement), from the parser property.** When the printed tree is within the parser's side
    conditions, parsing `to_string` of the (f32-widened) data returns exactly `to_value` of the data.
    (`c15_agree` discharges `hparse` and `hside` from program-level hypotheses.) -/
theorem c15_agree_of_parser (cfg : Cfg) (hparse : ParserComplete cfg) (ext : Ext) (hext : ExtOK ext) (p : SVal)
    (hp : p.wf = true) (hs : inScope p = true)
    (hf : floatsRT (specCfg cfg) ext (widenF32 cfg.ap p) = true) (v : JV) (h : toValue cfg ext p = .ok v)
    (hside : ∀ d, image ext (widenF32 cfg.ap p) = .ok d →
      Spec.Canon.sideConditions (specCfg cfg) false (cstOf d) = true) :
    ∃ bufs, serCompact ext (widenF32 cfg.ap p) = .ok bufs ∧
      parseTop ⟨cfg, .str, .value⟩ bufs.flatten = .ok v := by
  obtain ⟨bufs, d, hb, hd, hder, _, hc⟩ := c15_agree_partial cfg ext hext p hp hs hf v h
  exact ⟨bufs, hb, hparse _ _ _ hder (hside d hd) hc⟩

/-- **C15 (agreement).** For every well-formed program within the Rust types, in every configuration and
    from every input source: if `to_value` succeeds, `to_string` of the f32-widened program succeeds and
    *parsing* its output returns exactly the `to_value` result. Hypotheses, all on the program:
    `inScope` (integers fit their type, no `numberLit`), the value printed nests at most 127 deep
    (`SVal.nest`; not needed when the recursion limit is off), the float proviso `floatsRT`, and — for
    byte sources, which check it — the Rust string invariant `SVal.utf8OK` (every `&str` handed over is
    UTF-8, every `char` a scalar value). No hypothesis on the parser, on keys (`Some(_)` keys included)
    or on the printed tree remains: surrogate pairing holds because the serializer prints no `\u`
    escape but `\u00XX`, the numeric range because the value exists. -/
theorem c15_agree (cfg : Cfg) (src : Src) (ext : Ext) (hext : ExtOK ext) (p : SVal)
    (hp : p.wf = true) (hs : inScope p = true)
    (hdepth : cfg.limitOff = true ∨ p.nest ≤ 127)
    (hutf : src ≠ .str → p.utf8OK = true)
    (hf : floatsRT (specCfg cfg) ext (widenF32 cfg.ap p) = true) (v : JV) (h : toValue cfg ext p = .ok v) :
    ∃ bufs, serCompact ext (widenF32 cfg.ap p) = .ok bufs ∧
      parseTop ⟨cfg, src, .value⟩ bufs.flatten = .ok v := by
  obtain ⟨bufs, d, hb, hd, hder, _, hc⟩ := c15_agree_partial cfg ext hext p hp hs hf v h
  refine ⟨bufs, hb, ?_⟩
  rw [← C02Map.c02_canonM_eq_canon] at hc
  obtain ⟨v', hpv, hc'⟩ := C01.c01_complete_value ⟨cfg, src, .value⟩ rfl bufs.flatten (cstOf d)
    ⟨[], bufs.flatten, [], by simp, by decide, by decide, hder⟩
    (hdepth.imp id fun hn => by
      rw [ProgSide.depth_image ext _ d hd, ProgSide.nest_widen]; exact hn)
    (ProgSide.surrogatesPaired_cstOf d)
    (fun hne => ProgSide.stringsUtf8_cstOf d
      (ProgSide.image_utf8 ext hext _ d (by rw [ProgSide.utf8OK_widen]; exact hutf hne) hd))
    (RoundTrip.numbersInRange_of_canonM cfg _ v hc)
  rw [hc] at hc'; cases hc'; exact hpv

/-- `progB` meets the hypotheses (it nests 3 deep: `{"0":{"V":{}}}`), so the parse of its text is its
    `to_value`, from a `&str` and from a byte slice, sorted and in insertion order -/
example : progB.nest = 3 ∧ progB.utf8OK = true ∧
    (∃ bufs, serCompact ext0 (widenF32 false progB) = .ok bufs ∧
      parseTop ⟨{}, .slice, .value⟩ bufs.flatten = .ok (.obj [([0x30], .obj [([0x56], .obj [])]),
        ([0x61], .arr [.num (.pos 7), .arr [.num (.pos 255)]]), ([0x62], .num (.neg (-3)))])) ∧
    (∃ bufs, serCompact ext0 (widenF32 false progB) = .ok bufs ∧
      parseTop ⟨{ po := true }, .str, .value⟩ bufs.flatten = .ok (.obj [([0x62], .num (.neg (-3))),
        ([0x61], .arr [.num (.pos 7), .arr [.num (.pos 255)]]), ([0x30], .obj [([0x56], .obj [])])])) :=
  ⟨rfl, rfl,
   c15_agree {} .slice ext0 ext0_ok progB rfl rfl (Or.inr (by decide)) (fun _ => rfl) (by decide +kernel) _ rfl,
   c15_agree { po := true } .str ext0 ext0_ok progB rfl rfl (Or.inr (by decide)) (fun _ => rfl)
     (by decide +kernel) _ rfl⟩

/-- a `Some(_)` key and a lone-surrogate-looking string `\ud800` (six plain characters: the backslash is
    escaped on output, so no `\u` escape is printed) -/
example : ∃ bufs, serCompact ext0 (.map none [(.some (.str [0x6b]), .str [0x5c, 0x75, 0x64, 0x38, 0x30, 0x30])]) = .ok bufs ∧
    parseTop ⟨{}, .reader, .value⟩ bufs.flatten = .ok (.obj [([0x6b], .str [0x5c, 0x75, 0x64, 0x38, 0x30, 0x30])]) :=
  c15_agree {} .reader ext0 ext0_ok (.map none [(.some (.str [0x6b]), .str [0x5c, 0x75, 0x64, 0x38, 0x30, 0x30])])
    rfl rfl (Or.inr (by decide)) (fun _ => rfl) rfl _ rfl

/-- the depth hypothesis is needed: 128 nested newtype variants print `{"V":{"V":…null…}}` nesting 128
    deep, which `to_value` builds but the parser rejects at the 128th `{` -/
def progDeep : SVal := Nat.repeat (SVal.newtypeVariant [0x56]) 128 .unit

example : progDeep.nest = 128 ∧ inScope progDeep = true ∧
    (match toValue {} ext0 progDeep with | .ok _ => true | .error _ => false) = true ∧
    (match serCompact ext0 progDeep with
     | .ok bufs => (parseTop ⟨{}, .str, .value⟩ bufs.flatten).isErr .RecursionLimitExceeded 636
     | .error _ => false) = true := by
  refine ⟨by decide +kernel, by decide +kernel, by decide +kernel, by decide +kernel⟩

/-- `progB`: the text `to_string` prints for the widened program, and the model *parser* run on it returns
    the `to_value` result — in the default and the preserve_order configuration (the instance of
    `ParserComplete` needed here, by evaluation) -/
example : (serCompact ext0 (widenF32 false progB)).map List.flatten = .ok
      [0x7b, 0x22, 0x62, 0x22, 0x3a, 0x31, 0x2e, 0x35, 0x2c, 0x22, 0x61, 0x22, 0x3a, 0x5b, 0x37, 0x2c, 0x5b, 0x32, 0x35, 0x35,
       0x5d, 0x5d, 0x2c, 0x22, 0x62, 0x22, 0x3a, 0x2d, 0x33, 0x2c, 0x22, 0x30, 0x22, 0x3a, 0x7b, 0x22, 0x56, 0x22, 0x3a, 0x7b,
       0x7d, 0x7d, 0x7d] := rfl
example : parseTop ⟨{}, .str, .value⟩
      [0x7b, 0x22, 0x62, 0x22, 0x3a, 0x31, 0x2e, 0x35, 0x2c, 0x22, 0x61, 0x22, 0x3a, 0x5b, 0x37, 0x2c, 0x5b, 0x32, 0x35, 0x35,
       0x5d, 0x5d, 0x2c, 0x22, 0x62, 0x22, 0x3a, 0x2d, 0x33, 0x2c, 0x22, 0x30, 0x22, 0x3a, 0x7b, 0x22, 0x56, 0x22, 0x3a, 0x7b,
       0x7d, 0x7d, 0x7d] = .ok (.obj [([0x30], .obj [([0x56], .obj [])]), ([0x61], .arr [.num (.pos 7), .arr [.num (.pos 255)]]),
      ([0x62], .num (.neg (-3)))]) := by rfl

end SJ.Props.C15
