import SJ.Proofs.Machine
/-!
# C11 — syntax errors point at the first offending byte

Targets `Value` and ignored content, every configuration and source. Since the two position fixes
(known_findings.json: C09-oor-position, C11-ignored-control-char) every error a step raises is
reported *including* the byte that triggered it, for slices and readers alike.
-/
namespace SJ.Props.C11
open SJ SJ.Gen SJ.Model.Machine SJ.Proofs.Machine

theorem errIdx_incl (env : Env) (i : Nat) : errIdx env .incl i = i + 1 := by
  unfold errIdx; split <;> first | rfl | (rename_i h _; cases h)

/-- every reported position lies within the input -/
theorem c11_within_input (env : Env) (bs : Bytes) (c : Code) (idx : Nat)
    (h : parseTop env bs = .err c idx) : idx ≤ bs.length := by
  unfold parseTop at h
  rw [run_eq_feed_finish] at h
  cases hf : feed env init 0 bs with
  | error e =>
    obtain ⟨c', j⟩ := e; rw [hf] at h; simp at h
    have := feed_err_idx env init 0 bs c' j hf; omega
  | ok p =>
    obtain ⟨s', j⟩ := p; rw [hf] at h
    have hj := feed_idx _ _ _ _ _ _ hf
    cases hfin : finish env s' with
    | ok v => simp [hfin] at h
    | error c' => simp [hfin] at h; omega

/-- an error raised by `feed` (i.e. by a step) is Syntax-classified -/
theorem feed_err_syntax (env : Env) (s : St) (i : Nat) (xs : Bytes) (c : Code) (j : Nat)
    (h : feed env s i xs = .error (c, j)) : classify c = .syntax := by
  induction xs generalizing s i with
  | nil => simp [feed] at h
  | cons b bs ih =>
    simp only [feed] at h
    cases hs : step env s b with
    | ok s' => rw [hs] at h; exact ih _ _ h
    | error e =>
      obtain ⟨c', a⟩ := e; rw [hs] at h; simp at h
      exact h.1 ▸ (step_err env s b c' a hs).2

/-- Eof-classified errors are positioned at the end of the input -/
theorem c11_eof_at_end (env : Env) (bs : Bytes) (c : Code) (idx : Nat)
    (h : parseTop env bs = .err c idx) (hc : classify c = .eof) : idx = bs.length := by
  unfold parseTop at h
  rw [run_eq_feed_finish] at h
  cases hf : feed env init 0 bs with
  | error e =>
    obtain ⟨c', j⟩ := e; rw [hf] at h; simp at h
    have := feed_err_syntax env init 0 bs c' j hf
    rw [h.1] at this; rw [hc] at this; cases this
  | ok p =>
    obtain ⟨s', j⟩ := p; rw [hf] at h
    have hj := feed_idx _ _ _ _ _ _ hf
    cases hfin : finish env s' with
    | ok v => simp [hfin] at h
    | error c' => simp [hfin] at h; omega

/-- a step error is decided by the bytes up to and including the offending one: it is raised at
    index `i` with reported position `i + 1`, whatever follows -/
theorem feed_err_stable (env : Env) (s : St) (i : Nat) (xs : Bytes) (c : Code) (j : Nat)
    (h : feed env s i xs = .error (c, j)) :
    i < j ∧ ∀ ys, feed env s i (xs.take (j - i) ++ ys) = .error (c, j) := by
  induction xs generalizing s i with
  | nil => simp [feed] at h
  | cons b bs ih =>
    simp only [feed] at h
    cases hs : step env s b with
    | ok s' =>
      rw [hs] at h
      obtain ⟨hlt, hst⟩ := ih _ _ h
      refine ⟨by omega, fun ys => ?_⟩
      have : j - i = (j - (i + 1)) + 1 := by omega
      rw [this, List.take_succ_cons, List.cons_append, feed, hs]
      exact hst ys
    | error e =>
      obtain ⟨c', a⟩ := e; rw [hs] at h; simp at h
      have ha := (step_err env s b c' a hs).1
      subst ha
      rw [errIdx_incl] at h
      obtain ⟨rfl, rfl⟩ := h
      refine ⟨by omega, fun ys => ?_⟩
      have : i + 1 - i = 1 := by omega
      rw [this]; simp [feed, hs, errIdx_incl]

/-- **C11 (dead prefix).** If parsing fails with a grammar error (not Eof, not the number-range
    rejection) reported at byte count `idx`, then the first `idx` bytes already doom the input:
    every continuation of that prefix fails with the same error at the same position — no
    continuation could be valid JSON. -/
theorem c11_dead (env : Env) (bs : Bytes) (c : Code) (idx : Nat)
    (h : parseTop env bs = .err c idx) (hc : classify c ≠ .eof) (hn : c ≠ .NumberOutOfRange) :
    0 < idx ∧ ∀ ys, parseTop env (bs.take idx ++ ys) = .err c idx := by
  unfold parseTop at h ⊢
  rw [run_eq_feed_finish] at h
  cases hf : feed env init 0 bs with
  | error e =>
    obtain ⟨c', j⟩ := e; rw [hf] at h; simp at h; obtain ⟨rfl, rfl⟩ := h
    obtain ⟨hlt, hst⟩ := feed_err_stable env init 0 bs c' j hf
    refine ⟨hlt, fun ys => ?_⟩
    rw [run_eq_feed_finish]
    have := hst ys
    simp only [Nat.sub_zero] at this
    rw [this]
  | ok p =>
    obtain ⟨s', j⟩ := p; rw [hf] at h
    cases hfin : finish env s' with
    | ok v => simp [hfin] at h
    | error c' =>
      simp [hfin] at h
      -- errors of `finish` are Eof-classified or NumberOutOfRange — both excluded
      exfalso
      obtain ⟨rfl, _⟩ := h
      cases ht : env.tgt with
      | value =>
        rcases finish_eof_clean_value env ht s' c' hfin with h1 | h1
        · exact hc h1
        · exact hn h1
      | ignored => exact hc (finish_eof_clean_ignored env ht s' c' hfin)

/-! line and column as the statement defines them -/
def newlines (bs : Bytes) : Nat := (bs.filter (· == 0x0a)).length

abbrev lcStep (lc : Nat × Nat) (b : UInt8) : Nat × Nat := if b == 0x0a then (lc.1 + 1, 0) else (lc.1, lc.2 + 1)

theorem fold_line (xs : Bytes) (l c : Nat) : (xs.foldl lcStep (l, c)).1 = l + newlines xs := by
  induction xs generalizing l c with
  | nil => simp [newlines]
  | cons b bs ih =>
    simp only [List.foldl_cons, lcStep]
    by_cases hb : (b == 0x0a) = true
    · simp only [hb, if_true]; rw [ih]; simp [newlines, hb]; omega
    · simp only [hb]; rw [ih]; simp [newlines, hb]

theorem fold_no_newline (xs : Bytes) (l c : Nat) (h : ∀ x ∈ xs, (x == 0x0a) = false) :
    xs.foldl lcStep (l, c) = (l, c + xs.length) := by
  induction xs generalizing l c with
  | nil => simp
  | cons b bs ih =>
    simp only [List.foldl_cons, lcStep]
    have hb := h b (by simp)
    simp only [hb]
    rw [ih _ _ (fun x hx => h x (by simp [hx]))]
    simp; omega

/-- **C11 (line).** `line` is one plus the number of newlines among the first `idx` bytes. -/
theorem c11_line (bs : Bytes) (idx : Nat) : (lineCol bs idx).1 = 1 + newlines (bs.take idx) := by
  unfold lineCol; exact fold_line _ 1 0

/-- **C11 (column).** `column` is the number of bytes after the last newline among the first `idx`
    bytes — 0 if byte `idx` is itself a newline —, or `idx` itself on the first line. -/
theorem c11_col_after_newline (bs : Bytes) (idx : Nat) (pre post : Bytes)
    (h : bs.take idx = pre ++ 0x0a :: post) (hp : ∀ x ∈ post, (x == 0x0a) = false) :
    (lineCol bs idx).2 = post.length := by
  unfold lineCol
  rw [h, List.foldl_append, List.foldl_cons]
  have : lcStep (List.foldl lcStep (1, 0) pre) 0x0a = ((List.foldl lcStep (1, 0) pre).1 + 1, 0) := by
    simp [lcStep]
  show (List.foldl lcStep (lcStep (List.foldl lcStep (1, 0) pre) 0x0a) post).2 = _
  rw [this, fold_no_newline _ _ _ hp]; simp

theorem c11_col_first_line (bs : Bytes) (idx : Nat) (hp : ∀ x ∈ bs.take idx, (x == 0x0a) = false) :
    (lineCol bs idx).2 = (bs.take idx).length := by
  unfold lineCol
  show (List.foldl lcStep (1, 0) (bs.take idx)).2 = _
  rw [fold_no_newline _ _ _ hp]; simp

/-- non-vacuity: `[1,]` is dead at byte 4 (trailing comma), `{"a" 1}` at byte 6 -/
def envS : Env := { cfg := {}, src := .str, tgt := .value }
example : parseTop envS [0x5b, 0x31, 0x2c, 0x5d] = .err .TrailingComma 4 := rfl
example : parseTop envS [0x7b, 0x22, 0x61, 0x22, 0x20, 0x31, 0x7d] = .err .ExpectedColon 6 := rfl
example : lineCol [0x5b, 0x0a, 0x31, 0x0a, 0x78] 5 = (3, 1) := rfl

end SJ.Props.C11
