import SJ.Proofs.Machine
import SJ.Proofs.EarliestMain
import SJ.Proofs.EarliestDead
import SJ.Proofs.LineCol
import SJ.Proofs.EarliestGrammar
import SJ.Proofs.EarliestStrBound
/-!
# C11 — syntax errors point at the first offending byte

Targets `Value` and ignored content, every configuration and source. Since the two position fixes
(known_findings.json: C09-oor-position, C11-ignored-control-char) every error a step raises is
reported *including* the byte that triggered it, for slices and readers alike.
-/
namespace SJ.Props.C11
open SJ SJ.Gen SJ.Model.Machine SJ.Proofs.Machine

theorem errIdx_incl (env : Env) (i : Nat) : errIdx env .incl i = i + 1 := by
  unfold errIdx; split <;> first | rfl | (rename_i h _; cases h)

/-- every reported position lies within the input -/
theorem c11_within_input (env : Env) (bs : Bytes) (c : Code) (idx : Nat)
    (h : parseTop env bs = .err c idx) : idx ≤ bs.length := by
  unfold parseTop at h
  rw [run_eq_feed_finish] at h
  cases hf : feed env init 0 bs with
  | error e =>
    obtain ⟨c', j⟩ := e; rw [hf] at h; simp at h
    have := feed_err_idx env init 0 bs c' j hf; omega
  | ok p =>
    obtain ⟨s', j⟩ := p; rw [hf] at h
    have hj := feed_idx _ _ _ _ _ _ hf
    cases hfin : finish env s' with
    | ok v => simp [hfin] at h
    | error c' => simp [hfin] at h; omega

/-- an error raised by `feed` (i.e. by a step) is Syntax-classified -/
theorem feed_err_syntax (env : Env) (s : St) (i : Nat) (xs : Bytes) (c : Code) (j : Nat)
    (h : feed env s i xs = .error (c, j)) : classify c = .syntax := by
  induction xs generalizing s i with
  | nil => simp [feed] at h
  | cons b bs ih =>
    simp only [feed] at h
    cases hs : step env s b with
    | ok s' => rw [hs] at h; exact ih _ _ h
    | error e =>
      obtain ⟨c', a⟩ := e; rw [hs] at h; simp at h
      exact h.1 ▸ (step_err env s b c' a hs).2

/-- Eof-classified errors are positioned at the end of the input -/
theorem c11_eof_at_end (env : Env) (bs : Bytes) (c : Code) (idx : Nat)
    (h : parseTop env bs = .err c idx) (hc : classify c = .eof) : idx = bs.length := by
  unfold parseTop at h
  rw [run_eq_feed_finish] at h
  cases hf : feed env init 0 bs with
  | error e =>
    obtain ⟨c', j⟩ := e; rw [hf] at h; simp at h
    have := feed_err_syntax env init 0 bs c' j hf
    rw [h.1] at this; rw [hc] at this; cases this
  | ok p =>
    obtain ⟨s', j⟩ := p; rw [hf] at h
    have hj := feed_idx _ _ _ _ _ _ hf
    cases hfin : finish env s' with
    | ok v => simp [hfin] at h
    | error c' => simp [hfin] at h; omega

/-- a step error is decided by the bytes up to and including the offending one: it is raised at
    index `i` with reported position `i + 1`, whatever follows -/
theorem feed_err_stable (env : Env) (s : St) (i : Nat) (xs : Bytes) (c : Code) (j : Nat)
    (h : feed env s i xs = .error (c, j)) :
    i < j ∧ ∀ ys, feed env s i (xs.take (j - i) ++ ys) = .error (c, j) := by
  induction xs generalizing s i with
  | nil => simp [feed] at h
  | cons b bs ih =>
    simp only [feed] at h
    cases hs : step env s b with
    | ok s' =>
      rw [hs] at h
      obtain ⟨hlt, hst⟩ := ih _ _ h
      refine ⟨by omega, fun ys => ?_⟩
      have : j - i = (j - (i + 1)) + 1 := by omega
      rw [this, List.take_succ_cons, List.cons_append, feed, hs]
      exact hst ys
    | error e =>
      obtain ⟨c', a⟩ := e; rw [hs] at h; simp at h
      have ha := (step_err env s b c' a hs).1
      subst ha
      rw [errIdx_incl] at h
      obtain ⟨rfl, rfl⟩ := h
      refine ⟨by omega, fun ys => ?_⟩
      have : i + 1 - i = 1 := by omega
      rw [this]; simp [feed, hs, errIdx_incl]

/-- **C11 (dead prefix).** If parsing fails with a grammar error (not Eof, not the number-range
    rejection) reported at byte count `idx`, then the first `idx` bytes already doom the input:
    every continuation of that prefix fails with the same error at the same position — no
    continuation could be valid JSON. -/
theorem c11_dead (env : Env) (bs : Bytes) (c : Code) (idx : Nat)
    (h : parseTop env bs = .err c idx) (hc : classify c ≠ .eof) (hn : c ≠ .NumberOutOfRange) :
    0 < idx ∧ ∀ ys, parseTop env (bs.take idx ++ ys) = .err c idx := by
  unfold parseTop at h ⊢
  rw [run_eq_feed_finish] at h
  cases hf : feed env init 0 bs with
  | error e =>
    obtain ⟨c', j⟩ := e; rw [hf] at h; simp at h; obtain ⟨rfl, rfl⟩ := h
    obtain ⟨hlt, hst⟩ := feed_err_stable env init 0 bs c' j hf
    refine ⟨hlt, fun ys => ?_⟩
    rw [run_eq_feed_finish]
    have := hst ys
    simp only [Nat.sub_zero] at this
    rw [this]
  | ok p =>
    obtain ⟨s', j⟩ := p; rw [hf] at h
    cases hfin : finish env s' with
    | ok v => simp [hfin] at h
    | error c' =>
      simp [hfin] at h
      -- errors of `finish` are Eof-classified or NumberOutOfRange — both excluded
      exfalso
      obtain ⟨rfl, _⟩ := h
      cases ht : env.tgt with
      | value =>
        rcases finish_eof_clean_value env ht s' c' hfin with h1 | h1
        · exact hc h1
        · exact hn h1
      | ignored => exact hc (finish_eof_clean_ignored env ht s' c' hfin)

/-! line and column as the statement defines them -/
def newlines (bs : Bytes) : Nat := (bs.filter (· == 0x0a)).length

abbrev lcStep (lc : Nat × Nat) (b : UInt8) : Nat × Nat := if b == 0x0a then (lc.1 + 1, 0) else (lc.1, lc.2 + 1)

theorem fold_line (xs : Bytes) (l c : Nat) : (xs.foldl lcStep (l, c)).1 = l + newlines xs := by
  induction xs generalizing l c with
  | nil => simp [newlines]
  | cons b bs ih =>
    simp only [List.foldl_cons, lcStep]
    by_cases hb : (b == 0x0a) = true
    · simp only [hb, if_true]; rw [ih]; simp [newlines, hb]; omega
    · simp only [hb]; rw [ih]; simp [newlines, hb]

theorem fold_no_newline (xs : Bytes) (l c : Nat) (h : ∀ x ∈ xs, (x == 0x0a) = false) :
    xs.foldl lcStep (l, c) = (l, c + xs.length) := by
  induction xs generalizing l c with
  | nil => simp
  | cons b bs ih =>
    simp only [List.foldl_cons, lcStep]
    have hb := h b (by simp)
    simp only [hb]
    rw [ih _ _ (fun x hx => h x (by simp [hx]))]
    simp; omega

/-- **C11 (line).** `line` is one plus the number of newlines among the first `idx` bytes. -/
theorem c11_line (bs : Bytes) (idx : Nat) : (lineCol bs idx).1 = 1 + newlines (bs.take idx) := by
  unfold lineCol; exact fold_line _ 1 0

/-- **C11 (column).** `column` is the number of bytes after the last newline among the first `idx`
    bytes — 0 if byte `idx` is itself a newline —, or `idx` itself on the first line. -/
theorem c11_col_after_newline (bs : Bytes) (idx : Nat) (pre post : Bytes)
    (h : bs.take idx = pre ++ 0x0a :: post) (hp : ∀ x ∈ post, (x == 0x0a) = false) :
    (lineCol bs idx).2 = post.length := by
  unfold lineCol
  rw [h, List.foldl_append, List.foldl_cons]
  have : lcStep (List.foldl lcStep (1, 0) pre) 0x0a = ((List.foldl lcStep (1, 0) pre).1 + 1, 0) := by
    simp [lcStep]
  show (List.foldl lcStep (lcStep (List.foldl lcStep (1, 0) pre) 0x0a) post).2 = _
  rw [this, fold_no_newline _ _ _ hp]; simp

theorem c11_col_first_line (bs : Bytes) (idx : Nat) (hp : ∀ x ∈ bs.take idx, (x == 0x0a) = false) :
    (lineCol bs idx).2 = (bs.take idx).length := by
  unfold lineCol
  show (List.foldl lcStep (1, 0) (bs.take idx)).2 = _
  rw [fold_no_newline _ _ _ hp]; simp

/-- non-vacuity: `[1,]` is dead at byte 4 (trailing comma), `{"a" 1}` at byte 6 -/
def envS : Env := { cfg := {}, src := .str, tgt := .value }
example : parseTop envS [0x5b, 0x31, 0x2c, 0x5d] = .err .TrailingComma 4 := rfl
example : parseTop envS [0x7b, 0x22, 0x61, 0x22, 0x20, 0x31, 0x7d] = .err .ExpectedColon 6 := rfl
example : lineCol [0x5b, 0x0a, 0x31, 0x0a, 0x78] 5 = (3, 1) := rfl

/-! ## the reported byte is the *first* offending one: the bytes before it are still viable

`c11_dead` says that the first `idx` bytes doom the input. The theorems below say that the first
`idx - 1` bytes do not: some continuation of them is accepted.

Two qualifications, both forced by the code:

* **`\u` groups.** `decode_four_hex_digits` looks at the four bytes after `\u` only once all four
  are there, so a fault inside the group (`InvalidEscape`, or the surrogate rule
  `LoneLeadingSurrogateInHexEscape`) is reported at the fourth byte; what is viable then is the
  prefix that ends right after `\u` (`k = 4`).
* **side conditions of `Value`** (`SideOK`, vacuous for skipped content). A state can be doomed by
  a side condition without any grammar error having been reported yet: a string holding bytes that
  can never pass the UTF-8 check of byte sources, or a number committed to a non-negative exponent
  (`…e+`) whose mantissa alone is already out of f64 range. Such a state still raises *grammar*
  errors (`"\xff` + control character; `1` `0`×309 `e+x`), one or more bytes after the point of no
  return. `SideOK` excludes exactly these states; nothing else is assumed — not depth (a value
  position is completed by a scalar), not pending surrogates (completed by `\udc00`), and
  `RecursionLimitExceeded`, `UnexpectedEndOfHexEscape`, `InvalidUnicodeCodePoint` are covered. -/

open SJ.Proofs.Earliest SJ.Proofs.Complete in
/-- **C11 (earliest), machine-state form.** `bs = p ++ b :: rest`, the machine consumes `p` and
    fails on `b`: then `p` is viable (or, in a `\u` group, `p` minus the three digits read). -/
theorem c11_earliest_step (env : Env) (bs : Bytes) (c : Code) (idx : Nat)
    (h : parseTop env bs = .err c idx) (hnf : ∀ s, finish env s ≠ .error c)
    (hexp : ∀ s, feed env init 0 (bs.take (idx - 1)) = .ok (s, idx - 1) → ExpOK env s)
    (hside : ∀ s, feed env init 0 (bs.take (idx - 1)) = .ok (s, idx - 1) → SideOK env s) :
    ∃ k ys v, (k = 1 ∨ (k = 4 ∧ (c = .InvalidEscape ∨ c = .LoneLeadingSurrogateInHexEscape) ∧
        ∃ x, bs.take (idx - 4) = x ++ [0x5c, 0x75])) ∧
      parseTop env (bs.take (idx - k) ++ ys) = .ok v := by
  obtain ⟨p, b, rest, s1, rfl, hf, hst, rfl⟩ := parse_err_step env bs c idx h hnf
  have hp : (p ++ b :: rest).take (p.length + 1 - 1) = p := by simp
  have hfeed : feed env init 0 ((p ++ b :: rest).take (p.length + 1 - 1)) = .ok (s1, p.length + 1 - 1) := by
    rw [hp, hf.to_feed 0]; simp
  rcases earliest_core env p b s1 c .incl hf hst (hexp s1 hfeed) (hside s1 hfeed) with
    ⟨ys, v, hv⟩ | ⟨hcode, hlen, ⟨x, hx⟩, ys, v, hv⟩
  · exact ⟨1, ys, v, Or.inl rfl, by rw [hp]; exact hv⟩
  · have : (p ++ b :: rest).take (p.length + 1 - 4) = p.take (p.length - 3) := by
      have : p.length + 1 - 4 = p.length - 3 := by omega
      rw [this, List.take_append_of_le_length (by omega)]
    exact ⟨4, ys, v, Or.inr ⟨rfl, hcode, x, by rw [this]; exact hx⟩, by rw [this]; exact hv⟩

open SJ.Proofs.Earliest in
/-- **C11 (earliest).** If parsing fails with an error that is not Eof-classified and not the
    number-range rejection, reported at byte count `idx`, and the state before the offending byte
    is not already doomed by a side condition (`SideOK`), then the first `idx - 1` bytes can be
    continued to an accepted input — so together with `c11_dead`, byte `idx` is the first byte
    after which no continuation could be valid. Inside a `\u` group the fault is reported at the
    group's fourth byte (`k = 4`: the prefix ending right after `\u` is viable). -/
theorem c11_earliest (env : Env) (bs : Bytes) (c : Code) (idx : Nat)
    (h : parseTop env bs = .err c idx) (hc : classify c ≠ .eof) (hn : c ≠ .NumberOutOfRange)
    (hside : ∀ s, feed env init 0 (bs.take (idx - 1)) = .ok (s, idx - 1) → SideOK env s) :
    ∃ k ys v, (k = 1 ∨ (k = 4 ∧ (c = .InvalidEscape ∨ c = .LoneLeadingSurrogateInHexEscape) ∧
        ∃ x, bs.take (idx - 4) = x ++ [0x5c, 0x75])) ∧
      parseTop env (bs.take (idx - k) ++ ys) = .ok v := by
  have hnf : ∀ s, finish env s ≠ .error c := by
    intro s hfin
    cases ht : env.tgt with
    | value =>
      rcases finish_eof_clean_value env ht s c hfin with h1 | h1
      · exact hc h1
      · exact hn h1
    | ignored => exact hc (finish_eof_clean_ignored env ht s c hfin)
  obtain ⟨p, b, rest, s1, rfl, hf, hst, rfl⟩ := parse_err_step env bs c idx h hnf
  refine c11_earliest_step env _ c _ h hnf (fun s hs => ?_) hside
  have hp : (p ++ b :: rest).take (p.length + 1 - 1) = p := by simp
  rw [hp, hf.to_feed 0] at hs
  simp only [Except.ok.injEq, Prod.mk.injEq] at hs
  rw [← hs.1]
  exact expOK_of_step_err env s1 b c .incl hst hn

open SJ.Proofs.Earliest in
/-- **C11 (earliest), skipped content** (`IgnoredAny`, unknown fields, the `RawValue` scanner): no
    side condition at all — the bytes before the reported one always have an accepted continuation. -/
theorem c11_earliest_ignored (env : Env) (henv : env.tgt = .ignored) (bs : Bytes) (c : Code) (idx : Nat)
    (h : parseTop env bs = .err c idx) (hc : classify c ≠ .eof) :
    ∃ k ys v, (k = 1 ∨ (k = 4 ∧ c = .InvalidEscape ∧ ∃ x, bs.take (idx - 4) = x ++ [0x5c, 0x75])) ∧
      parseTop env (bs.take (idx - k) ++ ys) = .ok v := by
  have hnf : ∀ s, finish env s ≠ .error c :=
    fun s hfin => hc (finish_eof_clean_ignored env henv s c hfin)
  obtain ⟨k, ys, v, hk, hv⟩ := c11_earliest_step env bs c idx h hnf
    (fun s _ => expOK_ignored env henv s) (fun s _ => sideOK_ignored env henv s)
  refine ⟨k, ys, v, ?_, hv⟩
  rcases hk with rfl | ⟨rfl, hcode | hcode, hx⟩
  · exact Or.inl rfl
  · exact Or.inr ⟨rfl, hcode, hx⟩
  · -- the surrogate rule is not applied to skipped content
    exfalso
    obtain ⟨p, b, rest, s1, rfl, hf, hst, rfl⟩ := parse_err_step env bs c idx h hnf
    subst hcode
    exact lone_not_ignored env henv s1 b _ hst

/-- **C11 (earliest), `Value` from a `&str` under `arbitrary_precision`**: both side conditions are
    vacuous (no UTF-8 check on `&str` input, no number conversion). -/
theorem c11_earliest_str_ap (env : Env) (hsrc : env.src = .str) (hap : env.cfg.ap = true)
    (bs : Bytes) (c : Code) (idx : Nat)
    (h : parseTop env bs = .err c idx) (hc : classify c ≠ .eof) (hn : c ≠ .NumberOutOfRange) :
    ∃ k ys v, (k = 1 ∨ (k = 4 ∧ (c = .InvalidEscape ∨ c = .LoneLeadingSurrogateInHexEscape) ∧
        ∃ x, bs.take (idx - 4) = x ++ [0x5c, 0x75])) ∧
      parseTop env (bs.take (idx - k) ++ ys) = .ok v := by
  refine c11_earliest env bs c idx h hc hn (fun s _ => ?_)
  unfold SJ.Proofs.Earliest.SideOK
  split
  · intro _ h2; rw [hap] at h2; cases h2
  · intro _ h2; exact absurd hsrc h2
  · trivial

/-- the statement in the form of the property text: a grammar error (none of the side-condition
    codes, and not the `\u`-group code) leaves the bytes before the offending one viable -/
theorem c11_earliest_grammar (env : Env) (bs : Bytes) (c : Code) (idx : Nat)
    (h : parseTop env bs = .err c idx) (hc : classify c ≠ .eof) (hn : c ≠ .NumberOutOfRange)
    (h1 : c ≠ .InvalidEscape) (h2 : c ≠ .LoneLeadingSurrogateInHexEscape)
    (hside : ∀ s, feed env init 0 (bs.take (idx - 1)) = .ok (s, idx - 1) → SJ.Proofs.Earliest.SideOK env s) :
    ∃ ys v, parseTop env (bs.take (idx - 1) ++ ys) = .ok v := by
  obtain ⟨k, ys, v, hk, hv⟩ := c11_earliest env bs c idx h hc hn hside
  rcases hk with rfl | ⟨_, hcode | hcode, _⟩
  · exact ⟨ys, v, hv⟩
  · exact absurd hcode h1
  · exact absurd hcode h2

/-! non-vacuity -/

/-- `[1,]`: the error is reported at byte 4 (`]`); the first three bytes continue to `[1,null]` -/
example : ∃ k ys v, (k = 1 ∨ (k = 4 ∧ (Code.TrailingComma = .InvalidEscape ∨
      Code.TrailingComma = .LoneLeadingSurrogateInHexEscape) ∧
      ∃ x, ([0x5b, 0x31, 0x2c, 0x5d] : Bytes).take (4 - 4) = x ++ [0x5c, 0x75])) ∧
    parseTop envS (([0x5b, 0x31, 0x2c, 0x5d] : Bytes).take (4 - k) ++ ys) = .ok v :=
  c11_earliest envS [0x5b, 0x31, 0x2c, 0x5d] .TrailingComma 4 rfl (by decide) (by decide)
    (fun s hs => by cases hs; trivial)
example : parseTop envS ([0x5b, 0x31, 0x2c] ++ [0x6e, 0x75, 0x6c, 0x6c, 0x5d]) = .ok (.arr [.num (.pos 1), .null]) := rfl

/-- `"\u12G4"`: the bad digit `G` (byte 6) is reported at the group's fourth byte (7); the prefix
    `"\u` (= 7 − 4 bytes) continues to `"\u0000"` -/
example : parseTop envS [0x22, 0x5c, 0x75, 0x31, 0x32, 0x47, 0x34, 0x22] = .err .InvalidEscape 7 := rfl
example : ∃ k ys v, (k = 1 ∨ (k = 4 ∧ (Code.InvalidEscape = .InvalidEscape ∨
      Code.InvalidEscape = .LoneLeadingSurrogateInHexEscape) ∧
      ∃ x, ([0x22, 0x5c, 0x75, 0x31, 0x32, 0x47, 0x34, 0x22] : Bytes).take (7 - 4) = x ++ [0x5c, 0x75])) ∧
    parseTop envS (([0x22, 0x5c, 0x75, 0x31, 0x32, 0x47, 0x34, 0x22] : Bytes).take (7 - k) ++ ys) = .ok v :=
  c11_earliest envS _ .InvalidEscape 7 rfl (by decide) (by decide)
    (fun s hs => by cases hs; intro _ h; exact absurd rfl h)
example : parseTop envS ([0x22, 0x5c, 0x75] ++ [0x30, 0x30, 0x30, 0x30, 0x22]) = .ok (.str [0]) := rfl

/-- skipped content, `{"a":1,}`: reported at byte 8 (`}`), `{"a":1,` continues with `"":null}` -/
def envI : Env := { cfg := {}, src := .slice, tgt := .ignored }
example : parseTop envI [0x7b, 0x22, 0x61, 0x22, 0x3a, 0x31, 0x2c, 0x7d] = .err .KeyMustBeAString 8 := rfl
example : ∃ k ys v, (k = 1 ∨ (k = 4 ∧ Code.KeyMustBeAString = .InvalidEscape ∧
      ∃ x, ([0x7b, 0x22, 0x61, 0x22, 0x3a, 0x31, 0x2c, 0x7d] : Bytes).take (8 - 4) = x ++ [0x5c, 0x75])) ∧
    parseTop envI (([0x7b, 0x22, 0x61, 0x22, 0x3a, 0x31, 0x2c, 0x7d] : Bytes).take (8 - k) ++ ys) = .ok v :=
  c11_earliest_ignored envI rfl _ .KeyMustBeAString 8 rfl (by decide)
example : parseTop envI ([0x7b, 0x22, 0x61, 0x22, 0x3a, 0x31, 0x2c] ++
    [0x22, 0x22, 0x3a, 0x6e, 0x75, 0x6c, 0x6c, 0x7d]) = .ok .null := rfl

/-! `SideOK` cannot be dropped — two inputs whose grammar error comes *after* the point of no return
(reachable, no error yet, no accepted completion):

* `Value` from a slice, `"\xff` + U+0001: `ControlCharacterWhileParsingString` at byte 3, although
  no string starting with `"\xff` can pass the UTF-8 check (`"\xff"` is `InvalidUnicodeCodePoint`);
* `1`, 309 zeros, `e+x`: `InvalidNumber` at byte 313, although after `e+` only digits can follow and
  already `…e+0` is `NumberOutOfRange` (`…e-9` is fine: byte 312, the `+`, is the point of no return). -/
def envSl : Env := { cfg := {}, src := .slice, tgt := .value }
example : parseTop envSl [0x22, 0xff, 0x01] = .err .ControlCharacterWhileParsingString 3 := rfl
example : parseTop envSl [0x22, 0xff, 0x22] = .err .InvalidUnicodeCodePoint 3 := rfl

/-- the first of them, proved: the error of `"\xff` U+0001 is reported at byte 3, yet already the
    first two bytes have no accepted continuation (so the conclusion of `c11_earliest` fails, and the
    hypothesis `SideOK` with it: the state after `"\xff` is not `Utf8Viable`) -/
theorem c11_sideOK_needed :
    parseTop envSl [0x22, 0xff, 0x01] = .err .ControlCharacterWhileParsingString 3 ∧
    ∀ ys v, parseTop envSl (([0x22, 0xff, 0x01] : Bytes).take (3 - 1) ++ ys) ≠ .ok v :=
  ⟨rfl, SJ.Proofs.Earliest.dead_prefix envSl rfl (by decide) [0x22, 0xff]
    ⟨[0xff], .none, false, false⟩ [] rfl SJ.Proofs.Earliest.utf8Dead_ff⟩
example : (parseTop envS (0x31 :: List.replicate 309 0x30 ++ [0x65, 0x2b, 0x78])).isErr .InvalidNumber 313 = true := by
  decide +kernel
example : (parseTop envS (0x31 :: List.replicate 309 0x30 ++ [0x65, 0x2b, 0x30])).isErr .NumberOutOfRange 313 = true := by
  decide +kernel

/-! ## line and column as the crate computes them (`Model/LineCol.lean`)

The theorems above speak about `lineCol bs idx`, the specification of what an index means as (line, column). The
crate has no such function; it has `LineColIterator` (three counters updated per byte, read off by
`IoRead::position`) and `SliceRead::position_of_index` (`memrchr` + `memchr_iter().count()`). Both are modelled in
`SJ.Model.LineCol` and proved equal to `lineCol` here, so that every "reported at index `idx`" of the parser models
is a statement about the `Position` the crate puts into `Error::syntax(code, line, column)`.

Conventions (the same for `lineCol`, the iterator and `position_of_index`): positions describe the state AFTER `k`
bytes; `(1, 0)` before any byte; the `n`-th byte of a line is column `n`; the column just after a newline is 0, so an
index that counts a newline as its last byte is reported on the next line, column 0; `\r` counts as a column. -/

open SJ.Model.LineCol in
/-- **C11 (`LineColIterator`).** After the wrapped iterator has handed out the first `k` bytes of `bs`, the counters
    satisfy `(line(), col()) = lineCol bs k` and `byte_offset() = k` (with `start_of_line` = `k` minus the column). -/
theorem c11_iter_linecol (bs : Bytes) (k : Nat) (hk : k ≤ bs.length) :
    ((LCIter.new.feed (bs.take k)).line, (LCIter.new.feed (bs.take k)).col) = lineCol bs k ∧
    (LCIter.new.feed (bs.take k)).byteOffset = k ∧
    (LCIter.new.feed (bs.take k)).startOfLine = k - (lineCol bs k).2 :=
  ⟨(SJ.Proofs.LineCol.feed_lineCol bs k hk).1, (SJ.Proofs.LineCol.feed_lineCol bs k hk).2,
   SJ.Proofs.LineCol.feed_startOfLine bs k hk⟩

open SJ.Model.LineCol in
/-- **C11 (`IoRead`).** After ANY sequence of `next()` / `peek()` / `discard()` calls on a reader over `bs`:
    `byte_offset()` — the number of bytes consumed — is within the input, `peek_position()` is `position()`, and

    * with an empty peek slot `position() = lineCol bs byte_offset()`;
    * with a byte `b` in the peek slot — it is `bs[byte_offset()]` — the iterator has already counted it:
      `position() = lineCol bs (byte_offset() + 1)`, i.e. one column further, or the next line's column 0 when `b` is a
      newline (`c11_linecol_succ`). This is why `de.rs`'s `error()` (= `position()`) after a mere `peek()` points one
      byte further for a reader than for a slice, and `peek_error()` does not. -/
theorem c11_reader_linecol (bs : Bytes) (ops : List Op) :
    let r := (IoPos.new bs).run ops
    r.byteOffset ≤ bs.length ∧ r.peekPosition = r.position ∧
    ((r.ch = none ∧ r.position = lineCol bs r.byteOffset) ∨
     (∃ b, r.ch = some b ∧ bs[r.byteOffset]? = some b ∧ r.position = lineCol bs (r.byteOffset + 1))) := by
  intro r
  obtain ⟨p, hi⟩ := SJ.Proofs.LineCol.inv_run bs ops
  have hbo := hi.byteOffset
  have hle := hi.le
  refine ⟨?_, rfl, ?_⟩
  · show r.byteOffset ≤ _
    rw [hbo]; split <;> omega
  · rcases hi.ch with h0 | ⟨k, hk, hch⟩
    · left
      refine ⟨h0, ?_⟩
      show r.position = lineCol bs r.byteOffset
      rw [hbo, h0, hi.position]; rfl
    · right
      have hlt : k < bs.length := by omega
      have hsome : r.ch = some bs[k] := by rw [hch, List.getElem?_eq_getElem hlt]
      have hb : r.byteOffset = k := by
        show r.byteOffset = k
        rw [hbo, hsome]; simp; omega
      refine ⟨bs[k], hsome, ?_, ?_⟩
      · show bs[r.byteOffset]? = _
        rw [hb, List.getElem?_eq_getElem hlt]
      · show r.position = lineCol bs (r.byteOffset + 1)
        rw [hb, hi.position, hk]

/-- **C11 (one more byte).** The position after `k + 1` bytes from the position after `k`: byte `k` a newline → next
    line, column 0; any other byte (`\r`, a UTF-8 continuation byte, …) → same line, one more column. Columns count BYTES. -/
theorem c11_linecol_succ (bs : Bytes) (k : Nat) (h : k < bs.length) :
    lineCol bs (k + 1) =
      if bs[k] = 0x0a then ((lineCol bs k).1 + 1, 0) else ((lineCol bs k).1, (lineCol bs k).2 + 1) := by
  by_cases hb : bs[k] = 0x0a
  · rw [if_pos hb]; exact SJ.Proofs.LineCol.lineCol_succ_newline bs k h hb
  · rw [if_neg hb]; exact SJ.Proofs.LineCol.lineCol_succ_other bs k h hb

open SJ.Model.LineCol in
/-- **C11 (`SliceRead::position_of_index`).** For every index within the slice the recomputation by `memrchr` /
    `memchr_iter().count()` (naive scans with memchr's documented contract, `c11_memchr_contract`) is `lineCol`, and the
    `start_of_line` it finds is the one the iterator maintains; beyond the slice `&self.slice[..i]` panics. -/
theorem c11_slice_linecol (bs : Bytes) (i : Nat) :
    (i ≤ bs.length → sliceLineCol bs i = lineCol bs i ∧ positionOfIndex bs i = some (lineCol bs i) ∧
      SJ.Proofs.LineCol.startOf (bs.take i) = (LCIter.new.feed (bs.take i)).startOfLine) ∧
    (bs.length < i → positionOfIndex bs i = none) :=
  ⟨fun h => ⟨SJ.Proofs.LineCol.sliceLineCol_eq bs i h, SJ.Proofs.LineCol.positionOfIndex_eq bs i h,
    SJ.Proofs.LineCol.startOf_eq_iter bs i h⟩, SJ.Proofs.LineCol.positionOfIndex_panics bs i⟩

open SJ.Model.LineCol in
/-- **C11 (`SliceRead::position` / `peek_position`).** With `index ≤ len` (an invariant of `SliceRead`) neither call
    panics; `position()` is `lineCol` at `index`, `peek_position()` at `min(len, index + 1)`. The cap is needed exactly
    when `index = len` — after `next()` returned the last byte, or at end of input, where every `peek_error(Eof…)` is
    raised: uncapped, `position_of_index(len + 1)` would panic. -/
theorem c11_slice_positions (bs : Bytes) (index : Nat) (h : index ≤ bs.length) :
    SlicePos.position ⟨bs, index⟩ = some (lineCol bs index) ∧
    SlicePos.peekPosition ⟨bs, index⟩ = some (lineCol bs (min bs.length (index + 1))) ∧
    (index = bs.length → SlicePos.peekPosition ⟨bs, index⟩ = SlicePos.position ⟨bs, index⟩ ∧
      positionOfIndex bs (index + 1) = none) := by
  refine ⟨SJ.Proofs.LineCol.positionOfIndex_eq bs index h,
    SJ.Proofs.LineCol.positionOfIndex_eq bs _ (Nat.min_le_left _ _), fun he => ?_⟩
  subst he
  refine ⟨?_, SJ.Proofs.LineCol.positionOfIndex_panics bs _ (Nat.lt_succ_self _)⟩
  simp [SlicePos.peekPosition, SlicePos.position]

open SJ.Model.LineCol in
/-- **The assumption about `memchr`, stated of the naive scans that stand in for it**: `memrchr(n, hay)` is the last
    index holding `n` (none iff `n` does not occur), `memchr_iter(n, hay).count()` the number of occurrences. -/
theorem c11_memchr_contract (n : UInt8) (hay : Bytes) :
    (∀ p, memrchr n hay = some p ↔ (hay[p]? = some n ∧ ∀ j, p < j → hay[j]? ≠ some n)) ∧
    (memrchr n hay = none ↔ ∀ x ∈ hay, x ≠ n) ∧
    memchrCount n hay = (hay.filter (· == n)).length :=
  ⟨SJ.Proofs.LineCol.memrchr_some_iff n hay, SJ.Proofs.LineCol.memrchr_none_iff n hay,
   SJ.Proofs.LineCol.memchrCount_eq_filter n hay⟩

/-! non-vacuity: `[\n1\r\n,é\nx` (bytes 5b 0a 31 0d 0a 2c c3 a9 0a 78) — a reader that has peeked the `x`, a reader that has
    consumed the third newline, a slice at the same indices; `\r` and both bytes of `é` are columns -/
section
open SJ.Model.LineCol
def lcDoc : Bytes := [0x5b, 0x0a, 0x31, 0x0d, 0x0a, 0x2c, 0xc3, 0xa9, 0x0a, 0x78]
example : lineCol lcDoc 8 = (3, 3) ∧ lineCol lcDoc 9 = (4, 0) ∧ lineCol lcDoc 10 = (4, 1) := ⟨rfl, rfl, rfl⟩
example : LCIter.new.feed (lcDoc.take 9) = { line := 4, col := 0, startOfLine := 9 } := by decide
example : LCIter.new.feed (lcDoc.take 8) = { line := 3, col := 3, startOfLine := 5 } := by decide
-- nine `next()`s, then `peek()`: `x` is in the peek slot, position 4:1 counts it, byte_offset 9 does not
example : ((IoPos.new lcDoc).run (List.replicate 9 .next ++ [.peek])).position = (4, 1) ∧
    ((IoPos.new lcDoc).run (List.replicate 9 .next ++ [.peek])).byteOffset = 9 ∧
    ((IoPos.new lcDoc).run (List.replicate 9 .next ++ [.peek])).ch = some 0x78 := by decide
-- … a newline in the peek slot: the reader is already on line 4 column 0, the slice's `position()` still says 3:3
example : ((IoPos.new lcDoc).run (List.replicate 8 .next ++ [.peek])).position = (4, 0) ∧
    SlicePos.position ⟨lcDoc, 8⟩ = some (3, 3) ∧ SlicePos.peekPosition ⟨lcDoc, 8⟩ = some (4, 0) := by decide
example : positionOfIndex lcDoc 10 = some (4, 1) ∧ positionOfIndex lcDoc 11 = none ∧
    SlicePos.peekPosition ⟨lcDoc, 10⟩ = some (4, 1) := by decide
example : memrchr 0x0a (lcDoc.take 8) = some 4 ∧ memchrCount 0x0a (lcDoc.take 5) = 2 := by decide
end


/-! ## Eof-classified errors: the input is a PROPER PREFIX of an accepted input (converse of `c11_eof_at_end`)

Without this a model that answered Eof on a dead input would satisfy every theorem above. Two qualifications, the
same as for `c11_earliest`:

* **`\u` groups.** An input that ends inside the four bytes after `\u` is `EofWhileParsingString` whatever those bytes
  are (`decode_four_hex_digits` fails with Eof when fewer than four bytes are left — the statement of C12 calls this
  truncation: "a \u escape cut off by the end of input"); what is viable is the prefix ending right after `\u`
  (`k ≤ 3` bytes shorter).
* **side conditions of `Value`** (`SideOK`, for the state at the end of the input): `"\xff` from a byte source is
  `EofWhileParsingString` although no continuation passes the UTF-8 check (`c11_eof_sideOK_needed`), and `1`, 309
  zeros, `e+` is `EofWhileParsingValue` although every completion is out of range. At grammar level
  (`c11_eof_viable_grammar`) nothing is assumed. -/

open SJ.Proofs.Earliest SJ.Proofs.EofViable SJ.Proofs.Complete in
/-- **C11 (Eof ⇒ viable).** If parsing (any target, source, configuration) fails with an Eof-classified error and the
    state at the end of the input is not doomed by a side condition, then the input — minus the `k ≤ 3` unchecked
    bytes of a `\u` group it ends in — has a NON-EMPTY continuation that is accepted. -/
theorem c11_eof_viable (env : Env) (bs : Bytes) (c : Code) (idx : Nat)
    (h : parseTop env bs = .err c idx) (hc : classify c = .eof)
    (hside : ∀ s, feed env init 0 bs = .ok (s, bs.length) → SideOK env s) :
    ∃ k ys v, (k = 0 ∨ (0 < k ∧ k ≤ 3 ∧ c = .EofWhileParsingString ∧
        ∃ x, bs.take (bs.length - k) = x ++ [0x5c, 0x75])) ∧ k ≤ bs.length ∧ ys ≠ [] ∧
      parseTop env (bs.take (bs.length - k) ++ ys) = .ok v := by
  obtain ⟨s, hf, hfin⟩ := parse_eof_split env bs c idx h hc
  have hfeed : feed env init 0 bs = .ok (s, bs.length) := by rw [hf.to_feed 0]; simp
  exact eof_viable_core env bs s c hf hfin (hside s hfeed) (expOK_of_finish_eof env s c hfin hc)

open SJ.Proofs.Earliest in
/-- **C11 (Eof ⇒ viable), skipped content**: no side condition. -/
theorem c11_eof_viable_ignored (env : Env) (henv : env.tgt = .ignored) (bs : Bytes) (c : Code) (idx : Nat)
    (h : parseTop env bs = .err c idx) (hc : classify c = .eof) :
    ∃ k ys v, (k = 0 ∨ (0 < k ∧ k ≤ 3 ∧ c = .EofWhileParsingString ∧
        ∃ x, bs.take (bs.length - k) = x ++ [0x5c, 0x75])) ∧ k ≤ bs.length ∧ ys ≠ [] ∧
      parseTop env (bs.take (bs.length - k) ++ ys) = .ok v :=
  c11_eof_viable env bs c idx h hc (fun s _ => sideOK_ignored env henv s)

open SJ.Proofs.EofViable SJ.Proofs.EarliestGrammar in
/-- **C11 (Eof ⇒ proper prefix of a JSON text), every target, unconditionally.** An Eof-classified error means that
    the input (minus the unchecked bytes of a `\u` group it ends in) is a proper prefix of an RFC 8259 JSON text. -/
theorem c11_eof_viable_grammar (env : Env) (bs : Bytes) (c : Code) (idx : Nat)
    (h : parseTop env bs = .err c idx) (hc : classify c = .eof) :
    ∃ k ys t, (k = 0 ∨ (0 < k ∧ k ≤ 3 ∧ ∃ x, bs.take (bs.length - k) = x ++ [0x5c, 0x75])) ∧
      k ≤ bs.length ∧ ys ≠ [] ∧ Spec.Grammar.JsonText (bs.take (bs.length - k) ++ ys) t := by
  obtain ⟨s, hf, hfin⟩ := parse_eof_split env bs c idx h hc
  exact eof_grammar_core env bs s c hf hfin hc

/-- … in particular, when the input does not end inside a `\u` group, the input itself is a proper prefix -/
theorem c11_eof_proper_prefix (env : Env) (bs : Bytes) (c : Code) (idx : Nat)
    (h : parseTop env bs = .err c idx) (hc : classify c = .eof)
    (hnu : ∀ x d, bs = x ++ [0x5c, 0x75] ++ d → d = [] ∨ 3 < d.length) :
    ∃ ys t, ys ≠ [] ∧ Spec.Grammar.JsonText (bs ++ ys) t := by
  obtain ⟨k, ys, t, hk, hle, hne, ht⟩ := c11_eof_viable_grammar env bs c idx h hc
  rcases hk with rfl | ⟨h1, h2, x, hx⟩
  · exact ⟨ys, t, hne, by simpa using ht⟩
  · exfalso
    have hsplit : bs = x ++ [0x5c, 0x75] ++ bs.drop (bs.length - k) := by
      rw [← hx, List.take_append_drop]
    rcases hnu x _ hsplit with h0 | h0
    · have := congrArg List.length h0; simp at this; omega
    · simp at h0; omega

open SJ.Proofs.Earliest in
/-- … and at machine level: when the input does not end inside a `\u` group (and `SideOK`), the input itself has a
    non-empty accepted continuation — the statement in its plain form -/
theorem c11_eof_viable_plain (env : Env) (bs : Bytes) (c : Code) (idx : Nat)
    (h : parseTop env bs = .err c idx) (hc : classify c = .eof)
    (hside : ∀ s, feed env init 0 bs = .ok (s, bs.length) → SideOK env s)
    (hnu : ∀ x d, bs = x ++ [0x5c, 0x75] ++ d → d = [] ∨ 3 < d.length) :
    ∃ ys v, ys ≠ [] ∧ parseTop env (bs ++ ys) = .ok v := by
  obtain ⟨k, ys, v, hk, hle, hne, hv⟩ := c11_eof_viable env bs c idx h hc hside
  rcases hk with rfl | ⟨h1, h2, _, x, hx⟩
  · exact ⟨ys, v, hne, by simpa using hv⟩
  · exfalso
    have hsplit : bs = x ++ [0x5c, 0x75] ++ bs.drop (bs.length - k) := by
      rw [← hx, List.take_append_drop]
    rcases hnu x _ hsplit with h0 | h0
    · have := congrArg List.length h0; simp at this; omega
    · simp at h0; omega

/-! non-vacuity: `[1,` is `EofWhileParsingValue` at 3 and continues with `null]`; `"\u12` (cut inside the group) is
    `EofWhileParsingString` at 5, and `"\u` continues with `0000"` -/
example : parseTop envS [0x5b, 0x31, 0x2c] = .err .EofWhileParsingValue 3 := rfl
example : ∃ k ys v, (k = 0 ∨ (0 < k ∧ k ≤ 3 ∧ Code.EofWhileParsingValue = .EofWhileParsingString ∧
      ∃ x, ([0x5b, 0x31, 0x2c] : Bytes).take (3 - k) = x ++ [0x5c, 0x75])) ∧ k ≤ 3 ∧ ys ≠ [] ∧
    parseTop envS (([0x5b, 0x31, 0x2c] : Bytes).take (3 - k) ++ ys) = .ok v :=
  c11_eof_viable envS [0x5b, 0x31, 0x2c] .EofWhileParsingValue 3 rfl rfl (fun s hs => by cases hs; trivial)
example : parseTop envSl [0x22, 0x5c, 0x75, 0x31, 0x32] = .err .EofWhileParsingString 5 := rfl
example : parseTop envSl [0x22, 0x5c, 0x75, 0x47, 0x22] = .err .EofWhileParsingString 5 := rfl
example : ∃ ys t, ys ≠ [] ∧ Spec.Grammar.JsonText (([0x5b, 0x31, 0x2c] : Bytes) ++ ys) t :=
  c11_eof_proper_prefix envSl [0x5b, 0x31, 0x2c] .EofWhileParsingValue 3 rfl rfl (fun x d hd => by
    have h3 := congrArg List.length hd
    simp at h3
    left; apply List.eq_nil_of_length_eq_zero
    rcases x with _ | ⟨x0, _ | ⟨x1, _ | ⟨x2, x3⟩⟩⟩ <;> simp at hd h3 <;> omega)

/-- `SideOK` cannot be dropped from `c11_eof_viable`: `"\xff` from a slice is `EofWhileParsingString` at byte 2, yet no
    continuation is accepted (the grammar-level statement does hold: `"\xff"` is a JSON text) -/
theorem c11_eof_sideOK_needed :
    parseTop envSl [0x22, 0xff] = .err .EofWhileParsingString 2 ∧
    ∀ ys v, parseTop envSl (([0x22, 0xff] : Bytes) ++ ys) ≠ .ok v :=
  ⟨rfl, SJ.Proofs.Earliest.dead_prefix envSl rfl (by decide) [0x22, 0xff]
    ⟨[0xff], .none, false, false⟩ [] rfl SJ.Proofs.Earliest.utf8Dead_ff⟩

/-! ## the grammar reading of "first byte after which no continuation could be valid JSON", hypothesis-free

`c11_dead` / `c11_earliest` speak about *accepted* continuations, which for `Value` involve the side conditions (hence
`SideOK`). Read at the level of the RFC 8259 grammar the statement needs no hypothesis: whenever the machine — any
target — reports a GRAMMAR error code (`sideCode c = false`: not `NumberOutOfRange`, `RecursionLimitExceeded`,
`InvalidUnicodeCodePoint`, `LoneLeadingSurrogateInHexEscape`, `UnexpectedEndOfHexEscape`) at byte count `idx`,

* no continuation of the first `idx` bytes is a JSON text (`c11_dead_grammar`), and
* the first `idx - 1` bytes do have a continuation that is a JSON text (`c11_earliest_value_grammar`; `k = 4` for a
  fault inside a `\u` group, reported at the group's fourth byte).

Both follow from a simulation: the scanner of skipped content, which accepts exactly the grammar
(`c19_skip_language`), consumes whatever any run consumes and fails where a run fails with a grammar code
(`Proofs/EarliestSim.lean`). -/

abbrev sideCode := SJ.Proofs.EarliestSim.sideCode

open SJ.Proofs.Earliest SJ.Proofs.EarliestGrammar in
/-- **C11 (earliest, grammar level, no state predicate).** -/
theorem c11_earliest_value_grammar (env : Env) (bs : Bytes) (c : Code) (idx : Nat)
    (h : parseTop env bs = .err c idx) (hc : classify c ≠ .eof) (hs : sideCode c = false) :
    ∃ k ys t, (k = 1 ∨ (k = 4 ∧ c = .InvalidEscape ∧ ∃ x, bs.take (idx - 4) = x ++ [0x5c, 0x75])) ∧
      Spec.Grammar.JsonText (bs.take (idx - k) ++ ys) t := by
  obtain ⟨p, b, rest, s1, rfl, hf, hst, rfl⟩ := parse_err_step env bs c idx h (finish_not_grammar env c hc hs)
  rcases earliest_grammar_core env p b s1 c .incl hf hst with ⟨ys, t, ht⟩ | ⟨hcode, hlen, ⟨x, hx⟩, ys, t, ht⟩
  · exact ⟨1, ys, t, Or.inl rfl, by simpa using ht⟩
  · have htake : (p ++ b :: rest).take (p.length + 1 - 4) = p.take (p.length - 3) := by
      have : p.length + 1 - 4 = p.length - 3 := by omega
      rw [this, List.take_append_of_le_length (by omega)]
    have hcode' : c = .InvalidEscape := by
      rcases hcode with hcode | hcode
      · exact hcode
      · subst hcode; cases hs
    exact ⟨4, ys, t, Or.inr ⟨rfl, hcode', x, by rw [htake]; exact hx⟩, by rw [htake]; exact ht⟩

open SJ.Proofs.Earliest SJ.Proofs.EarliestGrammar in
/-- **C11 (dead prefix, grammar level).** A grammar error reported at byte count `idx`: no continuation of the first
    `idx` bytes is a JSON text. -/
theorem c11_dead_grammar (env : Env) (bs : Bytes) (c : Code) (idx : Nat)
    (h : parseTop env bs = .err c idx) (hc : classify c ≠ .eof) (hs : sideCode c = false) :
    ∀ ys t, ¬ Spec.Grammar.JsonText (bs.take idx ++ ys) t := by
  obtain ⟨p, b, rest, s1, rfl, hf, hst, rfl⟩ := parse_err_step env bs c idx h (finish_not_grammar env c hc hs)
  intro ys t ht
  have : (p ++ b :: rest).take (p.length + 1) = p ++ [b] := by
    have e : p ++ b :: rest = (p ++ [b]) ++ rest := by simp
    rw [e]; exact List.take_left' (by simp)
  rw [this] at ht
  exact dead_grammar_core env p b s1 c .incl hf hst hs ys t (by simpa using ht)

/-! non-vacuity: the `SideOK` counterexample of `c11_sideOK_needed`, `"\xff` + U+0001 from a slice, at grammar level:
    `ControlCharacterWhileParsingString` is a grammar code, reported at 3; `"\xff` continues with `"` to a JSON text
    (which `Value` rejects for its UTF-8, not for its grammar) -/
example : ∃ k ys t, (k = 1 ∨ (k = 4 ∧ Code.ControlCharacterWhileParsingString = .InvalidEscape ∧
      ∃ x, ([0x22, 0xff, 0x01] : Bytes).take (3 - 4) = x ++ [0x5c, 0x75])) ∧
    Spec.Grammar.JsonText (([0x22, 0xff, 0x01] : Bytes).take (3 - k) ++ ys) t :=
  c11_earliest_value_grammar envSl [0x22, 0xff, 0x01] _ 3 rfl (by decide) rfl
example : ∀ ys t, ¬ Spec.Grammar.JsonText (([0x22, 0xff, 0x01] : Bytes).take 3 ++ ys) t :=
  c11_dead_grammar envSl [0x22, 0xff, 0x01] _ 3 rfl (by decide) rfl
example : Spec.Grammar.JsonText ([0x22, 0xff] ++ [0x22]) (.str [.raw 0xff]) :=
  ⟨[], _, [], rfl, by decide, by decide, Spec.Grammar.Derives.str [.raw 0xff] rfl⟩

/-! ## faults inside a string literal: between the first offending byte and the end of that literal

The codes raised inside a string literal (`strCode`) are raised only from string states. For them:

* lower bound — the first `idx` bytes are already dead (`c11_dead`), so the first offending byte is at or before `idx`;
  under `SideOK` it is exactly byte `idx`, or one of the four bytes of the `\u` group ending there (`c11_earliest`);
* upper bound — `idx` is not past the end of the literal as an independent lenient scan finds it
  (`Spec.Pos.literalEnd`: first quote not preceded by an escaping backslash; the input length if there is none).
  `InvalidUnicodeCodePoint` is reported exactly at the closing quote. One exception, forced by the code: the four bytes
  after `\u` are taken whatever they are, so when one of them is a quote (or a backslash before a quote) the
  `InvalidEscape` is reported at the group's fourth byte although the lenient scan has closed the literal inside the
  group — then the `\u` itself lies within the literal (second alternative; the oracle's `hexEnd`).

`start` is the index of the literal's opening quote: the byte there is `"`, the machine is outside any string after the
`start` bytes before it and inside one before the offending byte. For every source (`errIdx` counts the offending byte
for slices and readers alike). -/

abbrev strCode := SJ.Proofs.EarliestStrBound.strCode

open SJ.Proofs.Earliest SJ.Proofs.EarliestStrBound SJ.Proofs.Complete in
/-- **C11 (faults inside a string literal).** -/
theorem c11_string_fault_bounds (env : Env) (bs : Bytes) (c : Code) (idx : Nat)
    (h : parseTop env bs = .err c idx) (hc : strCode c = true) :
    (∀ ys, parseTop env (bs.take idx ++ ys) = .err c idx) ∧
    ∃ start, start + 2 ≤ idx ∧ bs[start]? = some 0x22 ∧
      (∃ s0, feed env init 0 (bs.take start) = .ok (s0, start) ∧ ∀ st0, s0.mode ≠ .str st0) ∧
      (∃ s1 st, feed env init 0 (bs.take (idx - 1)) = .ok (s1, idx - 1) ∧ s1.mode = .str st) ∧
      (idx ≤ Spec.Pos.literalEnd bs start ∨
       (c = .InvalidEscape ∧ (∃ x, bs.take (idx - 4) = x ++ [0x5c, 0x75]) ∧ start + 3 ≤ idx - 4 ∧
         idx - 4 ≤ Spec.Pos.literalEnd bs start)) := by
  have hce : classify c ≠ .eof := by revert hc; cases c <;> decide
  have hcn : c ≠ .NumberOutOfRange := by revert hc; cases c <;> decide
  refine ⟨(c11_dead env bs c idx h hce hcn).2, ?_⟩
  have hnf : ∀ s, finish env s ≠ .error c := by
    intro s hfin
    cases ht : env.tgt with
    | value =>
      rcases finish_eof_clean_value env ht s c hfin with h1 | h1
      · exact hce h1
      · exact hcn h1
    | ignored => exact hce (finish_eof_clean_ignored env ht s c hfin)
  obtain ⟨p, b, rest, s1, rfl, hf, hst, rfl⟩ := parse_err_step env bs c idx h hnf
  obtain ⟨st, hm⟩ := step_code_str env s1 b c .incl hst hc
  obtain ⟨mode, fs⟩ := s1
  simp only at hm; subst hm
  obtain ⟨start, h1, h2, ⟨s0, hf0, hs0⟩, h3⟩ := str_fault_bound env p b rest st fs c .incl hf hst
  have hlen : ((p ++ b :: rest).take start).length = start := by
    rw [List.length_take]; simp; omega
  refine ⟨start, h1, h2, ⟨s0, ?_, hs0⟩, ⟨⟨.str st, fs⟩, st, ?_, rfl⟩, h3⟩
  · rw [hf0.to_feed 0, hlen]; simp
  · have : (p ++ b :: rest).take (p.length + 1 - 1) = p := by simp
    rw [this, hf.to_feed 0]; simp

/-! non-vacuity: `["a\u12"x"]` — the group's third byte is the quote: `InvalidEscape` at byte 9 (the `x`), the
    lenient literal end is 8 (second alternative: `\u` ends at byte 6 ≤ 8); `"\xffab"` from a slice —
    `InvalidUnicodeCodePoint` at the closing quote, byte 5 = `literalEnd`; `"a` + U+0001 + `b"` — the control
    character, byte 3 -/
example : parseTop envSl [0x5b, 0x22, 0x61, 0x5c, 0x75, 0x31, 0x32, 0x22, 0x78, 0x22, 0x5d] = .err .InvalidEscape 9 ∧
    Spec.Pos.literalEnd [0x5b, 0x22, 0x61, 0x5c, 0x75, 0x31, 0x32, 0x22, 0x78, 0x22, 0x5d] 1 = 8 := ⟨rfl, rfl⟩
example : parseTop envSl [0x22, 0xff, 0x61, 0x62, 0x22] = .err .InvalidUnicodeCodePoint 5 ∧
    Spec.Pos.literalEnd [0x22, 0xff, 0x61, 0x62, 0x22] 0 = 5 := ⟨rfl, rfl⟩
example : ∃ start, start + 2 ≤ 3 ∧ ([0x22, 0x61, 0x01, 0x62, 0x22] : Bytes)[start]? = some 0x22 ∧
      (∃ s0, feed envS init 0 (([0x22, 0x61, 0x01, 0x62, 0x22] : Bytes).take start) = .ok (s0, start) ∧
        ∀ st0, s0.mode ≠ .str st0) ∧
      (∃ s1 st, feed envS init 0 (([0x22, 0x61, 0x01, 0x62, 0x22] : Bytes).take (3 - 1)) = .ok (s1, 3 - 1) ∧
        s1.mode = .str st) ∧
      (3 ≤ Spec.Pos.literalEnd [0x22, 0x61, 0x01, 0x62, 0x22] start ∨
       (Code.ControlCharacterWhileParsingString = .InvalidEscape ∧
         (∃ x, ([0x22, 0x61, 0x01, 0x62, 0x22] : Bytes).take (3 - 4) = x ++ [0x5c, 0x75]) ∧ start + 3 ≤ 3 - 4 ∧
         3 - 4 ≤ Spec.Pos.literalEnd [0x22, 0x61, 0x01, 0x62, 0x22] start)) :=
  (c11_string_fault_bounds envS [0x22, 0x61, 0x01, 0x62, 0x22] .ControlCharacterWhileParsingString 3 rfl rfl).2

end SJ.Props.C11
