import SJ.Props.C11
/-!
# C11 — from the machine's error index to the `Position` the crate reports, in one statement per source

`c11_within_input`, `c11_earliest`, … speak about the byte index `idx` of `parseTop env bs = .err c idx`;
`c11_slice_linecol` / `c11_iter_linecol` / `c11_reader_linecol` speak about the two bookkeepings of `read.rs`
(`SliceRead::position_of_index`, `LineColIterator` under `IoRead`) as functions of an index. The machine does not run
`Model.LineCol`; what joins the two is that the machine's index is at most the length of the input, where both
bookkeepings are total and equal to the specification `lineCol`. The corollaries below state that composition once per
source: *if the parser fails with index `idx`, the (line, column) the crate's bookkeeping computes for `idx` is
`lineCol bs idx`, and it describes a place inside the input.*

That the crate calls the bookkeeping with THIS index (`position_of_index(self.index)` resp. the iterator's counters
after `idx` pulled bytes) is the reading of `errIdx` documented in `Model.Machine` and is checked by correspondence
(ops lc3 / lcs), not here.
-/
namespace SJ.Props.C11
open SJ SJ.Gen SJ.Model.Machine SJ.Proofs.Machine SJ.Model.LineCol

theorem fold_col_le (xs : Bytes) (l c : Nat) : (xs.foldl lcStep (l, c)).2 ≤ c + xs.length := by
  induction xs generalizing l c with
  | nil => simp
  | cons b bs ih =>
    rw [List.foldl_cons]
    by_cases hb : (b == 0x0a) = true
    · have : lcStep (l, c) b = (l + 1, 0) := by simp [lcStep, hb]
      rw [this]
      have := ih (l + 1) 0
      simp only [List.length_cons]
      omega
    · have : lcStep (l, c) b = (l, c + 1) := by simp [lcStep, hb]
      rw [this]
      have := ih l (c + 1)
      simp only [List.length_cons]
      omega

/-- the column never exceeds the index -/
theorem lineCol_col_le (bs : Bytes) (idx : Nat) : (lineCol bs idx).2 ≤ idx := by
  have h := fold_col_le (bs.take idx) 1 0
  have hl : (bs.take idx).length ≤ idx := by rw [List.length_take]; omega
  show (List.foldl lcStep (1, 0) (bs.take idx)).2 ≤ idx
  omega

theorem newlines_take_le (bs : Bytes) (idx : Nat) : newlines (bs.take idx) ≤ newlines bs := by
  have h : newlines bs = newlines (bs.take idx) + newlines (bs.drop idx) := by
    unfold newlines
    rw [← List.length_append, ← List.filter_append, List.take_append_drop]
  omega

/-- the line never exceeds one plus the number of newlines of the whole input -/
theorem lineCol_line_le (bs : Bytes) (idx : Nat) : (lineCol bs idx).1 ≤ 1 + newlines bs := by
  rw [c11_line]
  have := newlines_take_le bs idx
  omega

/-- **C11 (slice source, index → line / column).** For every configuration, both untyped targets and every byte string: if
    the parser fails from a slice with index `idx`, then `idx ≤ |bs|`, so `SliceRead::position_of_index(idx)` does not
    panic and returns `lineCol bs idx` (= the naive `memrchr` / `memchr_iter().count()` recomputation `sliceLineCol`):
    line `1 +` the number of newlines among the first `idx` bytes — at most `1 +` the newlines of the whole input —,
    column at most `idx`. -/
theorem c11_slice_error_linecol (cfg : Cfg) (tgt : Tgt) (bs : Bytes) (c : Code) (idx : Nat)
    (h : parseTop { cfg := cfg, src := .slice, tgt := tgt } bs = .err c idx) :
    idx ≤ bs.length ∧
    positionOfIndex bs idx = some (lineCol bs idx) ∧ sliceLineCol bs idx = lineCol bs idx ∧
    (lineCol bs idx).1 = 1 + newlines (bs.take idx) ∧ (lineCol bs idx).1 ≤ 1 + newlines bs ∧ (lineCol bs idx).2 ≤ idx := by
  have hi : idx ≤ bs.length := c11_within_input _ bs c idx h
  have hs := (c11_slice_linecol bs idx).1 hi
  exact ⟨hi, hs.2.1, hs.1, c11_line bs idx, lineCol_line_le bs idx, lineCol_col_le bs idx⟩

/-- **C11 (reader source, index → line / column).** For every configuration, both untyped targets and every byte string: if
    the parser fails from an `io::Read` with index `idx`, then `idx ≤ |bs|`, and the `LineColIterator` that has handed
    out `idx` bytes — whether or not the last of them is still in `IoRead`'s peek slot — shows
    `(line(), col()) = lineCol bs idx` and `byte_offset() = idx`; `readerLineCol` is that pair. Same bounds as for the slice. -/
theorem c11_reader_error_linecol (cfg : Cfg) (tgt : Tgt) (bs : Bytes) (c : Code) (idx : Nat)
    (h : parseTop { cfg := cfg, src := .reader, tgt := tgt } bs = .err c idx) :
    idx ≤ bs.length ∧
    readerLineCol bs idx = lineCol bs idx ∧ (∀ peeked, (IoPos.at bs idx peeked).position = lineCol bs idx) ∧
    ((LCIter.new.feed (bs.take idx)).line, (LCIter.new.feed (bs.take idx)).col) = lineCol bs idx ∧
    (LCIter.new.feed (bs.take idx)).byteOffset = idx ∧
    (lineCol bs idx).1 = 1 + newlines (bs.take idx) ∧ (lineCol bs idx).1 ≤ 1 + newlines bs ∧ (lineCol bs idx).2 ≤ idx := by
  have hi : idx ≤ bs.length := c11_within_input _ bs c idx h
  have hit := c11_iter_linecol bs idx hi
  exact ⟨hi, SJ.Proofs.LineCol.readerLineCol_eq bs idx hi, fun pk => (SJ.Proofs.LineCol.inv_at bs idx pk hi).position,
    hit.1, hit.2.1, c11_line bs idx, lineCol_line_le bs idx, lineCol_col_le bs idx⟩

/-! ## non-vacuity: `[1,⏎]` — index 5 (the `]` included; `TrailingComma` for `Value`, `ExpectedSomeValue` when ignored), line 2 column 1 by both bookkeepings -/

example : parseTop { cfg := {}, src := .slice, tgt := .value } [0x5b, 0x31, 0x2c, 0x0a, 0x5d] = .err .TrailingComma 5 := rfl
example : parseTop { cfg := {}, src := .reader, tgt := .ignored } [0x5b, 0x31, 0x2c, 0x0a, 0x5d] = .err .ExpectedSomeValue 5 := rfl
example : lineCol [0x5b, 0x31, 0x2c, 0x0a, 0x5d] 5 = (2, 1) := by decide
example : positionOfIndex [0x5b, 0x31, 0x2c, 0x0a, 0x5d] 5 = some (2, 1) :=
  (c11_slice_error_linecol {} .value [0x5b, 0x31, 0x2c, 0x0a, 0x5d] .TrailingComma 5 rfl).2.1
example : readerLineCol [0x5b, 0x31, 0x2c, 0x0a, 0x5d] 5 = (2, 1) :=
  (c11_reader_error_linecol {} .ignored [0x5b, 0x31, 0x2c, 0x0a, 0x5d] .ExpectedSomeValue 5 rfl).2.1

end SJ.Props.C11
