import SJ.Props.C20
import SJ.Props.C03
import SJ.Props.C04
import SJ.Props.C01Ap
import SJ.Proofs.TextNorm
/-!
# C20 — text → value → text: "so parse-then-serialise changes nothing but whitespace"

`c20_text_roundtrip` composes parser soundness (C02: the value is the canonical value of the input's syntax tree),
the serializer theorem for `Value` (C03: `to_string(v)` is `render` of the value's image) and the three independent
definitions of `Spec/TextNorm.lean`. Under `arbitrary_precision`:

* in general, `to_string(from_str(bs))` is the compact rendering of the map-normalised value
  (`Spec.Canon.canon`: members in the map's order, a duplicate key collapsed to its last value);
* when no object of the input repeats a key and — in the default `BTreeMap` build — the keys stand in ascending
  order already (no proviso under `preserve_order` beyond distinctness), it is `normText t`: the input's tokens
  in the input's order with no whitespace, EVERY NUMBER LITERAL BYTE FOR BYTE, every string re-spelled the
  serializer's way;
* when moreover the strings are spelled the serializer's way, it is the input with its insignificant whitespace
  removed (`stripWs bs`, a byte-level scan).

Stated for `Model.Machine`; `c20_text_roundtrip_ap` transfers it to the token-aware `Model.MachineAp` for inputs
without a private-token first key (`c01_ap_conservative`; with such a key the crate does not read RFC 8259:
open findings `C01-ap-private-number-token` …).
-/
namespace SJ.Props.C20
open SJ SJ.Gen SJ.Model.Machine SJ.Spec.Grammar SJ.Proofs.CanonM
open SJ.Spec.TextNorm SJ.Spec.Image SJ.Spec.Program SJ.Model.Ser

/-- **C20 (text round trip).** Under `arbitrary_precision`, for every text `bs` the parser accepts into a
    `Value` (`v`), with `t` the syntax tree of `bs`: `to_string(&v)` succeeds and its bytes are
    1. always the compact rendering of `v = canon t` (`Spec.Canon.canon`: objects in the `Map`'s order, duplicate keys
       collapsed to the last value; numbers are the literals, `c20_nested`);
    2. `normText t` — the tokens of the input in the order of the input, no whitespace, every number literal byte
       for byte, strings in the serializer's spelling — when every object of `t` has distinct keys, in ascending
       order unless `preserve_order`;
    3. `stripWs bs` — the input minus its insignificant whitespace, nothing else changed — when in addition the
       input's string literals are spelled as the serializer spells them.
    (`hutf`: a `&str` input is valid UTF-8, which the type guarantees.) -/
theorem c20_text_roundtrip (env : Env) (henv : env.tgt = .value) (hap : env.cfg.ap = true) (ext : Ext) (hext : ExtOK ext)
    (bs : Bytes) (v : JV) (h : parseTop env bs = .ok v)
    (hutf : env.src = .str → Spec.Utf8.validUtf8 bs = true) :
    ∃ t bufs, JsonText bs t ∧ Spec.Canon.canon (specCfg env.cfg) t = some v ∧
      serCompact ext (ofValue v) = .ok bufs ∧
      bufs.flatten = render (imageOfValue ext v) ∧
      (keysInMapOrder env.cfg.po t = true → bufs.flatten = normText t) ∧
      (keysInMapOrder env.cfg.po t = true → spelledCanonically t = true → bufs.flatten = stripWs bs) := by
  obtain ⟨t, ht, hc, _⟩ := SJ.Props.C02.c02_denotes env henv bs v h
  have hwf := SJ.Props.C04.c04_wf_of_parse env henv bs v h hutf
  have hl : valueLitsOK v = true := by
    simp only [SJ.Props.C04.WFValue, Spec.WF.wfValue, Bool.and_eq_true] at hwf
    exact SJ.Proofs.RoundTrip.valueLitsOK_of_shapeOK _ v hwf.1
  obtain ⟨⟨bufs, hser, hb⟩, _⟩ := SJ.Props.C03.c03_value ext hext v hl
  have hn : keysInMapOrder env.cfg.po t = true → bufs.flatten = normText t := by
    intro hk
    rw [hb]
    exact SJ.Proofs.TextNorm.render_canon env.cfg hap ext t v hc hk 0
  refine ⟨t, bufs, ht, ?_, hser, hb, hn, fun hk hs => ?_⟩
  · rw [← SJ.Proofs.MkObj.canonM_eq_canon]; exact hc
  · rw [hn hk, SJ.Proofs.TextNorm.stripWs_jsonText ht hs]

/-- the same for the token-aware parser model of the `arbitrary_precision` build, on inputs none of whose
    objects has a first key decoding to the private Number token -/
theorem c20_text_roundtrip_ap (env : Env) (henv : env.tgt = .value) (hap : env.cfg.ap = true) (ext : Ext) (hext : ExtOK ext)
    (bs : Bytes) (v : JV) (htok : Spec.PrivateToken.hasTokenFirstKey bs = false)
    (h : Model.MachineAp.parseTop env bs = .ok v)
    (hutf : env.src = .str → Spec.Utf8.validUtf8 bs = true) :
    ∃ t bufs, JsonText bs t ∧ Spec.Canon.canon (specCfg env.cfg) t = some v ∧
      serCompact ext (ofValue v) = .ok bufs ∧
      bufs.flatten = render (imageOfValue ext v) ∧
      (keysInMapOrder env.cfg.po t = true → bufs.flatten = normText t) ∧
      (keysInMapOrder env.cfg.po t = true → spelledCanonically t = true → bufs.flatten = stripWs bs) := by
  have hcons := SJ.Props.C01Ap.c01_ap_conservative env bs htok
  unfold SJ.Props.C01Ap.parseAp at hcons
  rw [hcons] at h
  cases hm : parseTop env bs with
  | ok v' =>
    rw [hm] at h
    simp only [Model.MachineAp.ofMachine, Model.MachineAp.Outcome.ok.injEq] at h
    subst h
    exact c20_text_roundtrip env henv hap ext hext bs v' hm hutf
  | err c i => rw [hm] at h; cases h

/-- **C20 (a Number reproduces its literal).** For a number literal `p` (any length, `-0`, exponent spelling,
    trailing zeros) parsed under `arbitrary_precision`: the parsed value is the `Number` whose text is the literal,
    and `as_str()` (`Model.NumberAp.display`), `Display` (`format!("{}", n)`: one `write_str`), `to_string(&n)`,
    `to_string(&Value::Number(n))` in both formatters, and `Value`'s `Display` all give back exactly `p.bytes`. -/
theorem c20_number_display (env : Env) (henv : env.tgt = .value) (hap : env.cfg.ap = true) (ext : Ext) (hext : ExtOK ext)
    (p : NumParts) (hwf : p.WF = true) :
    parseTop env p.bytes = .ok (.num (.lit p.bytes)) ∧
    Model.NumberAp.textOf (.lit p.bytes) = some p.bytes ∧
    Model.NumberAp.display p.bytes = p.bytes ∧
    Model.Display.fmtNumber ext (.lit p.bytes) Model.Display.Sink.unbounded =
      .ok { Model.Display.Sink.unbounded with accepted := [p.bytes] } ∧
    serCompact ext (ofValue (.num (.lit p.bytes))) = .ok [p.bytes] ∧
    (∀ indent, serPretty ext indent (ofValue (.num (.lit p.bytes))) = .ok [p.bytes]) ∧
    Model.Display.toString ext (.num (.lit p.bytes)) = .ok p.bytes ∧
    Model.Display.format ext (.num (.lit p.bytes)) false = some p.bytes := by
  obtain ⟨h1, h2, h3, h4, h5⟩ := SJ.Props.C03.c03_display_number ext hext (.lit p.bytes) (fun b hb => by cases hb)
  exact ⟨c20_verbatim env henv hap p hwf, rfl, rfl, h1, h2, h3, h4, h5⟩

/-! ## non-vacuity -/

/-- ` { "a" : [ 1.50e+007 , -0 ] , "b" : "x\n" } `: keys ascending, strings in the serializer's spelling -/
def exText : Bytes :=
  [0x20, 0x7b, 0x20, 0x22, 0x61, 0x22, 0x20, 0x3a, 0x20, 0x5b, 0x20, 0x31, 0x2e, 0x35, 0x30, 0x65, 0x2b, 0x30, 0x30, 0x37,
   0x20, 0x2c, 0x20, 0x2d, 0x30, 0x20, 0x5d, 0x20, 0x2c, 0x0a, 0x22, 0x62, 0x22, 0x20, 0x3a, 0x09, 0x22, 0x78, 0x5c, 0x6e,
   0x22, 0x20, 0x7d, 0x20]
/-- `{"a":[1.50e+007,-0],"b":"x\n"}` -/
def exTextStripped : Bytes :=
  [0x7b, 0x22, 0x61, 0x22, 0x3a, 0x5b, 0x31, 0x2e, 0x35, 0x30, 0x65, 0x2b, 0x30, 0x30, 0x37, 0x2c, 0x2d, 0x30, 0x5d, 0x2c,
   0x22, 0x62, 0x22, 0x3a, 0x22, 0x78, 0x5c, 0x6e, 0x22, 0x7d]
def exTextV : JV :=
  .obj [([0x61], .arr [.num (.lit [0x31, 0x2e, 0x35, 0x30, 0x65, 0x2b, 0x30, 0x30, 0x37]), .num (.lit [0x2d, 0x30])]),
        ([0x62], .str [0x78, 0x0a])]

example : stripWs exText = exTextStripped := by decide +kernel
example : (parseTop envAp exText).isOk exTextV = true := by decide +kernel

/-- the syntax tree of `exText` meets both provisos, so the theorem's third clause applies: the output of the
    serializer model on the parsed value is the stripped input -/
example : (serCompact SJ.Props.C03.ext0 (ofValue exTextV)).map List.flatten = .ok exTextStripped := by decide +kernel
def exTree : CST := .obj
  [([.raw 0x61], .arr [.num ⟨false, [0x31], [0x2e, 0x35, 0x30], [0x65, 0x2b, 0x30, 0x30, 0x37]⟩, .num ⟨true, [0x30], [], []⟩]),
   ([.raw 0x62], .str [.raw 0x78, .esc 0x6e])]
example : JsonText exText exTree := (SJ.Props.C03.c03_recognise_sound true exText exTree (by rfl)).1
example : keysInMapOrder false exTree = true ∧ spelledCanonically exTree = true ∧ normText exTree = exTextStripped := by
  decide +kernel

/-- the provisos are needed: `{"b":1,"a":2}` comes back as `{"a":2,"b":1}` from the default map (but unchanged
    under `preserve_order`), `{"a":1,"a":2}` as `{"a":2}`, and `"A"` as `"A"` -/
example : keysInMapOrder false (.obj [([.raw 0x62], .num ⟨false, [0x31], [], []⟩), ([.raw 0x61], .num ⟨false, [0x32], [], []⟩)]) = false ∧
    keysInMapOrder true (.obj [([.raw 0x62], .num ⟨false, [0x31], [], []⟩), ([.raw 0x61], .num ⟨false, [0x32], [], []⟩)]) = true ∧
    keysInMapOrder true (.obj [([.raw 0x61], .num ⟨false, [0x31], [], []⟩), ([.raw 0x61], .num ⟨false, [0x32], [], []⟩)]) = false ∧
    spelledCanonically (.str [.uni 0x30 0x30 0x34 0x31]) = false := by decide +kernel
example : (parseTop envAp [0x7b, 0x22, 0x62, 0x22, 0x3a, 0x31, 0x2c, 0x22, 0x61, 0x22, 0x3a, 0x32, 0x7d]).isOk
    (.obj [([0x61], .num (.lit [0x32])), ([0x62], .num (.lit [0x31]))]) = true := by decide +kernel

/-- `-0.0E+00` as a Number: every way of printing it gives the eight bytes back -/
example : Model.Display.format SJ.Props.C03.ext0 (.num (.lit [0x2d, 0x30, 0x2e, 0x30, 0x45, 0x2b, 0x30, 0x30])) false =
    some [0x2d, 0x30, 0x2e, 0x30, 0x45, 0x2b, 0x30, 0x30] :=
  (c20_number_display envAp rfl rfl SJ.Props.C03.ext0 SJ.Props.C03.ext0_ok ⟨true, [0x30], [0x2e, 0x30], [0x45, 0x2b, 0x30, 0x30]⟩
    (by decide)).2.2.2.2.2.2.2

end SJ.Props.C20
