import SJ.Proofs.FromValue
import SJ.Model.FromValueRoutes
import SJ.Proofs.Schema
import SJ.Proofs.TypedAgreeAll
import SJ.Proofs.TypedAgreeExcl
import SJ.Proofs.RoundTrip
import SJ.Props.C03
/-!
# C16 — `from_value` agrees with the text deserialiser

Property theorems only; helper lemmas live in `SJ/Proofs/FromValue.lean`.

Proved here, over the whole typed universe (`SJ.Spec.Schema`): the OWNED deserializer
(`from_value::<T>(v)`, `impl Deserializer for Value`) and the BORROWED one (`T::deserialize(&v)`,
`impl Deserializer for &Value`) — two separate implementations in `src/value/de.rs`, two separate
transcriptions in `SJ.Model.FromValue` — return the same outcome for every schema, every value and every
configuration. The third leg, `from_str::<T>(&to_string(&v))`, is stated over the typed text model (`SJ.Model.Typed.deTypedTop`,
de.rs's typed entry points) and proved for the whole schema universe except float targets, over values without floats
(`c16_text_agrees_partial`); for floats the three-way statement is carried by the correspondence run (`c16` op), where
the text leg is COMPUTED by the model and compared with the crate's, and the executable specification compares the three
real outcomes on every generated (schema, value) pair.
-/
namespace SJ.Props.C16
open SJ SJ.Model.FromValue SJ.Proofs.FromValue

/-- **C16 (owned = borrowed).** For every configuration, schema and value, interpreting the value by
    value and by reference gives the same outcome: both fail, or both succeed with the same result. -/
theorem c16_owned_borrowed (cfg : Cfg) (ext : Ext) (s : Schema) (v : JV) :
    fromValue cfg ext s v = fromValueRef cfg ext s v :=
  fromValue_eq_ref cfg ext s v

example : fromValue {} {} (.tuple [.bool, .option .bool]) (.arr [.bool true, .null])
    = .ok (.seq [.bool true, .none]) := by rfl
example : fromValueRef {} {} (.tuple [.bool, .option .bool]) (.arr [.bool true, .null])
    = .ok (.seq [.bool true, .none]) := by rfl

/-- **C16, the part of the three-way statement proved so far** (`_partial`: the text leg
    `deTyped s (serCompact v)` is missing — it awaits the typed text machine and is carried by the
    correspondence meanwhile): the owned and borrowed interpretations all succeed or all fail, and on
    success return equal results. -/
theorem c16_agree_partial (cfg : Cfg) (ext : Ext) (s : Schema) (v : JV) :
    (∀ t, fromValue cfg ext s v = .ok t ↔ fromValueRef cfg ext s v = .ok t) ∧
    (fromValue cfg ext s v = .error () ↔ fromValueRef cfg ext s v = .error ()) := by
  rw [c16_owned_borrowed]; exact ⟨fun _ => Iff.rfl, Iff.rfl⟩

-- a struct with a missing optional field and an ignored unknown field, from an object (field names `a`, `b`; unknown `z`)
example : fromValue {} {} (.struct_ [([0x61], .int .u8), ([0x62], .option .string)] false)
    (.obj [([0x7a], .arr []), ([0x61], .num (.pos 7))]) = .ok (.struct_ [.int 7, .none]) := by rfl

/-- `IgnoredAny` accepts every value, on both sides. -/
theorem c16_ignored_total (cfg : Cfg) (ext : Ext) (v : JV) :
    fromValue cfg ext .ignored v = .ok .ignored ∧ fromValueRef cfg ext .ignored v = .ok .ignored := by
  simp [fromValue, fromValueRef]

example : fromValue {} {} .ignored (.obj [([0x61], .arr [.null])]) = .ok .ignored := by rfl

/-- Reading a `Value` as a `Value` gives the value back (without `arbitrary_precision`; floats finite,
    which `Number` guarantees), on both sides. Under `arbitrary_precision` this is false in the crate:
    `-0` comes back as `0` and `0.000001` as `1e-6` (open findings of this check). -/
theorem c16_any_identity (cfg : Cfg) (ext : Ext) (hap : cfg.ap = false) (v : JV) (hv : finiteFloats v = true) :
    fromValue cfg ext .any v = .ok (.any v) ∧ fromValueRef cfg ext .any v = .ok (.any v) := by
  rw [← c16_owned_borrowed]
  simp [fromValue, rebuild_id cfg ext hap v hv]

example : fromValue {} {} .any (.arr [.num (.float 0x3ff8000000000000), .obj [([0x6b], .null)]])
    = .ok (.any (.arr [.num (.float 0x3ff8000000000000), .obj [([0x6b], .null)]])) := by rfl
-- the arbitrary_precision exception: the literal `-0` is rebuilt as `0`
example : fromValue { ap := true } {} .any (.num (.lit [0x2d, 0x30])) = .ok (.any (.num (.lit [0x30]))) := by rfl

/-- The leftover-element and `invalid_length` checks: a fixed-length tuple target accepts an array only
    of exactly its length. -/
theorem c16_tuple_exact_length (cfg : Cfg) (ext : Ext) (ss : List Schema) (xs : List JV) (t : TVal)
    (h : fromValue cfg ext (.tuple ss) (.arr xs) = .ok t) : xs.length = ss.length := by
  simp only [fromValue] at h
  obtain ⟨ys, hy, _⟩ := visitArray_ok h
  have := tupleSeq_length cfg ext ss xs ys [] hy
  simpa using this.1

example : fromValue {} {} (.tuple [.bool]) (.arr [.bool true, .null]) = .error () := by rfl
example : fromValue {} {} (.tuple [.bool, .unit]) (.arr [.bool true]) = .error () := by rfl

/-- A struct target accepts an array only of exactly its fields, in order. -/
theorem c16_struct_array_exact_length (cfg : Cfg) (ext : Ext) (fs : List (Bytes × Schema)) (deny : Bool)
    (xs : List JV) (t : TVal) (h : fromValue cfg ext (.struct_ fs deny) (.arr xs) = .ok t) :
    xs.length = fs.length := by
  simp only [fromValue] at h
  obtain ⟨ys, hy, _⟩ := visitArray_ok h
  have := fieldsSeq_length cfg ext fs xs ys [] hy
  simpa using this.1

example : fromValue {} {} (.struct_ [([0x61], .bool), ([0x62], .option .bool)] false) (.arr [.bool true])
    = .error () := by rfl

/-- Integer targets are range-checked, never wrapped: a successful result is an integer within the
    target type's range (in every configuration). -/
theorem c16_int_in_range (cfg : Cfg) (ext : Ext) (w : IntTy) (v : JV) (t : TVal)
    (h : fromValue cfg ext (.int w) v = .ok t) : ∃ x, t = .int x ∧ w.inRange x = true :=
  int_in_range h

example : fromValue {} {} (.int .u8) (.num (.pos 255)) = .ok (.int 255) := by rfl
example : fromValue {} {} (.int .u8) (.num (.pos 256)) = .error () := by rfl
example : fromValue {} {} (.int .i8) (.num (.neg (-129))) = .error () := by rfl

/-- An externally tagged enum given as an object must have exactly one key. -/
theorem c16_enum_single_key (cfg : Cfg) (ext : Ext) (vs : List (Bytes × VariantShape)) (kvs : List (Bytes × JV))
    (t : TVal) (h : fromValue cfg ext (.enum_ vs) (.obj kvs) = .ok t) : kvs.length = 1 := by
  simp only [fromValue] at h
  split at h
  · rfl
  · simp [fail] at h

example : fromValue {} {} (.enum_ [([0x55], .unit)]) (.obj [([0x55], .null), ([0x56], .null)]) = .error () := by rfl
example : fromValue {} {} (.enum_ [([0x55], .unit)]) (.obj [([0x55], .null)]) = .ok (.variant 0 .unit) := by rfl

/-- `Option` targets: `null` is `none`, anything else is `some` of the inner interpretation. -/
theorem c16_option (cfg : Cfg) (ext : Ext) (s : Schema) (v : JV) :
    fromValue cfg ext (.option s) v =
      if v.beq .null then .ok .none else (fromValue cfg ext s v).map .some := by
  cases v <;> simp [fromValue, JV.beq]

example : fromValue {} {} (.option .unit) .null = .ok .none := by rfl

-- the value side of the statement's exclusions: a zero-length tuple variant is rejected (`visit_unit`), and so is a
-- struct variant written as an array — the text deserializer accepts both
example : fromValue {} {} (.enum_ [([0x5a], .tuple [])]) (.obj [([0x5a], .arr [])]) = .error () := by rfl
example : fromValue {} {} (.enum_ [([0x53], .struct_ [([0x78], .bool)])]) (.obj [([0x53], .arr [.bool true])])
    = .error () := by rfl
-- typed map keys: `12` is a `u8` key, `01` / `256` / `-0` are not
example : fromValue {} {} (.map (.int .u8) .bool) (.obj [([0x31, 0x32], .bool true)])
    = .ok (.map [(.int 12, .bool true)]) := by rfl
example : fromValue {} {} (.map (.int .u8) .bool) (.obj [([0x30, 0x31], .bool true)]) = .error () := by rfl
example : fromValue {} {} (.map (.int .u8) .bool) (.obj [([0x32, 0x35, 0x36], .bool true)]) = .error () := by rfl
example : fromValue {} {} (.map (.int .i8) .bool) (.obj [([0x2d, 0x30], .bool true)]) = .error () := by rfl

/-- The comparator the executable specification applies to the three observed results (`TVal.eqv`
    with floats compared) is equality of typed results; without floats it is still reflexive. -/
theorem c16_result_comparator_exact (a b : TVal) :
    (TVal.eqv true a b = true ↔ a = b) ∧ TVal.eqv false a a = true :=
  ⟨TVal.eqv_true_iff a b, TVal.eqv_refl false a⟩

example : TVal.eqv false (.seq [.f64 1, .int 2]) (.seq [.f64 3, .int 2]) = true := by decide +kernel
example : TVal.eqv true (.seq [.f64 1, .int 2]) (.seq [.f64 3, .int 2]) = false := by decide +kernel

/-- The tie to the source: the routing of `src/value/de.rs` regenerated by `tools/extract.py` on this run
    (which method delegates to which, which `Value` constructors each method accepts and what it calls,
    which methods are macro-defined or forwarded to `deserialize_any`, the leftover checks, the numeric-key
    guard) is the routing the two transcriptions were written against. -/
theorem c16_routing_tied : RoutingTied := by
  refine ⟨rfl, rfl, rfl, rfl, rfl, rfl, rfl, rfl, rfl, rfl, rfl, rfl, rfl⟩

example : (SJ.Gen.routeOwned.lookup "deserialize_char") = some "->deserialize_string" := by rfl
example : (SJ.Gen.routeRef.lookup "deserialize_char") = some "->deserialize_str" := by rfl

/-- **C16, the text leg (`_partial`: the builds without `arbitrary_precision`; with it: `c16_text_agrees_ap_partial`).** For every schema of the fragment `agreeFrag2` — bool, the twelve integer targets (8–128 bit),
    `f64`, char, `String`, byte buffers, unit / unit structs, `Option`, newtype structs, `Vec`, fixed-length tuples, maps with
    EVERY key kind (string, the twelve integer widths, bool, char, unit-variant enums; arbitrary key strings, accepted or not),
    structs (with and without `deny_unknown_fields`; from arrays and from objects, unknown / duplicate / missing fields as
    derive's visitor treats them), enums (unit, newtype, non-empty tuple and struct variants), `IgnoredAny` and `Value` (at any
    nesting depth: the machine on the padding frames of the typed containers) — i.e. every schema of the universe without
    `f32` targets and zero-length tuple variants (both outside the claim) — and every value that a
    non-`arbitrary_precision` `Value` of this build can hold (`shapeOK`: floats finite) whose floats the printer / parser pair
    returns (`hF` — C04's named hypothesis `FloatsRoundTrip`, as the statement says: "comparisons involving f64 assume
    float_roundtrip or short float literals"; it is discharged from `RyuShortest` under `float_roundtrip`:
    `c16_text_agrees_fr`, and is vacuous without floats: `c16_text_agrees_nofloat`), within the parser's depth budget and
    outside the statement's exclusion "a struct variant written as an array" (`hx`: `Schema.svArr s v = false`, schema-directed
    — `Spec/SchemaExcl.lean`: no enum target with a struct variant `name` meets the single-key object `{name: [...]}` on the way
    the deserializers visit the value; an object of that form anywhere else, e.g. under a `Map<String, Vec<u8>>` target, is
    inside the theorem): `to_string(v)` succeeds and
    `from_str::<T>` of that text (typed deserializer + `end()`, any source) returns exactly what `from_value::<T>(v)`
    returns, and fails whenever it fails — matching and mismatching values alike (an integer into `f64`: `as f64` on both
    sides; a float into an integer, bool, string, container … target: refused on both sides). Together with
    `c16_owned_borrowed` this is the three-way statement.
    A float value in a schema with a 128-bit integer target is covered (`h128`): `scan_integer128` takes the integer prefix
    of `1.5` and leaves the rejection to the caller (`has_next_element` / `has_next_key` / `end_seq` / the `}` test of an
    enum / `end()`: expected `,` or `]`, trailing characters), which the proof follows through every container
    (`Proofs.Typed.Agree1w`, `int128_float_weak`) — under the proviso that the printer writes such a float with a fraction or
    an exponent (`floatsPointed ext v`; true of `ryu`, part of `RyuShortest`, vacuous without floats or without 128-bit
    targets). The proviso is needed: a printer writing `1e20` as `100000000000000000000` would make `from_str::<i128>`
    accept what `from_value::<i128>` refuses.
    `arbitrary_precision` (literal-backed numbers) is `c16_text_agrees_ap_partial` (`Props/C16Ap.lean`). The text is the one the serializer model writes
    (`c03_value`). -/
theorem c16_text_agrees_partial (mcfg : Model.Machine.Cfg) (hap : mcfg.ap = false) (src : Model.Machine.Src)
    (ext : Spec.Program.Ext) (hext : Spec.Program.ExtOK ext) (ext' : Ext) (s : Schema) (hs : Proofs.Typed.agreeFrag2 s = true)
    (v : JV) (hv : Spec.WF.shapeOK (Proofs.CanonM.specCfg mcfg) v = true)
    (hF : Spec.WF.floatsRT (Proofs.CanonM.specCfg mcfg) ext v = true)
    (h128 : Proofs.Typed.has128 s = false ∨ Proofs.Typed.floatsPointed ext v = true)
    (hx : s.svArr v = false)
    (hd : mcfg.limitOff = true ∨ Spec.WF.depthJV v ≤ 127) :
    ∃ bufs, Model.Ser.serCompact ext (Model.Ser.ofValue v) = .ok bufs ∧
      (match fromValue { po := mcfg.po, fr := mcfg.fr, ap := false } ext' s v with
       | .ok t => Model.Typed.deTypedTop { cfg := mcfg, src := src } s bufs.flatten = .ok t
       | .error _ => ∀ t, Model.Typed.deTypedTop { cfg := mcfg, src := src } s bufs.flatten ≠ .ok t) := by
  have hl : Spec.Image.valueLitsOK v = true := SJ.Proofs.RoundTrip.valueLitsOK_of_shapeOK _ v hv
  obtain ⟨⟨bufs, hser, htext⟩, _⟩ := SJ.Props.C03.c03_value ext hext v hl
  refine ⟨bufs, hser, ?_⟩
  rw [htext]
  have hag := Proofs.Typed.agree_all_x ext hext (env := { cfg := mcfg, src := src }) rfl hap
    { po := mcfg.po, fr := mcfg.fr, ap := false } rfl ext' (Model.Typed.Schema.size s + 1) s (by omega) hs
    0 v (Proofs.Typed.shapeW_of_shapeOK _ hap v hv) hF
    (by rcases hd with h | h
        · exact .inl h
        · exact .inr (by omega)) hx hv h128 [] 0 (.inl rfl)
  simp only [List.append_nil] at hag
  unfold Proofs.Typed.T at hag
  unfold Model.Typed.deTypedTop
  cases hfv : fromValue { po := mcfg.po, fr := mcfg.fr, ap := false } ext' s v with
  | ok t =>
    rw [hfv] at hag
    simp only at hag ⊢
    rw [hag]
    simp [Model.Stream.skipWs]
  | error e =>
    rw [hfv] at hag
    simp only at hag ⊢
    intro t
    cases hde : Model.Typed.deTyped { cfg := mcfg, src := src } (Model.Typed.Schema.size s + 1) 0 s
        (Spec.Image.render (Spec.Image.imageOfValue ext v)) 0 with
    | ok x r p =>
      -- returned in front of `.` / `e` / `E` (a float under a 128-bit integer target): `end()` reports trailing characters
      obtain ⟨c, tl, rfl, hw, _⟩ := Proofs.Typed.badHead_facts (hag x r p hde)
      simp [Proofs.Typed.skipWs_cons hw]
    | _ => simp

/-- **the text leg without floats**: no hypothesis about the printer / parser pair, every schema of the fragment (128-bit
    integer targets included) -/
theorem c16_text_agrees_nofloat (mcfg : Model.Machine.Cfg) (hap : mcfg.ap = false) (src : Model.Machine.Src)
    (ext : Spec.Program.Ext) (hext : Spec.Program.ExtOK ext) (ext' : Ext) (s : Schema) (hs : Proofs.Typed.agreeFrag2 s = true)
    (v : JV) (hv : Spec.WF.shapeOK (Proofs.CanonM.specCfg mcfg) v = true ∧ Spec.WF.noFloat v = true)
    (hx : s.svArr v = false)
    (hd : mcfg.limitOff = true ∨ Spec.WF.depthJV v ≤ 127) :
    ∃ bufs, Model.Ser.serCompact ext (Model.Ser.ofValue v) = .ok bufs ∧
      (match fromValue { po := mcfg.po, fr := mcfg.fr, ap := false } ext' s v with
       | .ok t => Model.Typed.deTypedTop { cfg := mcfg, src := src } s bufs.flatten = .ok t
       | .error _ => ∀ t, Model.Typed.deTypedTop { cfg := mcfg, src := src } s bufs.flatten ≠ .ok t) :=
  c16_text_agrees_partial mcfg hap src ext hext ext' s hs v hv.1 (SJ.Proofs.RoundTrip.floatsRT_of_noFloat _ ext v hv.2)
    (.inr (Proofs.Typed.floatsPointed_of_noFloat ext v hv.2)) hx hd

-- `[[1,null],[2,true]]` as `Vec<(u8, Option<bool>)>`: the text leg returns what `from_value` returns; `[256]` fails on both sides
example : fromValue {} {} (.seq (.tuple [.int .u8, .option .bool]))
    (.arr [.arr [.num (.pos 1), .null], .arr [.num (.pos 2), .bool true]])
    = .ok (.seq [.seq [.int 1, .none], .seq [.int 2, .some (.bool true)]]) := by rfl
example : (match Model.Typed.deTypedTop {} (.seq (.tuple [.int .u8, .option .bool]))
      [0x5b, 0x5b, 0x31, 0x2c, 0x6e, 0x75, 0x6c, 0x6c, 0x5d, 0x2c, 0x5b, 0x32, 0x2c, 0x74, 0x72, 0x75, 0x65, 0x5d, 0x5d] with
    | .ok t => t == .seq [.seq [.int 1, .none], .seq [.int 2, .some (.bool true)]] | _ => false) = true := by decide +kernel
example : fromValue {} {} (.seq (.int .u8)) (.arr [.num (.pos 256)]) = .error () := by rfl
example : (match Model.Typed.deTypedTop {} (.seq (.int .u8)) [0x5b, 0x32, 0x35, 0x36, 0x5d] with | .data (some 4) => true | _ => false) = true := by
  decide +kernel

-- `{"z":[],"a":7}` as `struct { a: u8, b: Option<String> }`: the unknown field is skipped (`ignore_value`), the missing `Option` is `None`
example : (match Model.Typed.deTypedTop {} (.struct_ [([0x61], .int .u8), ([0x62], .option .string)] false)
      [0x7b, 0x22, 0x7a, 0x22, 0x3a, 0x5b, 0x5d, 0x2c, 0x22, 0x61, 0x22, 0x3a, 0x37, 0x7d] with
    | .ok t => t == .struct_ [.int 7, .none] | _ => false) = true := by decide +kernel
-- `{"V":[1,"x\n"]}` as an enum with a tuple variant `V(u8, String)`; `{"é":true}` as `Map<char, bool>`
example : (match Model.Typed.deTypedTop {} (.enum_ [([0x55], .unit), ([0x56], .tuple [.int .u8, .string])])
      [0x7b, 0x22, 0x56, 0x22, 0x3a, 0x5b, 0x31, 0x2c, 0x22, 0x78, 0x5c, 0x6e, 0x22, 0x5d, 0x7d] with
    | .ok t => t == .variant 1 (.seq [.int 1, .str [0x78, 0x0a]]) | _ => false) = true := by decide +kernel
example : fromValue {} {} (.enum_ [([0x55], .unit), ([0x56], .tuple [.int .u8, .string])])
    (.obj [([0x56], .arr [.num (.pos 1), .str [0x78, 0x0a]])]) = .ok (.variant 1 (.seq [.int 1, .str [0x78, 0x0a]])) := by rfl
example : (match Model.Typed.deTypedTop {} (.map .char .bool) [0x7b, 0x22, 0xc3, 0xa9, 0x22, 0x3a, 0x74, 0x72, 0x75, 0x65, 0x7d] with
    | .ok t => t == .map [(.char 0xe9, .bool true)] | _ => false) = true := by decide +kernel
-- `{"-7":[null,{"k":1}]}` as `Map<i128, Vec<Value>>`: an integer key through `MapKey`'s 128-bit method, nested `Value`s on padding frames
example : (match Model.Typed.deTypedTop {} (.map (.int .i128) (.seq .any))
      [0x7b, 0x22, 0x2d, 0x37, 0x22, 0x3a, 0x5b, 0x6e, 0x75, 0x6c, 0x6c, 0x2c, 0x7b, 0x22, 0x6b, 0x22, 0x3a, 0x31, 0x7d, 0x5d, 0x7d] with
    | .ok t => t == .map [(.int (-7), .seq [.any .null, .any (.obj [([0x6b], .num (.pos 1))])])] | _ => false) = true := by decide +kernel
example : fromValue {} {} (.map (.int .i128) (.seq .any)) (.obj [([0x2d, 0x37], .arr [.null, .obj [([0x6b], .num (.pos 1))]])])
    = .ok (.map [(.int (-7), .seq [.any .null, .any (.obj [([0x6b], .num (.pos 1))])])]) := by rfl
-- a key that is not the spelling of an integer (`01`) is refused on both sides
example : fromValue {} {} (.map (.int .u8) .bool) (.obj [([0x30, 0x31], .bool true)]) = .error () := by rfl
example : (match Model.Typed.deTypedTop {} (.map (.int .u8) .bool) [0x7b, 0x22, 0x30, 0x31, 0x22, 0x3a, 0x74, 0x72, 0x75, 0x65, 0x7d] with
    | .ok _ => false | _ => true) = true := by decide +kernel
-- the fragment predicate on these schemas, and the exclusion it embodies
example : Proofs.Typed.agreeFrag2 (.enum_ [([0x55], .unit), ([0x56], .tuple [.int .u8, .string])]) = true ∧
    Proofs.Typed.agreeFrag2 (.enum_ [([0x5a], .tuple [])]) = false ∧
    Proofs.Typed.agreeFrag2 (.struct_ [([0x61], .int .u8), ([0x62], .option .string)] true) = true ∧
    Proofs.Typed.agreeFrag2 (.map (.int .i128) (.seq .any)) = true ∧ Proofs.Typed.agreeFrag2 (.seq .f64) = true ∧
    Proofs.Typed.agreeFrag2 (.seq .f32) = false := by decide

-- floats: `[1.5,2]` as `Vec<f64>` (an integer into `f64` is cast on both sides); `1.5` into `u8` and into `i128` is refused by
-- `from_value` and by the text path — by `i128`'s caller (`end()`: trailing characters at byte 2), `scan_integer128` having
-- accepted the prefix `1` (covered by `c16_text_agrees_partial` through `Agree1w`: see the instance below)
example : (match fromValue {} {} (.seq .f64) (.arr [.num (.float 0x3ff8000000000000), .num (.pos 2)]) with
    | .ok t => t == .seq [.f64 0x3ff8000000000000, .f64 0x4000000000000000] | _ => false) = true := by decide +kernel
example : (match Model.Typed.deTypedTop {} (.seq .f64) [0x5b, 0x31, 0x2e, 0x35, 0x2c, 0x32, 0x5d] with
    | .ok t => t == .seq [.f64 0x3ff8000000000000, .f64 0x4000000000000000] | _ => false) = true := by decide +kernel
example : fromValue {} {} (.int .u8) (.num (.float 0x3ff8000000000000)) = .error () ∧
    fromValue {} {} (.int .i128) (.num (.float 0x3ff8000000000000)) = .error () := ⟨rfl, rfl⟩
example : (match Model.Typed.deTypedTop {} (.int .u8) [0x31, 0x2e, 0x35] with | .data (some 3) => true | _ => false) = true ∧
    (match Model.Typed.deTypedTop {} (.int .i128) [0x31, 0x2e, 0x35] with | .err .TrailingCharacters 2 => true | _ => false) = true := by
  decide +kernel
example : Proofs.Typed.has128 (.seq (.tuple [.int .i128, .f64])) = true ∧ Proofs.Typed.has128 (.map (.int .u128) .f64) = false := by decide

/-- a printer for the instances below: real `itoa`, and a "ryu" that writes every float as `1.5` -/
def extE : Spec.Program.Ext :=
  { itoa := Spec.Number.decimal, ryu64 := fun _ => [0x31, 0x2e, 0x35], ryu32 := fun _ => [0x31, 0x2e, 0x35] }
theorem extE_ok : Spec.Program.ExtOK extE :=
  ⟨fun _ => rfl, fun _ _ => ⟨⟨false, [0x31], [0x2e, 0x35], []⟩, rfl, rfl⟩, fun _ _ => ⟨⟨false, [0x31], [0x2e, 0x35], []⟩, rfl, rfl⟩⟩

/-- non-vacuity of the 128-bit / float case: `[7,1.5]` as `(i128, f64)` — a float in a schema with a 128-bit target, read as
    `from_value` reads it — and `[1.5,7]` as the same type: the float MEETS the 128-bit target, `from_value` refuses and the
    theorem says the text path does too (`scan_integer128` returns `1`, `has_next_element` finds `.`) -/
example : ∃ bufs, Model.Ser.serCompact extE (Model.Ser.ofValue (.arr [.num (.pos 7), .num (.float 0x3ff8000000000000)])) = .ok bufs ∧
    Model.Typed.deTypedTop { cfg := {}, src := .slice } (.tuple [.int .i128, .f64]) bufs.flatten =
      .ok (.seq [.int 7, .f64 0x3ff8000000000000]) := by
  have h := c16_text_agrees_partial {} rfl .slice extE extE_ok {} (.tuple [.int .i128, .f64]) (by decide)
    (.arr [.num (.pos 7), .num (.float 0x3ff8000000000000)]) (by decide) (by decide +kernel) (.inr (by decide)) (by decide)
    (.inr (by decide))
  have hv : fromValue { po := false, fr := false, ap := false } {} (.tuple [.int .i128, .f64])
      (.arr [.num (.pos 7), .num (.float 0x3ff8000000000000)]) = .ok (.seq [.int 7, .f64 0x3ff8000000000000]) := by rfl
  obtain ⟨bufs, h1, h2⟩ := h
  rw [hv] at h2
  exact ⟨bufs, h1, h2⟩
example : ∃ bufs, Model.Ser.serCompact extE (Model.Ser.ofValue (.arr [.num (.float 0x3ff8000000000000), .num (.pos 7)])) = .ok bufs ∧
    ∀ t, Model.Typed.deTypedTop { cfg := {}, src := .slice } (.tuple [.int .i128, .f64]) bufs.flatten ≠ .ok t := by
  have h := c16_text_agrees_partial {} rfl .slice extE extE_ok {} (.tuple [.int .i128, .f64]) (by decide)
    (.arr [.num (.float 0x3ff8000000000000), .num (.pos 7)]) (by decide) (by decide +kernel) (.inr (by decide)) (by decide)
    (.inr (by decide))
  have hv : fromValue { po := false, fr := false, ap := false } {} (.tuple [.int .i128, .f64])
      (.arr [.num (.float 0x3ff8000000000000), .num (.pos 7)]) = .error () := by rfl
  obtain ⟨bufs, h1, h2⟩ := h
  rw [hv] at h2
  exact ⟨bufs, h1, h2⟩
-- the same text evaluated: `[1.5,7]` into `(i128, f64)` stops at byte 2 with "expected `,` or `]`"
example : (match Model.Typed.deTypedTop {} (.tuple [.int .i128, .f64]) [0x5b, 0x31, 0x2e, 0x35, 0x2c, 0x37, 0x5d] with
    | .err .ExpectedListCommaOrEnd 3 => true | _ => false) = true := by decide +kernel
-- the proviso `floatsPointed` is needed: a printer that writes the float 1e20 as `100000000000000000000` (an RFC 8259 number,
-- read back as that float) makes the text path accept into `i128` what `from_value` refuses
example : fromValue {} {} (.int .i128) (.num (.float 0x4415af1d78b58c40)) = .error () ∧
    (match Model.Typed.deTypedTop {} (.int .i128)
        [0x31, 0x30, 0x30, 0x30, 0x30, 0x30, 0x30, 0x30, 0x30, 0x30, 0x30, 0x30, 0x30, 0x30, 0x30, 0x30, 0x30, 0x30, 0x30, 0x30, 0x30] with
      | .ok t => t == .int 100000000000000000000 | _ => false) = true := ⟨rfl, by decide +kernel⟩

/-! ## the statement's exclusion "zero-length tuple variants", established on the crate and in both models

`enum E { Z() }` and the value `{"Z":[]}` (harness, every configuration: `c16 d E2;5a;t0;55;u o1;s5a;a0; … => ERR|ERR|OK:V0;Q0;`):
`from_value` and `&Value` refuse it (`VariantDeserializer::tuple_variant` answers an EMPTY array with `visitor.visit_unit()`,
which derive's tuple-variant visitor does not implement), `from_str` accepts it (`deserialize_seq` + `visit_seq` taking no
element). The three paths disagree — exactly the case the statement names as outside the claim ("zero-length tuple variants …
accepted from text only"), so the executable statement skips it (`c16Excluded2`) and `agreeFrag2` excludes it. A zero-length
TUPLE (`[T; 0]`, a tuple struct without fields; schema `T0;`) is inside the claim and inside the theorem: `[]` is accepted by all
three, anything else refused by all three. -/
example : fromValue {} {} (.enum_ [([0x5a], .tuple []), ([0x55], .unit)]) (.obj [([0x5a], .arr [])]) = .error () ∧
    fromValueRef {} {} (.enum_ [([0x5a], .tuple []), ([0x55], .unit)]) (.obj [([0x5a], .arr [])]) = .error () ∧
    (match Model.Typed.deTypedTop {} (.enum_ [([0x5a], .tuple []), ([0x55], .unit)]) [0x7b, 0x22, 0x5a, 0x22, 0x3a, 0x5b, 0x5d, 0x7d] with
      | .ok t => t == .variant 0 (.seq []) | _ => false) = true ∧
    c16Excluded2 (.enum_ [([0x5a], .tuple []), ([0x55], .unit)]) (.obj [([0x5a], .arr [])]) = true :=
  ⟨rfl, rfl, by decide +kernel, by decide⟩
example : fromValue {} {} (.tuple []) (.arr []) = .ok (.seq []) ∧ fromValueRef {} {} (.tuple []) (.arr []) = .ok (.seq []) ∧
    (match Model.Typed.deTypedTop {} (.tuple []) [0x5b, 0x5d] with | .ok t => t == .seq [] | _ => false) = true ∧
    Proofs.Typed.agreeFrag2 (.tuple []) = true ∧ c16Excluded2 (.tuple []) (.arr []) = false :=
  ⟨rfl, rfl, by decide +kernel, by decide, by decide⟩

/-! ## the exclusion "a struct variant written as an array" is schema-directed

The audit's witness: `(Map<String, Vec<u8>>, enum { S { x: bool } })` on `[{"S":[1]}, {"S":{"x":true}}]` — the object `{"S":[1]}`
sits under the MAP target, where `S` is just a key; the former exclusion (`JV.hasArrayPayload` over the names of all struct
variants of the schema) dropped the pair, `Schema.svArr` keeps it, and the theorem applies: both sides succeed with the same
result. The excluded case itself — the ENUM target on `{"S":[true]}` — is refused by `from_value` and accepted from text. -/
def exWSchema : Schema := .tuple [.map .string (.seq (.int .u8)), .enum_ [([0x53], .struct_ [([0x78], .bool)])]]
def exWValue : JV := .arr [.obj [([0x53], .arr [.num (.pos 1)])], .obj [([0x53], .obj [([0x78], .bool true)])]]

example : exWSchema.svArr exWValue = false ∧ exWValue.hasArrayPayload exWSchema.structVariantNames = true ∧
    c16Excluded2 exWSchema exWValue = false := by decide
example : ∃ bufs, Model.Ser.serCompact extE (Model.Ser.ofValue exWValue) = .ok bufs ∧
    Model.Typed.deTypedTop { cfg := {}, src := .slice } exWSchema bufs.flatten =
      .ok (.seq [.map [(.str [0x53], .seq [.int 1])], .variant 0 (.struct_ [.bool true])]) := by
  have h := c16_text_agrees_nofloat {} rfl .slice extE extE_ok {} exWSchema (by decide) exWValue ⟨by decide, by decide⟩ (by decide)
    (.inr (by decide))
  have hv : fromValue { po := false, fr := false, ap := false } {} exWSchema exWValue =
      .ok (.seq [.map [(.str [0x53], .seq [.int 1])], .variant 0 (.struct_ [.bool true])]) := by rfl
  obtain ⟨bufs, h1, h2⟩ := h
  rw [hv] at h2
  exact ⟨bufs, h1, h2⟩
example : (Schema.enum_ [([0x53], .struct_ [([0x78], .bool)])]).svArr (.obj [([0x53], .arr [.bool true])]) = true ∧
    fromValue {} {} (.enum_ [([0x53], .struct_ [([0x78], .bool)])]) (.obj [([0x53], .arr [.bool true])]) = .error () ∧
    (match Model.Typed.deTypedTop {} (.enum_ [([0x53], .struct_ [([0x78], .bool)])]) [0x7b, 0x22, 0x53, 0x22, 0x3a, 0x5b, 0x74, 0x72, 0x75, 0x65, 0x5d, 0x7d] with
      | .ok t => t == .variant 0 (.struct_ [.bool true]) | _ => false) = true := ⟨by decide, rfl, by decide +kernel⟩

end SJ.Props.C16
