import SJ.Proofs.TypedSrcFloat
import SJ.Props.TypedSrc
/-!
# C09, typed targets: an out-of-range FLOAT is reported at the same index by slice and reader

`c09_typed_slice_reader` (`SJ/Props/TypedSrc.lean`) lists `NumberOutOfRange` among the parser errors that a reader may
report one byte later than a slice (`PeekCode`). In the model — as in `de.rs` — that code has these sites:

* `parse_exponent_overflow` (`scanExpDigits`): `self.error(NumberOutOfRange)` after `eat_char()`, nothing peeked — same index;
* the float conversion (`f64_from_parts`, `parse_long_decimal` …, after fix 9343bad), an integer literal outside
  `i64 ∪ u64` under an integer / float target, `-` before a `u128`: `peek_error` — `min(len, index + 1)` from a slice,
  the count of pulled bytes from a reader — same index (`deNumber`, `peekErrorIdx`);
* the byte-step machine as a sub-parser (`Value` / `IgnoredAny` inside a typed document): `.incl` — same index (`runPfx_src`);
* `do_deserialize_i128` / `do_deserialize_u128`, `Err(self.error(ErrorCode::NumberOutOfRange))` after `buf.parse()` failed on
  the digits `scan_integer128` collected: `read.position()` with the byte that ended the digits in the peek slot
  (`deInt128`, `errorIdx … true`) — the ONLY site where the reader's index is the slice's plus one. It is an
  integer-digit site (the digit run does not fit 128 bits; what follows — end of input, `,`, `.`, `e` — is not looked at).

Hence `c09_typed_out_of_range_float_same`: on every schema without an `i128` / `u128` target (`Schema.no128`: `f64`, `f32`,
the integer widths up to 64 bits, `Value`, and every container of these, integer map keys included) a `NumberOutOfRange`
from one source is the same error at the same index from the other, and `c09_typed_slice_reader_no128`: the exception list
of `c09_typed_slice_reader` shrinks to `ExpectedNumericKey`, `ExpectedSomeValue` and visitor errors. Conversely
(`c09_typed_out_of_range_shift_needs_128`) a `NumberOutOfRange` whose two indices differ needs a 128-bit target in the schema;
the witnesses below show that it does occur there.
-/
namespace SJ.Props.TypedSrc
open SJ SJ.Gen SJ.Model SJ.Model.Typed SJ.Proofs.Typed SJ.Props.Typed
open SJ.Model.Machine (Src)

/-- **C09 (typed targets, slice vs reader, no 128-bit integer target).** `c09_typed_slice_reader` with `NumberOutOfRange`
    removed from the exceptions: the two outcomes are identical, or the same `ExpectedNumericKey` / `ExpectedSomeValue`
    error resp. the same visitor error with the reader's index one larger (`i < |bs|`). -/
theorem c09_typed_slice_reader_no128 (cfg : Machine.Cfg) (flt : Bool) (s : Schema) (h128 : s.no128 = true) (bs : Bytes) :
    deTypedTop { cfg := cfg, src := .slice, flt := flt } s bs = deTypedTop { cfg := cfg, src := .reader, flt := flt } s bs ∨
    (∃ c i, (c = .ExpectedNumericKey ∨ c = .ExpectedSomeValue) ∧ i < bs.length ∧
      deTypedTop { cfg := cfg, src := .slice, flt := flt } s bs = .err c i ∧
      deTypedTop { cfg := cfg, src := .reader, flt := flt } s bs = .err c (i + 1)) ∨
    (∃ i, i < bs.length ∧ deTypedTop { cfg := cfg, src := .slice, flt := flt } s bs = .data (some i) ∧
      deTypedTop { cfg := cfg, src := .reader, flt := flt } s bs = .data (some (i + 1))) := by
  have hw := typed_within_input { cfg := cfg, src := .reader, flt := flt } s bs
  revert hw
  have h : SR2 (deTyped { cfg := cfg, src := .slice, flt := flt } (Schema.size s + 1) 0 s bs 0)
      (deTyped { cfg := cfg, src := .reader, flt := flt } (Schema.size s + 1) 0 s bs 0) :=
    sr2_deTyped cfg flt (Schema.size s + 1) 0 s h128 bs 0
  unfold deTypedTop
  generalize deTyped { cfg := cfg, src := .slice, flt := flt } (Schema.size s + 1) 0 s bs 0 = a at h
  generalize deTyped { cfg := cfg, src := .reader, flt := flt } (Schema.size s + 1) 0 s bs 0 = b at h
  cases h with
  | same => intro _; exact .inl (by cases a <;> rfl)
  | errP c i hc => intro hw; exact .inr (.inl ⟨c, i, hc, hw.1 c (i + 1) rfl, rfl, rfl⟩)
  | dataP i => intro hw; exact .inr (.inr ⟨i, hw.2 (i + 1) rfl, rfl, rfl⟩)

/-- **C09 (typed targets): an out-of-range number is reported at the same index by slice and reader** unless the schema has
    an `i128` / `u128` target. For every configuration, clean or failing end of input, every schema without a 128-bit
    integer (in particular `f64`, `f32`, `Vec<f64>`, structs of floats and of integers up to 64 bits, `Value`) and every
    byte string: the slice run ends in `NumberOutOfRange` at index `i` exactly when the reader run does — the float
    conversion sites (`f64_from_parts`, `parse_exponent_overflow`; fix 9343bad) and the 64-bit integer sites all use
    `peek_error` or run after `eat_char()`. -/
theorem c09_typed_out_of_range_float_same (cfg : Machine.Cfg) (flt : Bool) (s : Schema) (h128 : s.no128 = true) (bs : Bytes)
    (i : Nat) :
    deTypedTop { cfg := cfg, src := .slice, flt := flt } s bs = .err .NumberOutOfRange i ↔
    deTypedTop { cfg := cfg, src := .reader, flt := flt } s bs = .err .NumberOutOfRange i := by
  rcases c09_typed_slice_reader_no128 cfg flt s h128 bs with h | ⟨c, j, hc, _, h1, h2⟩ | ⟨j, _, h1, h2⟩
  · rw [h]
  · have hne : c ≠ .NumberOutOfRange := PeekCode2.ne_range hc
    rw [h1, h2]
    constructor <;> intro h <;> cases h <;> exact absurd rfl hne
  · rw [h1, h2]
    constructor <;> intro h <;> cases h

/-- … in particular for the two float targets themselves -/
theorem c09_typed_f64_f32_out_of_range_same (cfg : Machine.Cfg) (flt : Bool) (bs : Bytes) (i : Nat) :
    (deTypedTop { cfg := cfg, src := .slice, flt := flt } .f64 bs = .err .NumberOutOfRange i ↔
     deTypedTop { cfg := cfg, src := .reader, flt := flt } .f64 bs = .err .NumberOutOfRange i) ∧
    (deTypedTop { cfg := cfg, src := .slice, flt := flt } .f32 bs = .err .NumberOutOfRange i ↔
     deTypedTop { cfg := cfg, src := .reader, flt := flt } .f32 bs = .err .NumberOutOfRange i) :=
  ⟨c09_typed_out_of_range_float_same cfg flt .f64 rfl bs i, c09_typed_out_of_range_float_same cfg flt .f32 rfl bs i⟩

/-- **Where the "+1" of `NumberOutOfRange` lives.** If slice and reader both report `NumberOutOfRange` but at different
    indices, the schema has an `i128` / `u128` target (the error comes from `do_deserialize_i128/u128`: the digit run does
    not fit the type and one more byte follows it), the reader's index is the slice's plus one, and the slice's index is
    that of a byte of the input (the byte in the reader's peek slot). -/
theorem c09_typed_out_of_range_shift_needs_128 (cfg : Machine.Cfg) (flt : Bool) (s : Schema) (bs : Bytes) (i j : Nat)
    (h1 : deTypedTop { cfg := cfg, src := .slice, flt := flt } s bs = .err .NumberOutOfRange i)
    (h2 : deTypedTop { cfg := cfg, src := .reader, flt := flt } s bs = .err .NumberOutOfRange j) (hij : i ≠ j) :
    s.no128 = false ∧ j = i + 1 ∧ i < bs.length := by
  refine ⟨?_, ?_⟩
  · cases h : s.no128 with
    | false => rfl
    | true =>
      have := (c09_typed_out_of_range_float_same cfg flt s h bs i).mp h1
      rw [h2] at this
      cases this
      exact absurd rfl hij
  · rcases c09_typed_slice_reader cfg flt s bs with h | ⟨c, k, _, hk, h1', h2'⟩ | ⟨k, _, h1', _⟩
    · rw [h, h2] at h1; cases h1; exact absurd rfl hij
    · rw [h1] at h1'; rw [h2] at h2'; cases h1'; cases h2'; exact ⟨rfl, hk⟩
    · rw [h1] at h1'; cases h1'

/-! ## non-vacuity, both sides (Bool tests on explicit byte lists, kernel-checked) -/

example : Schema.no128 .f64 = true ∧ Schema.no128 .f32 = true ∧ Schema.no128 (.seq .f64) = true ∧ Schema.no128 (.int .u64) = true ∧
    Schema.no128 (.map (.int .i64) .any) = true ∧ Schema.no128 (.int .u128) = false ∧ Schema.no128 (.map (.int .i128) .bool) = false := by
  decide

-- `1e999` as `f64`: the float conversion overflows, `NumberOutOfRange` at 5 (end of input) from both sources
example : Top.isErr (deTypedTop { src := .slice } .f64 [0x31, 0x65, 0x39, 0x39, 0x39]) .NumberOutOfRange 5 = true := by decide +kernel
example : Top.isErr (deTypedTop { src := .reader } .f64 [0x31, 0x65, 0x39, 0x39, 0x39]) .NumberOutOfRange 5 = true := by decide +kernel
-- `1e999 ` (a byte follows, peeked by the reader): `peek_error`, 6 from both — the case 9343bad repaired
example : Top.isErr (deTypedTop { src := .slice } .f64 [0x31, 0x65, 0x39, 0x39, 0x39, 0x20]) .NumberOutOfRange 6 = true := by decide +kernel
example : Top.isErr (deTypedTop { src := .reader } .f64 [0x31, 0x65, 0x39, 0x39, 0x39, 0x20]) .NumberOutOfRange 6 = true := by decide +kernel
-- `[1e999,2]` as `Vec<f64>`: 7 from both
example : Top.isErr (deTypedTop { src := .slice } (.seq .f64) [0x5b, 0x31, 0x65, 0x39, 0x39, 0x39, 0x2c, 0x32, 0x5d]) .NumberOutOfRange 7 = true := by
  decide +kernel
example : Top.isErr (deTypedTop { src := .reader } (.seq .f64) [0x5b, 0x31, 0x65, 0x39, 0x39, 0x39, 0x2c, 0x32, 0x5d]) .NumberOutOfRange 7 = true := by
  decide +kernel
-- `1e999 ` as `u64` (a float literal into an integer target): 6 from both
example : Top.isErr (deTypedTop { src := .slice } (.int .u64) [0x31, 0x65, 0x39, 0x39, 0x39, 0x20]) .NumberOutOfRange 6 = true := by decide +kernel
example : Top.isErr (deTypedTop { src := .reader } (.int .u64) [0x31, 0x65, 0x39, 0x39, 0x39, 0x20]) .NumberOutOfRange 6 = true := by decide +kernel

/-- `340282366920938463463374607431768211456` = 2^128, 39 digits -/
def pow128Digits : Bytes :=
  [0x33, 0x34, 0x30, 0x32, 0x38, 0x32, 0x33, 0x36, 0x36, 0x39, 0x32, 0x30, 0x39, 0x33, 0x38, 0x34, 0x36, 0x33, 0x34, 0x36,
   0x33, 0x33, 0x37, 0x34, 0x36, 0x30, 0x37, 0x34, 0x33, 0x31, 0x37, 0x36, 0x38, 0x32, 0x31, 0x31, 0x34, 0x35, 0x36]

-- the integer site: 2^128 followed by a space as `u128` — `self.error` with the space peeked: slice 39, reader 40 …
example : Top.isErr (deTypedTop { src := .slice } (.int .u128) (pow128Digits ++ [0x20])) .NumberOutOfRange 39 = true := by decide +kernel
example : Top.isErr (deTypedTop { src := .reader } (.int .u128) (pow128Digits ++ [0x20])) .NumberOutOfRange 40 = true := by decide +kernel
-- … also when the digits are the integer part of a float literal (`2^128` then `.0`): what follows the digits is not looked at
example : Top.isErr (deTypedTop { src := .slice } (.int .u128) (pow128Digits ++ [0x2e, 0x30])) .NumberOutOfRange 39 = true := by decide +kernel
example : Top.isErr (deTypedTop { src := .reader } (.int .u128) (pow128Digits ++ [0x2e, 0x30])) .NumberOutOfRange 40 = true := by decide +kernel
-- … and at the very end of the input nothing is peeked: both 39
example : Top.isErr (deTypedTop { src := .slice } (.int .u128) pow128Digits) .NumberOutOfRange 39 = true := by decide +kernel
example : Top.isErr (deTypedTop { src := .reader } (.int .u128) pow128Digits) .NumberOutOfRange 39 = true := by decide +kernel
-- the same digits as `f64` are a number (3.4e38): no error from either source
example : Top.isErr (deTypedTop { src := .reader } .f64 (pow128Digits ++ [0x20])) .NumberOutOfRange 40 = false := by decide +kernel

/-- the hypothesis `no128` of `c09_typed_out_of_range_float_same` is needed -/
theorem c09_typed_out_of_range_128_shift :
    ∃ (s : Schema) (bs : Bytes) (i : Nat), Top.isErr (deTypedTop { src := .slice } s bs) .NumberOutOfRange i = true ∧
      Top.isErr (deTypedTop { src := .reader } s bs) .NumberOutOfRange (i + 1) = true :=
  ⟨.int .u128, pow128Digits ++ [0x20], 39, by decide +kernel, by decide +kernel⟩

end SJ.Props.TypedSrc
