import SJ.Model.Stream
import SJ.Proofs.Machine
/-!
# C12 — stream iteration yields each value once with exact offsets

Theorems about `Model.Stream` (the transcription of `impl Iterator for StreamDeserializer`).
-/
namespace SJ.Props.C12
open SJ SJ.Gen SJ.Model.Machine SJ.Model.Stream SJ.Proofs.Machine

/-- once failed, `next()` is `None` and nothing changes -/
theorem next_failed (env : Env) (st : SS) (h : st.failed = true) : next env st = (.none, st) := by
  unfold next; simp [h]

/-- **C12 (fused after an error).** After the stream has failed, every later call of `next()`
    yields `None`, for any number of calls. -/
theorem c12_fused (env : Env) (k : Nat) (st : SS) (h : st.failed = true) :
    ∀ p ∈ history env k st, p.1 = Item.none := by
  induction k generalizing st with
  | zero => simp [history]
  | succ k ih =>
    intro p hp
    simp only [history] at hp
    rw [next_failed env st h] at hp
    simp only [List.mem_cons] at hp
    rcases hp with rfl | hp
    · rfl
    · exact ih st h p hp

/-- a failing value (error returned by `Deserialize::deserialize`) fails the stream -/
theorem c12_error_fails (env : Env) (st : SS) (c : Code) (idx : Nat) (st' : SS)
    (h : next env st = (.err c idx, st')) (hc : c ≠ .TrailingCharacters) : st'.failed = true := by
  unfold next at h
  split at h
  · simp at h
  · simp only at h
    split at h
    · simp at h
    · split at h
      · simp at h; exact h.2 ▸ rfl
      · repeat' split at h
        all_goals first
          | (simp at h; done)
          | (simp at h; exact absurd h.1.1.symm hc)

/-- the machine consumes input monotonically -/
theorem runPrefix_ge (env : Env) (s : St) (i : Nat) (bs : Bytes) (v : JV) (e : Nat)
    (h : runPrefix env s i bs = .ok v e) : i ≤ e := by
  induction bs generalizing s i with
  | nil => unfold runPrefix at h; split at h <;> simp at h; omega
  | cons b bs ih =>
    unfold runPrefix at h
    repeat' split at h
    all_goals first
      | (simp at h; done)
      | (simp at h; omega)
      | (have := ih _ _ h; omega)

/-- the first byte of a value (non-whitespace, from the initial state) is always consumed -/
theorem init_first_step (env : Env) (b : UInt8) : ∀ s', step1 env init b ≠ .again s' := by
  intro s' h
  unfold step1 init at h
  simp only at h
  repeat' split at h
  all_goals first
    | (simp at h; done)
    | (unfold closeArr at h; split at h <;> simp at h)
    | (unfold startValue at h; repeat' split at h
       all_goals (simp at h))

/-- **C12 (progress / termination).** A successfully read value ends strictly after the position
    where `next()` started: every `Some(Ok(_))` consumes at least one byte, so a stream over `n`
    bytes yields at most `n` values and `next()` always terminates (it is a structural recursion
    over the unread input). -/
theorem c12_progress (env : Env) (i : Nat) (b : UInt8) (bs : Bytes) (v : JV) (e : Nat)
    (h : runPrefix env init i (b :: bs) = .ok v e) : i < e := by
  unfold runPrefix at h
  split at h
  · simp at h
  · split at h
    · simp at h; omega
    · have := runPrefix_ge _ _ _ _ _ _ h; omega
  · rename_i s' hs; exact absurd hs (init_first_step env b s')

/-- errors of `runPrefix` that are Eof-classified are reported at the end of the available input -/
theorem runPrefix_eof_at_end (env : Env) (s : St) (i : Nat) (bs : Bytes) (c : Code) (idx : Nat)
    (h : runPrefix env s i bs = .err c idx) (hc : classify c = .eof) : idx = i + bs.length := by
  induction bs generalizing s i with
  | nil => unfold runPrefix at h; split at h <;> simp at h; simp; omega
  | cons b bs ih =>
    unfold runPrefix at h
    repeat' split at h
    all_goals first
      | (simp at h; done)
      | (have := ih _ _ h; simp only [List.length_cons]; omega)
      | (rename_i c' a' hs; simp at h; obtain ⟨rfl, _⟩ := h
         have := (step1_err env _ b _ _ hs).2; rw [hc] at this; cases this)
      | (simp at h; obtain ⟨rfl, _⟩ := h; cases hc)

/-- non-vacuity: `1 [2]x` yields 1 at offset 1, [2] at offset 5, an error, then None forever -/
def envS : Env := { cfg := {}, src := .slice, tgt := .value }
example : (history envS 5 (start [0x31, 0x20, 0x5b, 0x32, 0x5d, 0x78])).map (·.2) = [1, 5, 5, 5, 5] := rfl
example : ((history envS 5 (start [0x31, 0x20, 0x5b, 0x32, 0x5d, 0x78])).map fun p =>
    match p.1 with | .none => 0 | .ok _ => 1 | .err _ _ => 2) = [1, 1, 2, 0, 0] := rfl

end SJ.Props.C12
