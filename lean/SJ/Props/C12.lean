import SJ.Model.Stream
import SJ.Proofs.Machine
import SJ.Proofs.StreamValues
/-!
# C12 — stream iteration yields each value once with exact offsets

Theorems about `Model.Stream` (the transcription of `impl Iterator for StreamDeserializer`).
-/
namespace SJ.Props.C12
open SJ SJ.Gen SJ.Model.Machine SJ.Model.Stream SJ.Proofs.Machine

/-- once failed, `next()` is `None` and nothing changes -/
theorem next_failed (env : Env) (st : SS) (h : st.failed = true) : next env st = (.none, st) := by
  unfold next; simp [h]

/-- **C12 (fused after an error).** After the stream has failed, every later call of `next()`
    yields `None`, for any number of calls. -/
theorem c12_fused (env : Env) (k : Nat) (st : SS) (h : st.failed = true) :
    ∀ p ∈ history env k st, p.1 = Item.none := by
  induction k generalizing st with
  | zero => simp [history]
  | succ k ih =>
    intro p hp
    simp only [history] at hp
    rw [next_failed env st h] at hp
    simp only [List.mem_cons] at hp
    rcases hp with rfl | hp
    · rfl
    · exact ih st h p hp

/-- a failing value (error returned by `Deserialize::deserialize`) fails the stream -/
theorem c12_error_fails (env : Env) (st : SS) (c : Code) (idx : Nat) (st' : SS)
    (h : next env st = (.err c idx, st')) (hc : c ≠ .TrailingCharacters) : st'.failed = true := by
  unfold next at h
  split at h
  · simp at h
  · simp only at h
    split at h
    · simp at h
    · split at h
      · simp at h; exact h.2 ▸ rfl
      · repeat' split at h
        all_goals first
          | (simp at h; done)
          | (simp at h; exact absurd h.1.1.symm hc)

/-- the machine consumes input monotonically -/
theorem runPrefix_ge (env : Env) (s : St) (i : Nat) (bs : Bytes) (v : JV) (e : Nat)
    (h : runPrefix env s i bs = .ok v e) : i ≤ e := by
  induction bs generalizing s i with
  | nil => unfold runPrefix at h; split at h <;> simp at h; omega
  | cons b bs ih =>
    unfold runPrefix at h
    repeat' split at h
    all_goals first
      | (simp at h; done)
      | (simp at h; omega)
      | (have := ih _ _ h; omega)

/-- the first byte of a value (non-whitespace, from the initial state) is always consumed -/
theorem init_first_step (env : Env) (b : UInt8) : ∀ s', step1 env init b ≠ .again s' := by
  intro s' h
  unfold step1 init at h
  simp only at h
  repeat' split at h
  all_goals first
    | (simp at h; done)
    | (unfold closeArr at h; split at h <;> simp at h)
    | (unfold startValue at h; repeat' split at h
       all_goals (simp at h))

/-- **C12 (progress / termination).** A successfully read value ends strictly after the position
    where `next()` started: every `Some(Ok(_))` consumes at least one byte, so a stream over `n`
    bytes yields at most `n` values and `next()` always terminates (it is a structural recursion
    over the unread input). -/
theorem c12_progress (env : Env) (i : Nat) (b : UInt8) (bs : Bytes) (v : JV) (e : Nat)
    (h : runPrefix env init i (b :: bs) = .ok v e) : i < e := by
  unfold runPrefix at h
  split at h
  · simp at h
  · split at h
    · simp at h; omega
    · have := runPrefix_ge _ _ _ _ _ _ h; omega
  · rename_i s' hs; exact absurd hs (init_first_step env b s')

/-- errors of `runPrefix` that are Eof-classified are reported at the end of the available input -/
theorem runPrefix_eof_at_end (env : Env) (s : St) (i : Nat) (bs : Bytes) (c : Code) (idx : Nat)
    (h : runPrefix env s i bs = .err c idx) (hc : classify c = .eof) : idx = i + bs.length := by
  induction bs generalizing s i with
  | nil => unfold runPrefix at h; split at h <;> simp at h; simp; omega
  | cons b bs ih =>
    unfold runPrefix at h
    repeat' split at h
    all_goals first
      | (simp at h; done)
      | (have := ih _ _ h; simp only [List.length_cons]; omega)
      | (rename_i c' a' hs; simp at h; obtain ⟨rfl, _⟩ := h
         have := (step1_err env _ b _ _ hs).2; rw [hc] at this; cases this)
      | (simp at h; obtain ⟨rfl, _⟩ := h; cases hc)

/-- non-vacuity: `1 [2]x` yields 1 at offset 1, [2] at offset 5, an error, then None forever -/
def envS : Env := { cfg := {}, src := .slice, tgt := .value }
example : (history envS 5 (start [0x31, 0x20, 0x5b, 0x32, 0x5d, 0x78])).map (·.2) = [1, 5, 5, 5, 5] := rfl
example : ((history envS 5 (start [0x31, 0x20, 0x5b, 0x32, 0x5d, 0x78])).map fun p =>
    match p.1 with | .none => 0 | .ok _ => 1 | .err _ _ => 2) = [1, 1, 2, 0, 0] := rfl

/-! ## a stream of values yields exactly those values, with exact offsets

The input is `w₀ v₁ w₁ … vₙ wₙ` (`Seg` = value bytes `v`, syntax tree `t`, whitespace `w` after it):
each `vᵢ` derives `tᵢ` and meets the side conditions of its target (`Side`: none for skipped
content), each `wᵢ` is whitespace (possibly empty), and the delimiter rule of `peek_end_of_value`
holds (`DelimOK`: a bare scalar is followed by the end of input or a byte of `Gen.streamDelims`;
after `]`, `}`, `"` anything may follow, so `[1][2]` and `"a""b"` need no separator).
`expected` lists, for each value, `Some(Ok(value))` with `byte_offset()` just past it, then `None`
for every further call with `byte_offset()` past the trailing whitespace (= the input's length). -/

open SJ.Proofs.StreamValues SJ.Proofs.Complete
open SJ.Spec.Grammar (CST Ws Derives)

/-- **C12 (values and offsets).** `n + k` calls of `next()` on a well-formed stream of `n` values. -/
theorem c12_values (env : Env) (w₀ : Bytes) (segs : List Seg) (k : Nat) (hw : Ws w₀)
    (hok : StreamOK env segs) :
    ∃ vals, ResAll env segs vals ∧
      history env (segs.length + k) (start (w₀ ++ segsBytes segs)) = expected w₀.length segs vals k := by
  obtain ⟨vals, hv, hh⟩ := history_values env k segs w₀ 0 0 hw hok
  exact ⟨vals, hv, by simpa [start] using hh⟩

/-- reading `expected`: the `i`-th item is the `i`-th value, its offset is the length of the input
    up to and including that value -/
theorem c12_expected_at (env : Env) (segs : List Seg) (vals : List JV) (k base : Nat)
    (hv : ResAll env segs vals) (i : Nat) (hi : i < segs.length) :
    ∃ (h2 : i < vals.length), (expected base segs vals k)[i]? =
      some (.ok vals[i], base + (segsBytes (segs.take i)).length + segs[i].v.length) := by
  induction segs generalizing vals base i with
  | nil => simp at hi
  | cons s r ih =>
    cases vals with
    | nil => exact hv.elim
    | cons v vs =>
      cases i with
      | zero => exact ⟨by simp, by simp [expected, segsBytes]⟩
      | succ j =>
        obtain ⟨h2, hj⟩ := ih vs (base + s.v.length + s.w.length) hv.2 j (by simpa using hi)
        refine ⟨by simpa using h2, ?_⟩
        simp only [expected, List.getElem?_cons_succ, hj, List.take_succ_cons, segsBytes,
          List.length_append, List.getElem_cons_succ]
        congr 3; omega

/-- … and after the values come `k` times `None`, at the offset of the end of the input -/
theorem c12_expected_end (env : Env) (segs : List Seg) (vals : List JV) (k base : Nat)
    (hv : ResAll env segs vals) :
    (expected base segs vals k).drop segs.length =
      List.replicate k (.none, base + (segsBytes segs).length) := by
  induction segs generalizing vals base with
  | nil => simp [expected, segsBytes]
  | cons s r ih =>
    cases vals with
    | nil => exact hv.elim
    | cons v vs =>
      simp only [expected, List.length_cons, List.drop_succ_cons, ih vs _ hv.2, segsBytes,
        List.length_append]
      congr 2; omega

/-- **C12, one value** (`n = 1`): the value, its end offset, then `None` at the end of the input -/
theorem c12_values_one (env : Env) (w₀ v w₁ : Bytes) (t : CST) (k : Nat) (hw₀ : Ws w₀)
    (hd : Derives v t) (hside : Side env 0 t) (hw₁ : Ws w₁) (hdel : DelimOK v w₁) :
    ∃ val, Res env t val ∧
      history env (1 + k) (start (w₀ ++ v ++ w₁)) =
        (.ok val, w₀.length + v.length) :: List.replicate k (.none, w₀.length + v.length + w₁.length) := by
  obtain ⟨vals, hv, hh⟩ := c12_values env w₀ [⟨v, t, w₁⟩] k hw₀
    ⟨hd, hside, hw₁, by simpa [segsBytes] using hdel, trivial⟩
  cases vals with
  | nil => exact hv.elim
  | cons val vs =>
    cases vs with
    | cons _ _ => exact hv.2.elim
    | nil =>
      refine ⟨val, hv.1, ?_⟩
      simpa [segsBytes, expected] using hh

/-- the values are the denotations: for `Value` items `canonM` of the tree, for skipped items `null` -/
theorem c12_values_canon (env : Env) (henv : env.tgt = .value) (segs : List Seg) (vals : List JV)
    (hv : ResAll env segs vals) (i : Nat) (h1 : i < segs.length) (h2 : i < vals.length) :
    SJ.Proofs.CanonM.canonM env.cfg segs[i].t = some vals[i] := by
  induction segs generalizing vals i with
  | nil => simp at h1
  | cons s r ih =>
    cases vals with
    | nil => exact hv.elim
    | cons v vs =>
      cases i with
      | zero => exact hv.1.1 henv
      | succ j => exact ih vs hv.2 j (by simpa using h1) (by simpa using h2)

/-- non-vacuity: `1 [2]"x"` ↦ three values with offsets 1, 5, 8, then `None` at 8 -/
def exSegs : List Seg :=
  [⟨[0x31], .num ⟨false, [0x31], [], []⟩, [0x20]⟩,
   ⟨[0x5b, 0x32, 0x5d], .arr [.num ⟨false, [0x32], [], []⟩], []⟩,
   ⟨[0x22, 0x78, 0x22], .str [.raw 0x78], []⟩]

theorem exSegs_ok : StreamOK envS exSegs := by
  refine ⟨Derives.num ⟨false, [0x31], [], []⟩ rfl, ?_, by decide, Or.inr (Or.inr ⟨0x20, _, rfl, by decide⟩),
    ?_, ?_, by decide, Or.inl ⟨0x5b, _, rfl, by decide⟩,
    Derives.str [.raw 0x78] rfl, ?_, by decide, Or.inl ⟨0x22, _, rfl, by decide⟩, trivial⟩
  · intro _; exact ⟨Or.inr (by decide), rfl, fun _ => rfl, rfl⟩
  · have := Derives.arr [] [0x32] [] [.num ⟨false, [0x32], [], []⟩] (by decide) (by decide) (by simp)
      (.one _ _ (Derives.num ⟨false, [0x32], [], []⟩ rfl))
    simpa using this
  · intro _; exact ⟨Or.inr (by decide), rfl, fun _ => rfl, rfl⟩
  · intro _; exact ⟨Or.inr (by decide), rfl, fun _ => rfl, rfl⟩

example : ∃ vals, ResAll envS exSegs vals ∧
    history envS (3 + 2) (start [0x31, 0x20, 0x5b, 0x32, 0x5d, 0x22, 0x78, 0x22]) = expected 0 exSegs vals 2 :=
  c12_values envS [] exSegs 2 (by decide) exSegs_ok

example : (history envS 5 (start [0x31, 0x20, 0x5b, 0x32, 0x5d, 0x22, 0x78, 0x22])).map (·.2) = [1, 5, 8, 8, 8] := rfl
example : ((history envS 5 (start [0x31, 0x20, 0x5b, 0x32, 0x5d, 0x22, 0x78, 0x22])).map fun p =>
    match p.1 with | .none => 0 | .ok _ => 1 | .err _ _ => 2) = [1, 1, 1, 0, 0] := rfl

end SJ.Props.C12
