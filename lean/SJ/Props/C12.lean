import SJ.Model.Stream
import SJ.Proofs.Machine
import SJ.Proofs.StreamValues
import SJ.Proofs.StreamSyntax
/-!
# C12 — stream iteration yields each value once with exact offsets

Theorems about `Model.Stream` (the transcription of `impl Iterator for StreamDeserializer`).
-/
namespace SJ.Props.C12
open SJ SJ.Gen SJ.Model.Machine SJ.Model.Stream SJ.Proofs.Machine

/-- once failed, `next()` is `None` and nothing changes -/
theorem next_failed (env : Env) (st : SS) (h : st.failed = true) : next env st = (.none, st) := by
  unfold next; simp [h]

/-- **C12 (fused after an error).** After the stream has failed, every later call of `next()`
    yields `None`, for any number of calls. -/
theorem c12_fused (env : Env) (k : Nat) (st : SS) (h : st.failed = true) :
    ∀ p ∈ history env k st, p.1 = Item.none := by
  induction k generalizing st with
  | zero => simp [history]
  | succ k ih =>
    intro p hp
    simp only [history] at hp
    rw [next_failed env st h] at hp
    simp only [List.mem_cons] at hp
    rcases hp with rfl | hp
    · rfl
    · exact ih st h p hp

/-- a failing value (error returned by `Deserialize::deserialize`) fails the stream -/
theorem c12_error_fails (env : Env) (st : SS) (c : Code) (idx : Nat) (st' : SS)
    (h : next env st = (.err c idx, st')) (hc : c ≠ .TrailingCharacters) : st'.failed = true := by
  unfold next at h
  split at h
  · simp at h
  · simp only at h
    split at h
    · simp at h
    · split at h
      · simp at h; exact h.2 ▸ rfl
      · repeat' split at h
        all_goals first
          | (simp at h; done)
          | (simp at h; exact absurd h.1.1.symm hc)

/-- the machine consumes input monotonically -/
theorem runPrefix_ge (env : Env) (s : St) (i : Nat) (bs : Bytes) (v : JV) (e : Nat)
    (h : runPrefix env s i bs = .ok v e) : i ≤ e := by
  induction bs generalizing s i with
  | nil => unfold runPrefix at h; split at h <;> simp at h; omega
  | cons b bs ih =>
    unfold runPrefix at h
    repeat' split at h
    all_goals first
      | (simp at h; done)
      | (simp at h; omega)
      | (have := ih _ _ h; omega)

/-- the first byte of a value (non-whitespace, from the initial state) is always consumed -/
theorem init_first_step (env : Env) (b : UInt8) : ∀ s', step1 env init b ≠ .again s' := by
  intro s' h
  unfold step1 init at h
  simp only at h
  repeat' split at h
  all_goals first
    | (simp at h; done)
    | (unfold closeArr at h; split at h <;> simp at h)
    | (unfold startValue at h; repeat' split at h
       all_goals (simp at h))

/-- **C12 (progress / termination).** A successfully read value ends strictly after the position
    where `next()` started: every `Some(Ok(_))` consumes at least one byte, so a stream over `n`
    bytes yields at most `n` values and `next()` always terminates (it is a structural recursion
    over the unread input). -/
theorem c12_progress (env : Env) (i : Nat) (b : UInt8) (bs : Bytes) (v : JV) (e : Nat)
    (h : runPrefix env init i (b :: bs) = .ok v e) : i < e := by
  unfold runPrefix at h
  split at h
  · simp at h
  · split at h
    · simp at h; omega
    · have := runPrefix_ge _ _ _ _ _ _ h; omega
  · rename_i s' hs; exact absurd hs (init_first_step env b s')

/-- errors of `runPrefix` that are Eof-classified are reported at the end of the available input -/
theorem runPrefix_eof_at_end (env : Env) (s : St) (i : Nat) (bs : Bytes) (c : Code) (idx : Nat)
    (h : runPrefix env s i bs = .err c idx) (hc : classify c = .eof) : idx = i + bs.length := by
  induction bs generalizing s i with
  | nil => unfold runPrefix at h; split at h <;> simp at h; simp; omega
  | cons b bs ih =>
    unfold runPrefix at h
    repeat' split at h
    all_goals first
      | (simp at h; done)
      | (have := ih _ _ h; simp only [List.length_cons]; omega)
      | (rename_i c' a' hs; simp at h; obtain ⟨rfl, _⟩ := h
         have := (step1_err env _ b _ _ hs).2; rw [hc] at this; cases this)
      | (simp at h; obtain ⟨rfl, _⟩ := h; cases hc)

/-- non-vacuity: `1 [2]x` yields 1 at offset 1, [2] at offset 5, an error, then None forever -/
def envS : Env := { cfg := {}, src := .slice, tgt := .value }
example : (history envS 5 (start [0x31, 0x20, 0x5b, 0x32, 0x5d, 0x78])).map (·.2) = [1, 5, 5, 5, 5] := rfl
example : ((history envS 5 (start [0x31, 0x20, 0x5b, 0x32, 0x5d, 0x78])).map fun p =>
    match p.1 with | .none => 0 | .ok _ => 1 | .err _ _ => 2) = [1, 1, 2, 0, 0] := rfl

/-! ## a stream of values yields exactly those values, with exact offsets

The input is `w₀ v₁ w₁ … vₙ wₙ` (`Seg` = value bytes `v`, syntax tree `t`, whitespace `w` after it):
each `vᵢ` derives `tᵢ` and meets the side conditions of its target (`Side`: none for skipped
content), each `wᵢ` is whitespace (possibly empty), and the delimiter rule of `peek_end_of_value`
holds (`DelimOK`: a bare scalar is followed by the end of input or a byte of `Gen.streamDelims`;
after `]`, `}`, `"` anything may follow, so `[1][2]` and `"a""b"` need no separator).
`expected` lists, for each value, `Some(Ok(value))` with `byte_offset()` just past it, then `None`
for every further call with `byte_offset()` past the trailing whitespace (= the input's length). -/

open SJ.Proofs.StreamValues SJ.Proofs.Complete
open SJ.Spec.Grammar (CST Ws Derives)

/-- **C12 (values and offsets).** `n + k` calls of `next()` on a well-formed stream of `n` values. -/
theorem c12_values (env : Env) (w₀ : Bytes) (segs : List Seg) (k : Nat) (hw : Ws w₀)
    (hok : StreamOK env segs) :
    ∃ vals, ResAll env segs vals ∧
      history env (segs.length + k) (start (w₀ ++ segsBytes segs)) = expected w₀.length segs vals k := by
  obtain ⟨vals, hv, hh⟩ := history_values env k segs w₀ 0 0 hw hok
  exact ⟨vals, hv, by simpa [start] using hh⟩

/-- reading `expected`: the `i`-th item is the `i`-th value, its offset is the length of the input
    up to and including that value -/
theorem c12_expected_at (env : Env) (segs : List Seg) (vals : List JV) (k base : Nat)
    (hv : ResAll env segs vals) (i : Nat) (hi : i < segs.length) :
    ∃ (h2 : i < vals.length), (expected base segs vals k)[i]? =
      some (.ok vals[i], base + (segsBytes (segs.take i)).length + segs[i].v.length) := by
  induction segs generalizing vals base i with
  | nil => simp at hi
  | cons s r ih =>
    cases vals with
    | nil => exact hv.elim
    | cons v vs =>
      cases i with
      | zero => exact ⟨by simp, by simp [expected, segsBytes]⟩
      | succ j =>
        obtain ⟨h2, hj⟩ := ih vs (base + s.v.length + s.w.length) hv.2 j (by simpa using hi)
        refine ⟨by simpa using h2, ?_⟩
        simp only [expected, List.getElem?_cons_succ, hj, List.take_succ_cons, segsBytes,
          List.length_append, List.getElem_cons_succ]
        congr 3; omega

/-- … and after the values come `k` times `None`, at the offset of the end of the input -/
theorem c12_expected_end (env : Env) (segs : List Seg) (vals : List JV) (k base : Nat)
    (hv : ResAll env segs vals) :
    (expected base segs vals k).drop segs.length =
      List.replicate k (.none, base + (segsBytes segs).length) := by
  induction segs generalizing vals base with
  | nil => simp [expected, segsBytes]
  | cons s r ih =>
    cases vals with
    | nil => exact hv.elim
    | cons v vs =>
      simp only [expected, List.length_cons, List.drop_succ_cons, ih vs _ hv.2, segsBytes,
        List.length_append]
      congr 2; omega

/-- **C12, one value** (`n = 1`): the value, its end offset, then `None` at the end of the input -/
theorem c12_values_one (env : Env) (w₀ v w₁ : Bytes) (t : CST) (k : Nat) (hw₀ : Ws w₀)
    (hd : Derives v t) (hside : Side env 0 t) (hw₁ : Ws w₁) (hdel : DelimOK v w₁) :
    ∃ val, Res env t val ∧
      history env (1 + k) (start (w₀ ++ v ++ w₁)) =
        (.ok val, w₀.length + v.length) :: List.replicate k (.none, w₀.length + v.length + w₁.length) := by
  obtain ⟨vals, hv, hh⟩ := c12_values env w₀ [⟨v, t, w₁⟩] k hw₀
    ⟨hd, hside, hw₁, by simpa [segsBytes] using hdel, trivial⟩
  cases vals with
  | nil => exact hv.elim
  | cons val vs =>
    cases vs with
    | cons _ _ => exact hv.2.elim
    | nil =>
      refine ⟨val, hv.1, ?_⟩
      simpa [segsBytes, expected] using hh

/-- the values are the denotations: for `Value` items `canonM` of the tree, for skipped items `null` -/
theorem c12_values_canon (env : Env) (henv : env.tgt = .value) (segs : List Seg) (vals : List JV)
    (hv : ResAll env segs vals) (i : Nat) (h1 : i < segs.length) (h2 : i < vals.length) :
    SJ.Proofs.CanonM.canonM env.cfg segs[i].t = some vals[i] := by
  induction segs generalizing vals i with
  | nil => simp at h1
  | cons s r ih =>
    cases vals with
    | nil => exact hv.elim
    | cons v vs =>
      cases i with
      | zero => exact hv.1.1 henv
      | succ j => exact ih vs hv.2 j (by simpa using h1) (by simpa using h2)

/-- non-vacuity: `1 [2]"x"` ↦ three values with offsets 1, 5, 8, then `None` at 8 -/
def exSegs : List Seg :=
  [⟨[0x31], .num ⟨false, [0x31], [], []⟩, [0x20]⟩,
   ⟨[0x5b, 0x32, 0x5d], .arr [.num ⟨false, [0x32], [], []⟩], []⟩,
   ⟨[0x22, 0x78, 0x22], .str [.raw 0x78], []⟩]

theorem exSegs_ok : StreamOK envS exSegs := by
  refine ⟨Derives.num ⟨false, [0x31], [], []⟩ rfl, ?_, by decide, Or.inr (Or.inr ⟨0x20, _, rfl, by decide⟩),
    ?_, ?_, by decide, Or.inl ⟨0x5b, _, rfl, by decide⟩,
    Derives.str [.raw 0x78] rfl, ?_, by decide, Or.inl ⟨0x22, _, rfl, by decide⟩, trivial⟩
  · intro _; exact ⟨Or.inr (by decide), rfl, fun _ => rfl, rfl⟩
  · have := Derives.arr [] [0x32] [] [.num ⟨false, [0x32], [], []⟩] (by decide) (by decide) (by simp)
      (.one _ _ (Derives.num ⟨false, [0x32], [], []⟩ rfl))
    simpa using this
  · intro _; exact ⟨Or.inr (by decide), rfl, fun _ => rfl, rfl⟩
  · intro _; exact ⟨Or.inr (by decide), rfl, fun _ => rfl, rfl⟩

example : ∃ vals, ResAll envS exSegs vals ∧
    history envS (3 + 2) (start [0x31, 0x20, 0x5b, 0x32, 0x5d, 0x22, 0x78, 0x22]) = expected 0 exSegs vals 2 :=
  c12_values envS [] exSegs 2 (by decide) exSegs_ok

example : (history envS 5 (start [0x31, 0x20, 0x5b, 0x32, 0x5d, 0x22, 0x78, 0x22])).map (·.2) = [1, 5, 8, 8, 8] := rfl
example : ((history envS 5 (start [0x31, 0x20, 0x5b, 0x32, 0x5d, 0x22, 0x78, 0x22])).map fun p =>
    match p.1 with | .none => 0 | .ok _ => 1 | .err _ _ => 2) = [1, 1, 1, 0, 0] := rfl


/-! ## "Eof whenever the rest of the input is a proper prefix of a value, Syntax otherwise"

The Eof direction (a proper prefix of an accepted stream item fails with an Eof-classified error at the end of the
input) is C10's stream-prefix theorem. Here is the converse, at the level of the RFC 8259 grammar and without any
hypothesis on the state, for `Value` and `IgnoredAny` items, every source and configuration:

* `c12_eof_proper_prefix`: an item that is an Eof-classified error — the rest of the input `r` at that item (after
  the whitespace `next()` skips) is a proper prefix of a value: `r ++ ys` derives a value for some non-empty `ys`. One
  qualification, stated by the property itself ("a \u escape cut off by the end of input counts as truncation"): when
  `r` ends inside the four bytes after `\u` — which are not looked at before all four are there — this holds of `r`
  minus those `k ≤ 3` bytes.
* `c12_syntax_otherwise`: so if `r` is NOT a proper prefix of any value (and does not end inside a `\u` group), the item's
  error is Syntax-classified. (A complete value never yields an Eof error either: it is the value, or
  `TrailingCharacters` from `peek_end_of_value`, which is Syntax-classified.)

Proof: an Eof-classified error of `runPrefix` comes from `finish` after every byte was consumed; the scanner of skipped
content — which accepts exactly the grammar — consumes the same bytes and fails at the end too (`Proofs/EarliestSim`),
and every one of its states has an explicit completion (`Proofs/Earliest*`, `Proofs/EofViable`). -/

open SJ.Proofs.StreamSyntax in
/-- **C12 (Eof ⇒ proper prefix of a value).** -/
theorem c12_eof_proper_prefix (env : Env) (st : SS) (c : Code) (idx : Nat) (st' : SS)
    (h : next env st = (.err c idx, st')) (hc : classify c = .eof) :
    ∃ k ys t, (k = 0 ∨ (0 < k ∧ k ≤ 3 ∧ ∃ x, (skipWs st.rest st.pos).1.take ((skipWs st.rest st.pos).1.length - k) =
          x ++ [0x5c, 0x75])) ∧
      k ≤ (skipWs st.rest st.pos).1.length ∧ ys ≠ [] ∧
      Spec.Grammar.Derives ((skipWs st.rest st.pos).1.take ((skipWs st.rest st.pos).1.length - k) ++ ys) t := by
  unfold next at h
  split at h
  · cases h
  · simp only at h
    cases hsk : skipWs st.rest st.pos with
    | mk r p =>
      rw [hsk] at h
      simp only at h
      cases r with
      | nil => cases h
      | cons b r0 =>
        simp only at h
        have hb := skipWs_head _ _ _ _ _ hsk
        cases hr : runPrefix env init p (b :: r0) with
        | err c' idx' =>
          rw [hr] at h
          simp only [Prod.mk.injEq, Item.err.injEq] at h
          obtain ⟨⟨rfl, rfl⟩, _⟩ := h
          exact item_eof_prefix env b r0 p c' idx' hb hr hc
        | ok v e =>
          exfalso
          rw [hr] at h
          simp only at h
          repeat' split at h
          all_goals first
            | (cases h; done)
            | (simp only [Prod.mk.injEq, Item.err.injEq] at h
               rw [← h.1.1] at hc; cases hc)

/-- every code is Syntax- or Eof-classified (`Io` and `Data` errors carry no `ErrorCode` of this list) -/
theorem classify_syntax_or_eof (c : Code) : classify c = .syntax ∨ classify c = .eof := by
  cases c <;> simp [classify]

/-- **C12 (Syntax otherwise).** If the rest of the input at an item is not a proper prefix of any value — no non-empty
    continuation of it derives a value — and does not end inside the four bytes after a `\u`, then an error yielded for
    that item is Syntax-classified. -/
theorem c12_syntax_otherwise (env : Env) (st : SS) (c : Code) (idx : Nat) (st' : SS)
    (h : next env st = (.err c idx, st'))
    (hnp : ¬ ∃ ys t, ys ≠ [] ∧ Spec.Grammar.Derives ((skipWs st.rest st.pos).1 ++ ys) t)
    (hnu : ∀ x d, (skipWs st.rest st.pos).1 = x ++ [0x5c, 0x75] ++ d → d = [] ∨ 3 < d.length) :
    classify c = .syntax := by
  rcases classify_syntax_or_eof c with hs | he
  · exact hs
  · exfalso
    obtain ⟨k, ys, t, hk, hle, hne, hd⟩ := c12_eof_proper_prefix env st c idx st' h he
    rcases hk with rfl | ⟨h1, h2, x, hx⟩
    · exact hnp ⟨ys, t, hne, by simpa using hd⟩
    · have hsplit : (skipWs st.rest st.pos).1 =
          x ++ [0x5c, 0x75] ++ (skipWs st.rest st.pos).1.drop ((skipWs st.rest st.pos).1.length - k) := by
        rw [← hx, List.take_append_drop]
      rcases hnu x _ hsplit with h0 | h0
      · have := congrArg List.length h0; simp at this; omega
      · simp at h0; omega

/-! non-vacuity: after `1 ` the rest `[2,` is an Eof error (it continues with `null]`), the rest `[2,]` a Syntax error
    (`TrailingComma`: no continuation derives), and `"\uZ` — cut inside the group — is Eof although the group is bad -/
example : (next envS (start [0x5b, 0x32, 0x2c])).1 matches .err .EofWhileParsingValue 3 := rfl
example : ∃ k ys t, (k = 0 ∨ (0 < k ∧ k ≤ 3 ∧ ∃ x,
      (skipWs (start [0x5b, 0x32, 0x2c]).rest 0).1.take ((skipWs (start [0x5b, 0x32, 0x2c]).rest 0).1.length - k) =
        x ++ [0x5c, 0x75])) ∧
    k ≤ (skipWs (start [0x5b, 0x32, 0x2c]).rest 0).1.length ∧ ys ≠ [] ∧
    Spec.Grammar.Derives ((skipWs (start [0x5b, 0x32, 0x2c]).rest 0).1.take
      ((skipWs (start [0x5b, 0x32, 0x2c]).rest 0).1.length - k) ++ ys) t :=
  c12_eof_proper_prefix envS (start [0x5b, 0x32, 0x2c]) .EofWhileParsingValue 3 _ rfl rfl
example : (next envS (start [0x5b, 0x32, 0x2c, 0x5d])).1 matches .err .TrailingComma 4 := rfl
example : (next envS (start [0x22, 0x5c, 0x75, 0x5a])).1 matches .err .EofWhileParsingString 4 := rfl

/-- `[2,]`: no continuation derives a value (the scanner of skipped content fails at `]`: `dead_grammar_core`), so the item is
    Syntax-classified by the theorem -/
example : classify .TrailingComma = .syntax := by
  have hsk : (skipWs (start [0x5b, 0x32, 0x2c, 0x5d]).rest (start [0x5b, 0x32, 0x2c, 0x5d]).pos).1 =
      [0x5b, 0x32, 0x2c, 0x5d] := rfl
  refine c12_syntax_otherwise envS (start [0x5b, 0x32, 0x2c, 0x5d]) .TrailingComma 4 _ rfl ?_ ?_
  · rw [hsk]
    rintro ⟨ys, t, _, hd⟩
    have hdead := SJ.Proofs.EarliestGrammar.dead_grammar_core envS [0x5b, 0x32, 0x2c] 0x5d
      ⟨.val .arrNext, [.arr [.num (.pos 2)]]⟩ .TrailingComma .incl rfl rfl rfl ys t
    exact hdead ⟨[], _, [], by simp, by decide, by decide, hd⟩
  · rw [hsk]
    intro x d hd
    exfalso
    rcases x with _ | ⟨x0, _ | ⟨x1, _ | ⟨x2, _ | ⟨x3, x4⟩⟩⟩⟩ <;> simp at hd

end SJ.Props.C12
