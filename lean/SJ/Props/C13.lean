import SJ.Model.IoFault
import SJ.Proofs.Machine
import SJ.Proofs.SerUtf8
import SJ.Proofs.Write
import SJ.Proofs.WriteBudget
import SJ.Proofs.WriteTrace
import SJ.Gen.Write
/-!
# C13 — I/O failures surface as Io errors and never corrupt results
-/
namespace SJ.Props.C13
open SJ SJ.Gen SJ.Model.Machine SJ.Model.IoFault SJ.Proofs.Machine
open SJ.Model.Ser (serCompact serPretty)
open SJ.Spec.Program (SVal Ext ExtOK)

/-- **C13 (reader).** With a reader that fails after delivering `bs`, the result is `Io` exactly
    when no delivered byte is rejected; otherwise it is the very error (code and position) that
    the same bytes produce from any source — never a value, never another classification. -/
theorem c13_read (env : Env) (bs : Bytes) :
    parseFault env bs = match feed env init 0 bs with
      | .ok _ => .io
      | .error (c, j) => .err c j := by
  unfold parseFault
  suffices h : ∀ s i, runFault env s i bs = match feed env s i bs with
      | .ok _ => .io
      | .error (c, j) => .err c j from h init 0
  induction bs with
  | nil => intro s i; rfl
  | cons b bs ih =>
    intro s i
    simp only [runFault, feed]
    cases h : step env s b with
    | ok s' => exact ih s' (i + 1)
    | error e => obtain ⟨c, a⟩ := e; rfl

/-- the error that pre-empts the fault is Syntax-classified (it is a real defect of the delivered
    bytes: those bytes are dead, cf. `c11_dead`), never `Eof` and never a value -/
theorem c13_read_error_class (env : Env) (bs : Bytes) (c : Code) (idx : Nat)
    (h : parseFault env bs = .err c idx) : classify c = .syntax ∧ idx ≤ bs.length := by
  rw [c13_read] at h
  cases hf : feed env init 0 bs with
  | ok p => rw [hf] at h; cases h
  | error e =>
    obtain ⟨c', j⟩ := e; rw [hf] at h; simp at h; obtain ⟨rfl, rfl⟩ := h
    have h1 := feed_err_idx env init 0 bs c' j hf
    refine ⟨?_, by omega⟩
    -- errors raised by `feed` come from `step`
    have key : ∀ (xs : Bytes) (s : St) (i : Nat), feed env s i xs = .error (c', j) → classify c' = .syntax := by
      intro xs
      induction xs with
      | nil => intro s i h; simp [feed] at h
      | cons b bs ih =>
        intro s i h
        simp only [feed] at h
        cases hs : step env s b with
        | ok s' => rw [hs] at h; exact ih _ _ h
        | error e => obtain ⟨c2, a⟩ := e; rw [hs] at h; simp at h; exact h.1 ▸ (step_err env s b c2 a hs).2
    exact key bs init 0 hf

/-- (Lemma about the *definition* `Model.IoFault.writeFault`, which IS `take m` of the concatenated buffers — true by
    unfolding, not a statement about `write_all` or the serializer. The writer clause of C13 is carried by
    `c13_write_all_spec`, `c13_writer_prefix`, `c13_writer_ok_iff`, `c13_writer_vec` below, over `Model.Write`; that a
    writer with a byte budget realises `writeFault` is `c13_writer_budget`.) -/
theorem c13_write_prefix (bufs : List Bytes) (m : Nat) :
    (writeFault bufs m).1 = (bufs.flatten).take m ∧
    ((writeFault bufs m).2 = true ↔ m < bufs.flatten.length) := by
  simp [writeFault]

/-- (likewise definitional) -/
theorem c13_write_is_prefix (bufs : List Bytes) (m : Nat) :
    (writeFault bufs m).1 <+: bufs.flatten := by
  simp [writeFault, List.take_prefix]

/-- **C13 (writer, UTF-8).** What reaches the writer, call by call: for a program whose strings are
    UTF-8 (`SVal.utf8OK`: what Rust's types guarantee) and either formatter (pretty: a UTF-8 indent
    string), every buffer passed to `write_all` is valid UTF-8 on its own — so a writer that requires
    UTF-8 per call (`fmt::Write` adapters, `String`-backed writers using `from_utf8`) never sees a
    split multi-byte sequence — and if the writer fails after accepting some number `n` of whole
    buffers, what it holds is valid UTF-8. (Restatement of C03's `c03_utf8` on the writer side.) -/
theorem c13_buffers_utf8 (ext : Ext) (hext : ExtOK ext) (p : SVal) (hu : p.utf8OK = true) (bufs : List Bytes)
    (h : serCompact ext p = .ok bufs ∨
      ∃ indent, Spec.Utf8.validUtf8 indent = true ∧ serPretty ext indent p = .ok bufs) :
    (∀ b ∈ bufs, Spec.Utf8.validUtf8 b = true) ∧
    (∀ n, Spec.Utf8.validUtf8 (bufs.take n).flatten = true) := by
  have hall : Proofs.SerUtf8.AllV bufs := by
    rcases h with h | ⟨indent, hi, h⟩
    · unfold serCompact at h
      cases hr : Model.Ser.ser ext .compact p Model.Ser.FState.init with
      | error e => simp [hr, Except.map] at h
      | ok r =>
        have : r.bufs = bufs := by simpa [hr, Except.map] using h
        rw [← this]; exact Proofs.SerUtf8.ser_utf8 ext hext .compact trivial p _ r hu hr
    · unfold serPretty at h
      cases hr : Model.Ser.ser ext (.pretty indent) p Model.Ser.FState.init with
      | error e => simp [hr, Except.map] at h
      | ok r =>
        have : r.bufs = bufs := by simpa [hr, Except.map] using h
        rw [← this]; exact Proofs.SerUtf8.ser_utf8 ext hext (.pretty indent) hi p _ r hu hr
  exact ⟨hall, fun n => Proofs.SerUtf8.allV_flatten fun b hb => hall b (List.mem_of_mem_take hb)⟩

/-- `["é\"é"]` with real `itoa`: the buffers are `[`, `"`, `é`, `\"`, `é`, `"`, `]` — the string is cut at
    the escaped quote only; a fault after 3 whole buffers leaves `["é` -/
def extI : Ext := { itoa := Spec.Number.decimal, ryu64 := fun _ => [0x30], ryu32 := fun _ => [0x30] }
theorem extI_ok : ExtOK extI :=
  ⟨fun _ => rfl, fun _ _ => ⟨⟨false, [0x30], [], []⟩, rfl, rfl⟩, fun _ _ => ⟨⟨false, [0x30], [], []⟩, rfl, rfl⟩⟩

example : serCompact extI (.seq none [.str [0xc3, 0xa9, 0x22, 0xc3, 0xa9]])
      = .ok [[0x5b], [0x22], [0xc3, 0xa9], [0x5c, 0x22], [0xc3, 0xa9], [0x22], [0x5d]] ∧
    (SVal.seq none [.str [0xc3, 0xa9, 0x22, 0xc3, 0xa9]]).utf8OK = true := ⟨rfl, rfl⟩

example : Spec.Utf8.validUtf8 (([[0x5b], [0x22], [0xc3, 0xa9], [0x5c, 0x22], [0xc3, 0xa9], [0x22], [0x5d]] : List Bytes).take 3).flatten = true :=
  (c13_buffers_utf8 extI extI_ok (.seq none [.str [0xc3, 0xa9, 0x22, 0xc3, 0xa9]]) rfl _ (.inl rfl)).2 3

/-- a fault in the middle of a buffer (`m` bytes) can of course split `é` -/
example : (writeFault [[0x5b], [0x22], [0xc3, 0xa9]] 3).1 = [0x5b, 0x22, 0xc3] ∧
    Spec.Utf8.validUtf8 [0x5b, 0x22, 0xc3] = false := ⟨rfl, by decide⟩

/-- non-vacuity: `[1,]` then a fault: the trailing comma is reported, not Io; `[1,` then a fault: Io -/
def envR : Env := { cfg := {}, src := .reader, tgt := .value }
example : parseFault envR [0x5b, 0x31, 0x2c, 0x5d] = .err .TrailingComma 4 := rfl
example : parseFault envR [0x5b, 0x31, 0x2c] = .io := rfl

end SJ.Props.C13

namespace SJ.Props.C13
open SJ.Gen
/-- **C13 (`impl From<serde_json::Error> for io::Error`).** As regenerated from `src/error.rs` on every run: converting an
    error back into an `io::Error` returns the wrapped `io::Error` itself for the `Io` category (so the reader's or writer's
    own `ErrorKind` survives the round trip through `serde_json::Error`), `InvalidData` for `Syntax` and `Data`, and
    `UnexpectedEof` for `Eof`. A change of any arm changes a generated constant and breaks this theorem. -/
theorem c13_into_io_error :
    intoIoKeepsInner = true ∧
    intoIoKind .syntax = some [0x49, 0x6e, 0x76, 0x61, 0x6c, 0x69, 0x64, 0x44, 0x61, 0x74, 0x61] ∧   -- "InvalidData"
    intoIoKind .data = some [0x49, 0x6e, 0x76, 0x61, 0x6c, 0x69, 0x64, 0x44, 0x61, 0x74, 0x61] ∧
    intoIoKind .eof = some [0x55, 0x6e, 0x65, 0x78, 0x70, 0x65, 0x63, 0x74, 0x65, 0x64, 0x45, 0x6f, 0x66] ∧   -- "UnexpectedEof"
    intoIoKind .io = none := by
  exact ⟨rfl, rfl, rfl, rfl, rfl⟩
end SJ.Props.C13

namespace SJ.Props.C13
open SJ SJ.Model.Ser SJ.Model.Write SJ.Proofs.Write
open SJ.Model.IoFault (writeFault)

/-- **C13 (writer: `write_all`).** For every writer — any policy answering each `write(buf)` with a short write,
    `Ok(0)`, `Interrupted` or an error, as a function of the whole call history — and every bound `fuel` on the number of
    `write` calls watched, `write_all(buf)` (std's loop, `Model.Write.writeLoop`):

    * leaves the writer holding what it held plus `buf.take k`, the new `write` calls `new` are a run against the
      policy (`Run`), and no call but the last is fatal (`Ok(0)`, `Ok(n)` with `n > len`, a non-`Interrupted` error);
    * returns `Ok(())` exactly when it has delivered the whole buffer (`k = buf.length`) without a fatal answer;
    * returns `Err(e)` only after delivering a proper prefix (`k < buf.length`), when the last call was fatal: `e` is
      the very error of that call, or `WRITE_ALL_EOF` (kind `WriteZero`) if that call answered `Ok(0)`;
      `Interrupted` never surfaces (`e.isInterrupted = false`) — such calls are simply repeated with the same buffer;
    * is still looping after `fuel` calls (`hang`) only with `k < buf.length`, no fatal answer, and `fuel` calls made;
    * panics (`&buf[n..]`) only if the last call broke the contract `n ≤ buf.len()`. -/
theorem c13_write_all_spec (fuel : Nat) (w : Writer) (buf : Bytes) :
    ∃ k new, k ≤ buf.length ∧
      (w.writeAll fuel buf).1.accepted = w.accepted ++ buf.take k ∧
      (w.writeAll fuel buf).1.log = w.log ++ new ∧ (w.writeAll fuel buf).1.policy = w.policy ∧
      Run w.policy w.log new ∧ NoFatal new.dropLast ∧
      match (w.writeAll fuel buf).2 with
      | .ok => k = buf.length ∧ NoFatal new
      | .err e => k < buf.length ∧ e.isInterrupted = false ∧
          ∃ c, new.getLast? = some c ∧ ((c.res = .ok 0 ∧ e = writeAllEof) ∨ c.res = .err e)
      | .hang => k < buf.length ∧ NoFatal new ∧ fuel ≤ new.length
      | .panic => ∃ c n, new.getLast? = some c ∧ c.res = .ok n ∧ c.buf.length < n := by
  obtain ⟨bytes, new, he, hp, hpost, _⟩ := writeAll_spec fuel w buf
  have hk : bytes = buf.take bytes.length := List.prefix_iff_eq_take.1 hp
  have hle : bytes.length ≤ buf.length := hp.length_le
  refine ⟨bytes.length, new, hle, by rw [he.acc, ← hk], he.log, he.pol, he.run, ?_, ?_⟩
  · cases ho : (w.writeAll fuel buf).2 with
    | ok => rw [ho] at hpost; exact fun c hc => hpost.2 c (List.dropLast_subset _ hc)
    | hang => rw [ho] at hpost; exact fun c hc => hpost.2.1 c (List.dropLast_subset _ hc)
    | err e =>
      rw [ho] at hpost; obtain ⟨_, pre, c, hnew, hpre, _⟩ := hpost
      rw [hnew, List.dropLast_concat]; exact hpre
    | panic =>
      rw [ho] at hpost; obtain ⟨pre, c, n, hnew, hpre, _⟩ := hpost
      rw [hnew, List.dropLast_concat]; exact hpre
  · cases ho : (w.writeAll fuel buf).2 with
    | ok => rw [ho] at hpost; exact ⟨by rw [hpost.1], hpost.2⟩
    | hang => rw [ho] at hpost; exact hpost
    | err e =>
      rw [ho] at hpost; obtain ⟨hl, pre, c, hnew, _, hc⟩ := hpost
      refine ⟨hl, ?_, c, by rw [hnew]; simp, ?_⟩
      · rcases hc with ⟨_, rfl⟩ | ⟨_, h⟩
        · rfl
        · exact h
      · rcases hc with h | ⟨h, _⟩
        · exact .inl h
        · exact .inr h
    | panic =>
      rw [ho] at hpost; obtain ⟨pre, c, n, hnew, _, hc⟩ := hpost
      exact ⟨c, n, by rw [hnew]; simp, hc⟩

/-- **C13 (writer).** For every program `p` that serialises (`ser … = .ok r`: the buffers `r.bufs`, whose
    concatenation is the fault-free output — `c13_writer_vec`), either formatter, every writer (any policy) and every
    `fuel`, `to_writer` (`Model.Write.toWriter`) ends with a writer that holds what it held plus `bytes`, where

    * `bytes` is a prefix of the fault-free output, whatever happened;
    * the new `write` calls are a run against the policy, and **no `write` call is made after the first fatal
      answer** (`NoFatal new.dropLast`);
    * the buffers handed to `write_all` are the first `j` buffers of the serializer, in order, and all of the first
      `j - 1` were delivered whole;
    * the result is `Ok(())` iff no answer was fatal, and then everything was accepted (`bytes` = the whole output);
    * the result is `Err(Error::io(e))` (category `Io`) only if a proper prefix was accepted, where `e` is the very
      error the policy returned in the last call — kind and payload: `Error::io` keeps it and `io::Error::from` gives it
      back (`Res.intoIo`, from the regenerated `Gen.intoIoKeepsInner`, cf. `c13_into_io_error`) — or `WRITE_ALL_EOF`
      (kind `WriteZero`) if that call answered `Ok(0)`; never `Interrupted`;
    * `hang` / `panic` as in `c13_write_all_spec` (a writer answering `Interrupted` for ever; a writer claiming more
      than it was offered). -/
theorem c13_writer_prefix (fuel : Nat) (ext : Ext) (fmt : Fmt) (p : SVal) (w : Writer) (r : W)
    (h : ser ext fmt p FState.init = .ok r) :
    ∃ w' res, toWriter fuel ext fmt p w = .ok (w', res) ∧
      ∃ bytes new j, w'.accepted = w.accepted ++ bytes ∧ bytes <+: r.bufs.flatten ∧
        w'.log = w.log ++ new ∧ w'.policy = w.policy ∧ Run w.policy w.log new ∧ NoFatal new.dropLast ∧
        w'.handed = w.handed ++ r.bufs.take j ∧ (r.bufs.take (j - 1)).flatten <+: bytes ∧
        match res with
        | .ok => bytes = r.bufs.flatten ∧ NoFatal new ∧ r.bufs.length ≤ j
        | .io e => bytes.length < r.bufs.flatten.length ∧ e.isInterrupted = false ∧ res.intoIo = some e ∧
            ∃ c, new.getLast? = some c ∧ ((c.res = .ok 0 ∧ e = writeAllEof) ∨ c.res = .err e)
        | .hang => bytes.length < r.bufs.flatten.length ∧ NoFatal new ∧ fuel ≤ new.length
        | .panic => ∃ c n, new.getLast? = some c ∧ c.res = .ok n ∧ c.buf.length < n := by
  obtain ⟨bytes, new, j, he, hp, hpost, hh, hj1, hj2⟩ := runBufs_spec fuel r.bufs w
  refine ⟨(w.runBufs fuel r.bufs).1, Res.ofOut (w.runBufs fuel r.bufs).2, by simp [toWriter, h], bytes, new, j,
    he.acc, hp, he.log, he.pol, he.run, ?_, hh, ?_, ?_⟩
  · cases ho : (w.runBufs fuel r.bufs).2 with
    | ok => rw [ho] at hpost; exact fun c hc => hpost.2 c (List.dropLast_subset _ hc)
    | hang => rw [ho] at hpost; exact fun c hc => hpost.2.1 c (List.dropLast_subset _ hc)
    | err e =>
      rw [ho] at hpost; obtain ⟨_, pre, c, hnew, hpre, _⟩ := hpost
      rw [hnew, List.dropLast_concat]; exact hpre
    | panic =>
      rw [ho] at hpost; obtain ⟨pre, c, n, hnew, hpre, _⟩ := hpost
      rw [hnew, List.dropLast_concat]; exact hpre
  · by_cases ho : (w.runBufs fuel r.bufs).2 = .ok
    · rw [ho] at hpost
      rw [hpost.1]
      conv => rhs; rw [← List.take_append_drop (j - 1) r.bufs]
      rw [List.flatten_append]; exact List.prefix_append _ _
    · exact (hj2 ho).2.2
  · cases ho : (w.runBufs fuel r.bufs).2 with
    | ok => rw [ho] at hpost; exact ⟨hpost.1, hpost.2, hj1 ho⟩
    | hang => rw [ho] at hpost; exact hpost
    | err e =>
      rw [ho] at hpost; obtain ⟨hl, pre, c, hnew, _, hc⟩ := hpost
      have hi : e.isInterrupted = false := by
        rcases hc with ⟨_, rfl⟩ | ⟨_, h⟩
        · rfl
        · exact h
      refine ⟨hl, hi, rfl, c, by rw [hnew]; simp, ?_⟩
      rcases hc with h | ⟨h, _⟩
      · exact .inl h
      · exact .inr h
    | panic =>
      rw [ho] at hpost; obtain ⟨pre, c, n, hnew, _, hc⟩ := hpost
      exact ⟨c, n, by rw [hnew]; simp, hc⟩

/-- **C13 (writer): what the result says about the bytes.** With a writer that keeps the contract of `write`
    (`Ok(n)` only with `n ≤ buf.len()`), `to_writer` never panics, and its result is `Ok(())` **iff** the writer
    accepted the whole fault-free output; otherwise (an `Io` error, or an endless `Interrupted` loop) it accepted a
    proper prefix. -/
theorem c13_writer_ok_iff (fuel : Nat) (ext : Ext) (fmt : Fmt) (p : SVal) (w : Writer) (r : W)
    (h : ser ext fmt p FState.init = .ok r) (hw : ∀ log buf n, w.policy log buf = .ok n → n ≤ buf.length) :
    ∃ w' res bytes, toWriter fuel ext fmt p w = .ok (w', res) ∧ w'.accepted = w.accepted ++ bytes ∧
      bytes <+: r.bufs.flatten ∧ res ≠ .panic ∧ (res = .ok ↔ bytes = r.bufs.flatten) := by
  obtain ⟨w', res, ht, bytes, new, j, hacc, hp, hlog, _, hrun, _, _, _, hm⟩ := c13_writer_prefix fuel ext fmt p w r h
  -- every call of a run against a contract-keeping policy keeps the contract
  have hrun' : ∀ (cs log0 : List Call), Run w.policy log0 cs → ∀ c ∈ cs, ∀ n, c.res = .ok n → n ≤ c.buf.length := by
    intro cs
    induction cs with
    | nil => intro _ _ c hc; cases hc
    | cons d ds ih =>
      intro log0 hr c hc n hn
      rcases List.mem_cons.1 hc with rfl | hc
      · exact hw log0 c.buf n (by rw [← hr.1, hn])
      · exact ih _ hr.2 c hc n hn
  refine ⟨w', res, bytes, ht, hacc, hp, ?_, ?_⟩
  · intro hres; rw [hres] at hm
    obtain ⟨c, n, hl, hc, hlt⟩ := hm
    have := hrun' new w.log hrun c (List.mem_of_getLast? hl) n hc
    omega
  · cases res with
    | ok => exact ⟨fun _ => hm.1, fun _ => rfl⟩
    | io e => exact ⟨fun h => (by cases h), fun hb => (by rw [hb] at hm; exact absurd hm.1 (Nat.lt_irrefl _))⟩
    | hang => exact ⟨fun h => (by cases h), fun hb => (by rw [hb] at hm; exact absurd hm.1 (Nat.lt_irrefl _))⟩
    | panic =>
      obtain ⟨c, n, hl, hc, hlt⟩ := hm
      have := hrun' new w.log hrun c (List.mem_of_getLast? hl) n hc
      omega

/-- **C13 (writer): the fault-free output.** Into a `Vec<u8>` (`to_vec`; any `fuel ≥ 1`) the result is `Ok(())` and
    the vector holds the concatenated buffers — the "fault-free output" of `c13_writer_prefix`. -/
theorem c13_writer_vec (fuel : Nat) (ext : Ext) (fmt : Fmt) (p : SVal) (r : W)
    (h : ser ext fmt p FState.init = .ok r) :
    ∃ w', toWriter (fuel + 1) ext fmt p Writer.vec = .ok (w', .ok) ∧ w'.accepted = r.bufs.flatten := by
  obtain ⟨h1, h2⟩ := runBufs_vec fuel r.bufs Writer.vec rfl
  refine ⟨(Writer.vec.runBufs (fuel + 1) r.bufs).1, ?_, by simpa [Writer.vec] using h2⟩
  simp only [toWriter, h, h1, Res.ofOut]

/-- **C13 (writer): a byte budget.** The writer that accepts `m` bytes in all — its last accepted call a short write —
    and then fails every call with `e` (not `Interrupted`; `Writer.budget m e`): `to_writer` leaves it holding exactly the
    first `m` bytes of the fault-free output and returns `Err(Error::io(e))` iff `m` is less than its length, `Ok(())`
    otherwise — i.e. `Model.IoFault.writeFault` (which is *defined* as that `take m`) is what this writer does. -/
theorem c13_writer_budget (fuel : Nat) (ext : Ext) (fmt : Fmt) (p : SVal) (r : W)
    (h : ser ext fmt p FState.init = .ok r) (m : Nat) (e : IoError) (he : e.isInterrupted = false) :
    ∃ w', toWriter (fuel + 2) ext fmt p (Writer.budget m e) =
        .ok (w', if (writeFault r.bufs m).2 then .io e else .ok) ∧
      w'.accepted = (writeFault r.bufs m).1 := by
  obtain ⟨h1, h2⟩ := Proofs.WriteBudget.runBufs_budget m e he fuel r.bufs (Writer.budget m e) 0
    ⟨rfl, rfl, Nat.zero_le _⟩
  refine ⟨((Writer.budget m e).runBufs (fuel + 2) r.bufs).1, ?_, by simpa [writeFault, Writer.budget] using h1⟩
  have hwf : (writeFault r.bufs m).2 = decide (m < r.bufs.flatten.length) := rfl
  simp only [toWriter, h, h2, Nat.zero_add]
  rw [hwf]
  by_cases hm : m < r.bufs.flatten.length
  · rw [if_neg (Nat.not_le.2 hm), decide_eq_true hm]; rfl
  · rw [if_pos (Nat.not_lt.1 hm), decide_eq_false hm]; rfl

/-- `["é\"é"]`, budget 3, `BrokenPipe`: holds `["` and the first byte of `é`; budget 10: everything, `Ok` -/
example : (match toWriter 2 extI .compact (.seq none [.str [0xc3, 0xa9, 0x22, 0xc3, 0xa9]]) (Writer.budget 3 { kind := .other 7 }) with
    | .ok (w', r) => w'.accepted == [0x5b, 0x22, 0xc3] && r == .io { kind := .other 7 } && w'.calls == 4
    | .error _ => false) = true := by decide +kernel
example : (match toWriter 2 extI .compact (.seq none [.str [0xc3, 0xa9, 0x22, 0xc3, 0xa9]]) (Writer.budget 10 { kind := .other 7 }) with
    | .ok (w', r) => w'.accepted.length == 10 && r == .ok && w'.calls == 7
    | .error _ => false) = true := by decide +kernel

/-! non-vacuity: `["é\"é"]` (buffers `[`, `"`, `é`, `\"`, `é`, `"`, `]`, 11 bytes) -/

/-- an observation of `toWriter` as a Bool test (closed terms are evaluated by the kernel) -/
def wtest (fuel : Nat) (script : List Resp) (tail : Resp) (acc : Bytes) (calls : Nat) (handed : List Bytes) (res : Res) : Bool :=
  match toWriter fuel extI .compact (.seq none [.str [0xc3, 0xa9, 0x22, 0xc3, 0xa9]]) (Writer.script script tail) with
  | .ok (w', r) => w'.accepted == acc && w'.calls == calls && w'.handed == handed && r == res
  | .error _ => false

/-- one byte per call, `Interrupted` before the 3rd byte, `BrokenPipe` (tag 7) at the 6th: the writer holds `["é\`
    (a split escape, but a prefix), 7 calls were made, 4 buffers were handed over, the result is `Io` with that error -/
example : wtest 100 [.short 1, .short 1, .intr, .short 1, .short 1, .short 1, .fail (.other 7), .short 1] (.short 1)
    [0x5b, 0x22, 0xc3, 0xa9, 0x5c] 7 [[0x5b], [0x22], [0xc3, 0xa9], [0x5c, 0x22]] (.io { kind := .other 7 }) = true := by
  decide +kernel

/-- `Ok(0)` at the third call: `WriteZero`; nothing is offered afterwards -/
example : wtest 100 [.short 9, .short 9, .zero] (.short 9) [0x5b, 0x22] 3 [[0x5b], [0x22], [0xc3, 0xa9]] (.io writeAllEof) = true := by
  decide +kernel

/-- a writer that answers `Interrupted` for ever: still looping after `fuel` calls, nothing accepted -/
example : wtest 5 [] .intr [] 5 [[0x5b]] .hang = true := by decide +kernel

/-- short writes and `Interrupted` only: everything arrives, in 12 calls -/
example : wtest 100 [.intr, .intr] (.short 1) [0x5b, 0x22, 0xc3, 0xa9, 0x5c, 0x22, 0xc3, 0xa9, 0x22, 0x5d] 12
    [[0x5b], [0x22], [0xc3, 0xa9], [0x5c, 0x22], [0xc3, 0xa9], [0x22], [0x5d]] .ok = true := by decide +kernel

/-- a writer that claims 9 bytes of a 1-byte buffer: `&buf[9..]` panics -/
example : (match toWriter 100 extI .compact (.seq none []) { policy := fun _ _ => .ok 9 } with
    | .ok (_, r) => r == .panic | .error _ => false) = true := by decide +kernel

end SJ.Props.C13


namespace SJ.Props.C13
open SJ SJ.Model.Ser SJ.Model.Write SJ.Model.WriteTrace SJ.Proofs.Write

/-- **C13 (writer, every program).** `Model.WriteTrace.serT` is `Model.Ser.ser` that keeps the buffers written before
    the serializer's own error (a non-string or non-finite-float map key): it agrees with `ser` on programs that
    serialise, ends in the same error otherwise, and `toWriterT` is `toWriter` on the former. -/
theorem c13_trace_agrees (fuel : Nat) (ext : Ext) (fmt : Fmt) (p : SVal) (w : Writer) :
    match ser ext fmt p FState.init with
    | .ok r => serT ext fmt p FState.init = { bufs := r.bufs, res := .ok r.st } ∧
        ∃ w' res, toWriter fuel ext fmt p w = .ok (w', res) ∧ (toWriterT fuel ext fmt p w).1 = w' ∧
          (toWriterT fuel ext fmt p w).2 = (match res with | .ok => .ok | .io e => .io e | .hang => .hang | .panic => .panic)
    | .error e => (serT ext fmt p FState.init).res = .error e ∧ toWriter fuel ext fmt p w = .error e := by
  cases h : ser ext fmt p FState.init with
  | error e => exact ⟨Proofs.WriteTrace.serT_err ext fmt h, by simp [toWriter, h]⟩
  | ok r =>
    have ht := Proofs.WriteTrace.serT_ok ext fmt h
    refine ⟨ht, (w.runBufs fuel r.bufs).1, Res.ofOut (w.runBufs fuel r.bufs).2, by simp [toWriter, h], ?_, ?_⟩
    · simp only [toWriterT, ht]; cases (w.runBufs fuel r.bufs) with | mk w' o => cases o <;> rfl
    · simp only [toWriterT, ht]; cases (w.runBufs fuel r.bufs) with | mk w' o => cases o <;> rfl

/-- **C13 (writer, every program).** For EVERY program — also one whose serialisation fails by itself after having
    written something —, either formatter, every writer (any policy) and every `fuel`: let `t.bufs` be the buffers the
    serializer writes (all of them, or those before its own error; `serT`). After `to_writer` the writer holds what it held
    plus `bytes`, a prefix of `t.bufs.flatten` — the output a fault-free writer receives (`c13_writer_all_vec`) —; the
    `write` calls are a run against the policy with no call after the first fatal answer; and the result is

    * `Ok(())` only if the program serialises and everything was accepted;
    * the serializer's own error only if every buffer written before it was accepted whole (no fatal answer);
    * `Err(Error::io(e))` only with a proper prefix accepted, `e` being the error of the last `write` call (or
      `WRITE_ALL_EOF` after `Ok(0)`), never `Interrupted`: **a writer that fails before the serializer's own error is
      reached gets its error reported, not masked by the later one**;
    * `hang` / `panic` as in `c13_write_all_spec`. -/
theorem c13_writer_all (fuel : Nat) (ext : Ext) (fmt : Fmt) (p : SVal) (w : Writer) :
    ∃ bytes new j, (toWriterT fuel ext fmt p w).1.accepted = w.accepted ++ bytes ∧
      bytes <+: (serT ext fmt p FState.init).bufs.flatten ∧
      (toWriterT fuel ext fmt p w).1.log = w.log ++ new ∧ (toWriterT fuel ext fmt p w).1.policy = w.policy ∧
      Run w.policy w.log new ∧ NoFatal new.dropLast ∧
      (toWriterT fuel ext fmt p w).1.handed = w.handed ++ (serT ext fmt p FState.init).bufs.take j ∧
      match (toWriterT fuel ext fmt p w).2 with
      | .ok => bytes = (serT ext fmt p FState.init).bufs.flatten ∧ NoFatal new ∧
          ∃ r, ser ext fmt p FState.init = .ok r
      | .ser e => bytes = (serT ext fmt p FState.init).bufs.flatten ∧ NoFatal new ∧
          ser ext fmt p FState.init = .error e
      | .io e => bytes.length < (serT ext fmt p FState.init).bufs.flatten.length ∧ e.isInterrupted = false ∧
          ∃ c, new.getLast? = some c ∧ ((c.res = .ok 0 ∧ e = writeAllEof) ∨ c.res = .err e)
      | .hang => bytes.length < (serT ext fmt p FState.init).bufs.flatten.length ∧ NoFatal new ∧ fuel ≤ new.length
      | .panic => ∃ c n, new.getLast? = some c ∧ c.res = .ok n ∧ c.buf.length < n := by
  obtain ⟨bytes, new, j, he, hp, hpost, hh, _, _⟩ := runBufs_spec fuel (serT ext fmt p FState.init).bufs w
  have hagree := Proofs.WriteTrace.ser_agree ext fmt p FState.init
  simp only [toWriterT]
  generalize hrun : w.runBufs fuel (serT ext fmt p FState.init).bufs = wr at he hpost hh
  obtain ⟨w', o⟩ := wr
  cases o with
  | ok =>
    simp only at hpost ⊢
    refine ⟨bytes, new, j, he.acc, hp, he.log, he.pol, he.run, fun c hc => hpost.2 c (List.dropLast_subset _ hc), hh, ?_⟩
    cases hs : ser ext fmt p FState.init with
    | ok r =>
      rw [hs] at hagree; simp only [Proofs.WriteTrace.Agree] at hagree
      simp only [hagree]; rw [hagree] at hpost; exact ⟨hpost.1, hpost.2, r, rfl⟩
    | error e =>
      rw [hs] at hagree; simp only [Proofs.WriteTrace.Agree] at hagree
      simp only [hagree]; exact ⟨hpost.1, hpost.2, trivial⟩
  | hang =>
    simp only at hpost ⊢
    exact ⟨bytes, new, j, he.acc, hp, he.log, he.pol, he.run, fun c hc => hpost.2.1 c (List.dropLast_subset _ hc), hh, hpost⟩
  | err e =>
    simp only at hpost ⊢
    obtain ⟨hl, pre, c, hnew, hpre, hc⟩ := hpost
    refine ⟨bytes, new, j, he.acc, hp, he.log, he.pol, he.run, by rw [hnew, List.dropLast_concat]; exact hpre, hh, hl, ?_,
      c, by rw [hnew]; simp, ?_⟩
    · rcases hc with ⟨_, rfl⟩ | ⟨_, h⟩
      · rfl
      · exact h
    · rcases hc with h | ⟨h, _⟩
      · exact .inl h
      · exact .inr h
  | panic =>
    simp only at hpost ⊢
    obtain ⟨pre, c, n, hnew, hpre, hc⟩ := hpost
    exact ⟨bytes, new, j, he.acc, hp, he.log, he.pol, he.run, by rw [hnew, List.dropLast_concat]; exact hpre, hh,
      c, n, by rw [hnew]; simp, hc⟩

/-- **C13 (writer, every program): the fault-free output.** Into a `Vec<u8>` (any `fuel ≥ 1`) the vector ends up holding
    `(serT …).bufs.flatten`, and the result is `Ok(())` or the serializer's own error. -/
theorem c13_writer_all_vec (fuel : Nat) (ext : Ext) (fmt : Fmt) (p : SVal) :
    (toWriterT (fuel + 1) ext fmt p Writer.vec).1.accepted = (serT ext fmt p FState.init).bufs.flatten ∧
    (toWriterT (fuel + 1) ext fmt p Writer.vec).2 =
      (match ser ext fmt p FState.init with | .ok _ => .ok | .error e => .ser e) := by
  obtain ⟨h1, h2⟩ := runBufs_vec fuel (serT ext fmt p FState.init).bufs Writer.vec rfl
  have hagree := Proofs.WriteTrace.ser_agree ext fmt p FState.init
  simp only [toWriterT]
  generalize hrun : Writer.vec.runBufs (fuel + 1) (serT ext fmt p FState.init).bufs = wr at h1 h2
  obtain ⟨w', o⟩ := wr
  simp only at h1 h2
  subst h1
  refine ⟨by simpa [Writer.vec] using h2, ?_⟩
  cases hs : ser ext fmt p FState.init with
  | ok r => rw [hs] at hagree; simp only [Proofs.WriteTrace.Agree] at hagree; simp only [hagree]
  | error e => rw [hs] at hagree; simp only [Proofs.WriteTrace.Agree] at hagree; simp only [hagree]

/-- `{"a":1, [2]:3}` — the second key is a sequence: `{`, `"a"`, `:`, `1`, `,` are written, then `key must be a string`.
    A writer failing at the 4th byte reports its own error; a writer that takes everything sees the serializer's. -/
def badKey : SVal := .map none [(.str [0x61], .int .u8 1), (.seq none [.int .u8 2], .int .u8 3)]
example : (serT extI .compact badKey FState.init).bufs = [[0x7b], [0x22], [0x61], [0x22], [0x3a], [0x31], [0x2c]] ∧
    ser extI .compact badKey FState.init = .error .keyMustBeAString := ⟨rfl, rfl⟩
example : ((toWriterT 9 extI .compact badKey (Writer.budget 3 { kind := .other 7 })).1.accepted == [0x7b, 0x22, 0x61] &&
    (toWriterT 9 extI .compact badKey (Writer.budget 3 { kind := .other 7 })).2 == .io { kind := .other 7 } &&
    (toWriterT 9 extI .compact badKey Writer.vec).1.accepted == [0x7b, 0x22, 0x61, 0x22, 0x3a, 0x31, 0x2c] &&
    (toWriterT 9 extI .compact badKey Writer.vec).2 == .ser .keyMustBeAString) = true := by decide +kernel

end SJ.Props.C13


namespace SJ.Props.C13
open SJ.Gen
/-- **C13 (writer: no write error is swallowed — re-derived from `src/ser.rs` on every run).** `Model.Write.Writer.runBufs`
    *defines* the serializer as stopping at the first failing `write_all`. What ties that to the source, besides the
    correspondence op `wfault`: `tools/extract.py` (`gen_write`) scans every expression of `src/ser.rs` through which bytes
    can reach the writer — `writer.write_all(..)`, every `Formatter` method call, `format_escaped_str(_contents)`, `indent`
    (147 in the pinned tree) — and classifies how its `io::Result` is used. Each one is under `tri!(..)` (which is
    `match $e { Ok(val) => val, Err(err) => return Err(err) }`: `triReturnsErr`), the tail expression of its block or
    match arm, after `return`, followed by `?`, or scrutinised by the `match` of `collect_str`'s adapter that stores the
    error; none is discarded (`let _ = ..;`, a bare statement, `.ok()`, a `let` that is combined later …), and no method
    other than `write_all` (`write`, `flush`, `write_fmt`) is ever called on the writer. An edit of `ser.rs` that drops a
    `tri!` or swallows a `Result` changes a generated constant and breaks this theorem. -/
theorem c13_every_write_checked :
    serUncheckedWriterCalls = [] ∧ serWriterOtherMethodCalls = [] ∧ triReturnsErr = true ∧
    serWriterCalls = serWriterCallsTri + serWriterCallsTail + serWriterCallsReturn + serWriterCallsQuestion +
      serWriterCallsMatched ∧ 100 < serWriterCalls := by decide
end SJ.Props.C13
