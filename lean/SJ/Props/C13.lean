import SJ.Model.IoFault
import SJ.Proofs.Machine
import SJ.Proofs.SerUtf8
/-!
# C13 — I/O failures surface as Io errors and never corrupt results
-/
namespace SJ.Props.C13
open SJ SJ.Gen SJ.Model.Machine SJ.Model.IoFault SJ.Proofs.Machine
open SJ.Model.Ser (serCompact serPretty)
open SJ.Spec.Program (SVal Ext ExtOK)

/-- **C13 (reader).** With a reader that fails after delivering `bs`, the result is `Io` exactly
    when no delivered byte is rejected; otherwise it is the very error (code and position) that
    the same bytes produce from any source — never a value, never another classification. -/
theorem c13_read (env : Env) (bs : Bytes) :
    parseFault env bs = match feed env init 0 bs with
      | .ok _ => .io
      | .error (c, j) => .err c j := by
  unfold parseFault
  suffices h : ∀ s i, runFault env s i bs = match feed env s i bs with
      | .ok _ => .io
      | .error (c, j) => .err c j from h init 0
  induction bs with
  | nil => intro s i; rfl
  | cons b bs ih =>
    intro s i
    simp only [runFault, feed]
    cases h : step env s b with
    | ok s' => exact ih s' (i + 1)
    | error e => obtain ⟨c, a⟩ := e; rfl

/-- the error that pre-empts the fault is Syntax-classified (it is a real defect of the delivered
    bytes: those bytes are dead, cf. `c11_dead`), never `Eof` and never a value -/
theorem c13_read_error_class (env : Env) (bs : Bytes) (c : Code) (idx : Nat)
    (h : parseFault env bs = .err c idx) : classify c = .syntax ∧ idx ≤ bs.length := by
  rw [c13_read] at h
  cases hf : feed env init 0 bs with
  | ok p => rw [hf] at h; cases h
  | error e =>
    obtain ⟨c', j⟩ := e; rw [hf] at h; simp at h; obtain ⟨rfl, rfl⟩ := h
    have h1 := feed_err_idx env init 0 bs c' j hf
    refine ⟨?_, by omega⟩
    -- errors raised by `feed` come from `step`
    have key : ∀ (xs : Bytes) (s : St) (i : Nat), feed env s i xs = .error (c', j) → classify c' = .syntax := by
      intro xs
      induction xs with
      | nil => intro s i h; simp [feed] at h
      | cons b bs ih =>
        intro s i h
        simp only [feed] at h
        cases hs : step env s b with
        | ok s' => rw [hs] at h; exact ih _ _ h
        | error e => obtain ⟨c2, a⟩ := e; rw [hs] at h; simp at h; exact h.1 ▸ (step_err env s b c2 a hs).2
    exact key bs init 0 hf

/-- **C13 (writer).** A writer that accepts `m` bytes and then fails has received exactly the first
    `m` bytes of the fault-free output, and serialization fails iff `m` is less than its length. -/
theorem c13_write_prefix (bufs : List Bytes) (m : Nat) :
    (writeFault bufs m).1 = (bufs.flatten).take m ∧
    ((writeFault bufs m).2 = true ↔ m < bufs.flatten.length) := by
  simp [writeFault]

theorem c13_write_is_prefix (bufs : List Bytes) (m : Nat) :
    (writeFault bufs m).1 <+: bufs.flatten := by
  simp [writeFault, List.take_prefix]

/-- **C13 (writer, UTF-8).** What reaches the writer, call by call: for a program whose strings are
    UTF-8 (`SVal.utf8OK`: what Rust's types guarantee) and either formatter (pretty: a UTF-8 indent
    string), every buffer passed to `write_all` is valid UTF-8 on its own — so a writer that requires
    UTF-8 per call (`fmt::Write` adapters, `String`-backed writers using `from_utf8`) never sees a
    split multi-byte sequence — and if the writer fails after accepting some number `n` of whole
    buffers, what it holds is valid UTF-8. (Restatement of C03's `c03_utf8` on the writer side.) -/
theorem c13_buffers_utf8 (ext : Ext) (hext : ExtOK ext) (p : SVal) (hu : p.utf8OK = true) (bufs : List Bytes)
    (h : serCompact ext p = .ok bufs ∨
      ∃ indent, Spec.Utf8.validUtf8 indent = true ∧ serPretty ext indent p = .ok bufs) :
    (∀ b ∈ bufs, Spec.Utf8.validUtf8 b = true) ∧
    (∀ n, Spec.Utf8.validUtf8 (bufs.take n).flatten = true) := by
  have hall : Proofs.SerUtf8.AllV bufs := by
    rcases h with h | ⟨indent, hi, h⟩
    · unfold serCompact at h
      cases hr : Model.Ser.ser ext .compact p Model.Ser.FState.init with
      | error e => simp [hr, Except.map] at h
      | ok r =>
        have : r.bufs = bufs := by simpa [hr, Except.map] using h
        rw [← this]; exact Proofs.SerUtf8.ser_utf8 ext hext .compact trivial p _ r hu hr
    · unfold serPretty at h
      cases hr : Model.Ser.ser ext (.pretty indent) p Model.Ser.FState.init with
      | error e => simp [hr, Except.map] at h
      | ok r =>
        have : r.bufs = bufs := by simpa [hr, Except.map] using h
        rw [← this]; exact Proofs.SerUtf8.ser_utf8 ext hext (.pretty indent) hi p _ r hu hr
  exact ⟨hall, fun n => Proofs.SerUtf8.allV_flatten fun b hb => hall b (List.mem_of_mem_take hb)⟩

/-- `["é\"é"]` with real `itoa`: the buffers are `[`, `"`, `é`, `\"`, `é`, `"`, `]` — the string is cut at
    the escaped quote only; a fault after 3 whole buffers leaves `["é` -/
def extI : Ext := { itoa := Spec.Number.decimal, ryu64 := fun _ => [0x30], ryu32 := fun _ => [0x30] }
theorem extI_ok : ExtOK extI :=
  ⟨fun _ => rfl, fun _ _ => ⟨⟨false, [0x30], [], []⟩, rfl, rfl⟩, fun _ _ => ⟨⟨false, [0x30], [], []⟩, rfl, rfl⟩⟩

example : serCompact extI (.seq none [.str [0xc3, 0xa9, 0x22, 0xc3, 0xa9]])
      = .ok [[0x5b], [0x22], [0xc3, 0xa9], [0x5c, 0x22], [0xc3, 0xa9], [0x22], [0x5d]] ∧
    (SVal.seq none [.str [0xc3, 0xa9, 0x22, 0xc3, 0xa9]]).utf8OK = true := ⟨rfl, rfl⟩

example : Spec.Utf8.validUtf8 (([[0x5b], [0x22], [0xc3, 0xa9], [0x5c, 0x22], [0xc3, 0xa9], [0x22], [0x5d]] : List Bytes).take 3).flatten = true :=
  (c13_buffers_utf8 extI extI_ok (.seq none [.str [0xc3, 0xa9, 0x22, 0xc3, 0xa9]]) rfl _ (.inl rfl)).2 3

/-- a fault in the middle of a buffer (`m` bytes, `c13_write_prefix`) can of course split `é` -/
example : (writeFault [[0x5b], [0x22], [0xc3, 0xa9]] 3).1 = [0x5b, 0x22, 0xc3] ∧
    Spec.Utf8.validUtf8 [0x5b, 0x22, 0xc3] = false := ⟨rfl, by decide⟩

/-- non-vacuity: `[1,]` then a fault: the trailing comma is reported, not Io; `[1,` then a fault: Io -/
def envR : Env := { cfg := {}, src := .reader, tgt := .value }
example : parseFault envR [0x5b, 0x31, 0x2c, 0x5d] = .err .TrailingComma 4 := rfl
example : parseFault envR [0x5b, 0x31, 0x2c] = .io := rfl

end SJ.Props.C13

namespace SJ.Props.C13
open SJ.Gen
/-- **C13 (`impl From<serde_json::Error> for io::Error`).** As regenerated from `src/error.rs` on every run: converting an
    error back into an `io::Error` returns the wrapped `io::Error` itself for the `Io` category (so the reader's or writer's
    own `ErrorKind` survives the round trip through `serde_json::Error`), `InvalidData` for `Syntax` and `Data`, and
    `UnexpectedEof` for `Eof`. A change of any arm changes a generated constant and breaks this theorem. -/
theorem c13_into_io_error :
    intoIoKeepsInner = true ∧
    intoIoKind .syntax = some [0x49, 0x6e, 0x76, 0x61, 0x6c, 0x69, 0x64, 0x44, 0x61, 0x74, 0x61] ∧   -- "InvalidData"
    intoIoKind .data = some [0x49, 0x6e, 0x76, 0x61, 0x6c, 0x69, 0x64, 0x44, 0x61, 0x74, 0x61] ∧
    intoIoKind .eof = some [0x55, 0x6e, 0x65, 0x78, 0x70, 0x65, 0x63, 0x74, 0x65, 0x64, 0x45, 0x6f, 0x66] ∧   -- "UnexpectedEof"
    intoIoKind .io = none := by
  exact ⟨rfl, rfl, rfl, rfl, rfl⟩
end SJ.Props.C13
