import SJ.Model.IoFault
import SJ.Proofs.Machine
/-!
# C13 — I/O failures surface as Io errors and never corrupt results
-/
namespace SJ.Props.C13
open SJ SJ.Gen SJ.Model.Machine SJ.Model.IoFault SJ.Proofs.Machine

/-- **C13 (reader).** With a reader that fails after delivering `bs`, the result is `Io` exactly
    when no delivered byte is rejected; otherwise it is the very error (code and position) that
    the same bytes produce from any source — never a value, never another classification. -/
theorem c13_read (env : Env) (bs : Bytes) :
    parseFault env bs = match feed env init 0 bs with
      | .ok _ => .io
      | .error (c, j) => .err c j := by
  unfold parseFault
  suffices h : ∀ s i, runFault env s i bs = match feed env s i bs with
      | .ok _ => .io
      | .error (c, j) => .err c j from h init 0
  induction bs with
  | nil => intro s i; rfl
  | cons b bs ih =>
    intro s i
    simp only [runFault, feed]
    cases h : step env s b with
    | ok s' => exact ih s' (i + 1)
    | error e => obtain ⟨c, a⟩ := e; rfl

/-- the error that pre-empts the fault is Syntax-classified (it is a real defect of the delivered
    bytes: those bytes are dead, cf. `c11_dead`), never `Eof` and never a value -/
theorem c13_read_error_class (env : Env) (bs : Bytes) (c : Code) (idx : Nat)
    (h : parseFault env bs = .err c idx) : classify c = .syntax ∧ idx ≤ bs.length := by
  rw [c13_read] at h
  cases hf : feed env init 0 bs with
  | ok p => rw [hf] at h; cases h
  | error e =>
    obtain ⟨c', j⟩ := e; rw [hf] at h; simp at h; obtain ⟨rfl, rfl⟩ := h
    have h1 := feed_err_idx env init 0 bs c' j hf
    refine ⟨?_, by omega⟩
    -- errors raised by `feed` come from `step`
    have key : ∀ (xs : Bytes) (s : St) (i : Nat), feed env s i xs = .error (c', j) → classify c' = .syntax := by
      intro xs
      induction xs with
      | nil => intro s i h; simp [feed] at h
      | cons b bs ih =>
        intro s i h
        simp only [feed] at h
        cases hs : step env s b with
        | ok s' => rw [hs] at h; exact ih _ _ h
        | error e => obtain ⟨c2, a⟩ := e; rw [hs] at h; simp at h; exact h.1 ▸ (step_err env s b c2 a hs).2
    exact key bs init 0 hf

/-- **C13 (writer).** A writer that accepts `m` bytes and then fails has received exactly the first
    `m` bytes of the fault-free output, and serialization fails iff `m` is less than its length. -/
theorem c13_write_prefix (bufs : List Bytes) (m : Nat) :
    (writeFault bufs m).1 = (bufs.flatten).take m ∧
    ((writeFault bufs m).2 = true ↔ m < bufs.flatten.length) := by
  simp [writeFault]

theorem c13_write_is_prefix (bufs : List Bytes) (m : Nat) :
    (writeFault bufs m).1 <+: bufs.flatten := by
  simp [writeFault, List.take_prefix]

/-- non-vacuity: `[1,]` then a fault: the trailing comma is reported, not Io; `[1,` then a fault: Io -/
def envR : Env := { cfg := {}, src := .reader, tgt := .value }
example : parseFault envR [0x5b, 0x31, 0x2c, 0x5d] = .err .TrailingComma 4 := rfl
example : parseFault envR [0x5b, 0x31, 0x2c] = .io := rfl

end SJ.Props.C13
