import SJ.Proofs.Sound.Sound
/-!
# C02 — a successful parse yields the value the text denotes (soundness of the machine w.r.t. RFC 8259)

`c02_denotes`: whatever `from_str`/`from_slice`/`from_reader::<Value>` accepts is a JSON text
(`Spec.Grammar.JsonText`) whose syntax tree meets every side condition the parser enforces (nesting
depth, surrogate pairing, UTF-8 validity of decoded strings on byte sources, numeric range) and whose
denotation (`canonM`: literals, numbers per `Spec.Canon.numOf`, escape-decoded strings, arrays in
order, objects built by inserting the members in source order) is exactly the value returned.
`c19_skip_sound`: whatever the skipping scanner (`IgnoredAny`, unknown fields, `RawValue`) accepts is
a JSON text — without side conditions.

The proof is the classical shape invariant over the byte-step machine (`SJ/Proofs/Sound/`): the
consumed prefix decomposes along the stack (a zipper over `Derives`), every successful step preserves
it, and `finish` turns it into a `JsonText`. The converse (completeness) is C01.
-/
namespace SJ.Props.C02
open SJ SJ.Spec.Grammar SJ.Spec.Denote SJ.Model.Machine SJ.Proofs.CanonM SJ.Proofs.Sound

/-- **C02 (soundness + denotation).** -/
theorem c02_denotes (env : Env) (henv : env.tgt = .value) (bs : Bytes) (v : JV)
    (h : parseTop env bs = .ok v) :
    ∃ t, JsonText bs t ∧ canonM env.cfg t = some v ∧
      (env.cfg.limitOff = true ∨ depth t ≤ 127) ∧ surrogatesPaired t = true ∧
      (env.src ≠ .str → Spec.Canon.stringsUtf8 t = true) ∧
      Spec.Canon.numbersInRange (specCfg env.cfg) t = true := by
  obtain ⟨t, ht, hs⟩ := parseTop_sound env bs v h
  have hv := hs.val henv
  refine ⟨t, ht, hv.val, ?_, hv.sur, hv.utf, hv.rng⟩
  cases hl : env.cfg.limitOff
  · right; simpa using hv.dep hl
  · left; rfl

/-- non-vacuity: the hypothesis is satisfiable, on the document ` {"a":[1,true, null,"x\u00e9"] ,"b":-0}␊`
    (all value kinds, whitespace, an escape), and the value is what one expects -/
example : (parseTop ⟨{}, .slice, .value⟩
    [0x20, 0x7b, 0x22, 0x61, 0x22, 0x3a, 0x5b, 0x31, 0x2c, 0x74, 0x72, 0x75, 0x65, 0x2c, 0x20, 0x6e, 0x75, 0x6c,
     0x6c, 0x2c, 0x22, 0x78, 0x5c, 0x75, 0x30, 0x30, 0x65, 0x39, 0x22, 0x5d, 0x20, 0x2c, 0x22, 0x62, 0x22, 0x3a,
     0x2d, 0x30, 0x7d, 0x0a]).isOk
    (.obj [([0x61], .arr [.num (.pos 1), .bool true, .null, .str [0x78, 0xc3, 0xa9]]),
               ([0x62], .num (.float 0x8000000000000000))]) = true := by decide +kernel

/-- the same with the side conditions packaged as `Spec.Canon.sideConditions` (C01's right-hand side) -/
theorem c02_side_conditions (env : Env) (henv : env.tgt = .value) (bs : Bytes) (v : JV)
    (h : parseTop env bs = .ok v) :
    ∃ t, JsonText bs t ∧ canonM env.cfg t = some v ∧
      Spec.Canon.sideConditions (specCfg env.cfg) (env.src != .str) t = true := by
  obtain ⟨t, ht, hc, hd, hs, hu, hr⟩ := c02_denotes env henv bs v h
  refine ⟨t, ht, hc, ?_⟩
  have hu' : (!(env.src != .str) || Spec.Canon.stringsUtf8 t) = true := by
    cases hsrc : (env.src != .str)
    · rfl
    · simp only [bne_iff_ne, ne_eq] at hsrc; simp [hu hsrc]
  have hd' : ((specCfg env.cfg).limitOff || decide (depth t ≤ 127)) = true := by
    rcases hd with hd | hd <;> simp [specCfg, hd]
  simp only [Spec.Canon.sideConditions, hd', hs, hu', hr, Bool.and_self]

/-- non-vacuity (`[[]]` from a `&str`) -/
example : parseTop ⟨{}, .str, .value⟩ [0x5b, 0x5b, 0x5d, 0x5d] = .ok (.arr [.arr []]) := rfl

/-- **C19 (skip language, soundness).** Skipped content is a JSON text. -/
theorem c19_skip_sound (env : Env) (henv : env.tgt = .ignored) (bs : Bytes) (v : JV)
    (h : parseTop env bs = .ok v) : ∃ t, JsonText bs t := by
  have _ := henv     -- not needed: acceptance implies `JsonText` for either target
  obtain ⟨t, ht, _⟩ := parseTop_sound env bs v h
  exact ⟨t, ht⟩

/-- non-vacuity -/
example : parseTop ⟨{}, .slice, .ignored⟩
    [0x20, 0x7b, 0x22, 0x61, 0x22, 0x3a, 0x5b, 0x31, 0x2c, 0x74, 0x72, 0x75, 0x65, 0x2c, 0x20, 0x6e, 0x75, 0x6c,
     0x6c, 0x2c, 0x22, 0x78, 0x5c, 0x75, 0x30, 0x30, 0x65, 0x39, 0x22, 0x5d, 0x20, 0x2c, 0x22, 0x62, 0x22, 0x3a,
     0x2d, 0x30, 0x7d, 0x0a] = .ok .null := rfl

/-- skipping returns the placeholder only -/
theorem c19_skip_value (env : Env) (henv : env.tgt = .ignored) (bs : Bytes) (v : JV)
    (h : parseTop env bs = .ok v) : v = .null := by
  obtain ⟨t, _, hs⟩ := parseTop_sound env bs v h
  exact hs.ign henv

/-- non-vacuity -/
example : parseTop ⟨{}, .reader, .ignored⟩ [0x2d, 0x31, 0x65, 0x39, 0x39, 0x39, 0x39] = .ok .null := rfl

/-! ### `canonM` spelled out for the two cheapest clauses -/

/-- **array order**: an accepted text whose value is an array is an array text with the same number of
    elements, and the `i`-th value is the denotation of the `i`-th element -/
theorem c02_array_order (env : Env) (henv : env.tgt = .value) (bs : Bytes) (vs : List JV)
    (h : parseTop env bs = .ok (.arr vs)) :
    ∃ ts, JsonText bs (.arr ts) ∧ ts.length = vs.length ∧
      ∀ (i : Nat) (h1 : i < ts.length) (h2 : i < vs.length), canonM env.cfg ts[i] = some vs[i] := by
  obtain ⟨t, ht, hc, _⟩ := c02_denotes env henv bs _ h
  cases t with
  | arr ts =>
    simp only [canonM, Option.map_eq_some_iff, JV.arr.injEq] at hc
    obtain ⟨vs', hl, rfl⟩ := hc
    exact ⟨ts, ht, canonMList_get env.cfg ts vs' hl⟩
  | obj ms => simp [canonM, mkObj] at hc
  | null => simp [canonM] at hc
  | true_ => simp [canonM] at hc
  | false_ => simp [canonM] at hc
  | num p => simp [canonM] at hc
  | str s => simp [canonM] at hc

example : parseTop ⟨{}, .str, .value⟩ [0x5b, 0x31, 0x2c, 0x5b, 0x5d, 0x5d] = .ok (.arr [.num (.pos 1), .arr []]) := rfl

/-- **a string value is the escape-decoded text** of the string literal that was read -/
theorem c02_string_is_decoded_text (env : Env) (henv : env.tgt = .value) (bs : Bytes) (s : Bytes)
    (h : parseTop env bs = .ok (.str s)) :
    ∃ items, JsonText bs (.str items) ∧ decodeItems items = some s := by
  obtain ⟨t, ht, hc, _⟩ := c02_denotes env henv bs _ h
  cases t with
  | str items =>
    simp only [canonM, Option.map_eq_some_iff, JV.str.injEq] at hc
    obtain ⟨s', hl, rfl⟩ := hc
    exact ⟨items, ht, hl⟩
  | obj ms => simp [canonM, mkObj] at hc
  | null => simp [canonM] at hc
  | true_ => simp [canonM] at hc
  | false_ => simp [canonM] at hc
  | num p => simp [canonM] at hc
  | arr ts => simp [canonM] at hc

/-- `"😀"` decodes to U+1F600 as UTF-8 -/
example : parseTop ⟨{}, .slice, .value⟩
    [0x22, 0x5c, 0x75, 0x64, 0x38, 0x33, 0x64, 0x5c, 0x75, 0x64, 0x65, 0x30, 0x30, 0x22] =
    .ok (.str [0xf0, 0x9f, 0x98, 0x80]) := rfl

end SJ.Props.C02
