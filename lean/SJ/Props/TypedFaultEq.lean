import SJ.Proofs.TypedFaultEq
import SJ.Props.Typed
/-!
# C13, typed targets: the outcome under a failing reader IS the clean-end-of-input outcome, or `Io`

`c13_typed_fault` (`SJ/Props/Typed.lean`) gives the class of the outcome; here the relation between the two
runs that op `rfaults` checks per case through `Drv.C13.judgeFault` / `Drv.Typed.judgeFault`.
-/
namespace SJ.Props.TypedFaultEq
open SJ SJ.Gen SJ.Model SJ.Model.Typed SJ.Proofs.Typed SJ.Props.Typed

/-- **C13 (reader, typed targets).** Let the reader deliver exactly the bytes `bs` and then fail with an I/O error
    (`env.flt = true`). For every schema, configuration and source the typed deserializer returns `Io`, or it returns
    EXACTLY the outcome of the run on the same bytes followed by a clean end of input (`flt := false`: same parser error
    code at the same index, or visitor error at the same index / unpositioned alike) — and then that common outcome is a
    Syntax-classified parser error or a visitor (`Data`) error: never a value, never `Eof`-classified. This is the
    predicate `judgeFault` evaluates on the crate's two outcomes in op `rfaults`. -/
theorem c13_typed_fault_eq (env : Env) (hf : env.flt = true) (s : Schema) (bs : Bytes) :
    deTypedTop env s bs = .io ∨
    (deTypedTop env s bs = deTypedTop { env with flt := false } s bs ∧
      ((∃ c i, deTypedTop env s bs = .err c i ∧ classify c = .syntax) ∨ ∃ i, deTypedTop env s bs = .data i)) := by
  obtain ⟨cfg, src, flt⟩ := env
  simp only at hf
  subst hf
  rcases fc_deTypedTop cfg src s bs with h | h
  · exact .inl h
  · rcases c13_typed_fault { cfg := cfg, src := src, flt := true } rfl s bs with h' | h' | h'
    · exact .inl h'
    · exact .inr ⟨h, .inl h'⟩
    · exact .inr ⟨h, .inr h'⟩

/-- … conversely, whenever the bytes delivered so far followed by a clean end of input would be accepted, or rejected
    with an `Eof`-classified error (the parser wanted more input), the failing reader's error is what is reported: `Io`. -/
theorem c13_typed_fault_io (env : Env) (hf : env.flt = true) (s : Schema) (bs : Bytes)
    (h : (∃ v, deTypedTop { env with flt := false } s bs = .ok v) ∨
         (∃ c i, deTypedTop { env with flt := false } s bs = .err c i ∧ classify c = .eof)) :
    deTypedTop env s bs = .io := by
  rcases c13_typed_fault_eq env hf s bs with h' | ⟨he, h'⟩
  · exact h'
  · rw [he] at h'
    rcases h with ⟨v, hv⟩ | ⟨c, i, hc, hcl⟩
    · rw [hv] at h'; rcases h' with ⟨_, _, h', _⟩ | ⟨_, h'⟩ <;> cases h'
    · rw [hc] at h'
      rcases h' with ⟨_, _, h', hs⟩ | ⟨_, h'⟩
      · cases h'; rw [hcl] at hs; cases hs
      · cases h'

/-! ## non-vacuity -/

theorem isErr_eq {o : Top} {c : Code} {i : Nat} (h : Top.isErr o c i = true) : o = .err c i := by
  cases o <;> simp [Top.isErr] at h
  obtain ⟨rfl, rfl⟩ := h
  rfl

-- `[1,]` as `Vec<u8>`: the trailing comma is rejected on delivered bytes — the same Syntax error at 4 with a failing
-- reader and with a clean end; `[1,` : the clean run ends in `EofWhileParsingValue`, the failing reader gives `Io`
example : Top.isErr (deTypedTop { src := .reader, flt := true } (.seq (.int .u8)) [0x5b, 0x31, 0x2c, 0x5d]) .TrailingComma 4 = true ∧
    Top.isErr (deTypedTop { src := .reader, flt := false } (.seq (.int .u8)) [0x5b, 0x31, 0x2c, 0x5d]) .TrailingComma 4 = true := by
  decide +kernel
example : Top.isErr (deTypedTop { src := .reader, flt := false } (.seq (.int .u8)) [0x5b, 0x31, 0x2c]) .EofWhileParsingValue 3 = true := by
  decide +kernel
example : deTypedTop { src := .reader, flt := true } (.seq (.int .u8)) [0x5b, 0x31, 0x2c] = .io :=
  c13_typed_fault_io { src := .reader, flt := true } rfl _ _ (.inr ⟨.EofWhileParsingValue, 3, isErr_eq (by decide +kernel), rfl⟩)
-- `[256 ` as `Vec<u8>`: a visitor error positioned on delivered bytes (reader: 5, the space is peeked), both runs
example : Top.isData (deTypedTop { src := .reader, flt := true } (.seq (.int .u8)) [0x5b, 0x32, 0x35, 0x36, 0x20]) (some 5) = true ∧
    Top.isData (deTypedTop { src := .reader, flt := false } (.seq (.int .u8)) [0x5b, 0x32, 0x35, 0x36, 0x20]) (some 5) = true := by
  decide +kernel
-- a complete document: accepted with a clean end, `Io` when the reader fails instead of reporting the end
example : Top.isOk (deTypedTop { src := .reader, flt := false } .bool [0x74, 0x72, 0x75, 0x65]) (.bool true) = true := by decide +kernel
example : (match deTypedTop { src := .reader, flt := true } .bool [0x74, 0x72, 0x75, 0x65] with | .io => true | _ => false) = true := by
  decide +kernel

end SJ.Props.TypedFaultEq
