import SJ.Proofs.RawMapGrammar
import SJ.Proofs.MkObj
import SJ.Proofs.Schema
import SJ.Props.C19Nested
/-!
# C19 — object values captured raw: the converse grammar direction and the comparison with the parsed `Value`

`c19_nested_capture_map` / `c19_nested_grammar_map` (`SJ/Props/C19Nested.lean`) say what a successful
`from_*::<map of Box<RawValue>>` returns and that it is an object derivation. Here, as for arrays
(`c19_nested_complete`, `c19_nested_canon`):

* `c19_nested_complete_map`: EVERY object text `JsonText bs (.obj members)` — duplicate keys or not — is captured
  member by member (provided the keys are `String`s: escapes pair up; UTF-8 on byte sources);
* `c19_nested_canon_map`: the `i`-th capture, parsed on its own, is the value of member `i`, and the `Value` the
  whole text parses to is the map built from (decoded key, that value) in source order — so for a duplicated key
  the `Value` holds what the LAST capture with that key denotes (`c19_nested_canon_map_last`).
-/
namespace SJ.Props.C19
open SJ SJ.Gen SJ.Model.Machine SJ.Model.Stream SJ.Proofs.Machine
open SJ.Spec.Grammar (CST StrItem Ws Derives JsonText)
open SJ.Model.RawNested SJ.Proofs.RawNested SJ.Proofs.RawMap SJ.Proofs.RawKey

/-- **C19 (object values, every object text is captured).** Let `bs` be an object text of the grammar,
    `JsonText bs (.obj members)` (any keys, duplicates included). There are members `ms` — the same key items, value
    texts `cᵢ` with `Derives cᵢ tᵢ` for the members' trees, decoded keys `decodeItems kᵢ` — such that
    `from_*::<map of Box<RawValue>>` returns exactly the entries `(decoded key, cᵢ)` in source order, provided every key
    is a `String` (`KeyOK`: its escapes pair up and decode; valid UTF-8 on byte sources) and, on byte sources, every
    value text is valid UTF-8. Together with `c19_nested_grammar_map`: the successful captures are exactly the object
    texts with such keys, captured member by member. -/
theorem c19_nested_complete_map (env : SJ.Model.Typed.Env) (hflt : env.flt = false) (bs : Bytes)
    (mts : List (List StrItem × CST)) (h : JsonText bs (.obj mts)) :
    ∃ ms : List Mem, ms.map (·.1) = mts.map (·.1) ∧ AllDerive (ms.map (·.2.2)) (mts.map (·.2)) ∧
      (∀ m ∈ ms, m.2.1 = decS m.1) ∧
      ((∀ m ∈ ms, KeyOK env m.1 m.2.1 ∧ (env.src ≠ .str → Spec.Utf8.validUtf8 m.2.2 = true)) →
        rawMapTop env bs = .ok (.map (ms.map memVal))) := by
  obtain ⟨w₁, v0, w₂, rfl, hw₁, hw₂, hd⟩ := h
  obtain ⟨inner, ms, rfl, hin, hms⟩ := minner_of_derives hd
  refine ⟨ms, hms.keys, hms.vals, hms.dec, fun hok => ?_⟩
  have hcap : ∀ m ∈ ms, MemOK env m := by
    intro m hm
    refine ⟨(hok m hm).1, ?_, (hok m hm).2⟩
    obtain ⟨i, hi, rfl⟩ := List.mem_iff_getElem.mp hm
    obtain ⟨hl, hg⟩ := allDerive_get hms.vals
    simp only [List.length_map] at hl hg
    have := hg i (by simpa using hi) (by omega)
    simp only [List.getElem_map] at this
    exact ⟨_, this⟩
  have := rawMapTop_complete env hflt ms w₁ inner w₂ hw₁ hw₂ hin hcap
  simpa [List.append_assoc] using this

/-- **C19 (object values versus the parsed value).** If the same bytes also deserialise into a `Value` `o`, then
    there are as many captures as members, the `i`-th capture deserialised on its own (same kind of source) is a
    value `xᵢ`, and `o` is the object built by inserting `(decoded keyᵢ, xᵢ)` in source order into the map
    (`mkObj`: `BTreeMap`, or `IndexMap` under `preserve_order`; a later duplicate replaces the earlier value): the
    captured text denotes exactly the member value it was captured from. -/
theorem c19_nested_canon_map (cfg : Cfg) (src : Src) (bs : Bytes) (o : JV) (v : TVal)
    (hval : parseTop ⟨cfg, src, .value⟩ bs = .ok o)
    (hraw : rawMapTop { cfg := cfg, src := src, flt := false } bs = .ok v) :
    ∃ (ms : List Mem) (vals : List JV), v = .map (ms.map memVal) ∧ ms.length = vals.length ∧
      (∀ (i : Nat) (h1 : i < ms.length) (h2 : i < vals.length), parseTop ⟨cfg, src, .value⟩ ms[i].2.2 = .ok vals[i]) ∧
      o = mkObj cfg ((ms.map (·.2.1)).zip vals) := by
  obtain ⟨ms, vals, hv, hall, ho⟩ := rawMap_canon cfg src bs o v hval hraw
  exact ⟨ms, vals, hv, hall.get.1, hall.get.2, ho⟩

/-- **… with the last-duplicate rule.** Looking a key `s` up in that `Value`: if the LAST entry captured with the
    decoded key `s` holds the text `c` (entries `pre ++ (k, s, c) :: post`, no entry of `post` has key `s`), the
    object `o` has a member `s` and its value is what `c` parses to on its own. -/
theorem c19_nested_canon_map_last (cfg : Cfg) (src : Src) (bs : Bytes) (o : JV) (v : TVal)
    (hval : parseTop ⟨cfg, src, .value⟩ bs = .ok o)
    (hraw : rawMapTop { cfg := cfg, src := src, flt := false } bs = .ok v)
    (pre post : List Mem) (k : List StrItem) (s c : Bytes) (hv : v = .map ((pre ++ (k, s, c) :: post).map memVal))
    (hlast : ∀ m ∈ post, m.2.1 ≠ s) :
    ∃ (fields : List (Bytes × JV)) (x : JV), o = .obj fields ∧ parseTop ⟨cfg, src, .value⟩ c = .ok x ∧
      SJ.Proofs.MkObj.find s fields = some x := by
  obtain ⟨ms, vals, hv', hall, ho⟩ := rawMap_canon cfg src bs o v hval hraw
  rw [hv] at hv'
  simp only [TVal.map.injEq] at hv'
  obtain ⟨hk, hc⟩ := map_memVal_eq hv'
  -- split `ms` and `vals` at the position of the entry
  have split : ∀ (pre : List Mem) (ms : List Mem) (vals : List JV),
      AllRel (fun (m : Mem) (x : JV) => parseTop ⟨cfg, src, .value⟩ m.2.2 = .ok x) ms vals →
      (pre ++ (k, s, c) :: post).map (·.2.1) = ms.map (·.2.1) → (pre ++ (k, s, c) :: post).map (·.2.2) = ms.map (·.2.2) →
      ∃ (kv1 kv2 : List (Bytes × JV)) (x : JV), (ms.map (·.2.1)).zip vals = kv1 ++ (s, x) :: kv2 ∧
        parseTop ⟨cfg, src, .value⟩ c = .ok x ∧ SJ.Proofs.MkObj.keys kv2 = post.map (·.2.1) := by
    intro pre
    induction pre with
    | nil =>
      intro ms vals hall hk hc
      cases hall with
      | nil => simp at hk
      | cons h hs =>
        rename_i m x ms' vals'
        simp only [List.nil_append, List.map_cons, List.cons.injEq] at hk hc
        refine ⟨[], (ms'.map (·.2.1)).zip vals', x, by simp [← hk.1], by rw [hc.1]; exact h, ?_⟩
        have hl := hs.get.1
        simp only [SJ.Proofs.MkObj.keys]
        rw [List.map_fst_zip (by simp [hl]), hk.2]
    | cons p pre ih =>
      intro ms vals hall hk hc
      cases hall with
      | nil => simp at hk
      | cons h hs =>
        rename_i m x ms' vals'
        simp only [List.cons_append, List.map_cons, List.cons.injEq] at hk hc
        obtain ⟨kv1, kv2, x', h1, h2, h3⟩ := ih ms' vals' hs hk.2 hc.2
        exact ⟨(m.2.1, x) :: kv1, kv2, x', by simp [h1], h2, h3⟩
  obtain ⟨kv1, kv2, x, hz, hp, hk2⟩ := split pre ms vals hall hk hc
  refine ⟨SJ.Proofs.MkObj.build cfg ((ms.map (·.2.1)).zip vals), x, by rw [ho]; rfl, hp, ?_⟩
  rw [SJ.Proofs.MkObj.find_build, hz]
  apply SJ.Proofs.MkObj.lookupLast_of_last
  rw [hk2]
  intro hmem
  obtain ⟨m, hm, hms⟩ := List.mem_map.mp hmem
  exact hlast m hm hms

/-- non-vacuity: ` {"a" : 1 ,"a":[ ]}` (`exObj` of `C19Nested.lean`) — the captures are `1` and `[ ]` under the
    same decoded key `a`; the parsed `Value` is `{"a":[]}`: the last capture's value -/
theorem exObj_value : parseTop ⟨{}, .slice, .value⟩ exObj = .ok (.obj [([0x61], .arr [])]) := by
  have h : Outcome.isOk (parseTop ⟨{}, .slice, .value⟩ exObj) (.obj [([0x61], .arr [])]) = true := by decide +kernel
  cases hp : parseTop ⟨{}, .slice, .value⟩ exObj with
  | err c i => rw [hp] at h; cases h
  | ok v => rw [hp] at h; rw [SJ.JV.eq_of_beq _ _ h]
example : ∃ (fields : List (Bytes × JV)) (x : JV), JV.obj [([0x61], .arr [])] = .obj fields ∧
    parseTop ⟨{}, .slice, .value⟩ [0x5b, 0x20, 0x5d] = .ok x ∧ SJ.Proofs.MkObj.find [0x61] fields = some x :=
  c19_nested_canon_map_last {} .slice exObj _ _ exObj_value rfl [([.raw 0x61], [0x61], [0x31])] []
    [.uni 0x30 0x30 0x36 0x31] [0x61] [0x5b, 0x20, 0x5d] rfl (by simp)
/-- the hypothesis of `c19_nested_complete_map` is satisfiable: `exObj` is an object text, and its two members are
    captured -/
example : ∃ mts, JsonText exObj (.obj mts) ∧ ∃ ms : List Mem, ms.map (·.1) = mts.map (·.1) ∧
    ((∀ m ∈ ms, KeyOK {} m.1 m.2.1 ∧ (Src.slice ≠ .str → Spec.Utf8.validUtf8 m.2.2 = true)) →
      rawMapTop {} exObj = .ok (.map (ms.map memVal))) := by
  obtain ⟨_, _, _, _, ht, _⟩ := c19_nested_grammar_map {} exObj _ (rfl : rawMapTop {} exObj = .ok _)
  obtain ⟨ms, h1, _, _, h2⟩ := c19_nested_complete_map {} rfl exObj _ ht
  exact ⟨_, ht, ms, h1, h2⟩

end SJ.Props.C19
