import SJ.Proofs.ValueEq
import SJ.Proofs.MapRef
/-!
# C17 — objects behave as dictionaries; equality and hashing ignore order

Property theorems only; helper lemmas live in `SJ/Proofs/Map*.lean` and `SJ/Proofs/ValueEq.lean`.

Vocabulary (all in `SJ/Spec/AMap.lean`, `SJ/Spec/ValueEq.lean`):
`AMap V = Bytes → Option V` is a dictionary; `Step o d d' r` is the contract of one `Map` method
(new dictionary `d'`, return value `r`); `Run` chains it along a history; `ordStep` is the
documented effect of a method on the *key sequence* of an insertion-ordered map; `abs` is the
order-free meaning of a `Value`; `WF po v` says that every object inside `v` satisfies the
representation invariant of its build (which `c17_order_*` prove for every reachable map) and
that no float is a NaN (`Number` never stores one).
-/
namespace SJ.Props.C17
open SJ SJ.Spec.AMap SJ.Proofs.MapOrder
open SJ.Proofs.MapBTree (absm Sorted)
open SJ.Proofs.MapIndex (NodupKeys)
open SJ.Spec.ValueEq (abs WF ascAll)
open SJ.Model.ValueEq (beqJV hashJV hashNum sortAll sortAllPO)

variable {V : Type}

/-! ## (b) iteration order — invariants of every reachable state -/

/-- **Default build.** Whatever history of API calls produced a map, its entry sequence is
    strictly ascending by key (byte-wise, i.e. Rust's `String` order). -/
theorem c17_order_btree {m : Model.MapBTree.BMap V} (h : Model.MapBTree.Reachable m) : Asc (keys m) := by
  induction h with
  | new => exact List.Pairwise.nil
  | step o _ ih => exact Proofs.MapBTree.step_sorted o ih

/-- forward iteration yields that ascending sequence, backward iteration its reverse -/
theorem c17_order_btree_iter {m : Model.MapBTree.BMap V} (h : Model.MapBTree.Reachable m) :
    ∃ l, (Model.MapBTree.step .iter m).2 = .kvs l ∧ (Model.MapBTree.step .iterRev m).2 = .kvs l.reverse ∧
      (Model.MapBTree.step .keys m).2 = .keys (keys l) ∧ Asc (keys l) :=
  ⟨m, rfl, rfl, rfl, c17_order_btree h⟩

/-- **preserve_order.** No reachable state ever lists a key twice. -/
theorem c17_order_index_nodup {m : Model.MapIndex.IMap V} (h : Model.MapIndex.Reachable m) : (keys m).Nodup := by
  induction h with
  | new => exact List.nodup_nil
  | step o _ ih => exact Proofs.MapIndex.step_nodup o ih

/-- **preserve_order.** Every method moves the keys exactly as documented: new keys go to the end,
    existing keys keep their place, plain `remove`/`remove_entry` (on the map and on an occupied
    entry) and `swap_remove*` put the last key into the hole, `shift_remove*` close the hole,
    `shift_insert` moves/inserts at the index (or panics without effect), `append`/`extend` insert
    in sequence, `retain` keeps the survivors in place, `sort_keys` sorts, everything else leaves
    the order alone (`ordStep`). Forward iteration is this sequence, backward its reverse. -/
theorem c17_order_index {m : Model.MapIndex.IMap V} (h : Model.MapIndex.Reachable m) (o : Op V) :
    keys (Model.MapIndex.step o m).1 = ordStep o (absm m) (keys m) ∧
    (Model.MapIndex.step .iter m).2 = .kvs m ∧ (Model.MapIndex.step .iterRev m).2 = .kvs m.reverse :=
  ⟨Proofs.MapIndex.step_order o (c17_order_index_nodup h), rfl, rfl⟩

/-- after `sort_keys` a preserve_order map iterates in strictly ascending key order -/
theorem c17_order_index_sort_keys {m : Model.MapIndex.IMap V} (h : Model.MapIndex.Reachable m) :
    Asc (keys (Model.MapIndex.step .sortKeys m).1) := by
  rw [(c17_order_index h .sortKeys).1]
  exact Proofs.MapIndex.sortKeys_asc (c17_order_index_nodup h)

/-! ## (a) every operation refines the reference dictionary -/

/-- **Default build**: for every reachable map and every method of that build, the returned value
    and the resulting contents are those of the dictionary contract. -/
theorem c17_refines_btree {m : Model.MapBTree.BMap V} (h : Model.MapBTree.Reachable m) (o : Op V)
    (hd : o.inDefault = true) :
    Step o (absm m) (absm (Model.MapBTree.step o m).1) (Model.MapBTree.step o m).2 :=
  Proofs.MapBTree.step_refines o hd (c17_order_btree h)

/-- **preserve_order**: the same for every method (including `shift_insert`, `swap_*`, `shift_*`). -/
theorem c17_refines_index {m : Model.MapIndex.IMap V} (h : Model.MapIndex.Reachable m) (o : Op V) :
    Step o (absm m) (absm (Model.MapIndex.step o m).1) (Model.MapIndex.step o m).2 :=
  Proofs.MapIndex.step_refines o (c17_order_index_nodup h)

theorem btree_runFrom {m : Model.MapBTree.BMap V} (h : Model.MapBTree.Reachable m) (ops : List (Op V))
    (hd : ∀ o ∈ ops, o.inDefault = true) :
    Run ops (absm m) (absm (Model.MapBTree.runFrom m ops).1) (Model.MapBTree.runFrom m ops).2 := by
  induction ops generalizing m with
  | nil => exact Run.nil _
  | cons o os ih =>
    exact Run.cons (c17_refines_btree h o (hd o (List.mem_cons_self ..)))
      (ih (Model.MapBTree.Reachable.step o h) (fun o' ho' => hd o' (List.mem_cons_of_mem _ ho')))

theorem index_runFrom {m : Model.MapIndex.IMap V} (h : Model.MapIndex.Reachable m) (ops : List (Op V)) :
    Run ops (absm m) (absm (Model.MapIndex.runFrom m ops).1) (Model.MapIndex.runFrom m ops).2 := by
  induction ops generalizing m with
  | nil => exact Run.nil _
  | cons o os ih => exact Run.cons (c17_refines_index h o) (ih (Model.MapIndex.Reachable.step o h))

/-- **Histories of any length**, default build: starting from `Map::new()`, the sequence of
    return values and the final contents are those the reference dictionary allows. -/
theorem c17_refines_btree_history (ops : List (Op V)) (hd : ∀ o ∈ ops, o.inDefault = true) :
    Run ops empty (absm (Model.MapBTree.run ops).1) (Model.MapBTree.run ops).2 :=
  btree_runFrom Model.MapBTree.Reachable.new ops hd

/-- **Histories of any length**, preserve_order. -/
theorem c17_refines_index_history (ops : List (Op V)) :
    Run ops empty (absm (Model.MapIndex.run ops).1) (Model.MapIndex.run ops).2 :=
  index_runFrom Model.MapIndex.Reachable.new ops

/-- The computable reference the driver runs beside the implementation (`Spec.AMap.Ref`: an
    association list where `insert` conses and the first match wins) obeys the same contract, so a
    return value or content it rejects is rejected by the function-level dictionary too. -/
theorem c17_ref_sound (o : Op V) (r : Ref V) : Step o (Ref.sem r) (Ref.sem (Ref.step o r).1) (Ref.step o r).2 :=
  Proofs.MapRef.step_sound o r

/-! ## (c) equality ignores order -/

/-- `BTreeMap ==` holds iff the two maps denote the same dictionary (values compared by `eqv`). -/
theorem c17_eq_order_free_btree (eqv : V → V → Bool) {m₁ m₂ : Model.MapBTree.BMap V}
    (h₁ : Model.MapBTree.Reachable m₁) (h₂ : Model.MapBTree.Reachable m₂) :
    Model.MapBTree.beq eqv m₁ m₂ = true ↔ DictRel (fun a b => eqv a b = true) (absm m₁) (absm m₂) :=
  Proofs.MapEq.btree_beq_iff eqv (c17_order_btree h₁) (c17_order_btree h₂)

/-- `IndexMap ==` holds iff the two maps denote the same dictionary — whatever their orders. -/
theorem c17_eq_order_free_index (eqv : V → V → Bool) {m₁ m₂ : Model.MapIndex.IMap V}
    (h₁ : Model.MapIndex.Reachable m₁) (h₂ : Model.MapIndex.Reachable m₂) :
    Model.MapIndex.beq eqv m₁ m₂ = true ↔ DictRel (fun a b => eqv a b = true) (absm m₁) (absm m₂) :=
  Proofs.MapEq.index_beq_iff eqv (c17_order_index_nodup h₁) (c17_order_index_nodup h₂)

/-- with a comparison of values that is equality, `==` is equality of the abstractions (both builds) -/
theorem c17_eq_order_free (eqv : V → V → Bool) (heq : ∀ a b, eqv a b = true ↔ a = b) :
    (∀ {m₁ m₂ : Model.MapBTree.BMap V}, Model.MapBTree.Reachable m₁ → Model.MapBTree.Reachable m₂ →
      (Model.MapBTree.beq eqv m₁ m₂ = true ↔ absm m₁ = absm m₂)) ∧
    (∀ {m₁ m₂ : Model.MapIndex.IMap V}, Model.MapIndex.Reachable m₁ → Model.MapIndex.Reachable m₂ →
      (Model.MapIndex.beq eqv m₁ m₂ = true ↔ absm m₁ = absm m₂)) := by
  have hR : (fun a b => eqv a b = true) = (Eq : V → V → Prop) := by funext a b; exact propext (heq a b)
  constructor
  · intro m₁ m₂ h₁ h₂
    rw [c17_eq_order_free_btree eqv h₁ h₂, hR]; exact Proofs.MapEq.dictRel_eq_iff _ _
  · intro m₁ m₂ h₁ h₂
    rw [c17_eq_order_free_index eqv h₁ h₂, hR]; exact Proofs.MapEq.dictRel_eq_iff _ _

/-- **Values** (`derive(PartialEq)` on `Value`, `Number`'s `PartialEq`, `Map`'s `==` of the build):
    `a == b` iff `a` and `b` have the same order-free meaning — at every depth, with `+0.0 == -0.0`. -/
theorem c17_eq_order_free_value (po : Bool) {a b : JV} (ha : WF po a) (hb : WF po b) :
    beqJV po a b = true ↔ abs a = abs b :=
  Proofs.ValueEq.beqJV_iff po a b ha hb

/-- a reachable map whose values are well-formed is a well-formed object (links (b) to `WF`) -/
theorem c17_wf_of_reachable_index {m : Model.MapIndex.IMap JV} (h : Model.MapIndex.Reachable m)
    (hv : ∀ k v, (k, v) ∈ m → WF true v) : WF true (.obj m) := by
  simp only [WF, if_true]
  exact ⟨c17_order_index_nodup h, (Proofs.ValueEq.wfMembers_iff true m).mpr hv⟩

theorem c17_wf_of_reachable_btree {m : Model.MapBTree.BMap JV} (h : Model.MapBTree.Reachable m)
    (hv : ∀ k v, (k, v) ∈ m → WF false v) : WF false (.obj m) := by
  simp only [WF, Bool.false_eq_true, if_false]
  exact ⟨c17_order_btree h, (Proofs.ValueEq.wfMembers_iff false m).mpr hv⟩

/-! ## (d) hashing is consistent with equality -/

/-- the calls made on the `Hasher` are a function of the order-free meaning of the value … -/
theorem c17_hash_abs (po : Bool) {a b : JV} (ha : WF po a) (hb : WF po b) (h : abs a = abs b) :
    hashJV po a = hashJV po b :=
  Proofs.ValueEq.hash_abs po a b ha hb h

/-- … hence **equal values feed equal sequences to the hasher** (both builds; differently ordered
    objects under preserve_order; `+0.0` vs `-0.0`). -/
theorem c17_hash (po : Bool) {a b : JV} (ha : WF po a) (hb : WF po b) (h : beqJV po a b = true) :
    hashJV po a = hashJV po b :=
  c17_hash_abs po ha hb ((c17_eq_order_free_value po ha hb).mp h)

/-! ## (e) sort_all_objects -/

/-- Under preserve_order, after `sort_all_objects` every object at every depth iterates in strictly
    ascending key order, the value is still well-formed, its meaning is unchanged, and so `==`
    against any value — in particular against the value before — is unchanged. -/
theorem c17_sort_all {v : JV} (h : WF true v) :
    ascAll (sortAll true v) = true ∧ WF true (sortAll true v) ∧ abs (sortAll true v) = abs v ∧
    (∀ b, WF true b → beqJV true (sortAll true v) b = beqJV true v b) ∧
    beqJV true (sortAll true v) v = true := by
  have hg : Gen.sortAllRecurses = true := rfl      -- extracted from `Value::sort_all_objects`
  have hs : sortAll true v = sortAllPO v := by simp [sortAll, hg]
  obtain ⟨h₁, h₂, h₃⟩ := Proofs.ValueEq.sortOk v h
  rw [hs]
  refine ⟨h₂, h₃, h₁, ?_, ?_⟩
  · intro b hb
    rw [Bool.eq_iff_iff, c17_eq_order_free_value true h₃ hb, c17_eq_order_free_value true h hb, h₁]
  · rw [c17_eq_order_free_value true h₃ h, h₁]

/-- In the default build `sort_all_objects` is compiled to nothing; objects are ascending already. -/
theorem c17_sort_all_default (v : JV) : sortAll false v = v := rfl

/-! ## non-vacuity: concrete histories and values (keys `a`=0x61, `b`=0x62, `c`=0x63) -/

def ka : Bytes := [0x61]
def kb : Bytes := [0x62]
def kc : Bytes := [0x63]
def n (i : Nat) : JV := .num (.pos i)

/-- inserting c, a, b: the default build iterates a, b, c; preserve_order c, a, b -/
example : (Model.MapBTree.run [.insert kc (n 1), .insert ka (n 2), .insert kb (n 3)]).1 =
    [(ka, n 2), (kb, n 3), (kc, n 1)] := rfl
example : keys (Model.MapIndex.run [.insert kc (n 1), .insert ka (n 2), .insert kb (n 3)]).1 = [kc, ka, kb] := by
  decide +kernel
/-- plain `remove` swaps under preserve_order: removing c from c,a,b leaves b,a; `shift_remove` leaves a,b -/
example : keys (Model.MapIndex.run [.insert kc (n 1), .insert ka (n 2), .insert kb (n 3),
    .remove .plain .value .map kc]).1 = [kb, ka] := by decide +kernel
example : keys (Model.MapIndex.run [.insert kc (n 1), .insert ka (n 2), .insert kb (n 3),
    .remove .shift .entry .occupied kc]).1 = [ka, kb] := by decide +kernel
/-- `shift_insert(0, b, …)` moves b to the front; an index equal to `len` panics for an existing key -/
example : keys (Model.MapIndex.run [.insert kc (n 1), .insert ka (n 2), .insert kb (n 3),
    .shiftInsert 0 kb (n 9)]).1 = [kb, kc, ka] := by decide +kernel
example : (Model.MapIndex.step (.shiftInsert 1 ka (n 9)) [(ka, n 1)]).1 = [(ka, n 1)] := rfl
/-- differently ordered nested objects with zeros of both signs are `==` and hash alike … -/
def v₁ : JV := .obj [(kb, .arr [.num (.float 0)]), (ka, .obj [(kc, .null), (kb, .bool true)])]
def v₂ : JV := .obj [(ka, .obj [(kb, .bool true), (kc, .null)]), (kb, .arr [.num (.float 0x8000000000000000)])]
example : beqJV true v₁ v₂ = true := by decide +kernel
example : hashJV true v₁ = hashJV true v₂ := by decide +kernel
example : hashNum (.float 0x8000000000000000) = hashNum (.float 0) := by decide +kernel
/-- … the hypotheses of the theorems hold for them, and a different value is told apart -/
example : WF true v₁ := by
  simp only [WF, Spec.ValueEq.WFMembers, Spec.ValueEq.WFList, v₁, ka, kb, kc, if_true]; decide
example : beqJV true v₁ (.obj [(ka, .null)]) = false := by decide +kernel
/-- `sort_all_objects` sorts at both depths -/
example : sortAll true v₁ = .obj [(ka, .obj [(kb, .bool true), (kc, .null)]), (kb, .arr [.num (.float 0)])] := rfl
/-- the reference contract distinguishes outcomes: `insert` of a present key must return the old value -/
example : ¬ Step (.insert ka (n 2)) (insert empty ka (n 1)) (insert empty ka (n 2)) (.optV none) := by
  intro h
  have := h.2
  simp [Spec.AMap.insert] at this

end SJ.Props.C17
