import SJ.Proofs.TypedDepth
import SJ.Props.Typed
import SJ.Props.C14
/-!
# C14, typed targets: the recursion limit of the typed text deserializer model

The typed analogue of `c14_depth_bounded` / `c14_limit_hit` (`SJ/Props/C14.lean`). In the model the number of
typed containers open is the argument `t` of `deTyped` (`remaining_depth = 128 − t`); it grows by one exactly at
the seven `check_recursion!` sites of `src/de.rs` (`deserialize_any` `[` `{`, `deserialize_seq` `[` — also reached
from `deserialize_tuple`, `deserialize_tuple_struct`, `deserialize_bytes` —, `deserialize_map` `{`,
`deserialize_struct` `[` `{`, `deserialize_enum` `{`). `Option`, newtype structs and the `"V"` form of a unit variant
do not consume depth; the `{"V": payload}` wrapper consumes one level and its payload is read one level down
(a newtype payload at `t + 1`, a tuple / struct payload opens `t + 2`); a nested `Value` continues on the same
budget (`padStack t`); `IgnoredAny` is scanned by the machine's ignored target, which has no depth check at all.
-/
namespace SJ.Props.TypedDepth
open SJ SJ.Gen SJ.Model SJ.Model.Typed SJ.Proofs.Typed SJ.Props.Typed
open SJ.Model.Machine (St Mode Frame)
open SJ.Proofs.Machine (feed)

/-- **C14 (typed targets, depth).** With the recursion limit enabled the typed deserializer never has more than 127
    containers open, on any input, accepted or rejected: `deTypedCap env poison` is the model with one line added —
    a call of a `deserialize_*` entry point with 128 or more containers open answers `poison` without reading
    anything — and it is the SAME function as the model from every depth `t ≤ 127`, for every `poison` (a value, an
    error, the model's "panic" outcome `.fuel`), fuel, schema, input and position. So no outcome of a run started at
    depth 0 depends on what would happen at depth 128: such a call is never made, and the Rust recursion through
    `visit_seq` / `visit_map` / `visit_enum` → `seed.deserialize` is at most 127 container frames deep
    (cf. `c14_depth_bounded`: at most 127 frames on the machine's stack). -/
theorem c14_typed_depth_bounded (env : Env) (hl : env.cfg.limitOff = false) (poison : TOut) (f t : Nat) (ht : t ≤ 127)
    (s : Schema) (rest : Bytes) (pos : Nat) : deTypedCap env poison f t s rest pos = deTyped env f t s rest pos := by
  rw [deTypedCap_eq env hl poison f t s ht]

/-- the cut-off model really cuts: at depth 128 it is `poison` (so the theorem above is not about a copy of `deTyped`
    that ignores its extra argument) -/
example (env : Env) (poison : TOut) (f t : Nat) (ht : 128 ≤ t) (s : Schema) (rest : Bytes) (pos : Nat) :
    deTypedCap env poison (f + 1) t s rest pos = poison := by
  simp only [deTypedCap]
  exact if_pos (by rw [depth128]; exact ht)

/-- **C14 (typed targets, the 128th container).** With the limit enabled and 127 containers open (or more: the
    statement covers every `t ≥ 127`), each entry point that runs `check_recursion!` — the schemas and opening bytes of
    `opener`: `Vec` / tuple / bytes on `[`, map / enum on `{`, struct and `Value` on either — fails with
    `RecursionLimitExceeded`, positioned by `peek_error` on the opening byte it has peeked (index of the byte + 1),
    whatever follows it and whatever whitespace precedes it. -/
theorem c14_typed_limit_hit (env : Env) (hl : env.cfg.limitOff = false) (f t : Nat) (ht : 127 ≤ t) (s : Schema) (rest : Bytes)
    (pos : Nat) (b : UInt8) (r : Bytes) (p : Nat) (hs : Stream.skipWs rest pos = (b :: r, p)) (ho : opener s b = true) :
    deTyped env (f + 1) t s rest pos = .err .RecursionLimitExceeded (p + 1) :=
  typed_limit_hit env hl f t ht s rest pos b r p hs ho

/-- **C14 (typed targets, what consumes depth).** The wrappers that are not containers hand the depth on unchanged — a newtype
    struct (`visit_newtype_struct(self)`) and `Some` (`visit_some(self)`) —, and the payload of the `{"V": payload}` form of an
    enum is read with one more container open than the enum itself (the `{` passed `check_recursion!`): a newtype payload
    directly at `t + 1`, tuple and struct payloads through `deserialize_seq` / `deserialize_struct` at `t + 1`, which open
    container `t + 2` behind their own check. -/
theorem c14_typed_wrapper_depth (env : Env) (f t : Nat) :
    (∀ s, deTyped env (f + 1) t (.newtype s) = deTyped env f t s) ∧
    (∀ s rest pos b r p, Stream.skipWs rest pos = (b :: r, p) → (b == 0x6e) = false →
      deTyped env (f + 1) t (.option s) rest pos = (deTyped env f t s (b :: r) p).map .some) ∧
    (∀ (de : Nat → Schema → Bytes → Nat → TOut) s, dePayload env (t + 1) de (.newtype s) = de (t + 1) s) ∧
    (∀ (de : Nat → Schema → Bytes → Nat → TOut) ss, dePayload env (t + 1) de (.tuple ss) =
      deSeq env (t + 1) (fun r p => (tupleLoop env (de (t + 2)) ss true [] r p).map .seq)) ∧
    (∀ (de : Nat → Schema → Bytes → Nat → TOut) fs, dePayload env (t + 1) de (.struct_ fs) = deStruct env (t + 1) de fs false) := by
  refine ⟨fun s => deTyped_newtype env f t s, ?_, fun _ _ => rfl, fun _ _ => rfl, fun _ _ => rfl⟩
  intro s rest pos b r p hs hb
  rw [deTyped_option]
  simp only [hs, hb, Bool.false_eq_true, if_false]

theorem seqTower_add (m n : Nat) (s : Schema) : seqTower (m + n) s = seqTower m (seqTower n s) := by
  induction m with
  | zero => simp [seqTower]
  | succ m ih => rw [Nat.succ_add]; simp only [seqTower, ih]

theorem seqTower_size (n : Nat) (s : Schema) : Schema.size (seqTower n s) = Schema.size s + n := by
  induction n with
  | zero => rfl
  | succ n ih => simp only [seqTower, Schema.size, ih]; omega

/-- **C14 (typed targets, input nested beyond the budget).** For every array tower `Vec<Vec<…<leaf>…>>` of height
    `n ≥ 128` and every leaf type, an input that starts with 128 opening brackets is rejected with
    `RecursionLimitExceeded` at byte count 128 — the bracket that would open container number 128 —, whatever follows. -/
theorem c14_typed_tower (env : Env) (hl : env.cfg.limitOff = false) (n : Nat) (hn : 128 ≤ n) (leaf : Schema) (tail : Bytes) :
    deTypedTop env (seqTower n leaf) (List.replicate 128 0x5b ++ tail) = .err .RecursionLimitExceeded 128 := by
  obtain ⟨m, rfl⟩ : ∃ m, n = 128 + m := ⟨n - 128, by omega⟩
  unfold deTypedTop
  rw [seqTower_add, seqTower_hit env hl (seqTower m leaf) tail 128 0 0 _ (by omega) (by omega)
    (by rw [← seqTower_add, seqTower_size]; have := size_pos leaf; omega)]

/-- **C14 (typed targets, nested `Value`).** A `Value` inside typed containers continues on their budget: the machine
    is started on `t` padding frames, and every state it reaches from there has at most 127 frames — typed and untyped
    containers together (`runPfx` advances by `step1`, the transition function of `feed`). -/
theorem c14_typed_value_depth (env : Env) (hl : env.cfg.limitOff = false) (t : Nat) (ht : t ≤ 127) (bs : Bytes) (s : St) (j : Nat)
    (h : feed (valEnv env) { mode := .val .top, stack := padStack t } 0 bs = .ok (s, j)) : s.stack.length ≤ 127 := by
  have key : ∀ (xs : Bytes) (s0 : St) (i : Nat), SJ.Props.C14.DepthOK s0 → feed (valEnv env) s0 i xs = .ok (s, j) →
      SJ.Props.C14.DepthOK s := by
    intro xs
    induction xs with
    | nil => intro s0 i h0 hf; simp [feed] at hf; exact hf.1 ▸ h0
    | cons b bs ih =>
      intro s0 i h0 hf
      simp only [feed] at hf
      cases hs : Machine.step (valEnv env) s0 b with
      | ok s1 => rw [hs] at hf; exact ih s1 (i + 1) (SJ.Props.C14.step_depth (valEnv env) rfl hl s0 b s1 h0 hs) hf
      | error e => obtain ⟨c, a⟩ := e; rw [hs] at hf; cases hf
  have := key bs _ 0 (by unfold SJ.Props.C14.DepthOK; simp [padStack, depth128]; omega) h
  unfold SJ.Props.C14.DepthOK at this
  rw [depth128] at this
  omega

/-! ## non-vacuity: depth profiles around the limit, every wrapper kind -/

def opens (n : Nat) : Bytes := List.replicate n 0x5b
def closes (n : Nat) : Bytes := List.replicate n 0x5d
def isTopOk (o : Top) : Bool := match o with | .ok _ => true | _ => false

-- arrays: 127 levels are accepted, the 128th `[` is refused at byte count 128; with the limit off 130 levels parse
example : isTopOk (deTypedTop {} (seqTower 130 .bool) (opens 127 ++ closes 127)) = true := by decide +kernel
example : Top.isErr (deTypedTop {} (seqTower 130 .bool) (opens 128 ++ closes 128)) .RecursionLimitExceeded 128 = true := by decide +kernel
example : deTypedTop {} (seqTower 130 .bool) (opens 128 ++ closes 128) = .err .RecursionLimitExceeded 128 :=
  c14_typed_tower {} rfl 130 (by decide) .bool _
example : isTopOk (deTypedTop { cfg := { limitOff := true } } (seqTower 130 .bool) (opens 130 ++ closes 130)) = true := by decide +kernel

/-- `enum E_n { A(E_{n-1}) }`, `E_0 = bool`: newtype-variant wrappers `{"A":` … `}` -/
def enumTower : Nat → Schema
  | 0 => .bool
  | n + 1 => .enum_ [([0x41], .newtype (enumTower n))]
def wrapA : Nat → Bytes → Bytes
  | 0, x => x
  | n + 1, x => [0x7b, 0x22, 0x41, 0x22, 0x3a] ++ wrapA n x ++ [0x7d]
def litTrue : Bytes := [0x74, 0x72, 0x75, 0x65]

-- each `{"A":` wrapper is one level: 127 are accepted, the 128th `{` (byte 5·127) is refused
example : isTopOk (deTypedTop {} (enumTower 127) (wrapA 127 litTrue)) = true := by decide +kernel
example : Top.isErr (deTypedTop {} (enumTower 130) (wrapA 128 litTrue)) .RecursionLimitExceeded (5 * 127 + 1) = true := by decide +kernel

/-- `enum S_n { S { x: S_{n-1} } }`: struct-variant wrappers `{"S":{"x":` … `}}`, two levels each -/
def structTower : Nat → Schema
  | 0 => .bool
  | n + 1 => .enum_ [([0x53], .struct_ [([0x78], structTower n)])]
def wrapS : Nat → Bytes → Bytes
  | 0, x => x
  | n + 1, x => [0x7b, 0x22, 0x53, 0x22, 0x3a, 0x7b, 0x22, 0x78, 0x22, 0x3a] ++ wrapS n x ++ [0x7d, 0x7d]

-- 63 wrappers = 126 levels: accepted; 64 wrappers: the struct's `{` of the 64th is container 128
example : isTopOk (deTypedTop {} (structTower 63) (wrapS 63 litTrue)) = true := by decide +kernel
example : Top.isErr (deTypedTop {} (structTower 70) (wrapS 64 litTrue)) .RecursionLimitExceeded (10 * 63 + 6) = true := by decide +kernel

-- `Option` and newtype structs are transparent: 127 arrays under 127 `Option`s / newtypes are still accepted
def optTower : Nat → Schema
  | 0 => .bool
  | n + 1 => .option (.newtype (.seq (optTower n)))
example : isTopOk (deTypedTop {} (optTower 130) (opens 127 ++ closes 127)) = true := by decide +kernel
example : Top.isErr (deTypedTop {} (optTower 130) (opens 128 ++ closes 128)) .RecursionLimitExceeded 128 = true := by decide +kernel

-- a nested `Value` shares the budget: 100 typed levels + 27 inside the `Value` are accepted, the 28th is container 128
example : isTopOk (deTypedTop {} (seqTower 100 .any) (opens 127 ++ closes 127)) = true := by decide +kernel
example : Top.isErr (deTypedTop {} (seqTower 100 .any) (opens 128 ++ closes 128)) .RecursionLimitExceeded 128 = true := by decide +kernel
-- `IgnoredAny` is scanned without recursion at any depth
example : isTopOk (deTypedTop {} (seqTower 3 .ignored) (opens 300 ++ closes 300)) = true := by decide +kernel
-- maps: `{"k":` towers
def mapTower : Nat → Schema
  | 0 => .bool
  | n + 1 => .map .string (mapTower n)
def wrapK : Nat → Bytes → Bytes
  | 0, x => x
  | n + 1, x => [0x7b, 0x22, 0x6b, 0x22, 0x3a] ++ wrapK n x ++ [0x7d]
example : isTopOk (deTypedTop {} (mapTower 127) (wrapK 127 litTrue)) = true := by decide +kernel
example : Top.isErr (deTypedTop {} (mapTower 130) (wrapK 128 litTrue)) .RecursionLimitExceeded (5 * 127 + 1) = true := by decide +kernel

end SJ.Props.TypedDepth
