import SJ.Proofs.RawSimStr
import SJ.Props.TypedSrc
import SJ.Props.C09Stream
/-!
# C09 — nested raw captures from the three sources, failing runs included

`c09_raw_nested_sources` / `c09_raw_map_sources` (`SJ/Props/C09Stream.lean`) relate the SUCCESSFUL runs of
`from_*::<Vec<Box<RawValue>>>` / `from_*::<map of Box<RawValue>>` (`Model.RawNested.rawSeqTop`, `rawMapTop`). The error
of a failing run is raised by the sequence / map machinery of the typed deserializer around
`deserialize_raw_value`, or by `deserialize_raw_value` itself; here the relation between the sources is stated for
EVERY input, in the shape of `c09_typed_slice_reader` (`SJ/Props/TypedSrc.lean`) — the same two-run simulation
(`SJ/Proofs/TypedSim.lean`) with `deserialize_raw_value` as one more entry point (`SJ/Proofs/RawSim.lean`).
-/
namespace SJ.Props.C09
open SJ SJ.Gen SJ.Model SJ.Model.Typed SJ.Model.RawNested SJ.Proofs.Typed SJ.Proofs.RawSim
open SJ.Props.Typed SJ.Props.TypedSrc
open SJ.Model.Machine (Src)

/-- `finishTop` (the value, then `Deserializer::end()`) applied to a slice run and a reader run related by `SR` -/
theorem finishTop_sr (cfg : Machine.Cfg) (flt : Bool) (bs : Bytes) {a b : TOut} (h : SR a b) (hw : Win bs.length b) :
    finishTop (eSlice cfg flt) a = finishTop (eReader cfg flt) b ∨
    (∃ c i, PeekCode c ∧ i < bs.length ∧ finishTop (eSlice cfg flt) a = .err c i ∧ finishTop (eReader cfg flt) b = .err c (i + 1)) ∨
    (∃ i, i < bs.length ∧ finishTop (eSlice cfg flt) a = .data (some i) ∧ finishTop (eReader cfg flt) b = .data (some (i + 1))) := by
  cases h with
  | same => exact .inl (by cases a <;> rfl)
  | errP c i hc => exact .inr (.inl ⟨c, i, hc, hw.1 c (i + 1) rfl, rfl, rfl⟩)
  | dataP i => exact .inr (.inr ⟨i, hw.2.1 (i + 1) rfl, rfl, rfl⟩)

/-- **C09 (raw values as array elements, slice vs reader, every input).** For every configuration and byte string —
    with a clean end of input or a failing reader alike — `from_slice::<Vec<Box<RawValue>>>` and
    `from_reader::<Vec<Box<RawValue>>>` give the IDENTICAL outcome (the same captures; the same parser error code at the
    same index: every error of the scanner inside an element, of `has_next_element` / `end_seq` / `end()`, the
    `InvalidUnicodeCodePoint` of a captured text that is not UTF-8; both `Io`), except that an error positioned by
    `self.error(code)` / `fix_position` with a byte in the reader's peek slot is reported by the reader exactly one byte
    later, and then the slice's index is that of a byte of the input: the sites of `c09_typed_slice_reader` (for this
    target: the `invalid type` of an input that is not an array, positioned with its first byte peeked). -/
theorem c09_raw_nested_slice_reader (cfg : Machine.Cfg) (flt : Bool) (bs : Bytes) :
    rawSeqTop { cfg := cfg, src := .slice, flt := flt } bs = rawSeqTop { cfg := cfg, src := .reader, flt := flt } bs ∨
    (∃ c i, PeekCode c ∧ i < bs.length ∧ rawSeqTop { cfg := cfg, src := .slice, flt := flt } bs = .err c i ∧
      rawSeqTop { cfg := cfg, src := .reader, flt := flt } bs = .err c (i + 1)) ∨
    (∃ i, i < bs.length ∧ rawSeqTop { cfg := cfg, src := .slice, flt := flt } bs = .data (some i) ∧
      rawSeqTop { cfg := cfg, src := .reader, flt := flt } bs = .data (some (i + 1))) :=
  finishTop_sr cfg flt bs (sim_rawSeq (sim_slice_reader cfg flt) rfl bs 0 trivial) (win_rawSeq bs 0 (by omega))

/-- **C09 (raw values as object values, slice vs reader, every input).** The same for a map with `String` keys and
    `Box<RawValue>` values. -/
theorem c09_raw_map_slice_reader (cfg : Machine.Cfg) (flt : Bool) (bs : Bytes) :
    rawMapTop { cfg := cfg, src := .slice, flt := flt } bs = rawMapTop { cfg := cfg, src := .reader, flt := flt } bs ∨
    (∃ c i, PeekCode c ∧ i < bs.length ∧ rawMapTop { cfg := cfg, src := .slice, flt := flt } bs = .err c i ∧
      rawMapTop { cfg := cfg, src := .reader, flt := flt } bs = .err c (i + 1)) ∨
    (∃ i, i < bs.length ∧ rawMapTop { cfg := cfg, src := .slice, flt := flt } bs = .data (some i) ∧
      rawMapTop { cfg := cfg, src := .reader, flt := flt } bs = .data (some (i + 1))) :=
  finishTop_sr cfg flt bs (sim_rawMap (sim_slice_reader cfg flt) rfl bs 0 trivial) (win_rawMap bs 0 (by omega))

/-- … a single `Box<RawValue>` through the same entry point (`rawOneTop`): identical from both sources, always
    (`deserialize_raw_value` has no `fix_position` site) — `c09_raw_sources` restated over the typed model's `deRaw`,
    failing reader included -/
theorem c09_raw_one_slice_reader (cfg : Machine.Cfg) (flt : Bool) (bs : Bytes) :
    rawOneTop { cfg := cfg, src := .slice, flt := flt } bs = rawOneTop { cfg := cfg, src := .reader, flt := flt } bs ∨
    (∃ c i, PeekCode c ∧ i < bs.length ∧ rawOneTop { cfg := cfg, src := .slice, flt := flt } bs = .err c i ∧
      rawOneTop { cfg := cfg, src := .reader, flt := flt } bs = .err c (i + 1)) ∨
    (∃ i, i < bs.length ∧ rawOneTop { cfg := cfg, src := .slice, flt := flt } bs = .data (some i) ∧
      rawOneTop { cfg := cfg, src := .reader, flt := flt } bs = .data (some (i + 1))) :=
  finishTop_sr cfg flt bs (sim_deRaw (sim_slice_reader cfg flt) rfl bs 0 trivial) (win_deRaw bs 0 (by omega))

/-- **C09 (nested raw captures), as the clause reads** — the predicate `judgePair` (`SJ/Drv/Typed.lean`) evaluates on the
    crate's outcomes in op `rawnest`: the same class of outcome (same captures / same parser error code / both a visitor
    error, positioned alike) and the reader's index equal to the slice's or one more. -/
theorem c09_raw_nested_class (cfg : Machine.Cfg) (flt : Bool) (bs : Bytes) :
    (cls (rawSeqTop { cfg := cfg, src := .slice, flt := flt } bs) = cls (rawSeqTop { cfg := cfg, src := .reader, flt := flt } bs) ∧
      (idx (rawSeqTop { cfg := cfg, src := .reader, flt := flt } bs) = idx (rawSeqTop { cfg := cfg, src := .slice, flt := flt } bs) ∨
       idx (rawSeqTop { cfg := cfg, src := .reader, flt := flt } bs) = idx (rawSeqTop { cfg := cfg, src := .slice, flt := flt } bs) + 1)) ∧
    (cls (rawMapTop { cfg := cfg, src := .slice, flt := flt } bs) = cls (rawMapTop { cfg := cfg, src := .reader, flt := flt } bs) ∧
      (idx (rawMapTop { cfg := cfg, src := .reader, flt := flt } bs) = idx (rawMapTop { cfg := cfg, src := .slice, flt := flt } bs) ∨
       idx (rawMapTop { cfg := cfg, src := .reader, flt := flt } bs) = idx (rawMapTop { cfg := cfg, src := .slice, flt := flt } bs) + 1)) := by
  constructor
  · rcases c09_raw_nested_slice_reader cfg flt bs with h | ⟨c, i, _, _, h1, h2⟩ | ⟨i, _, h1, h2⟩
    · rw [h]; exact ⟨rfl, .inl rfl⟩
    · rw [h1, h2]; exact ⟨rfl, .inr rfl⟩
    · rw [h1, h2]; exact ⟨rfl, .inr rfl⟩
  · rcases c09_raw_map_slice_reader cfg flt bs with h | ⟨c, i, _, _, h1, h2⟩ | ⟨i, _, h1, h2⟩
    · rw [h]; exact ⟨rfl, .inl rfl⟩
    · rw [h1, h2]; exact ⟨rfl, .inr rfl⟩
    · rw [h1, h2]; exact ⟨rfl, .inr rfl⟩

/-- **C09 (nested raw captures, `&str` vs slice, every input).** On valid UTF-8 input (every `&str`) the `&str` source
    gives the IDENTICAL outcome as the slice source — captures or error, same code, same index — for
    `Vec<Box<RawValue>>`, a map of `Box<RawValue>` and a single `Box<RawValue>`: the `from_utf8` check of a captured
    text, which only the byte sources make, cannot fail there (a grammar value begins and ends with an ASCII byte), and
    the typed machinery around it consumes ASCII only (`c09_typed_str_slice`). Strengthens the `&str` halves of
    `c09_raw_nested_sources` / `c09_raw_map_sources` from successful runs to all runs. -/
theorem c09_raw_nested_str_slice (cfg : Machine.Cfg) (flt : Bool) (bs : Bytes) (h : Spec.Utf8.validUtf8 bs = true) :
    rawSeqTop { cfg := cfg, src := .str, flt := flt } bs = rawSeqTop { cfg := cfg, src := .slice, flt := flt } bs ∧
    rawMapTop { cfg := cfg, src := .str, flt := flt } bs = rawMapTop { cfg := cfg, src := .slice, flt := flt } bs ∧
    rawOneTop { cfg := cfg, src := .str, flt := flt } bs = rawOneTop { cfg := cfg, src := .slice, flt := flt } bs := by
  refine ⟨?_, ?_, ?_⟩
  · show finishTop (eStr cfg flt) (rawSeq (eStr cfg flt) bs 0) = finishTop (eSlice cfg flt) (rawSeq (eSlice cfg flt) bs 0)
    rw [su_rawSeq cfg flt bs 0 h]; rfl
  · show finishTop (eStr cfg flt) (rawMap (eStr cfg flt) bs 0) = finishTop (eSlice cfg flt) (rawMap (eSlice cfg flt) bs 0)
    rw [su_rawMap cfg flt bs 0 h]; rfl
  · show finishTop (eStr cfg flt) (deRaw (eStr cfg flt) bs 0) = finishTop (eSlice cfg flt) (deRaw (eSlice cfg flt) bs 0)
    rw [su_deRaw_eq cfg flt bs 0 h]; rfl

/-! ## non-vacuity: failing runs, agreeing and one byte apart -/

-- `1` as `Vec<Box<RawValue>>`: `invalid type` positioned by `peek_invalid_type` + `fix_position` after the number was
-- consumed (nothing left to peek): 1 from both; `1 ` (a byte follows, peeked by the reader): slice 1, reader 2
example : Top.isData (rawSeqTop { src := .slice } [0x31]) (some 1) = true ∧
    Top.isData (rawSeqTop { src := .reader } [0x31]) (some 1) = true := by decide +kernel
example : Top.isData (rawSeqTop { src := .slice } [0x31, 0x20]) (some 1) = true ∧
    Top.isData (rawSeqTop { src := .reader } [0x31, 0x20]) (some 2) = true := by decide +kernel
-- `{}` as `Vec<Box<RawValue>>`: `invalid type: map` with `{` peeked: slice 0, reader 1
example : Top.isData (rawSeqTop { src := .slice } [0x7b, 0x7d]) (some 0) = true ∧
    Top.isData (rawSeqTop { src := .reader } [0x7b, 0x7d]) (some 1) = true := by decide +kernel
-- parser errors agree: `[1,]` (trailing comma at 4), `[1 2]`, an element that is not JSON (`[x]`: the scanner, at 2),
-- an element that is not UTF-8 (`["\xff"]`: `InvalidUnicodeCodePoint` at the end of the element, 4)
example : Top.isErr (rawSeqTop { src := .slice } [0x5b, 0x31, 0x2c, 0x5d]) .TrailingComma 4 = true ∧
    Top.isErr (rawSeqTop { src := .reader } [0x5b, 0x31, 0x2c, 0x5d]) .TrailingComma 4 = true := by decide +kernel
example : Top.isErr (rawSeqTop { src := .slice } [0x5b, 0x78, 0x5d]) .ExpectedSomeValue 2 = true ∧
    Top.isErr (rawSeqTop { src := .reader } [0x5b, 0x78, 0x5d]) .ExpectedSomeValue 2 = true := by decide +kernel
example : Top.isErr (rawSeqTop { src := .slice } [0x5b, 0x22, 0xff, 0x22, 0x5d]) .InvalidUnicodeCodePoint 4 = true ∧
    Top.isErr (rawSeqTop { src := .reader } [0x5b, 0x22, 0xff, 0x22, 0x5d]) .InvalidUnicodeCodePoint 4 = true := by decide +kernel
-- a map: `{"a":1,}` trailing comma at 8 from both; `[]` as a map: `invalid type: sequence`, slice 0 / reader 1
example : Top.isErr (rawMapTop { src := .slice } [0x7b, 0x22, 0x61, 0x22, 0x3a, 0x31, 0x2c, 0x7d]) .TrailingComma 8 = true ∧
    Top.isErr (rawMapTop { src := .reader } [0x7b, 0x22, 0x61, 0x22, 0x3a, 0x31, 0x2c, 0x7d]) .TrailingComma 8 = true := by decide +kernel
example : Top.isData (rawMapTop { src := .slice } [0x5b, 0x5d]) (some 0) = true ∧
    Top.isData (rawMapTop { src := .reader } [0x5b, 0x5d]) (some 1) = true := by decide +kernel
-- `&str` vs slice: the hypothesis is needed (`["\xff"]` is not a `&str`; the `&str` model would capture it unchecked)
example : Top.isOk (rawSeqTop { src := .str } [0x5b, 0x22, 0xff, 0x22, 0x5d]) (.seq [.str [0x22, 0xff, 0x22]]) = true := by decide +kernel
-- … and on `["é" x` (valid UTF-8, failing) both report the same error
example : rawSeqTop { src := .str } [0x5b, 0x22, 0xc3, 0xa9, 0x22, 0x20, 0x78] =
    rawSeqTop { src := .slice } [0x5b, 0x22, 0xc3, 0xa9, 0x22, 0x20, 0x78] :=
  (c09_raw_nested_str_slice {} false _ (by decide +kernel)).1
example : Top.isErr (rawSeqTop { src := .slice } [0x5b, 0x22, 0xc3, 0xa9, 0x22, 0x20, 0x78]) .ExpectedListCommaOrEnd 7 = true := by
  decide +kernel

end SJ.Props.C09
