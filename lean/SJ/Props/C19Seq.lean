import SJ.Model.RawSeq
import SJ.Proofs.RawSpan
/-!
# C19 — successive raw captures on one `Deserializer` (`Model.RawSeq`)

Every text captured by any call of a run of `Box::<RawValue>::deserialize(&mut de)` calls that has not failed yet is
exactly one JSON value (a derivation of the byte-level grammar), non-empty, UTF-8 on byte sources, and sits in the input
immediately before what that call leaves unread, preceded only by whitespace and the part of the input the earlier
calls consumed — "nothing before it, nothing after it", for every call, not only the first.
-/
namespace SJ.Props.C19Seq
open SJ SJ.Model.Typed SJ.Model.RawNested SJ.Model.RawSeq
open SJ.Spec.Grammar (CST Ws Derives)

/-- **C19 (successive captures).** Any value item `ok x r e` among at most `k` successive raw captures that start on
    `rest` (absolute index `pos`): `x` is a text `c`, `rest = pre ++ w ++ c ++ r` with `w` whitespace (`pre`: what the
    earlier calls consumed), `c` is one JSON value, non-empty, and valid UTF-8 unless the source is a `&str`. -/
theorem c19_seq_capture (env : Env) : ∀ (k : Nat) (rest : Bytes) (pos : Nat) (x : TVal) (r : Bytes) (e : Nat),
    Res.ok x r e ∈ seqItems (deRaw env) k rest pos →
    ∃ pre w c, x = TVal.str c ∧ rest = pre ++ w ++ c ++ r ∧ Ws w ∧ c ≠ [] ∧ (∃ t, Derives c t) ∧
      (env.src ≠ .str → Spec.Utf8.validUtf8 c = true)
  | 0, _, _, _, _, _, h => by simp [seqItems] at h
  | k + 1, rest, pos, x, r, e, h => by
    unfold seqItems at h
    split at h
    · rename_i v r1 p1 hde
      obtain ⟨w0, c0, hv, hrest, hw0, _, hc0, hd0, hu0⟩ := SJ.Proofs.RawSpan.deRaw_sound env rest pos v r1 p1 hde
      rcases List.mem_cons.mp h with heq | htail
      · injection heq with hx hr he
        subst hx hr
        exact ⟨[], w0, c0, hv, by simpa using hrest, hw0, hc0, hd0, hu0⟩
      · obtain ⟨pre, w, c, hx, hr1, hw, hc, hd, hu⟩ := c19_seq_capture env k r1 p1 x r e htail
        refine ⟨w0 ++ c0 ++ pre, w, c, hx, ?_, hw, hc, hd, hu⟩
        rw [hrest, hr1]; simp [List.append_assoc]
    · rename_i hno
      have heq : Res.ok x r e = deRaw env rest pos := by simpa using h
      exact absurd heq.symm (hno x r e)

/-- non-vacuity: `nul 1`-free history `1 [2]` read twice from a slice: the texts `1` and `[2]` -/
example : ((rawItems { src := .slice } 2 [0x31, 0x20, 0x5b, 0x32, 0x5d]).map fun
    | .ok (.str t) _ _ => t | _ => []) = [[0x31], [0x5b, 0x32, 0x5d]] := by decide +kernel

end SJ.Props.C19Seq
