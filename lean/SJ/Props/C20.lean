import SJ.Props.C01
import SJ.Props.C02
import SJ.Proofs.CanonM
/-!
# C20 — arbitrary_precision keeps every number literal verbatim

With `cfg.ap` the parser model stores `Num.lit raw`. Proved from the completeness/soundness pair:
the stored text is the literal, byte for byte, for every RFC 8259 number; nothing but numbers is
accepted by the number entry point.
-/
namespace SJ.Props.C20
open SJ SJ.Gen SJ.Model.Machine SJ.Spec.Grammar SJ.Proofs.CanonM

/-- **C20 (verbatim).** Under arbitrary_precision, for every configuration/source and every RFC 8259
    number literal `p` (any length, `-0`, any exponent spelling, trailing zeros), parsing the literal
    yields the number whose text is exactly the literal's bytes. -/
theorem c20_verbatim (env : Env) (henv : env.tgt = .value) (hap : env.cfg.ap = true)
    (p : NumParts) (hwf : p.WF = true) :
    parseTop env p.bytes = .ok (.num (.lit p.bytes)) := by
  have hj : JsonText p.bytes (.num p) :=
    ⟨[], p.bytes, [], by simp, by simp [Ws], by simp [Ws], Derives.num p hwf⟩
  obtain ⟨v, hv, hc⟩ := SJ.Props.C01.c01_complete_value_ap env henv hap p.bytes (.num p) hj
    (Or.inr (by simp [depth])) (by simp [surrogatesPaired]) (by intro _; simp [Spec.Canon.stringsUtf8])
  have : canonM env.cfg (.num p) = some (.num (.lit p.bytes)) := by
    simp [canonM, Spec.Canon.numOf, specCfg, hap]
  rw [this] at hc
  cases hc
  exact hv

/-- the same literal nested anywhere in a document is kept as well: the value of any accepted text is
    `canonM` of its tree, and `canonM` of a number node under ap is the literal's bytes -/
theorem c20_nested (cfg : Cfg) (hap : cfg.ap = true) (p : NumParts) :
    canonM cfg (.num p) = some (.num (.lit p.bytes)) := by
  simp [canonM, Spec.Canon.numOf, specCfg, hap]

/-- **C20 (only numbers).** If the parser returns a number for an input without whitespace, the input
    is exactly an RFC 8259 number literal and the stored text is the input. (`Number::from_str` is the
    number entry point followed by an end-of-input check: it admits no surrounding whitespace.) -/
theorem c20_from_str_sound (env : Env) (henv : env.tgt = .value) (hap : env.cfg.ap = true)
    (bs : Bytes) (n : Num) (h : parseTop env bs = .ok (.num n))
    (hnows : ∀ b ∈ bs, Spec.Grammar.isWs b = false) : IsNumber bs ∧ n = .lit bs := by
  obtain ⟨t, ⟨w₁, vb, w₂, hbs, hw₁, hw₂, hd⟩, hc, _⟩ := SJ.Props.C02.c02_denotes env henv bs (.num n) h
  -- no whitespace in bs: both paddings are empty
  have he₁ : w₁ = [] := by
    cases w₁ with
    | nil => rfl
    | cons b r =>
      have hb : Spec.Grammar.isWs b = true := by simpa [Ws] using (List.all_eq_true.mp hw₁ b (by simp))
      have := hnows b (by rw [hbs]; simp)
      rw [hb] at this; cases this
  have he₂ : w₂ = [] := by
    cases w₂ with
    | nil => rfl
    | cons b r =>
      have hb : Spec.Grammar.isWs b = true := by simpa [Ws] using (List.all_eq_true.mp hw₂ b (by simp))
      have := hnows b (by rw [hbs]; simp)
      rw [hb] at this; cases this
  subst he₁ he₂
  simp at hbs
  subst hbs
  -- the tree is a number node
  cases hd with
  | num p hwf =>
    have : canonM env.cfg (.num p) = some (.num (.lit p.bytes)) := c20_nested env.cfg hap p
    rw [this] at hc
    simp at hc
    exact ⟨⟨p, hwf, rfl⟩, hc.symm⟩
  | null => simp [canonM] at hc
  | true_ => simp [canonM] at hc
  | false_ => simp [canonM] at hc
  | str items h => simp [canonM] at hc
  | arrEmpty w hw => simp [canonM, canonMList] at hc
  | arr w₁ body w₂ xs h₁ h₂ hne h => simp [canonM] at hc
  | objEmpty w hw => simp [canonM, canonMMembers, mkObj] at hc
  | obj w₁ body w₂ ms h₁ h₂ hne h => simp [canonM] at hc; obtain ⟨_, _, h2⟩ := hc; simp [mkObj] at h2

/-- non-vacuity: `-0`, `1.50e+007` -/
def envAp : Env := { cfg := { ap := true }, src := .str, tgt := .value }
example : parseTop envAp [0x2d, 0x30] = .ok (.num (.lit [0x2d, 0x30])) := rfl
example : parseTop envAp [0x31, 0x2e, 0x35, 0x30, 0x65, 0x2b, 0x30, 0x30, 0x37] =
    .ok (.num (.lit [0x31, 0x2e, 0x35, 0x30, 0x65, 0x2b, 0x30, 0x30, 0x37])) := rfl

end SJ.Props.C20
