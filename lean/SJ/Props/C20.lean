import SJ.Props.C01
import SJ.Props.C02
import SJ.Proofs.CanonM
import SJ.Proofs.NumberAp
import SJ.Proofs.TypedSameAp
/-!
# C20 — arbitrary_precision keeps every number literal verbatim

With `cfg.ap` the parser model stores `Num.lit raw`. Proved from the completeness/soundness pair:
the stored text is the literal, byte for byte, for every RFC 8259 number; nothing but numbers is
accepted by the number entry point.
-/
namespace SJ.Props.C20
open SJ SJ.Gen SJ.Model.Machine SJ.Spec.Grammar SJ.Proofs.CanonM

/-- **C20 (verbatim).** Under arbitrary_precision, for every configuration/source and every RFC 8259
    number literal `p` (any length, `-0`, any exponent spelling, trailing zeros), parsing the literal
    yields the number whose text is exactly the literal's bytes. -/
theorem c20_verbatim (env : Env) (henv : env.tgt = .value) (hap : env.cfg.ap = true)
    (p : NumParts) (hwf : p.WF = true) :
    parseTop env p.bytes = .ok (.num (.lit p.bytes)) := by
  have hj : JsonText p.bytes (.num p) :=
    ⟨[], p.bytes, [], by simp, by simp [Ws], by simp [Ws], Derives.num p hwf⟩
  obtain ⟨v, hv, hc⟩ := SJ.Props.C01.c01_complete_value_ap env henv hap p.bytes (.num p) hj
    (Or.inr (by simp [depth])) (by simp [surrogatesPaired]) (by intro _; simp [Spec.Canon.stringsUtf8])
  have : canonM env.cfg (.num p) = some (.num (.lit p.bytes)) := by
    simp [canonM, Spec.Canon.numOf, specCfg, hap]
  rw [this] at hc
  cases hc
  exact hv

/-- the same literal nested anywhere in a document is kept as well: the value of any accepted text is
    `canonM` of its tree, and `canonM` of a number node under ap is the literal's bytes -/
theorem c20_nested (cfg : Cfg) (hap : cfg.ap = true) (p : NumParts) :
    canonM cfg (.num p) = some (.num (.lit p.bytes)) := by
  simp [canonM, Spec.Canon.numOf, specCfg, hap]

/-- **C20 (only numbers).** If the parser returns a number for an input without whitespace, the input
    is exactly an RFC 8259 number literal and the stored text is the input. (`Number::from_str` is the
    number entry point followed by an end-of-input check: it admits no surrounding whitespace.) -/
theorem c20_from_str_sound (env : Env) (henv : env.tgt = .value) (hap : env.cfg.ap = true)
    (bs : Bytes) (n : Num) (h : parseTop env bs = .ok (.num n))
    (hnows : ∀ b ∈ bs, Spec.Grammar.isWs b = false) : IsNumber bs ∧ n = .lit bs := by
  obtain ⟨t, ⟨w₁, vb, w₂, hbs, hw₁, hw₂, hd⟩, hc, _⟩ := SJ.Props.C02.c02_denotes env henv bs (.num n) h
  -- no whitespace in bs: both paddings are empty
  have he₁ : w₁ = [] := by
    cases w₁ with
    | nil => rfl
    | cons b r =>
      have hb : Spec.Grammar.isWs b = true := by simpa [Ws] using (List.all_eq_true.mp hw₁ b (by simp))
      have := hnows b (by rw [hbs]; simp)
      rw [hb] at this; cases this
  have he₂ : w₂ = [] := by
    cases w₂ with
    | nil => rfl
    | cons b r =>
      have hb : Spec.Grammar.isWs b = true := by simpa [Ws] using (List.all_eq_true.mp hw₂ b (by simp))
      have := hnows b (by rw [hbs]; simp)
      rw [hb] at this; cases this
  subst he₁ he₂
  simp at hbs
  subst hbs
  -- the tree is a number node
  cases hd with
  | num p hwf =>
    have : canonM env.cfg (.num p) = some (.num (.lit p.bytes)) := c20_nested env.cfg hap p
    rw [this] at hc
    simp at hc
    exact ⟨⟨p, hwf, rfl⟩, hc.symm⟩
  | null => simp [canonM] at hc
  | true_ => simp [canonM] at hc
  | false_ => simp [canonM] at hc
  | str items h => simp [canonM] at hc
  | arrEmpty w hw => simp [canonM, canonMList] at hc
  | arr w₁ body w₂ xs h₁ h₂ hne h => simp [canonM] at hc
  | objEmpty w hw => simp [canonM, canonMMembers, mkObj] at hc
  | obj w₁ body w₂ ms h₁ h₂ hne h => simp [canonM] at hc; obtain ⟨_, _, h2⟩ := hc; simp [mkObj] at h2

/-- non-vacuity: `-0`, `1.50e+007` -/
def envAp : Env := { cfg := { ap := true }, src := .str, tgt := .value }
example : parseTop envAp [0x2d, 0x30] = .ok (.num (.lit [0x2d, 0x30])) := rfl
example : parseTop envAp [0x31, 0x2e, 0x35, 0x30, 0x65, 0x2b, 0x30, 0x30, 0x37] =
    .ok (.num (.lit [0x31, 0x2e, 0x35, 0x30, 0x65, 0x2b, 0x30, 0x30, 0x37])) := rfl

/-! ## the accessors of the string-backed `Number` (`Model.NumberAp`) -/

section accessors
open SJ.Spec.Decimal SJ.Spec.NumberAcc SJ.Model.NumberAp SJ.Proofs.NumberAp
open SJ.Proofs.NumLinkParser (litOf parse_bytes)

/-- **C20 (accessors).** For every stored literal — every text `p.bytes` of the RFC 8259 number grammar,
    any length and spelling — the accessors of the `arbitrary_precision` `Number`, computed as the crate
    computes them (`self.n.parse::<i64/u64/i128/u128/f64>()`, `Model.NumberAp`), are functions of the
    `NumLit` `l` that the specification's own reader takes off the bytes (first conjunct):

    * `as_i64 / as_u64 / as_i128 / as_u128` = `accInt w l`: the literal's exact integer value when the
      literal has no fraction and no exponent and the value lies in the type's range, `None` otherwise
      (the unsigned ones answer `None` to every literal with a minus sign, `-0` included;
      `"-0".parse::<i64>()` is `Ok(0)`);
    * `is_i64` / `is_u64` are true exactly when the matching `as_*` is `Some`;
    * `as_f64` = `Spec.Ieee.roundNE64` of the literal's exact rational value `±D·10^e`
      (`Spec.Decimal.NumLit.exact`) — the nearest finite binary64, ties to even — and `None` exactly when
      that rounding overflows;
    * `is_f64` is true exactly when the literal has a fraction or an exponent and `as_f64` is `Some`.

    Trusted: that `str::parse::<f64>` is correctly rounded and overflows to `±inf` (std's documented
    contract, modelled by `roundNE64` + `getD inf`), and the `from_str_radix` grammar of the integer
    parsers; both are recorded in the trusted base and compared with the crate by op `acc` on every
    generated literal. -/
theorem c20_accessors (p : NumParts) (hwf : p.WF = true) :
    NumLit.parse p.bytes = some (litOf p) ∧
    asI64 p.bytes = accInt .i64 (litOf p) ∧ asU64 p.bytes = accInt .u64 (litOf p) ∧
    asI128 p.bytes = accInt .i128 (litOf p) ∧ asU128 p.bytes = accInt .u128 (litOf p) ∧
    isI64 p.bytes = (accInt .i64 (litOf p)).isSome ∧ isU64 p.bytes = (accInt .u64 (litOf p)).isSome ∧
    asF64 p.bytes = nearestF64 (litOf p) ∧
    isF64 p.bytes = (!isIntLit (litOf p) && (nearestF64 (litOf p)).isSome) := by
  refine ⟨parse_bytes p hwf, parseInt_bytes .i64 p hwf, parseInt_bytes .u64 p hwf, parseInt_bytes .i128 p hwf,
    parseInt_bytes .u128 p hwf, ?_, ?_, asF64_bytes p hwf, isF64_bytes p hwf⟩
  · unfold isI64 asI64; rw [parseInt_bytes .i64 p hwf]
  · unfold isU64 asU64; rw [parseInt_bytes .u64 p hwf]

/-- the same about the `Number` the parser stores (`c20_verbatim`): what `from_str::<Value>(lit)` /
    `Number::from_str(lit)` holds answers its accessors from the literal's exact value -/
theorem c20_parsed_accessors (env : Env) (henv : env.tgt = .value) (hap : env.cfg.ap = true)
    (p : NumParts) (hwf : p.WF = true) :
    ∃ n, parseTop env p.bytes = .ok (.num n) ∧
      numAsI64 true n = accInt .i64 (litOf p) ∧ numAsU64 true n = accInt .u64 (litOf p) ∧
      numAsI128 true n = accInt .i128 (litOf p) ∧ numAsU128 true n = accInt .u128 (litOf p) ∧
      numAsF64 true n = nearestF64 (litOf p) := by
  refine ⟨.lit p.bytes, c20_verbatim env henv hap p hwf, ?_⟩
  obtain ⟨_, h1, h2, h3, h4, _, _, h5, _⟩ := c20_accessors p hwf
  exact ⟨h1, h2, h3, h4, h5⟩

/-- `as_f32` (crate-private, used by `PartialEq<f32>`): ONE rounding of the exact value to binary32 -/
theorem c20_as_f32 (p : NumParts) (hwf : p.WF = true) : asF32 p.bytes = nearestF32 (litOf p) :=
  asF32_bytes p hwf

/-- non-vacuity (Bool tests, evaluated by the kernel): `-0`, `18446744073709551615`, `0.1`, `1e400`, `1E2`, `-1e-400` -/
example : (asI64 [0x2d, 0x30] == some 0 && asU64 [0x2d, 0x30] == none && asI128 [0x2d, 0x30] == some 0 &&
    asU128 [0x2d, 0x30] == none) = true := by decide +kernel
example : (asU64 [0x31,0x38,0x34,0x34,0x36,0x37,0x34,0x34,0x30,0x37,0x33,0x37,0x30,0x39,0x35,0x35,0x31,0x36,0x31,0x35]
    == some 18446744073709551615 &&
  asI64 [0x31,0x38,0x34,0x34,0x36,0x37,0x34,0x34,0x30,0x37,0x33,0x37,0x30,0x39,0x35,0x35,0x31,0x36,0x31,0x35] == none) = true := by
  decide +kernel
example : (asF64 [0x30, 0x2e, 0x31] == some 0x3fb999999999999a && isF64 [0x30, 0x2e, 0x31]) = true := by decide +kernel
example : (asF64 [0x31, 0x65, 0x34, 0x30, 0x30] == none && !isF64 [0x31, 0x65, 0x34, 0x30, 0x30] &&
    asI64 [0x31, 0x65, 0x34, 0x30, 0x30] == none) = true := by decide +kernel
example : (asF64 [0x31, 0x45, 0x32] == some 0x4059000000000000 && asI64 [0x31, 0x45, 0x32] == none) = true := by decide +kernel
example : (asF64 [0x2d, 0x31, 0x65, 0x2d, 0x34, 0x30, 0x30] == some 0x8000000000000000) = true := by decide +kernel
/-- never a stored literal, but accepted by `str::parse`: `+1`, `007`, `1.`, `.5`, `inf` (filtered by `is_finite`) -/
example : (asI64 [0x2b, 0x31] == some 1 && asU64 [0x30, 0x30, 0x37] == some 7 &&
    asF64 [0x31, 0x2e] == some 0x3ff0000000000000 && asF64 [0x2e, 0x35] == some 0x3fe0000000000000 &&
    parseF64 [0x69, 0x6e, 0x66] == some 0x7ff0000000000000 && asF64 [0x69, 0x6e, 0x66] == none &&
    parseF64 [0x2e] == none && parseF64 [0x31, 0x65] == none) = true := by decide +kernel

end accessors

/-! ## typed deserialisation does not depend on the feature -/

section typedSame
open SJ.Model.Typed SJ.Proofs.TypedAp

/-- **C20 (typed deserialisation is the same with and without the feature).** `Model.Typed.deTypedTop` is the
    transcription of `from_str / from_slice / from_reader::<T>` followed by `end()`. For every build `env`
    (source, `float_roundtrip`, recursion limit, also in the failing-reader mode of C13), either value `a` of
    `arbitrary_precision`, every schema without a `Value` target inside (`hasAny s = false`: bool, the twelve
    integer widths, f64, f32, char, strings, byte buffers, option, unit, newtype, seq, tuple, maps with every key
    kind, structs incl. skipped unknown fields, enums, `IgnoredAny`) and EVERY input: the two builds return the
    same outcome — or both fail. They can fail differently in exactly one way: when the input holds a value of the
    wrong kind for the target, `peek_invalid_type` parses the offending scalar as `deserialize_any` would, and an
    out-of-range number there is `number out of range` without the feature and `invalid type` with it
    (`parse_any_number` keeps the text).

    The model consults `cfg.ap` only inside the byte-step machine it uses as a sub-parser; the proof shows that
    `parse_str` never reaches a number (`runPfx_str`), skipped content never looks at the feature
    (`step1_ignored`), and everything else is the same code (`SJ/Proofs/TypedSameAp.lean`). A `Value` target is
    excluded because there the feature changes the representation of numbers by design (`c20_verbatim`). -/
theorem c20_typed_same (env : Model.Typed.Env) (a : Bool) (s : Schema) (hs : hasAny s = false) (bs : Bytes) :
    deTypedTop (withAp env a) s bs = deTypedTop env s bs ∨
      (topValue (deTypedTop (withAp env a) s bs) = none ∧ topValue (deTypedTop env s bs) = none) :=
  rel_top env a s hs bs

/-- in particular the VALUE is the same: `from_str::<T>` succeeds in one build iff in the other, with the same result -/
theorem c20_typed_same_value (env : Model.Typed.Env) (a : Bool) (s : Schema) (hs : hasAny s = false) (bs : Bytes) :
    topValue (deTypedTop (withAp env a) s bs) = topValue (deTypedTop env s bs) := by
  rcases c20_typed_same env a s hs bs with h | ⟨h1, h2⟩
  · rw [h]
  · rw [h1, h2]

/-- **numbers into numeric targets: identical outcomes**, error code and position included. For the twelve
    integer widths, `f64` and `f32`, on every input whose first non-whitespace byte is a digit or `-` (every number
    literal, every malformed one), the two builds run the very same code: `deserialize_number` /
    `do_deserialize_i128/u128` have no `cfg(feature = "arbitrary_precision")` arm. -/
theorem c20_typed_number_identical (env : Model.Typed.Env) (a : Bool) (s : Schema) (hs : isNumeric s = true) (bs : Bytes)
    (h : ∀ b r p, SJ.Model.Stream.skipWs bs 0 = (b :: r, p) → isNumStart b = true) :
    deTypedTop (withAp env a) s bs = deTypedTop env s bs :=
  top_number_eq env a s hs bs h

/-- the exclusion is necessary: into a `Value` the literal `1.0` is the text with the feature, a float without -/
example : (match deTypedTop (withAp {} true) .any [0x31, 0x2e, 0x30], deTypedTop (withAp {} false) .any [0x31, 0x2e, 0x30] with
    | .ok (.any (.num (.lit _))), .ok (.any (.num (.float _))) => true
    | _, _ => false) = true := by decide +kernel
/-- the one way the failures differ: `1e999` where a `bool` is expected -/
example : (match deTypedTop (withAp {} true) .bool [0x31, 0x65, 0x39, 0x39, 0x39], deTypedTop (withAp {} false) .bool [0x31, 0x65, 0x39, 0x39, 0x39] with
    | .data _, .err .NumberOutOfRange _ => true
    | _, _ => false) = true := by decide +kernel
/-- non-vacuity: `{"k":[1,-2.5e1]}` into `Map<String, (u8, f64)>`, same value in both builds -/
example : (match deTypedTop (withAp {} true) (.map .string (.tuple [.int .u8, .f64]))
      [0x7b,0x22,0x6b,0x22,0x3a,0x5b,0x31,0x2c,0x2d,0x32,0x2e,0x35,0x65,0x31,0x5d,0x7d] with
    | .ok (.map [(.str [0x6b], .seq [.int 1, .f64 0xc039000000000000])]) => true
    | _ => false) = true := by decide +kernel

end typedSame

end SJ.Props.C20
