import SJ.Proofs.StreamTypedDepth
import SJ.Props.TypedDepth
import SJ.Props.StreamTyped
/-!
# C14 / C12, typed targets: the depth budget `remaining_depth` is restored — per call and along a typed stream

`Model.Typed.deTyped` hands the number of open typed containers DOWN as a parameter and `Model.StreamTyped.nextT` reads
every item at depth 0: that the crate's single counter (`Deserializer::remaining_depth`, which lives across the items of a
`StreamDeserializer`) is back at its initial value when an item has been read was an assumption of those models.
`Model.StreamTypedDepth` is the model in which the counter is STATE — decremented and incremented where the seven
`check_recursion!` sites do it, tested where the macro tests it, kept by the stream from one `next()` to the next. The
theorems here say that it is the same function as the parameter-passing model and that the counter is restored.
-/
namespace SJ.Props.StreamTypedDepth
open SJ SJ.Gen SJ.Model SJ.Model.Typed SJ.Model.StreamTypedDepth SJ.Proofs.StreamTypedDepth SJ.Proofs.Typed
open SJ.Model.Stream (start)
open SJ.Model.StreamTyped (TItem historyT stateAfterT)

/-- **C14 (typed targets, depth budget restored by every call).** For every configuration, source, schema, input and
    position: the typed deserializer with the explicit counter, entered with `remaining_depth = d` while `t` typed containers
    are open (`d + t = 128` when the limit is enabled; `d` arbitrary when it is disabled), returns exactly what `deTyped` returns
    — value, unread input, error code and position —, and leaves the counter at `d` on EVERY exit path, `Ok` or `Err`; the one
    exception is the `RecursionLimitExceeded` error itself, after which it is `d - 1` (the macro returns before its `+= 1`;
    every enclosing container still restores its own unit). -/
theorem c14_typed_depth_restored (env : Env) (f t d : Nat) (s : Schema) (rest : Bytes) (pos : Nat)
    (hinv : counting env = true → d + t = 128 ∧ 1 ≤ d) :
    (deTypedD env f t d s rest pos).1 = deTyped env f t s rest pos ∧
    ((deTypedD env f t d s rest pos).2 = d ∨
      ((deTypedD env f t d s rest pos).2 + 1 = d ∧ ∃ i, deTyped env f t s rest pos = .err .RecursionLimitExceeded i)) := by
  obtain ⟨h1, h2⟩ := deTypedD_spec env f t d s rest pos hinv
  refine ⟨h1, ?_⟩
  rcases h2 with h | ⟨h, i, hi⟩
  · exact .inl h
  · exact .inr ⟨h, i, by rw [← h1, hi]⟩

/-- a successfully read value always leaves the full budget behind -/
theorem c14_typed_depth_restored_ok (env : Env) (f t d : Nat) (s : Schema) (rest : Bytes) (pos : Nat)
    (hinv : counting env = true → d + t = 128 ∧ 1 ≤ d) (v : TVal) (rest' : Bytes) (e : Nat)
    (hok : deTyped env f t s rest pos = .ok v rest' e) : deTypedD env f t d s rest pos = (.ok v rest' e, d) := by
  obtain ⟨h1, h2⟩ := c14_typed_depth_restored env f t d s rest pos hinv
  rcases h2 with h | ⟨_, i, hi⟩
  · exact Prod.ext (h1.trans hok) h
  · rw [hok] at hi; cases hi

/-- **C14 / C12 (typed streams, depth budget restored between items).** For every configuration, source, item schema, input
    and number of calls: the typed stream that keeps the deserializer's counter from one `next()` to the next yields exactly
    the items and offsets of `Model.StreamTyped.historyT`, the model in which every item is read at depth 0 (so the C12 / C09 /
    C10 / C13 theorems about typed streams are theorems about it), and after every call that yields something the counter is
    back at 128 — the next item again has 127 levels —, except after the item that failed with `RecursionLimitExceeded`, where it
    is 127; by then the stream is fused (`c12_typed_items_full_budget`). -/
theorem c14_typed_stream_depth_restored (env : Env) (s : Schema) (k : Nat) (bs : Bytes) :
    (historyTD env s k (startTD bs)).map (fun x => (x.1, x.2.1)) = historyT env s k (start bs) ∧
    ∀ x ∈ historyTD env s k (startTD bs), x.1 ≠ .none → counting env = true →
      x.2.2 = 128 ∨ (x.2.2 = 127 ∧ ∃ i, x.1 = .err .RecursionLimitExceeded i) := by
  obtain ⟨h1, h2⟩ := historyTD_spec env s k (startTD bs) (fresh_startT env bs)
  refine ⟨h1, fun x hx hne hc => ?_⟩
  have h128 : Gen.remainingDepthInit = 128 := rfl
  rcases h2 x hx hne hc with h | ⟨h, i, hi⟩
  · exact .inl (by rw [h, h128])
  · exact .inr ⟨by rw [h128] at h; omega, i, hi⟩

/-- **C12 / C14 (typed streams: every item is read with the full budget).** After any number of calls of `next()` the
    stream state is the one of `Model.StreamTyped`, and either the stream has failed — every further call returns `None`
    without parsing (`c12_typed_fused`) — or the counter stands at 128 (or the limit is disabled): no item is ever read with
    less than the full budget. "Every item is read at depth 0" is a theorem, not a construction. -/
theorem c12_typed_items_full_budget (env : Env) (s : Schema) (k : Nat) (bs : Bytes) :
    (stateAfterTD env s k (startTD bs)).ss = stateAfterT env s k (start bs) ∧
    ((stateAfterTD env s k (startTD bs)).ss.failed = true ∨
      (counting env = true → (stateAfterTD env s k (startTD bs)).depth = 128)) :=
  ⟨stateAfterTD_ss env s k (startTD bs) (fresh_startT env bs), fresh_stateAfterTD env s k (startTD bs) (fresh_startT env bs)⟩

/-! ## non-vacuity -/

open SJ.Props.TypedDepth (opens closes enumTower wrapA litTrue)

def cls (it : TItem) : Nat :=
  match it with
  | .none => 0
  | .ok _ => 1
  | .err .RecursionLimitExceeded _ => 3
  | .err _ _ => 2
  | _ => 4

def deep (n : Nat) : Bytes := opens n ++ closes n

-- two items nested 127 deep, then the end: both accepted, the counter is 128 after each
example : (historyTD {} (seqTower 130 .bool) 3 (startTD (deep 127 ++ [0x20] ++ deep 127))).map (fun x => (cls x.1, x.2.1, x.2.2)) =
    [(1, 254, 128), (1, 509, 128), (0, 509, 128)] := by decide +kernel
-- 128 levels: `RecursionLimitExceeded`, counter 127, the stream is fused: the 127-deep item behind it is never read
example : (historyTD {} (seqTower 130 .bool) 2 (startTD (deep 128 ++ deep 127))).map (fun x => (cls x.1, x.2.1, x.2.2)) =
    [(3, 0, 127), (0, 0, 127)] := by decide +kernel
-- enum wrappers (`deserialize_enum`'s `{` arm restores before `tri!(ret)`): 127 + 127
example : (historyTD {} (enumTower 127) 2 (startTD (wrapA 127 litTrue ++ wrapA 127 litTrue))).map (fun x => (cls x.1, x.2.2)) =
    [(1, 128), (1, 128)] := by decide +kernel
-- an item that fails deep inside for another reason (`[[[tx`): every open container restores its unit on the way out
example : (historyTD {} (seqTower 5 .bool) 2 (startTD [0x5b, 0x5b, 0x5b, 0x74, 0x78])).map (fun x => (cls x.1, x.2.2)) =
    [(2, 128), (0, 128)] := by decide +kernel
-- a nested `Value` runs on the same counter: 100 typed levels + 27 in the `Value`, twice
example : (historyTD {} (seqTower 100 .any) 2 (startTD (deep 127 ++ deep 127))).map (fun x => (cls x.1, x.2.2)) =
    [(1, 128), (1, 128)] := by decide +kernel

def isRLE (o : RD TVal) (k d : Nat) : Bool :=
  match o with
  | (.err .RecursionLimitExceeded i, d') => i == k && d' == d
  | _ => false

/-- the model with the counter really reads the COUNTER: entered at depth 0 with a budget that has leaked to 100, a 127-deep
    item is refused at its 100th bracket (so the theorems above are not about a copy of `deTyped` that ignores `d`) -/
example : isRLE (deTypedD {} 200 0 100 (seqTower 130 .bool) (deep 127) 0) 100 99 = true := by decide +kernel
/-- with the limit disabled the counter does not move and 130 levels parse -/
example : (historyTD { cfg := { limitOff := true } } (seqTower 130 .bool) 1 (startTD (deep 130))).map (fun x => (cls x.1, x.2.2)) =
    [(1, 128)] := by decide +kernel

end SJ.Props.StreamTypedDepth
