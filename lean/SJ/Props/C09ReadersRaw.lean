import SJ.Proofs.ReadRaw
import SJ.Props.C09Readers
/-!
# C09 / C05 — `parse_str_raw` (`validate = false`, bytes targets) of the two real readers

`deserialize_bytes` / `deserialize_byte_buf` call `Read::parse_str_raw`: the same loops as `parse_str` with
`validate = false` (`SliceRead`: `memchr2` scan, control characters are ordinary bytes; `IoRead`: control characters
pushed), `parse_unicode_escape` with its non-validating branches (lone surrogates pushed in WTF-8, the `loop`
restarting on a second leading surrogate, a `\` after a lone leading surrogate handed back to `parse_escape`, a byte
left in `IoRead`'s peek slot across the return), no UTF-8 check. The machine has no such mode; `Model.Typed` has
(`stepRaw` / `runRaw`, the automaton behind the typed `bytes` target, tied to the crate by ops `tt` / `c16x`).

* `c09_slice_raw_refines`, `c09_io_raw_refines` — each reader's `parse_str_raw` = `Model.Typed.parseStrRaw` on
  every input: same bytes (WTF-8 for unpaired surrogates, raw non-UTF-8 passed through) and end index, or same error
  code at the same index;
* `c09_raw_readers_agree` — hence the two real scanners agree on the bytes target too; `StrRead::parse_str_raw`
  IS `SliceRead::parse_str_raw` (delegation).

Not proved: the borrowed-vs-copied flag of the raw variant (`Model.Typed.RawSt` does not record whether a backslash
was met; `c05_borrowed` covers `parse_str`); it is checked per case by op `rd R` (`judgeBorrowed`).
-/
namespace SJ.Props.C09
open SJ SJ.Gen SJ.Model.LineCol SJ.Model.ReadEscape SJ.Proofs.ReadTop SJ.Proofs.ReadRaw
open SJ.Model.ReadSlice (Reference SliceRead)
open SJ.Model.ReadIo (IoRead)

/-- **C09 / C05 (bytes target, slice).** `SliceRead::parse_str_raw` from index `i` = the typed model's raw string
    automaton (`Model.Typed.parseStrRaw`, any configuration, clean end of input) on `bs[i..]`. -/
theorem c09_slice_raw_refines (env : Model.Typed.Env) (hf : env.flt = false) (bs : Bytes) (i : Nat) (hi : i ≤ bs.length) :
    sliceObs (Model.ReadSlice.parseStrRaw ⟨bs, i⟩) = rawObs (Model.Typed.parseStrRaw env (bs.drop i) i) :=
  slice_raw_refines env hf bs i hi

/-- **C09 / C05 (bytes target, reader).** `IoRead::parse_str_raw` likewise; the reader is left as THE reader that
    has handed out `j` bytes with an empty peek slot (the byte peeked inside `parse_unicode_escape` has been taken
    back by the loop's `next()`). -/
theorem c09_io_raw_refines (env : Model.Typed.Env) (hf : env.flt = false) (bs : Bytes) (i : Nat) (hi : i ≤ bs.length) :
    ioObs (Model.ReadIo.parseStrRaw (IoPos.at bs i false)) = rawObs (Model.Typed.parseStrRaw env (bs.drop i) i) ∧
    (∀ ref r', Model.ReadIo.parseStrRaw (IoPos.at bs i false) = .ok ref r' → ∃ j, j ≤ bs.length ∧ r' = IoPos.at bs j false) ∧
    (∀ c r', Model.ReadIo.parseStrRaw (IoPos.at bs i false) = .err c r' → ∃ j, j ≤ bs.length ∧ r' = IoPos.at bs j false) :=
  io_raw_refines env hf bs i hi

/-- **C09: the two real scanners agree on the bytes target**, and `StrRead` delegates. -/
theorem c09_raw_readers_agree (bs : Bytes) (i : Nat) (hi : i ≤ bs.length) :
    sliceObs (Model.ReadSlice.parseStrRaw ⟨bs, i⟩) = ioObs (Model.ReadIo.parseStrRaw (IoPos.at bs i false)) ∧
    Model.ReadSlice.strParseStrRaw ⟨bs, i⟩ = Model.ReadSlice.parseStrRaw ⟨bs, i⟩ := by
  refine ⟨?_, rfl⟩
  rw [c09_slice_raw_refines {} rfl bs i hi, (c09_io_raw_refines {} rfl bs i hi).1]

/-! non-vacuity: a lone leading surrogate followed by `x` (WTF-8 `ED A0 BD`, then `x`), by `\n`, by another leading
    surrogate and a pair (the loop restarts), a lone trailing surrogate, a raw control character and `\xff` passed
    through — both readers, and the typed model -/
def exRaw : Bytes := [0x22, 0x5c, 0x75, 0x64, 0x38, 0x33, 0x64, 0x78, 0x0a, 0xff, 0x22]
example : sliceObs (Model.ReadSlice.parseStrRaw ⟨exRaw, 1⟩) = .ok [0xed, 0xa0, 0xbd, 0x78, 0x0a, 0xff] 11 := by decide +kernel
example : ioObs (Model.ReadIo.parseStrRaw (IoPos.at exRaw 1 false)) = .ok [0xed, 0xa0, 0xbd, 0x78, 0x0a, 0xff] 11 := by
  decide +kernel
example : rawObs (Model.Typed.parseStrRaw {} (exRaw.drop 1) 1) = .ok [0xed, 0xa0, 0xbd, 0x78, 0x0a, 0xff] 11 := by
  decide +kernel
def exRaw2 : Bytes := [0x22, 0x5c, 0x75, 0x64, 0x38, 0x33, 0x64, 0x5c, 0x6e, 0x5c, 0x75, 0x64, 0x38, 0x33, 0x64, 0x5c, 0x75,
  0x64, 0x38, 0x33, 0x64, 0x5c, 0x75, 0x64, 0x65, 0x30, 0x30, 0x5c, 0x75, 0x64, 0x65, 0x30, 0x30, 0x22]
example : ioObs (Model.ReadIo.parseStrRaw (IoPos.at exRaw2 1 false)) =
    .ok [0xed, 0xa0, 0xbd, 0x0a, 0xed, 0xa0, 0xbd, 0xf0, 0x9f, 0x98, 0x80, 0xed, 0xb8, 0x80] 34 := by decide +kernel
example : sliceObs (Model.ReadSlice.parseStrRaw ⟨exRaw2, 1⟩) =
    .ok [0xed, 0xa0, 0xbd, 0x0a, 0xed, 0xa0, 0xbd, 0xf0, 0x9f, 0x98, 0x80, 0xed, 0xb8, 0x80] 34 := by decide +kernel
/-- `\ud83d\q`: the escape after the lone surrogate is invalid — both report InvalidEscape behind the `q` -/
example : ioObs (Model.ReadIo.parseStrRaw (IoPos.at [0x22, 0x5c, 0x75, 0x64, 0x38, 0x33, 0x64, 0x5c, 0x71, 0x22] 1 false)) =
    .err .InvalidEscape 9 := by decide +kernel
example : sliceObs (Model.ReadSlice.parseStrRaw ⟨[0x22, 0x5c, 0x75, 0x64, 0x38, 0x33, 0x64, 0x5c, 0x71, 0x22], 1⟩) =
    .err .InvalidEscape 9 := by decide +kernel

end SJ.Props.C09
