import SJ.Props.C09
import SJ.Props.C01Rv
/-!
# C09 for the faithful `Value` models (`arbitrary_precision` / `raw_value`): the private tokens

`c09_slice_reader` is a theorem about `Model.Machine`. The faithful models `Model.MachineAp` / `Model.MachineRv` add the
readings of the private Number / RawValue tokens, and there C09 — the slice and the reader report the same position —
FAILS at one class of sites: the value behind a token is not a string. `deserialize_str` then fails through
`peek_invalid_type` + `fix_position` = `self.error(..)` with the offending byte only PEEKED (`[`, `{`, or the byte that ended
a number): a slice / `&str` has not moved past it, an `io::Read` has pulled it — the reader's column is one higher. (This is
the typed targets' visitor-error site of `c09_typed_slice_reader`, reached from `Value` through the token protocol.)

* `c09_rv_slice_reader_tokenfree` — on every input without a token first key the faithful model's outcome is the same
  from a slice and from a reader (transfer of `c09_slice_reader`).
* `c09_rv_token_not_string_reader_later`, `c09_ap_token_not_string_reader_later` — after a first key equal to a token, a
  container as value: the slice reports the bracket's index, the reader one more.
* `c09_token_sources_differ` — concrete witnesses (open finding `C09-private-token-invalid-type-position`):
  `{"$serde_json::private::RawValue":{}}` is `invalid type` at column 34 from a slice and 35 from a reader;
  `{"$serde_json::private::Number":[ ]}` at 32 / 33.
-/
namespace SJ.Props.C09Tok
open SJ SJ.Gen SJ.Model SJ.Model.Machine SJ.Spec.Grammar SJ.Props.C09
open SJ.Spec.PrivateToken (hasTokenFirstKey)
open SJ.Spec.PrivateTokenRv (hasRawTokenFirstKey)
open SJ.Model.MachineRv (REnv ofAp)
open SJ.Props.C01Rv (parseRv runRv)

/-- **C09 for the faithful model, token-free inputs**: same outcome from a slice and from a reader -/
theorem c09_rv_slice_reader_tokenfree (cfg : Cfg) (rv : Bool) (tgt : Tgt) (bs : Bytes) (h : hasRawTokenFirstKey bs = false)
    (hn : cfg.ap = false ∨ hasTokenFirstKey bs = false) :
    parseRv ⟨envOf cfg .slice tgt, rv⟩ bs = parseRv ⟨envOf cfg .reader tgt, rv⟩ bs := by
  have key : ∀ src, parseRv ⟨envOf cfg src tgt, rv⟩ bs =
      ofAp (Model.MachineAp.ofMachine (parseTop (envOf cfg src tgt) bs)) := by
    intro src
    rcases hn with hn | hn
    · exact SJ.Props.C01Rv.c01_rv_conservative_machine_noap ⟨envOf cfg src tgt, rv⟩ hn bs h
    · exact SJ.Props.C01Rv.c01_rv_conservative_machine ⟨envOf cfg src tgt, rv⟩ bs h hn
  rw [key .slice, key .reader, c09_slice_reader cfg tgt bs]

/-- **where C09 fails for the faithful model (`raw_value`)**: the value behind the raw token is `[` or `{` — the slice
    reports the bracket's index, the reader one more -/
theorem c09_rv_token_not_string_reader_later (cfg : Cfg) (fs : List Frame) (w₁ w₂ r : Bytes) (b : UInt8)
    (hb : b = 0x5b ∨ b = 0x7b) (hw₁ : Ws w₁) (hw₂ : Ws w₂) (i : Nat) :
    runRv (parseRv (REnv.inner ⟨envOf cfg .slice .value, true⟩)) ⟨envOf cfg .slice .value, true⟩
        (SJ.Proofs.MachineRv.afterRawKey fs) i (w₁ ++ [0x3a] ++ w₂ ++ b :: r) = .data .raw (i + w₁.length + 1 + w₂.length) ∧
    runRv (parseRv (REnv.inner ⟨envOf cfg .reader .value, true⟩)) ⟨envOf cfg .reader .value, true⟩
        (SJ.Proofs.MachineRv.afterRawKey fs) i (w₁ ++ [0x3a] ++ w₂ ++ b :: r) = .data .raw (i + w₁.length + 1 + w₂.length + 1) :=
  ⟨SJ.Props.C01Rv.c01_rv_token_value_not_string ⟨envOf cfg .slice .value, true⟩ rfl rfl fs w₁ w₂ r b hb hw₁ hw₂ i,
   SJ.Props.C01Rv.c01_rv_token_value_not_string ⟨envOf cfg .reader .value, true⟩ rfl rfl fs w₁ w₂ r b hb hw₁ hw₂ i⟩

/-- … and for the Number token (`arbitrary_precision`) -/
theorem c09_ap_token_not_string_reader_later (cfg : Cfg) (hap : cfg.ap = true) (fs : List Frame) (w₁ w₂ r : Bytes) (b : UInt8)
    (hb : b = 0x5b ∨ b = 0x7b) (hw₁ : Ws w₁) (hw₂ : Ws w₂) (i : Nat) :
    Model.MachineAp.run (envOf cfg .slice .value) (SJ.Props.C01Ap.afterTokenKey fs) i (w₁ ++ [0x3a] ++ w₂ ++ b :: r) =
      .data (i + w₁.length + 1 + w₂.length) ∧
    Model.MachineAp.run (envOf cfg .reader .value) (SJ.Props.C01Ap.afterTokenKey fs) i (w₁ ++ [0x3a] ++ w₂ ++ b :: r) =
      .data (i + w₁.length + 1 + w₂.length + 1) :=
  ⟨SJ.Props.C01Ap.c01_ap_token_value_not_string (envOf cfg .slice .value) hap rfl fs w₁ w₂ r b hb hw₁ hw₂ i,
   SJ.Props.C01Ap.c01_ap_token_value_not_string (envOf cfg .reader .value) hap rfl fs w₁ w₂ r b hb hw₁ hw₂ i⟩

/-- **C09 is false of the faithful models on these inputs** (and of the crate: open finding
    `C09-private-token-invalid-type-position`, replayed by op `pv`): `{"$serde_json::private::RawValue":{}}` under
    `raw_value` and `{"$serde_json::private::Number":[ ]}` under `arbitrary_precision` are rejected with the same message and
    category from every source, but the reader's column is one higher than the slice's (and the `&str`'s) -/
theorem c09_token_sources_differ :
    (parseRv ⟨envOf {} .slice .value, true⟩ ([0x7b, 0x22] ++ Gen.rawToken ++ [0x22, 0x3a, 0x7b, 0x7d, 0x7d])).isData .raw 34 = true ∧
    (parseRv ⟨envOf {} .str .value, true⟩ ([0x7b, 0x22] ++ Gen.rawToken ++ [0x22, 0x3a, 0x7b, 0x7d, 0x7d])).isData .raw 34 = true ∧
    (parseRv ⟨envOf {} .reader .value, true⟩ ([0x7b, 0x22] ++ Gen.rawToken ++ [0x22, 0x3a, 0x7b, 0x7d, 0x7d])).isData .raw 35 = true ∧
    (Model.MachineAp.parseTop (envOf { ap := true } .slice .value) ([0x7b, 0x22] ++ Gen.numberToken ++ [0x22, 0x3a, 0x5b, 0x20, 0x5d, 0x7d])).isData 32 = true ∧
    (Model.MachineAp.parseTop (envOf { ap := true } .reader .value) ([0x7b, 0x22] ++ Gen.numberToken ++ [0x22, 0x3a, 0x5b, 0x20, 0x5d, 0x7d])).isData 33 = true := by
  decide +kernel

end SJ.Props.C09Tok
