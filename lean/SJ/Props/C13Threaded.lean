import SJ.Props.C13
import SJ.Proofs.WriteThreaded
/-!
# C13 (writer clause): the writer threaded through the serializer

`Model.WriteThreaded` is the traversal of `src/ser.rs` with `&mut self.writer` handed to every `Formatter` call and
`tri!` as the bind of a state monad over the writer. The theorems here say that this is the `runBufs` reading of
`Model.Write` / `Model.WriteTrace`: "performs the `write_all` calls of the buffer list in order and stops at the first
failing one" is no longer only a definition.
-/
namespace SJ.Props.C13
open SJ SJ.Model.Ser SJ.Model.Write SJ.Model.WriteTrace SJ.Model.WriteThreaded

/-- **C13 (writer, threaded).** For every `fuel`, either formatter, every program (also one whose serialisation fails
    by itself) and every writer (any policy): running the serializer with the writer threaded through every
    `Formatter` call (`toWriterW`: state monad over the writer, `tri!` as bind, `writer.write_all(buf)
    .map_err(Error::io)` as the only primitive) leaves the same writer — accepted bytes, every `write` call, every
    `write_all` argument — and returns the same `Result` as `toWriterT`, i.e. as `Writer.runBufs` over the buffer list
    `(serT …).bufs` followed by the serializer's own result: exactly the `write_all` calls of that list, in order,
    none after the first that fails; the serializer's own error only after all the buffers before it went through.
    (Granularity: one `Formatter` method is the `tri!` chain over its `Model.Ser` buffers, see `Model.WriteThreaded`.) -/
theorem c13_writer_threaded (fuel : Nat) (ext : Ext) (fmt : Fmt) (p : SVal) (w : Writer) :
    toWriterW fuel ext fmt p w = toWriterT fuel ext fmt p w :=
  Proofs.WriteThreaded.toWriterW_eq fuel ext fmt p w

/-- **C13 (writer, threaded): every sub-serialisation.** The same for any part of a program started in any formatter
    state on any writer: the threaded run is `runBufs` over the part's buffers, then the part's result. -/
theorem c13_writer_threaded_sub (fuel : Nat) (ext : Ext) (fmt : Fmt) (p : SVal) (st : FState) (w : Writer) :
    serW fuel ext fmt p st w =
      ((w.runBufs fuel (serT ext fmt p st).bufs).1,
        match (w.runBufs fuel (serT ext fmt p st).bufs).2 with
        | .ok => (match (serT ext fmt p st).res with | .ok st' => .ok st' | .error e => .error (.ser e))
        | .err e => .error (.io e)
        | .hang => .error .hang
        | .panic => .error .panic) := by
  rw [Proofs.WriteThreaded.serW_eq]
  simp only [Proofs.WriteThreaded.runT]
  cases (w.runBufs fuel (serT ext fmt p st).bufs).2 with
  | ok => cases (serT ext fmt p st).res <;> rfl
  | _ => rfl

/-- **C13 (writer, threaded): programs that serialise.** `Model.Write.toWriter` — `runBufs` over `Model.Ser.ser`'s
    buffer list, the subject of `c13_writer_prefix` / `c13_writer_ok_iff` / `c13_writer_vec` / `c13_writer_budget` — is
    the threaded run: the same writer afterwards and the same result. For a program that does not serialise
    `toWriter` is that error, and the threaded run does not return `Ok`. -/
theorem c13_writer_threaded_ok (fuel : Nat) (ext : Ext) (fmt : Fmt) (p : SVal) (w : Writer) :
    match ser ext fmt p FState.init with
    | .ok _ => ∃ res, toWriter fuel ext fmt p w = .ok ((toWriterW fuel ext fmt p w).1, res) ∧
        (toWriterW fuel ext fmt p w).2 = (match res with | .ok => .ok | .io e => .io e | .hang => .hang | .panic => .panic)
    | .error e => toWriter fuel ext fmt p w = .error e ∧ (toWriterW fuel ext fmt p w).2 ≠ .ok := by
  have h := c13_trace_agrees fuel ext fmt p w
  rw [c13_writer_threaded]
  cases hs : ser ext fmt p FState.init with
  | ok r =>
    rw [hs] at h
    obtain ⟨_, w', res, h1, h2, h3⟩ := h
    exact ⟨res, by rw [h2]; exact h1, h3⟩
  | error e =>
    rw [hs] at h
    refine ⟨h.2, ?_⟩
    simp only [toWriterT, h.1]
    rcases w.runBufs fuel (serT ext fmt p FState.init).bufs with ⟨w1, o⟩
    cases o <;> simp

/-! ## kernel-checked runs of the threaded model -/

/-- `[1,2]`: `write_all` is called with `[`, `1`, `,`, `2`, `]`. A writer whose third `write` fails (kind `other 5`):
    the threaded serializer has handed `[`, `1`, `,` to `write_all`, made three `write` calls, `[1` was accepted, and the
    result is that `io::Error`; nothing after the failing call. -/
def arr12 : SVal := .seq (some 2) [.int .u8 1, .int .u8 2]
def failThird : Writer := Writer.script [.short 9, .short 9, .fail (.other 5)] (.short 9)

example : ((toWriterW 9 extI .compact arr12 failThird).1.accepted == [0x5b, 0x31] &&
    (toWriterW 9 extI .compact arr12 failThird).1.handed == [[0x5b], [0x31], [0x2c]] &&
    (toWriterW 9 extI .compact arr12 failThird).1.calls == 3 &&
    (toWriterW 9 extI .compact arr12 failThird).2 == .io { kind := .other 5 } &&
    (toWriterW 9 extI .compact arr12 Writer.vec).1.accepted == [0x5b, 0x31, 0x2c, 0x32, 0x5d] &&
    (toWriterW 9 extI .compact arr12 Writer.vec).1.handed == [[0x5b], [0x31], [0x2c], [0x32], [0x5d]] &&
    (toWriterW 9 extI .compact arr12 Writer.vec).2 == .ok) = true := by decide +kernel

/-- `[{(): null}]` — the key is a unit: `[` and `{` are written (two buffers), then `key must be a string`. A writer that
    takes everything holds `[{` and sees the serializer's error; one whose second `write` fails reports its own error
    and the key serializer is never reached (same writer state either way: the key writes nothing). -/
def unitKey : SVal := .seq none [.map none [(.unit, .unit)]]
def failSecond : Writer := Writer.script [.short 9, .fail .writeZero] (.short 9)

example : ((toWriterW 9 extI .compact unitKey Writer.vec).1.accepted == [0x5b, 0x7b] &&
    (toWriterW 9 extI .compact unitKey Writer.vec).1.handed == [[0x5b], [0x7b]] &&
    (toWriterW 9 extI .compact unitKey Writer.vec).2 == .ser .keyMustBeAString &&
    (toWriterW 9 extI .compact unitKey failSecond).1.accepted == [0x5b] &&
    (toWriterW 9 extI .compact unitKey failSecond).1.handed == [[0x5b], [0x7b]] &&
    (toWriterW 9 extI .compact unitKey failSecond).2 == .io { kind := .writeZero }) = true := by decide +kernel

/-- non-vacuity of `c13_writer_threaded` on the first run: both sides are the failing run above -/
example : (toWriterT 9 extI .compact arr12 failThird).2 = .io { kind := .other 5 } := by
  rw [← c13_writer_threaded]; decide +kernel

end SJ.Props.C13
