import SJ.Proofs.FloatDefault
/-!
# C08 — default float parsing: exact for short literals, within a few ulp otherwise

Property theorems only; helper lemmas live in `SJ/Proofs/{Ieee,Ieee64,FloatDefault}.lean`.
-/
namespace SJ.Props.C08
open SJ SJ.Spec.Ieee SJ.Spec.Decimal SJ.Model.FloatDefault SJ.Proofs.Ieee SJ.Proofs.FloatDefault

/-- The independent specification is met by the computable rounding: `roundNE64` is IEEE-754
    round-to-nearest-even (full minimality form, see `Spec.Ieee.IsNearestEven64`). -/
theorem c08_roundNE64_spec (neg : Bool) (num den : Nat) (hden : 0 < den) :
    (¬ Overflows64 num den → ∃ r, roundNE64 neg num den = some r ∧ IsNearestEven64 neg num den r) ∧
    (Overflows64 num den → roundNE64 neg num den = none) :=
  roundNE64_correct neg num den hden

theorem c08_roundNE32_spec (neg : Bool) (num den : Nat) (hden : 0 < den) :
    (¬ Overflows32 num den → ∃ r, roundNE32 neg num den = some r ∧ IsNearestEven32 neg num den r) ∧
    (Overflows32 num den → roundNE32 neg num den = none) :=
  roundNE32_correct neg num den hden

/-- every one of the 309 `POW10` entries is the literal `1e<index>` (re-extracted each run) -/
theorem c08_pow10_table : Gen.pow10Exps.length = 309 ∧ Gen.pow10Declared = 309 ∧
    ∀ i, i < 309 → Gen.pow10Exps[i]? = some i :=
  ⟨pow10_table_length.1, pow10_table_length.2, pow10_table_correct⟩

/-- the `overflow!` macro body of the source equals `a * 10 + b > c` for a digit `b` -/
theorem c08_overflow_macro (a b c : Nat) (hb : b ≤ 9) : overflow a b c = decide (a * 10 + b > c) :=
  overflow_eq a b c hb

/-- the fuelled transcription of the `f64_from_parts` loop never runs out of fuel -/
theorem c08_loop_total (f : UInt64) (e : Int) : loop (fuelFor e) f e ≠ .outOfFuel := loop_fuel f e

end SJ.Props.C08
