import SJ.Proofs.FloatLiteral
import SJ.Proofs.FloatUlp
import SJ.Proofs.FloatZero
import SJ.Proofs.FloatLift
/-!
# C08 — default float parsing: exact for short literals, within a few ulp otherwise

Property theorems only; helper lemmas live in `SJ/Proofs/{Ieee,Ieee64,FloatDefault}.lean`.
-/
namespace SJ.Props.C08
open SJ SJ.Spec.Ieee SJ.Spec.Decimal SJ.Model.FloatDefault SJ.Proofs.Ieee SJ.Proofs.FloatDefault

/-- The independent specification is met by the computable rounding: `roundNE64` is IEEE-754
    round-to-nearest-even (full minimality form, see `Spec.Ieee.IsNearestEven64`). -/
theorem c08_roundNE64_spec (neg : Bool) (num den : Nat) (hden : 0 < den) :
    (¬ Overflows64 num den → ∃ r, roundNE64 neg num den = some r ∧ IsNearestEven64 neg num den r) ∧
    (Overflows64 num den → roundNE64 neg num den = none) :=
  roundNE64_correct neg num den hden

theorem c08_roundNE32_spec (neg : Bool) (num den : Nat) (hden : 0 < den) :
    (¬ Overflows32 num den → ∃ r, roundNE32 neg num den = some r ∧ IsNearestEven32 neg num den r) ∧
    (Overflows32 num den → roundNE32 neg num den = none) :=
  roundNE32_correct neg num den hden

example : roundNE64 false 1 10 = some 0x3fb999999999999a := by decide +kernel      -- 0.1
example : roundNE64 true 5 (10 ^ 324) = some 0x8000000000000001 := by decide +kernel  -- -5e-324
example : roundNE64 false (2 ^ 1024 - 2 ^ 970) 1 = none ∧ roundNE64 false (2 ^ 1024 - 2 ^ 970 - 1) 1 = some 0x7fefffffffffffff := by
  decide +kernel
example : roundNE32 false 1 10 = some 0x3dcccccd := by decide +kernel

/-- every one of the 309 `POW10` entries is the literal `1e<index>` (re-extracted each run) -/
theorem c08_pow10_table : Gen.pow10Exps.length = 309 ∧ Gen.pow10Declared = 309 ∧
    ∀ i, i < 309 → Gen.pow10Exps[i]? = some i :=
  ⟨pow10_table_length.1, pow10_table_length.2, pow10_table_correct⟩

/-- the `overflow!` macro body of the source equals `a * 10 + b > c` for a digit `b` -/
theorem c08_overflow_macro (a b c : Nat) (hb : b ≤ 9) : overflow a b c = decide (a * 10 + b > c) :=
  overflow_eq a b c hb

/-- the fuelled transcription of the `f64_from_parts` loop never runs out of fuel -/
theorem c08_loop_total (f : UInt64) (e : Int) : loop (fuelFor e) f e ≠ .outOfFuel := loop_fuel f e


/-! ## Exactness on the short domain -/

/-- **C08, exactness (at `f64_from_parts`).** A significand below `2^53` (in particular: at most 15
    digits) and a decimal exponent within ±22 give the correctly rounded value of
    `significand · 10^exponent`: both operands are exact, one correctly rounded `*` or `/`. -/
theorem c08_exact_short_parts (positive : Bool) (s : Nat) (e : Int) (hs : s < 2 ^ 53)
    (he1 : -22 ≤ e) (he2 : e ≤ 22) :
    f64FromParts positive s e = roundNE64 (!positive) (scale10 s e).1 (scale10 s e).2 :=
  f64FromParts_exact positive s e hs he1 he2

/-- **C08, exactness (literal level).** A grammatical literal with at most 15 digits after dropping
    leading zeros (`sigVal < 10^15`) and a net decimal exponent within ±22 is deserialised to the
    correctly rounded double of its exact value, with its sign (`none` never occurs: `roundNE64` of such
    a value does not overflow). The only side condition is that the fraction is shorter than `2^30`
    digits (so that the `i32` exponent arithmetic of the parser cannot saturate). -/
theorem c08_exact_short (l : NumLit) (hwf : l.WF = true) (hD : l.sigVal < 10 ^ 15)
    (h1 : -22 ≤ l.netExp) (h2 : l.netExp ≤ 22) (hlen : l.fracDigits.length < 2 ^ 30) :
    floatOfLiteral l = roundNE64 l.neg l.exact.1 l.exact.2 :=
  floatOfLiteral_exact l hwf hD h1 h2 hlen

/-- `-12345.678e9` (int `12345`, frac `678`, exponent `9`): in the domain, result `-1.2345678e13` -/
def exLit : NumLit := ⟨true, [0x31, 0x32, 0x33, 0x34, 0x35], [0x36, 0x37, 0x38], false, [0x39]⟩
example : exLit.WF = true ∧ exLit.sigVal < 10 ^ 15 ∧ -22 ≤ exLit.netExp ∧ exLit.netExp ≤ 22 := by decide
example : floatOfLiteral exLit = some 0xc2a674e780df0000 := by decide +kernel
example : f64FromParts true 123456789012345 (-22) = roundNE64 false 123456789012345 (10 ^ 22) := by
  decide +kernel

/-! ## Finite and signed -/

/-- **C08, finite and signed (at `f64_from_parts`).** -/
theorem c08_finite_signed_parts (positive : Bool) (s : Nat) (e : Int) (r : UInt64) (hs : s < 2 ^ 64)
    (h : f64FromParts positive s e = some r) : F64.isFinite r = true ∧ F64.sign r = !positive :=
  f64FromParts_finite_signed positive s e r hs h

/-- **C08, finite and signed.** Whatever a grammatical literal is deserialised to is neither NaN nor
    infinite and carries the literal's sign — including `-0`, `-0.0`, `-0e5`, `-1e-999` ↦ `-0.0`. -/
theorem c08_finite_signed (l : NumLit) (hwf : l.WF = true) (r : UInt64)
    (h : floatOfLiteral l = some r) : F64.isFinite r = true ∧ F64.sign r = l.neg :=
  toF64_finite_signed l.neg _ r (partsOfLiteral_good l hwf) h

/-- `-0` and `-1e-400` are `-0.0`; `1e400` is rejected -/
example : floatOfLiteral ⟨true, [0x30], [], false, []⟩ = some 0x8000000000000000 := by decide +kernel
example : floatOfLiteral ⟨true, [0x31], [], true, [0x34, 0x30, 0x30]⟩ = some 0x8000000000000000 := by
  decide +kernel
example : floatOfLiteral ⟨false, [0x31], [], false, [0x34, 0x30, 0x30]⟩ = none := by decide +kernel

/-! ## The f32 target -/

/-- **C08, f32 (float path).** When the literal does not end as `ParserNumber::U64`/`I64` (it has a
    fraction or an exponent, or is `-0`, or does not fit `u64`/`i64`), the f32 is the f64 result cast
    once (`as f32`). -/
theorem c08_f32_once (l : NumLit) (h : ∀ n, partsOfLiteral l ≠ .u64 n)
    (h' : ∀ n, partsOfLiteral l ≠ .i64 n) :
    f32OfLiteral l = (floatOfLiteral l).map F64.toF32 :=
  toF32_once _ h h'

/-- **C08, f32 (integer path, small).** Integers of magnitude below `2^53` reach f32 identically
    either way. -/
theorem c08_f32_once_small_int (l : NumLit) (n : Nat) (hn : n < 2 ^ 53)
    (h : partsOfLiteral l = .u64 n ∨ partsOfLiteral l = .i64 (-(n : Int))) :
    f32OfLiteral l = (floatOfLiteral l).map F64.toF32 := by
  unfold f32OfLiteral floatOfLiteral
  rcases h with h | h <;> rw [h]
  · simp only [Parts.toF32, Parts.toF64, Option.map_some, toF32_ofU64 n hn]
  · simp only [Parts.toF32, Parts.toF64, Option.map_some, Int.natAbs_neg, Int.natAbs_natCast,
      toF32_neg_ofU64 n hn]

/-- **C08, f32 (integer path, large): the property's f32 clause fails.** serde's f32 visitor casts the
    `u64` directly (`visit_u64(v) = v as f32`): `1152921573326323713 = 2^60 + 2^36 + 1` becomes
    `0x5d800001`, whereas the f64 result `0x43b0000010000000` cast to f32 is `0x5d800000`. -/
theorem c08_f32_once_fails_on_large_int :
    let l : NumLit := ⟨false, [0x31, 0x31, 0x35, 0x32, 0x39, 0x32, 0x31, 0x35, 0x37, 0x33, 0x33, 0x32,
      0x36, 0x33, 0x32, 0x33, 0x37, 0x31, 0x33], [], false, []⟩
    f32OfLiteral l = some 0x5d800001 ∧ floatOfLiteral l = some 0x43b0000010000000 ∧
    (floatOfLiteral l).map F64.toF32 = some 0x5d800000 := by decide +kernel

example : partsOfLiteral exLit = .parts false 12345678 6 := by decide +kernel
/-- `-9007199254740991` (`2^53 − 1`, `I64` path) -/
example : f32OfLiteral ⟨true, [0x39, 0x30, 0x30, 0x37, 0x31, 0x39, 0x39, 0x32, 0x35, 0x34, 0x37, 0x34, 0x30, 0x39, 0x39, 0x31], [], false, []⟩
    = some 0xda000000 := by decide +kernel
example : f32OfLiteral exLit = (floatOfLiteral exLit).map F64.toF32 :=
  c08_f32_once exLit (by intro n h; rw [show partsOfLiteral exLit = .parts false 12345678 6 by decide +kernel] at h; cases h)
    (by intro n h; rw [show partsOfLiteral exLit = .parts false 12345678 6 by decide +kernel] at h; cases h)


/-! ## Overflow direction, underflow, accuracy

Each clause is stated twice: at the `f64_from_parts(positive, significand, exponent)` call the digit
collection ends in (`…_parts`: `significand < 2^64`, every `i32` exponent, value `significand · 10^exponent`),
and for every grammatical literal against its exact value `NumLit.exact` (digits beyond `u64` are dropped by
the parser: the parsed value is never above the exact one and misses it by less than `10^-18` relative,
`Proofs.FloatDefault.collect_spec`). The literal-level statements carry one side condition,
`l.digits.length < 2^30` (integer plus fraction digits): it keeps the `i32` exponent bookkeeping of the
parser meaningful, exactly as in `c08_exact_short`. -/

/-- **C08, overflow direction at `f64_from_parts`** (every exponent): rejected only if `exponent ≥ 0` and
    the value is at least `2^1024 − 2^970 − 2^972` (within 2 ulp, `ulp = 2^971`, of the rounding threshold);
    every value of at least `2^1024 + 2^972` is rejected. -/
theorem c08_overflow_direction_parts (positive : Bool) (s : Nat) (e : Int) (hs : s < 2 ^ 64) :
    (f64FromParts positive s e = none →
        0 ≤ e ∧ 2 ^ 1024 - 2 ^ 970 - 2 ^ 972 ≤ s * 10 ^ e.natAbs) ∧
    (0 ≤ e → 2 ^ 1024 + 2 ^ 972 ≤ s * 10 ^ e.natAbs → f64FromParts positive s e = none) :=
  f64FromParts_overflow_direction positive s e hs

/-- **C08, "rejected only near or beyond the overflow threshold" — every literal.** A grammatical literal
    is rejected (`NumberOutOfRange`) only if its exact value is at least `2^1024 − 2^970 − 2^972`, i.e.
    within 2 ulp of the point `2^1024 − 2^970` from which round-to-nearest overflows. This covers digit
    dropping (which only lowers the parsed value) and the `parse_exponent_overflow` path (exponent digits
    beyond `i32`: rejected only with a non-zero significand and a positive exponent, value `≥ 10^(2^30)`). -/
theorem c08_rejected_only_near_threshold (l : NumLit) (hwf : l.WF = true)
    (hlen : l.digits.length < 2 ^ 30) (h : floatOfLiteral l = none) :
    (2 ^ 1024 - 2 ^ 970 - 2 ^ 972) * l.exact.2 ≤ l.exact.1 :=
  (SJ.Proofs.FloatQ.floatOfLiteral_overflow l hwf hlen).1 h

/-- **C08, overflow direction — every literal (partial only where the property is false of the code).**
    Rejected ⇒ exact value `≥ 2^1024 − 2^970 − 2^972`; exact value `≥ 2^1024 + 2^972 + 2^965` ⇒ rejected
    (`2^972` = 2 ulp from the two operand roundings, `2^965 > 2^1024·10^-18` for the dropped digits).
    NOT provable, because false on the pinned code: the property's "(and always if beyond it)" read as
    "every value ≥ 2^1024 is rejected" — `179769313486231591e291 > 2^1024` is accepted as `f64::MAX`
    (`c08_accepts_above_2pow1024`, finding C08-F1). Between `2^1024 − 2^970 − 2^972` and
    `2^1024 + 2^972 + 2^965` both outcomes occur; an accepted result there is still within 5 ulp
    (`c08_within_5ulp`). Nothing else is missing. -/
theorem c08_overflow_direction_partial (l : NumLit) (hwf : l.WF = true)
    (hlen : l.digits.length < 2 ^ 30) :
    (floatOfLiteral l = none → (2 ^ 1024 - 2 ^ 970 - 2 ^ 972) * l.exact.2 ≤ l.exact.1) ∧
    ((2 ^ 1024 + 2 ^ 972 + 2 ^ 965) * l.exact.2 ≤ l.exact.1 → floatOfLiteral l = none) :=
  SJ.Proofs.FloatQ.floatOfLiteral_overflow l hwf hlen

/-- the pinned code accepts a literal above `2^1024` (kernel-evaluated on the exact-IEEE model; the
    correspondence run confirms the same bits on the real crate) -/
theorem c08_accepts_above_2pow1024 :
    2 ^ 1024 < 179769313486231591 * 10 ^ 291 ∧
    f64FromParts true 179769313486231591 291 = some 0x7fefffffffffffff := by decide +kernel

example : f64FromParts true 17976931348623159 292 = none := by decide +kernel
example : f64FromParts true 1 309 = none := by decide +kernel

/-- `1797693134862317000000000e284` (25 digits, 5 of them dropped): above `2^1024 + 2^972 + 2^965`, rejected -/
def exBig : NumLit := ⟨false, [0x31, 0x37, 0x39, 0x37, 0x36, 0x39, 0x33, 0x31, 0x33, 0x34, 0x38, 0x36, 0x32, 0x33,
  0x31, 0x37, 0x30, 0x30, 0x30, 0x30, 0x30, 0x30, 0x30, 0x30, 0x30], [], false, [0x32, 0x38, 0x34]⟩
example : exBig.WF = true ∧ exBig.digits.length < 2 ^ 30 := by decide
example : (2 ^ 1024 + 2 ^ 972 + 2 ^ 965) * exBig.exact.2 ≤ exBig.exact.1 := by decide +kernel
example : partsOfLiteral exBig = .parts true 17976931348623170000 289 ∧ floatOfLiteral exBig = none := by
  decide +kernel
/-- `1e2147483648`: the exponent digits overflow `i32` (`parse_exponent_overflow`), rejected -/
example : floatOfLiteral ⟨false, [0x31], [], false,
    [0x32, 0x31, 0x34, 0x37, 0x34, 0x38, 0x33, 0x36, 0x34, 0x38]⟩ = none := by decide +kernel

/-- **C08, zero significand.** `±0` whatever the exponent (`0e400`, `-0.000e-999`). -/
theorem c08_zero_significand (positive : Bool) (e : Int) :
    f64FromParts positive 0 e = some (F64.zero (!positive)) :=
  f64FromParts_zero positive e

/-- **C08, underflow at `f64_from_parts`.** A value `significand · 10^exponent` of at most `2^-1076` — a
    quarter of the least subnormal `2^-1074`, i.e. safely "below the subnormal range" — gives `±0`, for
    every `u64` significand and every exponent: two `f /= 1e308` rounds flush everything for
    `exponent < -616`, and for `-616 ≤ exponent ≤ -309` the rounding errors of `significand as f64`,
    `/ 1e308` (possibly subnormal) and the table division keep the last quotient at or below half the
    least subnormal. -/
theorem c08_underflow_zero_parts (positive : Bool) (s : Nat) (e : Int) (hs : s < 2 ^ 64) (he : e < 0)
    (hx : s * 2 ^ 1076 ≤ 10 ^ e.natAbs) : f64FromParts positive s e = some (F64.zero (!positive)) :=
  f64FromParts_underflow positive s e hs he hx

/-- **C08, "values below the subnormal range give ±0" — every literal.** A grammatical literal whose exact
    value is at most `2^-1076` is deserialised to `±0` with the literal's sign: dropped digits only lower
    the parsed value, and a negative exponent beyond `i32` (`1e-99999999999`) returns `±0` by construction.
    (Between `2^-1076` and `2^-1075` the result may be `±0` or the least subnormal — both within 1 ulp;
    from `2^-1075` on the correctly rounded value is no longer zero, and `c08_within_5ulp` applies.) -/
theorem c08_underflow_zero (l : NumLit) (hwf : l.WF = true) (hlen : l.digits.length < 2 ^ 30)
    (hx : l.exact.1 * 2 ^ 1076 ≤ l.exact.2) : floatOfLiteral l = some (F64.zero l.neg) :=
  SJ.Proofs.FloatQ.floatOfLiteral_underflow l hwf hlen hx

/-- `6e-325 < 2^-1076 ≈ 6.18e-325` -/
example : 6 * 2 ^ 1076 ≤ 10 ^ (-325 : Int).natAbs := by decide +kernel
example : f64FromParts true 6 (-325) = some 0 := by decide +kernel
example : f64FromParts false 18446744073709551615 (-617) = some 0x8000000000000000 := by decide +kernel
example (z p : Bool) : parseExponentOverflow p z false = some (F64.zero (!p)) := by
  cases z <;> cases p <;> rfl
/-- `-600000000000000000000001e-348` (24 digits, 5 dropped; `≈ -6e-325`): hypotheses met, result `-0.0` -/
def exTiny : NumLit := ⟨true, [0x36, 0x30, 0x30, 0x30, 0x30, 0x30, 0x30, 0x30, 0x30, 0x30, 0x30, 0x30, 0x30, 0x30,
  0x30, 0x30, 0x30, 0x30, 0x30, 0x30, 0x30, 0x30, 0x30, 0x31], [], true, [0x33, 0x34, 0x38]⟩
example : exTiny.WF = true ∧ exTiny.digits.length < 2 ^ 30 := by decide
example : exTiny.exact.1 * 2 ^ 1076 ≤ exTiny.exact.2 := by decide +kernel
example : partsOfLiteral exTiny = .parts false 6000000000000000000 (-343) ∧
    floatOfLiteral exTiny = some 0x8000000000000000 := by decide +kernel
/-- `1e-2147483648` -/
example : floatOfLiteral ⟨false, [0x31], [], true,
    [0x32, 0x31, 0x34, 0x37, 0x34, 0x38, 0x33, 0x36, 0x34, 0x38]⟩ = some 0 := by decide +kernel

/-- **C08, 5 ulp at `f64_from_parts`** — every `u64` significand, every exponent, normal and subnormal
    results: an accepted result is within 5 ulp of `significand · 10^exponent`, the ulp being that of the
    correctly rounded value (`Spec.Ieee.withinUlps`; in the subnormal range the fixed `2^-1074`). The proof
    (`Proofs.FloatQ.parts_near`) shows `|result − x| ≤ 4.001·2^-53·x + 0.56·2^-1074` on every path of the loop:
    `significand as f64`, the table entry and the operation for `|exponent| ≤ 308`; two more roundings for
    the `f /= 1e308` step below `-308` (where an inexact second table entry only occurs for values below
    `2^-1026`, so its error is absorbed by the absolute term); `±0` for `exponent < -616`. -/
theorem c08_within_5ulp_parts (positive : Bool) (s : Nat) (e : Int) (r : UInt64) (hs : s < 2 ^ 64)
    (h : f64FromParts positive s e = some r) :
    withinUlps 5 (!positive) (scale10 s e).1 (scale10 s e).2 r = true :=
  SJ.Proofs.FloatQ.f64FromParts_within5 positive s e r hs h

/-- **C08, "otherwise within 5 units in the last place" — every literal.** Whatever a grammatical literal is
    deserialised to (not rejected) is finite, carries the literal's sign and lies within 5 ulp of the
    literal's exact value, where the ulp is that of the correctly rounded exact value (`2^-1074` through the
    subnormals; the ulp of `f64::MAX` where the correctly rounded value would overflow). Covers the integer
    path (one correctly rounded cast), every `f64_from_parts` path, digits dropped after `u64` overflow
    (`< 10^-18` relative, the proof has `4.02·2^-53` relative plus `0.56·2^-1074` in total) and exponents
    beyond `i32` (`±0` for a value below `10^-(2^30)`). -/
theorem c08_within_5ulp (l : NumLit) (hwf : l.WF = true) (hlen : l.digits.length < 2 ^ 30)
    (r : UInt64) (h : floatOfLiteral l = some r) :
    withinUlps 5 l.neg l.exact.1 l.exact.2 r = true :=
  SJ.Proofs.FloatQ.floatOfLiteral_within5 l hwf hlen r h

/-- `12345678901234567890e-300` (20 digits, division by `1e300`) -/
example : ∃ r, f64FromParts true 12345678901234567890 (-300) = some r ∧
    withinUlps 5 false 12345678901234567890 (10 ^ 300) r = true :=
  ⟨0x059caf4b164e4802, by decide +kernel⟩
/-- `12345678901234567890123e-330`: 23 digits (3 dropped), exponent `-327` after the digit collection
    (`/ 1e308`, then `/ 1e19`), subnormal result `≈ 1.2345678901234567e-308` -/
def exSub : NumLit := ⟨false, [0x31, 0x32, 0x33, 0x34, 0x35, 0x36, 0x37, 0x38, 0x39, 0x30, 0x31, 0x32, 0x33, 0x34,
  0x35, 0x36, 0x37, 0x38, 0x39, 0x30, 0x31, 0x32, 0x33], [], true, [0x33, 0x33, 0x30]⟩
example : exSub.WF = true ∧ exSub.digits.length < 2 ^ 30 := by decide
example : partsOfLiteral exSub = .parts true 12345678901234567890 (-327) ∧
    floatOfLiteral exSub = some 0x0008e0a3a2bc301f ∧
    withinUlps 5 false exSub.exact.1 exSub.exact.2 0x0008e0a3a2bc301f = true := by decide +kernel
/-- `18446744073709551616.5`: the integer part overflows `u64` by one, yet the fraction digit is appended:
    `f64_from_parts(_, 18446744073709551615, 0)` -/
example : partsOfLiteral ⟨false, [0x31, 0x38, 0x34, 0x34, 0x36, 0x37, 0x34, 0x34, 0x30, 0x37, 0x33, 0x37, 0x30,
    0x39, 0x35, 0x35, 0x31, 0x36, 0x31, 0x36], [0x35], false, []⟩ = .parts true 18446744073709551615 0 := by
  decide +kernel
/-- `25e-321` (subnormal) -/
example : floatOfLiteral ⟨false, [0x32, 0x35], [], true, [0x33, 0x32, 0x31]⟩ = some 0x13c4 ∧
    withinUlps 5 false 25 (10 ^ 321) 0x13c4 = true := by decide +kernel

end SJ.Props.C08
