import SJ.Props.C01Iff
import SJ.Proofs.RangeLit
import SJ.Proofs.RangeClamp
/-!
# C01 — the number-range clause, stated with the specification

`c01_accepts_iff` states "keeps every number within finite f64 range" as `Spec.Canon.numbersInRange`, which asks the
*configured conversion of the model* whether it returns a number. `Spec.Range.finiteRange` states it with the exact
decimal value and IEEE nearest-even rounding only. Here the two are related:

* under `float_roundtrip` they coincide (`c01_range_fr`), so the accepted language is characterised purely by
  specification notions (`c01_accepts_iff_fr`);
* in the default build they do **not**: only a band is determined (`c01_range_default_band`), and both sides of the
  band are inhabited (`c01_default_rejects_finite`, `c01_default_accepts_infinite`; open finding
  `C01-default-range-band`, the C01 face of C08-F1).
-/
namespace SJ.Props.C01Range
open SJ SJ.Gen SJ.Model.Machine SJ.Spec.Grammar SJ.Proofs.CanonM SJ.Spec.Ieee SJ.Spec.Decimal
open SJ.Spec.Range (allNums finiteRange litOf LitFinite)
open SJ.Proofs.RangeLit

/-- **C01, number range under `float_roundtrip`.** For a syntax tree whose number literals are grammatical and have
    fewer than `2^29 - 20` integer-plus-fraction digits (the digit-count bound of C07), "the configured conversion
    returns a number for every literal" (`numbersInRange`, the clause of `c01_accepts_iff`) holds iff every literal is
    within finite f64 range in the specification's sense: an integer literal within `[i64::MIN, u64::MAX]`, or the
    nearest-even binary64 rounding of its exact decimal value is finite (`¬ Overflows64`: value `< 2^1024 − 2^970`).
    From `c07_correct` / `c07_nearest_even` / `c07_other_literals` (`Proofs/RangeLit.numOf_fr_isSome_iff`). -/
theorem c01_range_fr (cfg : Spec.Canon.Cfg) (hfr : cfg.fr = true) (hap : cfg.ap = false) (t : CST)
    (hlits : allNums (fun p => p.WF = true ∧ p.int.length + p.frac.length + 20 < 2 ^ 29) t) :
    Spec.Canon.numbersInRange cfg t = true ↔ finiteRange t := by
  rw [numbersInRange_iff]
  unfold finiteRange
  constructor
  · intro h
    exact allNums_mono (fun p hp => (numOf_fr_isSome_iff cfg hfr hap p hp.2.1 hp.2.2).1 hp.1) t (allNums_and t h hlits)
  · intro h
    exact allNums_mono (fun p hp => (numOf_fr_isSome_iff cfg hfr hap p hp.2.1 hp.2.2).2 hp.1) t (allNums_and t h hlits)

/-- non-vacuity: `[1e308, -1.7976931348623158e308, 18446744073709551615]` is within range, `[1e309]` is not
    (`2^1024 − 2^970 ≤ 10^309`), and `numbersInRange` under `float_roundtrip` agrees on both -/
example :
    Spec.Canon.numbersInRange { fr := true } (.arr [.num ⟨false, [0x31], [], [0x65, 0x33, 0x30, 0x38]⟩]) = true ∧
    Spec.Canon.numbersInRange { fr := true } (.arr [.num ⟨false, [0x31], [], [0x65, 0x33, 0x30, 0x39]⟩]) = false ∧
    ¬ Overflows64 (litOf ⟨false, [0x31], [], [0x65, 0x33, 0x30, 0x38]⟩).exact.1 (litOf ⟨false, [0x31], [], [0x65, 0x33, 0x30, 0x38]⟩).exact.2 ∧
    Overflows64 (litOf ⟨false, [0x31], [], [0x65, 0x33, 0x30, 0x39]⟩).exact.1 (litOf ⟨false, [0x31], [], [0x65, 0x33, 0x30, 0x39]⟩).exact.2 := by
  refine ⟨by decide +kernel, by decide +kernel, by decide +kernel, by decide +kernel⟩

/-- **C01 under `float_roundtrip`, in the specification's words only.** Without `arbitrary_precision`, for every
    source and every input shorter than `2^29 - 20` bytes: parsing into `Value` succeeds iff the bytes are exactly one
    RFC 8259 JSON text (optionally surrounded by whitespace) nesting at most 127 deep (unless the limit is disabled),
    with every surrogate escape paired, decoding to valid UTF-8 (byte sources), and with every number literal within
    finite f64 range (`Spec.Range.finiteRange`: exact decimal value, nearest-even rounding). No notion of the model
    occurs on the right-hand side. -/
theorem c01_accepts_iff_fr (env : Env) (henv : env.tgt = .value) (hfr : env.cfg.fr = true) (hap : env.cfg.ap = false)
    (bs : Bytes) (hlen : bs.length + 20 < 2 ^ 29) :
    (∃ v, parseTop env bs = .ok v) ↔
    ∃ t, JsonText bs t ∧ (env.cfg.limitOff = true ∨ depth t ≤ 127) ∧ surrogatesPaired t = true ∧
      (env.src ≠ .str → Spec.Canon.stringsUtf8 t = true) ∧ finiteRange t := by
  rw [SJ.Props.C01Iff.c01_accepts_iff env henv bs]
  have key : ∀ t, JsonText bs t → (Spec.Canon.numbersInRange (specCfg env.cfg) t = true ↔ finiteRange t) := by
    intro t ht
    apply c01_range_fr (specCfg env.cfg) hfr hap t
    exact allNums_mono (fun p hp => ⟨hp.1, by omega⟩) t (nums_of_jsonText ht)
  constructor
  · rintro ⟨t, h1, h2, h3, h4, h5⟩; exact ⟨t, h1, h2, h3, h4, (key t h1).1 h5⟩
  · rintro ⟨t, h1, h2, h3, h4, h5⟩; exact ⟨t, h1, h2, h3, h4, (key t h1).2 h5⟩

/-- non-vacuity: `[1e308]` from a slice under `float_roundtrip` -/
example : (parseTop ⟨{ fr := true }, .slice, .value⟩ [0x5b, 0x31, 0x65, 0x33, 0x30, 0x38, 0x5d]).isOk
    (.arr [.num (.float 0x7fe1ccf385ebc8a0)]) = true := by decide +kernel

/-- **C01, number range in the default build: only a band.** Without `float_roundtrip` and `arbitrary_precision`, for
    a tree whose literals are grammatical with fewer than `2^30` digits:
    * if the conversion returns a number for every literal (`numbersInRange`), every literal's exact value is below
      `2^1024 + 2^972 + 2^965`;
    * if every literal's exact value is below `2^1024 − 2^970 − 2^972`, the conversion returns a number for every literal.
    Between the two bounds — 2 ulp (`ulp = 2^971`) either side of the rounding threshold `2^1024 − 2^970` — the value
    does not determine the answer: `c01_default_rejects_finite`, `c01_default_accepts_infinite`. In particular
    `numbersInRange ↔ finiteRange` is FALSE in the default build (both directions), which is why `c01_accepts_iff` cannot
    be restated with `finiteRange` there. From `c08p_rejected_only_near_threshold` / `c08p_overflow_direction_partial`. -/
theorem c01_range_default_band (cfg : Spec.Canon.Cfg) (hfr : cfg.fr = false) (hap : cfg.ap = false) (t : CST)
    (hlits : allNums (fun p => p.WF = true ∧ p.int.length + p.frac.length < 2 ^ 30) t) :
    (Spec.Canon.numbersInRange cfg t = true →
      allNums (fun p => (litOf p).exact.1 < (2 ^ 1024 + 2 ^ 972 + 2 ^ 965) * (litOf p).exact.2) t) ∧
    (allNums (fun p => (litOf p).exact.1 < (2 ^ 1024 - 2 ^ 970 - 2 ^ 972) * (litOf p).exact.2) t →
      Spec.Canon.numbersInRange cfg t = true) := by
  rw [numbersInRange_iff]
  constructor
  · intro h
    exact allNums_mono (fun p hp => numOf_default_upper cfg hfr hap p hp.2.1 hp.2.2 hp.1) t (allNums_and t h hlits)
  · intro h
    exact allNums_mono (fun p hp => numOf_default_lower cfg hfr hap p hp.2.1 hp.2.2 hp.1) t (allNums_and t h hlits)

/-- `17976931348623156225e289` -/
def litBelowMax : NumParts :=
  ⟨false, [0x31,0x37,0x39,0x37,0x36,0x39,0x33,0x31,0x33,0x34,0x38,0x36,0x32,0x33,0x31,0x35,0x36,0x32,0x32,0x35], [],
    [0x65,0x32,0x38,0x39]⟩

/-- `179769313486231591e291` -/
def litAbove2p1024 : NumParts :=
  ⟨false, [0x31,0x37,0x39,0x37,0x36,0x39,0x33,0x31,0x33,0x34,0x38,0x36,0x32,0x33,0x31,0x35,0x39,0x31], [],
    [0x65,0x32,0x39,0x31]⟩

/-- **the lower half of the band is inhabited.** `17976931348623156225e289` is *below `f64::MAX`*
    (`2^1024 − 2^971`), hence within finite f64 range, and the default build rejects it (`numbersInRange` false, the
    parser model answers `NumberOutOfRange`; the crate does the same: op `pv`, tag `range-band`). -/
theorem c01_default_rejects_finite :
    litBelowMax.WF = true ∧
    (litOf litBelowMax).exact.1 < (2 ^ 1024 - 2 ^ 971) * (litOf litBelowMax).exact.2 ∧
    LitFinite (litOf litBelowMax) ∧
    Spec.Canon.numbersInRange {} (.num litBelowMax) = false ∧
    (parseTop ⟨{}, .slice, .value⟩ litBelowMax.bytes).isErr .NumberOutOfRange 24 = true := by
  refine ⟨by decide, by decide +kernel, Or.inr (by decide +kernel), by decide +kernel, by decide +kernel⟩

/-- **the upper half of the band is inhabited.** `179769313486231591e291` is at least `2^1024` — not within finite f64
    range — and the default build accepts it as `f64::MAX` (finding C08-F1 seen from C01). -/
theorem c01_default_accepts_infinite :
    litAbove2p1024.WF = true ∧
    2 ^ 1024 * (litOf litAbove2p1024).exact.2 ≤ (litOf litAbove2p1024).exact.1 ∧
    ¬ LitFinite (litOf litAbove2p1024) ∧
    Spec.Canon.numbersInRange {} (.num litAbove2p1024) = true ∧
    (parseTop ⟨{}, .slice, .value⟩ litAbove2p1024.bytes).isOk (.num (.float 0x7fefffffffffffff)) = true := by
  refine ⟨by decide, by decide +kernel, ?_, by decide +kernel, by decide +kernel⟩
  rw [litFinite_iff]
  exact fun h => h (by decide +kernel)

/-- … and under `float_roundtrip` neither happens: the first is accepted (as `f64::MAX`), the second rejected -/
example :
    (parseTop ⟨{ fr := true }, .slice, .value⟩ litBelowMax.bytes).isOk (.num (.float 0x7fefffffffffffff)) = true ∧
    (parseTop ⟨{ fr := true }, .slice, .value⟩ litAbove2p1024.bytes).isErr .NumberOutOfRange 22 = true := by
  refine ⟨by decide +kernel, by decide +kernel⟩

/-- **the driver's range oracle is the specification.** `Spec.Range.finiteRangeB` — what `sjdriver` evaluates on the
    recognised tree of every generated input: `roundNE64` of each literal's exact value, the written exponent clamped to
    `1200 + number of digits` so that `1e99999999999` is never expanded — decides `finiteRange` on every tree with
    grammatical literals (in particular on every tree of a JSON text). -/
theorem c01_range_oracle (t : CST) (hwf : allNums (fun p => p.WF = true) t) :
    Spec.Range.finiteRangeB t = true ↔ finiteRange t :=
  SJ.Proofs.RangeClamp.finiteRangeB_iff t hwf

/-- `[1e99999999999]` is judged (not finite) without expanding the power; `[1e-99999999999, 0e99999999999]` is finite -/
example :
    Spec.Range.finiteRangeB (.arr [.num ⟨false, [0x31], [], [0x65,0x39,0x39,0x39,0x39,0x39,0x39,0x39,0x39,0x39,0x39,0x39]⟩]) = false ∧
    Spec.Range.finiteRangeB (.arr [.num ⟨false, [0x31], [], [0x65,0x2d,0x39,0x39,0x39,0x39,0x39,0x39,0x39,0x39,0x39,0x39,0x39]⟩,
      .num ⟨false, [0x30], [], [0x65,0x39,0x39,0x39,0x39,0x39,0x39,0x39,0x39,0x39,0x39,0x39]⟩]) = true := by
  refine ⟨by decide +kernel, by decide +kernel⟩

end SJ.Props.C01Range
