import SJ.Props.C04
import SJ.Props.C04Short
import SJ.Proofs.Schema
/-!
# C04, default build: `c04_reparse` without the float hypothesis, for parsed values whose floats print as short literals

`Props/C04.lean` `c04_reparse` — serialise-then-parse of a PARSED value gives it back — carries the hypothesis
`FloatsRoundTrip env.cfg ext v`. `Props/C04Short.lean` `c04_floats_roundtrip_short` discharges that hypothesis in the builds
without `float_roundtrip` and `arbitrary_precision` for the class `ShortFloats ext v`, from `RyuShortest ext`. This module is
the composition: the same conclusion as `c04_reparse`, both formatters, every pair of sources, with no `FloatsRoundTrip`
hypothesis. Nothing new is proved about floats here; outside `ShortFloats` the default build does fail
(`c04_default_long_fails`, `c04_default_sci15_fails`), so the class hypothesis cannot be dropped.
-/
namespace SJ.Props.C04ReparseShort
open SJ SJ.Model.Ser SJ.Model.Machine SJ.Spec.Grammar SJ.Spec.Image SJ.Spec.WF
open SJ.Props.C04 SJ.Props.C04Short
open SJ.Proofs.LexTopRoundtrip (RyuShortest)

/-- **C04 (`reparse`), default build, short floats (`c04_reparse_default_short`).** Without `float_roundtrip` and
    `arbitrary_precision`, under the single named hypothesis `RyuShortest ext` about the external printer: whatever the parser
    returns (`parseTop env bs = .ok v`, any source; a `&str` input being valid UTF-8), if every float of it prints as a short
    literal (`ShortFloats ext v`: at most 15 digits as written, net decimal exponent within ±22; vacuous without floats), then
    `to_string` / `to_string_pretty` (any whitespace indent) of it succeed and `from_str` / `from_slice` / `from_reader`
    (`src'`) of the text return it: `from_X(to_string(from_Y(bs))) = from_Y(bs)`. The hypothesis `FloatsRoundTrip` of
    `c04_reparse` is gone (`c04_floats_roundtrip_short`); well-formedness is `c04_wf_of_parse`, inside `c04_reparse`. -/
theorem c04_reparse_default_short (env : Env) (henv : env.tgt = .value) (hfr : env.cfg.fr = false) (hap : env.cfg.ap = false)
    (ext : Ext) (hext : ExtOK ext) (hr : RyuShortest ext) (bs : Bytes) (v : JV)
    (h : parseTop env bs = .ok v) (hutf : env.src = .str → Spec.Utf8.validUtf8 bs = true)
    (hs : ShortFloats ext v) (src' : Src) :
    (∃ bufs, serCompact ext (ofValue v) = .ok bufs ∧
      parseTop ⟨env.cfg, src', .value⟩ bufs.flatten = .ok v) ∧
    (∀ indent, Ws indent → ∃ bufs, serPretty ext indent (ofValue v) = .ok bufs ∧
      parseTop ⟨env.cfg, src', .value⟩ bufs.flatten = .ok v) :=
  c04_reparse env henv ext hext bs v h hutf (c04_floats_roundtrip_short env.cfg hfr hap ext hext hr v hs) src'

/-! ## non-vacuity

`[0.1,1.5,1e22,{"k":-2.5e-8},0.0,7]` is read by the default build as `exS` of `Props/C04Short.lean` (evaluated by the kernel),
and `ShortFloats ext exS` holds for the table `ext1` that prints those doubles as the real `ryu` does (`by decide`, there and
below). `RyuShortest` is a statement about every finite double, so no finite table satisfies it: the theorem is applied to
an arbitrary printer carrying the two hypotheses about `ryu` and the class hypothesis on the five floats of the document. -/

/-- `[0.1,1.5,1e22,{"k":-2.5e-8},0.0,7]` -/
def exSDoc : Bytes :=
  [0x5b, 0x30, 0x2e, 0x31, 0x2c, 0x31, 0x2e, 0x35, 0x2c, 0x31, 0x65, 0x32, 0x32, 0x2c, 0x7b, 0x22, 0x6b, 0x22, 0x3a,
   0x2d, 0x32, 0x2e, 0x35, 0x65, 0x2d, 0x38, 0x7d, 0x2c, 0x30, 0x2e, 0x30, 0x2c, 0x37, 0x5d]

/-- the parse hypothesis holds for that document, from a reader, in the default build -/
theorem exSDoc_parses : parseTop ⟨{}, .reader, .value⟩ exSDoc = .ok exS := by
  have hk : (parseTop ⟨{}, .reader, .value⟩ exSDoc).isOk exS = true := by decide +kernel
  cases hp : parseTop ⟨{}, .reader, .value⟩ exSDoc with
  | ok v' => rw [hp] at hk; exact congrArg Outcome.ok (JV.eq_of_beq v' exS hk)
  | err c i => rw [hp] at hk; exact absurd hk (by simp [Outcome.isOk])

/-- the class hypothesis holds at the table of `Props/C04Short.lean` -/
example : ShortFloats ext1 exS := by decide

/-- the theorem applied: read from a reader, printed with a tab indent, read again from a `&str` -/
example (ext : Ext) (hext : ExtOK ext) (hr : RyuShortest ext) (hs : ShortFloats ext exS) :
    ∃ bufs, serPretty ext [0x09] (ofValue exS) = .ok bufs ∧ parseTop ⟨{}, .str, .value⟩ bufs.flatten = .ok exS :=
  (c04_reparse_default_short ⟨{}, .reader, .value⟩ rfl rfl rfl ext hext hr exSDoc exS exSDoc_parses (fun h => by cases h) hs
    .str).2 [0x09] (by decide)

/-- … and compactly, read again from a slice -/
example (ext : Ext) (hext : ExtOK ext) (hr : RyuShortest ext) (hs : ShortFloats ext exS) :
    ∃ bufs, serCompact ext (ofValue exS) = .ok bufs ∧ parseTop ⟨{}, .slice, .value⟩ bufs.flatten = .ok exS :=
  (c04_reparse_default_short ⟨{}, .reader, .value⟩ rfl rfl rfl ext hext hr exSDoc exS exSDoc_parses (fun h => by cases h) hs
    .slice).1

/-- a parsed value without floats: the class hypothesis is vacuous, whatever the printer (`exDoc` of `Props/C04.lean`) -/
example (ext : Ext) (hext : ExtOK ext) (hr : RyuShortest ext) :
    ∃ bufs, serCompact ext (ofValue exDocV) = .ok bufs ∧ parseTop ⟨{}, .str, .value⟩ bufs.flatten = .ok exDocV :=
  (c04_reparse_default_short ⟨{}, .slice, .value⟩ rfl rfl rfl ext hext hr exDoc exDocV rfl (fun h => by cases h) rfl .str).1

end SJ.Props.C04ReparseShort
