import SJ.Proofs.SerModel
import SJ.Proofs.SerLayout
import SJ.Proofs.SerImage
import SJ.Proofs.SerHints
import SJ.Proofs.SerValue
import SJ.Proofs.Recognise
import SJ.Proofs.SerUtf8
import SJ.Proofs.Display
/-!
# C03 — serialiser output is well-formed JSON that denotes the data

Property theorems only; helper lemmas live in `SJ/Proofs/Ser*.lean`, `SJ/Proofs/Number.lean`.

* the model: `SJ.Model.Ser.serCompact` / `serPretty` (exact buffer lists of `Serializer` with
  `CompactFormatter` / `PrettyFormatter::with_indent`), `ofValue` (`impl Serialize for Value`);
* the specification: `SJ.Spec.Image.image` (data-model image of a program), `render` / `layout`
  (compact / pretty structural printers), `cstOf`, and the RFC 8259 grammar `Derives` with its
  denotation `den`;
* programs: all `SVal` with `p.wf` (every seq/map length hint is `None` or `Some(exact)`);
* `Display` / `{:#}` of a `Value`: `SJ.Model.Display` (the `io::Write` adapter over a `fmt::Formatter` whose sink has
  an arbitrary failure policy; `from_utf8_unchecked` tracked by the flag `ub`), theorems `c03_display*`;
* external printers: any `ext` with `ExtOK ext` (itoa prints decimal digits, ryu prints numbers).
-/
namespace SJ.Props.C03
open SJ SJ.Model.Ser SJ.Spec.Grammar SJ.Spec.Denote SJ.Spec.Image SJ.Spec.Program
open SJ.Proofs SJ.Proofs.SerFmt SJ.Proofs.SerModel SJ.Model

/-! ## an instance of the assumptions, for the non-vacuity examples: real `itoa`, and a "ryu" that
    prints every float as `1.5` -/
def ext0 : Ext := { itoa := Spec.Number.decimal, ryu64 := fun _ => [0x31, 0x2e, 0x35], ryu32 := fun _ => [0x31, 0x2e, 0x35] }
theorem ext0_ok : ExtOK ext0 :=
  ⟨fun _ => rfl, fun _ _ => ⟨⟨false, [0x31], [0x2e, 0x35], []⟩, rfl, rfl⟩,
   fun _ _ => ⟨⟨false, [0x31], [0x2e, 0x35], []⟩, rfl, rfl⟩⟩

/-- `{"a":{"V":{}},"5":[],"é":[1,2]}` as a program: a map with hint `None` holding an *empty struct
    variant*, a `None`-hinted empty seq under an integer key, bytes under a `char` key -/
def progA : SVal :=
  .map none [(.str [0x61], .structVariant [0x56] []), (.int .u8 5, .seq none []), (.char 0xe9, .bytes [1, 2])]

/-- a map with a unit key after a valid one: not serialisable -/
def progBad : SVal := .map (some 2) [(.str [0x61], .unit), (.unit, .unit)]

theorem lay_compact : lay .compact = layoutWith (fun _ => []) [] := by
  have : sepOf .compact = fun _ => [] := by funext n; rfl
  simp [lay, this, gapOf]

theorem serCompact_ok {ext : Ext} {p : SVal} {bufs : List Bytes} (h : serCompact ext p = .ok bufs) :
    ∃ r, ser ext .compact p FState.init = .ok r ∧ r.bufs = bufs := by
  unfold serCompact at h
  cases hr : ser ext .compact p FState.init with
  | error e => simp [hr, Except.map] at h
  | ok r => exact ⟨r, rfl, by simpa [hr, Except.map] using h⟩

theorem serPretty_ok {ext : Ext} {indent : Bytes} {p : SVal} {bufs : List Bytes} (h : serPretty ext indent p = .ok bufs) :
    ∃ r, ser ext (.pretty indent) p FState.init = .ok r ∧ r.bufs = bufs := by
  unfold serPretty at h
  cases hr : ser ext (.pretty indent) p FState.init with
  | error e => simp [hr, Except.map] at h
  | ok r => exact ⟨r, rfl, by simpa [hr, Except.map] using h⟩

/-- **C03 (compact).** If compact serialisation of a well-formed program succeeds, the program has an
    image `d`, the concatenated buffers are exactly `render d` — the structural printer that emits no
    whitespace at all, so there is none outside strings — they are one RFC 8259 `value` with syntax
    tree `cstOf d`, and that tree denotes `d`. -/
theorem c03_compact (ext : Ext) (hext : ExtOK ext) (p : SVal) (hp : p.wf = true) (bufs : List Bytes)
    (h : serCompact ext p = .ok bufs) :
    ∃ d, image ext p = .ok d ∧ bufs.flatten = render d ∧
      Derives bufs.flatten (cstOf d) ∧ den (cstOf d) = some d := by
  obtain ⟨r, hr, rfl⟩ := serCompact_ok h
  have hrel := ser_rel ext hext .compact p FState.init
  cases hi : image ext p with
  | error e => simp [hr, hi, Rel] at hrel
  | ok d =>
    simp only [hr, hi, Rel] at hrel
    have h2 := (hrel hp 0 trivial).2
    rw [lay_compact] at h2
    refine ⟨d, rfl, h2, ?_, SerLayout.den_cstOf d⟩
    rw [h2]
    exact SerLayout.derives_layout (fun _ => []) [] (fun _ => SerLayout.ws_nil) SerLayout.ws_nil d 0
      (SerImage.image_wf ext hext p d hp hi)

example : progA.wf = true ∧ serCompact ext0 progA = .ok
    [[0x7b], [0x22], [0x61], [0x22], [0x3a], [0x7b], [0x22], [0x56], [0x22], [0x3a], [0x7b], [0x7d], [0x7d], [0x2c],
     [0x22], [0x35], [0x22], [0x3a], [0x5b], [0x5d], [0x2c], [0x22], [0xc3, 0xa9], [0x22], [0x3a], [0x5b], [0x31], [0x2c],
     [0x32], [0x5d], [0x7d]] := ⟨rfl, rfl⟩

/-- **C03 (errors).** Serialisation fails exactly when the image is undefined — some map key, the first
    in serialisation order, is not a string-like scalar — and with that key's error class
    (`KeyMustBeAString`, or `FloatKeyMustBeFinite` for a NaN/±inf key); the same for every indent. No
    hypothesis on hints is needed. -/
theorem c03_error_iff (ext : Ext) (hext : ExtOK ext) (p : SVal) (e : SerErr) :
    (serCompact ext p = .error e ↔ image ext p = .error e) ∧
    (∀ indent, serPretty ext indent p = .error e ↔ image ext p = .error e) := by
  have key : ∀ f, ((ser ext f p FState.init).map (·.bufs) = .error e ↔ image ext p = .error e) := by
    intro f
    have hrel := ser_rel ext hext f p FState.init
    cases hr : ser ext f p FState.init with
    | error e' => cases hi : image ext p with
      | error e'' =>
        simp only [hr, hi, Rel] at hrel
        simp [Except.map, hrel]
      | ok d => simp [hr, hi, Rel] at hrel
    | ok r => cases hi : image ext p with
      | error e'' => simp [hr, hi, Rel] at hrel
      | ok d => simp [Except.map]
  exact ⟨key .compact, fun indent => key (.pretty indent)⟩

example : progBad.wf = true ∧ image ext0 progBad = .error .keyMustBeAString ∧
    serCompact ext0 progBad = .error .keyMustBeAString := ⟨rfl, rfl, rfl⟩
example : serPretty ext0 [0x09] (.map none [(.f64 0x7ff8000000000000, .unit), (.unit, .unit)])
    = .error .floatKeyMustBeFinite := rfl

/-- **C03 (pretty).** If pretty serialisation with *any* indent string succeeds, the concatenated buffers
    are exactly `layout indent d` — one element per line, depth × indent, `": "` after keys, `[]` / `{}`
    for empty containers: the `current_indent` / `has_value` / `State` bookkeeping refines the
    structural function. If moreover the indent consists of JSON whitespace, the output is one RFC 8259
    `value` with the same syntax tree `cstOf d` as the compact output, hence the same denotation `d`. -/
theorem c03_pretty_layout (ext : Ext) (hext : ExtOK ext) (indent : Bytes) (p : SVal) (hp : p.wf = true)
    (bufs : List Bytes) (h : serPretty ext indent p = .ok bufs) :
    ∃ d, image ext p = .ok d ∧ bufs.flatten = layout indent d ∧
      (Ws indent → Derives bufs.flatten (cstOf d) ∧ den (cstOf d) = some d) := by
  obtain ⟨r, hr, rfl⟩ := serPretty_ok h
  have hrel := ser_rel ext hext (.pretty indent) p FState.init
  cases hi : image ext p with
  | error e => simp [hr, hi, Rel] at hrel
  | ok d =>
    simp only [hr, hi, Rel] at hrel
    have h2 : r.bufs.flatten = layout indent d := (hrel hp 0 ⟨rfl, rfl⟩).2
    refine ⟨d, rfl, h2, fun hws => ⟨?_, SerLayout.den_cstOf d⟩⟩
    rw [h2]
    exact SerLayout.derives_layout (newline indent) [0x20] (SerLayout.ws_newline indent hws) (by decide) d 0
      (SerImage.image_wf ext hext p d hp hi)

/-- the empty struct variant inside a pretty nested map, a `None`-hinted empty seq, two-space indent:
```
{
  "a": {
    "V": {}
  },
  "5": [],
  "é": [
    1,
    2
  ]
}
``` -/
example : (serPretty ext0 [0x20, 0x20] progA).map List.flatten = .ok
    [0x7b, 0x0a, 0x20, 0x20, 0x22, 0x61, 0x22, 0x3a, 0x20, 0x7b, 0x0a, 0x20, 0x20, 0x20, 0x20, 0x22, 0x56, 0x22, 0x3a, 0x20,
     0x7b, 0x7d, 0x0a, 0x20, 0x20, 0x7d, 0x2c, 0x0a, 0x20, 0x20, 0x22, 0x35, 0x22, 0x3a, 0x20, 0x5b, 0x5d, 0x2c, 0x0a,
     0x20, 0x20, 0x22, 0xc3, 0xa9, 0x22, 0x3a, 0x20, 0x5b, 0x0a, 0x20, 0x20, 0x20, 0x20, 0x31, 0x2c, 0x0a, 0x20, 0x20,
     0x20, 0x20, 0x32, 0x0a, 0x20, 0x20, 0x5d, 0x0a, 0x7d] := rfl

/-- **C03 (no underflow).** For well-formed programs `current_indent -= 1` is never executed at 0
    (the hypothesis is needed: a non-empty seq announced as `Some(0)` does underflow). -/
theorem c03_no_underflow (ext : Ext) (hext : ExtOK ext) (indent : Bytes) (p : SVal) (hp : p.wf = true) :
    prettyUnderflows ext indent p = false := by
  have hrel := ser_rel ext hext (.pretty indent) p FState.init
  unfold prettyUnderflows
  cases hr : ser ext (.pretty indent) p FState.init with
  | error e => rfl
  | ok r => cases hi : image ext p with
    | error e => simp [hr, hi, Rel] at hrel
    | ok d =>
      simp only [hr, hi, Rel] at hrel
      exact (hrel hp 0 ⟨rfl, rfl⟩).1.2

example : prettyUnderflows ext0 [] (.seq (some 0) [.unit]) = true := rfl

/-- **C03 (hints).** Replacing every length hint by `None` (`exact = false`) or by `Some(actual
    length)` (`exact = true`) changes neither output — not even the split into buffers. -/
theorem c03_hints (ext : Ext) (exact : Bool) (p : SVal) (hp : p.wf = true) :
    serCompact ext (p.setHints exact) = serCompact ext p ∧
    ∀ indent, serPretty ext indent (p.setHints exact) = serPretty ext indent p := by
  refine ⟨?_, fun indent => ?_⟩
  · simp only [serCompact, SerHints.ser_setHints ext .compact exact p _ hp]
  · simp only [serPretty, SerHints.ser_setHints ext (.pretty indent) exact p _ hp]

example : progA.setHints true =
    .map (some 3) [(.str [0x61], .structVariant [0x56] []), (.int .u8 5, .seq (some 0) []), (.char 0xe9, .bytes [1, 2])] := rfl

/-- **C03 (values).** `impl Serialize for Value` never fails (keys are strings) in either formatter;
    `to_string(v)` is `render` and `to_string_pretty`-style output is `layout indent` of the value's
    image `imageOfValue ext v`, which both denote. (`valueLitsOK`: with `arbitrary_precision` the stored
    literals are numbers; it is `true` for every value of the default build.) -/
theorem c03_value (ext : Ext) (hext : ExtOK ext) (v : JV) (hv : valueLitsOK v = true) :
    (∃ bufs, serCompact ext (ofValue v) = .ok bufs ∧ bufs.flatten = render (imageOfValue ext v)) ∧
    (∀ indent, ∃ bufs, serPretty ext indent (ofValue v) = .ok bufs ∧
      bufs.flatten = layout indent (imageOfValue ext v)) ∧
    Derives (render (imageOfValue ext v)) (cstOf (imageOfValue ext v)) ∧
    den (cstOf (imageOfValue ext v)) = some (imageOfValue ext v) := by
  have hw := SerValue.ofValue_wf v hv
  have hi := SerValue.image_ofValue ext v
  have hc : ∃ bufs, serCompact ext (ofValue v) = .ok bufs ∧ bufs.flatten = render (imageOfValue ext v) := by
    cases hr : serCompact ext (ofValue v) with
    | error e => have := ((c03_error_iff ext hext (ofValue v) e).1).1 hr; rw [hi] at this; cases this
    | ok bufs =>
      obtain ⟨d, hd, hb, _⟩ := c03_compact ext hext (ofValue v) hw bufs hr
      rw [hi] at hd; cases hd
      exact ⟨bufs, rfl, hb⟩
  refine ⟨hc, fun indent => ?_, ?_, SerLayout.den_cstOf _⟩
  · cases hr : serPretty ext indent (ofValue v) with
    | error e => have := ((c03_error_iff ext hext (ofValue v) e).2 indent).1 hr; rw [hi] at this; cases this
    | ok bufs =>
      obtain ⟨d, hd, hb, _⟩ := c03_pretty_layout ext hext indent (ofValue v) hw bufs hr
      rw [hi] at hd; cases hd
      exact ⟨bufs, rfl, hb⟩
  · obtain ⟨bufs, hr, hb⟩ := hc
    obtain ⟨d, hd, hb', hder, _⟩ := c03_compact ext hext (ofValue v) hw bufs hr
    rw [hi] at hd; cases hd
    rw [← hb]; exact hder

/-- `{"k":[null,-7,"a\"b"]}` -/
example : valueLitsOK (.obj [([0x6b], .arr [.null, .num (.neg (-7)), .str [0x61, 0x22, 0x62]])]) = true ∧
    (serCompact ext0 (ofValue (.obj [([0x6b], .arr [.null, .num (.neg (-7)), .str [0x61, 0x22, 0x62]])]))).map List.flatten
      = .ok [0x7b, 0x22, 0x6b, 0x22, 0x3a, 0x5b, 0x6e, 0x75, 0x6c, 0x6c, 0x2c, 0x2d, 0x37, 0x2c, 0x22, 0x61, 0x5c, 0x22,
             0x62, 0x22, 0x5d, 0x7d] := ⟨rfl, rfl⟩

/-- **C03 (UTF-8), per string.** Every buffer written for a string (`serialize_str`, `char`, unit variant
    names, field and variant names, `collect_str`, string keys) is either pure ASCII or a contiguous
    fragment of the input string whose neighbours in it are ASCII bytes — no buffer boundary falls
    inside a multi-byte sequence. (`c03_utf8` lifts this to whole programs.) -/
theorem c03_utf8_fragments (s : Bytes) :
    ∀ b ∈ EscapeLocal.escapeStr s, SerEscape.Ascii b ∨ SerEscape.FragOf s b :=
  SerEscape.escapeStr_bufs s

/-- `é"é`: the fragments `é` are cut only at the escaped quote -/
example : EscapeLocal.escapeStr [0xc3, 0xa9, 0x22, 0xc3, 0xa9] = [[0x22], [0xc3, 0xa9], [0x5c, 0x22], [0xc3, 0xa9], [0x22]] := rfl

/-- **C03 / C13 (UTF-8).** For every program whose strings are UTF-8 — `SVal.utf8OK`: every `&str`
    payload (`serialize_str`, `collect_str`, variant and field names, string keys, the literal of
    `Number` under `arbitrary_precision`) is valid UTF-8 and every `char` is a scalar value, which is
    what Rust's types guarantee — and for both formatters (the pretty one with a valid UTF-8 indent
    string): **every buffer handed to the writer is valid UTF-8 on its own**, and so is the whole
    output. No hypothesis on hints. The other buffers are the formatter literals extracted from
    `src/ser.rs` (ASCII, by evaluation), the indent string, and `itoa` / `ryu` text (RFC 8259 numbers by
    `ExtOK`, hence ASCII). -/
theorem c03_utf8 (ext : Ext) (hext : ExtOK ext) (p : SVal) (hu : p.utf8OK = true) (bufs : List Bytes) :
    (serCompact ext p = .ok bufs →
      (∀ b ∈ bufs, Spec.Utf8.validUtf8 b = true) ∧ Spec.Utf8.validUtf8 bufs.flatten = true) ∧
    (∀ indent, Spec.Utf8.validUtf8 indent = true → serPretty ext indent p = .ok bufs →
      (∀ b ∈ bufs, Spec.Utf8.validUtf8 b = true) ∧ Spec.Utf8.validUtf8 bufs.flatten = true) := by
  constructor
  · intro h
    obtain ⟨r, hr, rfl⟩ := serCompact_ok h
    have := SerUtf8.ser_utf8 ext hext .compact trivial p _ r hu hr
    exact ⟨this, SerUtf8.allV_flatten this⟩
  · intro indent hi h
    obtain ⟨r, hr, rfl⟩ := serPretty_ok h
    have := SerUtf8.ser_utf8 ext hext (.pretty indent) hi p _ r hu hr
    exact ⟨this, SerUtf8.allV_flatten this⟩

/-- `progA` (`{"a":{"V":{}},"5":[],"é":[1,2]}`) is `utf8OK`; indented with U+00A0 (not JSON whitespace,
    but UTF-8) every buffer is valid -/
example : progA.utf8OK = true ∧
    ∃ bufs, serPretty ext0 [0xc2, 0xa0] progA = .ok bufs ∧ [0xc2, 0xa0] ∈ bufs ∧ [0xc3, 0xa9] ∈ bufs ∧
      (∀ b ∈ bufs, Spec.Utf8.validUtf8 b = true) ∧ Spec.Utf8.validUtf8 bufs.flatten = true := by
  refine ⟨rfl, _, rfl, by decide, by decide, ?_⟩
  exact (c03_utf8 ext0 ext0_ok progA rfl _).2 [0xc2, 0xa0] (by decide) rfl

/-- both hypotheses are needed: a `str` that is not UTF-8 is written as it is, and so is the indent -/
example : serCompact ext0 (.str [0xff]) = .ok [[0x22], [0xff], [0x22]] ∧
    serPretty ext0 [0xff] (.seq none [.unit]) = .ok [[0x5b], [0x0a], [0xff], [0x6e, 0x75, 0x6c, 0x6c], [0x0a], [0x5d]] ∧
    Spec.Utf8.validUtf8 [0xff] = false := ⟨rfl, rfl, by decide⟩

/-- a `char` that is a surrogate (impossible in Rust) would be written as the three bytes `ED A0 80` -/
example : (SVal.char 0xD800).utf8OK = false ∧ serCompact ext0 (.char 0xD800) = .ok [[0x22], [0xed, 0xa0, 0x80], [0x22]] ∧
    Spec.Utf8.validUtf8 [0xed, 0xa0, 0x80] = false := ⟨rfl, rfl, by decide⟩

/-! ## `Display` / `{:#}` of a `Value`: the `io::Write` adapter over a `fmt::Formatter` (`Model.Display`) -/
section display
open SJ.Model.Display SJ.Proofs.Display

/-- the serializer run inside `Display::fmt` (`to_writer` for `{}`, `to_writer_pretty` for `{:#}`) never
    fails on a `Value` -/
theorem value_bufs (ext : Ext) (hext : ExtOK ext) (v : JV) (alternate : Bool) :
    ∃ bufs, (if alternate then serPretty ext defaultIndent (ofValue v) else serCompact ext (ofValue v)) = .ok bufs := by
  have hi := SerValue.image_ofValue ext v
  cases alternate with
  | false =>
    cases hr : serCompact ext (ofValue v) with
    | error e => have := ((c03_error_iff ext hext (ofValue v) e).1).1 hr; rw [hi] at this; cases this
    | ok bufs => exact ⟨bufs, by simp⟩
  | true =>
    cases hr : serPretty ext defaultIndent (ofValue v) with
    | error e => have := ((c03_error_iff ext hext (ofValue v) e).2 defaultIndent).1 hr; rw [hi] at this; cases this
    | ok bufs => exact ⟨bufs, by simp⟩

/-- **C03 (Display, the adapter).** `<Value as Display>::fmt` on a formatter whose `alternate` flag is
    `alternate` and which forwards to *any* sink: the serializer (`to_writer` / `to_writer_pretty`) succeeds
    with some buffer list `bufs`, and running it through `WriterFormatter` (`write_all` → `write` →
    `from_utf8_unchecked` → `write_str`, errors mapped to `io::Error` and back to `fmt::Error`) is
    *feeding the non-empty buffers to the sink as `&str` fragments until it rejects one*
    (`Sink.feed`): the same sink state, and `Err(fmt::Error)` exactly when a fragment was rejected. -/
theorem c03_display_adapter (ext : Ext) (hext : ExtOK ext) (v : JV) (alternate : Bool) (sink : Sink) :
    ∃ bufs, (if alternate then serPretty ext defaultIndent (ofValue v) else serCompact ext (ofValue v)) = .ok bufs ∧
      (fmtValue ext v alternate sink).1.inner = (sink.feed (frags bufs)).1 ∧
      (fmtValue ext v alternate sink).2 = if (sink.feed (frags bufs)).2 then .error .error else .ok () := by
  obtain ⟨bufs, hb⟩ := value_bufs ext hext v alternate
  refine ⟨bufs, hb, ?_⟩
  obtain ⟨hw1, hw2⟩ := writeBufs_feed bufs ({ inner := sink } : Adapter)
  obtain ⟨hf1, hf2⟩ := fmtValue_ok ext v alternate sink bufs hb
  refine ⟨by rw [hf1, hw1], ?_⟩
  rw [hf2, hw2]
  cases (sink.feed (frags bufs)).2 <;> rfl

/-- **C03 (Display).** For every `Value`: `format!("{}", v)` is `Ok` and its bytes are exactly those of
    `to_string(v)`; `format!("{:#}", v)` is `Ok` with exactly the bytes of `to_string_pretty(v)` (the
    two-space `PrettyFormatter`) — for a value whose `arbitrary_precision` literals are numbers these are
    `render` / `layout "  "` of the value's image (`c03_value`); and on *any* sink that does not fail
    `Display::fmt` returns `Ok(())`, having handed over the whole text. -/
theorem c03_display (ext : Ext) (hext : ExtOK ext) (v : JV) :
    (∃ s, Display.toString ext v = .ok s ∧ format ext v false = some s ∧
      (valueLitsOK v = true → s = render (imageOfValue ext v))) ∧
    (∃ s, toStringPretty ext v = .ok s ∧ format ext v true = some s ∧
      (valueLitsOK v = true → s = layout [0x20, 0x20] (imageOfValue ext v))) ∧
    (∀ alternate sink, (∀ acc f, sink.fails acc f = false) →
      (fmtValue ext v alternate sink).2 = .ok () ∧
      ∃ bufs, (if alternate then serPretty ext defaultIndent (ofValue v) else serCompact ext (ofValue v)) = .ok bufs ∧
        (fmtValue ext v alternate sink).1.inner.accepted.flatten = sink.accepted.flatten ++ bufs.flatten) := by
  have key : ∀ alternate sink, (∀ acc f, sink.fails acc f = false) →
      (fmtValue ext v alternate sink).2 = .ok () ∧
      ∃ bufs, (if alternate then serPretty ext defaultIndent (ofValue v) else serCompact ext (ofValue v)) = .ok bufs ∧
        (fmtValue ext v alternate sink).1.inner.accepted.flatten = sink.accepted.flatten ++ bufs.flatten := by
    intro alternate sink hs
    obtain ⟨bufs, hb, h1, h2⟩ := c03_display_adapter ext hext v alternate sink
    obtain ⟨hf, ha⟩ := feed_never (frags bufs) sink hs
    refine ⟨by simpa [hf] using h2, bufs, hb, ?_⟩
    rw [h1, ha, List.flatten_append, frags_flatten]
  have fmt : ∀ alternate bufs,
      (if alternate then serPretty ext defaultIndent (ofValue v) else serCompact ext (ofValue v)) = .ok bufs →
      format ext v alternate = some bufs.flatten := by
    intro alternate bufs hb
    obtain ⟨h2, bufs', hb', h1⟩ := key alternate Sink.unbounded (fun _ _ => rfl)
    rw [hb] at hb'; cases hb'
    unfold format
    cases hr : fmtValue ext v alternate Sink.unbounded with
    | mk wr res =>
      rw [hr] at h1 h2
      simp only at h1 h2
      subst h2
      simpa [Sink.unbounded] using h1
  refine ⟨?_, ?_, key⟩
  · obtain ⟨bufs, hb⟩ := value_bufs ext hext v false
    simp only [Bool.false_eq_true, if_false] at hb
    refine ⟨bufs.flatten, by simp [Display.toString, hb, Except.map], fmt false bufs (by simpa using hb), fun hv => ?_⟩
    obtain ⟨⟨bufs', hb', hr⟩, _⟩ := c03_value ext hext v hv
    rw [hb] at hb'; cases hb'; exact hr
  · obtain ⟨bufs, hb⟩ := value_bufs ext hext v true
    simp only [if_true] at hb
    refine ⟨bufs.flatten, by simp [toStringPretty, hb, Except.map], fmt true bufs (by simpa using hb), fun hv => ?_⟩
    obtain ⟨_, hp, _⟩ := c03_value ext hext v hv
    obtain ⟨bufs', hb', hr⟩ := hp defaultIndent
    rw [hb] at hb'; cases hb'; exact hr

/-- `[[]]` through the adapter into a `String`, `{:#}`: `[`, newline, two spaces, `[]`, newline, `]` -/
example : format ext0 (.arr [.arr []]) true = some [0x5b, 0x0a, 0x20, 0x20, 0x5b, 0x5d, 0x0a, 0x5d] ∧
    format ext0 (.arr [.arr []]) false = some [0x5b, 0x5b, 0x5d, 0x5d] ∧
    toStringPretty ext0 (.arr [.arr []]) = .ok [0x5b, 0x0a, 0x20, 0x20, 0x5b, 0x5d, 0x0a, 0x5d] := ⟨rfl, rfl, rfl⟩

/-- **C03 (Display, failing sink).** Whatever the sink's failure policy: the fragments it has accepted
    when `Display::fmt` returns are the first `k` of the fault-free fragment list (so their concatenation
    is a prefix of the `to_string` / `to_string_pretty` text `bufs.flatten`, cut at a buffer boundary);
    the result is `Ok(())` iff nothing was rejected, and then the sink holds the whole text; otherwise it
    is `Err(fmt::Error)` (never a panic, never `Ok` after a failure) and fragment number `k` is the one
    the sink rejected — nothing is handed over after the first failure. For the byte-budget sink
    (`Sink.budget m`: the `fmt::Write` analogue of `Model.IoFault.writeFault`) the result is
    `Err(fmt::Error)` iff the text is longer than `m`, and never more than `m` bytes are held. -/
theorem c03_display_fault (ext : Ext) (hext : ExtOK ext) (v : JV) (alternate : Bool) (sink : Sink) :
    ∃ bufs, (if alternate then serPretty ext defaultIndent (ofValue v) else serCompact ext (ofValue v)) = .ok bufs ∧
      ∃ k, (fmtValue ext v alternate sink).1.inner.accepted = sink.accepted ++ (frags bufs).take k ∧
        ((frags bufs).take k).flatten <+: bufs.flatten ∧
        ((fmtValue ext v alternate sink).2 = .ok () → ((frags bufs).take k).flatten = bufs.flatten) ∧
        ((fmtValue ext v alternate sink).2 ≠ .ok () →
          (fmtValue ext v alternate sink).2 = .error .error ∧
          ∃ rej, (frags bufs)[k]? = some rej ∧ sink.fails (sink.accepted ++ (frags bufs).take k) rej = true) ∧
        (∀ m, sink = Sink.budget m →
          ((fmtValue ext v alternate sink).2 = .error .error ↔ m < bufs.flatten.length) ∧
          (fmtValue ext v alternate sink).1.inner.accepted.flatten.length ≤ m) := by
  obtain ⟨bufs, hb, h1, h2⟩ := c03_display_adapter ext hext v alternate sink
  obtain ⟨k, hk1, _, hk3, hk4⟩ := feed_take (frags bufs) sink
  refine ⟨bufs, hb, k, by rw [h1, hk1], ?_, ?_, ?_, ?_⟩
  · rw [← frags_flatten bufs]
    conv => rhs; rw [← List.take_append_drop k (frags bufs)]
    rw [List.flatten_append]
    exact List.prefix_append _ _
  · intro hok
    cases hrej : (sink.feed (frags bufs)).2 with
    | true => rw [h2, hrej] at hok; cases hok
    | false => rw [List.take_of_length_le (hk3 hrej), frags_flatten]
  · intro hne
    cases hrej : (sink.feed (frags bufs)).2 with
    | false => rw [h2, hrej] at hne; exact absurd rfl hne
    | true => exact ⟨by rw [h2, hrej]; rfl, hk4 hrej⟩
  · intro m hm
    subst hm
    have hrej := feed_budget_rej m (frags bufs) (Sink.budget m) rfl (Nat.zero_le m)
    have hle := feed_budget_le m (frags bufs) (Sink.budget m) rfl (Nat.zero_le m)
    rw [frags_flatten] at hrej
    refine ⟨?_, by rw [h1]; exact hle⟩
    rw [h2, ← (by simpa [Sink.budget] using hrej :
      ((Sink.budget m).feed (frags bufs)).2 = true ↔ m < bufs.flatten.length)]
    cases ((Sink.budget m).feed (frags bufs)).2 <;> simp

/-- `{"k":[null,-7,"a\"b"]}` into a sink with room for 3 bytes: `{`, `"`, `k` are accepted, the closing
    quote of the key is rejected, the result is `Err(fmt::Error)`; with room for the 22 bytes, `Ok(())` -/
example : (fmtValue ext0 (.obj [([0x6b], .arr [.null, .num (.neg (-7)), .str [0x61, 0x22, 0x62]])]) false (Sink.budget 3)).2
      = .error .error ∧
    (fmtValue ext0 (.obj [([0x6b], .arr [.null, .num (.neg (-7)), .str [0x61, 0x22, 0x62]])]) false (Sink.budget 3)).1.inner.accepted
      = [[0x7b], [0x22], [0x6b]] ∧
    (fmtValue ext0 (.obj [([0x6b], .arr [.null, .num (.neg (-7)), .str [0x61, 0x22, 0x62]])]) false (Sink.budget 22)).2
      = .ok () := ⟨rfl, rfl, rfl⟩

/-- **C03 (Display, `from_utf8_unchecked` is sound).** For every `Value` satisfying the representation
    invariant (`Spec.WF.shapeOK c v`, in any configuration `c`: strings and keys are UTF-8 — they are Rust
    `String`s — and `arbitrary_precision` literals are numbers; it is `WFValue` of C04 without the depth
    bound), both `{}` and `{:#}`, and any sink: every buffer passed to `str::from_utf8_unchecked` in
    `WriterFormatter::write` is valid UTF-8 on its own — the flag `ub` of the model is never set — and so
    is every fragment the sink is offered. (From `c03_utf8`; the `// Safety:` comment of the source.) -/
theorem c03_display_utf8_safe (ext : Ext) (hext : ExtOK ext) (c : Spec.Canon.Cfg) (v : JV)
    (hv : Spec.WF.shapeOK c v = true) (alternate : Bool) (sink : Sink) :
    (fmtValue ext v alternate sink).1.ub = false ∧
    ∃ bufs, (if alternate then serPretty ext defaultIndent (ofValue v) else serCompact ext (ofValue v)) = .ok bufs ∧
      (∀ b ∈ bufs, Spec.Utf8.validUtf8 b = true) ∧ (∀ f ∈ frags bufs, Spec.Utf8.validUtf8 f = true) ∧
      ∀ k, Spec.Utf8.validUtf8 ((frags bufs).take k).flatten = true := by
  obtain ⟨bufs, hb⟩ := value_bufs ext hext v alternate
  have hu := ofValue_utf8OK c v hv
  have hall : ∀ b ∈ bufs, Spec.Utf8.validUtf8 b = true := by
    cases alternate with
    | false => exact ((c03_utf8 ext hext (ofValue v) hu bufs).1 (by simpa using hb)).1
    | true => exact ((c03_utf8 ext hext (ofValue v) hu bufs).2 defaultIndent (by decide) (by simpa using hb)).1
  have hfr : ∀ f ∈ frags bufs, Spec.Utf8.validUtf8 f = true := fun f hf => hall f (mem_frags hf)
  refine ⟨?_, bufs, hb, hall, hfr, fun k => SerUtf8.allV_flatten fun b hb' => hfr b (List.mem_of_mem_take hb')⟩
  rw [(fmtValue_ok ext v alternate sink bufs hb).1]
  exact writeBufs_ub bufs ({ inner := sink } : Adapter) hall

/-- the hypothesis is needed: a `Value::String` holding the byte `FF` (impossible in Rust) would be passed to
    `from_utf8_unchecked` as it is; `"é"` is not -/
example : (fmtValue ext0 (.str [0xff]) false Sink.unbounded).1.ub = true ∧
    Spec.WF.shapeOK {} (.str [0xff]) = false ∧
    Spec.WF.shapeOK {} (.str [0xc3, 0xa9]) = true ∧
    (fmtValue ext0 (.str [0xc3, 0xa9]) false Sink.unbounded).1.ub = false ∧
    (fmtValue ext0 (.str [0xc3, 0xa9]) false Sink.unbounded).1.inner.accepted = [[0x22], [0xc3, 0xa9], [0x22]] :=
  ⟨by decide, by decide, by decide, by decide, by decide⟩

/-- **C03 (Display for Number).** `format!("{}", n)` of a `Number` — in the default representation
    (`PosInt` / `NegInt` through `itoa`, a finite `Float` through `ryu`) and in the `arbitrary_precision`
    one (the stored text) — is one `write_str` of exactly the text both serializers write for
    `Value::Number(n)`, i.e. of `to_string(&n)`. (`Number` never holds a non-finite float:
    `Number::from_f64`.) -/
theorem c03_display_number (ext : Ext) (hext : ExtOK ext) (n : Num) (hfin : ∀ b, n = .float b → finite64 b = true) :
    fmtNumber ext n Sink.unbounded = .ok { Sink.unbounded with accepted := [numberText ext n] } ∧
    serCompact ext (ofValue (.num n)) = .ok [numberText ext n] ∧
    (∀ indent, serPretty ext indent (ofValue (.num n)) = .ok [numberText ext n]) ∧
    Display.toString ext (.num n) = .ok (numberText ext n) ∧
    format ext (.num n) false = some (numberText ext n) := by
  have hser : serCompact ext (ofValue (.num n)) = .ok [numberText ext n] ∧
      ∀ indent, serPretty ext indent (ofValue (.num n)) = .ok [numberText ext n] := by
    cases n with
    | pos k => exact ⟨rfl, fun _ => rfl⟩
    | neg k => exact ⟨rfl, fun _ => rfl⟩
    | float b =>
      have hb := hfin b rfl
      simp [ofValue, serCompact, serPretty, ser, hb, numberText, write, Except.map]
    | lit s => exact ⟨rfl, fun _ => rfl⟩
  have hts : Display.toString ext (.num n) = .ok (numberText ext n) := by
    simp [Display.toString, hser.1, Except.map]
  refine ⟨by simp [fmtNumber, Sink.writeStr, Sink.unbounded], hser.1, hser.2, hts, ?_⟩
  obtain ⟨⟨s, h1, h2, _⟩, _⟩ := c03_display ext hext (.num n)
  rw [hts] at h1; cases h1; exact h2

/-- `-7`, `1.5` (the stand-in `ryu`), and the literal `1e999` of an `arbitrary_precision` build -/
example : numberText ext0 (.neg (-7)) = [0x2d, 0x37] ∧ numberText ext0 (.float 0x3ff8000000000000) = [0x31, 0x2e, 0x35] ∧
    format ext0 (.num (.lit [0x31, 0x65, 0x39, 0x39, 0x39])) false = some [0x31, 0x65, 0x39, 0x39, 0x39] ∧
    format ext0 (.num (.neg (-7))) true = some [0x2d, 0x37] := ⟨rfl, rfl, rfl, rfl⟩

end display

/-- **C03 (the checker of the implementation's bytes is sound).** Whatever the independent recogniser
    used by the correspondence run accepts is an RFC 8259 JSON text with the returned syntax tree; in its
    no-whitespace mode it is a bare `value` (so "no whitespace outside strings" holds of the accepted
    bytes: the derivation starts and ends with the value and `recognise false` never skips a byte). -/
theorem c03_recognise_sound (ws : Bool) (bs : Bytes) (t : CST) (h : Spec.Recognise.recognise ws bs = some t) :
    JsonText bs t ∧ (ws = false → Derives bs t) :=
  ⟨Recognise.recognise_sound ws bs t h, fun hw => by subst hw; exact Recognise.recognise_compact_sound bs t h⟩

/-- `[ 1 , "a" ]` with whitespace is accepted only in whitespace mode -/
example : Spec.Recognise.recognise true [0x5b, 0x20, 0x31, 0x20, 0x2c, 0x20, 0x22, 0x61, 0x22, 0x20, 0x5d]
      = some (.arr [.num ⟨false, [0x31], [], []⟩, .str [.raw 0x61]]) ∧
    Spec.Recognise.recognise false [0x5b, 0x20, 0x31, 0x20, 0x2c, 0x20, 0x22, 0x61, 0x22, 0x20, 0x5d] = none :=
  ⟨rfl, rfl⟩

end SJ.Props.C03
