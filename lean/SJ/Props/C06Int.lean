import SJ.Proofs.NumInt
/-!
# C06 / C02 (integers) — which literals are held as integers, and the `overflow!` guard

"Every integer literal without fraction or exponent in [i64::MIN, u64::MAX] is held exactly as an
integer, never as a float, and vice versa … the literal `-0` is the float negative zero."

`Model.Num.convertDefault` transcribes `parse_integer` / `parse_number` / `parse_long_integer`
(`src/de.rs`) with the `overflow!` macro (`overflowMacro`) as written; `natOfDigits` is the value of
a digit string; `IsDigits ds` says every byte of `ds` is in `0x30..0x39`; a `Parts` is the scanned
literal (sign, integer digits, optional fraction, optional exponent).
`FloatOrRange r` := `r` is `.f64 _` or `.outOfRange` (in particular not an integer).
-/
namespace SJ.Props.C06Int
open SJ SJ.Spec.Ieee SJ.Model.Num SJ.Proofs.NumInt

/-- **The `overflow!` guard is the mathematical comparison**: for a digit `b`,
    `a >= c/10 && (a > c/10 || b > c%10)` holds iff `a*10 + b > c` — for every accumulator `a` and
    every bound `c` (so in particular at the 19/20-digit boundary of `u64::MAX`, and for `i32::MAX`
    in the exponent loops). -/
theorem c06_overflow_guard_spec (a b c : Nat) (hb : b < 10) :
    overflowMacro a b c = decide (a * 10 + b > c) :=
  overflowMacro_spec a b c hb

example : overflowMacro 1844674407370955161 5 u64Max = false ∧
    overflowMacro 1844674407370955161 6 u64Max = true ∧
    overflowMacro 1844674407370955162 0 u64Max = true ∧
    overflowMacro 214748364 7 i32Max = false ∧ overflowMacro 214748364 8 i32Max = true := by decide

/-- **The digit loop** (`goInt`, from accumulator 0, over a digit string): it reports no overflow
    iff the value fits in `u64`, and then returns the exact value; otherwise the string splits as
    `pre ++ c :: post` where `pre` is the longest prefix whose value fits (adding `c` exceeds
    `u64::MAX`), and the loop returns `pre`'s value and the number `|c :: post|` of dropped digits. -/
theorem c06_digit_loop (ds : Bytes) (hd : IsDigits ds) :
    ((convertDefault.goInt 0 ds).2 = none ↔ natOfDigits ds ≤ u64Max) ∧
    (natOfDigits ds ≤ u64Max → convertDefault.goInt 0 ds = (natOfDigits ds, none)) ∧
    (natOfDigits ds > u64Max → ∃ pre c post, ds = pre ++ c :: post ∧ natOfDigits pre ≤ u64Max ∧
      natOfDigits (pre ++ [c]) > u64Max ∧
      convertDefault.goInt 0 ds = (natOfDigits pre, some (post.length + 1))) :=
  ⟨goInt_none_iff ds hd, goInt_eq_of_fits ds hd, goInt_eq_of_overflows ds hd⟩

/-- **`parse_integer`** on a literal without fraction and exponent: the result is
    `u64 n` iff there is no minus sign, `n` is the literal's value and `n < 2^64`;
    `i64 k` iff there is a minus sign, `k = -value` and `0 < value ≤ 2^63`;
    and in every other case a float or the "number out of range" error — never an integer. -/
theorem c06_parse_integer (p : Parts) (hf : p.frac = none) (he : p.exp = none)
    (hd : IsDigits p.int) :
    (∀ n, convertDefault p = .u64 n ↔ p.neg = false ∧ n = natOfDigits p.int ∧ n < 2 ^ 64) ∧
    (∀ k, convertDefault p = .i64 k ↔
      p.neg = true ∧ k = -(natOfDigits p.int : Int) ∧ 0 < natOfDigits p.int ∧
        natOfDigits p.int ≤ 2 ^ 63) ∧
    ((∃ n, convertDefault p = .u64 n) ∨ (∃ k, convertDefault p = .i64 k) ∨
      (∃ b, convertDefault p = .f64 b) ∨ convertDefault p = .outOfRange) :=
  ⟨convertDefault_eq_u64_iff p hf he hd, convertDefault_eq_i64_iff p hf he hd,
   convertDefault_int_total p hf he hd⟩

/-- the same, against the classification function `intClass` shared by all builds -/
theorem c06_parse_integer_intClass (p : Parts) (hf : p.frac = none) (he : p.exp = none)
    (hd : IsDigits p.int) :
    (∀ r, intClass p = some r → convertDefault p = r ∧ convertRoundtrip p = r) ∧
    (intClass p = none → FloatOrRange (convertDefault p) ∧ FloatOrRange (convertRoundtrip p)) :=
  ⟨fun r h => ⟨convertDefault_of_intClass_some p hd r h, convertRoundtrip_of_intClass_some p r h⟩,
   fun h => ⟨convertDefault_of_intClass_none p hf he hd h, convertRoundtrip_of_intClass_none p h⟩⟩

/-- **`-0`** (minus sign, value zero) is the float negative zero, bit pattern 0x8000000000000000 -/
theorem c06_minus_zero (p : Parts) (hf : p.frac = none) (he : p.exp = none) (hd : IsDigits p.int)
    (hneg : p.neg = true) (h0 : natOfDigits p.int = 0) :
    convertDefault p = .f64 0x8000000000000000 :=
  convertDefault_neg_zero p hf he hd hneg h0

/-- **Outside the integer range**: a minus sign with value > 2^63 gives the float `-(value as f64)`;
    a value > `u64::MAX` gives `f64_from_parts(sign, value of the longest fitting prefix,
    number of dropped digits)`, i.e. a float or "number out of range". -/
theorem c06_out_of_integer_range (p : Parts) (hf : p.frac = none) (he : p.exp = none)
    (hd : IsDigits p.int) :
    (p.neg = true → 2 ^ 63 < natOfDigits p.int → natOfDigits p.int ≤ u64Max →
      convertDefault p = .f64 (F64.neg (F64.ofU64 (natOfDigits p.int)))) ∧
    (natOfDigits p.int > u64Max →
      FloatOrRange (convertDefault p) ∧
      ∃ pre c post, p.int = pre ++ c :: post ∧ natOfDigits pre ≤ u64Max ∧
        natOfDigits (pre ++ [c]) > u64Max ∧
        convertDefault p =
          ofF (f64FromParts (!p.neg) (natOfDigits pre) ((post.length + 1 : Nat) : Int))) := by
  constructor
  · intro hneg h1 h2
    rw [convertDefault_fits p hf he hd h2]
    simp [hneg, h1]
  · intro h
    exact ⟨convertDefault_overflows_float p hf he hd h, convertDefault_overflows p hf he hd h⟩

/-! ## non-vacuity (byte lists written out) -/

/-- `18446744073709551615` -/
def dU64Max : Bytes := [0x31,0x38,0x34,0x34,0x36,0x37,0x34,0x34,0x30,0x37,0x33,0x37,0x30,0x39,0x35,0x35,0x31,0x36,0x31,0x35]
/-- `18446744073709551616` -/
def dU64MaxP1 : Bytes := [0x31,0x38,0x34,0x34,0x36,0x37,0x34,0x34,0x30,0x37,0x33,0x37,0x30,0x39,0x35,0x35,0x31,0x36,0x31,0x36]
/-- `9223372036854775808` -/
def dI64Min : Bytes := [0x39,0x32,0x32,0x33,0x33,0x37,0x32,0x30,0x33,0x36,0x38,0x35,0x34,0x37,0x37,0x35,0x38,0x30,0x38]
/-- `9223372036854775809` -/
def dI64MinP1 : Bytes := [0x39,0x32,0x32,0x33,0x33,0x37,0x32,0x30,0x33,0x36,0x38,0x35,0x34,0x37,0x37,0x35,0x38,0x30,0x39]

def lit (neg : Bool) (ds : Bytes) : Parts :=
  { neg := neg, int := ds, frac := none, exp := none, raw := (if neg then [0x2d] else []) ++ ds }

example : natOfDigits dU64Max = 18446744073709551615 ∧ natOfDigits dU64MaxP1 = 18446744073709551616 ∧
    natOfDigits dI64Min = 9223372036854775808 ∧ natOfDigits dI64MinP1 = 9223372036854775809 := by
  decide

/-- `18446744073709551615` → u64 -/
example : convertDefault (lit false dU64Max) = .u64 18446744073709551615 :=
  ((c06_parse_integer (lit false dU64Max) rfl rfl (by decide)).1 _).2 ⟨rfl, by decide, by decide⟩

/-- `18446744073709551616` → not an integer (float or out of range), in both builds -/
example : FloatOrRange (convertDefault (lit false dU64MaxP1)) ∧
    FloatOrRange (convertRoundtrip (lit false dU64MaxP1)) :=
  (c06_parse_integer_intClass (lit false dU64MaxP1) rfl rfl (by decide)).2 (by decide)

/-- `-9223372036854775808` → i64 -/
example : convertDefault (lit true dI64Min) = .i64 (-9223372036854775808) :=
  ((c06_parse_integer (lit true dI64Min) rfl rfl (by decide)).2.1 _).2
    ⟨rfl, by decide, by decide, by decide⟩

/-- `-9223372036854775809` → not an integer: the float `-(9223372036854775809 as f64)` -/
example : convertDefault (lit true dI64MinP1) = .f64 (F64.neg (F64.ofU64 9223372036854775809)) :=
  (c06_out_of_integer_range (lit true dI64MinP1) rfl rfl (by decide)).1 rfl (by decide) (by decide)

example : FloatOrRange (convertRoundtrip (lit true dI64MinP1)) :=
  ((c06_parse_integer_intClass (lit true dI64MinP1) rfl rfl (by decide)).2 (by decide)).2

/-- `-0` → f64 0x8000000000000000 -/
example : convertDefault (lit true [0x30]) = .f64 0x8000000000000000 :=
  c06_minus_zero (lit true [0x30]) rfl rfl (by decide) rfl (by decide)

/-- `0` → u64 0, `-1` → i64 -1 -/
example : convertDefault (lit false [0x30]) = .u64 0 ∧ convertDefault (lit true [0x31]) = .i64 (-1) := by
  decide

/-- the digit loop on `18446744073709551616`: prefix `1844674407370955161`, 1 digit dropped -/
example : convertDefault.goInt 0 dU64MaxP1 = (1844674407370955161, some 1) := by decide

end SJ.Props.C06Int
