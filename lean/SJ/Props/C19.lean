import SJ.Model.Raw
import SJ.Proofs.Machine
import SJ.Proofs.RawSer
/-!
# C19 — RawValue captures exactly the source text of one value

Theorems about top-level capture (`Model.Raw.rawTop`). The language of the scanner (`ignore_value`
= the machine's `ignored` target) versus the grammar is `c01_complete_ignored` / `c19_skip_sound`.
-/
namespace SJ.Props.C19
open SJ SJ.Gen SJ.Model.Machine SJ.Model.Stream SJ.Model.Raw SJ.Proofs.Machine

theorem step_of_next (env : Env) (s : St) (b : UInt8) (s' : St) (h : step1 env s b = .next s') :
    step env s b = .ok s' := by unfold step; rw [h]

theorem step_of_again_next (env : Env) (s : St) (b : UInt8) (s' s'' : St)
    (h : step1 env s b = .again s') (h2 : step1 env s' b = .next s'') : step env s b = .ok s'' := by
  unfold step; rw [h]; simp only; rw [h2]

theorem finish_done (env : Env) (s : St) (v : JV) (h : s.mode = .done v) : finish env s = .ok v := by
  unfold finish; rw [h]; simp [finishMode, h]

/-- when a number ends on a peeked byte, ending the input there instead gives the same state -/
theorem again_finish (env : Env) (s : St) (b : UInt8) (s' : St) (v : JV)
    (h : step1 env s b = .again s') (hm : s'.mode = .done v) : finish env s = .ok v := by
  unfold step1 at h
  repeat' split at h
  all_goals first
    | (simp at h; done)
    | (unfold closeArr at h; split at h <;> simp at h)
    | (unfold closeObj at h; split at h <;> simp at h)
    | (unfold startValue at h; repeat' split at h
       all_goals (simp at h))
    | (unfold stepStr at h; simp only at h
       repeat' split at h
       all_goals first
         | (simp at h; done)
         | (unfold endStr at h; simp only at h; repeat' split at h
            all_goals (simp at h)))
    | (split at h <;> simp at h)
    | (rename_i n hmode
       unfold stepNum at h; simp only at h
       repeat' split at h
       all_goals first
         | (simp at h; done)
         | (simp at h; subst h
            unfold finish; rw [hmode]; simp only
            simp [*, finishMode]))

/-- `runPrefix` is `feed` over the consumed bytes followed by `finish` -/
theorem runPrefix_feed (env : Env) (s : St) (i : Nat) (bs : Bytes) (v : JV) (e : Nat)
    (h : runPrefix env s i bs = .ok v e) :
    ∃ s', feed env s i (bs.take (e - i)) = .ok (s', e) ∧ finish env s' = .ok v := by
  induction bs generalizing s i with
  | nil =>
    unfold runPrefix at h
    split at h <;> simp at h
    rename_i v' hf
    obtain ⟨rfl, rfl⟩ := h
    exact ⟨s, by simp [feed], hf⟩
  | cons b bs ih =>
    unfold runPrefix at h
    split at h
    · simp at h
    · rename_i s' h1
      split at h
      · rename_i v' hm
        simp at h; obtain ⟨rfl, rfl⟩ := h
        refine ⟨s', ?_, finish_done env s' v' hm⟩
        have : i + 1 - i = 1 := by omega
        rw [this]; simp [feed, step_of_next env s b s' h1]
      · have hge := runPrefix_ge' env s' (i + 1) bs v e h
        obtain ⟨s2, hf, hfin⟩ := ih s' (i + 1) h
        refine ⟨s2, ?_, hfin⟩
        have : e - i = (e - (i + 1)) + 1 := by omega
        rw [this, List.take_succ_cons, feed, step_of_next env s b s' h1]
        exact hf
    · rename_i s' h1
      split at h
      · rename_i v' hm
        simp at h; obtain ⟨rfl, rfl⟩ := h
        refine ⟨s, by simp [feed], again_finish env s b s' v' h1 hm⟩
      · split at h
        · simp at h
        · rename_i s'' h2
          split at h
          · rename_i v' hm
            simp at h; obtain ⟨rfl, rfl⟩ := h
            refine ⟨s'', ?_, finish_done env s'' v' hm⟩
            have : i + 1 - i = 1 := by omega
            rw [this]; simp [feed, step_of_again_next env s b s' s'' h1 h2]
          · have hge := runPrefix_ge' env s'' (i + 1) bs v e h
            obtain ⟨s3, hf, hfin⟩ := ih s'' (i + 1) h
            refine ⟨s3, ?_, hfin⟩
            have : e - i = (e - (i + 1)) + 1 := by omega
            rw [this, List.take_succ_cons, feed, step_of_again_next env s b s' s'' h1 h2]
            exact hf
        · simp at h
where
  runPrefix_ge' (env : Env) (s : St) (i : Nat) (bs : Bytes) (v : JV) (e : Nat)
      (h : runPrefix env s i bs = .ok v e) : i ≤ e := by
    induction bs generalizing s i with
    | nil => unfold runPrefix at h; split at h <;> simp at h; omega
    | cons b bs ih =>
      unfold runPrefix at h
      repeat' split at h
      all_goals first
        | (simp at h; done)
        | (simp at h; omega)
        | (have := ih _ _ h; omega)

/-- feeding does not depend on the absolute start index (only the reported indices do) -/
theorem feed_shift (env : Env) (s : St) (i j : Nat) (xs : Bytes) (s' : St) (k : Nat)
    (h : feed env s i xs = .ok (s', k)) : feed env s j xs = .ok (s', j + xs.length) := by
  induction xs generalizing s i j with
  | nil => simp [feed] at h ⊢; exact h.1
  | cons b bs ih =>
    simp only [feed] at h ⊢
    cases hs : step env s b with
    | ok s1 =>
      rw [hs] at h
      have := ih s1 (i + 1) (j + 1) h
      simp only [List.length_cons]
      rw [this]; congr 2; omega
    | error e => obtain ⟨c, a⟩ := e; rw [hs] at h; cases h

/-- **C19 (the captured text is one value).** Whatever `rawTop` captures, taken on its own, is
    accepted by the scanner as a complete value: a RawValue always holds valid JSON (in the
    scanner's language — `c19_skip_sound` relates that language to RFC 8259). -/
theorem c19_captured_reparses (cfg : Cfg) (src : Src) (bs : Bytes) (p e : Nat)
    (h : rawTop cfg src bs = .ok p e) :
    (∃ v, parseTop { cfg := cfg, src := src, tgt := .ignored } (((skipWs bs 0).1).take (e - p)) = .ok v)
      ∧ p = (skipWs bs 0).2 := by
  unfold rawTop at h
  simp only at h
  split at h
  · simp at h
  · rename_i v e' hr
    split at h
    · simp at h
    · split at h
      · simp at h
        obtain ⟨rfl, rfl⟩ := h
        obtain ⟨s', hf, hfin⟩ := runPrefix_feed _ _ _ _ _ _ hr
        refine ⟨⟨v, ?_⟩, rfl⟩
        unfold parseTop
        rw [run_eq_feed_finish]
        have := feed_shift _ _ _ 0 _ _ _ hf
        rw [this]
        simp only [hfin]
      · simp at h

/-- the bytes before the captured span are whitespace -/
theorem skipWs_prefix (bs : Bytes) (i : Nat) :
    ∃ w, bs = w ++ (skipWs bs i).1 ∧ w.all isWs = true ∧ (skipWs bs i).2 = i + w.length := by
  induction bs generalizing i with
  | nil => exact ⟨[], by simp [skipWs]⟩
  | cons b r ih =>
    unfold skipWs
    by_cases hb : isWs b = true
    · simp only [hb, if_true]
      obtain ⟨w, h1, h2, h3⟩ := ih (i + 1)
      refine ⟨b :: w, by rw [List.cons_append, ← h1], by simp [hb, h2], by rw [h3]; simp; omega⟩
    · simp only [hb]
      exact ⟨[], by simp⟩

/-- non-vacuity: ` [1, 2] ` captures `[1, 2]` (bytes 1..7) -/
example : rawTop {} .slice [0x20, 0x5b, 0x31, 0x2c, 0x20, 0x32, 0x5d, 0x20] = .ok 1 7 := rfl
example : rawTop {} .slice [0x31, 0x20, 0x32] = .err .TrailingCharacters 3 := rfl

/-! ## serialising back verbatim

`Model.SerRaw` transcribes the `RawValue` route of the text serializer (`serialize_struct` with the magic
name → `Compound::RawValue` → `RawValueStrEmitter::serialize_str` → `Formatter::write_raw_fragment` →
`write_all(text)`); `RVal` = serializer programs with `RawValue`s at arbitrary positions, `Ctx` = such a
program with one hole in value position. -/

open SJ.Model.Ser SJ.Model.SerRaw SJ.Proofs.RawSer

/-- **C19 (serialises back verbatim), at any position.** Put a `RawValue` holding `text` into the hole of
    any context (element of a seq / tuple / tuple struct / tuple variant, value of a map entry, field of a
    struct or struct variant, payload of `Some` / a newtype struct / a newtype variant — nested to any
    depth, next to anything, other `RawValue`s included), with the compact or any pretty formatter, from any
    formatter state. Then either serialisation fails with an error that does not depend on `text` (a map
    key elsewhere is not a string), or the writer receives the buffers `pre ++ [text] ++ post`: the text,
    unchanged, as ONE `write_all`, and neither what is written before and after it nor the formatter state
    afterwards depend on it. -/
theorem c19_verbatim (ext : Ext) (f : Fmt) (c : Ctx) (st : FState) :
    (∃ e, ∀ text, serR ext f (c.plug (.raw text)) st = .error e) ∨
    (∃ pre post st', ∀ text, serR ext f (c.plug (.raw text)) st = .ok ⟨pre ++ [text] ++ post, st'⟩) :=
  hole_verbatim ext f c st

/-- at top level (`to_string(&raw)`, `to_string_pretty(&raw)`, any indent): exactly the text -/
theorem c19_verbatim_top (ext : Ext) (text : Bytes) :
    serRCompact ext (.raw text) = .ok [text] ∧ ∀ indent, serRPretty ext indent (.raw text) = .ok [text] :=
  ⟨rfl, fun _ => rfl⟩

/-- the bytes: `to_vec` of the plugged program is `before ++ text ++ after` with `before`, `after` fixed -/
theorem c19_verbatim_bytes (ext : Ext) (f : Fmt) (c : Ctx) :
    (∃ e, ∀ text, (serR ext f (c.plug (.raw text)) FState.init).map (·.bufs.flatten) = .error e) ∨
    (∃ before after, ∀ text,
      (serR ext f (c.plug (.raw text)) FState.init).map (·.bufs.flatten) = .ok (before ++ text ++ after)) := by
  rcases c19_verbatim ext f c FState.init with ⟨e, he⟩ | ⟨pre, post, st', h⟩
  · exact .inl ⟨e, fun t => by rw [he]; rfl⟩
  · exact .inr ⟨pre.flatten, post.flatten, fun t => by rw [h]; simp [Except.map]⟩

/-- the extended serializer is the C03 serializer on the program with every `RawValue` replaced by the
    `arbitrary_precision` number-literal leaf of the same text (in particular it is the C03 serializer on
    `RawValue`-free programs): the layout theorems of C03 (`c03_compact`, `c03_pretty_layout`) apply. -/
theorem c19_serR_is_ser (ext : Ext) (f : Fmt) (p : RVal) (st : FState) :
    serR ext f p st = ser ext f p.erase st :=
  serR_erase ext f p st

/-- a `RawValue` in key position is rejected (`MapKeySerializer::serialize_struct`) -/
theorem c19_raw_key_rejected (ext : Ext) (text : Bytes) : keySerR ext (.raw text) = .error .keyMustBeAString := rfl

/-- non-vacuity: `[true, {"a": RawValue("{ }")}]` pretty-printed with two spaces — the raw text `{ }`
    (which `to_string_pretty` of the parsed value would reformat as `{}`) arrives untouched -/
def exExt : Ext := ⟨fun _ => [], fun _ => [], fun _ => []⟩
example : (serRPretty exExt [0x20, 0x20]
    (.seq (some 2) [.leaf (.bool true), .struct_ [([0x61], .raw [0x7b, 0x20, 0x7d])]])).map List.flatten =
    .ok [0x5b, 0x0a, 0x20, 0x20, 0x74, 0x72, 0x75, 0x65, 0x2c, 0x0a, 0x20, 0x20, 0x7b, 0x0a, 0x20, 0x20, 0x20, 0x20,
         0x22, 0x61, 0x22, 0x3a, 0x20, 0x7b, 0x20, 0x7d, 0x0a, 0x20, 0x20, 0x7d, 0x0a, 0x5d] := rfl
example : (Ctx.seq (some 2) [.leaf (.bool true)] (.field [] [0x61] .hole []) []).plug (.raw [0x7b, 0x20, 0x7d]) =
    .seq (some 2) [.leaf (.bool true), .struct_ [([0x61], .raw [0x7b, 0x20, 0x7d])]] := rfl
/-- the error alternative is real: a non-string key elsewhere fails whatever the text is -/
example : ∀ text, serR exExt .compact ((Ctx.mapValue none [(.leaf .unit, .leaf .unit)] (.leaf (.str [])) .hole []).plug
    (.raw text)) FState.init = .error .keyMustBeAString := fun _ => rfl

end SJ.Props.C19
