import SJ.Props.C07
import SJ.Proofs.LexTopLimbs
import SJ.Proofs.LexTopExp
import SJ.Proofs.TypedFloatAll
/-!
# C07 — the remaining gaps closed: limbs composed with the top level, no excluded class of literals

* `c07_bhcomp_calls_in_range`, `c07_correct_limbs`: the limb-level closure (`c07_limbs_total`, `c07_limbs_refine_nat`) is
  composed with `c07_correct`: every call of `bhcomp` made by `parse_concise_float` / `parse_truncated_float` has a
  non-zero mantissa and `-2048 < scaled_exponent < 1024`, so the whole pipeline with `bhcomp.rs` run on limb vectors
  through `math.rs` (`Model.LexicalLimbs.deFloatRoundtripL`) never panics and equals the specification;
* `c07_nearest_even_all`, `c07_exponent_overflow_spec`: exponents whose digits overflow `i32` are decided as nearest-even
  rounding of the exact value demands;
* `c07_int_literals_nearest`, `c07_typed_nearest_all`: integer literals within `u64` / `i64` read as `f64` / `f32` are the
  nearest-even value as well — every JSON number deserialised as `f64` or `f32` under `float_roundtrip` is nearest.
-/
namespace SJ.Props.C07
open SJ SJ.Gen SJ.Model.Num SJ.Model.Lexical SJ.Model.LexBhLimbs SJ.Model.LexicalLimbs SJ.Spec.Ieee
open SJ.Proofs.LexSplit SJ.Proofs.LexRound SJ.Proofs.LexBh SJ.Proofs.LexFast SJ.Proofs.LexCorrect SJ.Proofs.NumInt
open SJ.Proofs.LexTopFloat SJ.Proofs.LexTopSpec SJ.Proofs.LexTopParser SJ.Proofs.LexTopExp SJ.Proofs.LexTopLimbs
open SJ.Proofs.LexMath (bhScaled bhMantissa)
open SJ.Proofs.NumLink (toNumLit)

/-- **c07_bhcomp_calls_in_range.** Every call of `bhcomp` made by lexical's two entry points is inside the range
    `c07_limbs_total` needs — for both float types:
    * `parse_concise_float(m, e)` reaches `bhcomp(b, itoa(m), [], e)` only when `moderate_path` rejects, hence
      `-350 ≤ e < 310`; then `scaled_exponent = e`;
    * `parse_truncated_float(integer, fraction, e)` (trailing zeros trimmed: `fr`) reaches
      `bhcomp(b, integer, fr, e)` only when `moderate_path(mantissa, mantissa_exponent, true)` rejects, hence
      `-350 ≤ mantissa_exponent < 310`; the `u64` mantissa holds between 1 and 20 significant digits and at most
      `MAX_DIGITS ≤ 769` are counted, so `scaled_exponent ∈ [-1118, 330)`;
    and in both the big-integer mantissa `parse_mantissa` builds is not zero. No literal violates the range. -/
theorem c07_bhcomp_calls_in_range (single : Bool) :
    (∀ (m : Nat) (e : Int), 0 < m → m < 2 ^ 64 → (moderatePath (fc single) m e false).2 = false →
      -2048 < bhScaled (fc single) (itoa m) [] e ∧ bhScaled (fc single) (itoa m) [] e < 1024 ∧
      bhMantissa (fc single) (itoa m) [] ≠ 0) ∧
    (∀ (integer fr : Bytes) (e : Int), IsDigits integer → IsDigits fr → (∀ d r, integer = d :: r → d ≠ 0x30) →
      0 < natOfDigits (integer ++ fr) → (integer ++ fr).length < 2 ^ 29 →
      (moderatePath (fc single) (truncatedMantissa (integer ++ fr) 0).1
        (mantissaExponent e fr.length (truncatedMantissa (integer ++ fr) 0).2) true).2 = false →
      -2048 < bhScaled (fc single) integer fr e ∧ bhScaled (fc single) integer fr e < 1024 ∧
      bhMantissa (fc single) integer fr ≠ 0) := by
  constructor
  · intro m e hm0 hm hv
    obtain ⟨hr1, hr2⟩ := moderate_invalid_range _ _ _ _ hv
    obtain ⟨i1, i2, i3, i4, i5⟩ := itoa_spec m hm
    obtain ⟨s1, s2⟩ := bhScaled_range_concise single m e hm0 hm hr1 hr2
    exact ⟨s1, s2, bhMantissa_ne_zero_all (fc single) (hmaxOf single) (itoa m) [] i2 (by intro c hc; cases hc) (i3 hm0)
      (by rw [List.append_nil, i1]; exact hm0)⟩
  · intro integer fr e hdi hdf hhead hpos hlen hv
    obtain ⟨hr1, hr2⟩ := moderate_invalid_range _ _ _ _ hv
    obtain ⟨s1, s2⟩ := bhScaled_range single integer fr e hdi hdf hhead hpos hlen hr1 hr2
    exact ⟨s1, s2, bhMantissa_ne_zero_all (fc single) (hmaxOf single) integer fr hdi hdf hhead hpos⟩

/-- non-vacuity: `2305843009213660156999999999999e-242` (finding C07-moderate-truncated): the estimate is rejected and
    `bhcomp` is called with `scaled_exponent = -242` -/
example : (moderatePath f64Consts 2305843009213660156 (-230) true).2 = false ∧
    bhScaled f64Consts [0x32,0x33,0x30,0x35,0x38,0x34,0x33,0x30,0x30,0x39,0x32,0x31,0x33,0x36,0x36,0x30,0x31,0x35,0x36,
      0x39,0x39,0x39,0x39,0x39,0x39,0x39,0x39,0x39,0x39,0x39,0x39] [] (-242) = -242 := by decide +kernel

/-- **c07_correct_limbs.** `c07_correct` with `bhcompL` — `bhcomp.rs` run on `Vec<Limb>` through the trait `Math` of
    `math.rs` — in place of the `Nat`-level `bhcomp`: for every well-formed literal of fewer than `2^29 - 20` digits and
    both targets, `de.rs`'s digit collection followed by `parse_concise_float` / `parse_truncated_float` with the slow
    path on limb vectors (`Model.LexicalLimbs.deFloatRoundtripL`) **returns** (`some`: no panic of `imul_pow5`, Karatsuba
    or `hi64`) the specification `Model.Num.convertRoundtrip` / `convertRoundtripSingle`. The abstraction
    `Bigint = Nat` of `c07_bhcomp_exact` is thereby discharged for the whole conversion. -/
theorem c07_correct_limbs (p : Parts) (wf : WF p) (hlen : (p.int ++ p.frac.getD []).length + 20 < 2 ^ 29) :
    deFloatRoundtripL false p = some (convertRoundtrip p) ∧ deFloatRoundtripL true p = some (convertRoundtripSingle p) := by
  obtain ⟨h1, h2⟩ := c07_correct p wf hlen
  exact ⟨by rw [deFloatL_eq false p wf hlen, h1], by rw [deFloatL_eq true p wf hlen, h2]⟩

/-- non-vacuity: the witness of C07-moderate-truncated through the limb-level pipeline -/
example : deFloatRoundtripL false (Parts.mk false [0x32,0x33,0x30,0x35,0x38,0x34,0x33,0x30,0x30,0x39,0x32,0x31,0x33,0x36,0x36,0x30,
      0x31,0x35,0x36,0x39,0x39,0x39,0x39,0x39,0x39,0x39,0x39,0x39,0x39,0x39,0x39] none (some (true, [0x32,0x34,0x32])) []) =
    some (.f64 0x13ff0ce48391985b) := by decide +kernel

/-- **c07_nearest_even_all.** `c07_nearest_even` without the hypothesis that the exponent's digits pass the `i32` guard:
    for every well-formed float-path literal under the digit bound, whatever its exponent — `1e99999999999`,
    `0.0e-99999999999` included. -/
theorem c07_nearest_even_all (p : Parts) (wf : WF p) (hlen : (p.int ++ p.frac.getD []).length + 20 < 2 ^ 29)
    (hic : intClass p = none) :
    (¬ Overflows64 (toNumLit p).exact.1 (toNumLit p).exact.2 →
      ∃ r, deFloatRoundtrip false p = .f64 r ∧ IsNearestEven64 p.neg (toNumLit p).exact.1 (toNumLit p).exact.2 r) ∧
    (Overflows64 (toNumLit p).exact.1 (toNumLit p).exact.2 → deFloatRoundtrip false p = .outOfRange) ∧
    (¬ Overflows32 (toNumLit p).exact.1 (toNumLit p).exact.2 →
      ∃ r, deFloatRoundtrip true p = .f64 (F32.toF64 r) ∧ IsNearestEven32 p.neg (toNumLit p).exact.1 (toNumLit p).exact.2 r) ∧
    (Overflows32 (toNumLit p).exact.1 (toNumLit p).exact.2 → deFloatRoundtrip true p = .outOfRange) := by
  have hden : 0 < (toNumLit p).exact.2 := by rw [exact_eq_scale]; exact scale10_den_pos _ _
  obtain ⟨a1, a2⟩ := SJ.Proofs.Ieee.roundNE64_correct p.neg _ _ hden
  obtain ⟨b1, b2⟩ := SJ.Proofs.Ieee.roundNE32_correct p.neg _ _ hden
  rw [deFloat64_nearest_all p wf hlen hic, deFloat32_nearest_all p wf hlen hic]
  refine ⟨fun h => ?_, fun h => ?_, fun h => ?_, fun h => ?_⟩
  · obtain ⟨r, hr, hn⟩ := a1 h; exact ⟨r, by rw [hr], hn⟩
  · rw [a2 h]
  · obtain ⟨r, hr, hn⟩ := b1 h; exact ⟨r, by rw [hr], hn⟩
  · rw [b2 h]

/-- **c07_exponent_overflow_spec.** The exponent-overflow rule of `c07_other_literals`, related to the specification. For
    a well-formed literal under the digit bound whose exponent digits overflow `i32` (`parse_exponent_overflow`):
    * some significand digit non-zero and a positive exponent: the exact value overflows (`Overflows64`, `Overflows32`
      — it is at least `10^(2^31 − 2^29)`), and the result is `NumberOutOfRange`, for both targets;
    * otherwise (all digits zero, or a negative exponent): the exact value does not overflow and the result `±0` is *the*
      nearest-even `f64` (`IsNearestEven64`) resp. the exact widening of *the* nearest-even `f32`. -/
theorem c07_exponent_overflow_spec (p : Parts) (wf : WF p) (hlen : (p.int ++ p.frac.getD []).length + 20 < 2 ^ 29)
    (en : Bool) (eds : Bytes) (hexp : p.exp = some (en, eds)) (hov : expOverflows eds = true) :
    (((p.int ++ p.frac.getD []).all (· == 0x30) = false ∧ en = false) →
      Overflows64 (toNumLit p).exact.1 (toNumLit p).exact.2 ∧ Overflows32 (toNumLit p).exact.1 (toNumLit p).exact.2 ∧
      ∀ single, deFloatRoundtrip single p = .outOfRange) ∧
    (¬ ((p.int ++ p.frac.getD []).all (· == 0x30) = false ∧ en = false) →
      ¬ Overflows64 (toNumLit p).exact.1 (toNumLit p).exact.2 ∧ ¬ Overflows32 (toNumLit p).exact.1 (toNumLit p).exact.2 ∧
      IsNearestEven64 p.neg (toNumLit p).exact.1 (toNumLit p).exact.2 (F64.zero p.neg) ∧
      (∃ r, IsNearestEven32 p.neg (toNumLit p).exact.1 (toNumLit p).exact.2 r ∧ F32.toF64 r = F64.zero p.neg) ∧
      ∀ single, deFloatRoundtrip single p = .f64 (F64.zero p.neg)) := by
  have hic : intClass p = none := by unfold intClass; rw [hexp]; cases p.frac <;> rfl
  obtain ⟨n1, n2, n3, n4⟩ := c07_nearest_even_all p wf hlen hic
  have hrule : ∀ single, deFloatRoundtrip single p =
      exponentOverflow (!p.neg) ((p.int ++ p.frac.getD []).all (· == 0x30)) (!en) :=
    fun single => (c07_other_literals single p wf hlen).2 en eds hexp hov
  constructor
  · rintro ⟨hz, hen⟩
    have hout : ∀ single, deFloatRoundtrip single p = .outOfRange := by
      intro single; rw [hrule single, hz, hen]; rfl
    refine ⟨?_, ?_, hout⟩
    · by_contra hno
      obtain ⟨r, hr, _⟩ := n1 hno
      rw [hout false] at hr; cases hr
    · by_contra hno
      obtain ⟨r, hr, _⟩ := n3 hno
      rw [hout true] at hr; cases hr
  · intro hnot
    have hzero : ∀ single, deFloatRoundtrip single p = .f64 (F64.zero p.neg) := by
      intro single
      rw [hrule single]
      unfold exponentOverflow
      have : (!(p.int ++ p.frac.getD []).all (· == 0x30) && !en) = false := by
        cases hz : (p.int ++ p.frac.getD []).all (· == 0x30) <;> cases hen : en <;> simp_all
      rw [this]
      simp only [Bool.false_eq_true, if_false]
      rw [zero_of_neg]
    have h64 : ¬ Overflows64 (toNumLit p).exact.1 (toNumLit p).exact.2 := by
      intro ho; have := n2 ho; rw [hzero false] at this; cases this
    have h32 : ¬ Overflows32 (toNumLit p).exact.1 (toNumLit p).exact.2 := by
      intro ho; have := n4 ho; rw [hzero true] at this; cases this
    refine ⟨h64, h32, ?_, ?_, hzero⟩
    · obtain ⟨r, hr, hn⟩ := n1 h64
      rw [hzero false] at hr
      cases hr; exact hn
    · obtain ⟨r, hr, hn⟩ := n3 h32
      rw [hzero true] at hr
      exact ⟨r, hn, (NRes.f64.inj hr).symm⟩

/-- non-vacuity: `-1e-99999999999` is `-0.0`, `1e99999999999` is out of range, for both targets (hypotheses: the exponent
    digits do overflow `i32`) -/
example : expOverflows [0x39,0x39,0x39,0x39,0x39,0x39,0x39,0x39,0x39,0x39,0x39] = true ∧
    deFloatRoundtrip false (Parts.mk true [0x31] none (some (true, [0x39,0x39,0x39,0x39,0x39,0x39,0x39,0x39,0x39,0x39,0x39])) [])
      = .f64 0x8000000000000000 ∧
    deFloatRoundtrip true (Parts.mk false [0x31] none (some (false, [0x39,0x39,0x39,0x39,0x39,0x39,0x39,0x39,0x39,0x39,0x39])) [])
      = .outOfRange := by decide +kernel

/-- **c07_int_literals_nearest.** The class `c07_nearest_even` excludes by hypothesis — integer literals within `u64` /
    `i64`, which `de.rs` hands to serde's float visitor as `ParserNumber::U64/I64` and the visitor casts (`v as f64`,
    `v as f32`; `FromValue.intToF64/32`, and `F64.ofU64` / `F32.ofU64` for `Number::as_f64`) — is nearest-even too: for
    every integer `i` of magnitude below `2^64` the cast is *the* IEEE round-to-nearest-even `f64` (`IsNearestEven64`)
    resp. `f32` (`IsNearestEven32`: one rounding of the integer, no intermediate `f64`) of `i`, with `i`'s sign. -/
theorem c07_int_literals_nearest (i : Int) (hi : i.natAbs < 2 ^ 64) :
    IsNearestEven64 (decide (i < 0)) i.natAbs 1 (Model.FromValue.intToF64 i) ∧
    IsNearestEven32 (decide (i < 0)) i.natAbs 1 (Model.FromValue.intToF32 i) ∧
    (0 ≤ i → Model.FromValue.intToF64 i = F64.ofU64 i.natAbs ∧ Model.FromValue.intToF32 i = F32.ofU64 i.natAbs) := by
  obtain ⟨x, hx, hnx⟩ := (SJ.Proofs.Ieee.roundNE64_correct (decide (i < 0)) i.natAbs 1 Nat.one_pos).1
    (SJ.Proofs.TypedFloatAll.not_overflows64_u64 _ hi)
  obtain ⟨y, hy, hny⟩ := (SJ.Proofs.Ieee.roundNE32_correct (decide (i < 0)) i.natAbs 1 Nat.one_pos).1
    (SJ.Proofs.TypedFloatAll.not_overflows32_u64 _ hi)
  have e64 : Model.FromValue.intToF64 i = x := by unfold Model.FromValue.intToF64; rw [hx]; rfl
  have e32 : Model.FromValue.intToF32 i = y := by unfold Model.FromValue.intToF32; rw [hy]; rfl
  refine ⟨e64 ▸ hnx, e32 ▸ hny, fun h0 => ?_⟩
  have hd : decide (i < 0) = false := by simp; omega
  rw [hd] at hx hy
  constructor
  · rw [e64]; unfold F64.ofU64 F64.roundOrInf; rw [hx]; rfl
  · rw [e32]; unfold F32.ofU64 F32.roundOrInf; rw [hy]; rfl

/-- non-vacuity: `9007199254740993 = 2^53 + 1` as `f64` is the even neighbour `2^53`; `16777217 = 2^24 + 1` as `f32` is `2^24` -/
example : Model.FromValue.intToF64 9007199254740993 = 0x4340000000000000 ∧
    Model.FromValue.intToF32 16777217 = 0x4b800000 ∧ Model.FromValue.intToF32 (-16777219) = 0xcb800002 := by decide +kernel

/-- **c07_typed_nearest_all.** `c07_typed_nearest` with no excluded class: under `float_roundtrip`, whatever literal
    `parse_integer` has scanned — integer within `u64` / `i64` (cast by serde's visitor), fraction / exponent, integer
    beyond `u64`, `-0`, exponent digits beyond `i32` — `deserialize_f64` returns *the* IEEE round-to-nearest-even `f64` of
    the literal's exact decimal value and `deserialize_f32` *the* nearest-even `f32` (rounded once), leaving the reader
    right after the literal; the literal is rejected (`NumberOutOfRange`) exactly when that value would be infinite. Every
    JSON number deserialised as `f64` or `f32` is nearest. -/
theorem c07_typed_nearest_all (env : Model.Typed.Env) (hfr : env.cfg.fr = true) (b : UInt8) (r : Bytes) (p0 : Nat)
    (parts : Parts) (rest' : Bytes) (pos' : Nat) (hb : Model.Typed.isNumStart b = true)
    (hlen : (b :: r).length + 20 < 2 ^ 29) (hsc : Model.Typed.scanNumber env (b :: r) p0 = .ok parts rest' pos') :
    (¬ Overflows64 (toNumLit parts).exact.1 (toNumLit parts).exact.2 →
      ∃ x, Model.Typed.deNumber env .f64 (b :: r) p0 = .ok (.f64 x) rest' pos' ∧
        IsNearestEven64 parts.neg (toNumLit parts).exact.1 (toNumLit parts).exact.2 x) ∧
    (Overflows64 (toNumLit parts).exact.1 (toNumLit parts).exact.2 →
      Model.Typed.deNumber env .f64 (b :: r) p0 = .err .NumberOutOfRange (Model.Typed.peekErrorIdx rest' pos')) ∧
    (¬ Overflows32 (toNumLit parts).exact.1 (toNumLit parts).exact.2 →
      ∃ x, Model.Typed.deNumber env .f32 (b :: r) p0 = .ok (.f32 x) rest' pos' ∧
        IsNearestEven32 parts.neg (toNumLit parts).exact.1 (toNumLit parts).exact.2 x) ∧
    (Overflows32 (toNumLit parts).exact.1 (toNumLit parts).exact.2 →
      Model.Typed.deNumber env .f32 (b :: r) p0 = .err .NumberOutOfRange (Model.Typed.peekErrorIdx rest' pos')) := by
  have hden : 0 < (toNumLit parts).exact.2 := by rw [exact_eq_scale]; exact scale10_den_pos _ _
  obtain ⟨a1, a2⟩ := SJ.Proofs.Ieee.roundNE64_correct parts.neg _ _ hden
  obtain ⟨b1, b2⟩ := SJ.Proofs.Ieee.roundNE32_correct parts.neg _ _ hden
  obtain ⟨h64, h32⟩ := SJ.Proofs.TypedFloatAll.deNumber_nearest_all env hfr b r p0 parts rest' pos' hb hlen hsc
  rw [h64, h32]
  refine ⟨fun h => ?_, fun h => ?_, fun h => ?_, fun h => ?_⟩
  · obtain ⟨x, hx, hn⟩ := a1 h; exact ⟨x, by rw [hx], hn⟩
  · rw [a2 h]
  · obtain ⟨x, hx, hn⟩ := b1 h; exact ⟨x, by rw [hx], hn⟩
  · rw [b2 h]

/-- non-vacuity: `from_str::<f32>("16777217")` (an integer literal, cast by the visitor) is `2^24`; `from_str::<f64>` of
    `1e99999999999` is rejected, of `-1e-99999999999` is `-0.0` -/
example :
    (match Model.Typed.deTypedTop { cfg := { fr := true } } .f32 [0x31,0x36,0x37,0x37,0x37,0x32,0x31,0x37] with
     | .ok (.f32 b) => b == 0x4b800000 | _ => false) = true ∧
    (match Model.Typed.deTypedTop { cfg := { fr := true } } .f64 [0x2d,0x31,0x65,0x2d,0x39,0x39,0x39,0x39,0x39,0x39,0x39,0x39,0x39,0x39,0x39] with
     | .ok (.f64 b) => b == 0x8000000000000000 | _ => false) = true ∧
    (match Model.Typed.deTypedTop { cfg := { fr := true } } .f64 [0x31,0x65,0x39,0x39,0x39,0x39,0x39,0x39,0x39,0x39,0x39,0x39,0x39] with
     | .err .NumberOutOfRange _ => true | _ => false) = true := by decide +kernel

end SJ.Props.C07
