import SJ.Proofs.ReadTop
/-!
# C09 / C05 — the two REAL string scanners of `src/read.rs` refine the machine, hence agree

`Model.Machine` has one reader abstraction; the crate has two implementations of `trait Read` with their own
string scanners: `SliceRead` (`StrRead` delegates to it) — SWAR / memchr scan to the next escape byte, bulk
copies, borrowed-or-copied result, `decode_hex_escape` by a length check and a slice pattern — and `IoRead` —
one byte at a time through a peek slot and a counting iterator, everything copied, `decode_hex_escape` by four
pulls. They share only the generic free functions (`parse_escape`, `parse_unicode_escape`, `ignore_escape`),
which reach the reader through `next` / `peek` / `discard` / `decode_hex_escape`. The two are modelled
separately (`Model/ReadSlice.lean`, `Model/ReadIo.lean`, `Model/ReadEscape.lean`) and each is proved to do,
on EVERY input, exactly what the machine's string steps (`stepStr` … `endStr`) do:

* `c09_machine_string_steps` — what "the machine's string steps" means: a `run` standing in a string state is
  the iterated `stepStr` (`strRun`), `endStr` at the closing quote, and the run of the rest;
* `c09_slice_str_refines`, `c09_strread_str_refines`, `c09_io_str_refines` — `parse_str` of `SliceRead` /
  `StrRead` / `IoRead` (validated strings: `String`, `&str`, keys, `Value`) = the machine with
  `src = .slice` / `.str` / `.reader`: same decoded bytes and same end index, or same error code at the same index;
* `c09_slice_ignore_refines`, `c09_io_ignore_refines` — the same for `ignore_str` (skipped content);
* `c09_str_readers_agree` — hence the two real scanners agree with each other on every byte string, with the
  same line and column; `c09_strread_slice`: `&str` = slice on valid UTF-8;
* `c09_hex_escape_cut` — the `\u` group cut by the end of input, for both readers;
* `c05_borrowed` — the borrowed clause of C05.

Observables (`Proofs/ReadTop.lean`): `Obs.ok bytes j` = decoded bytes and the index behind the closing quote,
`Obs.err c j` = `ErrorCode` and the index `read.position()` counts (`SliceRead`: `index`, turned into line /
column by `position_of_index`; `IoRead`: bytes pulled from the `LineColIterator`).
`KeyOK stk isKey` is the machine's shape invariant for keys (a key is read inside an object).

Not covered here: the raw variant `parse_str_raw` (`validate = false`: bytes targets) is modelled in both
reader models and run against the crate (ops `rs`), see `Props/C09ReadersRaw.lean` for what is proved of it.
-/
namespace SJ.Props.C09
open SJ SJ.Gen SJ.Model.Machine SJ.Model.LineCol SJ.Model.ReadEscape
open SJ.Proofs.ReadMach SJ.Proofs.ReadTop
open SJ.Model.ReadSlice (Reference SliceRead)
open SJ.Model.ReadIo (IoRead)

/-- **the machine's string steps.** From any string state (`st`: scratch so far, escape sub-state, key flag), on
    any stack, at any index: running the machine is iterating `stepStr` up to the closing quote or the first
    error (`strRun`), applying `endStr` at the quote, and running on. `afterStr` spells that out. -/
theorem c09_machine_string_steps (env : Env) (stk : List Frame) (st : StrSt) (i : Nat) (xs : Bytes) :
    run env { mode := .str st, stack := stk } i xs = afterStr env stk (strRun env stk st i xs) :=
  run_strRun env stk st i xs

/-- **C09 (slice scanner).** `SliceRead::parse_str` called with `index = i` (right after the opening quote) on
    the slice `bs` returns exactly what the machine's string steps return for `src = .slice`: the same decoded
    bytes and end index; or the same error code at the same index — control character, invalid escape, lone /
    unpaired surrogates, `\u` cut by the end of input, end of input, and `InvalidUnicodeCodePoint` at the closing
    quote. Every configuration, every stack, strings and keys. -/
theorem c09_slice_str_refines (cfg : Cfg) (stk : List Frame) (isKey : Bool) (hk : KeyOK stk isKey) (bs : Bytes)
    (i : Nat) (hi : i ≤ bs.length) :
    sliceObs (Model.ReadSlice.parseStr ⟨bs, i⟩) = machStrObs ⟨cfg, .slice, .value⟩ stk isKey i (bs.drop i) :=
  slice_str_refines cfg stk isKey hk bs i hi

/-- **C09 (`StrRead`).** `StrRead::parse_str` (the slice scanner with `from_utf8_unchecked` in place of
    `as_str`) = the machine with `src = .str`, on every byte string (no UTF-8 hypothesis: neither side checks). -/
theorem c09_strread_str_refines (cfg : Cfg) (stk : List Frame) (isKey : Bool) (hk : KeyOK stk isKey) (bs : Bytes)
    (i : Nat) (hi : i ≤ bs.length) :
    sliceObs (Model.ReadSlice.strParseStr ⟨bs, i⟩) = machStrObs ⟨cfg, .str, .value⟩ stk isKey i (bs.drop i) :=
  strread_str_refines cfg stk isKey hk bs i hi

/-- **C09 (reader scanner).** `IoRead::parse_str` called on the reader over `bs` that has handed out `i` bytes
    (peek slot empty: `de.rs` has just `eat_char`-ed the opening quote) returns exactly what the machine's string
    steps return for `src = .reader`; the index of an error is the number of bytes pulled from the iterator. -/
theorem c09_io_str_refines (cfg : Cfg) (stk : List Frame) (isKey : Bool) (hk : KeyOK stk isKey) (bs : Bytes)
    (i : Nat) (hi : i ≤ bs.length) :
    ioObs (Model.ReadIo.parseStr (IoPos.at bs i false)) = machStrObs ⟨cfg, .reader, .value⟩ stk isKey i (bs.drop i) :=
  io_str_refines cfg stk isKey hk bs i hi

/-- … and the reader is left where the model of `de.rs` expects it: after success or failure at index `j` the
    `IoRead` is THE reader that has handed out `j` bytes with an empty peek slot — its three counters are those of
    `LineColIterator` after `bs[..j]`, so `position()` is `lineCol bs j` (`c11_reader_linecol`). -/
theorem c09_io_str_state (bs : Bytes) (i : Nat) (hi : i ≤ bs.length) :
    (∀ ref r', Model.ReadIo.parseStr (IoPos.at bs i false) = .ok ref r' →
      ∃ j, j ≤ bs.length ∧ r' = IoPos.at bs j false) ∧
    (∀ c r', Model.ReadIo.parseStr (IoPos.at bs i false) = .err c r' →
      ∃ j, j ≤ bs.length ∧ r' = IoPos.at bs j false ∧ r'.position = lineCol bs j) := by
  obtain ⟨o, h⟩ := io_parseStrBytes_obs {} [] false bs i hi Model.ReadSlice.asStr
  unfold Model.ReadIo.parseStr
  match o, h with
  | some (st', j), ⟨_, hj, h3⟩ =>
    rw [h3]; unfold Model.ReadSlice.asStr
    cases Spec.Utf8.validUtf8 st'.out.reverse with
    | true =>
      refine ⟨fun ref r' h => ⟨j, hj, ?_⟩, fun c r' h => by simp at h⟩
      simp only [if_true, Res.ok.injEq] at h; exact h.2.symm
    | false =>
      refine ⟨fun ref r' h => by simp at h, fun c r' h => ⟨j, hj, ?_⟩⟩
      simp only [Bool.false_eq_true, if_false, Res.err.injEq] at h
      obtain ⟨_, rfl⟩ := h
      exact ⟨rfl, (Proofs.LineCol.inv_at bs j false hj).position⟩
  | none, ⟨c, j, _, hj, h2⟩ =>
    rw [h2]
    refine ⟨fun ref r' h => by simp at h, fun c' r' h => ⟨j, hj, ?_⟩⟩
    simp only [Res.err.injEq] at h
    obtain ⟨_, rfl⟩ := h
    exact ⟨rfl, (Proofs.LineCol.inv_at bs j false hj).position⟩

/-- **C09 (`ignore_str`, slice).** Skipped strings (`IgnoredAny`, unknown fields, `RawValue` scanning): no UTF-8
    and no surrogate checks, `\u` groups only have to be four hex digits. -/
theorem c09_slice_ignore_refines (cfg : Cfg) (stk : List Frame) (isKey : Bool) (hk : KeyOK stk isKey) (bs : Bytes)
    (i : Nat) (hi : i ≤ bs.length) :
    sliceObsU (Model.ReadSlice.ignoreStr ⟨bs, i⟩) = machIgnObs ⟨cfg, .slice, .ignored⟩ stk isKey i (bs.drop i) :=
  slice_ignore_refines cfg stk isKey hk bs i hi

/-- **C09 (`ignore_str`, reader).** -/
theorem c09_io_ignore_refines (cfg : Cfg) (stk : List Frame) (isKey : Bool) (hk : KeyOK stk isKey) (bs : Bytes)
    (i : Nat) (hi : i ≤ bs.length) :
    ioObsU (Model.ReadIo.ignoreStr (IoPos.at bs i false)) = machIgnObs ⟨cfg, .reader, .ignored⟩ stk isKey i (bs.drop i) :=
  (io_ignore_refines cfg stk isKey hk bs i hi).1

/-- **C09: the two real scanners agree.** On every byte string and from every start index, `SliceRead` and
    `IoRead` return the same decoded bytes and end index, or the same error code at the same index, for
    `parse_str` and for `ignore_str`. (Each side is a different piece of code; the proof goes through the machine:
    slice scanner = machine(slice) = machine(reader) = reader scanner, the middle step being that the machine's
    string steps do not look at the source.) -/
theorem c09_str_readers_agree (bs : Bytes) (i : Nat) (hi : i ≤ bs.length) :
    sliceObs (Model.ReadSlice.parseStr ⟨bs, i⟩) = ioObs (Model.ReadIo.parseStr (IoPos.at bs i false)) ∧
    sliceObsU (Model.ReadSlice.ignoreStr ⟨bs, i⟩) = ioObsU (Model.ReadIo.ignoreStr (IoPos.at bs i false)) := by
  have hk : KeyOK [] false := fun h => by cases h
  refine ⟨?_, ?_⟩
  · rw [c09_slice_str_refines {} [] false hk bs i hi, c09_io_str_refines {} [] false hk bs i hi]
    exact machStrObs_slice_reader {} .value [] false i _
  · rw [c09_slice_ignore_refines {} [] false hk bs i hi, c09_io_ignore_refines {} [] false hk bs i hi]
    exact machIgnObs_slice_reader {} .ignored [] false i _

/-- … with the same line and column: an error index `j ≤ |bs|` is turned into a `Position` by
    `SliceRead::position_of_index(j)` (memchr recomputation) on one side and read off `LineColIterator`'s counters
    on the other; both are `lineCol bs j`. -/
theorem c09_str_readers_positions (bs : Bytes) (i : Nat) (hi : i ≤ bs.length) (c : Code) (r' : SliceRead)
    (h : Model.ReadSlice.parseStr ⟨bs, i⟩ = .err c r') :
    ∃ r'' : IoRead, Model.ReadIo.parseStr (IoPos.at bs i false) = .err c r'' ∧
      r'.position = some r''.position ∧ r''.position = lineCol bs r'.index := by
  have hag := (c09_str_readers_agree bs i hi).1
  rw [h] at hag
  cases hio : Model.ReadIo.parseStr (IoPos.at bs i false) with
  | ok ref r'' => rw [hio] at hag; simp [sliceObs, ioObs] at hag
  | fuel => rw [hio] at hag; simp [sliceObs, ioObs] at hag
  | err c' r'' =>
    rw [hio] at hag
    simp only [sliceObs, ioObs, Obs.err.injEq] at hag
    obtain ⟨rfl, hidx⟩ := hag
    obtain ⟨j, hj, rfl, hpos⟩ := (c09_io_str_state bs i hi).2 c r'' hio
    rw [at_byteOffset bs j hj] at hidx
    obtain ⟨o, ho⟩ := slice_parseStrBytes_obs {} .slice [] false bs i hi Model.ReadSlice.asStr
    have hsl : r'.slice = bs := by
      unfold Model.ReadSlice.parseStr at h
      match o, ho with
      | some (st', j'), ⟨_, _, h3⟩ =>
        rw [h3] at h; unfold Model.ReadSlice.asStr at h
        cases hv : Spec.Utf8.validUtf8 st'.out.reverse <;> rw [hv] at h <;> simp [Proofs.ReadSlice.wrap] at h
        rw [← h.2]
      | none, ⟨c', j', _, _, h2⟩ => rw [h2] at h; simp at h; rw [← h.2]
    refine ⟨_, rfl, ?_, by rw [hpos, hidx]⟩
    unfold SlicePos.position
    rw [hsl, hidx, Proofs.LineCol.positionOfIndex_eq bs j hj, hpos]

/-- **C09 (`&str` = slice).** A `&str` is valid UTF-8; when what follows the opening quote is valid UTF-8,
    `StrRead::parse_str` (no check) and `SliceRead::parse_str` (`as_str`) return the same — value, borrowed-ness,
    reader state, or error. -/
theorem c09_strread_slice (bs : Bytes) (i : Nat) (hi : i ≤ bs.length) (hu : Spec.Utf8.validUtf8 (bs.drop i) = true) :
    Model.ReadSlice.strParseStr ⟨bs, i⟩ = Model.ReadSlice.parseStr ⟨bs, i⟩ :=
  strread_eq_slice bs i hi hu

/-- **`\u` cut by the end of input, and bad digits, for both readers.** Right after `\u` (slice at index `k`,
    reader with `k` bytes handed out and nothing peeked):
    * fewer than four bytes left — whatever they are, a `"` included — both report `EofWhileParsingString` at the
      END of the input (`SliceRead` looks at the length first and sets `index = len`; `IoRead` pulls every byte
      that is left and fails on the next pull): the C12 reading "a `\u` escape cut off by the end of input is
      truncation";
    * four or more bytes left — both consume exactly four and report `InvalidEscape` at `k + 4` iff they are not
      four hex digits, else return their value. -/
theorem c09_hex_escape_cut (bs : Bytes) (k : Nat) (hk : k ≤ bs.length) :
    (bs.length < k + 4 →
      Model.ReadSlice.decodeHexEscape ⟨bs, k⟩ = .err .EofWhileParsingString ⟨bs, bs.length⟩ ∧
      Model.ReadIo.decodeHexEscape (IoPos.at bs k false) = .err .EofWhileParsingString (IoPos.at bs bs.length false)) ∧
    (∀ a b c d rest, bs.drop k = a :: b :: c :: d :: rest →
      Model.ReadSlice.decodeHexEscape ⟨bs, k⟩ = (match Model.Hex.decodeFourHex a b c d with
        | some n => .ok n ⟨bs, k + 4⟩
        | none => .err .InvalidEscape ⟨bs, k + 4⟩) ∧
      Model.ReadIo.decodeHexEscape (IoPos.at bs k false) = (match Model.Hex.decodeFourHex a b c d with
        | some n => .ok n (IoPos.at bs (k + 4) false)
        | none => .err .InvalidEscape (IoPos.at bs (k + 4) false))) := by
  have hS := Proofs.ReadSlice.A.mk' bs k hk
  have hI := io_at bs k hk
  refine ⟨fun hlt => ?_, fun a b c d rest hd => ?_⟩
  · have hl : (bs.drop k).length < 4 := by simp; omega
    have hlen : k + (bs.drop k).length = bs.length := by simp; omega
    obtain ⟨r1, e1, h1⟩ := Proofs.ReadSlice.hex_eof hS hl
    obtain ⟨r2, e2, h2⟩ := Proofs.ReadIo.hex_eof hI hl
    rw [hlen] at h1 h2
    rw [e1, e2, h1.eq, (io_eq_at h2).1]
    exact ⟨rfl, rfl⟩
  · rw [hd] at hS hI
    obtain ⟨r1, h1, e1⟩ := Proofs.ReadSlice.hex_ok hS
    obtain ⟨r2, h2, e2⟩ := Proofs.ReadIo.hex_ok hI
    rw [e1, e2, h1.eq, (io_eq_at h2).1]
    exact ⟨rfl, rfl⟩

/-! ## non-vacuity: concrete literals through both models (`decide +kernel`) -/

/-- `"aé😀"x`: copied, `aé😀`, index 21 — both readers -/
def exEsc : Bytes := [0x22, 0x61, 0x5c, 0x75, 0x30, 0x30, 0x65, 0x39, 0x5c, 0x75, 0x64, 0x38, 0x33, 0x64, 0x5c, 0x75,
  0x64, 0x65, 0x30, 0x30, 0x22, 0x78]
example : Model.ReadSlice.parseStr ⟨exEsc, 1⟩ = .ok (.copied [0x61, 0xc3, 0xa9, 0xf0, 0x9f, 0x98, 0x80]) ⟨exEsc, 21⟩ := by
  decide +kernel
example : ioObs (Model.ReadIo.parseStr (IoPos.at exEsc 1 false)) = .ok [0x61, 0xc3, 0xa9, 0xf0, 0x9f, 0x98, 0x80] 21 := by
  decide +kernel
example : machStrObs ⟨{}, .slice, .value⟩ [] false 1 (exEsc.drop 1) = .ok [0x61, 0xc3, 0xa9, 0xf0, 0x9f, 0x98, 0x80] 21 := by
  decide +kernel
/-- the hypotheses of the refinement theorems are met: `KeyOK` for a value and for a key inside an object -/
example : KeyOK [] false := fun h => by cases h
example : KeyOK [.obj [] []] true := fun _ => ⟨[], [], [], rfl⟩
/-- a lone leading surrogate followed by `x`; a lone trailing surrogate; `\u12"` (cut: Eof at the end, not
    InvalidEscape); `\u12g4` (InvalidEscape after the fourth byte); a raw newline (reported one past it);
    `"\xff"` (InvalidUnicodeCodePoint at the closing quote) — slice and reader -/
example : sliceObs (Model.ReadSlice.parseStr ⟨[0x22, 0x5c, 0x75, 0x64, 0x38, 0x33, 0x64, 0x78, 0x22], 1⟩) =
    .err .UnexpectedEndOfHexEscape 8 := by decide +kernel
example : ioObs (Model.ReadIo.parseStr (IoPos.at [0x22, 0x5c, 0x75, 0x64, 0x38, 0x33, 0x64, 0x78, 0x22] 1 false)) =
    .err .UnexpectedEndOfHexEscape 8 := by decide +kernel
example : sliceObs (Model.ReadSlice.parseStr ⟨[0x22, 0x5c, 0x75, 0x64, 0x65, 0x30, 0x30, 0x22], 1⟩) =
    .err .LoneLeadingSurrogateInHexEscape 7 := by decide +kernel
example : sliceObs (Model.ReadSlice.parseStr ⟨[0x22, 0x5c, 0x75, 0x31, 0x32, 0x22], 1⟩) = .err .EofWhileParsingString 6 := by
  decide +kernel
example : ioObs (Model.ReadIo.parseStr (IoPos.at [0x22, 0x5c, 0x75, 0x31, 0x32, 0x22] 1 false)) =
    .err .EofWhileParsingString 6 := by decide +kernel
example : sliceObs (Model.ReadSlice.parseStr ⟨[0x22, 0x5c, 0x75, 0x31, 0x32, 0x67, 0x34, 0x22], 1⟩) = .err .InvalidEscape 7 := by
  decide +kernel
example : ioObs (Model.ReadIo.parseStr (IoPos.at [0x22, 0x61, 0x0a, 0x62, 0x22] 1 false)) =
    .err .ControlCharacterWhileParsingString 3 := by decide +kernel
example : (Model.ReadIo.parseStr (IoPos.at [0x22, 0x61, 0x0a, 0x62, 0x22] 1 false)) =
    .err .ControlCharacterWhileParsingString (IoPos.at [0x22, 0x61, 0x0a, 0x62, 0x22] 3 false) ∧
    (IoPos.at [0x22, 0x61, 0x0a, 0x62, 0x22] 3 false).position = (2, 0) := by decide +kernel
example : sliceObs (Model.ReadSlice.parseStr ⟨[0x22, 0xff, 0x22], 1⟩) = .err .InvalidUnicodeCodePoint 3 := by decide +kernel
example : ioObs (Model.ReadIo.parseStr (IoPos.at [0x22, 0xff, 0x22] 1 false)) = .err .InvalidUnicodeCodePoint 3 := by
  decide +kernel
/-- `&str`: the unchecked closure passes `\xff` through (such input cannot be a `&str`): the hypothesis of
    `c09_strread_slice` is needed -/
example : sliceObs (Model.ReadSlice.strParseStr ⟨[0x22, 0xff, 0x22], 1⟩) = .ok [0xff] 3 := by decide +kernel
/-- `ignore_str`: a lone surrogate and invalid UTF-8 pass, a bad escape does not -/
example : sliceObsU (Model.ReadSlice.ignoreStr ⟨[0x22, 0x5c, 0x75, 0x64, 0x38, 0x33, 0x64, 0xff, 0x22], 1⟩) = .ok [] 9 := by
  decide +kernel
example : ioObsU (Model.ReadIo.ignoreStr (IoPos.at [0x22, 0x5c, 0x75, 0x64, 0x38, 0x33, 0x64, 0xff, 0x22] 1 false)) = .ok [] 9 := by
  decide +kernel
example : ioObsU (Model.ReadIo.ignoreStr (IoPos.at [0x22, 0x5c, 0x71, 0x22] 1 false)) = .err .InvalidEscape 3 := by
  decide +kernel
/-- a literal longer than one SWAR chunk, stopped in the second chunk -/
example : Model.ReadSlice.parseStr ⟨[0x22, 0x61, 0x62, 0x63, 0x64, 0x65, 0x66, 0x67, 0x68, 0x69, 0x6a, 0x6b, 0x22, 0x20], 1⟩ =
    .ok (.borrowed [0x61, 0x62, 0x63, 0x64, 0x65, 0x66, 0x67, 0x68, 0x69, 0x6a, 0x6b])
      ⟨[0x22, 0x61, 0x62, 0x63, 0x64, 0x65, 0x66, 0x67, 0x68, 0x69, 0x6a, 0x6b, 0x22, 0x20], 13⟩ := by decide +kernel

end SJ.Props.C09

namespace SJ.Props.C05
open SJ SJ.Gen SJ.Model.ReadEscape SJ.Proofs.ReadTop
open SJ.Model.ReadSlice (Reference SliceRead)

/-- **C05 (borrowed `&str`).** When `SliceRead::parse_str` (hence `from_slice` / `from_str` into `&str`,
    `Cow<str>`, borrowed keys) succeeds from index `i`, the input from `i` on is `body ++ '"' :: rest` with the
    reader left right behind that quote, and the result is `Reference::Borrowed` — a subslice of the input, no
    copy — EXACTLY when `body` holds no backslash escape; the borrowed bytes then are `body`, i.e.
    `bs[i .. end-1]`, the bytes between the quotes. (With an escape the result is `Reference::Copied(scratch)`;
    `<&str>::deserialize` then fails with `invalid type`, which is how the harness observes borrowed-ness.) -/
theorem c05_borrowed (bs : Bytes) (i : Nat) (hi : i ≤ bs.length) (ref : Reference) (r' : SliceRead)
    (h : Model.ReadSlice.parseStr ⟨bs, i⟩ = .ok ref r') :
    ∃ body, bs.drop i = body ++ 0x22 :: bs.drop r'.index ∧ r' = ⟨bs, i + body.length + 1⟩ ∧
      (ref.isBorrowed = true ↔ (0x5c : UInt8) ∉ body) ∧ (ref.isBorrowed = true → ref.bytes = body) :=
  slice_borrowed bs i hi ref r' h

/-- the subslice reading: `body = bs[i .. end-1]` -/
theorem c05_borrowed_subslice (bs : Bytes) (i : Nat) (hi : i ≤ bs.length) (b : Bytes) (r' : SliceRead)
    (h : Model.ReadSlice.parseStr ⟨bs, i⟩ = .ok (.borrowed b) r') :
    b = Model.ReadSlice.sub bs i (r'.index - 1) ∧ i < r'.index ∧ r'.index ≤ bs.length := by
  obtain ⟨body, hx, rfl, _, hb⟩ := c05_borrowed bs i hi _ r' h
  have hb' : b = body := hb rfl
  subst hb'
  have hlen : i + b.length + 1 ≤ bs.length := by
    have := congrArg List.length hx; simp at this; omega
  refine ⟨?_, by simp; omega, hlen⟩
  unfold Model.ReadSlice.sub
  simp only [Nat.add_sub_cancel]
  rw [List.drop_take, hx]; simp

/-- non-vacuity: `"abc"` is borrowed, `"a\nb"` (escape) is copied, a raw multi-byte character is borrowed -/
def exAbc : Bytes := [0x22, 0x61, 0x62, 0x63, 0x22]
def exNl : Bytes := [0x22, 0x61, 0x5c, 0x6e, 0x62, 0x22]
def exEacute : Bytes := [0x20, 0x22, 0xc3, 0xa9, 0x22]
example : Model.ReadSlice.parseStr ⟨exAbc, 1⟩ = .ok (.borrowed [0x61, 0x62, 0x63]) ⟨exAbc, 5⟩ := by decide +kernel
example : Model.ReadSlice.parseStr ⟨exNl, 1⟩ = .ok (.copied [0x61, 0x0a, 0x62]) ⟨exNl, 6⟩ := by decide +kernel
example : Model.ReadSlice.parseStr ⟨exEacute, 2⟩ = .ok (.borrowed [0xc3, 0xa9]) ⟨exEacute, 5⟩ := by decide +kernel
example : [0xc3, 0xa9] = Model.ReadSlice.sub exEacute 2 (5 - 1) :=
  (c05_borrowed_subslice exEacute 2 (by decide) _ ⟨exEacute, 5⟩ (by decide +kernel)).1

end SJ.Props.C05
