import SJ.Props.C04Ap
import SJ.Props.C01Rv
import SJ.Proofs.MachineRvCst
/-!
# C04 under `raw_value`, for the faithful parser model

`c04_value` (Props/C04.lean) is the round trip through `Model.Machine`. The crate — and `Model.MachineRv` — reads an object
whose first key is the private RawValue token by re-parsing the string it holds, so a `Value` holding such an object does not
come back (open finding `C04-rv-private-rawvalue-token`). `c04_rv_value` is the round trip through the FAITHFUL model for
every well-formed `Value` without such an object (`Spec.PrivateTokenRv.valueRawTokenFree`, a decidable predicate on the
value; under `arbitrary_precision` also without a Number-token object, `valueTokenFree`): the text `to_string` writes is a
JSON text whose syntax tree has no raw-token first key (`rawTokenFree_cstOf`), the raw scan has no hit on it
(`rawscan_of_rawTokenFree`), so the faithful model is the machine there (`c01_rv_conservative_machine`).
`c04_rv_token_not_identity`: the excluded values really do not round-trip.
-/
namespace SJ.Props.C04Rv
open SJ SJ.Spec.Grammar SJ.Spec.Image SJ.Spec.WF SJ.Model.Ser SJ.Model.Machine SJ.Props.C04
open SJ.Spec.PrivateToken (valueTokenFree hasTokenFirstKey)
open SJ.Spec.PrivateTokenRv (valueRawTokenFree valuesRawTokenFree membersRawTokenFree rawTokenFree rawTokenFreeList
  rawTokenFreeMembers firstKeyIsRawToken isRawTokenKey hasRawTokenFirstKey)
open SJ.Model.MachineRv (REnv)

theorem isRawTokenKey_strItems (k : Bytes) : isRawTokenKey (strItems k) = (k == SJ.Spec.PrivateTokenRv.token) := by
  unfold isRawTokenKey
  rw [SJ.Proofs.SerEscape.decode_strItems]
  cases h : (k == SJ.Spec.PrivateTokenRv.token) <;> simp_all

mutual
theorem rawTokenFree_cstOf (ext : Ext) : ∀ v : JV, valueRawTokenFree v = true → rawTokenFree (cstOf (imageOfValue ext v)) = true
  | .null, _ => rfl
  | .bool true, _ => rfl
  | .bool false, _ => rfl
  | .num (.pos _), _ => rfl
  | .num (.neg _), _ => rfl
  | .num (.float b), _ => by
    simp only [imageOfValue]
    split <;> rfl
  | .num (.lit _), _ => rfl
  | .str _, _ => rfl
  | .arr xs, h => by
    simp only [valueRawTokenFree] at h
    simp only [imageOfValue, cstOf, rawTokenFree]
    exact rawTokenFree_cstOfList ext xs h
  | .obj kvs, h => by
    simp only [valueRawTokenFree, Bool.and_eq_true] at h
    simp only [imageOfValue, cstOf, rawTokenFree, Bool.and_eq_true, Bool.not_eq_true']
    refine ⟨?_, rawTokenFree_cstOfMembers ext kvs h.2⟩
    cases kvs with
    | nil => rfl
    | cons kv rest =>
      obtain ⟨k, x⟩ := kv
      have hk := h.1
      simp only [bne_iff_ne, ne_eq] at hk
      simp only [imageOfMembers, cstOfMembers, firstKeyIsRawToken, isRawTokenKey_strItems]
      simpa using hk
theorem rawTokenFree_cstOfList (ext : Ext) : ∀ xs : List JV, valuesRawTokenFree xs = true →
    rawTokenFreeList (cstOfList (imageOfValues ext xs)) = true
  | [], _ => rfl
  | x :: xs, h => by
    simp only [valuesRawTokenFree, Bool.and_eq_true] at h
    simp only [imageOfValues, cstOfList, rawTokenFreeList, Bool.and_eq_true]
    exact ⟨rawTokenFree_cstOf ext x h.1, rawTokenFree_cstOfList ext xs h.2⟩
theorem rawTokenFree_cstOfMembers (ext : Ext) : ∀ kvs : List (Bytes × JV), membersRawTokenFree kvs = true →
    rawTokenFreeMembers (cstOfMembers (imageOfMembers ext kvs)) = true
  | [], _ => rfl
  | (k, x) :: kvs, h => by
    simp only [membersRawTokenFree, Bool.and_eq_true] at h
    simp only [imageOfMembers, cstOfMembers, rawTokenFreeMembers, Bool.and_eq_true]
    exact ⟨rawTokenFree_cstOf ext x h.1, rawTokenFree_cstOfMembers ext kvs h.2⟩
end

/-- any spelling of the printed tree of a value without token objects that the machine reads back as `v` is read back as `v`
    by the faithful model, whatever the `raw_value` flag -/
theorem c04_rv_reads_back (cfg : Cfg) (rv : Bool) (src : Src) (ext : Ext) (v : JV) (hrf : valueRawTokenFree v = true)
    (htf : cfg.ap = false ∨ valueTokenFree v = true) (bs : Bytes) (hd : Derives bs (cstOf (imageOfValue ext v)))
    (hm : parseTop ⟨cfg, src, .value⟩ bs = .ok v) :
    Model.MachineRv.parseTop ⟨⟨cfg, src, .value⟩, rv⟩ bs = .ok v := by
  have hjt : JsonText bs (cstOf (imageOfValue ext v)) := ⟨[], bs, [], by simp, by decide, by decide, hd⟩
  have hraw : hasRawTokenFirstKey bs = false :=
    SJ.Proofs.MachineRv.rawscan_of_rawTokenFree bs _ hjt (rawTokenFree_cstOf ext v hrf)
  have heq : Model.MachineRv.parseTop ⟨⟨cfg, src, .value⟩, rv⟩ bs =
      Model.MachineRv.ofAp (Model.MachineAp.ofMachine (parseTop ⟨cfg, src, .value⟩ bs)) := by
    rcases htf with hap | htf
    · exact SJ.Props.C01Rv.c01_rv_conservative_machine_noap ⟨⟨cfg, src, .value⟩, rv⟩ hap bs hraw
    · exact SJ.Props.C01Rv.c01_rv_conservative_machine ⟨⟨cfg, src, .value⟩, rv⟩ bs hraw
        (SJ.Proofs.MachineAp.scan_of_tokenFree bs _ hjt (SJ.Props.C04Ap.tokenFree_cstOf ext v htf))
  rw [heq, hm]; rfl

/-- **C04 under `raw_value`, faithful model**: every well-formed `Value` in which no object has the private RawValue token
    as its first key (nor, under `arbitrary_precision`, the private Number token), and whose floats the printer / parser
    pair returns (`FloatsRoundTrip`: exactly the hypothesis of `c04_value`; vacuous under `arbitrary_precision`, discharged
    by `c04_value_fr` under `float_roundtrip`), is written (compact, and pretty with any whitespace indent) to a text that the
    parser model WITH the token readings reads back as exactly that value, from every source. -/
theorem c04_rv_value (cfg : Cfg) (rv : Bool) (src : Src) (ext : Ext) (hext : ExtOK ext) (v : JV)
    (hwf : WFValue cfg v) (hfl : FloatsRoundTrip cfg ext v) (hrf : valueRawTokenFree v = true)
    (htf : cfg.ap = false ∨ valueTokenFree v = true) :
    (∃ bufs, serCompact ext (ofValue v) = .ok bufs ∧
      Model.MachineRv.parseTop ⟨⟨cfg, src, .value⟩, rv⟩ bufs.flatten = .ok v) ∧
    (∀ indent, Ws indent → ∃ bufs, serPretty ext indent (ofValue v) = .ok bufs ∧
      Model.MachineRv.parseTop ⟨⟨cfg, src, .value⟩, rv⟩ bufs.flatten = .ok v) := by
  have hl : valueLitsOK v = true := by
    simp only [WFValue, wfValue, Bool.and_eq_true] at hwf
    exact SJ.Proofs.RoundTrip.valueLitsOK_of_shapeOK _ v hwf.1
  obtain ⟨hcw, hpw⟩ := c04_written_text ext hext v hl
  constructor
  · obtain ⟨bufs, hs, hd⟩ := hcw
    exact ⟨bufs, hs, c04_rv_reads_back cfg rv src ext v hrf htf _ hd (c04_reads_back cfg src ext hext v hwf hfl _ hd)⟩
  · intro indent hws
    obtain ⟨bufs, hs, hd⟩ := hpw indent hws
    exact ⟨bufs, hs, c04_rv_reads_back cfg rv src ext v hrf htf _ hd (c04_reads_back cfg src ext hext v hwf hfl _ hd)⟩

/-- non-vacuity: `{"a":["x"],"$serde_json::private::RawValue":"tru"}` under `preserve_order`: the raw token is the second key -/
def exTok : JV := .obj [([0x61], .arr [.str [0x78]]), (Gen.rawToken, .str [0x74, 0x72, 0x75])]

example : WFValue { po := true } exTok ∧ valueRawTokenFree exTok = true ∧ FloatsRoundTrip { po := true } ext0 exTok := by decide

example : ∃ bufs, serCompact ext0 (ofValue exTok) = .ok bufs ∧
    Model.MachineRv.parseTop ⟨⟨{ po := true }, .reader, .value⟩, true⟩ bufs.flatten = .ok exTok :=
  (c04_rv_value { po := true } true .reader ext0 ext0_ok exTok (by decide) (by decide) (by decide) (.inl rfl)).1

/-- **the excluded values do not round-trip** (open finding `C04-rv-private-rawvalue-token`, on the model): the well-formed
    one-member object `{"$serde_json::private::RawValue":"[1]"}` is written as that text and read back as the ARRAY `[1]`;
    with the string `"x"` the text is rejected (`expected value` at line 1 column 1 of `x`, as a `Data` error); and a value
    that DOES come back — `{"$…RawValue":"{\"$…RawValue\":\"…\"}"}` never does, but the quine-like
    `{"$…RawValue":"null"}` comes back as `null` -/
theorem c04_rv_token_not_identity :
    WFValue {} (.obj [(Gen.rawToken, .str [0x5b, 0x31, 0x5d])]) ∧
    (∃ bufs, serCompact ext0 (ofValue (.obj [(Gen.rawToken, .str [0x5b, 0x31, 0x5d])])) = .ok bufs ∧
      (Model.MachineRv.parseTop ⟨⟨{}, .str, .value⟩, true⟩ bufs.flatten).isOk (.arr [.num (.pos 1)]) = true) ∧
    (∃ bufs, serCompact ext0 (ofValue (.obj [(Gen.rawToken, .str [0x78])])) = .ok bufs ∧
      (Model.MachineRv.parseTop ⟨⟨{}, .str, .value⟩, true⟩ bufs.flatten).isCustom (.code .ExpectedSomeValue) 1 1 = true) ∧
    (∃ bufs, serCompact ext0 (ofValue (.obj [(Gen.rawToken, .str [0x6e, 0x75, 0x6c, 0x6c])])) = .ok bufs ∧
      (Model.MachineRv.parseTop ⟨⟨{}, .str, .value⟩, true⟩ bufs.flatten).isOk .null = true) := by
  refine ⟨by decide, ⟨_, rfl, by decide +kernel⟩, ⟨_, rfl, by decide +kernel⟩, ⟨_, rfl, by decide +kernel⟩⟩

end SJ.Props.C04Rv
