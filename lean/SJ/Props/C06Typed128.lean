import SJ.Props.C06
import SJ.Props.C06Via
import SJ.Proofs.RoundTripWF
/-!
# C06 — the 128-bit typed targets on the TRANSCRIBED code

`c06_typed` (Props/C06.lean) is a theorem about `Model.TypedInt.deIntText`, whose 128-bit branch is written as the
specification (digits, sign, range) — true by construction. The code itself (`do_deserialize_i128` / `do_deserialize_u128`:
`scan_integer128` + `str::parse`, then `end()`) is `Model.Typed.deInt128` inside `Model.Typed.deTypedTop`; its text path is
`Model.ViaValue.textInt`. `c06_typed_128` ties the two: on every number literal, `from_str::<i128 / u128>` as transcribed
returns what `deIntText` (and the specification `specInt`) say — so `c06_typed` for 128 bits is a statement about the
transcription. `c06_typed_text` is the same for all ten widths.

(`SJ.IntTy`, the typed universe's widths, and `SJ.Model.TypedInt.IntTy` are two enumerations with the same constructors:
`tyOf`.)
-/
namespace SJ.Props.C06
open SJ SJ.Model SJ.Model.ViaValue SJ.Spec.NumberAcc
open SJ.Spec.Grammar (NumParts)
open SJ.Spec.Canon (partsOf)
open SJ.Proofs.NumLinkParser (litOf)

/-- the same width in the two enumerations -/
def tyOf : SJ.IntTy → Model.TypedInt.IntTy
  | .i8 => .i8 | .i16 => .i16 | .i32 => .i32 | .i64 => .i64 | .i128 => .i128
  | .u8 => .u8 | .u16 => .u16 | .u32 => .u32 | .u64 => .u64 | .u128 => .u128

theorem inRange_tyOf (w : SJ.IntTy) (x : Int) : Model.TypedInt.inRange (tyOf w) x = w.inRange x := by
  cases w <;>
    simp only [tyOf, Model.TypedInt.inRange, Model.TypedInt.IntTy.lo, Model.TypedInt.IntTy.hi, SJ.IntTy.inRange, SJ.IntTy.lo,
      SJ.IntTy.hi, SJ.IntTy.signed, SJ.IntTy.bits] <;> rfl

theorem is128_tyOf (w : SJ.IntTy) : (tyOf w).is128 = !decide (w.bits ≤ 64) := by cases w <;> rfl
theorem u128_tyOf (w : SJ.IntTy) : (tyOf w = .u128) ↔ w = .u128 := by cases w <;> simp [tyOf]

theorem floaty_partsOf (p : NumParts) :
    ((partsOf p).frac.isSome || (partsOf p).exp.isSome) = !(p.frac.isEmpty && p.exp.isEmpty) := by
  unfold partsOf
  cases hfr : p.frac with
  | cons c ds => simp
  | nil =>
    cases hex : p.exp with
    | nil => simp
    | cons c r =>
      simp only [List.isEmpty_nil, if_true, Option.isSome_none, Bool.false_or, List.isEmpty_cons, Bool.and_false, Bool.not_false]
      cases r with
      | nil => rfl
      | cons s ds => simp only; split <;> [rfl; (split <;> rfl)]

/-- the two verdicts on an integer literal, as functions of width, sign and magnitude -/
def verdictModel (w : SJ.IntTy) (m : Bool) (n : Nat) : Option Int :=
  let x : Int := if m then -(n : Int) else n
  if !(tyOf w).is128 && m && (n : Int) == 0 then none
  else if tyOf w = .u128 && m then none
  else if Model.TypedInt.inRange (tyOf w) x then some x else none

def verdictSpec (w : SJ.IntTy) (m : Bool) (n : Nat) : Option Int :=
  if w.bits ≤ 64 && (m && n == 0) then none
  else if m && !w.signed then none
  else if w.inRange (if m then -(n : Int) else (n : Int)) then some (if m then -(n : Int) else (n : Int)) else none

theorem verdict_eq (w : SJ.IntTy) (m : Bool) (n : Nat) : verdictModel w m n = verdictSpec w m n := by
  unfold verdictModel verdictSpec
  simp only [inRange_tyOf, is128_tyOf, Bool.not_not]
  cases m with
  | false => cases w <;> simp [tyOf]
  | true =>
    by_cases hz : n = 0
    · subst hz
      cases w <;> simp [tyOf, SJ.IntTy.bits, SJ.IntTy.signed, SJ.IntTy.inRange, SJ.IntTy.lo, SJ.IntTy.hi]
    · have hz' : ((n : Int) == 0) = false := by
        simp only [beq_eq_false_iff_ne, ne_eq]; omega
      have hz'' : (n == 0) = false := by simpa using hz
      have hpos : (0 : Int) < (n : Int) := by omega
      cases w <;> simp [tyOf, hz', hz'', SJ.IntTy.bits, SJ.IntTy.signed, SJ.IntTy.inRange, SJ.IntTy.lo, SJ.IntTy.hi] <;> omega

/-- the specification of `Model.TypedInt` and the statement-level verdict `Spec.NumberAcc.targetInt` are the same function of
    the literal, for every width -/
theorem specInt_eq_targetInt (w : SJ.IntTy) (p : NumParts) (hwf : p.WF = true) :
    Model.TypedInt.specInt (tyOf w) (partsOf p) = targetInt w (litOf p) := by
  have hint := SJ.Proofs.NumberAp.isIntLit_litOf p hwf
  cases hi : (p.frac.isEmpty && p.exp.isEmpty) with
  | false =>
    have h1 : Model.TypedInt.specInt (tyOf w) (partsOf p) = none := by
      unfold Model.TypedInt.specInt; rw [floaty_partsOf, hi]; rfl
    have h2 : targetInt w (litOf p) = none := by
      unfold targetInt accInt isNegZero; rw [hint, hi]; simp
    rw [h1, h2]
  | true =>
    have h1 : Model.TypedInt.specInt (tyOf w) (partsOf p) = verdictModel w p.minus (Model.Num.natOfDigits p.int) := by
      unfold Model.TypedInt.specInt; rw [floaty_partsOf, hi]; rfl
    have h2 : targetInt w (litOf p) = verdictSpec w p.minus (Model.Num.natOfDigits p.int) := by
      unfold targetInt accInt isNegZero intVal; rw [hint, hi]; rfl
    rw [h1, h2, verdict_eq]

/-- digits of a well-formed literal's integer part -/
theorem isDigits_partsOf (p : NumParts) (hwf : p.WF = true) : SJ.Proofs.NumInt.IsDigits (partsOf p).int :=
  SJ.Proofs.RoundTripWF.isDigits_int p hwf

/-- **C06 (typed targets, every width, on the transcribed code).** For every number literal `p` of the RFC 8259 grammar,
    every integer width `w`, every source and configuration: `from_str::<w>(literal)` as transcribed
    (`Model.Typed.deTypedTop` → `deInt` → `deNumber` / `deInt128`, then `end()`; projected by `Model.ViaValue.textInt`) returns
    exactly what `Model.TypedInt.deIntText` returns on the literal's parts, which is the specification `specInt`
    (`c06_typed`): the mathematical value when the literal has no fraction / exponent, is not `-0` (8–64 bits) and is in
    range; nothing otherwise. -/
theorem c06_typed_text (cfg : Machine.Cfg) (src : Machine.Src) (w : SJ.IntTy) (p : NumParts) (hwf : p.WF = true) :
    textInt cfg src w p.bytes = Model.TypedInt.deIntText cfg.fr (tyOf w) (partsOf p) ∧
    textInt cfg src w p.bytes = Model.TypedInt.specInt (tyOf w) (partsOf p) := by
  have h := SJ.Proofs.ViaValue.textInt_lit cfg src w p hwf
  have hs := specInt_eq_targetInt w p hwf
  have ht := c06_typed cfg.fr (tyOf w) (partsOf p) (isDigits_partsOf p hwf)
  exact ⟨by rw [ht, hs, h], by rw [hs, h]⟩

/-- **C06 (the 128-bit targets).** `do_deserialize_i128` / `do_deserialize_u128` as transcribed (`Model.Typed.deInt128`:
    optional `-` — refused outright by `u128` —, `scan_integer128`, `str::parse`, and the caller's `end()`), on a number
    literal standing alone (`textInt` = `Model.Typed.deTypedTop … (.int w)` projected to the integer): the result is the literal's mathematical value exactly when the literal is an integer literal
    (no fraction, no exponent; `-0` IS accepted here, as `0`) within `[i128::MIN, i128::MAX]` resp. `[0, u128::MAX]` with no
    minus sign, and a failure otherwise — `deIntText`'s 128-bit branch (which is written as this specification) describes
    the transcription. In context (any follower that does not continue the number): `SJ.Proofs.ViaValue.deInt_lit`. -/
theorem c06_typed_128 (cfg : Machine.Cfg) (src : Machine.Src) (w : SJ.IntTy) (h128 : w = .i128 ∨ w = .u128) (p : NumParts)
    (hwf : p.WF = true) :
    textInt cfg src w p.bytes =
    (if (p.frac.isEmpty && p.exp.isEmpty) = false then none
     else if w = .u128 && p.minus then none
     else
       let x : Int := if p.minus then -(Model.Num.natOfDigits p.int : Int) else Model.Num.natOfDigits p.int
       if w.inRange x then some x else none) ∧
    Model.Typed.deInt { cfg := cfg, src := src } w = Model.Typed.deInt128 { cfg := cfg, src := src } w := by
  refine ⟨?_, ?_⟩
  · have h := (c06_typed_text cfg src w p hwf).2
    rw [h]
    unfold Model.TypedInt.specInt
    rw [floaty_partsOf]
    have e128 : (tyOf w).is128 = true := by rcases h128 with rfl | rfl <;> rfl
    cases hi : (p.frac.isEmpty && p.exp.isEmpty) with
    | false => rfl
    | true =>
      simp only [Bool.not_true, Bool.false_eq_true, if_false, e128, Bool.false_and, inRange_tyOf]
      have hu : (decide (tyOf w = .u128)) = (w == .u128) := by rcases h128 with rfl | rfl <;> rfl
      show (if (decide (tyOf w = .u128) && (partsOf p).neg) = true then none else _) = _
      rw [hu]
      rfl
  · funext rest pos
    unfold Model.Typed.deInt
    have : Model.Typed.is128 w = true := by rcases h128 with rfl | rfl <;> rfl
    rw [this]; rfl

/-! non-vacuity: `i128::MAX`, `i128::MAX + 1`, `u128::MAX`, `-0` and `-1` as `u128`, `1.0` / `1e2` as `i128` -/
example : textInt {} .slice .i128 [0x31,0x37,0x30,0x31,0x34,0x31,0x31,0x38,0x33,0x34,0x36,0x30,0x34,0x36,0x39,0x32,0x33,0x31,0x37,0x33,
      0x31,0x36,0x38,0x37,0x33,0x30,0x33,0x37,0x31,0x35,0x38,0x38,0x34,0x31,0x30,0x35,0x37,0x32,0x37] =
      some 170141183460469231731687303715884105727 ∧
    textInt {} .slice .i128 [0x31,0x37,0x30,0x31,0x34,0x31,0x31,0x38,0x33,0x34,0x36,0x30,0x34,0x36,0x39,0x32,0x33,0x31,0x37,0x33,
      0x31,0x36,0x38,0x37,0x33,0x30,0x33,0x37,0x31,0x35,0x38,0x38,0x34,0x31,0x30,0x35,0x37,0x32,0x38] = none ∧
    textInt {} .reader .u128 [0x33,0x34,0x30,0x32,0x38,0x32,0x33,0x36,0x36,0x39,0x32,0x30,0x39,0x33,0x38,0x34,0x36,0x33,0x34,0x36,
      0x33,0x33,0x37,0x34,0x36,0x30,0x37,0x34,0x33,0x31,0x37,0x36,0x38,0x32,0x31,0x31,0x34,0x35,0x35] =
      some 340282366920938463463374607431768211455 ∧
    textInt {} .str .i128 [0x2d, 0x30] = some 0 ∧ textInt {} .str .u128 [0x2d, 0x30] = none ∧
    textInt {} .str .u128 [0x2d, 0x31] = none ∧
    textInt {} .str .i128 [0x31, 0x2e, 0x30] = none ∧ textInt {} .str .i128 [0x31, 0x65, 0x32] = none ∧
    textInt {} .str .i64 [0x2d, 0x30] = none := by decide +kernel

end SJ.Props.C06
