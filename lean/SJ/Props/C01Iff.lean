import SJ.Props.C01
import SJ.Props.C02
import SJ.Props.C02Map
/-!
# C01 / C02 / C19 — the two halves combined

`c01_accepts_iff`: the parser model accepts exactly the RFC 8259 language with the side conditions
of the statement. `c02_value_is_canon`: and returns the value the text denotes, as spelled out by
`Spec.Canon.canon` (declarative objects: one entry per distinct key, last duplicate wins, sorted or
first-occurrence order). `c19_skip_language`: the scanner of skipped content accepts exactly the
grammar, without side conditions.
-/
namespace SJ.Props.C01Iff
open SJ SJ.Gen SJ.Model.Machine SJ.Spec.Grammar SJ.Proofs.CanonM

/-- **C01.** For every configuration and input source and every byte string: parsing into `Value`
    succeeds iff the bytes are exactly one RFC 8259 JSON text (optionally surrounded by JSON
    whitespace) that nests at most 127 deep (unless the limit is disabled), pairs every surrogate
    escape, decodes to valid UTF-8 (checked for byte sources; guaranteed for `&str`) and keeps
    every number within finite f64 range (vacuous under arbitrary_precision). -/
theorem c01_accepts_iff (env : Env) (henv : env.tgt = .value) (bs : Bytes) :
    (∃ v, parseTop env bs = .ok v) ↔
    ∃ t, JsonText bs t ∧ (env.cfg.limitOff = true ∨ depth t ≤ 127) ∧ surrogatesPaired t = true ∧
      (env.src ≠ .str → Spec.Canon.stringsUtf8 t = true) ∧
      Spec.Canon.numbersInRange (specCfg env.cfg) t = true := by
  constructor
  · rintro ⟨v, h⟩
    obtain ⟨t, h1, _, h3, h4, h5, h6⟩ := SJ.Props.C02.c02_denotes env henv bs v h
    exact ⟨t, h1, h3, h4, h5, h6⟩
  · rintro ⟨t, h1, h3, h4, h5, h6⟩
    obtain ⟨v, hv, _⟩ := SJ.Props.C01.c01_complete_value env henv bs t h1 h3 h4 h5 h6
    exact ⟨v, hv⟩

/-- **C02.** Whenever parsing into `Value` succeeds, the value is the denotation `canon` of a
    syntax tree of the text. -/
theorem c02_value_is_canon (env : Env) (henv : env.tgt = .value) (bs : Bytes) (v : JV)
    (h : parseTop env bs = .ok v) :
    ∃ t, JsonText bs t ∧ Spec.Canon.canon (specCfg env.cfg) t = some v := by
  obtain ⟨t, h1, h2, _⟩ := SJ.Props.C02.c02_denotes env henv bs v h
  exact ⟨t, h1, by rw [← SJ.Props.C02Map.c02_canonM_eq_canon]; exact h2⟩

/-- **C19 (scanner language).** Skipped content (`IgnoredAny`, unknown fields, the scanner under
    `RawValue`) is accepted iff it is exactly one RFC 8259 JSON text — no depth, surrogate, UTF-8 or
    range conditions. -/
theorem c19_skip_language (env : Env) (henv : env.tgt = .ignored) (bs : Bytes) :
    (∃ v, parseTop env bs = .ok v) ↔ ∃ t, JsonText bs t := by
  constructor
  · rintro ⟨v, h⟩; exact SJ.Props.C02.c19_skip_sound env henv bs v h
  · rintro ⟨t, h⟩; exact ⟨.null, SJ.Props.C01.c01_complete_ignored env henv bs t h⟩

end SJ.Props.C01Iff
