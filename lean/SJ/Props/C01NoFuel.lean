import SJ.Props.C01Iff
import SJ.Props.C14
import SJ.Proofs.RangeLit
/-!
# C01 — the range clause never speaks about fuel

`c01_accepts_iff` states "keeps every number within finite f64 range" as `Spec.Canon.numbersInRange`, i.e.
`(Spec.Canon.numOf cfg p).isSome` per number node, and `numOf` answers `none` on *two* outcomes of the configured
conversion (`Model.Num.NRes`): the genuine `outOfRange` (`de.rs` `f64_from_parts` / `parse_exponent_overflow`:
`ErrorCode::NumberOutOfRange`) and the model's bookkeeping outcome `outOfFuel` (the explicit fuel of the transcribed
`f64_from_parts` loop, which `numValue` would also report as `NumberOutOfRange`). The second is excluded by
`c14_no_fuel_literal` / `c14_no_fuel_roundtrip` (C14; `c08p_link` for the default conversion). Here that exclusion
is made a corollary of C01 itself: on every grammatical literal `numOf cfg p = none` means `outOfRange`, and
`c01_accepts_iff` is restated with a range clause in which `outOfFuel` does not occur.

No size bound is needed: `c14_no_fuel` holds for every well-formed literal (the fuel `|exponent| / 308 + 3` is
computed from the exponent, whatever its length).
-/
namespace SJ.Props.C01NoFuel
open SJ SJ.Gen SJ.Model.Machine SJ.Spec.Grammar SJ.Proofs.CanonM
open SJ.Spec.Range (allNums)
open SJ.Proofs.RangeLit

/-- **C01 (range clause, no fuel).** For every configuration and every grammatical number literal `p`
    (`p.WF`: what `Derives` puts into a `.num` node): the configured conversion (`Spec.Canon.convert` =
    `Model.Num.convertRoundtrip` under `float_roundtrip`, else `Model.Num.convertDefault`, on the scanner's parts) is
    never `outOfFuel`, and the clause of `c01_accepts_iff` fails on `p` (`numOf cfg p = none`) exactly when
    `arbitrary_precision` is off and the conversion returns the genuine `outOfRange`. -/
theorem c01_range_clause_no_fuel (cfg : Spec.Canon.Cfg) (p : NumParts) (hwf : p.WF = true) :
    Spec.Canon.convert cfg p ≠ .outOfFuel ∧
    (Spec.Canon.numOf cfg p = none ↔ cfg.ap = false ∧ Spec.Canon.convert cfg p = .outOfRange) := by
  have hnf : Spec.Canon.convert cfg p ≠ .outOfFuel := by
    unfold Spec.Canon.convert
    split
    · exact SJ.Props.C14.c14_no_fuel_roundtrip _
    · exact SJ.Props.C14.c14_no_fuel_literal p hwf
  refine ⟨hnf, ?_⟩
  unfold Spec.Canon.numOf
  cases hap : cfg.ap with
  | true => simp
  | false =>
    simp only [Bool.false_eq_true, if_false, true_and]
    cases hc : Spec.Canon.convert cfg p with
    | u64 n => simp
    | i64 n => simp
    | f64 b => simp
    | outOfRange => simp
    | outOfFuel => exact absurd hc hnf

/-- the same, as the positive clause: the conversion answers on `p` iff it does not say `outOfRange` -/
theorem c01_range_clause_isSome (cfg : Spec.Canon.Cfg) (p : NumParts) (hwf : p.WF = true) :
    (Spec.Canon.numOf cfg p).isSome = true ↔ (cfg.ap = false → Spec.Canon.convert cfg p ≠ .outOfRange) := by
  have h := (c01_range_clause_no_fuel cfg p hwf).2
  rw [Option.isSome_iff_ne_none]
  constructor
  · intro hs hap hc; exact hs (h.2 ⟨hap, hc⟩)
  · intro hs hn; exact hs (h.1 hn).1 (h.1 hn).2

/-- non-vacuity: `1e400` in the default build and under `float_roundtrip` — the literal is grammatical, the clause
    fails (`numOf = none`), and the conversion's outcome is `outOfRange` (`DecidableEq NRes`), not `outOfFuel`;
    `1e308` is the control (a float); under `arbitrary_precision` `1e400` is kept as text -/
example :
    (⟨false, [0x31], [], [0x65, 0x34, 0x30, 0x30]⟩ : NumParts).WF = true ∧
    (Spec.Canon.numOf {} ⟨false, [0x31], [], [0x65, 0x34, 0x30, 0x30]⟩).isNone = true ∧
    (Spec.Canon.convert {} ⟨false, [0x31], [], [0x65, 0x34, 0x30, 0x30]⟩ == .outOfRange) = true ∧
    (Spec.Canon.numOf { fr := true } ⟨false, [0x31], [], [0x65, 0x34, 0x30, 0x30]⟩).isNone = true ∧
    (Spec.Canon.convert { fr := true } ⟨false, [0x31], [], [0x65, 0x34, 0x30, 0x30]⟩ == .outOfRange) = true ∧
    (Spec.Canon.convert {} ⟨false, [0x31], [], [0x65, 0x33, 0x30, 0x38]⟩ == .f64 0x7fe1ccf385ebc8a0) = true ∧
    (Spec.Canon.numOf { ap := true } ⟨false, [0x31], [], [0x65, 0x34, 0x30, 0x30]⟩).isSome = true := by
  refine ⟨by decide +kernel, by decide +kernel, by decide +kernel, by decide +kernel, by decide +kernel,
    by decide +kernel, by decide +kernel⟩

/-- **C01, with the range clause free of fuel.** `c01_accepts_iff` with "keeps every number within finite f64 range"
    spelled out per literal: unless `arbitrary_precision` is on, the configured conversion of every number literal of
    the tree does not return `outOfRange`. The outcome `outOfFuel` does not occur in the statement; that it cannot
    hide behind `numbersInRange` is `c01_range_clause_no_fuel` (every literal of a JSON text is grammatical:
    `Proofs.RangeLit.nums_of_jsonText`). The clause is still the *model's* conversion; its relation to the exact value
    is `Props/C01Range.lean`. -/
theorem c01_accepts_iff_no_fuel (env : Env) (henv : env.tgt = .value) (bs : Bytes) :
    (∃ v, parseTop env bs = .ok v) ↔
    ∃ t, JsonText bs t ∧ (env.cfg.limitOff = true ∨ depth t ≤ 127) ∧ surrogatesPaired t = true ∧
      (env.src ≠ .str → Spec.Canon.stringsUtf8 t = true) ∧
      allNums (fun p => env.cfg.ap = false → Spec.Canon.convert (specCfg env.cfg) p ≠ .outOfRange) t := by
  rw [SJ.Props.C01Iff.c01_accepts_iff env henv bs]
  have key : ∀ t, JsonText bs t → (Spec.Canon.numbersInRange (specCfg env.cfg) t = true ↔
      allNums (fun p => env.cfg.ap = false → Spec.Canon.convert (specCfg env.cfg) p ≠ .outOfRange) t) := by
    intro t ht
    rw [numbersInRange_iff]
    have hwf := nums_of_jsonText ht
    constructor
    · intro h
      exact allNums_mono (fun p hp => (c01_range_clause_isSome (specCfg env.cfg) p hp.2.1).1 hp.1) t
        (allNums_and t h hwf)
    · intro h
      exact allNums_mono (fun p hp => (c01_range_clause_isSome (specCfg env.cfg) p hp.2.1).2 hp.1) t
        (allNums_and t h hwf)
  constructor
  · rintro ⟨t, h1, h2, h3, h4, h5⟩; exact ⟨t, h1, h2, h3, h4, (key t h1).1 h5⟩
  · rintro ⟨t, h1, h2, h3, h4, h5⟩; exact ⟨t, h1, h2, h3, h4, (key t h1).2 h5⟩

/-- non-vacuity: `[1e400]` from a slice, default build — rejected with `NumberOutOfRange` (index 7: the literal ends at the `]`), the tree's only literal
    converts to `outOfRange`; `[1e308]` is accepted -/
example :
    (parseTop ⟨{}, .slice, .value⟩ [0x5b, 0x31, 0x65, 0x34, 0x30, 0x30, 0x5d]).isErr .NumberOutOfRange 7 = true ∧
    (parseTop ⟨{}, .slice, .value⟩ [0x5b, 0x31, 0x65, 0x33, 0x30, 0x38, 0x5d]).isOk
      (.arr [.num (.float 0x7fe1ccf385ebc8a0)]) = true := by
  refine ⟨by decide +kernel, by decide +kernel⟩

end SJ.Props.C01NoFuel
