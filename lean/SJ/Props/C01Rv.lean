import SJ.Proofs.MachineRvTop
import SJ.Proofs.MachineRvSim
import SJ.Props.C01Ap
/-!
# C01 / C02 under `raw_value`: the private RawValue token, as theorems about the faithful model

`Model.MachineRv` is `Model.MachineAp` (the byte-step machine, plus the Number-token reading under `arbitrary_precision`)
plus the reading `Value`'s visitor applies under `raw_value` to every object whose first key decodes to `raw::TOKEN`
(`"$serde_json::private::RawValue"`): the member's value must be a string, and the DECODED content of that string is parsed as
a complete JSON text by a fresh `from_str` — `&str` source, fresh recursion budget, the same features, hence the same
readings again inside. The crate's deviation from RFC 8259 on such objects (open findings `C01-rv-private-rawvalue-token`,
`C04-rv-…`) is thereby stated, not excluded:

* `c01_rv_recursion` — the model's nested parser IS the model (`parseRv renv bs = run (parseRv renv.inner) renv init 0 bs`):
  the fuel that makes the definition structurally recursive never runs out, because a decoded string is strictly shorter
  than the text it stands in.
* `c01_rv_off`, `c01_rv_conservative`, `c01_rv_conservative_machine` — without the feature, and on every byte string in which no
  string literal directly after a `{` decodes to the raw token (`Spec.PrivateTokenRv.hasRawTokenFirstKey`, a lexical scan),
  `MachineRv` IS `MachineAp`; if moreover no such literal decodes to the Number token (or `arbitrary_precision` is off) it IS
  the machine: every theorem about `Model.Machine.parseTop` (C01, C02, C09–C14) is a theorem about the faithful model there
  (`c01_rv_accepts_iff_tokenfree`, `c02_rv_value_is_canon_tokenfree`).
* `c01_rv_token_object` — the exact reading of such an object at ANY depth: from the state after its first key the run
  succeeds iff the rest of the object is `ws : ws "…" ws }`, the string (valid UTF-8 on byte sources) decodes to a text
  that THE PARSER ITSELF (environment `renv.inner`) accepts, and then it continues with that text's value in place of the object.
* `c01_rv_token_language` — the same for a whole document that is such an object; its value is the nested text's value.
* `c01_rv_token_value_not_string`, `c01_rv_token_nested_error`, `c01_rv_token_extra_member`, `c01_rv_token_eof` — the
  specific errors otherwise (serde's `invalid type: …, expected raw value`; the nested parse's own failure, re-labelled `Data`,
  with ITS line and column; `trailing comma` / `trailing characters`; `EOF while parsing an object`).
* `c01_rv_sound` — soundness w.r.t. RFC 8259 still holds for the OUTER text: whatever is accepted is a JSON text meeting the
  side conditions (an object `{"<raw token>": "<string>"}` is one). What fails is completeness and the value (C02).
-/
namespace SJ.Props.C01Rv
open SJ SJ.Gen SJ.Model SJ.Model.Machine SJ.Spec.Grammar SJ.Proofs.CanonM
open SJ.Spec.Denote (decodeItems)
open SJ.Spec.PrivateToken (hasTokenFirstKey)
open SJ.Spec.PrivateTokenRv (hasRawTokenFirstKey RawTail)
open SJ.Model.MachineAp (ofMachine)
open SJ.Model.MachineRv (REnv ofAp escalate Expect Msg)
open SJ.Proofs.MachineRv (afterRawKey)

/-- the parser model for a configuration with the `raw_value` flag: `MachineRv` -/
abbrev parseRv := Model.MachineRv.parseTop

/-- `MachineRv.run` -/
abbrev runRv := Model.MachineRv.run

/-- **the nested `from_str` is the parser itself.** `MachineRv.parseTop` is defined by recursion on a fuel (the length of
    the input plus one); the parser it hands to its own run for the strings behind raw tokens is — extensionally — `parseTop`
    in the environment of the nested call: the recursion equation of the crate's code, with no fuel in it. -/
theorem c01_rv_recursion (renv : REnv) (bs : Bytes) :
    parseRv renv bs = runRv (parseRv renv.inner) renv Model.MachineRv.init 0 bs :=
  SJ.Proofs.MachineRv.parseTop_eq renv bs

/-- … and any fuel above the length of the input gives the same outcome -/
theorem c01_rv_fuel_irrelevant (n : Nat) (renv : REnv) (bs : Bytes) (h : bs.length < n) :
    parseRv renv bs = Model.MachineRv.parseFuel n renv bs :=
  SJ.Proofs.MachineRv.parseTop_eq_fuel n renv bs h

/-- **without `raw_value`** (or for skipped content) the model IS `MachineAp` -/
theorem c01_rv_off (renv : REnv) (h : renv.rv = false ∨ renv.env.tgt ≠ .value) (bs : Bytes) :
    parseRv renv bs = ofAp (Model.MachineAp.parseTop renv.env bs) :=
  SJ.Proofs.MachineRv.parseTop_of_not_rv renv (by
    rintro ⟨h1, h2⟩
    rcases h with h | h
    · rw [h] at h1; cases h1
    · exact h h2) bs

/-- **C01 (a), conservativity.** Whatever the configuration, source and target: if no first key of the input decodes to
    the raw token, `MachineRv` and `MachineAp` agree — value, error, message class and position. -/
theorem c01_rv_conservative (renv : REnv) (bs : Bytes) (h : hasRawTokenFirstKey bs = false) :
    parseRv renv bs = ofAp (Model.MachineAp.parseTop renv.env bs) :=
  SJ.Proofs.MachineRv.conservative renv bs h

/-- … and if no first key decodes to the Number token either, both agree with the machine -/
theorem c01_rv_conservative_machine (renv : REnv) (bs : Bytes) (h : hasRawTokenFirstKey bs = false)
    (hn : hasTokenFirstKey bs = false) :
    parseRv renv bs = ofAp (ofMachine (Machine.parseTop renv.env bs)) := by
  rw [c01_rv_conservative renv bs h,
    show Model.MachineAp.parseTop renv.env bs = _ from SJ.Props.C01Ap.c01_ap_conservative renv.env bs hn]

/-- … the Number token needs no hypothesis without `arbitrary_precision` -/
theorem c01_rv_conservative_machine_noap (renv : REnv) (hap : renv.env.cfg.ap = false) (bs : Bytes)
    (h : hasRawTokenFirstKey bs = false) :
    parseRv renv bs = ofAp (ofMachine (Machine.parseTop renv.env bs)) := by
  rw [c01_rv_conservative renv bs h]
  congr 1
  exact SJ.Proofs.MachineAp.run_base_eq renv.env bs init 0
    (SJ.Proofs.MachineAp.trigFree_of_not_ap renv.env (by rw [hap]; simp) bs init)

/-- `{"a":1,"$serde_json::private::RawValue":"x"}`: the token as SECOND key is an ordinary key (scan: no hit) -/
example : hasRawTokenFirstKey ([0x7b, 0x22, 0x61, 0x22, 0x3a, 0x31, 0x2c, 0x22] ++ Gen.rawToken ++ [0x22, 0x3a, 0x22, 0x78, 0x22, 0x7d])
    = false := by decide +kernel

/-- … while `{"$serde_json::private::RawValue":"x"}` (first key, spelled with an escape) is a hit, and so is the raw
    token one level down: `[{"k":{"$serde_json::private::RawValue":1}}]` -/
example : hasRawTokenFirstKey ([0x7b, 0x22, 0x5c, 0x75, 0x30, 0x30, 0x32, 0x34] ++ Gen.rawToken.drop 1 ++ [0x22, 0x3a, 0x22, 0x78, 0x22, 0x7d])
      = true ∧
    hasRawTokenFirstKey ([0x5b, 0x7b, 0x22, 0x6b, 0x22, 0x3a, 0x7b, 0x22] ++ Gen.rawToken ++ [0x22, 0x3a, 0x31, 0x7d, 0x7d, 0x5d]) = true := by
  decide +kernel

/-- the Number token is no hit for the raw scan -/
example : hasRawTokenFirstKey ([0x7b, 0x22] ++ Gen.numberToken ++ [0x22, 0x3a, 0x22, 0x31, 0x22, 0x7d]) = false := by decide +kernel

theorem ofAp_ofMachine_ok (o : Machine.Outcome) (v : JV) : ofAp (ofMachine o) = .ok v ↔ o = .ok v := by
  cases o <;> simp [ofAp, ofMachine]

/-- **C01 on token-free inputs**: `c01_accepts_iff` verbatim for the faithful model -/
theorem c01_rv_accepts_iff_tokenfree (renv : REnv) (henv : renv.env.tgt = .value) (bs : Bytes)
    (h : hasRawTokenFirstKey bs = false) (hn : renv.env.cfg.ap = false ∨ hasTokenFirstKey bs = false) :
    (∃ v, parseRv renv bs = .ok v) ↔
    ∃ t, JsonText bs t ∧ (renv.env.cfg.limitOff = true ∨ depth t ≤ 127) ∧ surrogatesPaired t = true ∧
      (renv.env.src ≠ .str → Spec.Canon.stringsUtf8 t = true) ∧
      Spec.Canon.numbersInRange (specCfg renv.env.cfg) t = true := by
  have heq : parseRv renv bs = ofAp (ofMachine (Machine.parseTop renv.env bs)) := by
    rcases hn with hn | hn
    · exact c01_rv_conservative_machine_noap renv hn bs h
    · exact c01_rv_conservative_machine renv bs h hn
  rw [← SJ.Props.C01Iff.c01_accepts_iff renv.env henv bs, heq]
  constructor
  · rintro ⟨v, hv⟩; exact ⟨v, (ofAp_ofMachine_ok _ v).mp hv⟩
  · rintro ⟨v, hv⟩; exact ⟨v, (ofAp_ofMachine_ok _ v).mpr hv⟩

/-- **C02 on token-free inputs**: the value is `canon` of a syntax tree of the text -/
theorem c02_rv_value_is_canon_tokenfree (renv : REnv) (henv : renv.env.tgt = .value) (bs : Bytes) (v : JV)
    (h : hasRawTokenFirstKey bs = false) (hn : renv.env.cfg.ap = false ∨ hasTokenFirstKey bs = false)
    (hp : parseRv renv bs = .ok v) :
    ∃ t, JsonText bs t ∧ Spec.Canon.canon (specCfg renv.env.cfg) t = some v := by
  have heq : parseRv renv bs = ofAp (ofMachine (Machine.parseTop renv.env bs)) := by
    rcases hn with hn | hn
    · exact c01_rv_conservative_machine_noap renv hn bs h
    · exact c01_rv_conservative_machine renv bs h hn
  rw [heq] at hp
  exact SJ.Props.C01Iff.c02_value_is_canon renv.env henv bs v ((ofAp_ofMachine_ok _ v).mp hp)

/-- non-vacuity: the raw token as second key, `raw_value`, default map: an ordinary two-entry object -/
example : (parseRv ⟨⟨{}, .slice, .value⟩, true⟩
    ([0x7b, 0x22, 0x61, 0x22, 0x3a, 0x31, 0x2c, 0x22] ++ Gen.rawToken ++ [0x22, 0x3a, 0x22, 0x78, 0x22, 0x7d])).isOk
    (.obj [(Gen.rawToken, .str [0x78]), ([0x61], .num (.pos 1))]) = true := by decide +kernel

/-! ### the token reading -/

/-- **C01 (b), the raw-token reading, at any depth.** With `raw_value`, for the `Value` target: after a first key equal to
    the raw token the run succeeds iff the unread input starts with `ws : ws "…" ws }` (`RawTail`), the string — valid UTF-8
    when the source is a byte source — decodes to a text `txt` that the parser accepts as a complete JSON text in the
    environment of the nested `from_str` (`renv.inner`: `&str` source, `Value` target, recursion limit on, same features),
    and what follows the `}` is accepted by the same run with THE VALUE OF `txt` standing where RFC 8259 has a one-member
    object. -/
theorem c01_rv_token_object (renv : REnv) (hrv : renv.rv = true) (hv : renv.env.tgt = .value) (fs : List Frame)
    (rest : Bytes) (i : Nat) (v : JV) :
    runRv (parseRv renv.inner) renv (afterRawKey fs) i rest = .ok v ↔
    ∃ txt rest' v0, RawTail rest txt rest' ∧ (renv.env.src ≠ .str → Spec.Utf8.validUtf8 txt = true) ∧
      parseRv renv.inner txt = .ok v0 ∧
      runRv (parseRv renv.inner) renv (.ap (.base (complete fs v0))) (i + (rest.length - rest'.length)) rest' = .ok v := by
  constructor
  · exact SJ.Proofs.MachineRv.raw_tail_sound _ renv hrv hv fs rest i v
  · rintro ⟨txt, rest', v0, ht, hutf, hf, hr⟩
    have := SJ.Proofs.MachineRv.raw_tail_accepts _ renv hrv hv fs rest txt rest' ht hutf v0 hf i
    exact this.trans hr

/-- after the top-level value only whitespace may follow -/
theorem run_done (f : Bytes → Model.MachineRv.Outcome) (renv : REnv) (v0 : JV) (r : Bytes) (i : Nat) (v : JV) :
    runRv f renv (.ap (.base ⟨.done v0, []⟩)) i r = .ok v ↔ Ws r ∧ v = v0 := by
  have hfree : ∀ (r : Bytes), SJ.Proofs.MachineRv.TrigFreeRv renv (.base ⟨.done v0, []⟩) r := by
    intro r
    induction r with
    | nil => trivial
    | cons b r ih =>
      refine ⟨fun m hm => ?_, fun a' ha' => ?_⟩
      · cases hm
        exact SJ.Proofs.MachineRv.rtriggered_none_of_mode renv _ b fun fs h => by cases h.1
      · have htrig : Model.MachineAp.triggered renv.env ⟨.done v0, []⟩ b = none :=
          SJ.Proofs.MachineAp.triggered_none_of_mode renv.env _ b fun fs h => by cases h.1
        rw [SJ.Proofs.MachineAp.step_base_eq renv.env _ b htrig] at ha'
        by_cases hw : Model.Machine.isWs b = true
        · simp [step, step1, hw, SJ.Proofs.MachineAp.liftRes] at ha'
          subst ha'; exact ih
        · simp [step, step1, hw, SJ.Proofs.MachineAp.liftRes] at ha'
  rw [show runRv f renv (.ap (.base ⟨.done v0, []⟩)) i r = _ from SJ.Proofs.MachineRv.run_ap_eq f renv r _ i (hfree r)]
  rw [← SJ.Props.C01Ap.run_done renv.env v0 r i v]
  cases Model.MachineAp.run renv.env (.base ⟨.done v0, []⟩) i r <;> simp [ofAp]

/-- **C01 (b), a whole document that is an object whose first key decodes to the raw token** (spelled in any way: raw,
    with `\u` escapes, …): accepted iff the rest of the object is `ws : ws "string" ws }` followed by whitespace only and the
    decoded string is itself accepted by the parser (as a complete JSON text, from a `&str`, with a fresh recursion budget);
    the value is THAT TEXT's value. So `{"$serde_json::private::RawValue":"abc"}`, `{"$…":1}`, `{"$…":"1","b":2}` — JSON
    texts all — are rejected, and `{"$…":"[1, 2]"}` is read as the array `[1,2]`, not as the object it is. -/
theorem c01_rv_token_language (renv : REnv) (hrv : renv.rv = true) (hv : renv.env.tgt = .value) (w₀ w₁ : Bytes)
    (k : List StrItem) (rest : Bytes) (hw₀ : Ws w₀) (hw₁ : Ws w₁) (hk : StrWF k = true)
    (hkt : decodeItems k = some Gen.rawToken) (v : JV) :
    parseRv renv (w₀ ++ [0x7b] ++ w₁ ++ strBytes k ++ rest) = .ok v ↔
    ∃ txt w, RawTail rest txt w ∧ Ws w ∧ (renv.env.src ≠ .str → Spec.Utf8.validUtf8 txt = true) ∧
      parseRv renv.inner txt = .ok v := by
  have hpre : parseRv renv (w₀ ++ [0x7b] ++ w₁ ++ strBytes k ++ rest) =
      runRv (parseRv renv.inner) renv (afterRawKey []) (w₀ ++ [0x7b] ++ w₁ ++ strBytes k).length rest := by
    rw [c01_rv_recursion]
    exact SJ.Proofs.MachineRv.top_prefix _ renv hv w₀ w₁ k hw₀ hw₁ hk hkt rest
  rw [hpre, c01_rv_token_object renv hrv hv [] rest _ v]
  constructor
  · rintro ⟨txt, rest', v0, ht, hutf, hf, hr⟩
    obtain ⟨hw, rfl⟩ := (run_done _ renv v0 rest' _ v).mp hr
    exact ⟨txt, rest', ht, hw, hutf, hf⟩
  · rintro ⟨txt, w, ht, hw, hutf, hf⟩
    exact ⟨txt, w, v, ht, hutf, hf, (run_done _ renv v w _ v).mpr ⟨hw, rfl⟩⟩

def rvEnv (src : Src) : REnv := ⟨⟨{}, src, .value⟩, true⟩

/-- non-vacuity: ` { "$serde_json::private::RawValue" : "[1, 2]" } ` from a reader is the array `[1,2]` -/
example : (parseRv (rvEnv .reader)
    ([0x20, 0x7b, 0x20, 0x22, 0x5c, 0x75, 0x30, 0x30, 0x32, 0x34] ++ Gen.rawToken.drop 1 ++
     [0x22, 0x20, 0x3a, 0x20, 0x22, 0x5b, 0x31, 0x2c, 0x20, 0x32, 0x5d, 0x22, 0x20, 0x7d, 0x20])).isOk
    (.arr [.num (.pos 1), .num (.pos 2)]) = true := by decide +kernel

/-- … the readings apply again INSIDE the string: `[{"$…RawValue":"{\"$…RawValue\":\"true\"}"},{"k":{"$…RawValue":" null "}}]`
    is `[true,{"k":null}]` -/
example : (parseRv (rvEnv .str)
    ([0x5b, 0x7b, 0x22] ++ Gen.rawToken ++ [0x22, 0x3a, 0x22, 0x7b, 0x5c, 0x22] ++ Gen.rawToken ++
      [0x5c, 0x22, 0x3a, 0x5c, 0x22, 0x74, 0x72, 0x75, 0x65, 0x5c, 0x22, 0x7d, 0x22, 0x7d, 0x2c, 0x7b, 0x22, 0x6b, 0x22, 0x3a, 0x7b, 0x22] ++
      Gen.rawToken ++ [0x22, 0x3a, 0x22, 0x20, 0x6e, 0x75, 0x6c, 0x6c, 0x20, 0x22, 0x7d, 0x7d, 0x5d])).isOk
    (.arr [.bool true, .obj [([0x6b], .null)]]) = true := by decide +kernel

/-- … with both features the Number token is read inside the string too: `{"$…RawValue":"{\"$…Number\":\"1e400\"}"}` is the
    number `1e400` -/
example : (parseRv ⟨⟨{ ap := true }, .slice, .value⟩, true⟩
    ([0x7b, 0x22] ++ Gen.rawToken ++ [0x22, 0x3a, 0x22, 0x7b, 0x5c, 0x22] ++ Gen.numberToken ++
      [0x5c, 0x22, 0x3a, 0x5c, 0x22, 0x31, 0x65, 0x34, 0x30, 0x30, 0x5c, 0x22, 0x7d, 0x22, 0x7d])).isOk
    (.num (.lit [0x31, 0x65, 0x34, 0x30, 0x30])) = true := by decide +kernel

/-- … and without the feature the same text is the object RFC 8259 describes -/
example : (parseRv ⟨⟨{}, .str, .value⟩, false⟩
    ([0x7b, 0x22] ++ Gen.rawToken ++ [0x22, 0x3a, 0x22, 0x31, 0x22, 0x7d])).isOk
    (.obj [(Gen.rawToken, .str [0x31])]) = true := by decide +kernel

/-- **a fresh recursion budget**: 126 arrays around `{"$…RawValue":"[[…[]…]]"}` with 127 arrays inside the string — 254
    containers deep where 127 is the limit — is accepted (each `from_str` counts from zero); one more inside is rejected with
    the NESTED parse's error: `recursion limit exceeded` as a `Data` error at line 1 column 128 (of the string) -/
example : (parseRv (rvEnv .slice)
      (List.replicate 126 0x5b ++ [0x7b, 0x22] ++ Gen.rawToken ++ [0x22, 0x3a, 0x22] ++ List.replicate 127 0x5b ++
        List.replicate 127 0x5d ++ [0x22, 0x7d] ++ List.replicate 126 0x5d)).isOk
      (Nat.repeat (fun v => .arr [v]) 252 (.arr [])) = true ∧
    (parseRv (rvEnv .slice)
      (List.replicate 126 0x5b ++ [0x7b, 0x22] ++ Gen.rawToken ++ [0x22, 0x3a, 0x22] ++ List.replicate 128 0x5b ++
        List.replicate 128 0x5d ++ [0x22, 0x7d] ++ List.replicate 126 0x5d)).isCustom (.code .RecursionLimitExceeded) 1 128 = true := by
  decide +kernel

/-! ### the specific errors -/

/-- the value behind the token is an array or an object: serde's `invalid type: sequence / map, expected raw value`
    (category `Data`), positioned at the bracket for `&str` / slices and one byte later for readers -/
theorem c01_rv_token_value_not_string (renv : REnv) (hrv : renv.rv = true) (hv : renv.env.tgt = .value) (fs : List Frame)
    (w₁ w₂ r : Bytes) (b : UInt8) (hb : b = 0x5b ∨ b = 0x7b) (hw₁ : Ws w₁) (hw₂ : Ws w₂) (i : Nat) :
    runRv (parseRv renv.inner) renv (afterRawKey fs) i (w₁ ++ [0x3a] ++ w₂ ++ b :: r) =
      .data .raw (errIdx renv.env .excl (i + w₁.length + 1 + w₂.length)) :=
  SJ.Proofs.MachineRv.tail_container _ renv hrv hv fs w₁ w₂ r b hb hw₁ hw₂ i

/-- `{"$serde_json::private::RawValue":[ ]}`: `invalid type` at column 34 (slice) / 35 (reader); a scalar that is not a
    string is consumed first (`peek_invalid_type`): `{"$…":1}` → after the `1` -/
example : (parseRv (rvEnv .slice) ([0x7b, 0x22] ++ Gen.rawToken ++ [0x22, 0x3a, 0x5b, 0x20, 0x5d, 0x7d])).isData .raw 34 = true ∧
    (parseRv (rvEnv .reader) ([0x7b, 0x22] ++ Gen.rawToken ++ [0x22, 0x3a, 0x5b, 0x20, 0x5d, 0x7d])).isData .raw 35 = true ∧
    (parseRv (rvEnv .slice) ([0x7b, 0x22] ++ Gen.rawToken ++ [0x22, 0x3a, 0x31, 0x7d])).isData .raw 35 = true ∧
    (parseRv (rvEnv .reader) ([0x7b, 0x22] ++ Gen.rawToken ++ [0x22, 0x3a, 0x31, 0x7d])).isData .raw 36 = true := by
  decide +kernel

/-- the value is a string whose content the parser rejects: the error is the NESTED parse's — its message, and ITS line
    and column, i.e. a position inside the decoded string, not in the document; category `Data` (it went through
    `de::Error::custom`); an error that already came from a string further in keeps the innermost position
    (`MachineRv.escalate`) -/
theorem c01_rv_token_nested_error (renv : REnv) (hrv : renv.rv = true) (hv : renv.env.tgt = .value) (fs : List Frame)
    (w₁ w₂ r : Bytes) (items : List StrItem) (txt : Bytes) (hw₁ : Ws w₁) (hw₂ : Ws w₂)
    (hwf : StrWF items = true) (hdec : decodeItems items = some txt)
    (hutf : renv.env.src ≠ .str → Spec.Utf8.validUtf8 txt = true) (hrej : ∀ v, parseRv renv.inner txt ≠ .ok v) (i : Nat) :
    runRv (parseRv renv.inner) renv (afterRawKey fs) i (w₁ ++ [0x3a] ++ w₂ ++ strBytes items ++ r) =
      escalate txt (parseRv renv.inner txt) :=
  SJ.Proofs.MachineRv.tail_nested_error _ renv hrv hv fs w₁ w₂ r items txt hw₁ hw₂ hwf hdec hutf hrej i

/-- `\n\n[{"$…":"[1,\n x]"}]` → `expected value` at line 2 column 2 (of the string `[1,⏎ x]`), category `Data`, although the
    object is on line 3; `{"$…":""}` → `EOF while parsing a value` at line 1 column 0 — as a `Data` error;
    `{"$…":"{\"$…\":\"tru\"}"}` → the INNERMOST text's error, `EOF while parsing a value` at line 1 column 3 (of `tru`);
    `{"$…":"{\"$…\":1}"}` → `invalid type: …, expected raw value` at line 1 column 35 OF THE STRING -/
example : (parseRv (rvEnv .slice)
      ([0x0a, 0x0a, 0x5b, 0x7b, 0x22] ++ Gen.rawToken ++ [0x22, 0x3a, 0x22, 0x5b, 0x31, 0x2c, 0x5c, 0x6e, 0x20, 0x78, 0x5d, 0x22, 0x7d, 0x5d])).isCustom
        (.code .ExpectedSomeValue) 2 2 = true ∧
    (parseRv (rvEnv .slice) ([0x7b, 0x22] ++ Gen.rawToken ++ [0x22, 0x3a, 0x22, 0x22, 0x7d])).isCustom (.code .EofWhileParsingValue) 1 0 = true ∧
    (parseRv (rvEnv .slice)
      ([0x7b, 0x22] ++ Gen.rawToken ++ [0x22, 0x3a, 0x22, 0x7b, 0x5c, 0x22] ++ Gen.rawToken ++
        [0x5c, 0x22, 0x3a, 0x5c, 0x22, 0x74, 0x72, 0x75, 0x5c, 0x22, 0x7d, 0x22, 0x7d])).isCustom (.code .EofWhileParsingValue) 1 3 = true ∧
    (parseRv (rvEnv .slice)
      ([0x7b, 0x22] ++ Gen.rawToken ++ [0x22, 0x3a, 0x22, 0x7b, 0x5c, 0x22] ++ Gen.rawToken ++
        [0x5c, 0x22, 0x3a, 0x31, 0x7d, 0x22, 0x7d])).isCustom (.invalidType .raw) 1 35 = true := by
  decide +kernel

/-- a second member (or anything but `}`) after the string: `end_map` reports `trailing comma` at a comma, `trailing
    characters` at any other byte — the object `{"$…":"1","b":2}` is a JSON text and is rejected -/
theorem c01_rv_token_extra_member (renv : REnv) (hrv : renv.rv = true) (hv : renv.env.tgt = .value) (fs : List Frame)
    (w₁ w₂ w₃ r : Bytes) (items : List StrItem) (txt : Bytes) (b : UInt8) (hw₁ : Ws w₁) (hw₂ : Ws w₂) (hw₃ : Ws w₃)
    (hwf : StrWF items = true) (hdec : decodeItems items = some txt)
    (hutf : renv.env.src ≠ .str → Spec.Utf8.validUtf8 txt = true) (v0 : JV) (hacc : parseRv renv.inner txt = .ok v0)
    (hbw : Model.Machine.isWs b = false) (hb : (b == 0x7d) = false) (i : Nat) :
    runRv (parseRv renv.inner) renv (afterRawKey fs) i (w₁ ++ [0x3a] ++ w₂ ++ strBytes items ++ w₃ ++ b :: r) =
      .err (if b == 0x2c then .TrailingComma else .TrailingCharacters)
        (i + w₁.length + 1 + w₂.length + (strBytes items).length + w₃.length + 1) :=
  SJ.Proofs.MachineRv.tail_extra _ renv hrv hv fs w₁ w₂ w₃ r items txt b hw₁ hw₂ hw₃ hwf hdec hutf v0 hacc hbw hb i

/-- `{"$…":"1","b":2}` → `trailing comma` at column 38 (the comma included) -/
example : (parseRv (rvEnv .str)
    ([0x7b, 0x22] ++ Gen.rawToken ++ [0x22, 0x3a, 0x22, 0x31, 0x22, 0x2c, 0x22, 0x62, 0x22, 0x3a, 0x32, 0x7d])).isErr .TrailingComma 38 = true := by
  decide +kernel

/-- the input ends after the string: `EOF while parsing an object` at the end -/
theorem c01_rv_token_eof (renv : REnv) (hrv : renv.rv = true) (hv : renv.env.tgt = .value) (fs : List Frame)
    (w₁ w₂ w₃ : Bytes) (items : List StrItem) (txt : Bytes) (hw₁ : Ws w₁) (hw₂ : Ws w₂) (hw₃ : Ws w₃)
    (hwf : StrWF items = true) (hdec : decodeItems items = some txt)
    (hutf : renv.env.src ≠ .str → Spec.Utf8.validUtf8 txt = true) (v0 : JV) (hacc : parseRv renv.inner txt = .ok v0) (i : Nat) :
    runRv (parseRv renv.inner) renv (afterRawKey fs) i (w₁ ++ [0x3a] ++ w₂ ++ strBytes items ++ w₃) =
      .err .EofWhileParsingObject (i + w₁.length + 1 + w₂.length + (strBytes items).length + w₃.length) :=
  SJ.Proofs.MachineRv.tail_eof _ renv hrv hv fs w₁ w₂ w₃ items txt hw₁ hw₂ hw₃ hwf hdec hutf v0 hacc i

example : (parseRv (rvEnv .reader)
    ([0x7b, 0x22] ++ Gen.rawToken ++ [0x22, 0x3a, 0x22, 0x31, 0x22, 0x20])).isErr .EofWhileParsingObject 38 = true := by
  decide +kernel

/-! ### soundness of the outer text -/

/-- **C01 under `raw_value`, soundness half, every input**: whatever the faithful model accepts is an RFC 8259 JSON text
    meeting the side conditions — neither token reading makes the crate accept something that is not JSON (an object whose
    first key is a token and whose value is a string IS a JSON text; what is inside the string plays no part here). What
    does NOT hold is the converse (`c01_rv_token_language`: such an object is accepted only if its string holds JSON), and
    C02: the value is not the denotation of the outer text. -/
theorem c01_rv_sound (renv : REnv) (henv : renv.env.tgt = .value) (bs : Bytes) (v : JV) (h : parseRv renv bs = .ok v) :
    ∃ t, JsonText bs t ∧ (renv.env.cfg.limitOff = true ∨ depth t ≤ 127) ∧ surrogatesPaired t = true ∧
      (renv.env.src ≠ .str → Spec.Canon.stringsUtf8 t = true) ∧
      Spec.Canon.numbersInRange (specCfg renv.env.cfg) t = true := by
  obtain ⟨v', hv'⟩ := SJ.Proofs.MachineRv.rv_sound renv bs v h
  exact (SJ.Props.C01Iff.c01_accepts_iff renv.env henv bs).mp ⟨v', hv'⟩

/-- non-vacuity of `RawTail`: `:"[1]"}` -/
example : RawTail [0x3a, 0x22, 0x5b, 0x31, 0x5d, 0x22, 0x7d] [0x5b, 0x31, 0x5d] [] :=
  ⟨[], [], [.raw 0x5b, .raw 0x31, .raw 0x5d], [], rfl, by decide, by decide, by decide, rfl, rfl⟩

end SJ.Props.C01Rv
