import SJ.Proofs.Wtf8
import SJ.Proofs.RawStructElem
/-!
# C05 — the BYTES target: "Deserialised as bytes, the same decoding applies except that unpaired surrogates
# come out in WTF-8 form and raw non-UTF-8 bytes pass through unchanged."

Over `Model.Typed.parseStrRaw` (`Read::parse_str_raw`, the decoder behind `deserialize_bytes` /
`deserialize_byte_buf`, `Model.Typed.deBytes`) and the independent specification `Spec.Wtf8`.
`env` is arbitrary in every theorem: all three sources (`&str`, slice, reader), every configuration, and
the failing-reader mode.

**Deviation from the statement, recorded as finding `C05-bytes-control-char-accepted`.** Read literally,
"the same decoding applies" includes rejecting a bare control character; the crate does not
(`validate = false` skips `ControlCharacterWhileParsingString` in both `parse_str_bytes`), so the
theorems below describe what the code does: a raw byte is ANY byte other than `"` and `\`
(`Spec.Wtf8.ItemOK`), and `c05_bytes_control_passes` is the witness.
-/
namespace SJ.Props.C05
open SJ SJ.Spec.Grammar SJ.Spec.Denote SJ.Spec.Wtf8 SJ.Model.Typed

/-- **Bytes target, every input.** On EVERY byte string (read from just after the opening quote)
    `parse_str_raw` returns what the RFC 8259 §7 item structure of the input (`Spec.Wtf8.lex`) says:
    items up to a closing quote → the bytes `Spec.Wtf8.decodeBytes` assigns them (escapes decoded, a high
    surrogate escape immediately followed by a low one → the four-byte UTF-8 of the scalar, any other
    surrogate escape → its three-byte WTF-8 form, raw bytes — `0x80–0xFF` in any arrangement, and control
    characters — copied), the unread input after the quote, and the index just past it; `\` followed by a
    byte that starts no escape, or `\u` followed by four bytes not all hex digits → `InvalidEscape` at
    that byte; input exhausted → `EofWhileParsingString` at the end (a failing reader: `Io`). -/
theorem c05_bytes_target_total (env : Env) (bs : Bytes) (pos : Nat) :
    parseStrRaw env bs pos =
      match lex bs with
      | .ok items rest => .ok (decodeBytes items) rest (pos + (items.flatMap StrItem.bytes).length + 1)
      | .badEscape n => .err .InvalidEscape (pos + n)
      | .eof => atEof env .EofWhileParsingString (pos + bs.length) := by
  rw [Proofs.Wtf8.runRaw_lex]
  cases lex bs with
  | ok items rest => simp [Proofs.Wtf8.fin, (Proofs.Wtf8.decodeP_spec items).1]
  | badEscape n => rfl
  | eof => rfl

/-- **Bytes target, a literal.** For items that are well formed for a bytes target (escapes of RFC 8259
    §7; raw bytes anything but `"` and `\`) `parse_str_raw` on the literal's content, the closing quote
    and any follower returns exactly `decodeBytes items`, leaves the follower and stops just past the
    quote — from every source. -/
theorem c05_bytes_target (env : Env) (items : List StrItem) (h : ItemsOK items = true) (rest : Bytes) (pos : Nat) :
    parseStrRaw env (items.flatMap StrItem.bytes ++ 0x22 :: rest) pos =
      .ok (decodeBytes items) rest (pos + (items.flatMap StrItem.bytes).length + 1) := by
  rw [c05_bytes_target_total, Proofs.Wtf8.lex_complete rest items h]

/-- … and nothing else is accepted: a success is a well-formed literal followed by the unread input, and
    the result is its decoding. -/
theorem c05_bytes_target_only (env : Env) (bs : Bytes) (pos : Nat) (s rest' : Bytes) (pos' : Nat)
    (h : parseStrRaw env bs pos = .ok s rest' pos') :
    ∃ items, ItemsOK items = true ∧ bs = items.flatMap StrItem.bytes ++ 0x22 :: rest' ∧ s = decodeBytes items ∧
      pos' = pos + (items.flatMap StrItem.bytes).length + 1 := by
  rw [c05_bytes_target_total] at h
  cases hl : lex bs with
  | ok items rest =>
    rw [hl] at h
    simp only [Res.ok.injEq] at h
    obtain ⟨rfl, rfl, rfl⟩ := h
    obtain ⟨h1, h2⟩ := Proofs.Wtf8.lex_sound bs.length bs (Nat.le_refl _) items rest hl
    exact ⟨items, h1, h2, rfl, rfl⟩
  | badEscape n => rw [hl] at h; cases h
  | eof => rw [hl] at h; simp only [atEof] at h; split at h <;> cases h

/-- the errors of a bytes target: `InvalidEscape`, `EofWhileParsingString`, or (failing reader) `Io` — in
    particular never `ControlCharacterWhileParsingString`, `InvalidUnicodeCodePoint`,
    `LoneLeadingSurrogateInHexEscape` or `UnexpectedEndOfHexEscape` -/
theorem c05_bytes_errors (env : Env) (bs : Bytes) (pos : Nat) :
    (∃ s rest' pos', parseStrRaw env bs pos = .ok s rest' pos') ∨
    (∃ i, parseStrRaw env bs pos = .err .InvalidEscape i) ∨
    (env.flt = false ∧ parseStrRaw env bs pos = .err .EofWhileParsingString (pos + bs.length)) ∨
    (env.flt = true ∧ parseStrRaw env bs pos = .io) := by
  rw [c05_bytes_target_total]
  cases lex bs with
  | ok items rest => exact .inl ⟨_, _, _, rfl⟩
  | badEscape n => exact .inr (.inl ⟨_, rfl⟩)
  | eof => cases hf : env.flt <;> simp [atEof, hf]

/-- **The entry point** `deserialize_bytes` / `deserialize_byte_buf` on a string literal (`"` first). -/
theorem c05_bytes_entry (env : Env) (t : Nat) (items : List StrItem) (h : ItemsOK items = true) (rest : Bytes) (pos : Nat) :
    deBytes env t (strBytes items ++ rest) pos = .ok (.bytes (decodeBytes items)) rest (pos + (strBytes items).length) := by
  have hs : strBytes items ++ rest = 0x22 :: (items.flatMap StrItem.bytes ++ 0x22 :: rest) := by simp [strBytes]
  rw [hs]
  unfold deBytes withPeek
  rw [show SJ.Model.Stream.skipWs (0x22 :: (items.flatMap StrItem.bytes ++ 0x22 :: rest)) pos =
    (0x22 :: (items.flatMap StrItem.bytes ++ 0x22 :: rest), pos) by
      rw [SJ.Model.Stream.skipWs]; simp [show SJ.Model.Machine.isWs 0x22 = false by decide]]
  simp only [beq_self_eq_true, if_true]
  rw [c05_bytes_target env items h]
  simp only [Res.map, Res.bind, strBytes, List.length_append, List.length_cons, List.length_nil]
  congr 1; omega

/-- **WTF-8.** A surrogate code point — the only values of a `\uXXXX` escape that are not scalar values —
    is written as the three bytes `ED A0..BF 80..BF` (generalized UTF-8), which no UTF-8 text contains. -/
theorem c05_bytes_wtf8_form (n : Nat) (h : isHighSurrogate n = true ∨ isLowSurrogate n = true) :
    ∃ b2 b3 : UInt8, utf8 n = [0xED, b2, b3] ∧ 0xA0 ≤ b2 ∧ b2 ≤ 0xBF ∧ 0x80 ≤ b3 ∧ b3 ≤ 0xBF ∧
      (b2.toNat - 0x80) * 64 + (b3.toNat - 0x80) + 0xD000 = n := by
  have hr : 0xD800 ≤ n ∧ n ≤ 0xDFFF := by
    simp only [isHighSurrogate, isLowSurrogate, Bool.and_eq_true, decide_eq_true_eq] at h; omega
  refine ⟨UInt8.ofNat (0x80 + n / 64 % 64), UInt8.ofNat (0x80 + n % 64), ?_, ?_⟩
  · simp only [utf8]
    rw [if_neg (by omega), if_neg (by omega), if_pos (by omega)]
    have : n / 4096 = 13 := by omega
    rw [this]; rfl
  · have h2 : (UInt8.ofNat (0x80 + n / 64 % 64)).toNat = 0x80 + n / 64 % 64 := by
      rw [UInt8.toNat_ofNat']; omega
    have h3 : (UInt8.ofNat (0x80 + n % 64)).toNat = 0x80 + n % 64 := by
      rw [UInt8.toNat_ofNat']; omega
    refine ⟨?_, ?_, ?_, ?_, ?_⟩
    · rw [UInt8.le_iff_toNat_le, h2]; show 160 ≤ _; omega
    · rw [UInt8.le_iff_toNat_le, h2]; show _ ≤ 191; omega
    · rw [UInt8.le_iff_toNat_le, h3]; show 128 ≤ _; omega
    · rw [UInt8.le_iff_toNat_le, h3]; show _ ≤ 191; omega
    · rw [h2, h3]; omega

/-- an unpaired surrogate escape alone: its WTF-8 form, not an error -/
theorem c05_bytes_lone_surrogate (a b c d : UInt8) (rest : List StrItem)
    (hrest : ∀ e f g k rest', rest = .uni e f g k :: rest' →
      isHighSurrogate (uniVal a b c d) = true → isLowSurrogate (uniVal e f g k) = false) :
    decodeBytes (.uni a b c d :: rest) = utf8 (uniVal a b c d) ++ decodeBytes rest := by
  cases hh : isHighSurrogate (uniVal a b c d) with
  | false => exact Proofs.Wtf8.decodeBytes_notHigh _ _ _ _ _ hh
  | true => exact Proofs.Wtf8.decodeBytes_alone _ _ _ _ _ hh (fun e f g k r' hr => hrest e f g k r' hr hh)

/-- **Raw bytes pass through unchanged**: a content without `"` and `\` — any bytes at all otherwise, valid
    UTF-8 or not, control characters included — is returned as it stands. -/
theorem c05_bytes_raw_passthrough (env : Env) (content : Bytes) (h : content.all (fun b => b != 0x22 && b != 0x5c) = true)
    (rest : Bytes) (pos : Nat) :
    parseStrRaw env (content ++ 0x22 :: rest) pos = .ok content rest (pos + content.length + 1) := by
  have hf : (content.map StrItem.raw).flatMap StrItem.bytes = content := by
    induction content with
    | nil => rfl
    | cons b bs ih =>
      simp only [List.all_cons, Bool.and_eq_true] at h
      simp only [List.map_cons, List.flatMap_cons, StrItem.bytes, List.cons_append, List.nil_append, ih h.2]
  have hd : decodeBytes (content.map StrItem.raw) = content := by
    clear hf h
    induction content with
    | nil => rfl
    | cons b bs ih => simp only [List.map_cons, decodeBytes, ih]
  have hok : ItemsOK (content.map StrItem.raw) = true := by
    simp only [ItemsOK, List.all_map]
    exact h
  have := c05_bytes_target env (content.map StrItem.raw) hok rest pos
  rwa [hf, hd] at this

/-- **Bytes versus text.** Whatever the validating decoder `parse_str` (String / `&str` / `char` targets,
    keys) accepts, the bytes decoder accepts with the same result, the same unread input and the same
    position: the two decodings differ only where the text decoder rejects. (`pos + 1`: the index just
    after the opening quote.) -/
theorem c05_bytes_vs_str (env : Env) (r0 : Bytes) (pos : Nat) (s rest' : Bytes) (e : Nat)
    (h : parseStr env r0 (pos + 1) = .ok s rest' e) : parseStrRaw env r0 (pos + 1) = .ok s rest' e := by
  obtain ⟨items, hb, he, hk⟩ := SJ.Proofs.RawStruct.parseStr_sound env r0 pos s rest' e h
  have hr0 : r0 = items.flatMap StrItem.bytes ++ 0x22 :: rest' := by
    simp only [strBytes, List.cons_append, List.nil_append, List.append_assoc, List.cons.injEq, true_and] at hb
    exact hb
  subst hr0
  rw [c05_bytes_target env items (Proofs.Wtf8.itemsOK_of_strWF items hk.wf),
    Proofs.Wtf8.decodeBytes_of_decodeItems items s hk.dec, he]
  simp only [strBytes, List.length_append, List.length_cons, List.length_nil]
  congr 1; omega

/-- at the level of the specification: where RFC 8259 §7 assigns a text (`decodeItems`), the bytes are that text -/
theorem c05_bytes_vs_str_spec (items : List StrItem) (s : Bytes) (h : decodeItems items = some s) : decodeBytes items = s :=
  Proofs.Wtf8.decodeBytes_of_decodeItems items s h

/-! ## non-vacuity and the witnesses -/

/-- `"é😀\ud800\n\udc00\ud801x<ff><0a>"` read as bytes: raw `é`, a PAIR (→ `F0 9F 98 80`), a lone high
    surrogate before `\n` (→ `ED A0 80`), a lone low surrogate (→ `ED B0 80`), a high surrogate before a raw
    byte (→ `ED A0 81`), raw `0xFF`, a bare line feed -/
def exBytes : List StrItem :=
  [.raw 0xc3, .raw 0xa9, .uni 0x64 0x38 0x33 0x64, .uni 0x64 0x65 0x30 0x30, .uni 0x64 0x38 0x30 0x30, .esc 0x6e,
   .uni 0x64 0x63 0x30 0x30, .uni 0x64 0x38 0x30 0x31, .raw 0x78, .raw 0xff, .raw 0x0a]

example : decodeBytes exBytes =
    [0xc3, 0xa9, 0xf0, 0x9f, 0x98, 0x80, 0xed, 0xa0, 0x80, 0x0a, 0xed, 0xb0, 0x80, 0xed, 0xa0, 0x81, 0x78, 0xff, 0x0a] := by
  decide +kernel
example : parseStrRaw { src := .reader } (exBytes.flatMap StrItem.bytes ++ [0x22, 0x2c]) 1 =
    .ok [0xc3, 0xa9, 0xf0, 0x9f, 0x98, 0x80, 0xed, 0xa0, 0x80, 0x0a, 0xed, 0xb0, 0x80, 0xed, 0xa0, 0x81, 0x78, 0xff, 0x0a]
      [0x2c] 39 := by
  rw [c05_bytes_target _ exBytes (by decide +kernel)]; exact Proofs.Wtf8.of_sameRes (by decide +kernel)
/-- two high surrogates then a low one: the first is alone, the second pairs (`\ud800😀`) -/
example : decodeBytes [.uni 0x64 0x38 0x30 0x30, .uni 0x64 0x38 0x33 0x64, .uni 0x64 0x65 0x30 0x30] =
    [0xed, 0xa0, 0x80, 0xf0, 0x9f, 0x98, 0x80] := by decide +kernel
/-- `"\ud800\x"`: the lone surrogate is not the error, the unknown escape after it is (index of `x`, 1-based) -/
example : parseStrRaw {} [0x5c, 0x75, 0x64, 0x38, 0x30, 0x30, 0x5c, 0x78, 0x22] 1 = .err .InvalidEscape 9 := by
  exact Proofs.Wtf8.of_sameRes (by decide +kernel)
/-- `"\u12zz"` and a quote inside the group `"\u12""`: `InvalidEscape` at the fourth byte of the group -/
example : parseStrRaw {} [0x5c, 0x75, 0x31, 0x32, 0x7a, 0x7a, 0x22] 1 = .err .InvalidEscape 7 := by
  exact Proofs.Wtf8.of_sameRes (by decide +kernel)
example : parseStrRaw {} [0x5c, 0x75, 0x31, 0x32, 0x22, 0x22] 1 = .err .InvalidEscape 7 := by
  exact Proofs.Wtf8.of_sameRes (by decide +kernel)
/-- cut inside an escape: end of input -/
example : parseStrRaw {} [0x5c, 0x75, 0x64, 0x38, 0x30, 0x30, 0x5c, 0x75, 0x31, 0x32] 1 = .err .EofWhileParsingString 11 := by
  exact Proofs.Wtf8.of_sameRes (by decide +kernel)

/-- **Witness of finding `C05-bytes-control-char-accepted`.** The literal `"<0a>"` (a bare line feed): the
    bytes target returns `[0x0a]` from every source, where the text decoder of the same model (and crate)
    answers `ControlCharacterWhileParsingString`. -/
theorem c05_bytes_control_passes (env : Env) :
    parseStrRaw env [0x0a, 0x22] 1 = .ok [0x0a] [] 3 ∧
    deBytes env 0 [0x22, 0x0a, 0x22] 0 = .ok (.bytes [0x0a]) [] 3 ∧
    parseStr { env with flt := false } [0x0a, 0x22] 1 = .err .ControlCharacterWhileParsingString 2 := by
  refine ⟨c05_bytes_raw_passthrough env [0x0a] (by decide) [] 1, c05_bytes_entry env 0 [.raw 0x0a] (by decide) [] 0, ?_⟩
  cases env with
  | mk cfg src flt =>
    cases src <;> rfl

/-- the text side on a pair agrees, on a lone surrogate it rejects (`c05_bytes_vs_str` is not vacuous) -/
example : parseStrRaw {} [0x5c, 0x75, 0x64, 0x38, 0x33, 0x64, 0x5c, 0x75, 0x64, 0x65, 0x30, 0x30, 0x22] 1 =
    .ok [0xf0, 0x9f, 0x98, 0x80] [] 14 :=
  c05_bytes_vs_str {} _ 0 _ _ _ (Proofs.Wtf8.of_sameRes (by decide +kernel))
example : parseStr {} [0x5c, 0x75, 0x64, 0x38, 0x30, 0x30, 0x22] 1 = .err .UnexpectedEndOfHexEscape 8 :=
  Proofs.Wtf8.of_sameRes (by decide +kernel)

end SJ.Props.C05
