import SJ.Props.C05Bytes
import SJ.Props.C09ReadersRaw
/-!
# C05 — the bytes target on the two REAL string scanners

`c05_bytes_target*` (Props/C05Bytes.lean) are about `Model.Typed.parseStrRaw`; `c09_slice_raw_refines` /
`c09_io_raw_refines` (Props/C09ReadersRaw.lean) say that `SliceRead::parse_str_raw` (also `StrRead`'s, by delegation)
and `IoRead::parse_str_raw`, modelled separately (`Model.ReadSlice`, `Model.ReadIo`), compute the same. Composed here.
-/
namespace SJ.Props.C05
open SJ SJ.Spec.Grammar SJ.Spec.Wtf8 SJ.Model.LineCol SJ.Proofs.ReadTop SJ.Proofs.ReadRaw

/-- **Bytes target, both scanners, every input.** From index `i` (just after the opening quote) of any input `bs`,
    `SliceRead::parse_str_raw` and `IoRead::parse_str_raw` return the bytes `Spec.Wtf8.decodeBytes` assigns to the items up
    to the closing quote and stop just past it; or `InvalidEscape` at the offending byte; or `EofWhileParsingString` at the
    end of the input — as the item structure `Spec.Wtf8.lex` of `bs[i..]` says. -/
theorem c05_bytes_target_readers (bs : Bytes) (i : Nat) (hi : i ≤ bs.length) :
    let spec : Obs := match lex (bs.drop i) with
      | .ok items _ => .ok (decodeBytes items) (i + (items.flatMap StrItem.bytes).length + 1)
      | .badEscape n => .err .InvalidEscape (i + n)
      | .eof => .err .EofWhileParsingString bs.length
    sliceObs (Model.ReadSlice.parseStrRaw ⟨bs, i⟩) = spec ∧
    sliceObs (Model.ReadSlice.strParseStrRaw ⟨bs, i⟩) = spec ∧
    ioObs (Model.ReadIo.parseStrRaw (IoPos.at bs i false)) = spec := by
  intro spec
  have hs := SJ.Props.C09.c09_slice_raw_refines {} rfl bs i hi
  have hio := (SJ.Props.C09.c09_io_raw_refines {} rfl bs i hi).1
  have ht := c05_bytes_target_total {} (bs.drop i) i
  have hspec : rawObs (Model.Typed.parseStrRaw {} (bs.drop i) i) = spec := by
    rw [ht]
    show _ = (match lex (bs.drop i) with
      | .ok items _ => Obs.ok (decodeBytes items) (i + (items.flatMap StrItem.bytes).length + 1)
      | .badEscape n => .err .InvalidEscape (i + n)
      | .eof => .err .EofWhileParsingString bs.length)
    cases lex (bs.drop i) with
    | ok items rest => rfl
    | badEscape n => rfl
    | eof =>
      simp only [Model.Typed.atEof, rawObs, List.length_drop]
      have := hi
      show Obs.err _ (i + (bs.length - i)) = Obs.err _ bs.length
      rw [show i + (bs.length - i) = bs.length by omega]
  exact ⟨hs.trans hspec, by rw [show Model.ReadSlice.strParseStrRaw ⟨bs, i⟩ = Model.ReadSlice.parseStrRaw ⟨bs, i⟩ from rfl]; exact hs.trans hspec,
    hio.trans hspec⟩

/-- `"\ud83d x<0a><ff>"` (a lone leading surrogate, then raw bytes incl. a control character and `0xFF`) through both
    scanners: `ED A0 BD 78 0A FF` -/
example : sliceObs (Model.ReadSlice.parseStrRaw ⟨SJ.Props.C09.exRaw, 1⟩) = .ok [0xed, 0xa0, 0xbd, 0x78, 0x0a, 0xff] 11 ∧
    ioObs (Model.ReadIo.parseStrRaw (IoPos.at SJ.Props.C09.exRaw 1 false)) = .ok [0xed, 0xa0, 0xbd, 0x78, 0x0a, 0xff] 11 := by
  have h := c05_bytes_target_readers SJ.Props.C09.exRaw 1 (by decide)
  have hl : lex (SJ.Props.C09.exRaw.drop 1) = .ok [.uni 0x64 0x38 0x33 0x64, .raw 0x78, .raw 0x0a, .raw 0xff] [] := by decide +kernel
  simp only [hl] at h
  exact ⟨h.1.trans (by decide +kernel), h.2.2.trans (by decide +kernel)⟩

end SJ.Props.C05
