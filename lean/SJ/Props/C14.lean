import SJ.Proofs.Machine
import SJ.Proofs.Utf8Machine
import SJ.Proofs.Utf8Value
import SJ.Proofs.NumFuel
import SJ.Proofs.Sound.Num
import SJ.Proofs.StreamDepth
/-!
# C14 — hostile input cannot crash, overflow the stack or corrupt memory (the logical part)

In the model every Rust panic site / `unreachable!` is an explicit fallback outcome; the theorems
show the fallbacks are never taken and the recursion depth (= height of the explicit stack) is
bounded, and that the strings handed to `str::from_utf8_unchecked` by the `&str` source are valid UTF-8
(`c14_utf8`, `c14_utf8_at_closing_quote`). Termination is by construction (`run` is a structural fold over the input). Memory safety
of the compiled `unsafe` blocks and real stack consumption live in the runtime and are outside any
model (DESIGN.md §9): partial by nature.
-/
namespace SJ.Props.C14
open SJ SJ.Gen SJ.Model.Machine SJ.Proofs.Machine

/-- after a number ends, the re-dispatched byte never ends a number again: the
    "`again` twice" fallback of `step` is unreachable -/
theorem c14_again_once (env : Env) (s : St) (b : UInt8) (s' : St) (h : step1 env s b = .again s') :
    ∀ s'', step1 env s' b ≠ .again s'' := by
  -- only `stepNum` returns `again`, with `s' = complete stack v`
  have hs' : ∃ stack v, s' = complete stack v := by
    unfold step1 at h
    repeat' split at h
    all_goals first
      | (simp at h; done)
      | (unfold closeArr at h; split at h <;> simp at h)
      | (unfold closeObj at h; split at h <;> simp at h)
      | (unfold startValue at h; repeat' split at h
         all_goals (simp at h))
      | (rename_i n _
         unfold stepNum at h; simp only at h
         repeat' split at h
         all_goals first
           | (simp at h; done)
           | (rename_i s'' hs; simp at h; subst h
              obtain ⟨v, hv⟩ := endNumber_ok env s n s'' hs
              exact ⟨_, v, hv⟩))
      | (unfold stepStr at h; simp only at h
         repeat' split at h
         all_goals first
           | (simp at h; done)
           | (unfold endStr at h; simp only at h; repeat' split at h
              all_goals (simp at h)))
      | (split at h <;> simp at h)
  obtain ⟨stack, v, rfl⟩ := hs'
  intro s'' h2
  unfold complete at h2
  split at h2
  all_goals (unfold step1 at h2; simp only at h2; repeat' split at h2)
  all_goals first
    | (simp at h2; done)
    | (unfold closeArr at h2; split at h2 <;> simp at h2)
    | (unfold closeObj at h2; split at h2 <;> simp at h2)

/-- the explicit stack (= Rust recursion depth of `deserialize_any` for `Value`) never exceeds
    `remaining_depth - 1` = 127 frames while the limit is enabled -/
def DepthOK (s : St) : Prop := s.stack.length < Gen.remainingDepthInit

theorem complete_len (stack : List Frame) (v : JV) : (complete stack v).stack.length = stack.length := by
  unfold complete; split <;> simp

/-- the successor state (if any) of a step result is within the depth bound -/
def StepOK : Step → Prop
  | .next s' => DepthOK s'
  | .again s' => DepthOK s'
  | .err _ _ => True

theorem closeArr_depth (env : Env) (s : St) (h : DepthOK s) : StepOK (closeArr env s) := by
  unfold closeArr; split
  · rename_i hst; simp only [StepOK, DepthOK, complete_len]; unfold DepthOK at h; rw [hst] at h; simp at h; omega
  · trivial

theorem closeObj_depth (env : Env) (s : St) (h : DepthOK s) : StepOK (closeObj env s) := by
  unfold closeObj; split
  · rename_i hst; simp only [StepOK, DepthOK, complete_len]; unfold DepthOK at h; rw [hst] at h; simp at h; omega
  · trivial

theorem startValue_depth (env : Env) (henv : env.tgt = .value) (hl : env.cfg.limitOff = false)
    (s : St) (b : UInt8) (h : DepthOK s) : StepOK (startValue env s b) := by
  unfold startValue
  repeat' split
  all_goals first
    | trivial
    | (simp only [StepOK, DepthOK] at *; exact h)
    | (rename_i hd; simp only [StepOK, DepthOK] at *
       simp [depthExceeded, henv, hl] at hd; simp; omega)

theorem stepNum_depth (env : Env) (s : St) (n : NumSt) (b : UInt8) (h : DepthOK s) :
    StepOK (stepNum env s n b) := by
  unfold stepNum; simp only
  repeat' split
  all_goals first
    | trivial
    | (simp only [StepOK, DepthOK] at *; exact h)
    | (rename_i s'' hs2
       obtain ⟨v, hv⟩ := endNumber_ok env s n s'' hs2
       simp only [StepOK, DepthOK, hv, complete_len] at *; exact h)

theorem endStr_depth (env : Env) (s : St) (st : StrSt) (h : DepthOK s) : StepOK (endStr env s st) := by
  unfold endStr; simp only
  repeat' split
  all_goals first
    | trivial
    | (simp only [StepOK, DepthOK, complete_len] at *; exact h)
    | (rename_i hst; simp only [StepOK, DepthOK] at *; rw [hst] at h; simpa using h)

theorem stepStr_depth (env : Env) (s : St) (st : StrSt) (b : UInt8) (h : DepthOK s) :
    StepOK (stepStr env s st b) := by
  unfold stepStr; simp only
  repeat' split
  all_goals first
    | trivial
    | exact endStr_depth env s st h
    | (simp only [StepOK, DepthOK] at *; exact h)

theorem step1_depth' (env : Env) (henv : env.tgt = .value) (hl : env.cfg.limitOff = false)
    (s : St) (b : UInt8) (h : DepthOK s) : StepOK (step1 env s b) := by
  unfold step1
  repeat' split
  all_goals first
    | trivial
    | exact closeArr_depth env s h
    | exact closeObj_depth env s h
    | exact startValue_depth env henv hl s b h
    | exact stepNum_depth env s _ b h
    | exact stepStr_depth env s _ b h
    | (simp only [StepOK, DepthOK, complete_len] at *; exact h)

theorem step1_depth (env : Env) (henv : env.tgt = .value) (hl : env.cfg.limitOff = false)
    (s : St) (b : UInt8) (h : DepthOK s) :
    (∀ s', step1 env s b = .next s' → DepthOK s') ∧ (∀ s', step1 env s b = .again s' → DepthOK s') := by
  have := step1_depth' env henv hl s b h
  constructor <;> intro s' hs <;> rw [hs] at this <;> exact this

theorem step_depth (env : Env) (henv : env.tgt = .value) (hl : env.cfg.limitOff = false)
    (s : St) (b : UInt8) (s' : St) (h : DepthOK s) (hs : step env s b = .ok s') : DepthOK s' := by
  unfold step at hs
  split at hs
  · rename_i s1 h1; simp at hs; subst hs; exact (step1_depth env henv hl s b h).1 _ h1
  · simp at hs
  · rename_i s1 h1
    have hd1 := (step1_depth env henv hl s b h).2 _ h1
    split at hs
    · rename_i s2 h2; simp at hs; subst hs; exact (step1_depth env henv hl s1 b hd1).1 _ h2
    · simp at hs
    · simp at hs

/-- **C14 (depth).** With the recursion limit enabled, every state reachable while parsing into
    `Value` has fewer than 128 open containers, whatever the input: the recursion of the real
    `deserialize_any` (one Rust frame per open container) is bounded by 127 levels. -/
theorem c14_depth_bounded (env : Env) (henv : env.tgt = .value) (hl : env.cfg.limitOff = false)
    (bs : Bytes) (s : St) (j : Nat) (h : feed env init 0 bs = .ok (s, j)) : s.stack.length ≤ 127 := by
  have key : ∀ (xs : Bytes) (s0 : St) (i : Nat), DepthOK s0 → feed env s0 i xs = .ok (s, j) → DepthOK s := by
    intro xs
    induction xs with
    | nil => intro s0 i h0 hf; simp [feed] at hf; exact hf.1 ▸ h0
    | cons b bs ih =>
      intro s0 i h0 hf
      simp only [feed] at hf
      cases hs : step env s0 b with
      | ok s1 => rw [hs] at hf; exact ih s1 (i + 1) (step_depth env henv hl s0 b s1 h0 hs) hf
      | error e => obtain ⟨c, a⟩ := e; rw [hs] at hf; cases hf
  have := key bs init 0 (by unfold DepthOK init; decide) h
  unfold DepthOK at this
  have h128 : Gen.remainingDepthInit = 128 := rfl
  omega

/-- the 128th nested opening bracket is rejected with the recursion-limit error (statement over
    all states: opening a container at depth 127 fails) -/
theorem c14_limit_hit (env : Env) (henv : env.tgt = .value) (hl : env.cfg.limitOff = false)
    (s : St) (ctx : ValCtx) (hm : s.mode = .val ctx) (hd : s.stack.length = 127) :
    step1 env s 0x5b = .err .RecursionLimitExceeded .incl ∧ step1 env s 0x7b = .err .RecursionLimitExceeded .incl := by
  have h128 : Gen.remainingDepthInit = 128 := rfl
  constructor <;>
  · unfold step1
    rw [hm]
    simp [isWs, Gen.wsBytes, startValue, isDigit, depthExceeded, henv, hl, hd, h128]

/-! ## the `str::from_utf8_unchecked` sites of the `&str` source have their precondition -/

/-- **C14 (UTF-8).** Every string and every object key inside a value the parser returns is valid
    UTF-8 (`JV.stringsValid`): on byte sources because `as_str` checks each decoded string, on the
    `&str` source — where `StrRead::parse_str` calls `str::from_utf8_unchecked` instead — because the
    input is valid UTF-8 and escape-decoding a valid UTF-8 literal yields valid UTF-8
    (`Proofs.Utf8.decodeItems_utf8`, `jsontext_utf8`). The hypothesis on `bs` is what the type `&str`
    guarantees. -/
theorem c14_utf8 (env : Env) (bs : Bytes) (v : JV) (h : parseTop env bs = .ok v)
    (hstr : env.src = .str → Spec.Utf8.validUtf8 bs = true) : v.stringsValid = true :=
  SJ.Proofs.Utf8.parse_stringsValid env bs v h hstr

/-- `{"é😀":["é😀"]}` from a `&str`: the key (raw bytes) and the string (escapes,
    one of them a surrogate pair) are valid UTF-8 -/
def exUtf8 : Bytes :=
  [0x7b, 0x22, 0xc3, 0xa9, 0xf0, 0x9f, 0x98, 0x80, 0x22, 0x3a, 0x5b, 0x22, 0x5c, 0x75, 0x30, 0x30, 0x65, 0x39, 0x5c, 0x75,
   0x64, 0x38, 0x33, 0x64, 0x5c, 0x75, 0x64, 0x65, 0x30, 0x30, 0x22, 0x5d, 0x7d]
example : parseTop ⟨{}, .str, .value⟩ exUtf8 =
    .ok (.obj [([0xc3, 0xa9, 0xf0, 0x9f, 0x98, 0x80], .arr [.str [0xc3, 0xa9, 0xf0, 0x9f, 0x98, 0x80]])]) := rfl
example : (JV.obj [([0xc3, 0xa9, 0xf0, 0x9f, 0x98, 0x80], .arr [.str [0xc3, 0xa9, 0xf0, 0x9f, 0x98, 0x80]])]).stringsValid
    = true :=
  c14_utf8 ⟨{}, .str, .value⟩ exUtf8 _ rfl (fun _ => by decide +kernel)
/-- the hypothesis is needed (and is exactly the `&str` type invariant): fed bytes that are not
    UTF-8, the model of the `&str` source returns them unchecked -/
example : parseTop ⟨{}, .str, .value⟩ [0x22, 0xff, 0x22] = .ok (.str [0xff]) ∧
    (JV.str [0xff]).stringsValid = false := ⟨rfl, by decide +kernel⟩

/-- **C14 (UTF-8, per call site).** The same at the level of the individual call: on valid UTF-8
    input, *whenever* the parser stands at the closing quote of a string literal — a value or an object
    key, for either target, also in a document that is rejected further on — the decoded text it is about
    to hand to `str::from_utf8_unchecked` (`&str` source, `Reference::Borrowed` and `Copied` alike:
    `out` is the input slice itself when the literal has no escape) is valid UTF-8. -/
theorem c14_utf8_at_closing_quote (env : Env) (pre rest : Bytes)
    (h : Spec.Utf8.validUtf8 (pre ++ 0x22 :: rest) = true)
    (s : St) (j : Nat) (hf : feed env init 0 pre = .ok (s, j)) (st : StrSt) (hm : s.mode = .str st)
    (he : st.esc = .none) : Spec.Utf8.validUtf8 st.out.reverse = true :=
  SJ.Proofs.Utf8.utf8_at_closing_quote env pre rest h s j hf st hm he

/-- `["é😀` then `"x` (the document is rejected afterwards): at the quote, `out` is `é😀` -/
example : feed ⟨{}, .str, .value⟩ init 0 [0x5b, 0x22, 0xc3, 0xa9, 0xf0, 0x9f, 0x98, 0x80] =
    .ok ({ mode := .str { out := [0x80, 0x98, 0x9f, 0xf0, 0xa9, 0xc3] }, stack := [.arr []] }, 8) := rfl
example : Spec.Utf8.validUtf8 [0xc3, 0xa9, 0xf0, 0x9f, 0x98, 0x80] = true :=
  c14_utf8_at_closing_quote ⟨{}, .str, .value⟩ [0x5b, 0x22, 0xc3, 0xa9, 0xf0, 0x9f, 0x98, 0x80] [0x78]
    (by decide +kernel) _ 8 rfl _ rfl rfl
/-! ## The number conversion never runs out of fuel

`f64_from_parts` loops (`f /= 1e308; exponent += 308`); the model transcribes the loop with explicit
fuel `|exponent| / 308 + 3` (`308` = `Gen.fromPartsStep`, re-extracted) and an `outOfFuel` result that `numValue` would report as
`NumberOutOfRange`. It is unreachable. -/

/-- **C14 (fuel).** For all parts the machine's scanner can produce (`PartsWF`: ASCII digits, integer
    part `0` or without leading zero, non-empty fraction / exponent digits when present), the default
    conversion never returns `outOfFuel`. -/
theorem c14_no_fuel (p : Model.Num.Parts) (hwf : SJ.Proofs.NumLink.PartsWF p) :
    Model.Num.convertDefault p ≠ .outOfFuel :=
  SJ.Proofs.NumLink.convertDefault_ne_outOfFuel p hwf

/-- the `f64_from_parts` transcription itself, for every significand and every exponent -/
theorem c14_no_fuel_f64_from_parts (positive : Bool) (s : Nat) (e : Int) :
    Model.Num.f64FromParts positive s e ≠ .outOfFuel :=
  SJ.Proofs.NumLink.f64FromParts_ne_outOfFuel positive s e

/-- the `float_roundtrip` conversion has no fuelled loop at all -/
theorem c14_no_fuel_roundtrip (p : Model.Num.Parts) : Model.Num.convertRoundtrip p ≠ .outOfFuel := by
  have hex : ∀ a b c, Model.Num.exponentOverflow a b c ≠ .outOfFuel := by
    intro a b c; unfold Model.Num.exponentOverflow; split <;> (intro h; cases h)
  have hconv : Model.Num.convertRoundtrip.conv p ≠ .outOfFuel := by
    unfold Model.Num.convertRoundtrip.conv
    cases Model.Num.exact p with
    | zero => intro h; cases h
    | tiny => intro h; cases h
    | huge => intro h; cases h
    | rat n d =>
      simp only
      cases (if d == 0 then none else Spec.Ieee.roundNE64 p.neg n d) <;> (intro h; cases h)
  unfold Model.Num.convertRoundtrip
  cases hi : Model.Num.intClass p with
  | some r =>
    simp only
    intro h; subst h
    simp only [Model.Num.intClass] at hi
    repeat' split at hi
    all_goals simp at hi
  | none =>
    simp only
    split
    · split
      · exact hex _ _ _
      · exact hconv
    · exact hconv

/-- **C14 (fuel), at the machine.** Whenever the machine ends a number (`endNumber` → `numValue`) in a
    state satisfying the scanner invariant of the soundness proof (`NumInv`, preserved by every step:
    `Proofs.Sound.stepNum_next`) in a phase where a number may end, neither conversion is out of fuel:
    the `outOfFuel` arm of `numValue` is dead code. -/
theorem c14_no_fuel_machine (n : NumSt) (hi : SJ.Proofs.Sound.NumInv n)
    (hf : SJ.Proofs.Sound.FinalPhase n.phase) :
    Model.Num.convertDefault n.parts ≠ .outOfFuel ∧ Model.Num.convertRoundtrip n.parts ≠ .outOfFuel := by
  obtain ⟨p, hwf, _, hp⟩ := SJ.Proofs.Sound.numInv_final n hi hf
  rw [← hp]
  exact ⟨c14_no_fuel _ (SJ.Proofs.NumLinkParser.partsOf_wf p hwf), c14_no_fuel_roundtrip _⟩

/-- every RFC 8259 number literal, as scanned -/
theorem c14_no_fuel_literal (p : Spec.Grammar.NumParts) (hwf : p.WF = true) :
    Model.Num.convertDefault (Spec.Canon.partsOf p) ≠ .outOfFuel :=
  c14_no_fuel _ (SJ.Proofs.NumLinkParser.partsOf_wf p hwf)

/-- non-vacuity: `1e-99999` gets fuel 327 and ends in `+0.0` in the third round (`f` has become `0`);
    two rounds would not have been enough -/
example : Model.Num.f64FromParts true 1 (-99999) = .ok 0 := by decide +kernel
example : Model.Num.f64FromPartsLoop 2 (Spec.Ieee.F64.ofU64 1) (-99999) = .outOfFuel := by decide +kernel
example : SJ.Proofs.NumLink.PartsWF ⟨false, [0x31], none, some (true, [0x39, 0x39, 0x39, 0x39, 0x39]),
    [0x31, 0x65, 0x2d, 0x39, 0x39, 0x39, 0x39, 0x39]⟩ :=
  SJ.Proofs.NumLinkParser.partsOf_wf ⟨false, [0x31], [], [0x65, 0x2d, 0x39, 0x39, 0x39, 0x39, 0x39]⟩ (by decide)

/-! ## The depth budget is restored between the items of a stream

`Model.StreamDepth` threads the `remaining_depth` counter of the `Deserializer` that a `StreamDeserializer`
owns through the whole stream, decrementing and incrementing it where `check_recursion!` does, and tests
the limit on the COUNTER (`historyD`: item, `byte_offset()`, counter after each call of `next()`). -/

open SJ.Model.Stream SJ.Model.StreamDepth SJ.Proofs.StreamDepth in
/-- **C14 (depth budget restored).** For every configuration, item type, input and number of calls: the stream
    with the explicit counter yields exactly the items and offsets of the stream model in which every item is
    parsed from a fresh state (so C12's theorems are about it), and after every call that yields a value the
    counter is back at its initial 128 — the next item again has 127 levels. It is also back at 128 after an
    item that fails, except that `RecursionLimitExceeded` itself leaves 127 (the macro returns before its
    `+= 1`); by then the stream is fused (`c12_fused`), so no item is ever parsed with less than the full
    budget (`c14_stream_item_budget`). -/
theorem c14_stream_depth_restored (env : Env) (k : Nat) (bs : Bytes) :
    (historyD env k (startD bs)).map (fun x => (x.1, x.2.1)) = history env k (start bs) ∧
    ∀ x ∈ historyD env k (startD bs), counting env = true →
      match x.1 with
      | .ok _ => x.2.2 = 128
      | .err c _ => (c ≠ .RecursionLimitExceeded ∧ x.2.2 = 128) ∨ (c = .RecursionLimitExceeded ∧ x.2.2 = 127)
      | .none => True := by
  obtain ⟨h1, h2⟩ := historyD_spec env k (startD bs) (fresh_start env bs)
  refine ⟨h1, fun x hx hc => ?_⟩
  cases hit : x.1 with
  | none => trivial
  | ok v =>
    have := h2 x hx (by rw [hit]; intro h; cases h) hc
    rw [hit] at this
    exact this
  | err c i =>
    have := h2 x hx (by rw [hit]; intro h; cases h) hc
    rw [hit] at this
    simp only at this ⊢
    rcases this with ⟨h3, h4⟩ | ⟨h3, h4⟩
    · exact .inl ⟨h3, h4⟩
    · refine .inr ⟨h3, ?_⟩
      have : Gen.remainingDepthInit = 128 := rfl
      omega

open SJ.Model.Stream SJ.Model.StreamDepth SJ.Proofs.StreamDepth in
/-- before every call of `next()` — after any history of calls — the stream has failed (the call returns
    `None` without parsing), or the counter stands at 128: every item that is parsed gets the full budget -/
theorem c14_stream_item_budget (env : Env) (k : Nat) (bs : Bytes) :
    (stateD env k (startD bs)).ss.failed = true ∨ (counting env = true → (stateD env k (startD bs)).depth = 128) :=
  fresh_stateD env k (startD bs) (fresh_start env bs)

/-- non-vacuity: two items nested 127 deep, separated by a space: both are accepted and the counter is 128
    after each; 128 opening brackets: `RecursionLimitExceeded`, counter 127, then `None` -/
def deep (n : Nat) : Bytes := List.replicate n 0x5b ++ List.replicate n 0x5d
def envD : Env := { cfg := {}, src := .slice, tgt := .value }
open SJ.Model.Stream SJ.Model.StreamDepth in
example : (historyD envD 3 (startD (deep 127 ++ [0x20] ++ deep 127))).map (fun x =>
    ((match x.1 with | .ok _ => 1 | .err _ _ => 2 | .none => 0), x.2.1, x.2.2)) =
    [(1, 254, 128), (1, 509, 128), (0, 509, 128)] := by decide +kernel
open SJ.Model.Stream SJ.Model.StreamDepth in
example : (historyD envD 2 (startD (deep 128))).map (fun x =>
    ((match x.1 with | .ok _ => 1 | .err .RecursionLimitExceeded _ => 3 | .err _ _ => 2 | .none => 0), x.2.1, x.2.2)) =
    [(3, 0, 127), (0, 0, 127)] := by decide +kernel
open SJ.Model.Stream SJ.Model.StreamDepth in
/-- a failing first item that is not the recursion limit: `[[1,]` leaves 128 (both open arrays unwound) -/
example : (historyD envD 1 (startD [0x5b, 0x5b, 0x31, 0x2c, 0x5d])).map (fun x => x.2.2) = [128] := by decide +kernel

end SJ.Props.C14
