import SJ.Proofs.RoundTrip
import SJ.Proofs.RoundTripSer
import SJ.Proofs.RoundTripWF
import SJ.Props.C02
import SJ.Props.C01
import SJ.Props.C09
import SJ.Proofs.ParsedFinite
import SJ.Proofs.LexTopParser
import SJ.Props.C03
import SJ.Proofs.TypedSerClosed
import SJ.Proofs.TypedFloatLink
import SJ.Proofs.TypedPrettyAll
import SJ.Proofs.TypedRTGen
import SJ.Proofs.TypedSerClosedL
import SJ.Proofs.TypedSameAp
/-!
# C04 — serialise then deserialise is the identity (the `Value` clause)

Property theorems only; helper lemmas live in `SJ/Proofs/RoundTrip*.lean`.

The theorems are obtained **by composition**:

1. C03 for the `Value` fragment (`Proofs.RoundTripSer.ser_value`): `to_string(v)` / pretty output is
   one RFC 8259 `value` whose syntax tree is `cstOf (imageOfValue ext v)` — the tree C03's `c03_value`
   names; it is re-proved here in a *layout-independent* form (the formatter literals re-extracted
   from `src/ser.rs` are only required to be their structural character plus JSON whitespace), so
   that a change of the pretty layout which keeps the output JSON alarms C03 (which pins the layout)
   but not C04;
2. C01 completeness (`c01_complete_value`): a derivable text meeting the side conditions is accepted
   by `from_str` / `from_slice` / `from_reader`, with value `canonM cfg t`;
3. `canonM_image` (`Proofs/RoundTrip.lean`): for a well-formed value, `canonM cfg` of that tree is
   `some v` — strings: escape-then-decode is the identity; integers: the printed digits re-classify
   to the same `PosInt`/`NegInt`; objects: re-inserting sorted (distinct) keys rebuilds the object;
   floats: *only* by the named hypothesis `FloatsRoundTrip` on the printer/parser pair;
4. the side conditions (depth, surrogate pairing, UTF-8, numeric range) follow from `WFValue`.

* `WFValue cfg v` — the representation invariant (`Spec.WF.wfValue`): `PosInt < 2^64`,
  `-2^63 ≤ NegInt < 0`, floats finite, strings/keys valid UTF-8, keys strictly ascending (default) or
  distinct (`preserve_order`), `arbitrary_precision`: numbers are RFC 8259 literals (and only
  literals), nesting depth ≤ 127 unless the limit is off.
* `FloatsRoundTrip cfg ext v` — for every `Float(b)` **in `v`**: the text `ext.ryu64 b`, read as a
  number literal and converted by the configured algorithm (`Spec.Canon.numOf`), is `Float(b)`. Under
  `float_roundtrip` this is C07's corollary for a correct shortest-digits printer; in the other
  builds it holds for doubles printing as short literals (C08's exact case). A hypothesis, never an
  axiom; `c04_value_nofloat` and `c04_value_ap` do not need it at all.
* `c04_wf_of_parse`: whatever the parser returns is `WFValue` (no float hypothesis: the conversions return
  finite floats only, `c04_parsed_floats_finite`, from C08 / `SJ/Proofs/ParsedFinite.lean`), hence
  `c04_reparse`: serialise-then-parse of any parsed value gives it back.
-/
namespace SJ.Props.C04
open SJ SJ.Model.Ser SJ.Model.Machine SJ.Spec.Grammar SJ.Spec.Image SJ.Spec.WF
open SJ.Proofs.CanonM SJ.Proofs.RoundTrip SJ.Proofs.RoundTripSer SJ.Proofs.RoundTripWF SJ.Props.C01

/-! an instance of the assumptions on the external printers, for the non-vacuity examples: real `itoa`,
    and a "ryu" that prints every float as `1.5` -/
def ext0 : Ext := { itoa := Spec.Number.decimal, ryu64 := fun _ => [0x31, 0x2e, 0x35], ryu32 := fun _ => [0x31, 0x2e, 0x35] }
theorem ext0_ok : ExtOK ext0 :=
  ⟨fun _ => rfl, fun _ _ => ⟨⟨false, [0x31], [0x2e, 0x35], []⟩, rfl, rfl⟩,
   fun _ _ => ⟨⟨false, [0x31], [0x2e, 0x35], []⟩, rfl, rfl⟩⟩

/-- the representation invariant of a `Value` in the build `cfg` -/
def WFValue (cfg : Cfg) (v : JV) : Prop := wfValue (specCfg cfg) v = true
instance (cfg : Cfg) (v : JV) : Decidable (WFValue cfg v) := inferInstanceAs (Decidable (_ = true))

/-- the printer/parser pair returns every `Float` that occurs in `v` -/
def FloatsRoundTrip (cfg : Cfg) (ext : Ext) (v : JV) : Prop := floatsRT (specCfg cfg) ext v = true
instance (cfg : Cfg) (ext : Ext) (v : JV) : Decidable (FloatsRoundTrip cfg ext v) :=
  inferInstanceAs (Decidable (_ = true))

/-- the printer/parser pair returns every finite double (the global form of the hypothesis) -/
def FloatRoundTrips (cfg : Cfg) (ext : Ext) : Prop :=
  ∀ b : UInt64, finite64 b = true → floatRT (specCfg cfg) ext b = true

/-- step 1 (the `Value` fragment of C03, layout-independently): `to_string(v)` never fails and writes one
    RFC 8259 `value` whose syntax tree is `cstOf (imageOfValue ext v)`; so does the pretty printer for
    every indent made of JSON whitespace. (`valueLitsOK`: under `arbitrary_precision` the stored literals
    are numbers; implied by `WFValue`.) -/
theorem c04_written_text (ext : Ext) (hext : ExtOK ext) (v : JV) (hl : valueLitsOK v = true) :
    (∃ bufs, serCompact ext (ofValue v) = .ok bufs ∧ Derives bufs.flatten (cstOf (imageOfValue ext v))) ∧
    (∀ indent, Ws indent → ∃ bufs, serPretty ext indent (ofValue v) = .ok bufs ∧
      Derives bufs.flatten (cstOf (imageOfValue ext v))) := by
  constructor
  · obtain ⟨r, hr, hd⟩ := ser_value ext hext .compact trivial v FState.init hl
    exact ⟨r.bufs, by simp [serCompact, hr, Except.map], hd⟩
  · intro indent hws
    obtain ⟨r, hr, hd⟩ := ser_value ext hext (.pretty indent) hws v FState.init hl
    exact ⟨r.bufs, by simp [serPretty, hr, Except.map], hd⟩

/-- `[{"k":[]},"\u001a"]`, compact (the pretty spelling is deliberately not pinned here: its layout is
    C03's subject) -/
example : (serCompact ext0 (ofValue (.arr [.obj [([0x6b], .arr [])], .str [0x1a]]))).map List.flatten = .ok
    [0x5b, 0x7b, 0x22, 0x6b, 0x22, 0x3a, 0x5b, 0x5d, 0x7d, 0x2c, 0x22, 0x5c, 0x75, 0x30, 0x30, 0x31, 0x61, 0x22, 0x5d] := rfl

/-- steps 2–4: any spelling of the printed tree (compact or pretty) is read back as `v` -/
theorem c04_reads_back (cfg : Cfg) (src : Src) (ext : Ext) (hext : ExtOK ext) (v : JV)
    (hwf : WFValue cfg v) (hfl : FloatsRoundTrip cfg ext v) (bs : Bytes)
    (hd : Derives bs (cstOf (imageOfValue ext v))) :
    parseTop ⟨cfg, src, .value⟩ bs = .ok v := by
  simp only [WFValue, wfValue, Bool.and_eq_true, Bool.or_eq_true, decide_eq_true_eq] at hwf
  obtain ⟨hs, hdep⟩ := hwf
  have hc := canonM_image cfg ext hext v hs hfl
  obtain ⟨v', hp, hc'⟩ := c01_complete_value ⟨cfg, src, .value⟩ rfl bs _
    ⟨[], bs, [], by simp, by decide, by decide, hd⟩
    (by rw [depth_image]; exact hdep)
    (surrogatesPaired_image ext v)
    (fun _ => stringsUtf8_image ext _ v hs)
    (numbersInRange_of_canonM cfg _ v hc)
  rw [hc] at hc'; cases hc'
  exact hp

/-- **C04 (`Value`, compact).** `from_str(to_string(v)) = v`, likewise `from_slice(to_vec(v))` and
    `from_reader(to_writer(v))` (`src`), for every well-formed value whose floats the printer/parser
    pair returns, in every build (`cfg`). -/
theorem c04_value (cfg : Cfg) (src : Src) (ext : Ext) (hext : ExtOK ext) (v : JV)
    (hwf : WFValue cfg v) (hfl : FloatsRoundTrip cfg ext v) :
    ∃ bufs, serCompact ext (ofValue v) = .ok bufs ∧
      parseTop ⟨cfg, src, .value⟩ bufs.flatten = .ok v := by
  have hl : valueLitsOK v = true := by
    simp only [WFValue, wfValue, Bool.and_eq_true] at hwf
    exact valueLitsOK_of_shapeOK _ v hwf.1
  obtain ⟨r, hr, hd⟩ := ser_value ext hext .compact trivial v FState.init hl
  exact ⟨r.bufs, by simp [serCompact, hr, Except.map], c04_reads_back cfg src ext hext v hwf hfl _ hd⟩

/-! ### non-vacuity: `{"a":[null,-7,"a\"b\né"],"b":18446744073709551615,"b\u0000":true}` -/

def exV : JV :=
  .obj [([0x61], .arr [.null, .num (.neg (-7)), .str [0x61, 0x22, 0x62, 0x0a, 0xc3, 0xa9]]),
        ([0x62], .num (.pos 18446744073709551615)),
        ([0x62, 0x00], .bool true)]

example : WFValue {} exV ∧ WFValue { po := true, fr := true } exV ∧ noFloat exV = true := by decide

/-- the text: `{"a":[null,-7,"a\"b\né"],"b":18446744073709551615,"b\u0000":true}` -/
example : (serCompact ext0 (ofValue exV)).map List.flatten = .ok
    [0x7b, 0x22, 0x61, 0x22, 0x3a, 0x5b, 0x6e, 0x75, 0x6c, 0x6c, 0x2c, 0x2d, 0x37, 0x2c, 0x22, 0x61, 0x5c, 0x22, 0x62,
     0x5c, 0x6e, 0xc3, 0xa9, 0x22, 0x5d, 0x2c, 0x22, 0x62, 0x22, 0x3a, 0x31, 0x38, 0x34, 0x34, 0x36, 0x37, 0x34, 0x34,
     0x30, 0x37, 0x33, 0x37, 0x30, 0x39, 0x35, 0x35, 0x31, 0x36, 0x31, 0x35, 0x2c, 0x22, 0x62, 0x5c, 0x75, 0x30, 0x30,
     0x30, 0x30, 0x22, 0x3a, 0x74, 0x72, 0x75, 0x65, 0x7d] := rfl

example : ∃ bufs, serCompact ext0 (ofValue exV) = .ok bufs ∧
    parseTop ⟨{}, .reader, .value⟩ bufs.flatten = .ok exV :=
  c04_value {} .reader ext0 ext0_ok exV (by decide) (by decide)

/-- **C04 (`Value`, pretty).** The same through `PrettyFormatter::with_indent(indent)` for every indent
    string made of JSON whitespace (`to_string_pretty` is `indent = "  "`). -/
theorem c04_value_pretty (cfg : Cfg) (src : Src) (ext : Ext) (hext : ExtOK ext) (indent : Bytes)
    (hws : Ws indent) (v : JV) (hwf : WFValue cfg v) (hfl : FloatsRoundTrip cfg ext v) :
    ∃ bufs, serPretty ext indent (ofValue v) = .ok bufs ∧
      parseTop ⟨cfg, src, .value⟩ bufs.flatten = .ok v := by
  have hl : valueLitsOK v = true := by
    simp only [WFValue, wfValue, Bool.and_eq_true] at hwf
    exact valueLitsOK_of_shapeOK _ v hwf.1
  obtain ⟨r, hr, hd⟩ := ser_value ext hext (.pretty indent) hws v FState.init hl
  exact ⟨r.bufs, by simp [serPretty, hr, Except.map], c04_reads_back cfg src ext hext v hwf hfl _ hd⟩

example : ∃ bufs, serPretty ext0 [0x20, 0x09] (ofValue exV) = .ok bufs ∧
    parseTop ⟨{ po := true }, .str, .value⟩ bufs.flatten = .ok exV :=
  c04_value_pretty { po := true } .str ext0 ext0_ok [0x20, 0x09] (by decide) exV (by decide) (by decide)

/-- the hypothesis `Ws indent` is needed: with indent `ab` the pretty output of `[null]` is rejected -/
example : (match serPretty ext0 [0x61, 0x62] (ofValue (.arr [.null])) with
    | .ok bufs => (match parseTop ⟨{}, .str, .value⟩ bufs.flatten with | .ok _ => false | .err _ _ => true)
    | .error _ => false) = true := rfl

/-- **C04 without floats**: no hypothesis on the float printer/parser pair at all. -/
theorem c04_value_nofloat (cfg : Cfg) (src : Src) (ext : Ext) (hext : ExtOK ext) (v : JV)
    (hwf : WFValue cfg v) (hnf : noFloat v = true) :
    (∃ bufs, serCompact ext (ofValue v) = .ok bufs ∧
      parseTop ⟨cfg, src, .value⟩ bufs.flatten = .ok v) ∧
    (∀ indent, Ws indent → ∃ bufs, serPretty ext indent (ofValue v) = .ok bufs ∧
      parseTop ⟨cfg, src, .value⟩ bufs.flatten = .ok v) :=
  ⟨c04_value cfg src ext hext v hwf (floatsRT_of_noFloat _ ext v hnf),
   fun indent hws => c04_value_pretty cfg src ext hext indent hws v hwf (floatsRT_of_noFloat _ ext v hnf)⟩


example : (∃ bufs, serCompact ext0 (ofValue exV) = .ok bufs ∧
      parseTop ⟨{ fr := true }, .slice, .value⟩ bufs.flatten = .ok exV) :=
  (c04_value_nofloat { fr := true } .slice ext0 ext0_ok exV (by decide) (by decide)).1

/-! ### each clause of `WFValue` is needed -/

/-- a `NegInt` holding a non-negative number (not constructible through `Number::from`) comes back as
    `PosInt` -/
example : ¬ WFValue {} (.num (.neg 5)) ∧
    (serCompact ext0 (ofValue (.num (.neg 5)))).map List.flatten = .ok [0x35] ∧
    parseTop ⟨{}, .str, .value⟩ [0x35] = .ok (.num (.pos 5)) := ⟨by decide, rfl, rfl⟩

/-- an object whose entries are not in key order (not constructible in the default build) comes back
    sorted; under `preserve_order` it is well-formed and comes back as it is -/
example : ¬ WFValue {} (.obj [([0x62], .null), ([0x61], .null)]) ∧
    WFValue { po := true } (.obj [([0x62], .null), ([0x61], .null)]) ∧
    (serCompact ext0 (ofValue (.obj [([0x62], .null), ([0x61], .null)]))).map List.flatten
      = .ok [0x7b, 0x22, 0x62, 0x22, 0x3a, 0x6e, 0x75, 0x6c, 0x6c, 0x2c, 0x22, 0x61, 0x22, 0x3a, 0x6e, 0x75, 0x6c, 0x6c, 0x7d] ∧
    parseTop ⟨{}, .str, .value⟩
      [0x7b, 0x22, 0x62, 0x22, 0x3a, 0x6e, 0x75, 0x6c, 0x6c, 0x2c, 0x22, 0x61, 0x22, 0x3a, 0x6e, 0x75, 0x6c, 0x6c, 0x7d]
      = .ok (.obj [([0x61], .null), ([0x62], .null)]) ∧
    parseTop ⟨{ po := true }, .str, .value⟩
      [0x7b, 0x22, 0x62, 0x22, 0x3a, 0x6e, 0x75, 0x6c, 0x6c, 0x2c, 0x22, 0x61, 0x22, 0x3a, 0x6e, 0x75, 0x6c, 0x6c, 0x7d]
      = .ok (.obj [([0x62], .null), ([0x61], .null)]) := ⟨by decide, by decide, rfl, rfl, rfl⟩

/-- a duplicate key: the second entry is lost -/
example : ¬ WFValue { po := true } (.obj [([0x61], .null), ([0x61], .bool true)]) := by decide

/-- 128 nested arrays serialise but are refused by the parser (`RecursionLimitExceeded`) -/
example : ¬ WFValue {} ((List.range 128).foldl (fun v _ => .arr [v]) .null) ∧
    WFValue {} ((List.range 127).foldl (fun v _ => .arr [v]) .null) ∧
    WFValue { limitOff := true } ((List.range 128).foldl (fun v _ => .arr [v]) .null) := by decide +kernel

/-- a non-finite `Float` (which `Number::from_f64` refuses to build) is printed as `null` -/
example : ¬ WFValue {} (.num (.float 0x7ff0000000000000)) ∧
    (serCompact ext0 (ofValue (.num (.float 0x7ff0000000000000)))).map List.flatten = .ok [0x6e, 0x75, 0x6c, 0x6c] :=
  ⟨by decide, rfl⟩

/-- **C04 under `arbitrary_precision`**: a well-formed value holds number *literals* only, which are
    written and read back verbatim — every well-formed value round-trips, with no float hypothesis. -/
theorem c04_value_ap (cfg : Cfg) (hap : cfg.ap = true) (src : Src) (ext : Ext) (hext : ExtOK ext) (v : JV)
    (hwf : WFValue cfg v) :
    (∃ bufs, serCompact ext (ofValue v) = .ok bufs ∧
      parseTop ⟨cfg, src, .value⟩ bufs.flatten = .ok v) ∧
    (∀ indent, Ws indent → ∃ bufs, serPretty ext indent (ofValue v) = .ok bufs ∧
      parseTop ⟨cfg, src, .value⟩ bufs.flatten = .ok v) := by
  have hs : shapeOK (specCfg cfg) v = true := by
    simp only [WFValue, wfValue, Bool.and_eq_true] at hwf; exact hwf.1
  exact c04_value_nofloat cfg src ext hext v hwf (noFloat_of_ap _ hap v hs)


/-- `[-0.0e0, 1E400]` kept as literals (one of them has no `f64` value at all) -/
def exAp : JV := .arr [.num (.lit [0x2d, 0x30, 0x2e, 0x30, 0x65, 0x30]), .num (.lit [0x31, 0x45, 0x34, 0x30, 0x30])]

example : WFValue { ap := true } exAp := by decide

example : ∃ bufs, serCompact ext0 (ofValue exAp) = .ok bufs ∧
    parseTop ⟨{ ap := true }, .slice, .value⟩ bufs.flatten = .ok exAp :=
  (c04_value_ap { ap := true } rfl .slice ext0 ext0_ok exAp (by decide)).1

/-- integers and floats as such are not values of the `arbitrary_precision` build, and a literal is not
    a value of the other builds -/
example : ¬ WFValue { ap := true } (.num (.pos 1)) ∧ ¬ WFValue {} (.num (.lit [0x31])) := by decide

/-- **C04 with the global float hypothesis** (`FloatRoundTrips`: the pair returns every finite double —
    under `float_roundtrip`, C07's corollary for a shortest-digits printer): every well-formed value
    round-trips through both formatters. -/
theorem c04_value_all_floats (cfg : Cfg) (src : Src) (ext : Ext) (hext : ExtOK ext)
    (hfr : FloatRoundTrips cfg ext) (v : JV) (hwf : WFValue cfg v) :
    (∃ bufs, serCompact ext (ofValue v) = .ok bufs ∧
      parseTop ⟨cfg, src, .value⟩ bufs.flatten = .ok v) ∧
    (∀ indent, Ws indent → ∃ bufs, serPretty ext indent (ofValue v) = .ok bufs ∧
      parseTop ⟨cfg, src, .value⟩ bufs.flatten = .ok v) := by
  have hs : shapeOK (specCfg cfg) v = true := by
    simp only [WFValue, wfValue, Bool.and_eq_true] at hwf; exact hwf.1
  have hfl : FloatsRoundTrip cfg ext v := floatsRT_of_all _ ext hfr v hs
  exact ⟨c04_value cfg src ext hext v hwf hfl,
    fun indent hws => c04_value_pretty cfg src ext hext indent hws v hwf hfl⟩


/-! ### non-vacuity of the float hypothesis: `ext0` prints every double as `1.5` — the pair returns
    exactly the double 1.5 (bits 0x3ff8000000000000), in the default and the `float_roundtrip` build -/

def exF : JV := .arr [.num (.float 0x3ff8000000000000), .num (.neg (-9223372036854775808))]

example : WFValue {} exF ∧ FloatsRoundTrip {} ext0 exF ∧ FloatsRoundTrip { fr := true } ext0 exF := by
  decide +kernel

example : ∃ bufs, serCompact ext0 (ofValue exF) = .ok bufs ∧
    parseTop ⟨{}, .str, .value⟩ bufs.flatten = .ok exF :=
  c04_value {} .str ext0 ext0_ok exF (by decide) (by decide +kernel)

/-- the hypothesis is needed: the double 2.5, printed (wrongly) as `1.5` by `ext0`, comes back as 1.5 -/
example : WFValue {} (.num (.float 0x4004000000000000)) ∧ ¬ FloatsRoundTrip {} ext0 (.num (.float 0x4004000000000000)) ∧
    (parseTop ⟨{}, .str, .value⟩ [0x31, 0x2e, 0x35]).isOk (.num (.float 0x3ff8000000000000)) = true :=
  ⟨by decide, by decide +kernel, by decide +kernel⟩


/-! ## every value the parser returns is well-formed — so the round trip applies to it -/

/-- **C04 (the finiteness clause of C07 / C08).** In every configuration the configured number conversion
    makes finite floats only of well-formed literals: the default build's `f64_from_parts` path is
    `Model.FloatDefault` (C08: `c08_finite_signed` through the link `c08p_link`), the `float_roundtrip`
    conversion returns a `roundNE64` result (which is `none`, i.e. `NumberOutOfRange`, rather than an
    infinity) or a signed zero, and `arbitrary_precision` makes no float. -/
theorem c04_parsed_floats_finite (cfg : Cfg) : ParsedFloatsFinite (specCfg cfg) :=
  Proofs.ParsedFinite.parsedFloatsFinite (specCfg cfg)

/-- `1.7976931348623157e308` (the largest double) is converted to `0x7fefffffffffffff` in both builds;
    `1.8e308` is rejected — never an infinity -/
example : Spec.Canon.numOf { fr := true } ⟨false, [0x31], [0x2e, 0x37, 0x39, 0x37, 0x36, 0x39, 0x33, 0x31, 0x33, 0x34,
      0x38, 0x36, 0x32, 0x33, 0x31, 0x35, 0x37], [0x65, 0x33, 0x30, 0x38]⟩ == some (.float 0x7fefffffffffffff) ∧
    Spec.Canon.numOf { fr := true } ⟨false, [0x31], [0x2e, 0x38], [0x65, 0x33, 0x30, 0x38]⟩ == none ∧
    Spec.Canon.numOf {} ⟨false, [0x31], [0x2e, 0x38], [0x65, 0x33, 0x30, 0x38]⟩ == none := by decide +kernel

/-- **C04 (`wf_of_parse`).** Whatever the parser returns — from any source, in any configuration —
    satisfies the representation invariant: integers in range, floats finite, strings and keys valid
    UTF-8, keys sorted (distinct under `preserve_order`), literals well-formed (`arbitrary_precision`),
    depth ≤ 127 unless the limit is off. For `from_str` the input is valid UTF-8 (what the type `&str`
    guarantees; `from_str` does not re-validate — by C09 it then returns what `from_slice` returns);
    byte sources check it themselves. No hypothesis on floats. -/
theorem c04_wf_of_parse (env : Env) (henv : env.tgt = .value) (bs : Bytes) (v : JV)
    (h : parseTop env bs = .ok v) (hutf : env.src = .str → Spec.Utf8.validUtf8 bs = true) :
    WFValue env.cfg v := by
  obtain ⟨cfg, src, tgt⟩ := env
  simp only at henv hutf ⊢
  subst henv
  have h' : ∃ src', src' ≠ .str ∧ parseTop ⟨cfg, src', .value⟩ bs = .ok v := by
    cases src with
    | str => exact ⟨.slice, by decide, by rw [← SJ.Props.C09.c09_str_slice_value cfg bs (hutf rfl)]; exact h⟩
    | slice => exact ⟨.slice, by decide, h⟩
    | reader => exact ⟨.reader, by decide, h⟩
  obtain ⟨src', hsrc, h'⟩ := h'
  obtain ⟨t, ht, hc, hd, _, hu, _⟩ := SJ.Props.C02.c02_denotes ⟨cfg, src', .value⟩ rfl bs v h'
  obtain ⟨w1, vb, w2, _, _, _, hder⟩ := ht
  have hnw := numsWF_of_derives hder
  have hs := shape_of_canonM cfg t v hnw (hu hsrc) hc
  have hfin := finite_of_canonM cfg (c04_parsed_floats_finite cfg) t v hnw hc
  simp only [WFValue, wfValue, Bool.and_eq_true, Bool.or_eq_true, decide_eq_true_eq]
  refine ⟨hs.1 hfin, ?_⟩
  rcases hd with hd | hd
  · exact .inl hd
  · exact .inr (by have := hs.2; omega)

/-- ` { "b" : 1.5 , "a" : [ -7, "é" ] , "b" : 18446744073709551615 } ` in the default build:
    duplicate key, blanks, an escape — the value read is well-formed and round-trips -/
def exDoc : Bytes :=
  [0x20, 0x7b, 0x22, 0x62, 0x22, 0x3a, 0x31, 0x2e, 0x35, 0x2c, 0x22, 0x61, 0x22, 0x3a, 0x5b, 0x2d, 0x37, 0x2c, 0x22, 0x5c,
   0x75, 0x30, 0x30, 0x65, 0x39, 0x22, 0x5d, 0x2c, 0x22, 0x62, 0x22, 0x3a, 0x31, 0x38, 0x34, 0x34, 0x36, 0x37, 0x34, 0x34,
   0x30, 0x37, 0x33, 0x37, 0x30, 0x39, 0x35, 0x35, 0x31, 0x36, 0x31, 0x35, 0x7d, 0x20]
def exDocV : JV :=
  .obj [([0x61], .arr [.num (.neg (-7)), .str [0xc3, 0xa9]]), ([0x62], .num (.pos 18446744073709551615))]

example : parseTop ⟨{}, .slice, .value⟩ exDoc = .ok exDocV := rfl

example : WFValue {} exDocV := c04_wf_of_parse ⟨{}, .slice, .value⟩ rfl exDoc exDocV rfl (fun h => by cases h)

/-- a float is read: `[2.5e-1]` ↦ 0.25, from a reader under `float_roundtrip`; the value is well-formed
    (in particular the float is finite) by the theorem, not by evaluation -/
example (v : JV) (h : parseTop ⟨{ fr := true }, .reader, .value⟩ [0x5b, 0x32, 0x2e, 0x35, 0x65, 0x2d, 0x31, 0x5d] = .ok v) :
    WFValue { fr := true } v := c04_wf_of_parse ⟨{ fr := true }, .reader, .value⟩ rfl _ v h (fun h => by cases h)

example : (parseTop ⟨{ fr := true }, .reader, .value⟩ [0x5b, 0x32, 0x2e, 0x35, 0x65, 0x2d, 0x31, 0x5d]).isOk
    (.arr [.num (.float 0x3fd0000000000000)]) = true := by decide +kernel

/-- `{"é":"é😀"}` (raw key, escaped value) from a `&str` -/
def exStrDoc : Bytes :=
  [0x7b, 0x22, 0xc3, 0xa9, 0x22, 0x3a, 0x22, 0x5c, 0x75, 0x30, 0x30, 0x65, 0x39, 0xf0, 0x9f, 0x98, 0x80, 0x22, 0x7d]
def exStrDocV : JV := .obj [([0xc3, 0xa9], .str [0xc3, 0xa9, 0xf0, 0x9f, 0x98, 0x80])]

example : parseTop ⟨{}, .str, .value⟩ exStrDoc = .ok exStrDocV := rfl

example : WFValue {} exStrDocV :=
  c04_wf_of_parse ⟨{}, .str, .value⟩ rfl exStrDoc exStrDocV rfl (fun _ => by decide +kernel)

/-- the UTF-8 hypothesis is needed: the model of `from_str` fed non-UTF-8 bytes returns an ill-formed value -/
example : parseTop ⟨{}, .str, .value⟩ [0x22, 0xff, 0x22] = .ok (.str [0xff]) ∧ ¬ WFValue {} (.str [0xff]) :=
  ⟨rfl, by decide +kernel⟩

/-- ` { "b" : 1.0 , "a" : [ 1E400 ] , "b" : -0 } ` under `arbitrary_precision`: a literal without `f64`
    value and `-0` are kept verbatim -/
example : parseTop ⟨{ ap := true }, .slice, .value⟩
      [0x20, 0x7b, 0x22, 0x62, 0x22, 0x3a, 0x31, 0x2e, 0x30, 0x2c, 0x22, 0x61, 0x22, 0x3a, 0x5b, 0x31, 0x45, 0x34, 0x30, 0x30,
       0x5d, 0x2c, 0x22, 0x62, 0x22, 0x3a, 0x2d, 0x30, 0x7d, 0x20]
    = .ok (.obj [([0x61], .arr [.num (.lit [0x31, 0x45, 0x34, 0x30, 0x30])]), ([0x62], .num (.lit [0x2d, 0x30]))]) := rfl

/-- **C04 (`reparse`): serialising what was parsed and parsing again gives the same value.**
    `from_X(to_string(from_Y(bs))) = from_Y(bs)` for all sources `X`, `Y` and both formatters, whenever the
    printer/parser pair returns the floats of the value read (`FloatsRoundTrip`: vacuous for a value
    without floats; C07 + a correct shortest-digits printer under `float_roundtrip`). The only other
    hypothesis is that a `&str` input is valid UTF-8. -/
theorem c04_reparse (env : Env) (henv : env.tgt = .value) (ext : Ext) (hext : ExtOK ext) (bs : Bytes) (v : JV)
    (h : parseTop env bs = .ok v) (hutf : env.src = .str → Spec.Utf8.validUtf8 bs = true)
    (hfl : FloatsRoundTrip env.cfg ext v) (src' : Src) :
    (∃ bufs, serCompact ext (ofValue v) = .ok bufs ∧
      parseTop ⟨env.cfg, src', .value⟩ bufs.flatten = .ok v) ∧
    (∀ indent, Ws indent → ∃ bufs, serPretty ext indent (ofValue v) = .ok bufs ∧
      parseTop ⟨env.cfg, src', .value⟩ bufs.flatten = .ok v) :=
  have hwf := c04_wf_of_parse env henv bs v h hutf
  ⟨c04_value env.cfg src' ext hext v hwf hfl,
   fun indent hws => c04_value_pretty env.cfg src' ext hext indent hws v hwf hfl⟩

example : ∃ bufs, serCompact ext0 (ofValue exDocV) = .ok bufs ∧
    parseTop ⟨{}, .str, .value⟩ bufs.flatten = .ok exDocV :=
  (c04_reparse ⟨{}, .slice, .value⟩ rfl ext0 ext0_ok exDoc exDocV rfl (fun h => by cases h) (by decide) .str).1

example : ∃ bufs, serPretty ext0 [0x09] (ofValue exStrDocV) = .ok bufs ∧
    parseTop ⟨{}, .reader, .value⟩ bufs.flatten = .ok exStrDocV :=
  (c04_reparse ⟨{}, .str, .value⟩ rfl ext0 ext0_ok exStrDoc exStrDocV rfl (fun _ => by decide +kernel) (by decide)
    .reader).2 [0x09] (by decide)

/-- **C04 (`reparse`) under `arbitrary_precision`: no float hypothesis at all** — numbers are kept as
    literals, so every parsed value survives serialise-then-deserialise unchanged. -/
theorem c04_reparse_ap (env : Env) (henv : env.tgt = .value) (hap : env.cfg.ap = true) (ext : Ext)
    (hext : ExtOK ext) (bs : Bytes) (v : JV) (h : parseTop env bs = .ok v)
    (hutf : env.src = .str → Spec.Utf8.validUtf8 bs = true) (src' : Src) :
    (∃ bufs, serCompact ext (ofValue v) = .ok bufs ∧
      parseTop ⟨env.cfg, src', .value⟩ bufs.flatten = .ok v) ∧
    (∀ indent, Ws indent → ∃ bufs, serPretty ext indent (ofValue v) = .ok bufs ∧
      parseTop ⟨env.cfg, src', .value⟩ bufs.flatten = .ok v) :=
  c04_value_ap env.cfg hap src' ext hext v (c04_wf_of_parse env henv bs v h hutf)

/-- `[1E400,-0]` under `arbitrary_precision` -/
example : ∃ bufs, serCompact ext0 (ofValue (.arr [.num (.lit [0x31, 0x45, 0x34, 0x30, 0x30]), .num (.lit [0x2d, 0x30])])) = .ok bufs ∧
    parseTop ⟨{ ap := true }, .slice, .value⟩ bufs.flatten
      = .ok (.arr [.num (.lit [0x31, 0x45, 0x34, 0x30, 0x30]), .num (.lit [0x2d, 0x30])]) :=
  (c04_reparse_ap ⟨{ ap := true }, .str, .value⟩ rfl rfl ext0 ext0_ok
    [0x5b, 0x31, 0x45, 0x34, 0x30, 0x30, 0x2c, 0x2d, 0x30, 0x5d] _ rfl (fun _ => by decide +kernel) .slice).1

/-! ## `float_roundtrip`: the float hypothesis follows from C07 and the hypothesis about `ryu` alone -/

/-- **C04 under `float_roundtrip` (`c04_value_fr`).** With `float_roundtrip` (and without `arbitrary_precision`),
    under the single named hypothesis `RyuShortest ext` about the external printer (`Proofs/LexTopRoundtrip.lean`: the
    text `ryu` writes for a finite double is a number of at most 24 bytes — at most 17 significant digits —, written
    with a fraction or an exponent, whose exact value rounds to nearest-even to the double), every well-formed `Value`
    — *all* finite floats included — survives serialise-then-deserialise, through both formatters and every reader:
    `FloatRoundTrips` is C07's corollary `c07_roundtrip` (lexical's conversion is correctly rounded: `c07_correct`). -/
theorem c04_value_fr (cfg : Cfg) (hfr : cfg.fr = true) (hap : cfg.ap = false) (src : Src) (ext : Ext)
    (hext : ExtOK ext) (hr : SJ.Proofs.LexTopRoundtrip.RyuShortest ext) (v : JV) (hwf : WFValue cfg v) :
    (∃ bufs, serCompact ext (ofValue v) = .ok bufs ∧
      parseTop ⟨cfg, src, .value⟩ bufs.flatten = .ok v) ∧
    (∀ indent, Ws indent → ∃ bufs, serPretty ext indent (ofValue v) = .ok bufs ∧
      parseTop ⟨cfg, src, .value⟩ bufs.flatten = .ok v) :=
  c04_value_all_floats cfg src ext hext
    (fun b hb => SJ.Proofs.LexTopParser.floatRT_fr (specCfg cfg) hfr hap ext hext hr b hb) v hwf

/-- the same for one value whose floats the printer prints well (`FloatsRoundTrip` pointwise from C07): the text
    `1.5` has `ryu`'s shape and its exact value rounds to `0x3ff8000000000000`, so `exF` (`ext0` prints `1.5`) round-trips
    under `float_roundtrip` — by the theorem, not by evaluating lexical -/
example : Spec.WF.floatRT (specCfg { fr := true }) ext0 0x3ff8000000000000 = true :=
  SJ.Proofs.LexTopParser.floatRT_fr_at (specCfg { fr := true }) rfl rfl ext0 0x3ff8000000000000
    (ext0_ok.ryu64_number _ (by decide)) ⟨by decide, by decide, by decide⟩ (by decide +kernel)

/-! ## the typed clause: serialise a typed value, read it back with the typed deserializer -/

open SJ.Model.TypedSer (valueOfL wfTVx f32sOf progOf)

/-- the named hypothesis for an `f32` in a build without `float_roundtrip`: the text `ryu` prints for the `f32`, converted by the
    configured (default) algorithm to an `f64` and cast by serde's visitor (`as f32`), is the `f32` again. (It holds for every
    finite `f32` when the conversion is within the 2^29-fold slack between `f64` and `f32` precision of the 9-digit decimal —
    C08's bounds; not proved here: the harness op `f32all` of C07 checks all 2^32 patterns in the default build.) -/
def F32RoundTrip (cfg : Cfg) (ext : Ext) (b : UInt32) : Prop :=
  ∃ y, Spec.Canon.numOf (specCfg cfg) (Spec.Number.splitNumber (ext.ryu32 b)) = some (Num.float y) ∧ Model.FromValue.f64ToF32 y = b

/-- the hypothesis about the `f32` MEMBERS of a typed value: under `float_roundtrip` the named hypothesis `RyuShortest` about the
    printer (the typed `f32` path parses straight to binary32, correctly rounded: `c07_typed_f32_link`, `c07_correct`); in the
    other builds `F32RoundTrip` for each member -/
def F32sRoundTrip (cfg : Cfg) (ext : Ext) (v : TVal) : Prop :=
  ∀ b ∈ f32sOf v, (cfg.fr = true ∧ SJ.Proofs.LexTopRoundtrip.RyuShortest ext) ∨ (cfg.fr = false ∧ F32RoundTrip cfg ext b)

/-- the pretty formatter's layout for a whitespace indent: a line break and `depth` copies of the indent before every element /
    member and before the closing bracket, one space after the colon -/
def prettyLay (indent : Bytes) (hind : Ws indent) : Proofs.TypedPretty.Lay :=
  ⟨Spec.Image.newline indent, [0x20], fun d => Proofs.TypedPretty.wsB_of_ws (SJ.Proofs.SerLayout.ws_newline indent hind d),
   fun c hc => by simp at hc; subst hc; decide⟩

/-- the core: the typed deserializer (+ `end()`) on the document of a typed value, written in a layout -/
theorem typed_reads_back (mcfg : Cfg) (hap : mcfg.ap = false) (src : Src) (ext : Ext) (hext : ExtOK ext) (L : Proofs.TypedPretty.Lay)
    (s : Schema) (v : TVal) (hw : wfTVx (specCfg mcfg) ext.ryu32 s v = true)
    (hF : FloatsRoundTrip mcfg ext (valueOfL ext.ryu32 s v)) (h32 : F32sRoundTrip mcfg ext v)
    (hd : mcfg.limitOff = true ∨ depthJV (valueOfL ext.ryu32 s v) ≤ 127) :
    Model.Typed.deTypedTop { cfg := mcfg, src := src } s (Proofs.TypedPretty.TL ext L 0 (valueOfL ext.ryu32 s v)) = .ok v := by
  have h32' : ∀ b ∈ f32sOf v, Spec.Program.finite32 b = true →
      Proofs.TypedRT.Reads (Model.Typed.deNumber { cfg := mcfg, src := src } .f32) (.f32 b) (ext.ryu32 b) := by
    intro b hb hfin rest pos hs
    rcases h32 b hb with ⟨hfr, hr⟩ | ⟨hfr, hall⟩
    · exact SJ.Proofs.TypedFloat.deNumber_f32_ryu { cfg := mcfg, src := src } rfl hfr ext hext hr b hfin rest pos
        (SJ.Proofs.TypedFloat.term_of_sep hs)
    · obtain ⟨y, hy, hyb⟩ := hall
      have := SJ.Proofs.TypedFloat.deNumber_f32_default (env := { cfg := mcfg, src := src }) rfl hap ext hext hfr b hfin y hy rest pos hs
      rw [this, hyb]
  have hag := Proofs.TypedRT.reads_gen ext L hext (env := { cfg := mcfg, src := src }) rfl hap
    (Model.Typed.Schema.size s + 1) s (by omega) 0 0 v hw hF h32'
    (by rcases hd with h | h
        · exact .inl h
        · exact .inr (by omega)) [] 0 (.inl rfl)
  simp only [List.append_nil] at hag
  unfold Model.Typed.deTypedTop
  rw [hag]
  simp [Model.Stream.skipWs]

/-- **C04 (typed values, compact) — partial (what is missing: typed data with `Value` members under `arbitrary_precision`).**
    For EVERY schema `s` of the serialisable universe — bool, the twelve integer types (128-bit included), `f64`, `f32`, char,
    `String`, byte buffers, unit / unit structs, `Option`, newtype structs, `Vec`, tuples of any length, maps with every key kind
    (string, the twelve integer widths, bool, char, unit-variant enums), structs, externally tagged enums with unit / newtype /
    tuple (ZERO-length included) / struct variants, and `Value` members — and every well-formed value `v` of that type
    (`wfTVx`: the value inhabits the type, floats finite, strings valid UTF-8, `char`s scalar values, field / variant / key names
    distinct valid UTF-8, a `Value` member is a value of the build (`shapeOK`), and not the documented exception: no `Some(x)`
    whose `x` serialises as JSON `null`) whose text nests at most 127 deep (or the limit is off), whose `f64` members (and floats
    inside `Value` members) the printer / parser pair returns (`hF`: the named hypothesis `FloatsRoundTrip` on the written
    document `valueOfL ext.ryu32 s v` — discharged from `RyuShortest` under `float_roundtrip`: `c04_typed_fr`; vacuous without
    such members: `c04_typed_nofloat`; in the default build it holds for members printing as short literals, C08) and whose
    `f32` members `deserialize_f32` returns (`h32`: `F32sRoundTrip` — per member: `RyuShortest` under `float_roundtrip`, the named
    `F32RoundTrip` otherwise; vacuous without `f32` members):
    `to_string` — the calls `Serialize` makes (`progOf s v`) run through the serializer model — succeeds, and `from_str::<T>`
    of that text (typed deserializer + `end()`, any source) returns `v`.
    Proved DIRECTLY on the written text (`Proofs/TypedRT*.lean`: `reads_gen`, the success direction of the typed deserializer on
    the text of each member, threaded through the container loops of `de.rs`), composed with C03 (`c03_compact`: the text is
    `render` of the program's image) and `image_progOfL` (that image is the image of the document `valueOfL`); the leaves of the
    former composition (`agree_gen_L` + `fromValue_valueOf`) are reused. Under `arbitrary_precision`: `c04_typed_ap_partial`
    (schemas without `Value` members). `IgnoredAny` has no `Serialize` impl. The `Serialize` impls themselves are serde's /
    serde_derive's (assumption; the correspondence op `rtm` replays exactly these calls against the crate). -/
theorem c04_typed_partial (mcfg : Cfg) (hap : mcfg.ap = false) (src : Src) (ext : Ext) (hext : ExtOK ext)
    (s : Schema) (v : TVal) (hw : wfTVx (specCfg mcfg) ext.ryu32 s v = true)
    (hF : FloatsRoundTrip mcfg ext (valueOfL ext.ryu32 s v)) (h32 : F32sRoundTrip mcfg ext v)
    (hd : mcfg.limitOff = true ∨ depthJV (valueOfL ext.ryu32 s v) ≤ 127) :
    ∃ bufs, serCompact ext (progOf s v) = .ok bufs ∧
      Model.Typed.deTypedTop { cfg := mcfg, src := src } s bufs.flatten = .ok v := by
  have himg := Proofs.TypedSer.image_progOfL ext hext (specCfg mcfg) s v hw
  have hpw := Proofs.TypedSer.progOf_wfX ext (specCfg mcfg) s v hw
  cases hser : serCompact ext (progOf s v) with
  | error e =>
    have := ((SJ.Props.C03.c03_error_iff ext hext _ e).1).1 hser
    rw [himg] at this; cases this
  | ok bufs =>
    refine ⟨bufs, rfl, ?_⟩
    obtain ⟨d, hd', htext, _⟩ := SJ.Props.C03.c03_compact ext hext _ hpw bufs hser
    rw [himg] at hd'; cases hd'
    rw [htext]
    exact typed_reads_back mcfg hap src ext hext Proofs.TypedPretty.Lay.compact s v hw hF h32 hd

/-- **C04 (typed values, PRETTY formatter) — partial** (as `c04_typed_partial`: the whole serialisable universe; missing only
    `Value` members under `arbitrary_precision`). For every indent made of JSON whitespace (`Ws indent`; `to_string_pretty` uses
    two spaces): `to_string_pretty` — the calls `Serialize` makes run through `serPretty` — succeeds, and `from_str::<T>` of that
    text (typed deserializer + `end()`, any source) returns `v`. By `c03_pretty_layout` (the text is `layout indent` of the
    program's image), `image_progOfL` and `reads_gen` for the pretty layout (the typed reader skips whitespace wherever the
    pretty printer puts it — before every element, member and closing bracket, after every `:`). -/
theorem c04_typed_pretty_partial (mcfg : Cfg) (hap : mcfg.ap = false) (src : Src) (ext : Ext) (hext : ExtOK ext)
    (indent : Bytes) (hind : Ws indent)
    (s : Schema) (v : TVal) (hw : wfTVx (specCfg mcfg) ext.ryu32 s v = true)
    (hF : FloatsRoundTrip mcfg ext (valueOfL ext.ryu32 s v)) (h32 : F32sRoundTrip mcfg ext v)
    (hd : mcfg.limitOff = true ∨ depthJV (valueOfL ext.ryu32 s v) ≤ 127) :
    ∃ bufs, serPretty ext indent (progOf s v) = .ok bufs ∧
      Model.Typed.deTypedTop { cfg := mcfg, src := src } s bufs.flatten = .ok v := by
  have himg := Proofs.TypedSer.image_progOfL ext hext (specCfg mcfg) s v hw
  have hpw := Proofs.TypedSer.progOf_wfX ext (specCfg mcfg) s v hw
  cases hser : serPretty ext indent (progOf s v) with
  | error e =>
    have := ((SJ.Props.C03.c03_error_iff ext hext _ e).2 indent).1 hser
    rw [himg] at this; cases this
  | ok bufs =>
    refine ⟨bufs, rfl, ?_⟩
    obtain ⟨d, hd', htext, _⟩ := SJ.Props.C03.c03_pretty_layout ext hext indent _ hpw bufs hser
    rw [himg] at hd'; cases hd'
    rw [htext]
    exact typed_reads_back mcfg hap src ext hext (prettyLay indent hind) s v hw hF h32 hd

/-- under `float_roundtrip` and `RyuShortest` the printer / parser pair returns the `f64` members of a well-formed typed value
    and the floats inside its `Value` members -/
theorem floatsRT_of_ryu (mcfg : Cfg) (hfr : mcfg.fr = true) (hap : mcfg.ap = false) (ext : Ext) (hext : ExtOK ext)
    (hr : SJ.Proofs.LexTopRoundtrip.RyuShortest ext) (s : Schema) (v : TVal) (hw : wfTVx (specCfg mcfg) ext.ryu32 s v = true) :
    FloatsRoundTrip mcfg ext (valueOfL ext.ryu32 s v) :=
  Proofs.TypedSer.floatsRT_valueOfL (specCfg mcfg) ext
    (fun b hb => SJ.Proofs.LexTopParser.floatRT_fr (specCfg mcfg) hfr hap ext hext hr b hb) ext.ryu32 s v hw

/-- **C04 (typed values, both formatters) under `float_roundtrip`.** With `float_roundtrip` and the named hypothesis
    `RyuShortest ext` about the external printer, every well-formed typed value of the whole serialisable universe — *all*
    finite `f64` and `f32` members, floats inside `Value` members — survives `to_string` / `to_string_pretty` →
    `from_str::<T>`: both float hypotheses of `c04_typed_partial` are C07's round trip. -/
theorem c04_typed_fr (mcfg : Cfg) (hfr : mcfg.fr = true) (hap : mcfg.ap = false) (src : Src) (ext : Ext) (hext : ExtOK ext)
    (hr : SJ.Proofs.LexTopRoundtrip.RyuShortest ext)
    (s : Schema) (v : TVal) (hw : wfTVx (specCfg mcfg) ext.ryu32 s v = true)
    (hd : mcfg.limitOff = true ∨ depthJV (valueOfL ext.ryu32 s v) ≤ 127) :
    (∃ bufs, serCompact ext (progOf s v) = .ok bufs ∧
      Model.Typed.deTypedTop { cfg := mcfg, src := src } s bufs.flatten = .ok v) ∧
    (∀ indent, Ws indent → ∃ bufs, serPretty ext indent (progOf s v) = .ok bufs ∧
      Model.Typed.deTypedTop { cfg := mcfg, src := src } s bufs.flatten = .ok v) :=
  ⟨c04_typed_partial mcfg hap src ext hext s v hw (floatsRT_of_ryu mcfg hfr hap ext hext hr s v hw) (fun _ _ => .inl ⟨hfr, hr⟩) hd,
   fun indent hind => c04_typed_pretty_partial mcfg hap src ext hext indent hind s v hw
    (floatsRT_of_ryu mcfg hfr hap ext hext hr s v hw) (fun _ _ => .inl ⟨hfr, hr⟩) hd⟩

/-- pretty alone (the former name) -/
theorem c04_typed_pretty_fr (mcfg : Cfg) (hfr : mcfg.fr = true) (hap : mcfg.ap = false) (src : Src) (ext : Ext) (hext : ExtOK ext)
    (hr : SJ.Proofs.LexTopRoundtrip.RyuShortest ext) (indent : Bytes) (hind : Ws indent)
    (s : Schema) (v : TVal) (hw : wfTVx (specCfg mcfg) ext.ryu32 s v = true)
    (hd : mcfg.limitOff = true ∨ depthJV (valueOfL ext.ryu32 s v) ≤ 127) :
    ∃ bufs, serPretty ext indent (progOf s v) = .ok bufs ∧
      Model.Typed.deTypedTop { cfg := mcfg, src := src } s bufs.flatten = .ok v :=
  (c04_typed_fr mcfg hfr hap src ext hext hr s v hw hd).2 indent hind

/-- **C04 (typed values, compact) without floats**: no `f64` / `f32` members and no float inside a `Value` member — no
    hypothesis about the printer / parser pair, every build without `arbitrary_precision` -/
theorem c04_typed_nofloat (mcfg : Cfg) (hap : mcfg.ap = false) (src : Src) (ext : Ext) (hext : ExtOK ext)
    (s : Schema) (v : TVal) (hw : wfTVx (specCfg mcfg) ext.ryu32 s v = true)
    (hnf : noFloat (valueOfL ext.ryu32 s v) = true) (hn32 : f32sOf v = [])
    (hd : mcfg.limitOff = true ∨ depthJV (valueOfL ext.ryu32 s v) ≤ 127) :
    ∃ bufs, serCompact ext (progOf s v) = .ok bufs ∧
      Model.Typed.deTypedTop { cfg := mcfg, src := src } s bufs.flatten = .ok v :=
  c04_typed_partial mcfg hap src ext hext s v hw (SJ.Proofs.RoundTrip.floatsRT_of_noFloat _ ext _ hnf)
    (fun b hb => by rw [hn32] at hb; cases hb) hd

/-- **C04 (typed values) under `arbitrary_precision` — partial (schemas without `Value` members).** With the feature on, the typed
    entry points other than `Value` do not consult it (`c20_typed_same`, `Proofs/TypedSameAp.lean`: the very same code runs), and
    the serializer writes typed integers / floats with `itoa` / `ryu` as without it: for every schema WITHOUT a `Value` member
    (`hasAny s = false`) the statements of `c04_typed_partial` / `c04_typed_pretty_partial` hold verbatim in the
    `arbitrary_precision` build — the float hypotheses being those of the build WITHOUT the feature (typed floats are converted by
    the configured algorithm, not kept as text). What remains: typed data with `Value` members under `arbitrary_precision` (a
    `Value` member then holds number literals, read back verbatim by the machine — `c04_value_ap` for a bare `Value`; the typed
    leaf lemmas around it are proved for the feature off only). -/
theorem c04_typed_ap_partial (mcfg : Cfg) (hap : mcfg.ap = true) (src : Src) (ext : Ext) (hext : ExtOK ext)
    (s : Schema) (hs : Proofs.TypedAp.hasAny s = false) (v : TVal)
    (hw : wfTVx (specCfg { mcfg with ap := false }) ext.ryu32 s v = true)
    (hF : FloatsRoundTrip { mcfg with ap := false } ext (valueOfL ext.ryu32 s v))
    (h32 : F32sRoundTrip { mcfg with ap := false } ext v)
    (hd : mcfg.limitOff = true ∨ depthJV (valueOfL ext.ryu32 s v) ≤ 127) :
    (∃ bufs, serCompact ext (progOf s v) = .ok bufs ∧
      Model.Typed.deTypedTop { cfg := mcfg, src := src } s bufs.flatten = .ok v) ∧
    (∀ indent, Ws indent → ∃ bufs, serPretty ext indent (progOf s v) = .ok bufs ∧
      Model.Typed.deTypedTop { cfg := mcfg, src := src } s bufs.flatten = .ok v) := by
  have henv : Proofs.TypedAp.withAp { cfg := { mcfg with ap := false }, src := src } true = { cfg := mcfg, src := src } := by
    cases mcfg; simp_all [Proofs.TypedAp.withAp]
  have transfer : ∀ bs, Model.Typed.deTypedTop { cfg := { mcfg with ap := false }, src := src } s bs = .ok v →
      Model.Typed.deTypedTop { cfg := mcfg, src := src } s bs = .ok v := by
    intro bs h
    rcases Proofs.TypedAp.rel_top { cfg := { mcfg with ap := false }, src := src } true s hs bs with h1 | ⟨_, h2⟩
    · rw [henv] at h1; rw [h1]; exact h
    · rw [h] at h2; cases h2
  constructor
  · obtain ⟨bufs, h1, h2⟩ := c04_typed_partial { mcfg with ap := false } rfl src ext hext s v hw hF h32 hd
    exact ⟨bufs, h1, transfer _ h2⟩
  · intro indent hind
    obtain ⟨bufs, h1, h2⟩ := c04_typed_pretty_partial { mcfg with ap := false } rfl src ext hext indent hind s v hw hF h32 hd
    exact ⟨bufs, h1, transfer _ h2⟩

/-- **C04 (typed values), the `f32` leaf under `float_roundtrip`.** `to_string(x)` for a finite `x : f32` (the serializer
    prints it with `ryu`'s binary32 digits) followed by `from_str::<f32>` returns `x`, bit for bit (`-0.0` and subnormals
    included), from every source: the typed `f32` path (`single_precision`: parse straight to binary32, `Typed.f32Roundtrip`)
    is lexical's correctly rounded conversion (`c07_typed_f32_link`, `c07_correct`), and `ryu`'s shortest digits round back
    (`RyuShortest`). An instance of `c04_typed_fr`. -/
theorem c04_typed_f32_leaf (mcfg : Cfg) (hfr : mcfg.fr = true) (hap : mcfg.ap = false) (src : Src) (ext : Ext) (hext : ExtOK ext)
    (hr : SJ.Proofs.LexTopRoundtrip.RyuShortest ext) (b : UInt32) (hb : Spec.Program.finite32 b = true) :
    ∃ bufs, serCompact ext (progOf .f32 (.f32 b)) = .ok bufs ∧
      Model.Typed.deTypedTop { cfg := mcfg, src := src } .f32 bufs.flatten = .ok (.f32 b) :=
  (c04_typed_fr mcfg hfr hap src ext hext hr .f32 (.f32 b) (by simpa [wfTVx] using hb) (.inr (by simp [valueOfL, depthJV]))).1

/-- **C04 (typed values), the `f32` leaf in the default build** under the named hypothesis `F32RoundTrip` -/
theorem c04_typed_f32_leaf_default (mcfg : Cfg) (hfr : mcfg.fr = false) (hap : mcfg.ap = false) (src : Src) (ext : Ext)
    (hext : ExtOK ext) (b : UInt32) (hb : Spec.Program.finite32 b = true) (hrt : F32RoundTrip mcfg ext b) :
    ∃ bufs, serCompact ext (progOf .f32 (.f32 b)) = .ok bufs ∧
      Model.Typed.deTypedTop { cfg := mcfg, src := src } .f32 bufs.flatten = .ok (.f32 b) :=
  c04_typed_partial mcfg hap src ext hext .f32 (.f32 b) (by simpa [wfTVx] using hb) (by simp [FloatsRoundTrip, valueOfL, floatsRT])
    (fun b' hb' => by
      have : b' = b := by simpa [f32sOf] using hb'
      subst this
      exact .inr ⟨hfr, hrt⟩) (.inr (by simp [valueOfL, depthJV]))

/-! ### instances -/

/-- `struct S { a: u8, b: Option<String>, e: E }` with `enum E { U, V(u8, String) }`: `{"a":7,"b":null,"e":{"V":[1,"x\n"]}}` -/
def exSchema : Schema :=
  .struct_ [([0x61], .int .u8), ([0x62], .option .string), ([0x65], .enum_ [([0x55], .unit), ([0x56], .tuple [.int .u8, .string])])] false
def exTV : TVal := .struct_ [.int 7, .none, .variant 1 (.seq [.int 1, .str [0x78, 0x0a]])]

example : wfTVx (specCfg {}) ext0.ryu32 exSchema exTV = true ∧ depthJV (valueOfL ext0.ryu32 exSchema exTV) ≤ 127 ∧
    f32sOf exTV = [] := by decide

example : (serCompact ext0 (progOf exSchema exTV)).map List.flatten = .ok
    [0x7b, 0x22, 0x61, 0x22, 0x3a, 0x37, 0x2c, 0x22, 0x62, 0x22, 0x3a, 0x6e, 0x75, 0x6c, 0x6c, 0x2c, 0x22, 0x65, 0x22, 0x3a,
     0x7b, 0x22, 0x56, 0x22, 0x3a, 0x5b, 0x31, 0x2c, 0x22, 0x78, 0x5c, 0x6e, 0x22, 0x5d, 0x7d, 0x7d] := rfl

example : ∃ bufs, serCompact ext0 (progOf exSchema exTV) = .ok bufs ∧
    Model.Typed.deTypedTop { cfg := {}, src := .reader } exSchema bufs.flatten = .ok exTV :=
  c04_typed_nofloat {} rfl .reader ext0 ext0_ok exSchema exTV (by decide) (by decide) (by decide) (.inr (by decide))

/-- `struct P { x: f64, n: Vec<u8> }` with `x = 1.5` (`ext0` prints `1.5`): the float hypothesis holds at this value (by
    evaluation of the default conversion on `1.5`), so the pair round-trips by the theorem -/
def exFSchema : Schema := .struct_ [([0x78], .f64), ([0x6e], .seq (.int .u8))] false
def exFTV : TVal := .struct_ [.f64 0x3ff8000000000000, .seq [.int 1, .int 2]]

example : ∃ bufs, serCompact ext0 (progOf exFSchema exFTV) = .ok bufs ∧
    Model.Typed.deTypedTop { cfg := {}, src := .slice } exFSchema bufs.flatten = .ok exFTV :=
  c04_typed_partial {} rfl .slice ext0 ext0_ok exFSchema exFTV (by decide) (by decide +kernel) (fun b hb => by cases hb)
    (.inr (by decide))

/-- the same two values through the pretty printer (indent: two spaces; a tab), read back from a reader -/
example : ∃ bufs, serPretty ext0 [0x20, 0x20] (progOf exSchema exTV) = .ok bufs ∧
    Model.Typed.deTypedTop { cfg := {}, src := .reader } exSchema bufs.flatten = .ok exTV :=
  c04_typed_pretty_partial {} rfl .reader ext0 ext0_ok [0x20, 0x20] (by decide) exSchema exTV (by decide) (by decide)
    (fun b hb => by cases hb) (.inr (by decide))
example : ∃ bufs, serPretty ext0 [0x09] (progOf exFSchema exFTV) = .ok bufs ∧
    Model.Typed.deTypedTop { cfg := {}, src := .slice } exFSchema bufs.flatten = .ok exFTV :=
  c04_typed_pretty_partial {} rfl .slice ext0 ext0_ok [0x09] (by decide) exFSchema exFTV (by decide) (by decide +kernel)
    (fun b hb => by cases hb) (.inr (by decide))

/-- the three kinds of members the former statement left out, in one value: `struct X { f: f32, v: Value, e: E }` with
    `enum E { Z() }`, `X { f: 1.5, v: [null, {"k": 1}], e: E::Z() }` — written `{"f":1.5,"v":[null,{"k":1}],"e":{"Z":[]}}`.
    The `f32` hypothesis holds at `1.5` (`ext0` prints `1.5`, the default conversion gives the double 1.5, whose cast is the
    `f32` 1.5). -/
def exXSchema : Schema := .struct_ [([0x66], .f32), ([0x76], .any), ([0x65], .enum_ [([0x5a], .tuple [])])] false
def exXTV : TVal := .struct_ [.f32 0x3fc00000, .any (.arr [.null, .obj [([0x6b], .num (.pos 1))]]), .variant 0 (.seq [])]

example : (serCompact ext0 (progOf exXSchema exXTV)).map List.flatten = .ok
    [0x7b, 0x22, 0x66, 0x22, 0x3a, 0x31, 0x2e, 0x35, 0x2c, 0x22, 0x76, 0x22, 0x3a, 0x5b, 0x6e, 0x75, 0x6c, 0x6c, 0x2c, 0x7b, 0x22, 0x6b, 0x22,
     0x3a, 0x31, 0x7d, 0x5d, 0x2c, 0x22, 0x65, 0x22, 0x3a, 0x7b, 0x22, 0x5a, 0x22, 0x3a, 0x5b, 0x5d, 0x7d, 0x7d] := rfl

theorem exX_f32 : F32sRoundTrip {} ext0 exXTV := by
  intro b hb
  have : b = 0x3fc00000 := by simpa [exXTV, f32sOf, Model.TypedSer.f32sOfList] using hb
  subst this
  exact .inr ⟨rfl, 0x3ff8000000000000, by decide +kernel, by decide +kernel⟩

example : ∃ bufs, serCompact ext0 (progOf exXSchema exXTV) = .ok bufs ∧
    Model.Typed.deTypedTop { cfg := {}, src := .slice } exXSchema bufs.flatten = .ok exXTV :=
  c04_typed_partial {} rfl .slice ext0 ext0_ok exXSchema exXTV (by decide) (by decide +kernel) exX_f32 (.inr (by decide))
example : ∃ bufs, serPretty ext0 [0x20, 0x20] (progOf exXSchema exXTV) = .ok bufs ∧
    Model.Typed.deTypedTop { cfg := {}, src := .reader } exXSchema bufs.flatten = .ok exXTV :=
  c04_typed_pretty_partial {} rfl .reader ext0 ext0_ok [0x20, 0x20] (by decide) exXSchema exXTV (by decide) (by decide +kernel) exX_f32
    (.inr (by decide))
/-- … and `exSchema` / `exFSchema` in the `arbitrary_precision` build (no `Value` member) -/
example : ∃ bufs, serCompact ext0 (progOf exFSchema exFTV) = .ok bufs ∧
    Model.Typed.deTypedTop { cfg := { ap := true }, src := .slice } exFSchema bufs.flatten = .ok exFTV :=
  (c04_typed_ap_partial { ap := true } rfl .slice ext0 ext0_ok exFSchema (by decide) exFTV (by decide) (by decide +kernel)
    (fun b hb => by cases hb) (.inr (by decide))).1

/-- the exception is needed: `Some(())` serialises as `null` and reads back as `None` -/
example : wfTVx (specCfg {}) ext0.ryu32 (.option .unit) (.some .unit) = false ∧
    (serCompact ext0 (progOf (.option .unit) (.some .unit))).map List.flatten = .ok [0x6e, 0x75, 0x6c, 0x6c] ∧
    (match Model.Typed.deTypedTop {} (.option .unit) [0x6e, 0x75, 0x6c, 0x6c] with | .ok t => t == .none | _ => false) = true :=
  ⟨by decide, rfl, by decide +kernel⟩

end SJ.Props.C04
