import SJ.Proofs.HexEquiv
import SJ.Props.C05
/-!
# C05 — the three readers of `\uXXXX` are one function; the machine's scan is the SWAR scan

The byte-step machine (`Model.Machine.stepStr`, the subject of the decode theorems `c05_decode_spec` / `c05_roundtrip`)
accumulates the four bytes after `\u` in its sub-state `.hex acc lead` and decides with its own `hex4`; the standalone
`Model.Hex.decodeFourHex` transcribes `read.rs` `decode_four_hex_digits` over the re-extracted tables `HEX0` / `HEX1`;
`Spec.Str.hex4Val` is the statement's reading of RFC 8259 `4HEXDIG`. This module states that they coincide on all `2^32`
quadruples (per-byte agreement over the 256 byte values, lifted — no enumeration), and how the machine's sub-states use the
value. The scan: `c05_swar_first_escape` (Props/C05.lean) already states that `Model.Swar.skipToEscape` returns, for every
byte list and start index, `Spec.Str.firstEscape` — the index of the first byte that is `"`, `\` or (text targets) below
`0x20`, or the length (`c05_first_escape_char`) — i.e. the naive byte-by-byte scan; `c05_scan_is_naive` restates it here in one
line, and `c09_slice_str_refines` (Props/C09Readers.lean) ties the scanner built on it to the machine's byte steps.
-/
namespace SJ.Props.C05Hex
open SJ SJ.Model.Machine SJ.Spec.Grammar SJ.Proofs.HexEquiv

/-- **The machine's `hex4` is the specification** (`c05_machine_hex4_spec`): on every quadruple of bytes the value the
    machine computes from the four bytes after `\u` is `Spec.Str.hex4Val` — the positional value of four hex digits of either
    case, `none` otherwise; on any other number of bytes `hex4` gives `none` (it is consulted on four only). -/
theorem c05_machine_hex4_spec (a b c d : UInt8) :
    hex4 [a, b, c, d] = Spec.Str.hex4Val a b c d ∧ (∀ l : List UInt8, l.length ≠ 4 → hex4 l = none) :=
  ⟨hex4_eq_spec a b c d, hex4_length⟩

/-- **Rejects exactly non-digits** (`c05_hex4_rejects_iff`): the specification (hence the machine, hence
    `decode_four_hex_digits`) is `none` exactly when one of the four bytes is not `0-9`, `a-f`, `A-F`, and is otherwise the
    grammar's positional value `uniVal`, below `2^16`. -/
theorem c05_hex4_rejects_iff (a b c d : UInt8) :
    (Spec.Str.hex4Val a b c d = none ↔ (isHex a = false ∨ isHex b = false ∨ isHex c = false ∨ isHex d = false)) ∧
    (isHex a = true → isHex b = true → isHex c = true → isHex d = true →
      Spec.Str.hex4Val a b c d = some (uniVal a b c d) ∧ uniVal a b c d < 0x10000) :=
  ⟨hex4Val_none_iff a b c d, hex4Val_some a b c d⟩

/-- **Three readers, one function** (`c05_hex_three_agree`): for all byte quadruples the machine's `hex4`, the table-based
    `decode_four_hex_digits` (`HEX0` / `HEX1`, OR / shift on `i32`, one sign-bit test) and the specification agree. (The
    middle equation is `c05_hex4_spec`.) -/
theorem c05_hex_three_agree (a b c d : UInt8) :
    hex4 [a, b, c, d] = Model.Hex.decodeFourHex a b c d ∧
    Model.Hex.decodeFourHex a b c d = Spec.Str.hex4Val a b c d :=
  ⟨hex4_eq_decodeFourHex a b c d, Proofs.Hex.decodeFourHex_eq a b c d⟩

/-- **The `\u` sub-states** (`c05_machine_hex_steps`): from the state right after `\u` (`esc = .hex [] lead`, `lead` the
    pending leading surrogate if any) the machine stores the first three bytes whatever they are, and at the fourth fails with
    `InvalidEscape` (reported with that byte consumed) exactly when `Spec.Str.hex4Val a b c d = none`; otherwise it continues
    as `afterGroup` prescribes with exactly that value (surrogate bookkeeping / UTF-8 of the scalar / nothing for skipped
    content). -/
theorem c05_machine_hex_steps (env : Env) (s : St) (st : StrSt) (lead : Option Nat) (a b c d : UInt8) :
    stepStr env s { st with esc := .hex [] lead } a = .next { s with mode := .str { st with esc := .hex [a] lead } } ∧
    stepStr env s { st with esc := .hex [a] lead } b = .next { s with mode := .str { st with esc := .hex [a, b] lead } } ∧
    stepStr env s { st with esc := .hex [a, b] lead } c = .next { s with mode := .str { st with esc := .hex [a, b, c] lead } } ∧
    stepStr env s { st with esc := .hex [a, b, c] lead } d =
      (match Spec.Str.hex4Val a b c d with
       | none => .err .InvalidEscape .incl
       | some n => afterGroup env s st lead n) :=
  ⟨stepStr_hex_store env s st [] lead a (by simp), stepStr_hex_store env s st [a] lead b (by simp),
   stepStr_hex_store env s st [a, b] lead c (by simp), stepStr_hex_fourth env s st lead a b c d⟩

/-- `ካ` → U+12AB in all three; `\u12gB` and `\ufFf"` (a quote as fourth byte) rejected by all three -/
example : hex4 [0x31, 0x32, 0x61, 0x42] = some 0x12ab ∧ Spec.Str.hex4Val 0x31 0x32 0x61 0x42 = some 0x12ab ∧
    Model.Hex.decodeFourHex 0x31 0x32 0x61 0x42 = some 0x12ab := ⟨by decide, by decide, by decide +kernel⟩
example : hex4 [0x31, 0x32, 0x67, 0x42] = none ∧ Spec.Str.hex4Val 0x31 0x32 0x67 0x42 = none ∧
    hex4 [0x66, 0x46, 0x66, 0x22] = none ∧ Model.Hex.decodeFourHex 0x66 0x46 0x66 0x22 = none :=
  ⟨by decide, by decide, by decide, by decide +kernel⟩
/-- the fourth byte decides: inside a `Value` string, after `\u00e` the byte `9` gives U+00E9 (`é`, pushed reversed), the
    byte `g` gives `InvalidEscape` -/
example : (match stepStr ⟨{}, .slice, .value⟩ { mode := .val .top, stack := [] } { esc := .hex [0x30, 0x30, 0x65] none } 0x39 with
    | .next { mode := .str { out := o, esc := .none, .. }, .. } => o == [0xa9, 0xc3]
    | _ => false) = true := by decide +kernel
example : stepStr ⟨{}, .slice, .value⟩ { mode := .val .top, stack := [] } { esc := .hex [0x30, 0x30, 0x65] none } 0x67 =
    .err .InvalidEscape .incl := by rfl

/-- **The scan** (`c05_scan_is_naive`): `skip_to_escape` (8-byte SWAR chunks with the Mycroft test, `memchr2` for byte
    targets, slow tail) returns `index +` the number of bytes from `index` on that are none of `"`, `\`, control (`< 0x20`,
    text targets only) — the naive scan the byte-step machine performs one `stepStr` at a time. A restatement of
    `c05_swar_first_escape`. -/
theorem c05_scan_is_naive (slice : Bytes) (index : Nat) (forbid : Bool) (h : index ≤ slice.length) :
    Model.Swar.skipToEscape slice index forbid =
      index + ((slice.drop index).takeWhile fun b => !(b == 0x22 || b == 0x5c || (forbid && b < 0x20))).length :=
  SJ.Props.C05.c05_swar_first_escape slice index forbid h

example : Model.Swar.skipToEscape [0x61, 0x62, 0x63, 0x64, 0x65, 0x66, 0x67, 0x68, 0x69, 0x0a, 0x22] 1 true = 9 ∧
    Model.Swar.skipToEscape [0x61, 0x62, 0x63, 0x64, 0x65, 0x66, 0x67, 0x68, 0x69, 0x0a, 0x22] 1 false = 10 := by
  decide +kernel

end SJ.Props.C05Hex
