import SJ.Proofs.MachineApTop
import SJ.Proofs.MachineApCst
import SJ.Proofs.MachineApSim
import SJ.Proofs.MachineApShape
import SJ.Props.C01Iff
/-!
# C01 / C02 under `arbitrary_precision`: the private Number token, as theorems about the faithful model

`Model.MachineAp` is the byte-step machine plus the reading `Value`'s visitor applies under `arbitrary_precision` to every
object whose first key decodes to `number::TOKEN` (`"$serde_json::private::Number"`). The crate's deviation from RFC 8259
on such objects (open findings `C01-ap-private-number-token`, `C02-ap-…`, `C04-ap-…`) is thereby stated, not excluded:

* `c01_ap_conservative` — on every byte string in which no string literal directly after a `{` decodes to the token
  (`Spec.PrivateToken.hasTokenFirstKey`, a lexical scan of the bytes), `MachineAp` IS the machine: every theorem about
  `Model.Machine.parseTop` (C01, C02, C09–C14) is a theorem about the faithful model there (`c01_ap_accepts_iff_tokenfree`,
  `c02_ap_value_is_canon_tokenfree` spell two of them out).
* `c01_ap_token_object` — the exact reading of such an object at ANY depth: from the state after its first key, the run
  succeeds iff the rest of the object is `ws : ws "…" ws }` with the string decoding to an RFC 8259 number literal `txt`
  (what `Number::from_str` accepts: `c01_ap_number_from_str`), and then it continues exactly as if the object were the
  number `txt`, kept verbatim.
* `c01_ap_token_language` — the same for a whole document that is such an object: accepted iff it has that shape; the value
  is `.num (.lit txt)`, NOT the one-entry object RFC 8259 describes.
* `c01_ap_token_value_not_string`, `c01_ap_token_not_number`, `c01_ap_token_extra_member`, `c01_ap_token_eof` — the
  specific errors otherwise (serde's `invalid type`; `Number::from_str`'s own error with ITS line and column;
  `trailing comma` / `trailing characters`; `EOF while parsing an object`).
* `c01_ap_accepts_iff_partial` — the accepted language under `arbitrary_precision`, for the two families above.
-/
namespace SJ.Props.C01Ap
open SJ SJ.Gen SJ.Model.Machine SJ.Spec.Grammar SJ.Proofs.CanonM
open SJ.Spec.Denote (decodeItems)
open SJ.Spec.PrivateToken (hasTokenFirstKey TokenTail tokenFree TokenObjectsShaped)
open SJ.Model.MachineAp (ofMachine fromStr)

/-- the parser model for a configuration: `MachineAp` (which is the machine unless `arbitrary_precision` + `Value`) -/
abbrev parseAp := Model.MachineAp.parseTop

/-- **C01 (a), conservativity.** Whatever the configuration, source and target: if no first key of the input decodes to
    the token, the faithful model and the machine agree — value, error code and position. -/
theorem c01_ap_conservative (env : Env) (bs : Bytes) (h : hasTokenFirstKey bs = false) :
    parseAp env bs = ofMachine (parseTop env bs) :=
  SJ.Proofs.MachineAp.conservative env bs h

/-- `{"a":1,"$serde_json::private::Number":"1"}`: the token as SECOND key is an ordinary key (scan: no hit) -/
example : hasTokenFirstKey
    [0x7b, 0x22, 0x61, 0x22, 0x3a, 0x31, 0x2c, 0x22, 0x24, 0x73, 0x65, 0x72, 0x64, 0x65, 0x5f, 0x6a, 0x73, 0x6f, 0x6e, 0x3a, 0x3a,
     0x70, 0x72, 0x69, 0x76, 0x61, 0x74, 0x65, 0x3a, 0x3a, 0x4e, 0x75, 0x6d, 0x62, 0x65, 0x72, 0x22, 0x3a, 0x22, 0x31, 0x22, 0x7d]
    = false := by decide +kernel

/-- … while `{"$serde_json::private::Number":"1"}` (first key, spelled with an escape) is a hit -/
example : hasTokenFirstKey
    [0x7b, 0x22, 0x5c, 0x75, 0x30, 0x30, 0x32, 0x34, 0x73, 0x65, 0x72, 0x64, 0x65, 0x5f, 0x6a, 0x73, 0x6f, 0x6e, 0x3a, 0x3a,
     0x70, 0x72, 0x69, 0x76, 0x61, 0x74, 0x65, 0x3a, 0x3a, 0x4e, 0x75, 0x6d, 0x62, 0x65, 0x72, 0x22, 0x3a, 0x22, 0x31, 0x22, 0x7d]
    = true := by decide +kernel

/-- the same hypothesis on the syntax tree: a JSON text none of whose objects has a first key decoding to the token
    (`Spec.PrivateToken.tokenFree`, decidable on the tree) has no hit in the scan -/
theorem c01_ap_conservative_cst (env : Env) (bs : Bytes) (t : CST) (h : JsonText bs t) (htf : tokenFree t = true) :
    parseAp env bs = ofMachine (parseTop env bs) :=
  c01_ap_conservative env bs (SJ.Proofs.MachineAp.scan_of_tokenFree bs t h htf)

/-- … hence C01's completeness half for the faithful model: a JSON text meeting the side conditions and without token
    first keys is accepted with the value it denotes -/
theorem c01_ap_complete_tokenfree (env : Env) (henv : env.tgt = .value) (bs : Bytes) (t : CST) (h : JsonText bs t)
    (hdepth : env.cfg.limitOff = true ∨ depth t ≤ 127) (hsur : surrogatesPaired t = true)
    (hutf : env.src ≠ .str → Spec.Canon.stringsUtf8 t = true)
    (hnum : Spec.Canon.numbersInRange (specCfg env.cfg) t = true) (htf : tokenFree t = true) :
    ∃ v, parseAp env bs = .ok v ∧ canonM env.cfg t = some v := by
  obtain ⟨v, hp, hc⟩ := SJ.Props.C01.c01_complete_value env henv bs t h hdepth hsur hutf hnum
  exact ⟨v, by rw [c01_ap_conservative_cst env bs t h htf, hp]; rfl, hc⟩

/-- `[{"a":"$serde_json::private::Number"}]`: the token as a VALUE is nothing special -/
example : tokenFree (.arr [.obj [([.raw 0x61], .str (Gen.numberToken.map .raw))]]) = true := by decide +kernel

/-- **C01 on token-free inputs**: `c01_accepts_iff` verbatim for the faithful model -/
theorem c01_ap_accepts_iff_tokenfree (env : Env) (henv : env.tgt = .value) (bs : Bytes) (h : hasTokenFirstKey bs = false) :
    (∃ v, parseAp env bs = .ok v) ↔
    ∃ t, JsonText bs t ∧ (env.cfg.limitOff = true ∨ depth t ≤ 127) ∧ surrogatesPaired t = true ∧
      (env.src ≠ .str → Spec.Canon.stringsUtf8 t = true) ∧
      Spec.Canon.numbersInRange (specCfg env.cfg) t = true := by
  rw [← SJ.Props.C01Iff.c01_accepts_iff env henv bs, c01_ap_conservative env bs h]
  constructor
  · rintro ⟨v, hv⟩
    cases hp : parseTop env bs with
    | ok v' => exact ⟨v', rfl⟩
    | err c i => rw [hp] at hv; cases hv
  · rintro ⟨v, hv⟩; exact ⟨v, by rw [hv]; rfl⟩

/-- **C02 on token-free inputs**: the value is `canon` of a syntax tree of the text -/
theorem c02_ap_value_is_canon_tokenfree (env : Env) (henv : env.tgt = .value) (bs : Bytes) (v : JV)
    (h : hasTokenFirstKey bs = false) (hp : parseAp env bs = .ok v) :
    ∃ t, JsonText bs t ∧ Spec.Canon.canon (specCfg env.cfg) t = some v := by
  rw [c01_ap_conservative env bs h] at hp
  cases hm : parseTop env bs with
  | ok v' =>
    rw [hm] at hp
    simp only [ofMachine, Model.MachineAp.Outcome.ok.injEq] at hp
    subst hp
    exact SJ.Props.C01Iff.c02_value_is_canon env henv bs v' hm
  | err c i => rw [hm] at hp; cases hp

/-- non-vacuity: the token as second key, `arbitrary_precision`, default map: an ordinary two-entry object -/
example : (parseAp ⟨{ ap := true }, .slice, .value⟩
    [0x7b, 0x22, 0x61, 0x22, 0x3a, 0x31, 0x2c, 0x22, 0x24, 0x73, 0x65, 0x72, 0x64, 0x65, 0x5f, 0x6a, 0x73, 0x6f, 0x6e, 0x3a, 0x3a,
     0x70, 0x72, 0x69, 0x76, 0x61, 0x74, 0x65, 0x3a, 0x3a, 0x4e, 0x75, 0x6d, 0x62, 0x65, 0x72, 0x22, 0x3a, 0x22, 0x31, 0x22, 0x7d]).isOk
    (.obj [(Gen.numberToken, .str [0x31]), ([0x61], .num (.lit [0x31]))]) = true := by decide +kernel

/-- **what `Number::from_str` accepts**: exactly the RFC 8259 number literals — a leading `-` but no `+`, no leading
    zeros, no whitespace, `1.` and `1e` rejected, `-0` and `1e400` accepted; the Number keeps the text verbatim -/
theorem c01_ap_number_from_str (txt : Bytes) : fromStr txt = .ok () ↔ IsNumber txt :=
  SJ.Proofs.MachineAp.fromStr_ok_iff txt

/-- `-0`, `1e400`, `10` accepted; ` 1`, `1 `, `01`, `1.`, `+1`, the empty string rejected, each with the error code and
    the index `Number::from_str` reports (a `1ex5`: the `x` has been consumed, the final check sees the `5`) -/
example : Model.MachineAp.fromStrErr [0x2d, 0x30] = none ∧ Model.MachineAp.fromStrErr [0x31, 0x65, 0x34, 0x30, 0x30] = none ∧
    Model.MachineAp.fromStrErr [0x31, 0x30] = none ∧
    Model.MachineAp.fromStrErr [0x20, 0x31] = some (.InvalidNumber, 1) ∧ Model.MachineAp.fromStrErr [0x31, 0x20] = some (.InvalidNumber, 2) ∧
    Model.MachineAp.fromStrErr [0x30, 0x31] = some (.InvalidNumber, 2) ∧ Model.MachineAp.fromStrErr [0x31, 0x2e] = some (.EofWhileParsingValue, 2) ∧
    Model.MachineAp.fromStrErr [0x2b, 0x31] = some (.InvalidNumber, 1) ∧ Model.MachineAp.fromStrErr [] = some (.EofWhileParsingValue, 0) ∧
    Model.MachineAp.fromStrErr [0x31, 0x65, 0x78, 0x35] = some (.InvalidNumber, 4) ∧
    Model.MachineAp.fromStrErr [0x31, 0x65, 0x78] = some (.InvalidNumber, 3) := by
  decide +kernel

/-- the state after the first key of an object has been read and has decoded to the token, `fs` being the containers
    around that object (any number of them: the reading applies at every depth) -/
abbrev afterTokenKey (fs : List Frame) : Model.MachineAp.St :=
  .base ⟨.afterKey, .obj [] Model.MachineAp.token :: fs⟩

/-- **C01 (b), the token reading, at any depth.** Under `arbitrary_precision`, for the `Value` target: after a first key
    equal to the token the run succeeds iff the unread input starts with `ws : ws "…" ws }`, the string decoding to an
    RFC 8259 number literal `txt`, and what follows the `}` is accepted by the same run with the NUMBER `txt` (verbatim
    text) standing where RFC 8259 has a one-member object. -/
theorem c01_ap_token_object (env : Env) (hap : env.cfg.ap = true) (hv : env.tgt = .value) (fs : List Frame)
    (rest : Bytes) (i : Nat) (v : JV) :
    Model.MachineAp.run env (afterTokenKey fs) i rest = .ok v ↔
    ∃ txt rest', TokenTail rest txt rest' ∧
      Model.MachineAp.run env (.base (complete fs (.num (.lit txt)))) (i + (rest.length - rest'.length)) rest' = .ok v := by
  constructor
  · exact SJ.Proofs.MachineAp.token_tail_sound env hap hv fs rest i v
  · rintro ⟨txt, rest', ht, hr⟩
    have := SJ.Proofs.MachineAp.token_tail_accepts env hap hv fs rest txt rest' ht i
    exact this.trans hr

/-- after the top-level value only whitespace may follow -/
theorem run_done (env : Env) (v0 : JV) : ∀ (r : Bytes) (i : Nat) (v : JV),
    Model.MachineAp.run env (.base ⟨.done v0, []⟩) i r = .ok v ↔ Ws r ∧ v = v0
  | [], i, v => by
    show Model.MachineAp.run env _ i [] = _ ↔ _
    unfold Model.MachineAp.run
    simp [Model.MachineAp.finish, finish, finishMode, Ws, eq_comm]
  | b :: r, i, v => by
    have htrig : Model.MachineAp.triggered env ⟨.done v0, []⟩ b = none :=
      SJ.Proofs.MachineAp.triggered_none_of_mode env _ b fun fs h => by cases h.1
    have hstep : Model.MachineAp.step env (.base ⟨.done v0, []⟩) b =
        if Model.Machine.isWs b then .ok (.base ⟨.done v0, []⟩) else .error (.err .TrailingCharacters .incl) := by
      rw [SJ.Proofs.MachineAp.step_base_eq env _ b htrig]
      by_cases hw : Model.Machine.isWs b = true <;> simp [step, step1, hw, SJ.Proofs.MachineAp.liftRes]
    show Model.MachineAp.run env _ i (b :: r) = _ ↔ _
    conv => lhs; unfold Model.MachineAp.run
    rw [hstep]
    by_cases hw : Model.Machine.isWs b = true
    · simp only [hw, if_true]
      rw [run_done env v0 r (i + 1) v]
      simp only [Ws, List.all_cons, Bool.and_eq_true]
      rw [← SJ.Proofs.Sound.isWs_eq, hw]; simp
    · simp only [hw, Bool.false_eq_true, if_false]
      simp only [Ws, List.all_cons, Bool.and_eq_true]
      rw [← SJ.Proofs.Sound.isWs_eq]
      simp [hw]

/-- **C01 (b), a whole document that is an object whose first key decodes to the token** (spelled in any way: raw, with
    `\u` escapes, …): accepted iff the rest of the object is `ws : ws "number literal" ws }` followed by whitespace only;
    the value is the NUMBER, its text kept verbatim. So `{"$serde_json::private::Number":"abc"}`, `{"$…":1}`,
    `{"$…":"1","b":2}` — JSON texts all — are rejected, and `{"$…":"1"}` is not read as the object it is. -/
theorem c01_ap_token_language (env : Env) (hap : env.cfg.ap = true) (hv : env.tgt = .value) (w₀ w₁ : Bytes)
    (k : List StrItem) (rest : Bytes) (hw₀ : Ws w₀) (hw₁ : Ws w₁) (hk : StrWF k = true)
    (hkt : decodeItems k = some Gen.numberToken) (v : JV) :
    parseAp env (w₀ ++ [0x7b] ++ w₁ ++ strBytes k ++ rest) = .ok v ↔
    ∃ txt w, TokenTail rest txt w ∧ Ws w ∧ v = .num (.lit txt) := by
  show Model.MachineAp.run env Model.MachineAp.init 0 _ = _ ↔ _
  have hp := SJ.Proofs.MachineAp.top_prefix env hv w₀ w₁ k hw₀ hw₁ hk hkt rest
  unfold SJ.Proofs.MachineAp.arun at hp
  rw [show Model.MachineAp.init = Model.MachineAp.St.base init from rfl, hp]
  rw [c01_ap_token_object env hap hv [] rest _ v]
  constructor
  · rintro ⟨txt, rest', ht, hr⟩
    exact ⟨txt, rest', ht, (run_done env _ rest' _ v).mp hr⟩
  · rintro ⟨txt, w, ht, hw, rfl⟩
    exact ⟨txt, w, ht, (run_done env _ w _ _).mpr ⟨hw, rfl⟩⟩

/-- non-vacuity: ` { "$serde_json::private::Number" : "-1.5e3" } ` from a reader is the number `-1.5e3` -/
example : (parseAp ⟨{ ap := true }, .reader, .value⟩
    [0x20, 0x7b, 0x20, 0x22, 0x5c, 0x75, 0x30, 0x30, 0x32, 0x34, 0x73, 0x65, 0x72, 0x64, 0x65, 0x5f, 0x6a, 0x73, 0x6f, 0x6e, 0x3a,
     0x3a, 0x70, 0x72, 0x69, 0x76, 0x61, 0x74, 0x65, 0x3a, 0x3a, 0x4e, 0x75, 0x6d, 0x62, 0x65, 0x72, 0x22, 0x20, 0x3a, 0x20, 0x22,
     0x2d, 0x31, 0x2e, 0x35, 0x65, 0x33, 0x22, 0x20, 0x7d, 0x20]).isOk
    (.num (.lit [0x2d, 0x31, 0x2e, 0x35, 0x65, 0x33])) = true := by decide +kernel

/-- … nested: `[{"$serde_json::private::Number":"1"},{"k":{"$serde_json::private::Number":"2"}}]` is `[1,{"k":2}]` -/
example : (parseAp ⟨{ ap := true }, .str, .value⟩
    ([0x5b, 0x7b, 0x22] ++ Gen.numberToken ++ [0x22, 0x3a, 0x22, 0x31, 0x22, 0x7d, 0x2c, 0x7b, 0x22, 0x6b, 0x22, 0x3a, 0x7b, 0x22] ++
      Gen.numberToken ++ [0x22, 0x3a, 0x22, 0x32, 0x22, 0x7d, 0x7d, 0x5d])).isOk
    (.arr [.num (.lit [0x31]), .obj [([0x6b], .num (.lit [0x32]))]]) = true := by decide +kernel

/-- … and without the feature the same text is the object RFC 8259 describes -/
example : (parseAp ⟨{}, .str, .value⟩
    ([0x7b, 0x22] ++ Gen.numberToken ++ [0x22, 0x3a, 0x22, 0x31, 0x22, 0x7d])).isOk
    (.obj [(Gen.numberToken, .str [0x31])]) = true := by decide +kernel

/-! ### the specific errors -/

/-- the value behind the token is an array or an object: serde's `invalid type: sequence / map, expected string
    containing a number` (category `Data`), positioned at the bracket for `&str` / slices and one byte later for readers
    (`fix_position` = `self.error`, with the bracket only peeked) -/
theorem c01_ap_token_value_not_string (env : Env) (hap : env.cfg.ap = true) (hv : env.tgt = .value) (fs : List Frame)
    (w₁ w₂ r : Bytes) (b : UInt8) (hb : b = 0x5b ∨ b = 0x7b) (hw₁ : Ws w₁) (hw₂ : Ws w₂) (i : Nat) :
    Model.MachineAp.run env (afterTokenKey fs) i (w₁ ++ [0x3a] ++ w₂ ++ b :: r) =
      .data (errIdx env .excl (i + w₁.length + 1 + w₂.length)) :=
  SJ.Proofs.MachineAp.tail_container env hap hv fs w₁ w₂ r b hb hw₁ hw₂ i

/-- `{"$serde_json::private::Number":[ ]}`: `invalid type` at column 32 (slice) / 33 (reader) -/
example : (parseAp ⟨{ ap := true }, .slice, .value⟩ ([0x7b, 0x22] ++ Gen.numberToken ++ [0x22, 0x3a, 0x5b, 0x20, 0x5d, 0x7d])).isData 32 = true ∧
    (parseAp ⟨{ ap := true }, .reader, .value⟩ ([0x7b, 0x22] ++ Gen.numberToken ++ [0x22, 0x3a, 0x5b, 0x20, 0x5d, 0x7d])).isData 33 = true := by
  decide +kernel

/-- … a scalar that is not a string is consumed first (`peek_invalid_type`): `{"$…":1}` → `invalid type: integer` after
    the `1` (slice: the `}` is only peeked; reader: it has been pulled) -/
example : (parseAp ⟨{ ap := true }, .slice, .value⟩ ([0x7b, 0x22] ++ Gen.numberToken ++ [0x22, 0x3a, 0x31, 0x7d])).isData 33 = true ∧
    (parseAp ⟨{ ap := true }, .reader, .value⟩ ([0x7b, 0x22] ++ Gen.numberToken ++ [0x22, 0x3a, 0x31, 0x7d])).isData 34 = true ∧
    (parseAp ⟨{ ap := true }, .str, .value⟩ ([0x7b, 0x22] ++ Gen.numberToken ++ [0x22, 0x3a, 0x74, 0x72, 0x75, 0x65, 0x7d])).isData 36 = true := by
  decide +kernel

/-- the value is a string that is not a number literal: the error is `Number::from_str`'s — its code, and ITS line and
    column, i.e. a position inside the decoded string, not in the document; category `Data` (it went through
    `de::Error::custom`) -/
theorem c01_ap_token_not_number (env : Env) (hap : env.cfg.ap = true) (hv : env.tgt = .value) (fs : List Frame)
    (w₁ w₂ r : Bytes) (items : List StrItem) (txt : Bytes) (c : Code) (k : Nat) (hw₁ : Ws w₁) (hw₂ : Ws w₂)
    (hwf : StrWF items = true) (hdec : decodeItems items = some txt)
    (hutf : env.src ≠ .str → Spec.Utf8.validUtf8 txt = true) (hfs : fromStr txt = .error (c, k)) (i : Nat) :
    Model.MachineAp.run env (afterTokenKey fs) i (w₁ ++ [0x3a] ++ w₂ ++ strBytes items ++ r) =
      .custom c (lineCol txt k).1 (lineCol txt k).2 :=
  SJ.Proofs.MachineAp.tail_not_number env hap hv fs w₁ w₂ r items txt c k hw₁ hw₂ hwf hdec hutf hfs i

/-- `\n\n[{"$…":"abc"}]` → `invalid number` at line 1 column 1 (of `abc`), although the object is on line 3;
    `{"$…":"\n1"}` → line 2 column 0 (the decoded string has a newline) -/
example : (parseAp ⟨{ ap := true }, .slice, .value⟩
      ([0x0a, 0x0a, 0x5b, 0x7b, 0x22] ++ Gen.numberToken ++ [0x22, 0x3a, 0x22, 0x61, 0x62, 0x63, 0x22, 0x7d, 0x5d])).isCustom .InvalidNumber 1 1 = true ∧
    (parseAp ⟨{ ap := true }, .slice, .value⟩
      ([0x7b, 0x22] ++ Gen.numberToken ++ [0x22, 0x3a, 0x22, 0x5c, 0x6e, 0x31, 0x22, 0x7d])).isCustom .InvalidNumber 2 0 = true ∧
    (parseAp ⟨{ ap := true }, .slice, .value⟩
      ([0x7b, 0x22] ++ Gen.numberToken ++ [0x22, 0x3a, 0x22, 0x22, 0x7d])).isCustom .EofWhileParsingValue 1 0 = true := by
  decide +kernel

/-- a second member (or anything but `}`) after the number string: `end_map` reports `trailing comma` at a comma,
    `trailing characters` at any other byte — the object `{"$…":"1","b":2}` is a JSON text and is rejected -/
theorem c01_ap_token_extra_member (env : Env) (hap : env.cfg.ap = true) (hv : env.tgt = .value) (fs : List Frame)
    (w₁ w₂ w₃ r : Bytes) (items : List StrItem) (txt : Bytes) (b : UInt8) (hw₁ : Ws w₁) (hw₂ : Ws w₂) (hw₃ : Ws w₃)
    (hwf : StrWF items = true) (hdec : decodeItems items = some txt) (hnum : IsNumber txt)
    (hbw : Model.Machine.isWs b = false) (hb : (b == 0x7d) = false) (i : Nat) :
    Model.MachineAp.run env (afterTokenKey fs) i (w₁ ++ [0x3a] ++ w₂ ++ strBytes items ++ w₃ ++ b :: r) =
      .err (if b == 0x2c then .TrailingComma else .TrailingCharacters)
        (i + w₁.length + 1 + w₂.length + (strBytes items).length + w₃.length + 1) :=
  SJ.Proofs.MachineAp.tail_extra env hap hv fs w₁ w₂ w₃ r items txt b hw₁ hw₂ hw₃ hwf hdec hnum hbw hb i

/-- `{"$…":"1","b":2}` → `trailing comma` at column 36 (the comma included) -/
example : (parseAp ⟨{ ap := true }, .str, .value⟩
    ([0x7b, 0x22] ++ Gen.numberToken ++ [0x22, 0x3a, 0x22, 0x31, 0x22, 0x2c, 0x22, 0x62, 0x22, 0x3a, 0x32, 0x7d])).isErr .TrailingComma 36 = true := by
  decide +kernel

/-- the input ends after the number string: `EOF while parsing an object` at the end -/
theorem c01_ap_token_eof (env : Env) (hap : env.cfg.ap = true) (hv : env.tgt = .value) (fs : List Frame)
    (w₁ w₂ w₃ : Bytes) (items : List StrItem) (txt : Bytes) (hw₁ : Ws w₁) (hw₂ : Ws w₂) (hw₃ : Ws w₃)
    (hwf : StrWF items = true) (hdec : decodeItems items = some txt) (hnum : IsNumber txt) (i : Nat) :
    Model.MachineAp.run env (afterTokenKey fs) i (w₁ ++ [0x3a] ++ w₂ ++ strBytes items ++ w₃) =
      .err .EofWhileParsingObject (i + w₁.length + 1 + w₂.length + (strBytes items).length + w₃.length) :=
  SJ.Proofs.MachineAp.tail_eof env hap hv fs w₁ w₂ w₃ items txt hw₁ hw₂ hw₃ hwf hdec hnum i

example : (parseAp ⟨{ ap := true }, .reader, .value⟩
    ([0x7b, 0x22] ++ Gen.numberToken ++ [0x22, 0x3a, 0x22, 0x31, 0x22, 0x20])).isErr .EofWhileParsingObject 36 = true := by
  decide +kernel

/-- **C01 (c), the accepted language under `arbitrary_precision` — partial.** Proved for (1) every input without a
    token first key: exactly the RFC 8259 texts meeting the side conditions of `c01_accepts_iff` (numbers are never out
    of range under the feature), and (2) every document that is an object whose first key decodes to the token: exactly
    those of the shape `{ "<token>" : "<number literal>" }` (whitespace anywhere RFC 8259 allows it).
    The full statement for every input is `c01_ap_accepts_iff` (shape clause on the bytes); what remains partial is its
    formulation on the syntax tree (`Spec.PrivateToken.TokenShaped t`), proved here only for these two families. -/
theorem c01_ap_accepts_iff_partial (env : Env) (hap : env.cfg.ap = true) (hv : env.tgt = .value) :
    (∀ bs, hasTokenFirstKey bs = false →
      ((∃ v, parseAp env bs = .ok v) ↔
        ∃ t, JsonText bs t ∧ (env.cfg.limitOff = true ∨ depth t ≤ 127) ∧ surrogatesPaired t = true ∧
          (env.src ≠ .str → Spec.Canon.stringsUtf8 t = true))) ∧
    (∀ (w₀ w₁ : Bytes) (k : List StrItem) (rest : Bytes), Ws w₀ → Ws w₁ → StrWF k = true →
      decodeItems k = some Gen.numberToken →
      ((∃ v, parseAp env (w₀ ++ [0x7b] ++ w₁ ++ strBytes k ++ rest) = .ok v) ↔
        ∃ txt w, TokenTail rest txt w ∧ Ws w)) := by
  refine ⟨fun bs h => ?_, fun w₀ w₁ k rest hw₀ hw₁ hk hkt => ?_⟩
  · rw [c01_ap_accepts_iff_tokenfree env hv bs h]
    constructor
    · rintro ⟨t, h1, h2, h3, h4, _⟩; exact ⟨t, h1, h2, h3, h4⟩
    · rintro ⟨t, h1, h2, h3, h4⟩
      exact ⟨t, h1, h2, h3, h4, SJ.Proofs.Complete.numbersInRange_ap (specCfg env.cfg) hap t⟩
  · constructor
    · rintro ⟨v, hp⟩
      obtain ⟨txt, w, ht, hw, _⟩ := (c01_ap_token_language env hap hv w₀ w₁ k rest hw₀ hw₁ hk hkt v).mp hp
      exact ⟨txt, w, ht, hw⟩
    · rintro ⟨txt, w, ht, hw⟩
      exact ⟨_, (c01_ap_token_language env hap hv w₀ w₁ k rest hw₀ hw₁ hk hkt _).mpr ⟨txt, w, ht, hw, rfl⟩⟩

/-- **C01 under `arbitrary_precision`, soundness half, every input**: whatever the faithful model accepts is an RFC 8259
    JSON text meeting the side conditions — the token reading never makes the crate accept something that is not JSON.
    (`MachineAp` and the machine are run side by side: outside a token object their states differ only in collected values,
    which the control flow never inspects — `step1_eqv`; inside one the machine is reading the member of an ordinary
    object — `sim_step`.) -/
theorem c01_ap_sound (env : Env) (henv : env.tgt = .value) (bs : Bytes) (v : JV) (h : parseAp env bs = .ok v) :
    ∃ t, JsonText bs t ∧ (env.cfg.limitOff = true ∨ depth t ≤ 127) ∧ surrogatesPaired t = true ∧
      (env.src ≠ .str → Spec.Canon.stringsUtf8 t = true) ∧
      Spec.Canon.numbersInRange (specCfg env.cfg) t = true := by
  obtain ⟨v', hv'⟩ := SJ.Proofs.MachineAp.ap_sound env bs v h
  exact (SJ.Props.C01Iff.c01_accepts_iff env henv bs).mp ⟨v', hv'⟩

/-- the shape condition of `c01_ap_accepts_iff`, on the run of the byte-step machine: wherever the machine, fed a prefix
    of `bs`, has just read the FIRST key of an object, that key equals the token, and the next byte is the `:`, the input
    from that `:` on is `: ws "number literal" ws }` followed by anything (`Spec.PrivateToken.TokenTail`) -/
abbrev TokenTailsOK (env : Env) (bs : Bytes) : Prop := SJ.Proofs.MachineAp.TailsOK env init bs

/-- **C01 (c), the accepted language under `arbitrary_precision`**: the faithful model accepts `bs` iff `bs` is an RFC 8259
    JSON text meeting the side conditions of `c01_accepts_iff` (numbers are never out of range under the feature) in which
    every object whose first key decodes to the token has the shape `{ "<token>" : "<number literal>" }`.
    The shape clause is `Spec.PrivateToken.TokenObjectsShaped bs`, on the bytes: for every split `bs = pre ++ "key" ++ rest`
    such that the lexical scan after `pre` is outside string literals with a `{` as last non-blank byte, and `key` is a
    string literal decoding to the token, `rest` is `ws : ws "number literal" ws }` followed by anything
    (`TokenTail`). (On the syntax tree the clause would read `Spec.PrivateToken.TokenShaped t`; that the two agree on JSON
    texts is not proved — the grammar's unambiguity is not available here — so the theorem keeps the byte-level form,
    which mentions neither a parser model nor a run.) -/
theorem c01_ap_accepts_iff (env : Env) (hap : env.cfg.ap = true) (hv : env.tgt = .value) (bs : Bytes) :
    (∃ v, parseAp env bs = .ok v) ↔
    (∃ t, JsonText bs t ∧ (env.cfg.limitOff = true ∨ depth t ≤ 127) ∧ surrogatesPaired t = true ∧
      (env.src ≠ .str → Spec.Canon.stringsUtf8 t = true)) ∧ TokenObjectsShaped bs := by
  rw [SJ.Proofs.MachineAp.ap_iff_shaped env hap hv bs, SJ.Props.C01Iff.c01_accepts_iff env hv bs]
  constructor
  · rintro ⟨⟨t, h1, h2, h3, h4, _⟩, ht⟩; exact ⟨⟨t, h1, h2, h3, h4⟩, ht⟩
  · rintro ⟨⟨t, h1, h2, h3, h4⟩, ht⟩
    exact ⟨⟨t, h1, h2, h3, h4, SJ.Proofs.Complete.numbersInRange_ap (specCfg env.cfg) hap t⟩, ht⟩

/-- the same with the shape clause on the run of the byte-step machine (`TokenTailsOK`); the two clauses agree on every
    text the machine accepts (`Proofs.MachineAp.tails_iff_shaped`) -/
theorem c01_ap_accepts_iff_run (env : Env) (hap : env.cfg.ap = true) (hv : env.tgt = .value) (bs : Bytes) :
    (∃ v, parseAp env bs = .ok v) ↔
    (∃ t, JsonText bs t ∧ (env.cfg.limitOff = true ∨ depth t ≤ 127) ∧ surrogatesPaired t = true ∧
      (env.src ≠ .str → Spec.Canon.stringsUtf8 t = true)) ∧ TokenTailsOK env bs := by
  rw [SJ.Proofs.MachineAp.ap_iff env hap hv bs, SJ.Props.C01Iff.c01_accepts_iff env hv bs]
  constructor
  · rintro ⟨⟨t, h1, h2, h3, h4, _⟩, ht⟩; exact ⟨⟨t, h1, h2, h3, h4⟩, ht⟩
  · rintro ⟨⟨t, h1, h2, h3, h4⟩, ht⟩
    exact ⟨⟨t, h1, h2, h3, h4, SJ.Proofs.Complete.numbersInRange_ap (specCfg env.cfg) hap t⟩, ht⟩

/-- non-vacuity: `[{"$serde_json::private::Number":"1"},{"a":{"$serde_json::private::Number":"2e3"}}]` is accepted, so it
    is a JSON text and both token objects are well-shaped; with `"x"` in place of `"1"` the machine still accepts (it is
    JSON) but the shape clause fails -/
def exEnv : Env := ⟨{ ap := true }, .slice, .value⟩

example : let doc (s : Bytes) : Bytes := [0x5b, 0x7b, 0x22] ++ Gen.numberToken ++ [0x22, 0x3a, 0x22] ++ s ++ [0x22, 0x7d, 0x2c, 0x7b, 0x22,
      0x61, 0x22, 0x3a, 0x7b, 0x22] ++ Gen.numberToken ++ [0x22, 0x3a, 0x22, 0x32, 0x65, 0x33, 0x22, 0x7d, 0x7d, 0x5d]
    TokenObjectsShaped (doc [0x31]) ∧ ¬ TokenObjectsShaped (doc [0x78]) := by
  intro doc
  have hacc : (parseAp exEnv (doc [0x31])).isOk
      (.arr [.num (.lit [0x31]), .obj [([0x61], .num (.lit [0x32, 0x65, 0x33]))]]) = true := by decide +kernel
  have hrej : (parseAp exEnv (doc [0x78])).isCustom .InvalidNumber 1 1 = true := by decide +kernel
  have hmb : (match parseTop exEnv (doc [0x78]) with | .ok _ => true | .err _ _ => false) = true := by decide +kernel
  have hm : ∃ v', parseTop exEnv (doc [0x78]) = .ok v' := by
    cases h : parseTop exEnv (doc [0x78]) with
    | ok v' => exact ⟨v', rfl⟩
    | err c i => rw [h] at hmb; cases hmb
  constructor
  · cases h : parseAp exEnv (doc [0x31]) with
    | ok v => exact ((SJ.Proofs.MachineAp.ap_iff_shaped exEnv rfl rfl _).mp ⟨v, h⟩).2
    | err c i => rw [h] at hacc; cases hacc
    | data i => rw [h] at hacc; cases hacc
    | custom c l k => rw [h] at hacc; cases hacc
  · intro ht
    obtain ⟨v, hv⟩ := (SJ.Proofs.MachineAp.ap_iff_shaped exEnv rfl rfl _).mpr ⟨hm, ht⟩
    rw [show Model.MachineAp.parseTop exEnv (doc [0x78]) = parseAp exEnv (doc [0x78]) from rfl] at hv
    rw [hv] at hrej; cases hrej

/-- non-vacuity of (2): `{"$serde_json::private::Number":"1"}` has the shape -/
example : TokenTail [0x3a, 0x22, 0x31, 0x22, 0x7d] [0x31] [] :=
  ⟨[], [], [.raw 0x31], [], rfl, by decide, by decide, by decide, rfl, rfl, ⟨⟨false, [0x31], [], []⟩, rfl, rfl⟩⟩

end SJ.Props.C01Ap
