import SJ.Proofs.RawNestedTop
import SJ.Proofs.RawMap
/-!
# C19 — what a `RawValue` holds, stated over the grammar: top level and array elements

`Model.Raw.rawTop` is `from_*::<Box<RawValue>>`; `Model.RawNested.rawSeqTop` is
`from_*::<Vec<Box<RawValue>>>` (or `Vec<&RawValue>`): `deserialize_raw_value` as the element
deserialiser inside the typed model's own `deserialize_seq` / `SeqAccess` / `end_seq` / `end()`.

The statements are over `Spec.Grammar.Derives` (one RFC 8259 `value`, no surrounding whitespace):
a capture is the bytes from the first to the last byte of exactly one value — "nothing before or after
it, no surrounding whitespace, nothing altered" — and conversely every such value is captured.
`Inner` / `Tail` (`SJ/Proofs/RawNested.lean`) spell the concatenation structure of an array text with the
element texts `cs` singled out: `inner = ws`, or `inner = ws c₁ (ws "," ws cᵢ)* ws`.
-/
namespace SJ.Props.C19
open SJ SJ.Gen SJ.Model.Machine SJ.Model.Stream SJ.Model.Raw SJ.Proofs.Machine
open SJ.Spec.Grammar (CST Ws Derives JsonText)
open SJ.Model.RawNested SJ.Proofs.RawNested SJ.Proofs.RawSpan SJ.Proofs.StreamValues SJ.Proofs.Complete

theorem drop_append_ge {α : Type} (a b : List α) (n : Nat) (h : a.length ≤ n) :
    (a ++ b).drop n = b.drop (n - a.length) := by
  have : n = a.length + (n - a.length) := by omega
  rw [this, ← List.drop_drop, List.drop_left' rfl]
  congr 1; omega

theorem trailing_none_ws : ∀ (r : Bytes) (i : Nat), trailing i r = none → Ws r
  | [], _, _ => rfl
  | b :: r, i, h => by
    unfold trailing at h
    split at h
    · rename_i hb
      have := trailing_none_ws r (i + 1) h
      simp only [Ws, List.all_cons, Bool.and_eq_true]
      rw [← isWs_eq]; exact ⟨hb, this⟩
    · cases h

theorem trailing_ws : ∀ (r : Bytes) (i : Nat), Ws r → trailing i r = none
  | [], _, _ => rfl
  | b :: r, i, h => by
    simp only [Ws, List.all_cons, Bool.and_eq_true] at h
    have hb : isWs b = true := by rw [isWs_eq]; exact h.1
    unfold trailing
    simp only [hb, if_true]
    exact trailing_ws r (i + 1) h.2

/-- **C19 (top level, exactly one value).** Whatever `from_str/from_slice/from_reader::<Box<RawValue>>`
    (or `&RawValue`) captures — the bytes `bs[p..e]` — is one `value` of the RFC 8259 grammar from its first
    to its last byte; everything before and after it in the input is whitespace; on byte sources it is valid
    UTF-8 (it becomes a `str`). -/
theorem c19_top_span (cfg : Cfg) (src : Src) (bs : Bytes) (p e : Nat) (h : rawTop cfg src bs = .ok p e) :
    ∃ t, Derives ((bs.drop p).take (e - p)) t ∧ Ws (bs.take p) ∧ Ws (bs.drop e) ∧ p < e ∧ e ≤ bs.length ∧
      (src ≠ .str → Spec.Utf8.validUtf8 ((bs.drop p).take (e - p)) = true) := by
  unfold rawTop at h
  obtain ⟨w, hw1, hw2, hw3⟩ := skipWs_prefix bs 0
  generalize hsk : skipWs bs 0 = sk at h hw1 hw3
  obtain ⟨r, p0⟩ := sk
  simp only at h hw1 hw3
  have hhead : ∀ b r', r = b :: r' → isWs b = false := by
    intro b r' hr; subst hr; exact skipWs_head bs 0 b r' p0 hsk
  cases hrun : runPrefix { cfg := cfg, src := src, tgt := .ignored } init p0 r with
  | err c i => rw [hrun] at h; simp at h
  | ok v e' =>
    rw [hrun] at h
    simp only at h
    obtain ⟨hlt, hle, t, hd⟩ := runPrefix_span _ rfl p0 r v e' hhead hrun
    split at h
    · simp at h
    · rename_i hutf
      cases htr : trailing e' (r.drop (e' - p0)) with
      | some i => rw [htr] at h; simp at h
      | none =>
        rw [htr] at h
        simp only [ROut.ok.injEq] at h
        obtain ⟨rfl, rfl⟩ := h
        have hp0 : p0 = w.length := by omega
        have hdrop : bs.drop p0 = r := by rw [hw1, hp0, List.drop_left' rfl]
        have htake : bs.take p0 = w := by rw [hw1, hp0, List.take_left' rfl]
        have hdrope : bs.drop e' = r.drop (e' - p0) := by
          rw [hw1, hp0]; exact drop_append_ge w r e' (by omega)
        refine ⟨t, by rw [hdrop]; exact hd, by rw [htake]; exact ws_of_all hw2,
          by rw [hdrope]; exact trailing_none_ws _ _ htr, hlt, ?_, ?_⟩
        · rw [hw1]; simp only [List.length_append]; omega
        · intro hsrc
          rw [hdrop]
          simp only [Bool.and_eq_true, bne_iff_ne, ne_eq, Bool.not_eq_eq_eq_not, Bool.not_true, not_and,
            Bool.not_eq_false] at hutf
          exact hutf hsrc

/-- **C19 (top level, every value is captured).** Conversely, for a JSON text `w₁ v w₂` (with `v` valid
    UTF-8 when the source is a byte source) exactly `v` is captured: `bs[|w₁| .. |w₁|+|v|]`. Together with
    `c19_top_span`: `from_*::<Box<RawValue>>` succeeds iff the input is one JSON text (valid UTF-8 on byte
    sources), and then holds precisely the value's own bytes. -/
theorem c19_top_complete (cfg : Cfg) (src : Src) (w₁ v w₂ : Bytes) (t : CST) (h₁ : Ws w₁) (h₂ : Ws w₂)
    (hd : Derives v t) (hutf : src ≠ .str → Spec.Utf8.validUtf8 v = true) :
    rawTop cfg src (w₁ ++ v ++ w₂) = .ok w₁.length (w₁.length + v.length) := by
  obtain ⟨b, cr, hcb, hbw⟩ := derives_head hd
  have hsk : skipWs (w₁ ++ v ++ w₂) 0 = (v ++ w₂, w₁.length) := by
    rw [List.append_assoc]
    have := skipWs_ws w₁ (v ++ w₂) 0 h₁ (fun b' r' hr => by
      rw [hcb] at hr; simp only [List.cons_append, List.cons.injEq] at hr; rw [← hr.1]; exact hbw)
    simpa using this
  obtain ⟨val, _, hrun⟩ := runPrefix_complete { cfg := cfg, src := src, tgt := .ignored } v t hd
    (ignored_side _ rfl 0 t) w₂ w₁.length
    (fun _ d r' hdr => by subst hdr; exact isWs_not_numCont d (ws_head_cases h₂ d r' rfl))
  unfold rawTop
  rw [hsk]
  simp only [hrun]
  have h1 : w₁.length + v.length - w₁.length = v.length := by omega
  rw [h1, List.take_left' rfl, List.drop_left' rfl, trailing_ws w₂ _ h₂]
  split
  · rename_i hbad
    exfalso
    simp only [Bool.and_eq_true, bne_iff_ne, ne_eq, Bool.not_eq_eq_eq_not, Bool.not_true] at hbad
    rw [hutf hbad.1] at hbad
    cases hbad.2
  · rfl

/-- non-vacuity: ` [1, 2] ` (the example of `c19_captured_reparses`): the span 1..7 is `[1, 2]` -/
example : ∃ t, Derives (([0x20, 0x5b, 0x31, 0x2c, 0x20, 0x32, 0x5d, 0x20] : Bytes).drop 1 |>.take (7 - 1)) t :=
  let ⟨t, h, _⟩ := c19_top_span {} .slice [0x20, 0x5b, 0x31, 0x2c, 0x20, 0x32, 0x5d, 0x20] 1 7 rfl
  ⟨t, h⟩

/-! ## array elements -/

/-- **C19 (array elements, exactly the elements' texts).** `from_*::<Vec<Box<RawValue>>>` succeeds on `bs`
    with the captures `cs` **iff** `bs` is `w₀ "[" inner "]" w₃` with `w₀`, `w₃` whitespace and `inner` either
    whitespace (`cs = []`) or `ws c₁ ws "," ws c₂ … ws "," ws cₙ ws` where every `cᵢ` is one RFC 8259
    `value` from its first to its last byte (`Captured`: derivable; valid UTF-8 when the source is a byte
    source). So every element is captured exactly — no whitespace, separator or neighbour included,
    nothing altered — and nothing else is accepted. (`env.flt = false`: the reader does not fail.) -/
theorem c19_nested_capture (env : SJ.Model.Typed.Env) (hflt : env.flt = false) (bs : Bytes) (v : TVal) :
    rawSeqTop env bs = .ok v ↔
    ∃ cs w₀ inner w₃, v = .seq (cs.map TVal.str) ∧ bs = w₀ ++ [0x5b] ++ inner ++ [0x5d] ++ w₃ ∧ Ws w₀ ∧ Ws w₃ ∧
      Inner inner cs ∧ ∀ c ∈ cs, Captured env c := by
  constructor
  · exact rawSeqTop_sound env bs v
  · rintro ⟨cs, w₀, inner, w₃, rfl, rfl, h₀, h₃, hin, hcap⟩
    exact rawSeqTop_complete env hflt cs w₀ inner w₃ h₀ h₃ hin hcap

/-- **C19 (array elements, over the grammar).** The captures of a successful `Vec<Box<RawValue>>` are the
    element texts of an array derivation of the whole input: `JsonText bs (.arr ts)` with as many elements
    as captures and `Derives cᵢ tᵢ` for each. -/
theorem c19_nested_grammar (env : SJ.Model.Typed.Env) (bs : Bytes) (v : TVal) (h : rawSeqTop env bs = .ok v) :
    ∃ (cs : List Bytes) (ts : List CST), v = .seq (cs.map TVal.str) ∧ JsonText bs (.arr ts) ∧ AllDerive cs ts := by
  obtain ⟨cs, w₀, inner, w₃, rfl, rfl, h₀, h₃, hin, hcap⟩ := rawSeqTop_sound env bs v h
  have hts : ∀ (cs : List Bytes), (∀ c ∈ cs, Captured env c) → ∃ ts, AllDerive cs ts := by
    intro cs
    induction cs with
    | nil => intro _; exact ⟨[], .nil⟩
    | cons c cs ih =>
      intro hc
      obtain ⟨ts, hts⟩ := ih (fun c' hc' => hc c' (by simp [hc']))
      obtain ⟨t, ht⟩ := (hc c (by simp)).1
      exact ⟨t :: ts, .cons ht hts⟩
  obtain ⟨ts, hall⟩ := hts cs hcap
  refine ⟨cs, ts, rfl, ⟨w₀, [0x5b] ++ inner ++ [0x5d], w₃, by simp, h₀, h₃, derives_of_inner inner cs ts hin hall⟩, hall⟩

/-- … and conversely every array text is captured element by element (byte sources: provided the element
    texts are valid UTF-8) -/
theorem c19_nested_complete (env : SJ.Model.Typed.Env) (hflt : env.flt = false) (bs : Bytes) (ts : List CST)
    (h : JsonText bs (.arr ts)) :
    ∃ cs : List Bytes, AllDerive cs ts ∧
      ((∀ c ∈ cs, env.src ≠ .str → Spec.Utf8.validUtf8 c = true) → rawSeqTop env bs = .ok (.seq (cs.map TVal.str))) := by
  obtain ⟨w₁, v0, w₂, rfl, hw₁, hw₂, hd⟩ := h
  obtain ⟨inner, cs, rfl, hin, hall⟩ := inner_of_derives hd
  refine ⟨cs, hall, fun hutf => ?_⟩
  have hcap : ∀ c ∈ cs, Captured env c := by
    intro c hc
    obtain ⟨i, hi, rfl⟩ := List.mem_iff_getElem.mp hc
    obtain ⟨hl, hg⟩ := allDerive_get hall
    exact ⟨⟨ts[i]'(by omega), hg i hi (by omega)⟩, hutf _ hc⟩
  have := rawSeqTop_complete env hflt cs w₁ inner w₂ hw₁ hw₂ hin hcap
  simpa [List.append_assoc] using this

/-- **C19 (array elements versus the parsed value).** If the same bytes also deserialise into a `Value`
    (necessarily an array), there are as many captures as elements and the `i`-th capture, deserialised on
    its own from the same kind of source, is the `i`-th element: the captured text denotes exactly the
    element it was captured from. -/
theorem c19_nested_canon (cfg : Cfg) (src : Src) (bs : Bytes) (vs : List JV) (v : TVal)
    (hval : parseTop ⟨cfg, src, .value⟩ bs = .ok (.arr vs))
    (hraw : rawSeqTop { cfg := cfg, src := src, flt := false } bs = .ok v) :
    ∃ cs : List Bytes, v = .seq (cs.map TVal.str) ∧ cs.length = vs.length ∧
      ∀ (i : Nat) (h1 : i < cs.length) (h2 : i < vs.length), parseTop ⟨cfg, src, .value⟩ cs[i] = .ok vs[i] :=
  rawSeq_canon cfg src bs vs v hval hraw

/-- non-vacuity: ` [1 , [2] ]` — two captures, `1` and `[2]`, and the parsed `Value` is `[1,[2]]` -/
def exArr : Bytes := [0x20, 0x5b, 0x31, 0x20, 0x2c, 0x20, 0x5b, 0x32, 0x5d, 0x20, 0x5d]
example : rawSeqTop {} exArr = .ok (.seq [.str [0x31], .str [0x5b, 0x32, 0x5d]]) := rfl
example : parseTop ⟨{}, .slice, .value⟩ exArr = .ok (.arr [.num (.pos 1), .arr [.num (.pos 2)]]) := rfl
example : ∃ cs : List Bytes, TVal.seq [.str [0x31], .str [0x5b, 0x32, 0x5d]] = .seq (cs.map TVal.str) ∧ cs.length = 2 ∧
    ∀ (i : Nat) (h1 : i < cs.length) (h2 : i < 2),
      parseTop ⟨{}, .slice, .value⟩ cs[i] = .ok ([JV.num (.pos 1), .arr [.num (.pos 2)]][i]) :=
  c19_nested_canon {} .slice exArr _ _ rfl rfl
/-- rejected shapes: a trailing comma, a missing separator, bytes after the array -/
example : rawSeqTop {} [0x5b, 0x31, 0x2c, 0x5d] = .err .TrailingComma 4 := rfl
example : rawSeqTop {} [0x5b, 0x31, 0x20, 0x32, 0x5d] = .err .ExpectedListCommaOrEnd 4 := rfl

/-! ## object values

`rawMapTop` = `from_*::<M>` for a map type `M` with `String` keys and `Box<RawValue>` values
(`BTreeMap<String, Box<RawValue>>`; the model returns the entries in source order, duplicates included — what
the map visitor is handed). A member is `(k, s, c)`: the key's string items, the decoded key, the value's text.
`MInner` / `MTail` (`SJ/Proofs/RawMap.lean`): `inner = ws` or
`ws member₁ (ws "," ws memberᵢ)* ws`, `member = strBytes k ws ":" ws c`. -/

open SJ.Proofs.RawMap SJ.Proofs.RawKey in
/-- **C19 (object values, exactly the values' texts).** `from_*::<map of Box<RawValue>>` succeeds on `bs` with
    the entries `(sᵢ, cᵢ)` **iff** `bs = w₀ "{" inner "}" w₃` with `MInner inner ms`, every key a well-formed
    string literal whose escapes pair up and which decodes to `sᵢ` (valid UTF-8 on byte sources: `KeyOK`),
    and every `cᵢ` one RFC 8259 `value` from its first to its last byte (`Captured`). -/
theorem c19_nested_capture_map (env : SJ.Model.Typed.Env) (hflt : env.flt = false) (bs : Bytes) (v : TVal) :
    rawMapTop env bs = .ok v ↔
    ∃ (ms : List Mem) (w₀ inner w₃ : Bytes), v = .map (ms.map memVal) ∧ bs = w₀ ++ [0x7b] ++ inner ++ [0x7d] ++ w₃ ∧
      Ws w₀ ∧ Ws w₃ ∧ MInner inner ms ∧ ∀ m ∈ ms, MemOK env m := by
  constructor
  · exact rawMapTop_sound env bs v
  · rintro ⟨ms, w₀, inner, w₃, rfl, rfl, h₀, h₃, hin, hcap⟩
    exact rawMapTop_complete env hflt ms w₀ inner w₃ h₀ h₃ hin hcap

open SJ.Proofs.RawMap SJ.Proofs.RawKey in
/-- **C19 (object values, over the grammar).** The entries of a successful capture are the members of an
    object derivation of the whole input: `JsonText bs (.obj members)` with the keys' items and
    `Derives cᵢ tᵢ` for the values. -/
theorem c19_nested_grammar_map (env : SJ.Model.Typed.Env) (bs : Bytes) (v : TVal) (h : rawMapTop env bs = .ok v) :
    ∃ (ms : List Mem) (ts : List CST), v = .map (ms.map memVal) ∧ AllDerive (ms.map (·.2.2)) ts ∧
      JsonText bs (.obj ((ms.map (·.1)).zip ts)) ∧ ∀ m ∈ ms, Spec.Denote.decodeItems m.1 = some m.2.1 := by
  obtain ⟨ms, w₀, inner, w₃, rfl, rfl, h₀, h₃, hin, hcap⟩ := rawMapTop_sound env bs v h
  have hts : ∀ (ms : List Mem), (∀ m ∈ ms, MemOK env m) → ∃ ts, AllDerive (ms.map (·.2.2)) ts := by
    intro ms
    induction ms with
    | nil => intro _; exact ⟨[], .nil⟩
    | cons m ms ih =>
      intro hc
      obtain ⟨ts, hts⟩ := ih (fun m' hm' => hc m' (by simp [hm']))
      obtain ⟨t, ht⟩ := (hc m (by simp)).2.1
      exact ⟨t :: ts, .cons ht hts⟩
  obtain ⟨ts, hall⟩ := hts ms hcap
  refine ⟨ms, ts, rfl, hall, ⟨w₀, [0x7b] ++ inner ++ [0x7d], w₃, by simp, h₀, h₃,
    derives_of_minner inner ms ts hin (fun m hm => (hcap m hm).1.wf) hall⟩, fun m hm => (hcap m hm).1.dec⟩

/-- non-vacuity: ` {"a" : 1 ,"\u0061":[ ]}` — two entries with the same decoded key `a`, in source order -/
def exObj : Bytes := [0x20, 0x7b, 0x22, 0x61, 0x22, 0x20, 0x3a, 0x20, 0x31, 0x20, 0x2c, 0x22, 0x5c, 0x75, 0x30, 0x30,
  0x36, 0x31, 0x22, 0x3a, 0x5b, 0x20, 0x5d, 0x7d]
example : rawMapTop {} exObj = .ok (.map [(.str [0x61], .str [0x31]), (.str [0x61], .str [0x5b, 0x20, 0x5d])]) := rfl
example : rawMapTop {} [0x7b, 0x22, 0x61, 0x22, 0x3a, 0x31, 0x2c, 0x7d] = .err .TrailingComma 8 := rfl

end SJ.Props.C19
