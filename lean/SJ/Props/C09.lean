import SJ.Proofs.Machine
import SJ.Proofs.Utf8Machine
/-!
# C09 — string, slice and reader inputs give identical outcomes

Proved here: the slice and the reader source give *identical* outcomes (value or error code and
position) for the `Value` and ignored targets, in every configuration, for every byte string.
The `&str` source differs from the slice source only in skipping the UTF-8 check of decoded
strings; a `&str` is valid UTF-8 by type, and on every valid UTF-8 input the check never fires
(`Proofs/Utf8Machine.lean`: what has been decoded so far followed by the unread input stays valid
UTF-8), so the `&str` source gives the identical outcome too: `c09_str_slice_value`, `c09_str_slice`,
and all three together in `c09_all_sources`.
-/
namespace SJ.Props.C09
open SJ SJ.Gen SJ.Model.Machine SJ.Proofs.Machine

def envOf (cfg : Cfg) (src : Src) (tgt : Tgt) : Env := { cfg := cfg, src := src, tgt := tgt }

theorem endStr_src (cfg : Cfg) (tgt : Tgt) (s : St) (st : StrSt) :
    endStr (envOf cfg .slice tgt) s st = endStr (envOf cfg .reader tgt) s st := by
  have h1 : (Src.slice != Src.str) = true := rfl
  have h2 : (Src.reader != Src.str) = true := rfl
  unfold endStr
  simp only [envOf, h1, h2]
  rfl

theorem stepStr_src (cfg : Cfg) (tgt : Tgt) (s : St) (st : StrSt) (b : UInt8) :
    stepStr (envOf cfg .slice tgt) s st b = stepStr (envOf cfg .reader tgt) s st b := by
  unfold stepStr
  simp only [endStr_src]
  rfl

theorem step1_src (cfg : Cfg) (tgt : Tgt) (s : St) (b : UInt8) :
    step1 (envOf cfg .slice tgt) s b = step1 (envOf cfg .reader tgt) s b := by
  unfold step1
  simp only [stepStr_src]
  rfl

theorem step_src (cfg : Cfg) (tgt : Tgt) (s : St) (b : UInt8) :
    step (envOf cfg .slice tgt) s b = step (envOf cfg .reader tgt) s b := by
  unfold step
  simp only [step1_src]

theorem finish_src (cfg : Cfg) (tgt : Tgt) (s : St) :
    finish (envOf cfg .slice tgt) s = finish (envOf cfg .reader tgt) s := rfl

theorem run_src (cfg : Cfg) (tgt : Tgt) (s : St) (i : Nat) (bs : Bytes) :
    run (envOf cfg .slice tgt) s i bs = run (envOf cfg .reader tgt) s i bs := by
  induction bs generalizing s i with
  | nil => simp only [run, finish_src]
  | cons b bs ih =>
    simp only [run]
    rw [step_src]
    cases h : step (envOf cfg .reader tgt) s b with
    | ok s' => exact ih s' (i + 1)
    | error e =>
      obtain ⟨c, a⟩ := e
      have ha := (step_err _ _ _ _ _ h).1
      subst ha
      simp [errIdx, envOf]

/-- **C09 (slice vs reader).** For every configuration, both targets and every byte string, parsing
    from a byte slice and from an `io::Read` (however it is chunked: `io::Bytes` yields one byte at a
    time) produce the same value, or the same error code at the same byte position — hence the same
    message, category, line and column. -/
theorem c09_slice_reader (cfg : Cfg) (tgt : Tgt) (bs : Bytes) :
    parseTop (envOf cfg .slice tgt) bs = parseTop (envOf cfg .reader tgt) bs :=
  run_src cfg tgt init 0 bs

/-- ignored content never looks at decoded strings, so `&str` and slice agree outright -/
theorem c09_str_slice_ignored (cfg : Cfg) (bs : Bytes) :
    parseTop (envOf cfg .str .ignored) bs = parseTop (envOf cfg .slice .ignored) bs := by
  have hstep : ∀ s b, step (envOf cfg .str .ignored) s b = step (envOf cfg .slice .ignored) s b := by
    intro s b
    have h1 : ∀ s st, endStr (envOf cfg .str .ignored) s st = endStr (envOf cfg .slice .ignored) s st := by
      intro s st; simp [endStr, envOf]
    have h2 : ∀ s st b, stepStr (envOf cfg .str .ignored) s st b = stepStr (envOf cfg .slice .ignored) s st b := by
      intro s st b; unfold stepStr; simp only [h1]; rfl
    have h3 : step1 (envOf cfg .str .ignored) s b = step1 (envOf cfg .slice .ignored) s b := by
      unfold step1; simp only [h2]; rfl
    have h3' : ∀ s b, step1 (envOf cfg .str .ignored) s b = step1 (envOf cfg .slice .ignored) s b := by
      intro s b; unfold step1; simp only [h2]; rfl
    unfold step; simp only [h3']
  have hrun : ∀ s i, run (envOf cfg .str .ignored) s i bs = run (envOf cfg .slice .ignored) s i bs := by
    induction bs with
    | nil => intro s i; rfl
    | cons b bs ih =>
      intro s i
      simp only [run, hstep]
      cases h : step (envOf cfg .slice .ignored) s b with
      | ok s' => exact ih s' (i + 1)
      | error e => obtain ⟨c, a⟩ := e; cases a <;> rfl
  exact hrun init 0

/-- non-vacuity -/
example : (parseTop (envOf {} .slice .value) [0x5b, 0x31, 0x65, 0x39, 0x39, 0x39, 0x2c, 0x32, 0x5d]).isErr
    .NumberOutOfRange 7 = true := by decide +kernel
example : (parseTop (envOf {} .reader .value) [0x5b, 0x31, 0x65, 0x39, 0x39, 0x39, 0x2c, 0x32, 0x5d]).isErr
    .NumberOutOfRange 7 = true := by decide +kernel

/-! ## the `&str` source -/

/-- **C09 (`&str` vs slice, `Value`).** A `&str` is valid UTF-8; on every valid UTF-8 input `from_str`
    and `from_slice` produce the same value, or the same error code at the same byte position. (The
    only difference between the sources — the `as_str` UTF-8 check of a decoded string, skipped for
    `&str` — never fires on such input.) -/
theorem c09_str_slice_value (cfg : Cfg) (bs : Bytes) (h : Spec.Utf8.validUtf8 bs = true) :
    parseTop ⟨cfg, .str, .value⟩ bs = parseTop ⟨cfg, .slice, .value⟩ bs :=
  SJ.Proofs.Utf8.parseTop_str_slice cfg .value bs h

/-- the same for either target (for skipped content the hypothesis is not even needed:
    `c09_str_slice_ignored`) -/
theorem c09_str_slice (cfg : Cfg) (tgt : Tgt) (bs : Bytes) (h : Spec.Utf8.validUtf8 bs = true) :
    parseTop (envOf cfg .str tgt) bs = parseTop (envOf cfg .slice tgt) bs :=
  SJ.Proofs.Utf8.parseTop_str_slice cfg tgt bs h

/-- **C09.** On valid UTF-8 input all three sources give identical outcomes. -/
theorem c09_all_sources (cfg : Cfg) (tgt : Tgt) (bs : Bytes) (h : Spec.Utf8.validUtf8 bs = true) :
    parseTop (envOf cfg .str tgt) bs = parseTop (envOf cfg .slice tgt) bs ∧
    parseTop (envOf cfg .slice tgt) bs = parseTop (envOf cfg .reader tgt) bs :=
  ⟨c09_str_slice cfg tgt bs h, c09_slice_reader cfg tgt bs⟩

/-- non-vacuity: `["éé😀é",1e999]` is valid UTF-8; both sources reject it with the same error at the
    same index (and accept the array without the number with the same value) -/
example : Spec.Utf8.validUtf8 [0x5b, 0x22, 0xc3, 0xa9, 0xc3, 0xa9, 0xf0, 0x9f, 0x98, 0x80, 0x5c, 0x75, 0x30, 0x30,
    0x65, 0x39, 0x22, 0x2c, 0x31, 0x65, 0x39, 0x39, 0x39, 0x5d] = true := by decide +kernel
example : (parseTop ⟨{}, .str, .value⟩ [0x5b, 0x22, 0xc3, 0xa9, 0xc3, 0xa9, 0xf0, 0x9f, 0x98, 0x80, 0x5c, 0x75, 0x30,
    0x30, 0x65, 0x39, 0x22, 0x2c, 0x31, 0x65, 0x39, 0x39, 0x39, 0x5d]).isErr .NumberOutOfRange 24 = true := by
  decide +kernel
example : (parseTop ⟨{}, .slice, .value⟩ [0x5b, 0x22, 0xc3, 0xa9, 0xc3, 0xa9, 0xf0, 0x9f, 0x98, 0x80, 0x5c, 0x75, 0x30,
    0x30, 0x65, 0x39, 0x22, 0x2c, 0x31, 0x65, 0x39, 0x39, 0x39, 0x5d]).isErr .NumberOutOfRange 24 = true := by
  decide +kernel
example : parseTop ⟨{}, .str, .value⟩ [0x5b, 0x22, 0xc3, 0xa9, 0xc3, 0xa9, 0xf0, 0x9f, 0x98, 0x80, 0x5c, 0x75, 0x30,
      0x30, 0x65, 0x39, 0x22, 0x5d] =
    .ok (.arr [.str [0xc3, 0xa9, 0xc3, 0xa9, 0xf0, 0x9f, 0x98, 0x80, 0xc3, 0xa9]]) := rfl
example : parseTop ⟨{}, .slice, .value⟩ [0x5b, 0x22, 0xc3, 0xa9, 0xc3, 0xa9, 0xf0, 0x9f, 0x98, 0x80, 0x5c, 0x75,
      0x30, 0x30, 0x65, 0x39, 0x22, 0x5d] =
    .ok (.arr [.str [0xc3, 0xa9, 0xc3, 0xa9, 0xf0, 0x9f, 0x98, 0x80, 0xc3, 0xa9]]) :=
  (c09_str_slice_value {} _ (by decide +kernel)).symm.trans rfl
/-- all three sources on `"é"` for skipped content -/
example : parseTop (envOf {} .str .ignored) [0x22, 0xc3, 0xa9, 0x22] = .ok .null ∧
    parseTop (envOf {} .slice .ignored) [0x22, 0xc3, 0xa9, 0x22] = parseTop (envOf {} .reader .ignored) [0x22, 0xc3, 0xa9, 0x22] :=
  ⟨rfl, (c09_all_sources {} .ignored _ (by decide +kernel)).2⟩
example : parseTop (envOf { ap := true } .reader .value) [0x22, 0xc3, 0xa9, 0x22] = .ok (.str [0xc3, 0xa9]) := by
  have h := c09_all_sources { ap := true } .value [0x22, 0xc3, 0xa9, 0x22] (by decide +kernel)
  rw [← h.2, ← h.1]; rfl
/-- the hypothesis is needed: on `"\xff"` (not UTF-8, so not a `&str`) the model of the `&str` source,
    which skips the check, differs from the slice source -/
example : parseTop ⟨{}, .str, .value⟩ [0x22, 0xff, 0x22] = .ok (.str [0xff]) ∧
    parseTop ⟨{}, .slice, .value⟩ [0x22, 0xff, 0x22] = .err .InvalidUnicodeCodePoint 3 := ⟨rfl, rfl⟩

end SJ.Props.C09
