import SJ.Props.C12
/-!
# C12 — the undelimited bare scalar and the offset of an error item, as theorems about `Model.Stream.next`

C12: "a bare scalar (number, true, false, null) must be followed by whitespace, a structural character, a quote or end
of input, otherwise an error is yielded for it. A malformed or truncated value yields one error … with byte_offset() at
the first byte of that value, after which the iterator yields None forever".

The Rust (src/de.rs):
```rust
fn peek_end_of_value(&mut self) -> Result<()> {
    let peek = match self.de.peek() { Ok(peek) => peek, Err(err) => { self.de.read.set_failed(&mut self.failed); return Err(err); } };
    match peek {
        Some(b' ' | b'\n' | b'\t' | b'\r' | b'"' | b'[' | b']' | b'{' | b'}' | b',' | b':') | None => Ok(()),
        Some(_) => { let position = self.de.read.peek_position();
                     Err(Error::syntax(ErrorCode::TrailingCharacters, position.line, position.column)) } } }
```
and in `next()`: `Ok(value) => { self.offset = self.de.read.byte_offset(); if self_delineated_value { Ok(value) } else
{ self.peek_end_of_value().map(|()| value) } }`, `Err(e) => { self.de.read.set_failed(&mut self.failed); Err(e) }`.

So there are TWO kinds of error items, and they behave differently — in the crate and in the model alike:

* an error of `Deserialize::deserialize` (the malformed or truncated value): `set_failed`, `self.offset` stays at the value's
  first byte (it was set there before the call), every later call is `None` — `c12_error_offset_first_byte`;
* the `TrailingCharacters` report of `peek_end_of_value` after a COMPLETE bare scalar: `self.offset` was already moved just
  past the scalar, `set_failed` is NOT called, and the next call goes on at the offending byte — `c12_undelimited_scalar_error`.
  (`truex`: `TrailingCharacters`, then the malformed value `x` yields its own error with `byte_offset()` at `x`, then `None`
  forever; `nullnull`: `TrailingCharacters`, then `null`, then `None`.) "An error is yielded for it" is what C12 says of the
  scalar; "`byte_offset()` at the first byte of that value … `None` forever" is said of the malformed value, which the scalar is not.
  The same exception is stated for typed items by `StreamTyped.c12_typed_error_fails`.

`next_err_cases` is the exhaustive case split of an error item of `next()` from a non-failed state into these two.
-/
namespace SJ.Props.C12Scalar
open SJ SJ.Gen SJ.Model.Machine SJ.Model.Stream SJ.Proofs.Machine SJ.Proofs.StreamValues SJ.Proofs.Complete
open SJ.Spec.Grammar (CST Ws Derives)
open SJ.Props.C12 (c12_fused envS)

/-- a bare scalar in the sense of `next()`: its first byte is none of `[`, `"`, `{` (`self_delineated_value` is false).
    A derivable value with this property is a number, `true`, `false` or `null`. -/
def Bare (v : Bytes) : Prop := ∀ b v', v = b :: v' → isSelfDelineated b = false

/-- **C12 (an undelimited bare scalar yields an error).** For `Value` and `IgnoredAny` items, every source and
    configuration, any non-failed state whose unread input is `w ++ v ++ d :: r` with `w` whitespace, `v` a complete bare
    scalar (a derivable value not starting with `[`, `"`, `{`: a number within range — `Side` — or `true` / `false` /
    `null`) and `d` a byte that is not in the delimiter list of `peek_end_of_value` (`Gen.streamDelims`, regenerated from
    src/de.rs: the four whitespace bytes, `"`, `[`, `]`, `{`, `}`, `,`, `:`) and, after a number, does not continue the
    literal (`numCont`: a digit, `.`, `e`, `E`): `next()` yields `Err(TrailingCharacters)` positioned at `d` (index of `d`
    plus one), `byte_offset()` is just past the scalar, the stream is NOT failed and its unread input starts at `d`. -/
theorem c12_undelimited_scalar_error (env : Env) (w v r : Bytes) (t : CST) (d : UInt8) (P off : Nat) (hw : Ws w)
    (hd : Derives v t) (hside : Side env 0 t) (hbare : Bare v) (hdel : isStreamDelim d = false)
    (hcont : (∃ q, t = .num q) → numCont d = false) :
    next env ⟨w ++ (v ++ d :: r), P, off, false⟩ =
      (.err .TrailingCharacters (P + w.length + v.length + 1),
       ⟨d :: r, P + w.length + v.length, P + w.length + v.length, false⟩) := by
  obtain ⟨b, v', rfl, hb⟩ := derives_head hd
  obtain ⟨val, _, hrun⟩ := runPrefix_complete env (b :: v') t hd hside (d :: r) (P + w.length)
    (by intro hq d' r' h; simp only [List.cons.injEq] at h; rw [← h.1]; exact hcont hq)
  have hskip : skipWs (w ++ (b :: v' ++ d :: r)) P = (b :: (v' ++ d :: r), P + w.length) :=
    skipWs_ws w _ P hw (by intro b' r' h; simp only [List.cons_append, List.cons.injEq] at h; rw [← h.1]; exact hb)
  have hrun' : runPrefix env init (P + w.length) (b :: (v' ++ d :: r)) =
      .ok val (P + w.length + (b :: v').length) := hrun
  have hdrop : (b :: (v' ++ d :: r)).drop (P + w.length + (b :: v').length - (P + w.length)) = d :: r := by
    have : P + w.length + (b :: v').length - (P + w.length) = (b :: v').length := by omega
    rw [this]
    exact List.drop_left' rfl
  have hs : isSelfDelineated b = false := hbare b v' rfl
  unfold next
  simp only [hskip, hrun', hdrop, Bool.false_eq_true, if_false, hs, hdel]

/-- the three identifiers: no side condition, any byte outside the delimiter list -/
theorem c12_undelimited_literal (env : Env) (w x r : Bytes) (d : UInt8) (P off : Nat) (hw : Ws w)
    (hx : x = [0x74, 0x72, 0x75, 0x65] ∨ x = [0x66, 0x61, 0x6c, 0x73, 0x65] ∨ x = [0x6e, 0x75, 0x6c, 0x6c])
    (hdel : isStreamDelim d = false) :
    next env ⟨w ++ (x ++ d :: r), P, off, false⟩ =
      (.err .TrailingCharacters (P + w.length + x.length + 1),
       ⟨d :: r, P + w.length + x.length, P + w.length + x.length, false⟩) := by
  rcases hx with rfl | rfl | rfl
  · exact c12_undelimited_scalar_error env w _ r .true_ d P off hw Derives.true_
      (fun _ => ⟨Or.inr (by decide), rfl, fun _ => rfl, rfl⟩)
      (by intro b v' h; simp only [List.cons.injEq] at h; rw [← h.1]; decide) hdel (by rintro ⟨q, h⟩; cases h)
  · exact c12_undelimited_scalar_error env w _ r .false_ d P off hw Derives.false_
      (fun _ => ⟨Or.inr (by decide), rfl, fun _ => rfl, rfl⟩)
      (by intro b v' h; simp only [List.cons.injEq] at h; rw [← h.1]; decide) hdel (by rintro ⟨q, h⟩; cases h)
  · exact c12_undelimited_scalar_error env w _ r .null d P off hw Derives.null
      (fun _ => ⟨Or.inr (by decide), rfl, fun _ => rfl, rfl⟩)
      (by intro b v' h; simp only [List.cons.injEq] at h; rw [← h.1]; decide) hdel (by rintro ⟨q, h⟩; cases h)

/-- numbers: a well-formed literal (RFC 8259 `number`), within range when the item type is `Value` (no condition for
    `IgnoredAny`), followed by a byte that neither delimits (`Gen.streamDelims`) nor continues it (digit, `.`, `e`, `E`).
    `+` and `-` do not continue a complete literal: `1-2` and `1+2` are covered. -/
theorem c12_undelimited_number (env : Env) (w r : Bytes) (q : Spec.Grammar.NumParts) (d : UInt8) (P off : Nat)
    (hw : Ws w) (hwf : q.WF = true)
    (hrange : env.tgt = .value → Spec.Canon.numbersInRange (SJ.Proofs.CanonM.specCfg env.cfg) (.num q) = true)
    (hdel : isStreamDelim d = false) (hcont : numCont d = false) :
    next env ⟨w ++ (q.bytes ++ d :: r), P, off, false⟩ =
      (.err .TrailingCharacters (P + w.length + q.bytes.length + 1),
       ⟨d :: r, P + w.length + q.bytes.length, P + w.length + q.bytes.length, false⟩) := by
  refine c12_undelimited_scalar_error env w _ r (.num q) d P off hw (Derives.num q hwf)
    (fun h => ⟨Or.inr (by simp [Spec.Grammar.depth]), rfl, fun _ => rfl, hrange h⟩) ?_ hdel (fun _ => hcont)
  intro b v' h
  obtain ⟨b0, r0, hbr, hb0⟩ := num_head q hwf
  rw [hbr] at h
  simp only [List.cons.injEq] at h
  rw [← h.1]
  rcases hb0 with rfl | hb0
  · decide
  · cases hsd : isSelfDelineated b0 with
    | false => rfl
    | true => exact absurd hb0 (by rw [(selfDelineated_not_num b0 hsd).2]; simp)

/-! ## every error item: which of the two kinds it is, and what `byte_offset()` is -/

/-- **the two kinds of error item.** An error item of `next()` from a non-failed state is either the error of
    `Deserialize::deserialize` on the input after the skipped whitespace — then the new state is failed, with position
    and `byte_offset()` at the first byte after that whitespace — or the `TrailingCharacters` of `peek_end_of_value`
    after a complete value read up to `e`: then `byte_offset() = e`, the reported index is `e + 1`, the stream is not failed
    and its unread input starts with a byte outside the delimiter list. -/
theorem next_err_cases (env : Env) (st : SS) (c : Code) (idx : Nat) (st' : SS) (hf : st.failed = false)
    (h : next env st = (.err c idx, st')) :
    (runPrefix env init (skipWs st.rest st.pos).2 (skipWs st.rest st.pos).1 = .err c idx ∧
        st' = ⟨(skipWs st.rest st.pos).1, (skipWs st.rest st.pos).2, (skipWs st.rest st.pos).2, true⟩) ∨
    (∃ v e, runPrefix env init (skipWs st.rest st.pos).2 (skipWs st.rest st.pos).1 = .ok v e ∧
        c = .TrailingCharacters ∧ idx = e + 1 ∧ st'.offset = e ∧ st'.pos = e ∧ st'.failed = false ∧
        ∃ d r', st'.rest = d :: r' ∧ isStreamDelim d = false) := by
  unfold next at h
  simp only [hf, Bool.false_eq_true, if_false] at h
  cases hsk : skipWs st.rest st.pos with
  | mk r p =>
    rw [hsk] at h
    simp only at h
    cases r with
    | nil => simp at h
    | cons b r0 =>
      simp only at h
      cases hr : runPrefix env init p (b :: r0) with
      | err c' idx' =>
        rw [hr] at h
        simp only [Prod.mk.injEq, Item.err.injEq] at h
        obtain ⟨⟨rfl, rfl⟩, rfl⟩ := h
        exact Or.inl ⟨rfl, rfl⟩
      | ok v e =>
        rw [hr] at h
        simp only at h
        refine Or.inr ⟨v, e, rfl, ?_⟩
        split at h
        · simp at h
        · split at h
          · simp at h
          · rename_i d r' hrest
            split at h
            · simp at h
            · rename_i hdl
              simp only [Prod.mk.injEq, Item.err.injEq] at h
              obtain ⟨⟨rfl, rfl⟩, rfl⟩ := h
              exact ⟨rfl, rfl, rfl, rfl, rfl, d, r', hrest, by simpa using hdl⟩

/-- **C12 (`byte_offset()` of an error item is the first byte of that value; `None` forever after).** Any non-failed
    state with `byte_offset() = off`, position `P`, unread input `w ++ r` where `w` is the whitespace `next()` skips (`r`
    does not start with whitespace), any error item `Err(c)` of `next()` — for EVERY error `Deserialize::deserialize`
    returns (first alternative: exactly when the stream is failed afterwards) the `byte_offset()` recorded with the item
    is `P + |w|`, the index of the first byte of that value, the unread input is frozen there, and every later call of
    `next()`, any number of them, yields `None` (`c12_fused`). The only other error item (second alternative) is the
    `TrailingCharacters` of `peek_end_of_value` after a complete value ending at `e > P + |w|`: `byte_offset() = e`, the
    byte just past that value (which is not malformed), the stream goes on at the offending byte. -/
theorem c12_error_offset_first_byte (env : Env) (w r : Bytes) (P off : Nat) (hw : Ws w)
    (hr : ∀ b r', r = b :: r' → isWs b = false) (c : Code) (idx : Nat) (st' : SS)
    (h : next env ⟨w ++ r, P, off, false⟩ = (.err c idx, st')) :
    (st'.failed = true ∧ st'.offset = P + w.length ∧ st'.pos = P + w.length ∧ st'.rest = r ∧
        runPrefix env init (P + w.length) r = .err c idx ∧
        ∀ k, ∀ p ∈ history env k st', p.1 = Item.none) ∨
    (st'.failed = false ∧ c = .TrailingCharacters ∧ idx = st'.offset + 1 ∧ P + w.length < st'.offset ∧
        (∃ v, runPrefix env init (P + w.length) r = .ok v st'.offset) ∧
        ∃ d r', st'.rest = d :: r' ∧ isStreamDelim d = false) := by
  have hsk : skipWs (w ++ r) P = (r, P + w.length) := skipWs_ws w r P hw hr
  rcases next_err_cases env _ c idx st' rfl h with ⟨hrun, rfl⟩ | ⟨v, e, hrun, rfl, rfl, ho, _, hfl, hd⟩
  · simp only [hsk] at hrun
    rw [hsk]
    exact Or.inl ⟨rfl, rfl, rfl, rfl, hrun, fun k => c12_fused env k _ rfl⟩
  · simp only [hsk] at hrun
    subst ho
    refine Or.inr ⟨hfl, rfl, rfl, ?_, ⟨v, hrun⟩, hd⟩
    cases r with
    | nil =>
      exfalso
      have : next env ⟨w ++ [], P, off, false⟩ = (.none, ⟨[], P + w.length, P + w.length, false⟩) := by
        simpa using next_end env w P off hw
      rw [this] at h; simp at h
    | cons b r0 => exact SJ.Props.C12.c12_progress env _ b r0 v _ hrun

/-- the failed alternative, by the code: an error item other than `TrailingCharacters` has `byte_offset()` at the first
    byte of its value and fuses the stream -/
theorem c12_error_offset_first_byte_of_code (env : Env) (w r : Bytes) (P off : Nat) (hw : Ws w)
    (hr : ∀ b r', r = b :: r' → isWs b = false) (c : Code) (idx : Nat) (st' : SS)
    (h : next env ⟨w ++ r, P, off, false⟩ = (.err c idx, st')) (hc : c ≠ .TrailingCharacters) :
    st'.failed = true ∧ st'.offset = P + w.length ∧ ∀ k, ∀ p ∈ history env k st', p.1 = Item.none := by
  rcases c12_error_offset_first_byte env w r P off hw hr c idx st' h with ⟨h1, h2, _, _, _, h3⟩ | ⟨_, h1, _⟩
  · exact ⟨h1, h2, h3⟩
  · exact absurd h1 hc

/-! ## kernel-checked examples

`trace env k bs`: `k` calls of `next()` on `bs`; for each the kind of item (0 `None`, 1 `Some(Ok)`, 2
`Some(Err(TrailingCharacters))`, 3 any other `Some(Err)`), `byte_offset()` after it, and the failed flag. -/

def tag : Item → Nat
  | .none => 0
  | .ok _ => 1
  | .err .TrailingCharacters _ => 2
  | .err _ _ => 3

def traceFrom (env : Env) : Nat → SS → List (Nat × Nat × Bool)
  | 0, _ => []
  | k + 1, st => let (it, st') := next env st; (tag it, st'.offset, st'.failed) :: traceFrom env k st'

def trace (env : Env) (k : Nat) (bs : Bytes) : List (Nat × Nat × Bool) := traceFrom env k (start bs)

def envI : Env := { cfg := {}, src := .reader, tgt := .ignored }

/-- `truex`: the scalar's error (offset 4, not failed), the malformed value `x` (offset 4 = its first byte, failed), `None` … -/
example : (trace envS 4 [0x74, 0x72, 0x75, 0x65, 0x78] == [(2, 4, false), (3, 4, true), (0, 4, true), (0, 4, true)]) = true := by
  decide +kernel
example : (trace envI 4 [0x74, 0x72, 0x75, 0x65, 0x78] == [(2, 4, false), (3, 4, true), (0, 4, true), (0, 4, true)]) = true := by
  decide +kernel
/-- `1x` -/
example : (trace envS 4 [0x31, 0x78] == [(2, 1, false), (3, 1, true), (0, 1, true), (0, 1, true)]) = true := by
  decide +kernel
/-- `nullnull`: the first `null` is undelimited (error, not failed), the second is read: the stream goes on -/
example : (trace envS 4 [0x6e, 0x75, 0x6c, 0x6c, 0x6e, 0x75, 0x6c, 0x6c] ==
    [(2, 4, false), (1, 8, false), (0, 8, false), (0, 8, false)]) = true := by decide +kernel
/-- ` \n falsey` -/
example : (trace envS 4 [0x20, 0x0a, 0x20, 0x66, 0x61, 0x6c, 0x73, 0x65, 0x79] ==
    [(2, 8, false), (3, 8, true), (0, 8, true), (0, 8, true)]) = true := by decide +kernel
/-- controls: `1 2` (whitespace delimits) and `true]` (`]` delimits; then `]` is a malformed value at offset 4) -/
example : (trace envS 4 [0x31, 0x20, 0x32] == [(1, 1, false), (1, 3, false), (0, 3, false), (0, 3, false)]) = true := by
  decide +kernel
example : (trace envS 4 [0x74, 0x72, 0x75, 0x65, 0x5d] == [(1, 4, false), (3, 4, true), (0, 4, true), (0, 4, true)]) = true := by
  decide +kernel
/-- `1.5ex`: `e` continues the literal, which is then malformed as a whole: ONE error, offset 0 = its first byte, failed -/
example : (trace envS 3 [0x31, 0x2e, 0x35, 0x65, 0x78] == [(3, 0, true), (0, 0, true), (0, 0, true)]) = true := by
  decide +kernel

/-- the theorems at instances: ` \n falsey` and `1x` by `c12_undelimited_literal` / `c12_undelimited_number` -/
example : next envS (start [0x20, 0x0a, 0x20, 0x66, 0x61, 0x6c, 0x73, 0x65, 0x79]) =
    (.err .TrailingCharacters 9, ⟨[0x79], 8, 8, false⟩) :=
  c12_undelimited_literal envS [0x20, 0x0a, 0x20] [0x66, 0x61, 0x6c, 0x73, 0x65] [] 0x79 0 0 (by decide)
    (Or.inr (Or.inl rfl)) (by decide)
example : next envI (start [0x31, 0x78]) = (.err .TrailingCharacters 2, ⟨[0x78], 1, 1, false⟩) :=
  c12_undelimited_number envI [] [] ⟨false, [0x31], [], []⟩ 0x78 0 0 (by decide) (by decide)
    (by intro h; cases h) (by decide) (by decide)
/-- … and the second call of `truex` (state after the first: unread `x` at 4) by `c12_error_offset_first_byte_of_code` -/
example : ∃ c idx st', next envS ⟨[0x78], 4, 4, false⟩ = (.err c idx, st') ∧ st'.failed = true ∧ st'.offset = 4 ∧
    ∀ k, ∀ p ∈ history envS k st', p.1 = Item.none := by
  refine ⟨.ExpectedSomeValue, 5, ⟨[0x78], 4, 4, true⟩, rfl, ?_⟩
  exact c12_error_offset_first_byte_of_code envS [] [0x78] 4 4 (by decide) (by intro b r' h; cases h; decide)
    .ExpectedSomeValue 5 _ rfl (by decide)

end SJ.Props.C12Scalar
