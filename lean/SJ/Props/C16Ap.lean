import SJ.Props.C16
import SJ.Proofs.TypedAgreeAp
/-!
# C16 under `arbitrary_precision` — the text leg

With the feature a `Value` holds number LITERALS in any RFC 8259 spelling (`Num.lit`), `to_string` prints them verbatim, and
`from_value` / `&Value` convert them with `str::parse` (`Number::deserialize_iN` = `self.n.parse::<iN>()`,
`deserialize_f64` = `self.n.parse::<f64>()`, `deserialize_any` with its accessor shortcuts) while `from_str` runs the JSON number
scanner on the same bytes. The owned / borrowed leg is `c16_owned_borrowed` (every configuration). The text leg is
`c16_text_agrees_ap_partial` below: the three paths agree OUTSIDE three exclusions, which correspond one to one to the three
open findings of this property, each shown necessary by a kernel-checked instance of the models (the same inputs are replayed
on the crate by op `c16` in the `ap` configuration: `known_findings.json`).
-/
namespace SJ.Props.C16
open SJ SJ.Model.FromValue

/-- **C16, the text leg under `arbitrary_precision` (`_partial`: three exclusions = the three open findings; one float
    hypothesis).** For every schema of the fragment `agreeFrag2` (every schema of the universe without `f32` targets and
    zero-length tuple variants, `Value` targets included) and every value an `arbitrary_precision` build can hold (`shapeOK`
    with `ap = true`: every number is a literal, an RFC 8259 number in ANY spelling), within the parser's depth budget and
    outside the statement's exclusion "a struct variant written as an array" (`hx`), such that on the way the deserializers
    visit schema and value (`Schema.allPos`)

    * `hNegZero` — no signed 8–64-bit integer target meets the literal `-0` (`apNegZero`; finding `C16-ap-negative-zero`:
      `"-0".parse::<i8>() = Ok(0)`, the JSON scanner yields the float `-0.0`, which an integer visitor refuses);
    * `hFinite` — no `f64` target meets a literal whose nearest binary64 is not finite (`apNonFinite`; finding
      `C16-ap-non-finite-f64`: `"1e400".parse::<f64>() = Ok(inf)`, the JSON scanner answers `number out of range`);
    * `hAnyFixed` — no `Value` target meets a value holding a literal that `Number::deserialize_any` re-renders
      (`apAnyMoved`: `-0` through the `as_i64` shortcut, a literal equal to `f64::to_string` of its value but not to `ryu`'s
      spelling through the `as_f64` shortcut; findings `C16-ap-negative-zero`, second half, and `C16-ap-display-form`);
      vacuous for a schema without `Value` targets;

    and under the float hypothesis `hAccurate` — wherever an `f64` target meets a literal of finite range, the JSON number
    conversion the build is configured with returns the binary64 NEAREST to the literal's exact value (`apAccurate`;
    `str::parse::<f64>` is std's, assumed correctly rounded — `Model/NumberAp.lean` —, so this is the statement's
    "comparisons involving f64 assume float_roundtrip or short float literals": true of every literal under
    `float_roundtrip` by C07, `c16_ap_accurate_fr` below, and of short literals in the default build by C08) —:
    `to_string(v)` succeeds and `from_str::<T>` of that text (typed deserializer + `end()`, any source) returns exactly what
    `from_value::<T>(v)` returns, and fails whenever it fails. Together with `c16_owned_borrowed` this is the three-way
    statement under the feature. An integer literal into `f64` (`as f64` of the parsed integer against `str::parse`), a
    literal with a fraction or an exponent into an integer target (refused on both sides; by the caller of
    `scan_integer128` for the 128-bit targets), integer literals of any size into `i128` / `u128`, and every non-numeric
    target on a literal are covered. What is NOT proved is what the three exclusions leave out — and there the claim is false
    (examples below). -/
theorem c16_text_agrees_ap_partial (mcfg : Model.Machine.Cfg) (hap : mcfg.ap = true) (src : Model.Machine.Src)
    (ext : Spec.Program.Ext) (hext : Spec.Program.ExtOK ext) (ext' : Ext) (s : Schema) (hs : Proofs.Typed.agreeFrag2 s = true)
    (v : JV) (hv : Spec.WF.shapeOK (Proofs.CanonM.specCfg mcfg) v = true)
    (hNegZero : s.allPos (fun s v => !apNegZero s v) v = true)
    (hFinite : s.allPos (fun s v => !apNonFinite s v) v = true)
    (hAnyFixed : s.allPos (fun s v => !apAnyMoved ext' s v) v = true)
    (hAccurate : s.allPos (apAccurate mcfg.fr) v = true)
    (hx : s.svArr v = false)
    (hd : mcfg.limitOff = true ∨ Spec.WF.depthJV v ≤ 127) :
    ∃ bufs, Model.Ser.serCompact ext (Model.Ser.ofValue v) = .ok bufs ∧
      (match fromValue { po := mcfg.po, fr := mcfg.fr, ap := true } ext' s v with
       | .ok t => Model.Typed.deTypedTop { cfg := mcfg, src := src } s bufs.flatten = .ok t
       | .error _ => ∀ t, Model.Typed.deTypedTop { cfg := mcfg, src := src } s bufs.flatten ≠ .ok t) := by
  have hl : Spec.Image.valueLitsOK v = true := SJ.Proofs.RoundTrip.valueLitsOK_of_shapeOK _ v hv
  obtain ⟨⟨bufs, hser, htext⟩, _⟩ := SJ.Props.C03.c03_value ext hext v hl
  refine ⟨bufs, hser, ?_⟩
  rw [htext]
  have hag := Proofs.Typed.agree_all_ap ext hext (env := { cfg := mcfg, src := src }) rfl hap
    { po := mcfg.po, fr := mcfg.fr, ap := true } rfl ext' (Model.Typed.Schema.size s + 1) s (by omega) hs
    0 v
    (by rcases hd with h | h
        · exact .inl h
        · exact .inr (by omega)) hx hv hNegZero hFinite hAccurate hAnyFixed [] 0 (.inl rfl)
  simp only [List.append_nil] at hag
  unfold Proofs.Typed.T at hag
  unfold Model.Typed.deTypedTop
  cases hfv : fromValue { po := mcfg.po, fr := mcfg.fr, ap := true } ext' s v with
  | ok t =>
    rw [hfv] at hag
    simp only at hag ⊢
    rw [hag]
    simp [Model.Stream.skipWs]
  | error e =>
    rw [hfv] at hag
    simp only at hag ⊢
    intro t
    cases hde : Model.Typed.deTyped { cfg := mcfg, src := src } (Model.Typed.Schema.size s + 1) 0 s
        (Spec.Image.render (Spec.Image.imageOfValue ext v)) 0 with
    | ok x r p =>
      -- returned in front of `.` / `e` / `E` (a literal with a fraction or an exponent under a 128-bit integer target):
      -- `end()` reports trailing characters
      obtain ⟨c, tl, rfl, hw, _⟩ := Proofs.Typed.badHead_facts (hag x r p hde)
      simp [Proofs.Typed.skipWs_cons hw]
    | _ => simp

/-! ## the executable statement of op `c16` under the feature applies exactly these exclusions -/

/-- The exclusion evaluated by the driver in the `ap` configuration (`Model.FromValue.c16ApExcluded`, through the guarded
    `Number::as_f64`) is the disjunction of the three exclusions of the theorem: on every pair outside it (and outside the
    statement's own exclusions) the three REAL outcomes are compared, under a message no known finding matches. -/
theorem c16_ap_oracle_domain (ext' : Ext) (s : Schema) (v : JV) :
    c16ApExcluded ext' s v =
      (!(s.allPos (fun s v => !apNegZero s v) v) || !(s.allPos (fun s v => !apNonFinite s v) v) ||
        !(s.allPos (fun s v => !apAnyMoved ext' s v) v)) ∧
    apAccurateX = apAccurate :=
  ⟨Proofs.Typed.c16ApExcluded_eq ext' s v, funext Proofs.Typed.apAccurateX_eq⟩

/-! ## each exclusion is necessary: the three open findings on the models (replayed on the crate by op `c16`, `ap` build)

`neg0` = the literal `-0`, `big` = `1e400`, `disp` = `0.000001`, whose `ryu` spelling is `1e-6` and whose `f64::to_string`
is `0.000001` (`extDisp`: what the harness passes for that literal). -/
def neg0 : Bytes := [0x2d, 0x30]
def big : Bytes := [0x31, 0x65, 0x34, 0x30, 0x30]
def disp : Bytes := [0x30, 0x2e, 0x30, 0x30, 0x30, 0x30, 0x30, 0x31]
def extDisp : Ext := { prints := fun l => if l == disp then some ([0x31, 0x65, 0x2d, 0x36], disp) else none }

/-- **`hNegZero` is necessary** (finding `C16-ap-negative-zero`, `c16 ap ia l2d30;`): `from_value::<i8>(-0)` = `Ok(0)`, `from_str::<i8>("-0")`
    fails; every other hypothesis of the theorem holds of the pair -/
example : fromValue { ap := true } {} (.int .i8) (.num (.lit neg0)) = .ok (.int 0) ∧
    fromValueRef { ap := true } {} (.int .i8) (.num (.lit neg0)) = .ok (.int 0) ∧
    (match Model.Typed.deTypedTop { cfg := { ap := true } } (.int .i8) neg0 with | .ok _ => false | _ => true) = true ∧
    (Schema.int .i8).allPos (fun s v => !apNegZero s v) (.num (.lit neg0)) = false ∧
    (Schema.int .i8).allPos (fun s v => !apNonFinite s v) (.num (.lit neg0)) = true ∧
    (Schema.int .i8).allPos (fun s v => !apAnyMoved {} s v) (.num (.lit neg0)) = true ∧
    (Schema.int .i8).allPos (apAccurate false) (.num (.lit neg0)) = true :=
  ⟨by decide +kernel, by decide +kernel, by decide +kernel, by decide, by decide, by decide, by decide⟩

/-- the same literal is fine under an unsigned, a 128-bit or an `f64` target: refused by both sides, `0` on both sides, `-0.0` on both -/
example : fromValue { ap := true } {} (.int .u8) (.num (.lit neg0)) = .error () ∧
    (match Model.Typed.deTypedTop { cfg := { ap := true } } (.int .u8) neg0 with | .ok _ => false | _ => true) = true ∧
    fromValue { ap := true } {} (.int .i128) (.num (.lit neg0)) = .ok (.int 0) ∧
    (match Model.Typed.deTypedTop { cfg := { ap := true } } (.int .i128) neg0 with | .ok t => t == .int 0 | _ => false) = true ∧
    (match fromValue { ap := true } {} .f64 (.num (.lit neg0)) with | .ok t => t == .f64 0x8000000000000000 | _ => false) = true ∧
    (match Model.Typed.deTypedTop { cfg := { ap := true } } .f64 neg0 with | .ok t => t == .f64 0x8000000000000000 | _ => false) = true ∧
    (Schema.int .i128).allPos (fun s v => !apNegZero s v) (.num (.lit neg0)) = true ∧
    (Schema.int .u8).allPos (fun s v => !apNegZero s v) (.num (.lit neg0)) = true :=
  ⟨by decide +kernel, by decide +kernel, by decide +kernel, by decide +kernel, by decide +kernel, by decide +kernel, by decide, by decide⟩

/-- **`hFinite` is necessary** (finding `C16-ap-non-finite-f64`, `c16 ap d l3165343030;`): `from_value::<f64>(1e400)` = `Ok(inf)`,
    `from_str::<f64>("1e400")` fails with `number out of range` -/
example : (match fromValue { ap := true } {} .f64 (.num (.lit big)) with | .ok t => t == .f64 0x7ff0000000000000 | _ => false) = true ∧
    (match Model.Typed.deTypedTop { cfg := { ap := true } } .f64 big with | .err .NumberOutOfRange _ => true | _ => false) = true ∧
    Schema.f64.allPos (fun s v => !apNonFinite s v) (.num (.lit big)) = false ∧
    Schema.f64.allPos (fun s v => !apNegZero s v) (.num (.lit big)) = true ∧
    Schema.f64.allPos (fun s v => !apAnyMoved {} s v) (.num (.lit big)) = true ∧
    Schema.f64.allPos (apAccurate false) (.num (.lit big)) = true :=
  ⟨by decide +kernel, by decide +kernel, by decide +kernel, by decide, by decide, by decide +kernel⟩

/-- **`hAnyFixed` is necessary** (findings `C16-ap-display-form`, `c16 ap a l302e303030303031;`, and `C16-ap-negative-zero`, `c16 ap a l2d30;`):
    `from_value::<Value>(0.000001)` = `1e-6` and `from_value::<Value>(-0)` = `0`, `from_str::<Value>` keeps both literals -/
example : fromValue { ap := true } extDisp .any (.num (.lit disp)) = .ok (.any (.num (.lit [0x31, 0x65, 0x2d, 0x36]))) ∧
    (match Model.Typed.deTypedTop { cfg := { ap := true } } .any disp with | .ok t => t == .any (.num (.lit disp)) | _ => false) = true ∧
    Schema.any.allPos (fun s v => !apAnyMoved extDisp s v) (.num (.lit disp)) = false ∧
    fromValue { ap := true } {} .any (.num (.lit neg0)) = .ok (.any (.num (.lit [0x30]))) ∧
    (match Model.Typed.deTypedTop { cfg := { ap := true } } .any neg0 with | .ok t => t == .any (.num (.lit neg0)) | _ => false) = true ∧
    Schema.any.allPos (fun s v => !apAnyMoved {} s v) (.num (.lit neg0)) = false :=
  ⟨by decide +kernel, by decide +kernel, by decide +kernel, by decide +kernel, by decide +kernel, by decide +kernel⟩

/-- `ryu`'s own spelling of the same number is inside the theorem: `litFixed`, and rebuilt verbatim -/
example : litFixed { prints := fun _ => some ([0x31, 0x65, 0x2d, 0x36], disp) } [0x31, 0x65, 0x2d, 0x36] = true ∧
    fromValue { ap := true } { prints := fun _ => some ([0x31, 0x65, 0x2d, 0x36], disp) } .any (.num (.lit [0x31, 0x65, 0x2d, 0x36])) =
      .ok (.any (.num (.lit [0x31, 0x65, 0x2d, 0x36]))) := ⟨by decide +kernel, by decide +kernel⟩

/-! ## non-vacuity: instances of the theorem -/

/-- `[-0, 1.50e0, 255, [7, "x"], 1E2]` as `(i128, f64, u8, Value, f64)` under the feature: the literal `-0` under a 128-bit target, a
    literal in a spelling `ryu` never prints under `f64`, integer literals under `u8` and inside a `Value`, an exponent without
    fraction — `from_value` and the text path return the same typed value -/
def exApSchema : Schema := .tuple [.int .i128, .f64, .int .u8, .any, .f64]
def exApValue : JV := .arr [.num (.lit neg0), .num (.lit [0x31, 0x2e, 0x35, 0x30, 0x65, 0x30]), .num (.lit [0x32, 0x35, 0x35]),
  .arr [.num (.lit [0x37]), .str [0x78]], .num (.lit [0x31, 0x45, 0x32])]

example : ∃ bufs, Model.Ser.serCompact extE (Model.Ser.ofValue exApValue) = .ok bufs ∧
    Model.Typed.deTypedTop { cfg := { ap := true }, src := .slice } exApSchema bufs.flatten =
      .ok (.seq [.int 0, .f64 0x3ff8000000000000, .int 255, .any (.arr [.num (.lit [0x37]), .str [0x78]]), .f64 0x4059000000000000]) := by
  have h := c16_text_agrees_ap_partial { ap := true } rfl .slice extE extE_ok {} exApSchema (by decide) exApValue (by decide +kernel)
    (by decide +kernel) (by decide +kernel) (by decide +kernel) (by decide +kernel) (by decide) (.inr (by decide))
  have hv : fromValue { po := false, fr := false, ap := true } {} exApSchema exApValue =
      .ok (.seq [.int 0, .f64 0x3ff8000000000000, .int 255, .any (.arr [.num (.lit [0x37]), .str [0x78]]), .f64 0x4059000000000000]) := by
    decide +kernel
  obtain ⟨bufs, h1, h2⟩ := h
  rw [hv] at h2
  exact ⟨bufs, h1, h2⟩

/-- `[1.5]` as `(i128,)`: a literal with a fraction MEETS the 128-bit target; `from_value` refuses (`"1.5".parse::<i128>()`), and the
    theorem says the text path does too (`scan_integer128` returns `1`, `end_seq` finds `.`) -/
example : ∃ bufs, Model.Ser.serCompact extE (Model.Ser.ofValue (.arr [.num (.lit [0x31, 0x2e, 0x35])])) = .ok bufs ∧
    ∀ t, Model.Typed.deTypedTop { cfg := { ap := true }, src := .slice } (.tuple [.int .i128]) bufs.flatten ≠ .ok t := by
  have h := c16_text_agrees_ap_partial { ap := true } rfl .slice extE extE_ok {} (.tuple [.int .i128]) (by decide)
    (.arr [.num (.lit [0x31, 0x2e, 0x35])]) (by decide +kernel)
    (by decide +kernel) (by decide +kernel) (by decide +kernel) (by decide +kernel) (by decide) (.inr (by decide))
  have hv : fromValue { po := false, fr := false, ap := true } {} (.tuple [.int .i128]) (.arr [.num (.lit [0x31, 0x2e, 0x35])]) = .error () := by
    decide +kernel
  obtain ⟨bufs, h1, h2⟩ := h
  rw [hv] at h2
  exact ⟨bufs, h1, h2⟩

end SJ.Props.C16
