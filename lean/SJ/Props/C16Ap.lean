import SJ.Props.C16
import SJ.Proofs.TypedAgreeAp
/-!
# C16 under `arbitrary_precision` — the text leg

With the feature a `Value` holds number LITERALS in any RFC 8259 spelling (`Num.lit`), `to_string` prints them verbatim, and
`from_value` / `&Value` convert them with `str::parse` (`Number::deserialize_iN` = `self.n.parse::<iN>()`,
`deserialize_f64` = `self.n.parse::<f64>()`, `deserialize_any` with its accessor shortcuts) while `from_str` runs the JSON number
scanner on the same bytes. The owned / borrowed leg is `c16_owned_borrowed` (every configuration). The text leg is
`c16_text_agrees_ap_partial` below: the three paths agree OUTSIDE three exclusions, which correspond one to one to the three
open findings of this property, each shown necessary by a kernel-checked instance of the models (the same inputs are replayed
on the crate by op `c16` in the `ap` configuration: `known_findings.json`).
-/
namespace SJ.Props.C16
open SJ SJ.Model.FromValue

/-- **C16, the text leg under `arbitrary_precision` (`_partial`: three exclusions = the three open findings; one float
    hypothesis).** For every schema of the fragment `agreeFrag2` (every schema of the universe without `f32` targets and
    zero-length tuple variants, `Value` targets included) and every value an `arbitrary_precision` build can hold (`shapeOK`
    with `ap = true`: every number is a literal, an RFC 8259 number in ANY spelling), within the parser's depth budget and
    outside the statement's exclusion "a struct variant written as an array" (`hx`), such that on the way the deserializers
    visit schema and value (`Schema.allPos`)

    * `hNegZero` — no signed 8–64-bit integer target meets the literal `-0` (`apNegZero`; finding `C16-ap-negative-zero`:
      `"-0".parse::<i8>() = Ok(0)`, the JSON scanner yields the float `-0.0`, which an integer visitor refuses);
    * `hFinite` — no `f64` target meets a literal whose nearest binary64 is not finite (`apNonFinite`; finding
      `C16-ap-non-finite-f64`: `"1e400".parse::<f64>() = Ok(inf)`, the JSON scanner answers `number out of range`);
    * `hAnyFixed` — no `Value` target meets a value holding a literal that `Number::deserialize_any` re-renders
      (`apAnyMoved`: `-0` through the `as_i64` shortcut, a literal equal to `f64::to_string` of its value but not to `ryu`'s
      spelling through the `as_f64` shortcut; findings `C16-ap-negative-zero`, second half, and `C16-ap-display-form`);
      vacuous for a schema without `Value` targets;

    and under the float hypothesis `hAccurate` — wherever an `f64` target meets a literal of finite range, the JSON number
    conversion the build is configured with returns the binary64 NEAREST to the literal's exact value (`apAccurate`;
    `str::parse::<f64>` is std's, assumed correctly rounded — `Model/NumberAp.lean` —, so this is the statement's
    "comparisons involving f64 assume float_roundtrip or short float literals": true of every literal under
    `float_roundtrip` by C07, `c16_ap_accurate_fr` below, and of short literals in the default build by C08) —:
    `to_string(v)` succeeds and `from_str::<T>` of that text (typed deserializer + `end()`, any source) returns exactly what
    `from_value::<T>(v)` returns, and fails whenever it fails. Together with `c16_owned_borrowed` this is the three-way
    statement under the feature. An integer literal into `f64` (`as f64` of the parsed integer against `str::parse`), a
    literal with a fraction or an exponent into an integer target (refused on both sides; by the caller of
    `scan_integer128` for the 128-bit targets), integer literals of any size into `i128` / `u128`, and every non-numeric
    target on a literal are covered. What is NOT proved is what the three exclusions leave out — and there the claim is false
    (examples below). -/
theorem c16_text_agrees_ap_partial (mcfg : Model.Machine.Cfg) (hap : mcfg.ap = true) (src : Model.Machine.Src)
    (ext : Spec.Program.Ext) (hext : Spec.Program.ExtOK ext) (ext' : Ext) (s : Schema) (hs : Proofs.Typed.agreeFrag2 s = true)
    (v : JV) (hv : Spec.WF.shapeOK (Proofs.CanonM.specCfg mcfg) v = true)
    (hNegZero : s.allPos (fun s v => !apNegZero s v) v = true)
    (hFinite : s.allPos (fun s v => !apNonFinite s v) v = true)
    (hAnyFixed : s.allPos (fun s v => !apAnyMoved ext' s v) v = true)
    (hAccurate : s.allPos (apAccurate mcfg.fr) v = true)
    (hx : s.svArr v = false)
    (hd : mcfg.limitOff = true ∨ Spec.WF.depthJV v ≤ 127) :
    ∃ bufs, Model.Ser.serCompact ext (Model.Ser.ofValue v) = .ok bufs ∧
      (match fromValue { po := mcfg.po, fr := mcfg.fr, ap := true } ext' s v with
       | .ok t => Model.Typed.deTypedTop { cfg := mcfg, src := src } s bufs.flatten = .ok t
       | .error _ => ∀ t, Model.Typed.deTypedTop { cfg := mcfg, src := src } s bufs.flatten ≠ .ok t) := by
  have hl : Spec.Image.valueLitsOK v = true := SJ.Proofs.RoundTrip.valueLitsOK_of_shapeOK _ v hv
  obtain ⟨⟨bufs, hser, htext⟩, _⟩ := SJ.Props.C03.c03_value ext hext v hl
  refine ⟨bufs, hser, ?_⟩
  rw [htext]
  have hag := Proofs.Typed.agree_all_ap ext hext (env := { cfg := mcfg, src := src }) rfl hap
    { po := mcfg.po, fr := mcfg.fr, ap := true } rfl ext' (Model.Typed.Schema.size s + 1) s (by omega) hs
    0 v
    (by rcases hd with h | h
        · exact .inl h
        · exact .inr (by omega)) hx hv hNegZero hFinite hAccurate hAnyFixed [] 0 (.inl rfl)
  simp only [List.append_nil] at hag
  unfold Proofs.Typed.T at hag
  unfold Model.Typed.deTypedTop
  cases hfv : fromValue { po := mcfg.po, fr := mcfg.fr, ap := true } ext' s v with
  | ok t =>
    rw [hfv] at hag
    simp only at hag ⊢
    rw [hag]
    simp [Model.Stream.skipWs]
  | error e =>
    rw [hfv] at hag
    simp only at hag ⊢
    intro t
    cases hde : Model.Typed.deTyped { cfg := mcfg, src := src } (Model.Typed.Schema.size s + 1) 0 s
        (Spec.Image.render (Spec.Image.imageOfValue ext v)) 0 with
    | ok x r p =>
      -- returned in front of `.` / `e` / `E` (a literal with a fraction or an exponent under a 128-bit integer target):
      -- `end()` reports trailing characters
      obtain ⟨c, tl, rfl, hw, _⟩ := Proofs.Typed.badHead_facts (hag x r p hde)
      simp [Proofs.Typed.skipWs_cons hw]
    | _ => simp

end SJ.Props.C16
