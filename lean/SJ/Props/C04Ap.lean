import SJ.Props.C04
import SJ.Props.C01Ap
import SJ.Proofs.MachineApCst
/-!
# C04 under `arbitrary_precision`, for the faithful parser model

`c04_value_ap` (Props/C04.lean) is the round trip through `Model.Machine`. The crate — and `Model.MachineAp` — reads an
object whose first key is the private Number token as a Number, so a `Value` holding such an object does not come back
(open finding `C04-ap-private-number-token`). `c04_ap_value` is the round trip through the FAITHFUL model for every
well-formed `Value` without such an object (`Spec.PrivateToken.valueTokenFree`, a decidable predicate on the value): the
text `to_string` writes is a JSON text whose syntax tree has no token first key (`tokenFree_cstOf`), the lexical scan has
no hit on it (`scan_of_tokenFree`), so the faithful model is the machine there (`c01_ap_conservative`).
`c04_ap_token_not_identity`: the excluded values really do not round-trip.
-/
namespace SJ.Props.C04Ap
open SJ SJ.Spec.Grammar SJ.Spec.Image SJ.Spec.WF SJ.Model.Ser SJ.Model.Machine SJ.Props.C04
open SJ.Spec.PrivateToken (valueTokenFree valuesTokenFree membersTokenFree tokenFree tokenFreeList tokenFreeMembers
  firstKeyIsToken isTokenKey hasTokenFirstKey)

theorem isTokenKey_strItems (k : Bytes) : isTokenKey (strItems k) = (k == SJ.Spec.PrivateToken.token) := by
  unfold isTokenKey
  rw [SJ.Proofs.SerEscape.decode_strItems]
  cases h : (k == SJ.Spec.PrivateToken.token) <;> simp_all

mutual
theorem tokenFree_cstOf (ext : Ext) : ∀ v : JV, valueTokenFree v = true → tokenFree (cstOf (imageOfValue ext v)) = true
  | .null, _ => rfl
  | .bool true, _ => rfl
  | .bool false, _ => rfl
  | .num (.pos _), _ => rfl
  | .num (.neg _), _ => rfl
  | .num (.float b), _ => by
    simp only [imageOfValue]
    split <;> rfl
  | .num (.lit _), _ => rfl
  | .str _, _ => rfl
  | .arr xs, h => by
    simp only [valueTokenFree] at h
    simp only [imageOfValue, cstOf, tokenFree]
    exact tokenFree_cstOfList ext xs h
  | .obj kvs, h => by
    simp only [valueTokenFree, Bool.and_eq_true] at h
    simp only [imageOfValue, cstOf, tokenFree, Bool.and_eq_true, Bool.not_eq_true']
    refine ⟨?_, tokenFree_cstOfMembers ext kvs h.2⟩
    cases kvs with
    | nil => rfl
    | cons kv rest =>
      obtain ⟨k, x⟩ := kv
      have hk := h.1
      simp only [bne_iff_ne, ne_eq] at hk
      simp only [imageOfMembers, cstOfMembers, firstKeyIsToken, isTokenKey_strItems]
      simpa using hk
theorem tokenFree_cstOfList (ext : Ext) : ∀ xs : List JV, valuesTokenFree xs = true →
    tokenFreeList (cstOfList (imageOfValues ext xs)) = true
  | [], _ => rfl
  | x :: xs, h => by
    simp only [valuesTokenFree, Bool.and_eq_true] at h
    simp only [imageOfValues, cstOfList, tokenFreeList, Bool.and_eq_true]
    exact ⟨tokenFree_cstOf ext x h.1, tokenFree_cstOfList ext xs h.2⟩
theorem tokenFree_cstOfMembers (ext : Ext) : ∀ kvs : List (Bytes × JV), membersTokenFree kvs = true →
    tokenFreeMembers (cstOfMembers (imageOfMembers ext kvs)) = true
  | [], _ => rfl
  | (k, x) :: kvs, h => by
    simp only [membersTokenFree, Bool.and_eq_true] at h
    simp only [imageOfMembers, cstOfMembers, tokenFreeMembers, Bool.and_eq_true]
    exact ⟨tokenFree_cstOf ext x h.1, tokenFree_cstOfMembers ext kvs h.2⟩
end

/-- **C04 under `arbitrary_precision`, faithful model**: every well-formed `Value` in which no object has the private
    Number token as its first key is written (compact, and pretty with any whitespace indent) to a text that the parser
    model WITH the token reading reads back as exactly that value, from every source, with no float hypothesis. -/
theorem c04_ap_value (cfg : Cfg) (hap : cfg.ap = true) (src : Src) (ext : Ext) (hext : ExtOK ext) (v : JV)
    (hwf : WFValue cfg v) (htf : valueTokenFree v = true) :
    (∃ bufs, serCompact ext (ofValue v) = .ok bufs ∧
      Model.MachineAp.parseTop ⟨cfg, src, .value⟩ bufs.flatten = .ok v) ∧
    (∀ indent, Ws indent → ∃ bufs, serPretty ext indent (ofValue v) = .ok bufs ∧
      Model.MachineAp.parseTop ⟨cfg, src, .value⟩ bufs.flatten = .ok v) := by
  have hl : valueLitsOK v = true := by
    simp only [WFValue, wfValue, Bool.and_eq_true] at hwf
    exact SJ.Proofs.RoundTrip.valueLitsOK_of_shapeOK _ v hwf.1
  obtain ⟨hc, hp⟩ := c04_value_ap cfg hap src ext hext v hwf
  obtain ⟨hcw, hpw⟩ := c04_written_text ext hext v hl
  have key : ∀ bs, Derives bs (cstOf (imageOfValue ext v)) → parseTop ⟨cfg, src, .value⟩ bs = .ok v →
      Model.MachineAp.parseTop ⟨cfg, src, .value⟩ bs = .ok v := by
    intro bs hd hm
    have hscan := SJ.Proofs.MachineAp.scan_of_tokenFree bs _ ⟨[], bs, [], by simp, by decide, by decide, hd⟩
      (tokenFree_cstOf ext v htf)
    have := SJ.Props.C01Ap.c01_ap_conservative ⟨cfg, src, .value⟩ bs hscan
    unfold SJ.Props.C01Ap.parseAp at this
    rw [this, hm]; rfl
  constructor
  · obtain ⟨bufs, hs, hm⟩ := hc
    obtain ⟨bufs', hs', hd⟩ := hcw
    rw [hs] at hs'
    cases hs'
    exact ⟨bufs, hs, key _ hd hm⟩
  · intro indent hws
    obtain ⟨bufs, hs, hm⟩ := hp indent hws
    obtain ⟨bufs', hs', hd⟩ := hpw indent hws
    rw [hs] at hs'
    cases hs'
    exact ⟨bufs, hs, key _ hd hm⟩

/-- non-vacuity: `{"a":["1e400"],"$serde_json::private::Number":"x"}` under `preserve_order`: the token is the second key -/
def exTok : JV := .obj [([0x61], .arr [.num (.lit [0x31, 0x65, 0x34, 0x30, 0x30])]), (Gen.numberToken, .str [0x78])]

example : WFValue { ap := true, po := true } exTok ∧ valueTokenFree exTok = true := by decide

example : ∃ bufs, serCompact ext0 (ofValue exTok) = .ok bufs ∧
    Model.MachineAp.parseTop ⟨{ ap := true, po := true }, .reader, .value⟩ bufs.flatten = .ok exTok :=
  (c04_ap_value { ap := true, po := true } rfl .reader ext0 ext0_ok exTok (by decide) (by decide)).1

/-- **the excluded values do not round-trip** (open finding `C04-ap-private-number-token`, on the model): the well-formed
    one-member object `{"$serde_json::private::Number":"1"}` is written as that text and read back as the NUMBER `1`; with
    the string `"x"` the text is rejected (`invalid number` at line 1 column 1 of `x`) -/
theorem c04_ap_token_not_identity :
    WFValue { ap := true } (.obj [(Gen.numberToken, .str [0x31])]) ∧
    (∃ bufs, serCompact ext0 (ofValue (.obj [(Gen.numberToken, .str [0x31])])) = .ok bufs ∧
      (Model.MachineAp.parseTop ⟨{ ap := true }, .str, .value⟩ bufs.flatten).isOk (.num (.lit [0x31])) = true) ∧
    (∃ bufs, serCompact ext0 (ofValue (.obj [(Gen.numberToken, .str [0x78])])) = .ok bufs ∧
      (Model.MachineAp.parseTop ⟨{ ap := true }, .str, .value⟩ bufs.flatten).isCustom .InvalidNumber 1 1 = true) := by
  refine ⟨by decide, ⟨_, rfl, by decide +kernel⟩, ⟨_, rfl, by decide +kernel⟩⟩

end SJ.Props.C04Ap
