import SJ.Props.C04
import SJ.Proofs.C04Short
/-!
# C04, default build: "data whose f64 values print as short literals" — the float hypothesis discharged

C04's statement: the round trip holds "under float_roundtrip for all such data with finite floats, and in every other
configuration for data whose f64 values are absent or print as short literals (at most 15 significant digits, decimal
exponent within +-22)". `Props/C04.lean` proves the round trip under the carried hypothesis `FloatsRoundTrip cfg ext v` and
discharges it under `float_roundtrip` (`c04_value_fr`, from `RyuShortest`). This module discharges it in the builds WITHOUT
`float_roundtrip` (and without `arbitrary_precision`, where no float is stored) for exactly that class, so that the only
hypothesis left about floats is `RyuShortest ext` itself (the statement about the external printer `ryu`:
`Proofs/LexTopRoundtrip.lean`).

The class, `ShortFloats ext v`: for every `Float(b)` in `v` the text `ext.ryu64 b`, read by the independent
`Spec.Decimal` reader, has at most 15 digits after dropping leading zeros — integer and fraction digits together, as written,
a trailing `.0` included — and a net decimal exponent (written exponent minus number of fraction digits) within ±22. This is
C08's exact window (`c08_exact_short`), and what `harness/src/c04.rs` `prints_short` evaluates on the text the crate prints.
The witnesses at the end show that the window cannot be widened to "15 significant digits in scientific notation".
-/
namespace SJ.Props.C04Short
open SJ SJ.Model.Ser SJ.Model.Machine SJ.Spec.Grammar SJ.Spec.Image SJ.Spec.WF SJ.Spec.Ieee
open SJ.Props.C04 SJ.Proofs.C04Short SJ.Proofs.CanonM
open SJ.Spec.Number (splitNumber)
open SJ.Spec.Canon (partsOf)
open SJ.Proofs.NumLinkParser (litOf)
open SJ.Proofs.LexTopRoundtrip (RyuText RyuShortest)
open SJ.Model.TypedSer (valueOfL wfTVx f32sOf progOf)

/-- every `Float` of the value is finite and prints as a short literal (C08's exact window on the printed text) -/
def ShortFloats (ext : Ext) (v : JV) : Prop := shortFloats ext v = true
instance (ext : Ext) (v : JV) : Decidable (ShortFloats ext v) := inferInstanceAs (Decidable (_ = true))

/-- **C04, default build, one double (`c04_default_short_float`).** Without `float_roundtrip` and `arbitrary_precision`, under
    `RyuShortest ext`: for every finite double `b` whose printed text `ext.ryu64 b` is a short literal, the default
    conversion of the scanned text — `Model.Num.convertDefault`, the transcription of `parse_integer` / `parse_decimal` /
    `parse_exponent` / `f64_from_parts` — returns `b` itself, bit for bit, so the `Number` stored is `Float(b)`
    (`Spec.Canon.numOf`, the denotation C01 / C02 / C04 use). -/
theorem c04_default_short_float (cfg : Cfg) (hfr : cfg.fr = false) (hap : cfg.ap = false) (ext : Ext) (hext : ExtOK ext)
    (hr : RyuShortest ext) (b : UInt64) (hb : finite64 b = true) (hs : shortText (ext.ryu64 b) = true) :
    Model.Num.convertDefault (partsOf (splitNumber (ext.ryu64 b))) = .f64 b ∧
    Spec.Canon.numOf (specCfg cfg) (splitNumber (ext.ryu64 b)) = some (.float b) := by
  have h := numOf_short_at (specCfg cfg) hfr hap _ b (hext.ryu64_number b hb) (hr.f64_text b hb) hs (hr.f64_nearest b hb)
  refine ⟨?_, h⟩
  unfold Spec.Canon.numOf Spec.Canon.convert at h
  have hfr' : (specCfg cfg).fr = false := hfr
  have hap' : (specCfg cfg).ap = false := hap
  simp only [hap', hfr', Bool.false_eq_true, if_false] at h
  cases hc : Model.Num.convertDefault (partsOf (splitNumber (ext.ryu64 b))) <;> rw [hc] at h <;> simp at h
  rw [h]

/-- the pointwise form, without the global hypothesis (used for the examples, where `ext` is a table): a text of `ryu`'s
    shape inside the window whose exact value rounds to `b` is read back as `Float(b)` -/
theorem c04_default_short_text (cfg : Cfg) (hfr : cfg.fr = false) (hap : cfg.ap = false) (bs : Bytes) (b : UInt64)
    (hn : IsNumber bs) (ht : RyuText bs) (hs : shortText bs = true)
    (hnear : roundNE64 (litOf (splitNumber bs)).neg (litOf (splitNumber bs)).exact.1 (litOf (splitNumber bs)).exact.2 = some b) :
    Spec.Canon.numOf (specCfg cfg) (splitNumber bs) = some (.float b) :=
  numOf_short_at (specCfg cfg) hfr hap bs b hn ht hs hnear

/-- `FloatsRoundTrip` of `Props/C04.lean`, discharged: default conversion, `RyuShortest`, floats printing as short literals -/
theorem c04_floats_roundtrip_short (cfg : Cfg) (hfr : cfg.fr = false) (hap : cfg.ap = false) (ext : Ext) (hext : ExtOK ext)
    (hr : RyuShortest ext) (v : JV) (hs : ShortFloats ext v) : FloatsRoundTrip cfg ext v :=
  floatsRT_of_short (specCfg cfg) hfr hap ext hext hr v hs

/-- **C04 in the builds without `float_roundtrip` (`c04_default_short_floats`).** Without `float_roundtrip` (and without
    `arbitrary_precision`: `c04_value_ap` covers that build with no float hypothesis at all), under the single named
    hypothesis `RyuShortest ext` about the external printer, every well-formed `Value` all of whose floats print as short
    literals (`ShortFloats ext v`; vacuous without floats) survives serialise-then-deserialise: `to_string` / `to_vec` /
    `to_writer` and the pretty printers with any whitespace indent succeed, and `from_str` / `from_slice` / `from_reader`
    (`src`) of the text return `v`. No hypothesis on the parser's float conversion is left: it is C08's exactness theorem. -/
theorem c04_default_short_floats (cfg : Cfg) (hfr : cfg.fr = false) (hap : cfg.ap = false) (src : Src) (ext : Ext)
    (hext : ExtOK ext) (hr : RyuShortest ext) (v : JV) (hwf : WFValue cfg v) (hs : ShortFloats ext v) :
    (∃ bufs, serCompact ext (ofValue v) = .ok bufs ∧
      parseTop ⟨cfg, src, .value⟩ bufs.flatten = .ok v) ∧
    (∀ indent, Ws indent → ∃ bufs, serPretty ext indent (ofValue v) = .ok bufs ∧
      parseTop ⟨cfg, src, .value⟩ bufs.flatten = .ok v) :=
  have hfl := c04_floats_roundtrip_short cfg hfr hap ext hext hr v hs
  ⟨c04_value cfg src ext hext v hwf hfl, fun indent hws => c04_value_pretty cfg src ext hext indent hws v hwf hfl⟩

/-- the wider class: every `Float` of the value is finite and its printed text, digits as written, is below `2^53` with net
    exponent within ±22 (contains `ShortFloats`: `c04_short_is_exact`) -/
def ExactFloats (ext : Ext) (v : JV) : Prop := exactFloats ext v = true
instance (ext : Ext) (v : JV) : Decidable (ExactFloats ext v) := inferInstanceAs (Decidable (_ = true))

theorem c04_short_is_exact (ext : Ext) (v : JV) (h : ShortFloats ext v) : ExactFloats ext v :=
  floatsIn_mono ext shortText exactText exactText_of_short v h

/-- **C04 in the builds without `float_roundtrip`, wider window (`c04_default_exact_floats`).** As
    `c04_default_short_floats` for the class `ExactFloats`: C08's exactness argument needs the significand below `2^53`, not
    below `10^15` (`Proofs/FloatLiteral53.lean`), which admits the integral doubles that `ryu` prints with a trailing `.0` and
    sixteen digits (`123456789012345.0`). -/
theorem c04_default_exact_floats (cfg : Cfg) (hfr : cfg.fr = false) (hap : cfg.ap = false) (src : Src) (ext : Ext)
    (hext : ExtOK ext) (hr : RyuShortest ext) (v : JV) (hwf : WFValue cfg v) (hs : ExactFloats ext v) :
    (∃ bufs, serCompact ext (ofValue v) = .ok bufs ∧
      parseTop ⟨cfg, src, .value⟩ bufs.flatten = .ok v) ∧
    (∀ indent, Ws indent → ∃ bufs, serPretty ext indent (ofValue v) = .ok bufs ∧
      parseTop ⟨cfg, src, .value⟩ bufs.flatten = .ok v) :=
  have hfl : FloatsRoundTrip cfg ext v := floatsRT_of_exact (specCfg cfg) hfr hap ext hext hr v hs
  ⟨c04_value cfg src ext hext v hwf hfl, fun indent hws => c04_value_pretty cfg src ext hext indent hws v hwf hfl⟩

/-- **C04, typed data, builds without `float_roundtrip` (`c04_typed_default_short`).** The `f64` hypothesis `hF` of
    `c04_typed_partial` / `c04_typed_pretty_partial` discharged likewise: every `f64` member of the typed value and every float
    inside its `Value` members prints as a short literal (`ShortFloats` of the written document). What is still carried: `h32`
    for `f32` members (`F32sRoundTrip`: the property's class speaks of f64 values; a 9-digit `f32` text is short, but the cast
    `as f32` of the result is a second step not treated here). -/
theorem c04_typed_default_short (mcfg : Cfg) (hfr : mcfg.fr = false) (hap : mcfg.ap = false) (src : Src) (ext : Ext)
    (hext : ExtOK ext) (hr : RyuShortest ext)
    (s : Schema) (v : TVal) (hw : wfTVx (specCfg mcfg) ext.ryu32 s v = true)
    (hs : ShortFloats ext (valueOfL ext.ryu32 s v)) (h32 : F32sRoundTrip mcfg ext v)
    (hd : mcfg.limitOff = true ∨ depthJV (valueOfL ext.ryu32 s v) ≤ 127) :
    (∃ bufs, serCompact ext (progOf s v) = .ok bufs ∧
      Model.Typed.deTypedTop { cfg := mcfg, src := src } s bufs.flatten = .ok v) ∧
    (∀ indent, Ws indent → ∃ bufs, serPretty ext indent (progOf s v) = .ok bufs ∧
      Model.Typed.deTypedTop { cfg := mcfg, src := src } s bufs.flatten = .ok v) := by
  have hF : FloatsRoundTrip mcfg ext (valueOfL ext.ryu32 s v) :=
    floatsRT_of_short (specCfg mcfg) hfr hap ext hext hr _ hs
  exact ⟨c04_typed_partial mcfg hap src ext hext s v hw hF h32 hd,
    fun indent hind => c04_typed_pretty_partial mcfg hap src ext hext indent hind s v hw hF h32 hd⟩

/-! ## non-vacuity: `0.1`, `1.5`, `1e22`, `-2.5e-8`, `0.0` as `ryu` prints them (explicit byte lists) -/

/-- a table standing in for `ryu` on six doubles (everything else is printed `1.5`): `0.1`, `1e22`, `-2.5e-8`, `0.0`,
    `123456789012345.0`, `8000000000000020.0` — the texts the real `ryu` writes for them -/
def ext1 : Ext :=
  { itoa := Spec.Number.decimal,
    ryu64 := fun b =>
      if b = 0x3fb999999999999a then [0x30, 0x2e, 0x31]
      else if b = 0x4480f0cf064dd592 then [0x31, 0x65, 0x32, 0x32]
      else if b = 0xbe5ad7f29abcaf48 then [0x2d, 0x32, 0x2e, 0x35, 0x65, 0x2d, 0x38]
      else if b = 0x0000000000000000 then [0x30, 0x2e, 0x30]
      else if b = 0x42dc12218377de40 then
        [0x31, 0x32, 0x33, 0x34, 0x35, 0x36, 0x37, 0x38, 0x39, 0x30, 0x31, 0x32, 0x33, 0x34, 0x35, 0x2e, 0x30]
      else if b = 0x433c6bf526340014 then
        [0x38, 0x30, 0x30, 0x30, 0x30, 0x30, 0x30, 0x30, 0x30, 0x30, 0x30, 0x30, 0x30, 0x30, 0x32, 0x30, 0x2e, 0x30]
      else [0x31, 0x2e, 0x35],
    ryu32 := fun _ => [0x31, 0x2e, 0x35] }

/-- `[0.1, 1.5, 1e22, {"k": -2.5e-8}, 0.0, 7]` -/
def exS : JV :=
  .arr [.num (.float 0x3fb999999999999a), .num (.float 0x3ff8000000000000), .num (.float 0x4480f0cf064dd592),
        .obj [([0x6b], .num (.float 0xbe5ad7f29abcaf48))], .num (.float 0x0000000000000000), .num (.pos 7)]

example : WFValue {} exS ∧ ShortFloats ext1 exS := by decide

/-- the hypotheses of the pointwise theorem hold for the text `0.1` and the double `0x3fb999999999999a` … -/
example : Spec.Canon.numOf (specCfg {}) (splitNumber [0x30, 0x2e, 0x31]) = some (.float 0x3fb999999999999a) :=
  c04_default_short_text {} rfl rfl [0x30, 0x2e, 0x31] 0x3fb999999999999a
    ⟨⟨false, [0x30], [0x2e, 0x31], []⟩, rfl, rfl⟩ ⟨by decide, by decide, by decide⟩ (by decide) (by decide +kernel)

/-- … for `1e22` (the upper edge of the exponent window) … -/
example : Spec.Canon.numOf (specCfg {}) (splitNumber [0x31, 0x65, 0x32, 0x32]) = some (.float 0x4480f0cf064dd592) :=
  c04_default_short_text {} rfl rfl [0x31, 0x65, 0x32, 0x32] 0x4480f0cf064dd592
    ⟨⟨false, [0x31], [], [0x65, 0x32, 0x32]⟩, rfl, rfl⟩ ⟨by decide, by decide, by decide⟩ (by decide) (by decide +kernel)

/-- … and for `-2.5e-8` (net exponent −9) -/
example : Spec.Canon.numOf (specCfg { po := true }) (splitNumber [0x2d, 0x32, 0x2e, 0x35, 0x65, 0x2d, 0x38]) = some (.float 0xbe5ad7f29abcaf48) :=
  c04_default_short_text { po := true } rfl rfl [0x2d, 0x32, 0x2e, 0x35, 0x65, 0x2d, 0x38] 0xbe5ad7f29abcaf48
    ⟨⟨true, [0x32], [0x2e, 0x35], [0x65, 0x2d, 0x38]⟩, rfl, rfl⟩ ⟨by decide, by decide, by decide⟩ (by decide) (by decide +kernel)

/-- the conclusion evaluated by the kernel, independently of the theorem: the default printer/parser pair returns every
    float of `exS`, and `exS` round-trips through the parser model -/
example : FloatsRoundTrip {} ext1 exS := by decide +kernel

example : ∃ bufs, serCompact ext1 (ofValue exS) = .ok bufs ∧ parseTop ⟨{}, .slice, .value⟩ bufs.flatten = .ok exS :=
  c04_value {} .slice ext1
    ⟨fun _ => rfl, fun b _ => by
        show IsNumber (ext1.ryu64 b)
        unfold ext1
        simp only
        split
        · exact ⟨⟨false, [0x30], [0x2e, 0x31], []⟩, rfl, rfl⟩
        · split
          · exact ⟨⟨false, [0x31], [], [0x65, 0x32, 0x32]⟩, rfl, rfl⟩
          · split
            · exact ⟨⟨true, [0x32], [0x2e, 0x35], [0x65, 0x2d, 0x38]⟩, rfl, rfl⟩
            · split
              · exact ⟨⟨false, [0x30], [0x2e, 0x30], []⟩, rfl, rfl⟩
              · split
                · exact ⟨⟨false, [0x31, 0x32, 0x33, 0x34, 0x35, 0x36, 0x37, 0x38, 0x39, 0x30, 0x31, 0x32, 0x33, 0x34, 0x35],
                    [0x2e, 0x30], []⟩, rfl, rfl⟩
                · split
                  · exact ⟨⟨false, [0x38, 0x30, 0x30, 0x30, 0x30, 0x30, 0x30, 0x30, 0x30, 0x30, 0x30, 0x30, 0x30, 0x30, 0x32, 0x30],
                      [0x2e, 0x30], []⟩, rfl, rfl⟩
                  · exact ⟨⟨false, [0x31], [0x2e, 0x35], []⟩, rfl, rfl⟩,
      fun _ _ => ⟨⟨false, [0x31], [0x2e, 0x35], []⟩, rfl, rfl⟩⟩
    exS (by decide) (by decide +kernel)

/-! ## the class is sufficient, not necessary — and it cannot be widened to "15 significant digits"

`ryu` writes an integral double below `10^16` with a trailing `.0`, and `de.rs` accumulates every written digit: the text
`123456789012345.0` has SIXTEEN digits as the parser counts them (significand `1234567890123450`, exponent −1), so it lies
outside the window although the double has 15 significant digits. It still round-trips (the significand is below `2^53`).
`8000000000000020.0` — 15 significant digits, seventeen written — does NOT: the significand `80000000000000200` is not a
double (it is rounded to `80000000000000192`), and the quotient by `10` rounds to `8000000000000019`. Likewise
`7.40865532228085e-9` (15 digits, scientific exponent −9, but net exponent −23: `1e23` is not exactly a double) comes back as
`7.408655322280851e-9`. Both are real round-trip failures of the default build (replayed on the crate: ops `f64lit` / `rtv`);
C04's class must therefore be read as C08 states it — digits and net exponent of the printed text — which is the reading of
`ShortFloats` and of the generator `prints_short`. -/

/-- `123456789012345.0`: outside the 15-digit window, inside the wider one (`c04_default_exact_floats` applies), round-trips -/
example : ¬ ShortFloats ext1 (.num (.float 0x42dc12218377de40)) ∧ ExactFloats ext1 (.num (.float 0x42dc12218377de40)) ∧
    FloatsRoundTrip {} ext1 (.num (.float 0x42dc12218377de40)) := ⟨by decide, by decide, by decide +kernel⟩

/-- the pointwise wider-window lemma applies to the text `123456789012345.0` -/
example : Spec.Canon.numOf (specCfg {}) (splitNumber
      [0x31, 0x32, 0x33, 0x34, 0x35, 0x36, 0x37, 0x38, 0x39, 0x30, 0x31, 0x32, 0x33, 0x34, 0x35, 0x2e, 0x30]) =
    some (.float 0x42dc12218377de40) :=
  numOf_exact_at (specCfg {}) rfl rfl _ 0x42dc12218377de40
    ⟨⟨false, [0x31, 0x32, 0x33, 0x34, 0x35, 0x36, 0x37, 0x38, 0x39, 0x30, 0x31, 0x32, 0x33, 0x34, 0x35], [0x2e, 0x30], []⟩, rfl, rfl⟩
    ⟨by decide, by decide, by decide⟩ (by decide) (by decide +kernel)

/-- **c04_default_long_fails.** `8000000000000020.0` (bits `0x433c6bf526340014`; `ryu` prints exactly this text, its exact
    value IS the double) is read back by the default build as `8000000000000019.0` (`0x433c6bf526340013`): outside
    `ShortFloats` the round trip fails, although the double has only 15 significant digits. Under `float_roundtrip` the same
    text is read back exactly. -/
theorem c04_default_long_fails :
    (Spec.Canon.numOf (specCfg {}) (splitNumber (ext1.ryu64 0x433c6bf526340014)) == some (.float 0x433c6bf526340013)) = true ∧
    (Spec.Canon.numOf (specCfg { fr := true }) (splitNumber (ext1.ryu64 0x433c6bf526340014)) == some (.float 0x433c6bf526340014)) = true ∧
    roundNE64 false 8000000000000020 1 = some 0x433c6bf526340014 ∧
    shortText (ext1.ryu64 0x433c6bf526340014) = false ∧ exactText (ext1.ryu64 0x433c6bf526340014) = false ∧
    ¬ FloatsRoundTrip {} ext1 (.num (.float 0x433c6bf526340014)) := by
  refine ⟨by decide +kernel, by decide +kernel, by decide +kernel, by decide, by decide, by decide +kernel⟩

/-- **c04_default_sci15_fails.** `7.40865532228085e-9` (15 digits, net exponent −23): the default build returns
    `0x3e3fd1e7159470e6` (`7.408655322280851e-9`), the correctly rounded double is `0x3e3fd1e7159470e5` -/
theorem c04_default_sci15_fails :
    (Spec.Canon.numOf (specCfg {}) (splitNumber [0x37, 0x2e, 0x34, 0x30, 0x38, 0x36, 0x35, 0x35, 0x33, 0x32, 0x32, 0x32, 0x38, 0x30, 0x38,
        0x35, 0x65, 0x2d, 0x39]) == some (.float 0x3e3fd1e7159470e6)) = true ∧
    roundNE64 false 740865532228085 (10 ^ 23) = some 0x3e3fd1e7159470e5 ∧
    shortText [0x37, 0x2e, 0x34, 0x30, 0x38, 0x36, 0x35, 0x35, 0x33, 0x32, 0x32, 0x32, 0x38, 0x30, 0x38, 0x35, 0x65, 0x2d, 0x39]
      = false ∧
    exactText [0x37, 0x2e, 0x34, 0x30, 0x38, 0x36, 0x35, 0x35, 0x33, 0x32, 0x32, 0x32, 0x38, 0x30, 0x38, 0x35, 0x65, 0x2d, 0x39]
      = false := by
  refine ⟨by decide +kernel, by decide +kernel, by decide, by decide⟩

end SJ.Props.C04Short
