import SJ.Props.C08
import SJ.Proofs.NumLinkParser
import SJ.Proofs.NumLitParse
/-!
# C08 at the level of the parser model

`Props/C08.lean` proves the float properties about `Model.FloatDefault` (B). The byte-step parser
machine (`Model.Machine`, the subject of C01/C02) converts numbers with an independently written
transcription of the same Rust, `Model.Num.convertDefault` (A). Here the two are linked
(`c08p_link`: they are equal on everything the machine's scanner produces) and the C08 theorems are
restated about `parseTop env p.bytes` for every RFC 8259 number literal `p : NumParts`, every input
source and every configuration without `float_roundtrip` / `arbitrary_precision`.

`litOf p : NumLit` is the literal as `Spec.Decimal` reads it (sign, integer digits, fraction digits,
exponent sign and digits), so `(litOf p).sigVal`, `.netExp`, `.exact` are the specification-level
quantities of C08. Helper lemmas: `SJ/Proofs/NumLink.lean`, `SJ/Proofs/NumLinkParser.lean`.
-/
namespace SJ.Props.C08Parser
open SJ SJ.Gen SJ.Spec.Ieee SJ.Spec.Decimal SJ.Model.Machine SJ.Model.FloatDefault
open SJ.Spec.Grammar (NumParts)
open SJ.Proofs.NumLink (toNumLit PartsWF resOfParts numOfLit numAsF64)
open SJ.Proofs.NumLinkParser (litOf)

/-! ## The link between the two transcriptions -/

/-- **The link.** For all parts the machine's scanner can produce (`PartsWF`: ASCII digits, integer
    part `0` or without leading zero, non-empty fraction / exponent digits when present) the parser
    model's conversion is (B)'s digit collection followed by (B)'s `f64_from_parts` /
    `parse_exponent_overflow`: same integers, same float bits, same rejections. -/
theorem c08p_link (p : Model.Num.Parts) (hwf : PartsWF p) :
    Model.Num.convertDefault p = resOfParts (partsOfLiteral (toNumLit p)) :=
  Proofs.NumLink.convertDefault_eq_floatDefault p hwf

/-- the scanner's parts of a grammatical literal are well-formed (the domain of `c08p_link`) -/
theorem c08p_scanner_wf (p : NumParts) (hwf : p.WF = true) : PartsWF (Spec.Canon.partsOf p) :=
  Proofs.NumLinkParser.partsOf_wf p hwf

/-- float results: (A) returns the bits `b` iff (B) does — on the float path, i.e. whenever (A) does
    not hand on a `u64`/`i64` (for those (B)'s `floatOfLiteral` is the integer cast to `f64`) -/
theorem c08p_link_f64 (p : Model.Num.Parts) (hwf : PartsWF p) (b : UInt64)
    (hfloat : (∀ n, Model.Num.convertDefault p ≠ .u64 n) ∧ (∀ k, Model.Num.convertDefault p ≠ .i64 k)) :
    Model.Num.convertDefault p = .f64 b ↔ floatOfLiteral (toNumLit p) = some b :=
  Proofs.NumLink.convertDefault_f64_iff p hwf b hfloat

/-- rejections: (A) says `NumberOutOfRange` iff (B) does -/
theorem c08p_link_out_of_range (p : Model.Num.Parts) (hwf : PartsWF p) :
    Model.Num.convertDefault p = .outOfRange ↔ floatOfLiteral (toNumLit p) = none :=
  Proofs.NumLink.convertDefault_outOfRange_iff p hwf

/-- integers: (A) hands on `U64(n)` / `I64(k)` iff (B) does -/
theorem c08p_link_int (p : Model.Num.Parts) (hwf : PartsWF p) :
    (∀ n, Model.Num.convertDefault p = .u64 n ↔ partsOfLiteral (toNumLit p) = .u64 n) ∧
    (∀ k, Model.Num.convertDefault p = .i64 k ↔ partsOfLiteral (toNumLit p) = .i64 k) :=
  ⟨Proofs.NumLink.convertDefault_u64_iff p hwf, Proofs.NumLink.convertDefault_i64_iff p hwf⟩

/-- **The literal is the specification's reading of the bytes.** `litOf p`, about which every theorem
    below speaks, is what `Spec.Decimal.NumLit.parse` (the import-free reader of RFC 8259 numbers that
    also defines the exact value `NumLit.exact` for the correspondence runs) reads off `p.bytes`. -/
theorem c08p_literal_reading (p : NumParts) (hwf : p.WF = true) :
    NumLit.parse p.bytes = some (litOf p) :=
  Proofs.NumLinkParser.parse_bytes p hwf

/-- `-12345.678e9` as the scanner delivers it -/
def exParts : Model.Num.Parts :=
  ⟨true, [0x31, 0x32, 0x33, 0x34, 0x35], some [0x36, 0x37, 0x38], some (false, [0x39]),
    [0x2d, 0x31, 0x32, 0x33, 0x34, 0x35, 0x2e, 0x36, 0x37, 0x38, 0x65, 0x39]⟩
/-- the same as a grammar-level literal -/
def exNum : NumParts := ⟨true, [0x31, 0x32, 0x33, 0x34, 0x35], [0x2e, 0x36, 0x37, 0x38], [0x65, 0x39]⟩

example : exNum.WF = true ∧ Spec.Canon.partsOf exNum = exParts ∧ litOf exNum = SJ.Props.C08.exLit ∧
    exNum.bytes = [0x2d, 0x31, 0x32, 0x33, 0x34, 0x35, 0x2e, 0x36, 0x37, 0x38, 0x65, 0x39] := by
  refine ⟨by decide, rfl, rfl, rfl⟩
example : NumLit.parse exNum.bytes = some SJ.Props.C08.exLit := by decide
example : PartsWF exParts := c08p_scanner_wf exNum (by decide)
example : Model.Num.convertDefault exParts = .f64 0xc2a674e780df0000 ∧
    floatOfLiteral (toNumLit exParts) = some 0xc2a674e780df0000 := by decide +kernel
/-- `1e400`: both reject -/
example : Model.Num.convertDefault ⟨false, [0x31], none, some (false, [0x34, 0x30, 0x30]), []⟩ = .outOfRange ∧
    floatOfLiteral (toNumLit ⟨false, [0x31], none, some (false, [0x34, 0x30, 0x30]), []⟩) = none := by
  decide +kernel

/-! ## The parser on a number literal -/

/-- **The parser model is (B).** Without `float_roundtrip` and `arbitrary_precision`, for every source
    and every RFC 8259 number literal `p`: parsing `p.bytes` returns exactly the number (B) predicts
    (`numOfLit`: `PosInt`/`NegInt` for `ParserNumber::U64`/`I64`, otherwise the float bits of
    `floatOfLiteral`), and fails with `NumberOutOfRange` — at the end of the literal or on the
    exponent digit that overflows `i32` — exactly when (B) rejects. -/
theorem c08p_parse_number (env : Env) (henv : env.tgt = .value) (hfr : env.cfg.fr = false)
    (hap : env.cfg.ap = false) (p : NumParts) (hwf : p.WF = true) :
    (∀ x, numOfLit (litOf p) = some x → parseTop env p.bytes = .ok (.num x)) ∧
    (numOfLit (litOf p) = none →
      ∃ idx, idx ≤ p.bytes.length ∧ parseTop env p.bytes = .err .NumberOutOfRange idx) :=
  Proofs.NumLinkParser.parseTop_default env henv hfr hap p hwf

/-- **C08 at the parser: the four outcomes.** A number literal is parsed to
    * `PosInt(n)` — then it is an unsigned integer literal and `n < 2^64` is its exact value (C06),
    * `NegInt(k)` — then it is a negative integer literal other than `-0`, `k ≥ -2^63` its exact value,
    * `Float(b)` — then `b` is (B)'s `floatOfLiteral`, finite, and carries the literal's sign, or
    * the error `NumberOutOfRange` — then (B) rejects the literal (`c08p_rejected_only_near_threshold`
      says when that can happen).
    Nothing else (no other error, no NaN, no infinity) is possible. -/
theorem c08p_outcome (env : Env) (henv : env.tgt = .value) (hfr : env.cfg.fr = false)
    (hap : env.cfg.ap = false) (p : NumParts) (hwf : p.WF = true) :
    (∃ n, parseTop env p.bytes = .ok (.num (.pos n)) ∧ p.minus = false ∧ p.frac = [] ∧ p.exp = [] ∧
        n = Model.Num.natOfDigits p.int ∧ n < 2 ^ 64) ∨
    (∃ k, parseTop env p.bytes = .ok (.num (.neg k)) ∧ p.minus = true ∧ p.frac = [] ∧ p.exp = [] ∧
        k = -(Model.Num.natOfDigits p.int : Int) ∧ 0 < Model.Num.natOfDigits p.int ∧
        Model.Num.natOfDigits p.int ≤ 2 ^ 63) ∨
    (∃ b, parseTop env p.bytes = .ok (.num (.float b)) ∧ floatOfLiteral (litOf p) = some b ∧
        F64.isFinite b = true ∧ F64.sign b = p.minus) ∨
    (∃ idx, idx ≤ p.bytes.length ∧ parseTop env p.bytes = .err .NumberOutOfRange idx ∧
        floatOfLiteral (litOf p) = none) := by
  obtain ⟨h1, h2⟩ := c08p_parse_number env henv hfr hap p hwf
  cases hx : numOfLit (litOf p) with
  | none =>
    obtain ⟨idx, hle, he⟩ := h2 hx
    exact .inr (.inr (.inr ⟨idx, hle, he, (Proofs.NumLink.numOfLit_none_iff _).1 hx⟩))
  | some x =>
    have hp := h1 x hx
    cases x with
    | pos n =>
      obtain ⟨a, b, c, d, e⟩ := Proofs.NumLinkParser.numOfLit_pos_exact p hwf n hx
      exact .inl ⟨n, hp, a, b, c, d, e⟩
    | neg k =>
      obtain ⟨a, b, c, d, e, f⟩ := Proofs.NumLinkParser.numOfLit_neg_exact p hwf k hx
      exact .inr (.inl ⟨k, hp, a, b, c, d, e, f⟩)
    | float b =>
      have hf := (Proofs.NumLink.numOfLit_float _ b hx).1
      obtain ⟨hfin, hsign⟩ := SJ.Props.C08.c08_finite_signed (litOf p)
        (Proofs.NumLinkParser.litOf_wf p hwf) b hf
      exact .inr (.inr (.inl ⟨b, hp, hf, hfin, hsign⟩))
    | lit t => exact absurd hx (Proofs.NumLink.numOfLit_ne_lit _ t)

/-- the default configuration on a byte slice -/
def envD : Env := { cfg := {}, src := .slice, tgt := .value }

/-- one literal per outcome: `18446744073709551615` (`u64::MAX`), `-9223372036854775808` (`i64::MIN`),
    `-12345.678e9`, `18446744073709551616` (`u64::MAX + 1`: a float), `1e400` -/
example : (parseTop envD [0x31, 0x38, 0x34, 0x34, 0x36, 0x37, 0x34, 0x34, 0x30, 0x37, 0x33, 0x37, 0x30, 0x39,
    0x35, 0x35, 0x31, 0x36, 0x31, 0x35]).isOk (.num (.pos 18446744073709551615)) = true := by decide +kernel
example : (parseTop envD [0x2d, 0x39, 0x32, 0x32, 0x33, 0x33, 0x37, 0x32, 0x30, 0x33, 0x36, 0x38, 0x35, 0x34,
    0x37, 0x37, 0x35, 0x38, 0x30, 0x38]).isOk (.num (.neg (-9223372036854775808))) = true := by decide +kernel
example : (parseTop envD exNum.bytes).isOk (.num (.float 0xc2a674e780df0000)) = true := by decide +kernel
example : (parseTop envD [0x31, 0x38, 0x34, 0x34, 0x36, 0x37, 0x34, 0x34, 0x30, 0x37, 0x33, 0x37, 0x30, 0x39,
    0x35, 0x35, 0x31, 0x36, 0x31, 0x36]).isOk (.num (.float 0x43f0000000000000)) = true := by decide +kernel
example : (parseTop envD [0x31, 0x65, 0x34, 0x30, 0x30]).isErr .NumberOutOfRange 5 = true := by decide +kernel

/-! ## Finite and signed -/

/-- **C08 (i), parser level.** Whatever float the parser returns for a number literal is neither NaN
    nor infinite and carries the literal's sign — including `-0`, `-0.0`, `-0e5`, `-1e-999` ↦ `-0.0`. -/
theorem c08p_finite_signed (env : Env) (henv : env.tgt = .value) (hfr : env.cfg.fr = false)
    (hap : env.cfg.ap = false) (p : NumParts) (hwf : p.WF = true) (b : UInt64)
    (h : parseTop env p.bytes = .ok (.num (.float b))) :
    F64.isFinite b = true ∧ F64.sign b = p.minus := by
  obtain ⟨x, hx, hv⟩ := Proofs.NumLinkParser.parseTop_default_ok env henv hfr hap p hwf _ h
  cases hv
  exact SJ.Props.C08.c08_finite_signed (litOf p) (Proofs.NumLinkParser.litOf_wf p hwf) b
    (Proofs.NumLink.numOfLit_float _ b hx).1

/-- `-0` and `-1e-400` are parsed to `-0.0` -/
example : (parseTop envD [0x2d, 0x30]).isOk (.num (.float 0x8000000000000000)) = true := by decide +kernel
example : (parseTop envD [0x2d, 0x31, 0x65, 0x2d, 0x34, 0x30, 0x30]).isOk (.num (.float 0x8000000000000000))
    = true := by decide +kernel

/-! ## Exactness on the short domain -/

/-- **C08 (ii), parser level.** A number literal with at most 15 significant digits
    (`sigVal < 10^15`) and a net decimal exponent within ±22 is accepted, and the stored number, read as
    `f64` (`Number::as_f64`; an integer literal is stored as the exact integer), is *the* IEEE-754
    round-to-nearest-even double `r` of the literal's exact value. (Side condition as in
    `c08_exact_short`: fewer than `2^30` fraction digits.) -/
theorem c08p_exact_short (env : Env) (henv : env.tgt = .value) (hfr : env.cfg.fr = false)
    (hap : env.cfg.ap = false) (p : NumParts) (hwf : p.WF = true)
    (hD : (litOf p).sigVal < 10 ^ 15) (h1 : -22 ≤ (litOf p).netExp) (h2 : (litOf p).netExp ≤ 22)
    (hlen : (litOf p).fracDigits.length < 2 ^ 30) :
    ∃ x r, parseTop env p.bytes = .ok (.num x) ∧ numAsF64 x = some r ∧
      roundNE64 p.minus (litOf p).exact.1 (litOf p).exact.2 = some r ∧
      IsNearestEven64 p.minus (litOf p).exact.1 (litOf p).exact.2 r := by
  have hlwf := Proofs.NumLinkParser.litOf_wf p hwf
  have hex := SJ.Props.C08.c08_exact_short (litOf p) hlwf hD h1 h2 hlen
  have hden : 0 < (litOf p).exact.2 := by
    unfold NumLit.exact scale10
    split
    · exact Nat.one_pos
    · exact Nat.pos_of_ne_zero (by simp)
  obtain ⟨r, hr, hne⟩ := (SJ.Props.C08.c08_roundNE64_spec p.minus _ _ hden).1
    (Proofs.NumLinkParser.exact_short_not_overflow (litOf p) hD h2)
  have hfl : floatOfLiteral (litOf p) = some r := by rw [hex]; exact hr
  cases hx : numOfLit (litOf p) with
  | none => rw [(Proofs.NumLink.numOfLit_none_iff _).1 hx] at hfl; cases hfl
  | some x =>
    refine ⟨x, r, (c08p_parse_number env henv hfr hap p hwf).1 x hx, ?_, hr, hne⟩
    have := Proofs.NumLink.numOfLit_asF64 (litOf p)
    rw [hx, hfl] at this
    exact this

/-- … and when the literal has a fraction or an exponent, that double is what the parser stores -/
theorem c08p_exact_short_float (env : Env) (henv : env.tgt = .value) (hfr : env.cfg.fr = false)
    (hap : env.cfg.ap = false) (p : NumParts) (hwf : p.WF = true)
    (hD : (litOf p).sigVal < 10 ^ 15) (h1 : -22 ≤ (litOf p).netExp) (h2 : (litOf p).netExp ≤ 22)
    (hlen : (litOf p).fracDigits.length < 2 ^ 30) (hfe : p.frac ≠ [] ∨ p.exp ≠ []) :
    ∃ r, parseTop env p.bytes = .ok (.num (.float r)) ∧
      roundNE64 p.minus (litOf p).exact.1 (litOf p).exact.2 = some r := by
  obtain ⟨x, r, hp, hx, hr, _⟩ := c08p_exact_short env henv hfr hap p hwf hD h1 h2 hlen
  refine ⟨r, ?_, hr⟩
  rcases c08p_outcome env henv hfr hap p hwf with ⟨n, hn, _, hf, he, _⟩ | ⟨k, hk, _, hf, he, _⟩ |
      ⟨b, hb, _⟩ | ⟨idx, _, hi, _⟩
  · rcases hfe with h | h <;> contradiction
  · rcases hfe with h | h <;> contradiction
  · rw [hb] at hp
    cases hp
    simp only [numAsF64, Option.some.injEq] at hx
    rw [← hx]; exact hb
  · rw [hi] at hp; cases hp

example : (litOf exNum).sigVal < 10 ^ 15 ∧ -22 ≤ (litOf exNum).netExp ∧ (litOf exNum).netExp ≤ 22 ∧
    (litOf exNum).fracDigits.length < 2 ^ 30 ∧ (exNum.frac ≠ [] ∨ exNum.exp ≠ []) := by decide
/-- `-12345.678e9 = -12345678·10^6`, correctly rounded -/
example : roundNE64 true (12345678 * 10 ^ 6) 1 = some 0xc2a674e780df0000 := by decide +kernel

/-! ## Overflow direction, underflow, accuracy — for every number literal, against its exact value

`(litOf p).exact = (num, den)` is the exact value `num/den` of the literal as `Spec.Decimal` reads it
(`c08p_literal_reading`). Side condition as in `c08p_exact_short`: the literal has fewer than `2^30`
integer-plus-fraction digits. -/

/-- **C08, "rejected only near or beyond the overflow threshold", parser level.** If parsing a number
    literal fails at all, the error is `NumberOutOfRange` and the literal's exact value is at least
    `2^1024 − 2^970 − 2^972` (within 2 ulp of the point from which round-to-nearest overflows). -/
theorem c08p_rejected_only_near_threshold (env : Env) (henv : env.tgt = .value)
    (hfr : env.cfg.fr = false) (hap : env.cfg.ap = false) (p : NumParts) (hwf : p.WF = true)
    (hlen : (litOf p).digits.length < 2 ^ 30) (c : Code) (idx : Nat)
    (h : parseTop env p.bytes = .err c idx) :
    c = .NumberOutOfRange ∧ (2 ^ 1024 - 2 ^ 970 - 2 ^ 972) * (litOf p).exact.2 ≤ (litOf p).exact.1 := by
  obtain ⟨hx, hc⟩ := Proofs.NumLinkParser.parseTop_default_err env henv hfr hap p hwf c idx h
  exact ⟨hc, SJ.Props.C08.c08_rejected_only_near_threshold (litOf p)
    (Proofs.NumLinkParser.litOf_wf p hwf) hlen ((Proofs.NumLink.numOfLit_none_iff _).1 hx)⟩

/-- **C08, overflow direction at the parser (as `c08_overflow_direction_partial`).** Failure ⇒
    `NumberOutOfRange` and exact value `≥ 2^1024 − 2^970 − 2^972`; exact value `≥ 2^1024 + 2^972 + 2^965` ⇒
    `NumberOutOfRange`. Partial only where the property is false of the code: "every value ≥ 2^1024 is
    rejected" fails on `179769313486231591e291` (finding C08-F1, example below). -/
theorem c08p_overflow_direction_partial (env : Env) (henv : env.tgt = .value)
    (hfr : env.cfg.fr = false) (hap : env.cfg.ap = false) (p : NumParts) (hwf : p.WF = true)
    (hlen : (litOf p).digits.length < 2 ^ 30) :
    (∀ c idx, parseTop env p.bytes = .err c idx → c = .NumberOutOfRange ∧
      (2 ^ 1024 - 2 ^ 970 - 2 ^ 972) * (litOf p).exact.2 ≤ (litOf p).exact.1) ∧
    ((2 ^ 1024 + 2 ^ 972 + 2 ^ 965) * (litOf p).exact.2 ≤ (litOf p).exact.1 →
      ∃ idx, idx ≤ p.bytes.length ∧ parseTop env p.bytes = .err .NumberOutOfRange idx) := by
  refine ⟨fun c idx h => c08p_rejected_only_near_threshold env henv hfr hap p hwf hlen c idx h, ?_⟩
  intro hbig
  have hnone := (SJ.Props.C08.c08_overflow_direction_partial (litOf p)
    (Proofs.NumLinkParser.litOf_wf p hwf) hlen).2 hbig
  exact (c08p_parse_number env henv hfr hap p hwf).2 ((Proofs.NumLink.numOfLit_none_iff _).2 hnone)

/-- `17976931348623159e292` and `1e99999999999` (eager exponent guard, reported on the tenth exponent
    digit) are rejected; `179769313486231591e291 > 2^1024` is accepted as `f64::MAX` by the parser model
    too (cf. `c08_accepts_above_2pow1024`) -/
example : (parseTop envD [0x31, 0x37, 0x39, 0x37, 0x36, 0x39, 0x33, 0x31, 0x33, 0x34, 0x38, 0x36, 0x32, 0x33,
    0x31, 0x35, 0x39, 0x65, 0x32, 0x39, 0x32]).isErr .NumberOutOfRange 21 = true := by decide +kernel
example : (parseTop envD [0x31, 0x65, 0x39, 0x39, 0x39, 0x39, 0x39, 0x39, 0x39, 0x39, 0x39, 0x39, 0x39]).isErr
    .NumberOutOfRange 12 = true := by decide +kernel
example : (parseTop envD [0x31, 0x37, 0x39, 0x37, 0x36, 0x39, 0x33, 0x31, 0x33, 0x34, 0x38, 0x36, 0x32, 0x33,
    0x31, 0x35, 0x39, 0x31, 0x65, 0x32, 0x39, 0x31]).isOk (.num (.float 0x7fefffffffffffff)) = true := by
  decide +kernel
/-- `1797693134862317000000000e284` as a grammar-level literal: hypotheses of the second half met -/
def exBigNum : NumParts := ⟨false, [0x31, 0x37, 0x39, 0x37, 0x36, 0x39, 0x33, 0x31, 0x33, 0x34, 0x38, 0x36, 0x32,
  0x33, 0x31, 0x37, 0x30, 0x30, 0x30, 0x30, 0x30, 0x30, 0x30, 0x30, 0x30], [], [0x65, 0x32, 0x38, 0x34]⟩
example : exBigNum.WF = true ∧ litOf exBigNum = SJ.Props.C08.exBig ∧
    (litOf exBigNum).digits.length < 2 ^ 30 := by refine ⟨by decide, rfl, by decide⟩
example : (parseTop envD exBigNum.bytes).isErr .NumberOutOfRange 29 = true := by decide +kernel

/-- **C08, zero significand at the parser.** A literal whose digit collection ends in
    `f64_from_parts(_, 0, e)` is `±0` whatever the exponent (`0e400`, `-0.000e-999`). -/
theorem c08p_zero_significand (env : Env) (henv : env.tgt = .value) (hfr : env.cfg.fr = false)
    (hap : env.cfg.ap = false) (p : NumParts) (hwf : p.WF = true) (pos : Bool) (e : Int)
    (hp : partsOfLiteral (litOf p) = .parts pos 0 e) :
    parseTop env p.bytes = .ok (.num (.float (F64.zero p.minus))) := by
  have hgood := SJ.Proofs.FloatDefault.partsOfLiteral_good (litOf p)
    (Proofs.NumLinkParser.litOf_wf p hwf)
  rw [hp] at hgood
  have hpos : pos = !p.minus := hgood.1
  apply (c08p_parse_number env henv hfr hap p hwf).1
  unfold numOfLit
  rw [hp]
  simp only
  rw [SJ.Props.C08.c08_zero_significand pos e, hpos, Bool.not_not]
  rfl

/-- **C08, "values below the subnormal range give ±0", parser level.** A number literal whose exact value
    is at most `2^-1076` is accepted, and the stored number read as `f64` is `±0` with the literal's sign
    (the integer literal `0` is stored as `PosInt(0)`, everything else — `-0`, `0.0`, `1e-400`,
    `1e-99999999999` — as the float `±0.0`). -/
theorem c08p_underflow_zero (env : Env) (henv : env.tgt = .value) (hfr : env.cfg.fr = false)
    (hap : env.cfg.ap = false) (p : NumParts) (hwf : p.WF = true)
    (hlen : (litOf p).digits.length < 2 ^ 30)
    (hx : (litOf p).exact.1 * 2 ^ 1076 ≤ (litOf p).exact.2) :
    ∃ x, parseTop env p.bytes = .ok (.num x) ∧ numAsF64 x = some (F64.zero p.minus) := by
  have hfl := SJ.Props.C08.c08_underflow_zero (litOf p) (Proofs.NumLinkParser.litOf_wf p hwf) hlen hx
  cases hn : numOfLit (litOf p) with
  | none => rw [(Proofs.NumLink.numOfLit_none_iff _).1 hn] at hfl; cases hfl
  | some x =>
    refine ⟨x, (c08p_parse_number env henv hfr hap p hwf).1 x hn, ?_⟩
    have := Proofs.NumLink.numOfLit_asF64 (litOf p)
    rw [hn, hfl] at this
    exact this

/-- … and with a fraction or an exponent the parser stores that float -/
theorem c08p_underflow_zero_float (env : Env) (henv : env.tgt = .value) (hfr : env.cfg.fr = false)
    (hap : env.cfg.ap = false) (p : NumParts) (hwf : p.WF = true)
    (hlen : (litOf p).digits.length < 2 ^ 30)
    (hx : (litOf p).exact.1 * 2 ^ 1076 ≤ (litOf p).exact.2) (hfe : p.frac ≠ [] ∨ p.exp ≠ []) :
    parseTop env p.bytes = .ok (.num (.float (F64.zero p.minus))) := by
  obtain ⟨x, hp, hx'⟩ := c08p_underflow_zero env henv hfr hap p hwf hlen hx
  rcases c08p_outcome env henv hfr hap p hwf with ⟨n, hn, _, hf, he, _⟩ | ⟨k, hk, _, hf, he, _⟩ |
      ⟨b, hb, _⟩ | ⟨idx, _, hi, _⟩
  · rcases hfe with h | h
    · exact absurd hf h
    · exact absurd he h
  · rcases hfe with h | h
    · exact absurd hf h
    · exact absurd he h
  · rw [hb] at hp
    cases hp
    simp only [numAsF64, Option.some.injEq] at hx'
    rw [← hx']; exact hb
  · rw [hi] at hp; cases hp

/-- `6e-325`, `-1e-99999999999`, and `-600000000000000000000001e-348` (five digits dropped) -/
example : (parseTop envD [0x36, 0x65, 0x2d, 0x33, 0x32, 0x35]).isOk (.num (.float 0)) = true := by
  decide +kernel
example : (parseTop envD [0x2d, 0x31, 0x65, 0x2d, 0x39, 0x39, 0x39, 0x39, 0x39, 0x39, 0x39, 0x39, 0x39, 0x39,
    0x39]).isOk (.num (.float 0x8000000000000000)) = true := by decide +kernel
def exTinyNum : NumParts := ⟨true, [0x36, 0x30, 0x30, 0x30, 0x30, 0x30, 0x30, 0x30, 0x30, 0x30, 0x30, 0x30, 0x30,
  0x30, 0x30, 0x30, 0x30, 0x30, 0x30, 0x30, 0x30, 0x30, 0x30, 0x31], [], [0x65, 0x2d, 0x33, 0x34, 0x38]⟩
example : exTinyNum.WF = true ∧ litOf exTinyNum = SJ.Props.C08.exTiny ∧
    (litOf exTinyNum).digits.length < 2 ^ 30 ∧ (exTinyNum.frac ≠ [] ∨ exTinyNum.exp ≠ []) := by
  refine ⟨by decide, rfl, by decide, by decide⟩
example : (parseTop envD exTinyNum.bytes).isOk (.num (.float 0x8000000000000000)) = true := by decide +kernel

/-- **C08, "within 5 units in the last place", parser level.** Whatever number the parser stores for a
    number literal, read as `f64` (`Number::as_f64`; an integer literal is stored as the exact integer and
    cast), is finite, carries the literal's sign and lies within 5 ulp of the literal's exact value — the
    ulp being that of the correctly rounded exact value (`Spec.Ieee.withinUlps`). Every literal: any number
    of digits below `2^30`, every exponent, normal and subnormal results. -/
theorem c08p_within_5ulp (env : Env) (henv : env.tgt = .value) (hfr : env.cfg.fr = false)
    (hap : env.cfg.ap = false) (p : NumParts) (hwf : p.WF = true)
    (hlen : (litOf p).digits.length < 2 ^ 30) (x : Num) (r : UInt64)
    (h : parseTop env p.bytes = .ok (.num x)) (hr : numAsF64 x = some r) :
    withinUlps 5 p.minus (litOf p).exact.1 (litOf p).exact.2 r = true := by
  obtain ⟨x', hx', hv⟩ := Proofs.NumLinkParser.parseTop_default_ok env henv hfr hap p hwf _ h
  cases hv
  have hfl : floatOfLiteral (litOf p) = some r := by
    have := Proofs.NumLink.numOfLit_asF64 (litOf p)
    rw [hx'] at this
    rw [← this]; exact hr
  exact SJ.Props.C08.c08_within_5ulp (litOf p) (Proofs.NumLinkParser.litOf_wf p hwf) hlen r hfl

/-- the float case spelled out -/
theorem c08p_within_5ulp_float (env : Env) (henv : env.tgt = .value) (hfr : env.cfg.fr = false)
    (hap : env.cfg.ap = false) (p : NumParts) (hwf : p.WF = true)
    (hlen : (litOf p).digits.length < 2 ^ 30) (r : UInt64)
    (h : parseTop env p.bytes = .ok (.num (.float r))) :
    withinUlps 5 p.minus (litOf p).exact.1 (litOf p).exact.2 r = true :=
  c08p_within_5ulp env henv hfr hap p hwf hlen (.float r) r h rfl

/-- `12345678901234567890e-300` (20 digits, division by `1e300`) and `12345678901234567890123e-330`
    (23 digits, three dropped, two divisions, subnormal result) -/
example : (parseTop envD [0x31, 0x32, 0x33, 0x34, 0x35, 0x36, 0x37, 0x38, 0x39, 0x30, 0x31, 0x32, 0x33, 0x34,
    0x35, 0x36, 0x37, 0x38, 0x39, 0x30, 0x65, 0x2d, 0x33, 0x30, 0x30]).isOk
      (.num (.float 0x059caf4b164e4802)) = true := by decide +kernel
def exSubNum : NumParts := ⟨false, [0x31, 0x32, 0x33, 0x34, 0x35, 0x36, 0x37, 0x38, 0x39, 0x30, 0x31, 0x32, 0x33,
  0x34, 0x35, 0x36, 0x37, 0x38, 0x39, 0x30, 0x31, 0x32, 0x33], [], [0x65, 0x2d, 0x33, 0x33, 0x30]⟩
example : exSubNum.WF = true ∧ litOf exSubNum = SJ.Props.C08.exSub ∧
    (litOf exSubNum).digits.length < 2 ^ 30 := by refine ⟨by decide, rfl, by decide⟩
example : (parseTop envD exSubNum.bytes).isOk (.num (.float 0x0008e0a3a2bc301f)) = true := by decide +kernel

end SJ.Props.C08Parser
