import SJ.Props.C08Parser
import SJ.Proofs.FloatTinyLift
import SJ.Proofs.TypedF32Default
/-!
# C08 — underflow on the whole interval that rounds to zero; the `f32` clause on the typed path

* `c08_underflow_zero_sharp*`: `c08_underflow_zero` required an exact value `≤ 2^-1076`; here every value `< 2^-1075` (half
  the least subnormal: exactly the values whose correctly rounded image is zero) gives `±0`. True of the code, although
  three roundings are involved: monotonicity of rounding + kernel evaluation at the twenty exponents concerned.
* `c08_f32_once_typed`: the `f32` clause stated about the typed entry points (`Model.Typed.deNumber`, i.e.
  `deserialize_f32` / `deserialize_f64`), in place of `c08_f32_once`, which is true by construction of
  `Model.FloatDefault.Parts.toF32`.
-/
namespace SJ.Props.C08Sharp
open SJ SJ.Gen SJ.Spec.Ieee SJ.Spec.Decimal SJ.Model.FloatDefault SJ.Model.Machine
open SJ.Spec.Grammar (NumParts)
open SJ.Proofs.NumLink (toNumLit numOfLit numAsF64)
open SJ.Proofs.NumLinkParser (litOf)

/-- **C08, underflow at `f64_from_parts`, sharp.** A value `significand · 10^exponent` below `2^-1075` gives `±0`, for
    every `u64` significand and every exponent. (`2^-1075` is half the least subnormal; from there on the correctly
    rounded value is not zero: the bound cannot be raised.) Values in `(2^-1076, 2^-1075)` occur only for
    `exponent = -(308 + j)`, `16 ≤ j ≤ 35`; the code computes `((significand as f64) / 1e308) / 1e<j>`, every step is
    monotone in the significand, and for the largest significand below the bound (`Proofs.FloatDefault.tinyS`, e.g.
    `2470328229206232720` at `-342`) the kernel evaluates the first quotient to at most half of `1e<j> · 2^-1074`. -/
theorem c08_underflow_zero_sharp_parts (positive : Bool) (s : Nat) (e : Int) (hs : s < 2 ^ 64) (he : e < 0)
    (hx : s * 2 ^ 1075 < 10 ^ e.natAbs) : f64FromParts positive s e = some (F64.zero (!positive)) :=
  SJ.Proofs.FloatDefault.f64FromParts_underflow_sharp positive s e hs he hx

/-- `2470328229206232720e-342 < 2^-1075 < 2470328229206232721e-342`: the first is `+0.0`; a little above the bound
    (`2470328229206233000e-342`) the result is the least subnormal (just above it, `…721e-342`, the code still answers `0`:
    within 1 ulp, `c08_within_5ulp`) -/
example : 2470328229206232720 * 2 ^ 1075 < 10 ^ (-342 : Int).natAbs ∧ 10 ^ (-342 : Int).natAbs < 2470328229206232721 * 2 ^ 1075 ∧
    f64FromParts true 2470328229206232720 (-342) = some 0 ∧ f64FromParts true 2470328229206233000 (-342) = some 1 := by
  decide +kernel

/-- **C08, "values below the subnormal range give ±0" — every literal, sharp.** A grammatical literal whose exact value is
    below `2^-1075` is deserialised to `±0` with the literal's sign (subsumes `c08_underflow_zero`). -/
theorem c08_underflow_zero_sharp (l : NumLit) (hwf : l.WF = true) (hlen : l.digits.length < 2 ^ 30)
    (hx : l.exact.1 * 2 ^ 1075 < l.exact.2) : floatOfLiteral l = some (F64.zero l.neg) :=
  SJ.Proofs.FloatQ.floatOfLiteral_underflow_sharp l hwf hlen hx

/-- `-2.47032822920623272e-324` (`> 2^-1076` in magnitude, `< 2^-1075`): hypotheses met, result `-0.0` -/
def exTinySharp : NumLit := ⟨true, [0x32], [0x34,0x37,0x30,0x33,0x32,0x38,0x32,0x32,0x39,0x32,0x30,0x36,0x32,0x33,0x32,0x37,0x32],
  true, [0x33,0x32,0x34]⟩
example : exTinySharp.WF = true ∧ exTinySharp.digits.length < 2 ^ 30 := by decide
example : exTinySharp.exact.1 * 2 ^ 1075 < exTinySharp.exact.2 ∧ exTinySharp.exact.2 < exTinySharp.exact.1 * 2 ^ 1076 := by
  decide +kernel
example : floatOfLiteral exTinySharp = some 0x8000000000000000 := by decide +kernel

/-- **C08, underflow at the parser, sharp.** A number literal whose exact value is below `2^-1075` is accepted, and the
    stored number read as `f64` is `±0` with the literal's sign. -/
theorem c08p_underflow_zero_sharp (env : Env) (henv : env.tgt = .value) (hfr : env.cfg.fr = false)
    (hap : env.cfg.ap = false) (p : NumParts) (hwf : p.WF = true) (hlen : (litOf p).digits.length < 2 ^ 30)
    (hx : (litOf p).exact.1 * 2 ^ 1075 < (litOf p).exact.2) :
    ∃ x, parseTop env p.bytes = .ok (.num x) ∧ numAsF64 x = some (F64.zero p.minus) := by
  have hfl := c08_underflow_zero_sharp (litOf p) (Proofs.NumLinkParser.litOf_wf p hwf) hlen hx
  cases hn : numOfLit (litOf p) with
  | none => rw [(Proofs.NumLink.numOfLit_none_iff _).1 hn] at hfl; cases hfl
  | some x =>
    refine ⟨x, (SJ.Props.C08Parser.c08p_parse_number env henv hfr hap p hwf).1 x hn, ?_⟩
    have := Proofs.NumLink.numOfLit_asF64 (litOf p)
    rw [hn, hfl] at this
    exact this

/-- `2.47032822920623272e-324` from a slice in the default build: `+0.0` -/
example : (parseTop SJ.Props.C08Parser.envD [0x32,0x2e,0x34,0x37,0x30,0x33,0x32,0x38,0x32,0x32,0x39,0x32,0x30,0x36,0x32,0x33,0x32,0x37,0x32,
    0x65,0x2d,0x33,0x32,0x34]).isOk (.num (.float 0)) = true := by decide +kernel

/-! ## the f32 target, on the typed path -/

/-- **C08, f32 (typed entry points).** Default build (no `float_roundtrip`), any source: when `parse_integer` has scanned a
    literal on the float path (`intClass parts = none`: a fraction or an exponent, an integer beyond `u64` / `i64`, or `-0`),
    `deserialize_f32` returns exactly `F64.toF32` (`as f32`: one rounding) of what `deserialize_f64` returns on the same
    input, with the same reader position, and fails (`NumberOutOfRange`, same index) exactly when `deserialize_f64` does.
    Both are the conversion `Model.Num.convertDefault` of the scanned parts (the subject of `c08p_link` and of every C08
    theorem) followed by serde's visitor. For integer literals within `u64` / `i64` the clause is false of the code: serde's
    `f32` visitor casts the integer directly (`c08_f32_once_typed_fails_on_large_int`, finding C08-F2). -/
theorem c08_f32_once_typed (env : Model.Typed.Env) (hfr : env.cfg.fr = false) (b : UInt8) (r : Bytes) (p0 : Nat)
    (parts : Model.Num.Parts) (rest' : Bytes) (pos' : Nat) (hb : Model.Typed.isNumStart b = true)
    (hlen : (b :: r).length + 20 < 2 ^ 29) (hsc : Model.Typed.scanNumber env (b :: r) p0 = .ok parts rest' pos')
    (hic : Model.Num.intClass parts = none) :
    (∃ x, Model.Num.convertDefault parts = .f64 x ∧
      Model.Typed.deNumber env .f64 (b :: r) p0 = .ok (.f64 x) rest' pos' ∧
      Model.Typed.deNumber env .f32 (b :: r) p0 = .ok (.f32 (F64.toF32 x)) rest' pos') ∨
    (Model.Num.convertDefault parts = .outOfRange ∧
      Model.Typed.deNumber env .f64 (b :: r) p0 = .err .NumberOutOfRange (Model.Typed.peekErrorIdx rest' pos') ∧
      Model.Typed.deNumber env .f32 (b :: r) p0 = .err .NumberOutOfRange (Model.Typed.peekErrorIdx rest' pos')) :=
  SJ.Proofs.TypedF32Default.deNumber_f32_default env hfr b r p0 parts rest' pos' hb hlen hsc hic

/-- non-vacuity: `from_str::<f64>("0.1")` = `0x3fb999999999999a`, `from_str::<f32>("0.1")` = `0x3dcccccd` = its cast -/
example :
    (match Model.Typed.deTypedTop {} .f64 [0x30, 0x2e, 0x31] with | .ok (.f64 b) => b == 0x3fb999999999999a | _ => false) = true ∧
    (match Model.Typed.deTypedTop {} .f32 [0x30, 0x2e, 0x31] with | .ok (.f32 b) => b == 0x3dcccccd | _ => false) = true ∧
    F64.toF32 0x3fb999999999999a = 0x3dcccccd := by decide +kernel

/-- **C08-F2 on the typed path.** `from_str::<f32>("1152921573326323713")` (`2^60 + 2^36 + 1`, an integer literal within
    `u64`) is `0x5d800001`, whereas `from_str::<f64>` of it is `0x43b0000010000000`, whose cast to `f32` is `0x5d800000`: the
    property's f32 clause fails for integer literals (as `c08_f32_once_fails_on_large_int` at the literal level). -/
theorem c08_f32_once_typed_fails_on_large_int :
    (match Model.Typed.deTypedTop {} .f32 [0x31,0x31,0x35,0x32,0x39,0x32,0x31,0x35,0x37,0x33,0x33,0x32,0x36,0x33,0x32,0x33,0x37,0x31,0x33] with
     | .ok (.f32 b) => b == 0x5d800001 | _ => false) = true ∧
    (match Model.Typed.deTypedTop {} .f64 [0x31,0x31,0x35,0x32,0x39,0x32,0x31,0x35,0x37,0x33,0x33,0x32,0x36,0x33,0x32,0x33,0x37,0x31,0x33] with
     | .ok (.f64 b) => b == 0x43b0000010000000 | _ => false) = true ∧
    F64.toF32 0x43b0000010000000 = 0x5d800000 := by decide +kernel

end SJ.Props.C08Sharp
