import SJ.Props.C09
import SJ.Props.C11
import SJ.Props.TypedSrc
import SJ.Proofs.LineCol
/-!
# C09 — "same index" means "same line and column"

`c09_slice_reader`, `c09_typed_slice_reader` and `c09_stream_offsets` compare the INDEX the sources report. The property
is about what a caller sees: `Error::line()`, `Error::column()`, `StreamDeserializer::byte_offset()`. A slice (`&str`
delegates to it) and a reader get from an index to a `Position` by two unrelated computations
(`SliceRead::position_of_index`: `memrchr` + `memchr_iter().count()`; `IoRead::position`: the counters of
`LineColIterator`), both modelled in `SJ.Model.LineCol`. The theorems here close that gap:

* `c09_positions_agree` — for the same byte index both computations give the same (line, column) (and neither panics);
* `c09_readers_in_step` — the same `next` / `peek` / `discard` calls on both readers: same bytes, same `byte_offset()`,
  `position()`s equal when nothing is pending, reader's `position()` = slice's `peek_position()` when a peeked byte is;
* `c09_untyped_line_col`, `c09_typed_line_col` — the source theorems restated with line and column; for the typed sites
  where the reader's index is the slice's + 1: the reader's column is one more — or, when the pending byte is a
  newline, the reader reports the next line, column 0.

(In a file of its own because `Proofs/TypedSrc.lean` imports `Props/C09.lean`.)
-/
namespace SJ.Props.C09
open SJ SJ.Gen SJ.Model SJ.Model.Machine SJ.Model.LineCol
open SJ.Model.Typed (Top deTypedTop)
open SJ.Proofs.Typed SJ.Props.Typed SJ.Props.TypedSrc

/-- **C09 (positions).** For one and the same byte index `k ≤ |bs|`, `SliceRead::position_of_index(k)` and an `IoRead`
    whose iterator has handed out `k` bytes — whether or not the last of them is still in the peek slot — report the same
    `Position`, namely `lineCol bs k`. -/
theorem c09_positions_agree (bs : Bytes) (k : Nat) (hk : k ≤ bs.length) (peeked : Bool) :
    positionOfIndex bs k = some (IoPos.at bs k peeked).position ∧
    (IoPos.at bs k peeked).position = lineCol bs k ∧
    (IoPos.at bs k peeked).peekPosition = lineCol bs k ∧
    readerLineCol bs k = lineCol bs k := by
  have h := (SJ.Proofs.LineCol.inv_at bs k peeked hk).position
  exact ⟨by rw [h]; exact SJ.Proofs.LineCol.positionOfIndex_eq bs k hk, h, h, SJ.Proofs.LineCol.readerLineCol_eq bs k hk⟩

/-- **C09 (readers in step).** Run the same calls on an `IoRead` and a `SliceRead` over the same bytes, `discard()` only
    while a peeked byte is pending (how `de.rs` uses `eat_char`). Then: the next `next()` / `peek()` return the same byte
    on both; `byte_offset()` is the same; no position call panics; with nothing pending the two `position()`s are equal;
    with a peeked byte pending the reader's `position()` is the slice's `peek_position()` — one byte ahead of the slice's
    `position()`. So an error raised through `peek_error` is positioned alike by both sources, and one raised through
    `error` while a byte is merely peeked is one byte further for the reader (`c09_typed_line_col`). -/
theorem c09_readers_in_step (bs : Bytes) (ops : List Op) (hd : Disciplined (IoPos.new bs) ops) :
    let r := (IoPos.new bs).run ops
    let s := (SlicePos.mk bs 0).run ops
    r.next.1 = s.next.1 ∧ r.peek.1 = s.peek.1 ∧
    s.byteOffset = r.byteOffset ∧ r.peekPosition = r.position ∧
    s.position = some (lineCol bs s.index) ∧ s.peekPosition = some (lineCol bs (min bs.length (s.index + 1))) ∧
    (r.ch = none → s.position = some r.position) ∧
    (r.ch.isSome = true → s.peekPosition = some r.position ∧ r.position = lineCol bs (s.index + 1)) := by
  intro r s
  have h : SJ.Proofs.LineCol.Sync bs r s := (SJ.Proofs.LineCol.sync_new bs).run ops hd
  exact ⟨h.results.1, h.results.2, h.positions⟩

/-- **C09 (untyped targets, with line and column).** Whenever the slice source fails at index `i`, the reader fails with
    the same code at the same index, and `position_of_index(i)` and the reader's counters after `i` bytes are the same
    (line, column) — so message, category, line and column coincide. -/
theorem c09_untyped_line_col (cfg : Cfg) (tgt : Tgt) (bs : Bytes) (c : Code) (i : Nat)
    (h : parseTop (envOf cfg .slice tgt) bs = .err c i) :
    parseTop (envOf cfg .reader tgt) bs = .err c i ∧
    positionOfIndex bs i = some (readerLineCol bs i) ∧ readerLineCol bs i = lineCol bs i := by
  have hi : i ≤ bs.length := SJ.Props.C11.c11_within_input _ bs c i h
  refine ⟨by rw [← c09_slice_reader]; exact h, ?_, SJ.Proofs.LineCol.readerLineCol_eq bs i hi⟩
  rw [SJ.Proofs.LineCol.readerLineCol_eq bs i hi]; exact SJ.Proofs.LineCol.positionOfIndex_eq bs i hi

/-- the index an outcome of the typed model carries, if any -/
def topIdx : Top → Option Nat
  | .err _ i => some i
  | .data (some i) => some i
  | _ => none

/-- **C09 (typed targets, with line and column).** For every configuration, schema and byte string (clean end or failing
    reader):

    * (a) slice and reader outcomes are identical and, when they carry an index, `position_of_index` and the reader's
      counters turn it into the same (line, column); or
    * (b) / (c) — the `PeekCode` parser errors and the visitor errors of `c09_typed_slice_reader`, where the reader
      reports index `i + 1` against the slice's `i < |bs|` because byte `i` sits in its peek slot: the slice says
      `lineCol bs i = (l, col)`, the reader says `(l, col + 1)`, unless byte `i` is a newline, in which case the reader
      says `(l + 1, 0)`. (Checked against the crate by ops `tt3` and `lc3`: `256\n` as `u8` is `1:3` from a slice and
      `2:0` from a reader.) -/
theorem c09_typed_line_col (cfg : Machine.Cfg) (flt : Bool) (s : Schema) (bs : Bytes) :
    (deTypedTop { cfg := cfg, src := .slice, flt := flt } s bs = deTypedTop { cfg := cfg, src := .reader, flt := flt } s bs ∧
      ∀ i, topIdx (deTypedTop { cfg := cfg, src := .slice, flt := flt } s bs) = some i →
        positionOfIndex bs i = some (readerLineCol bs i) ∧ readerLineCol bs i = lineCol bs i) ∨
    (∃ c i, ∃ hi : i < bs.length, PeekCode c ∧
      deTypedTop { cfg := cfg, src := .slice, flt := flt } s bs = .err c i ∧
      deTypedTop { cfg := cfg, src := .reader, flt := flt } s bs = .err c (i + 1) ∧
      positionOfIndex bs i = some (lineCol bs i) ∧
      readerLineCol bs (i + 1) =
        if bs[i] = 0x0a then ((lineCol bs i).1 + 1, 0) else ((lineCol bs i).1, (lineCol bs i).2 + 1)) ∨
    (∃ i, ∃ hi : i < bs.length,
      deTypedTop { cfg := cfg, src := .slice, flt := flt } s bs = .data (some i) ∧
      deTypedTop { cfg := cfg, src := .reader, flt := flt } s bs = .data (some (i + 1)) ∧
      positionOfIndex bs i = some (lineCol bs i) ∧
      readerLineCol bs (i + 1) =
        if bs[i] = 0x0a then ((lineCol bs i).1 + 1, 0) else ((lineCol bs i).1, (lineCol bs i).2 + 1)) := by
  have hshift : ∀ i (hi : i < bs.length), readerLineCol bs (i + 1) =
      if bs[i] = 0x0a then ((lineCol bs i).1 + 1, 0) else ((lineCol bs i).1, (lineCol bs i).2 + 1) := by
    intro i hi
    rw [SJ.Proofs.LineCol.readerLineCol_eq bs (i + 1) hi]; exact SJ.Props.C11.c11_linecol_succ bs i hi
  rcases c09_typed_slice_reader cfg flt s bs with h | ⟨c, i, hc, hi, h1, h2⟩ | ⟨i, hi, h1, h2⟩
  · left
    refine ⟨h, fun i hidx => ?_⟩
    have hw := typed_within_input { cfg := cfg, src := .slice, flt := flt } s bs
    have hi : i ≤ bs.length := by
      cases ht : deTypedTop { cfg := cfg, src := .slice, flt := flt } s bs with
      | err c j => rw [ht] at hidx; simp [topIdx] at hidx; subst hidx; exact hw.1 c j ht
      | data o =>
        cases o with
        | none => rw [ht] at hidx; simp [topIdx] at hidx
        | some j => rw [ht] at hidx; simp [topIdx] at hidx; subst hidx; exact hw.2 j ht
      | ok v => rw [ht] at hidx; simp [topIdx] at hidx
      | io => rw [ht] at hidx; simp [topIdx] at hidx
      | fuel => rw [ht] at hidx; simp [topIdx] at hidx
    rw [SJ.Proofs.LineCol.readerLineCol_eq bs i hi]
    exact ⟨SJ.Proofs.LineCol.positionOfIndex_eq bs i hi, rfl⟩
  · exact .inr (.inl ⟨c, i, hi, hc, h1, h2, SJ.Proofs.LineCol.positionOfIndex_eq bs i (Nat.le_of_lt hi), hshift i hi⟩)
  · exact .inr (.inr ⟨i, hi, h1, h2, SJ.Proofs.LineCol.positionOfIndex_eq bs i (Nat.le_of_lt hi), hshift i hi⟩)

/-! non-vacuity -/

-- `[1,\n x]` into `Value`: `expected value` at index 6 from both sources = line 2 column 2 by both computations
example : (parseTop (envOf {} .slice .value) [0x5b, 0x31, 0x2c, 0x0a, 0x20, 0x78, 0x5d]).isErr .ExpectedSomeValue 6 = true := by
  decide +kernel
example : positionOfIndex [0x5b, 0x31, 0x2c, 0x0a, 0x20, 0x78, 0x5d] 6 = some (2, 2) ∧
    readerLineCol [0x5b, 0x31, 0x2c, 0x0a, 0x20, 0x78, 0x5d] 6 = (2, 2) := by decide
-- `256\n` as `u8` (case (c) with a newline pending): slice index 3 = 1:3, reader index 4 = 2:0
example : Top.isData (deTypedTop { src := .slice } (.int .u8) [0x32, 0x35, 0x36, 0x0a]) (some 3) = true := by decide +kernel
example : Top.isData (deTypedTop { src := .reader } (.int .u8) [0x32, 0x35, 0x36, 0x0a]) (some 4) = true := by decide +kernel
example : positionOfIndex [0x32, 0x35, 0x36, 0x0a] 3 = some (1, 3) ∧ readerLineCol [0x32, 0x35, 0x36, 0x0a] 4 = (2, 0) := by decide
-- `256 ` (a space pending): 1:3 against 1:4
example : positionOfIndex [0x32, 0x35, 0x36, 0x20] 3 = some (1, 3) ∧ readerLineCol [0x32, 0x35, 0x36, 0x20] 4 = (1, 4) := by decide
-- readers in step on `1\n2`: `peek`, `discard`, `peek` leaves the newline pending on the reader
example : Disciplined (IoPos.new [0x31, 0x0a, 0x32]) [.peek, .discard, .peek] := by
  refine ⟨?_, ?_, ?_, trivial⟩ <;> decide
example : ((IoPos.new [0x31, 0x0a, 0x32]).run [.peek, .discard, .peek]).position = (2, 0) ∧
    ((SlicePos.mk [0x31, 0x0a, 0x32] 0).run [.peek, .discard, .peek]).position = some (1, 1) ∧
    ((SlicePos.mk [0x31, 0x0a, 0x32] 0).run [.peek, .discard, .peek]).peekPosition = some (2, 0) ∧
    ((IoPos.new [0x31, 0x0a, 0x32]).run [.peek, .discard, .peek]).byteOffset = 1 := by decide

end SJ.Props.C09
