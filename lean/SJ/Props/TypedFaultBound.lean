import SJ.Props.TypedFaultEq
import SJ.Props.TypedSrc
/-!
# C13, typed targets: the class of the outcome under a failing reader, with the error position bounded

`c13_typed_fault` alone does not bound the index of the error it allows; the bound is `typed_within_input`. This file
states the two together, so that the C13 clause "or an error raised on the bytes delivered" is one theorem: the error's
index counts at most the delivered bytes.
-/
namespace SJ.Props.TypedFaultBound
open SJ SJ.Gen SJ.Model SJ.Model.Typed SJ.Props.Typed

/-- **C13 (reader, typed targets), positions included.** The reader delivers exactly `bs` and then fails. The typed
    deserializer returns `Io`, or a Syntax-classified parser error whose index lies within the delivered bytes, or a
    visitor (`Data`) error that is unpositioned or positioned within the delivered bytes — and in the two latter cases the
    outcome is exactly that of the run on `bs` followed by a clean end of input. -/
theorem c13_typed_fault_bounded (env : Env) (hf : env.flt = true) (s : Schema) (bs : Bytes) :
    deTypedTop env s bs = .io ∨
    (deTypedTop env s bs = deTypedTop { env with flt := false } s bs ∧
      ((∃ c i, deTypedTop env s bs = .err c i ∧ classify c = .syntax ∧ i ≤ bs.length) ∨
       (∃ i, deTypedTop env s bs = .data i ∧ ∀ k, i = some k → k ≤ bs.length))) := by
  have hw := SJ.Props.TypedSrc.typed_within_input env s bs
  rcases SJ.Props.TypedFaultEq.c13_typed_fault_eq env hf s bs with h | ⟨he, h | h⟩
  · exact .inl h
  · obtain ⟨c, i, hci, hc⟩ := h
    exact .inr ⟨he, .inl ⟨c, i, hci, hc, hw.1 c i hci⟩⟩
  · obtain ⟨i, hi⟩ := h
    refine .inr ⟨he, .inr ⟨i, hi, ?_⟩⟩
    intro k hk
    subst hk
    exact hw.2 k hi

-- non-vacuity: `[1,]` from a failing reader is the Syntax error TrailingComma at index 4 ≤ 4 (second alternative);
-- `[256 ` a positioned visitor error at 5 ≤ 5 (third); `[1,` is Io (first: `c13_typed_fault_io` in `Props/TypedFaultEq.lean`)
example : Top.isErr (deTypedTop { src := .reader, flt := true } (.seq (.int .u8)) [0x5b, 0x31, 0x2c, 0x5d]) .TrailingComma 4 = true := by
  decide +kernel
example : Top.isData (deTypedTop { src := .reader, flt := true } (.seq (.int .u8)) [0x5b, 0x32, 0x35, 0x36, 0x20]) (some 5) = true := by
  decide +kernel

end SJ.Props.TypedFaultBound
