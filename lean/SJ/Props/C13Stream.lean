import SJ.Model.StreamFault
/-!
# C13 — "a stream iterator yields that error once and then ends" (streams of `Value`s over a failing reader)

`Model.StreamFault.nextF` is `StreamDeserializer::next` over delivered bytes followed by a failing read. The clause is a
property of the `failed` flag: every item that is an I/O error (and every item that is a parser error other than the
undelimited-scalar `trailing characters`, after which the statement lets the stream go on) leaves the flag set, and a
set flag makes every later call return `None` without touching the reader — whichever way the stream was built (the
flag and the early return are `StreamDeserializer`'s own; a borrowed `&mut IoRead` forwards `set_failed` and the constant
`should_early_return_if_failed`, op `sfault` constructions `new` / `iter`).
-/
namespace SJ.Props.C13Stream
open SJ SJ.Gen SJ.Model.Machine SJ.Model.Stream SJ.Model.StreamFault

/-- a failed stream answers `None` and stays as it is -/
theorem nextF_failed (env : Env) (st : SS) (h : st.failed = true) : nextF env st = (.none, st) := by
  simp [nextF, h]

/-- a failed stream answers `None` for ever -/
theorem historyF_failed (env : Env) : ∀ (n : Nat) (st : SS), st.failed = true →
    historyF env n st = List.replicate n .none
  | 0, _, _ => rfl
  | n + 1, st, h => by
    simp only [historyF, nextF_failed env st h, List.replicate_succ]
    exact congrArg _ (historyF_failed env n st h)

/-- an item that is the I/O error leaves the stream failed -/
theorem nextF_io_fails (env : Env) (st st' : SS) (h : nextF env st = (.io, st')) : st'.failed = true := by
  unfold nextF at h
  split at h
  · cases h
  · dsimp only at h
    split at h
    · cases h; rfl
    · split at h
      · cases h; rfl
      · cases h
      · split at h
        · cases h
        · split at h
          · cases h; rfl
          · split at h <;> cases h

/-- a parser error other than `trailing characters` leaves the stream failed -/
theorem nextF_err_fails (env : Env) (st st' : SS) (c : Code) (idx : Nat)
    (h : nextF env st = (.err c idx, st')) (hc : c ≠ .TrailingCharacters) : st'.failed = true := by
  unfold nextF at h
  split at h
  · cases h
  · dsimp only at h
    split at h
    · cases h
    · split at h
      · cases h
      · cases h; rfl
      · split at h
        · cases h
        · split at h
          · cases h
          · split at h
            · cases h
            · cases h; exact absurd rfl hc

/-- **C13 (stream over a failing reader).** Once `next()` has yielded the I/O error, every further call — any number of
    them — yields `None`. -/
theorem c13_stream_io_once (env : Env) (st st' : SS) (h : nextF env st = (.io, st')) (n : Nat) :
    historyF env n st' = List.replicate n .none :=
  historyF_failed env n st' (nextF_io_fails env st st' h)

/-- the same after a terminal parser error -/
theorem c13_stream_error_once (env : Env) (st st' : SS) (c : Code) (idx : Nat)
    (h : nextF env st = (.err c idx, st')) (hc : c ≠ .TrailingCharacters) (n : Nat) :
    historyF env n st' = List.replicate n .none :=
  historyF_failed env n st' (nextF_err_fails env st st' c idx h hc)

/-- non-vacuity: `1 2` + fault — a value, the I/O error (the scanner of `2` asks for one more byte), then `None`s -/
example : ((historyF { cfg := {}, src := .reader, tgt := .value } 4 (start [0x31, 0x20, 0x32])).map fun
    | .ok _ => 1 | .io => 2 | .none => 0 | .err _ _ => 3) = [1, 2, 0, 0] := by decide +kernel

end SJ.Props.C13Stream
