import SJ.Proofs.Complete.Closure
import SJ.Proofs.Complete.Ap
/-!
# C01 (completeness half) — every RFC 8259 text meeting the side conditions is accepted

The byte-step machine (`Model.Machine`) accepts every byte string the grammar
(`Spec.Grammar.JsonText`) derives, provided the side conditions the RFC leaves to implementations
hold — nesting depth ≤ 127 (unless the limit is off), paired surrogate escapes, UTF-8 validity of
decoded strings on byte sources, numbers in range for the configured conversion — and returns the
value the syntax tree denotes (`canonM`: the denotation with objects built by the machine's map
insertion; `canonM = canon` is the map-level lemma of C02/C17). Skipped content (`IgnoredAny`,
unknown fields, `RawValue` scanning) needs no side condition at all.

Proof: `Proofs/Complete/*` — mutual induction over `Derives`/`Elems`/`Members` (`drive`), with
number literals left *pending* until the next byte or end of input (`Pending`).
The soundness half (accepted ⇒ derivable) is a separate development.
-/
namespace SJ.Props.C01
open SJ SJ.Gen SJ.Model.Machine SJ.Proofs.CanonM SJ.Proofs.Complete
open SJ.Spec.Grammar (CST JsonText Derives Elems Members Ws depth surrogatesPaired)

/-- **C01 (complete, `Value`).** A JSON text whose syntax tree meets the side conditions is accepted
    by `from_str`/`from_slice`/`from_reader`, with the value the tree denotes. The UTF-8 condition is
    needed on byte sources only; `numbersInRange` holds trivially under `arbitrary_precision`. -/
theorem c01_complete_value (env : Env) (henv : env.tgt = .value) (bs : Bytes) (t : CST)
    (h : JsonText bs t)
    (hdepth : env.cfg.limitOff = true ∨ depth t ≤ 127)
    (hsur : surrogatesPaired t = true)
    (hutf : env.src ≠ .str → Spec.Canon.stringsUtf8 t = true)
    (hnum : Spec.Canon.numbersInRange (specCfg env.cfg) t = true) :
    ∃ v, parseTop env bs = .ok v ∧ canonM env.cfg t = some v := by
  obtain ⟨v, hres, hp⟩ := complete_text env bs t h
    (fun _ => ⟨hdepth.imp id (fun hd => by omega), hsur, hutf, hnum⟩)
  exact ⟨v, hp, hres.1 henv⟩

/-- the document ` [1,{"a":null}]\n` -/
example : ∃ v, parseTop ⟨{}, .slice, .value⟩
      [0x20, 0x5b, 0x31, 0x2c, 0x7b, 0x22, 0x61, 0x22, 0x3a, 0x6e, 0x75, 0x6c, 0x6c, 0x7d, 0x5d, 0x0a]
        = .ok v ∧
      canonM {} (.arr [.num ⟨false, [0x31], [], []⟩, .obj [([.raw 0x61], .null)]]) = some v :=
  c01_complete_value ⟨{}, .slice, .value⟩ rfl _ _
    ⟨[0x20], [0x5b, 0x31, 0x2c, 0x7b, 0x22, 0x61, 0x22, 0x3a, 0x6e, 0x75, 0x6c, 0x6c, 0x7d, 0x5d],
      [0x0a], rfl, by decide, by decide,
      Derives.arr [] [0x31, 0x2c, 0x7b, 0x22, 0x61, 0x22, 0x3a, 0x6e, 0x75, 0x6c, 0x6c, 0x7d] [] _
        (by decide) (by decide) (by simp)
        (Elems.cons [0x31] [] [] [0x7b, 0x22, 0x61, 0x22, 0x3a, 0x6e, 0x75, 0x6c, 0x6c, 0x7d] _ _
          (Derives.num ⟨false, [0x31], [], []⟩ rfl) (by decide) (by decide)
          (Elems.one _ _
            (Derives.obj [] [0x22, 0x61, 0x22, 0x3a, 0x6e, 0x75, 0x6c, 0x6c] [] _ (by decide)
              (by decide) (by simp)
              (Members.one [.raw 0x61] rfl [] [] [0x6e, 0x75, 0x6c, 0x6c] .null (by decide)
                (by decide) Derives.null))))⟩
    (Or.inr (by decide)) rfl (fun _ => rfl) rfl

/-- the depth bound is sharp: 127 nested arrays are accepted, the 128th `[` is rejected -/
example : parseTop ⟨{}, .slice, .value⟩ (List.replicate 128 0x5b ++ List.replicate 128 0x5d)
    = .err .RecursionLimitExceeded 128 := rfl

example : (match parseTop ⟨{}, .slice, .value⟩ (List.replicate 127 0x5b ++ List.replicate 127 0x5d) with
    | .ok _ => true
    | .err _ _ => false) = true := rfl

/-- the same, with the side conditions bundled as in `Spec.Canon.sideConditions` -/
theorem c01_complete_sideConditions (env : Env) (henv : env.tgt = .value) (bs : Bytes) (t : CST)
    (h : JsonText bs t)
    (hs : Spec.Canon.sideConditions (specCfg env.cfg) (env.src != .str) t = true) :
    ∃ v, parseTop env bs = .ok v ∧ canonM env.cfg t = some v := by
  simp only [Spec.Canon.sideConditions, Bool.and_eq_true, Bool.or_eq_true, decide_eq_true_eq,
    specCfg, Bool.not_eq_true', bne_eq_false_iff_eq] at hs
  obtain ⟨⟨⟨h1, h2⟩, h3⟩, h4⟩ := hs
  refine c01_complete_value env henv bs t h h1 h2 (fun hne => ?_) h4
  rcases h3 with h3 | h3
  · exact absurd h3 hne
  · exact h3

example : Spec.Canon.sideConditions (specCfg {}) (Src.reader != .str)
    (.arr [.str [.uni 0x44 0x38 0x33 0x44, .uni 0x44 0x45 0x30 0x30]]) = true := by decide

/-- under `arbitrary_precision` no numeric side condition is needed: every literal is kept as text -/
theorem c01_complete_value_ap (env : Env) (henv : env.tgt = .value) (hap : env.cfg.ap = true)
    (bs : Bytes) (t : CST) (h : JsonText bs t)
    (hdepth : env.cfg.limitOff = true ∨ depth t ≤ 127)
    (hsur : surrogatesPaired t = true)
    (hutf : env.src ≠ .str → Spec.Canon.stringsUtf8 t = true) :
    ∃ v, parseTop env bs = .ok v ∧ canonM env.cfg t = some v :=
  c01_complete_value env henv bs t h hdepth hsur hutf (numbersInRange_ap (specCfg env.cfg) hap t)

/-- `1e999` is kept verbatim under `arbitrary_precision` (and rejected as out of range otherwise) -/
example : parseTop ⟨{ ap := true }, .str, .value⟩ [0x31, 0x65, 0x39, 0x39, 0x39]
    = .ok (.num (.lit [0x31, 0x65, 0x39, 0x39, 0x39])) := by
  obtain ⟨v, hp, hc⟩ := c01_complete_value_ap ⟨{ ap := true }, .str, .value⟩ rfl rfl
    [0x31, 0x65, 0x39, 0x39, 0x39] (.num ⟨false, [0x31], [], [0x65, 0x39, 0x39, 0x39]⟩)
    ⟨[], _, [], rfl, by decide, by decide, Derives.num ⟨false, [0x31], [], [0x65, 0x39, 0x39, 0x39]⟩ rfl⟩
    (Or.inr (by decide)) rfl (fun _ => rfl)
  rw [hp]; simp [canonM, Spec.Canon.numOf, specCfg] at hc; rw [← hc]; rfl

example : (parseTop ⟨{}, .str, .value⟩ [0x31, 0x65, 0x39, 0x39, 0x39]).isErr .NumberOutOfRange 5 = true := by decide +kernel

/-- **C01 (complete, skipped content).** `ignore_value` accepts every JSON text: it checks neither
    depth, surrogate pairing, UTF-8 validity nor numeric range. -/
theorem c01_complete_ignored (env : Env) (henv : env.tgt = .ignored) (bs : Bytes) (t : CST)
    (h : JsonText bs t) : parseTop env bs = .ok .null := by
  obtain ⟨v, hres, hp⟩ := complete_text env bs t h (fun hv => (tgt_absurd hv henv).elim)
  rw [hp, hres.2 henv]

/-- `["\uDC00",1e999]` (lone trailing surrogate, number out of range) is skipped without error -/
example : parseTop ⟨{}, .slice, .ignored⟩
    [0x5b, 0x22, 0x5c, 0x75, 0x44, 0x43, 0x30, 0x30, 0x22, 0x2c, 0x31, 0x65, 0x39, 0x39, 0x39, 0x5d]
      = .ok .null :=
  c01_complete_ignored ⟨{}, .slice, .ignored⟩ rfl _
    (.arr [.str [.uni 0x44 0x43 0x30 0x30], .num ⟨false, [0x31], [], [0x65, 0x39, 0x39, 0x39]⟩])
    ⟨[], _, [], rfl, by decide, by decide,
      Derives.arr [] [0x22, 0x5c, 0x75, 0x44, 0x43, 0x30, 0x30, 0x22, 0x2c, 0x31, 0x65, 0x39, 0x39, 0x39]
        [] _ (by decide) (by decide) (by simp)
        (Elems.cons [0x22, 0x5c, 0x75, 0x44, 0x43, 0x30, 0x30, 0x22] [] [] [0x31, 0x65, 0x39, 0x39, 0x39]
          _ _ (Derives.str [.uni 0x44 0x43 0x30 0x30] rfl) (by decide) (by decide)
          (Elems.one _ _ (Derives.num ⟨false, [0x31], [], [0x65, 0x39, 0x39, 0x39]⟩ rfl)))⟩

/-- the empty input is rejected (there is no empty JSON text) -/
theorem c01_empty_rejected (env : Env) : parseTop env [] = .err .EofWhileParsingValue 0 := rfl

example : ¬ ∃ t, JsonText [] t := no_empty_text

/-- acceptance is closed under appending whitespace (machine level: any target, any state of
    affairs — e.g. a number that was ended by end of input is ended by the whitespace instead) -/
theorem c01_trailing_ws (env : Env) (bs w : Bytes) (v : JV) (h : parseTop env bs = .ok v) (hw : Ws w) :
    parseTop env (bs ++ w) = .ok v :=
  run_ok_trailing_ws env init 0 bs w v h hw

/-- … and under prepending whitespace -/
theorem c01_leading_ws (env : Env) (bs w : Bytes) (v : JV) (h : parseTop env bs = .ok v) (hw : Ws w) :
    parseTop env (w ++ bs) = .ok v :=
  run_ok_leading_ws env bs w v h hw

/-- `12` then ` \n`: the literal is ended by end of input in one case, by the blank in the other -/
example : parseTop ⟨{}, .str, .value⟩ ([0x31, 0x32] ++ [0x20, 0x0a]) = .ok (.num (.pos 12)) :=
  c01_trailing_ws _ [0x31, 0x32] [0x20, 0x0a] _ rfl (by decide)

example : parseTop ⟨{}, .str, .value⟩ ([0x09] ++ [0x31, 0x32]) = .ok (.num (.pos 12)) :=
  c01_leading_ws _ [0x31, 0x32] [0x09] _ rfl (by decide)

end SJ.Props.C01
