import SJ.Model.TypedInt
import SJ.Props.C06Int
/-!
# C06 — integers are exact and range-checked, never wrapped

`C06Int.lean` has the parser-level theorems (`c06_overflow_guard_spec`, `c06_parse_integer`, …);
here the typed targets and the accessors.
-/
namespace SJ.Props.C06
open SJ SJ.Model.Num SJ.Model.TypedInt SJ.Proofs.NumInt

def NotInt (r : NRes) : Prop := (∀ n, r ≠ .u64 n) ∧ (∀ k, r ≠ .i64 k)

theorem ofF_notInt (f : FRes) : NotInt (ofF f) := by
  cases f <;> (unfold NotInt; constructor <;> intro _ h <;> cases h)

theorem exponentOverflow_notInt (a b c : Bool) : NotInt (exponentOverflow a b c) := by
  unfold exponentOverflow; split <;> (unfold NotInt; constructor <;> intro _ h <;> cases h)

theorem parseExponent_notInt (pos : Bool) (sig : Nat) (e : Int) (en : Bool) (ds : Bytes) :
    NotInt (parseExponent pos sig e en ds) := by
  unfold parseExponent
  split
  · (unfold NotInt; constructor <;> intro _ h <;> cases h)
  · split
    · exact exponentOverflow_notInt ..
    · exact ofF_notInt _

theorem parseDecimal_notInt (pos : Bool) (sig : Nat) (e : Int) (fds : Bytes) (ex : Option (Bool × Bytes)) :
    NotInt (parseDecimal pos sig e fds ex) := by
  unfold parseDecimal
  simp only
  split
  · exact parseExponent_notInt ..
  · exact ofF_notInt _

theorem convertDefault_notInt (p : Parts) (h : (p.frac.isSome || p.exp.isSome) = true) :
    NotInt (convertDefault p) := by
  unfold convertDefault
  simp only
  split
  · split
    · exact parseDecimal_notInt ..
    · exact parseExponent_notInt ..
    · rename_i hf he; simp [hf, he] at h
  · split
    · exact parseDecimal_notInt ..
    · exact parseExponent_notInt ..
    · rename_i hf he; simp [hf, he] at h

theorem floatOrRange_notInt {r : NRes} (h : FloatOrRange r) : NotInt r := by
  rcases h with ⟨b, rfl⟩ | rfl <;> (unfold NotInt; constructor <;> intro _ h <;> cases h)

/-- the integer-visitor step maps a non-integer conversion result to an error -/
theorem visit_notInt (ty : IntTy) (r : NRes) (h : NotInt r) : visitInt ty r = none := by
  unfold visitInt
  cases r with
  | u64 n => exact absurd rfl (h.1 n)
  | i64 k => exact absurd rfl (h.2 k)
  | _ => rfl

theorem conv_of_intClass_some (fr : Bool) (p : Parts) (hd : IsDigits p.int) (r : NRes)
    (h : intClass p = some r) : (if fr = true then convertRoundtrip p else convertDefault p) = r := by
  cases fr
  · simpa using convertDefault_of_intClass_some p hd r h
  · simpa using convertRoundtrip_of_intClass_some p r h

theorem conv_of_intClass_none (fr : Bool) (p : Parts) (hf : p.frac = none) (he : p.exp = none)
    (hd : IsDigits p.int) (h : intClass p = none) :
    NotInt (if fr = true then convertRoundtrip p else convertDefault p) := by
  cases fr
  · simpa using floatOrRange_notInt (convertDefault_of_intClass_none p hf he hd h)
  · simpa using floatOrRange_notInt (convertRoundtrip_of_intClass_none p h)

/-- no 8..64-bit range contains a value outside [i64::MIN, u64::MAX] -/
theorem small_range (ty : IntTy) (h : ty.is128 = false) (x : Int) (hr : inRange ty x = true) :
    -9223372036854775808 ≤ x ∧ x ≤ 18446744073709551615 := by
  cases ty <;> first
    | (simp [IntTy.is128] at h; done)
    | (simp [inRange, IntTy.lo, IntTy.hi] at hr
       obtain ⟨h1, h2⟩ := hr
       have h1 := of_decide_eq_true h1; have h2 := of_decide_eq_true h2; omega)

/-- **C06 (typed targets).** For every integer target type and every number literal whose integer
    part consists of digits: deserialisation from text succeeds with the literal's mathematical
    value exactly when the literal has no fraction/exponent, is not `-0` (8..64-bit targets), and
    the value lies in the target's range; it fails otherwise — it never wraps, truncates or
    saturates. Both float configurations. -/
theorem c06_typed (fr : Bool) (ty : IntTy) (p : Parts) (hd : IsDigits p.int) :
    deIntText fr ty p = specInt ty p := by
  cases h128 : ty.is128
  · -- 8..64-bit targets
    cases hfe : (p.frac.isSome || p.exp.isSome)
    · have hf : p.frac = none := by cases h : p.frac <;> simp_all
      have he : p.exp = none := by cases h : p.exp <;> simp_all
      have hu : ty ≠ .u128 := by intro h; rw [h] at h128; simp [IntTy.is128] at h128
      cases hneg : p.neg
      · -- non-negative literal
        by_cases hlt : natOfDigits p.int < 2 ^ 64
        · have hic : intClass p = some (.u64 (natOfDigits p.int)) := by
            simp [intClass, hf, he, hneg, hlt]
          have := conv_of_intClass_some fr p hd _ hic
          simp [deIntText, specInt, visitInt, h128, hfe, hneg, this]
        · have hic : intClass p = none := by simp [intClass, hf, he, hneg, hlt]
          have hv := visit_notInt ty _ (conv_of_intClass_none fr p hf he hd hic)
          simp only [deIntText, specInt, h128, hfe, hneg]
          simp only [Bool.false_eq_true, if_false]
          rw [hv]
          have hnr : inRange ty (natOfDigits p.int : Int) = false := by
            cases hr : inRange ty (natOfDigits p.int : Int)
            · rfl
            · have := small_range ty h128 _ hr; omega
          simp [hnr]
      · -- negative literal
        by_cases hz : natOfDigits p.int = 0
        · have hic : intClass p = none := by simp [intClass, hf, he, hneg, hz]
          have hv := visit_notInt ty _ (conv_of_intClass_none fr p hf he hd hic)
          simp only [deIntText, specInt, h128, hfe, hneg]
          simp only [Bool.false_eq_true, if_false]
          rw [hv]
          simp [hz]
        · by_cases hle : natOfDigits p.int ≤ 2 ^ 63
          · have hic : intClass p = some (.i64 (-(natOfDigits p.int : Int))) := by
              simp [intClass, hf, he, hneg, hz, hle]
            have := conv_of_intClass_some fr p hd _ hic
            simp [deIntText, specInt, visitInt, h128, hfe, hneg, this, hz, hu]
          · have hic : intClass p = none := by simp [intClass, hf, he, hneg, hz, hle]
            have hv := visit_notInt ty _ (conv_of_intClass_none fr p hf he hd hic)
            simp only [deIntText, specInt, h128, hfe, hneg]
            simp only [Bool.false_eq_true, if_false]
            rw [hv]
            have hnr : inRange ty (-(natOfDigits p.int : Int)) = false := by
              cases hr : inRange ty (-(natOfDigits p.int : Int))
              · rfl
              · have := small_range ty h128 _ hr; omega
            simp [hz, hu, hnr]
    · -- fraction or exponent present
      have hic : intClass p = none := by
        unfold intClass
        cases hf : p.frac <;> cases he : p.exp <;> simp_all
      have h1 := convertDefault_notInt p hfe
      have h2 := floatOrRange_notInt (convertRoundtrip_of_intClass_none p hic)
      have : visitInt ty (if fr = true then convertRoundtrip p else convertDefault p) = none := by
        cases fr
        · exact visit_notInt ty _ h1
        · exact visit_notInt ty _ h2
      simp only [deIntText, specInt, h128, hfe]
      simp only [Bool.false_eq_true, if_false]
      rw [this]
      simp
  · -- 128-bit targets: the digit scan + str::parse
    simp [deIntText, specInt, h128]

/-- **C06 (accessors).** `as_i64/as_u64/as_i128/as_u128` return the exact integer held, or `None`
    exactly when it does not fit (or the number is a float); `is_i64`/`is_u64` are true exactly
    when the matching `as_*` is `Some`. (`NegInt` always holds a negative i64 — `WFNum`.) -/
def WFNum : Num → Prop
  | .pos n => n < 2 ^ 64
  | .neg k => -(2 ^ 63 : Int) ≤ k ∧ k < 0
  | _ => True

theorem inRange_iff (ty : IntTy) (x : Int) : inRange ty x = true ↔ ty.lo ≤ x ∧ x ≤ ty.hi := by
  unfold inRange
  constructor
  · intro h
    simp only [Bool.and_eq_true] at h
    exact ⟨of_decide_eq_true h.1, of_decide_eq_true h.2⟩
  · intro h
    simp only [Bool.and_eq_true]
    exact ⟨decide_eq_true h.1, decide_eq_true h.2⟩

theorem c06_accessors (n : Num) (hwf : WFNum n) :
    (∀ x, asI64 n = some x ↔ exactInt n = some x ∧ inRange .i64 x = true) ∧
    (∀ x, asU64 n = some x ↔ exactInt n = some x ∧ inRange .u64 x = true) ∧
    (∀ x, asI128 n = some x ↔ exactInt n = some x) ∧
    (∀ x, asU128 n = some x ↔ exactInt n = some x ∧ 0 ≤ x) ∧
    (isI64 n = (asI64 n).isSome) ∧ (isU64 n = (asU64 n).isSome) := by
  cases n with
  | pos k =>
    simp only [WFNum] at hwf
    refine ⟨fun x => ?_, fun x => ?_, fun x => ?_, fun x => ?_, ?_, ?_⟩
    · simp only [asI64, exactInt, inRange_iff, IntTy.lo, IntTy.hi]
      by_cases h : k ≤ 9223372036854775807
      · simp only [h, if_true, Option.some.injEq]
        constructor
        · intro hx; subst hx; exact ⟨rfl, by omega, by omega⟩
        · intro hx; exact hx.1
      · simp only [h, if_false]
        constructor
        · intro hx; cases hx
        · intro hx; obtain ⟨h1, h2, h3⟩ := hx; simp at h1; omega
    · simp only [asU64, exactInt, inRange_iff, IntTy.lo, IntTy.hi, Option.some.injEq]
      constructor
      · intro hx; subst hx; exact ⟨rfl, by omega, by omega⟩
      · intro hx; exact hx.1
    · simp [asI128, exactInt]
    · simp only [asU128, exactInt, Option.some.injEq]
      constructor
      · intro hx; subst hx; exact ⟨rfl, by omega⟩
      · intro hx; exact hx.1
    · simp only [isI64, asI64]; split <;> simp_all
    · simp [isU64, asU64]
  | neg k =>
    simp only [WFNum] at hwf
    refine ⟨fun x => ?_, fun x => ?_, fun x => ?_, fun x => ?_, ?_, ?_⟩
    · simp only [asI64, exactInt, inRange_iff, IntTy.lo, IntTy.hi, Option.some.injEq]
      constructor
      · intro hx; subst hx; exact ⟨rfl, by omega, by omega⟩
      · intro hx; exact hx.1
    · simp only [asU64, exactInt, inRange_iff, IntTy.lo, IntTy.hi, Option.some.injEq]
      constructor
      · intro hx; cases hx
      · intro hx; obtain ⟨h1, h2, h3⟩ := hx; subst h1; omega
    · simp [asI128, exactInt]
    · simp only [asU128, exactInt, Option.some.injEq]
      constructor
      · intro hx; cases hx
      · intro hx; obtain ⟨h1, h2⟩ := hx; subst h1; omega
    · simp [isI64, asI64]
    · simp [isU64, asU64]
  | float b => simp [asI64, asU64, asI128, asU128, isI64, isU64, exactInt]
  | lit s => simp [asI64, asU64, asI128, asU128, isI64, isU64, exactInt]

end SJ.Props.C06
