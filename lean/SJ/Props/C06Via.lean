import SJ.Proofs.ViaValueKey
/-!
# C06 — integers are exact and range-checked, on every path

`C06.lean` has the typed text target at the level of the conversion (`c06_typed`) and the accessors of the
default `Number`; `C06Int.lean` the parser-level integer theorems. Here: the five access paths of the statement
— text, via `Value` (owned and borrowed), quoted key of a text object, key of a `Value` object — on every number
literal and every integer width, in the default build (`c06_via_value`) and under `arbitrary_precision`
(`c06_via_value_ap_partial`, with the one exception that is an open finding made explicit and witnessed).
Models: `Model.Typed` (src/de.rs typed entry points), `Model.Machine` (the `Value` parser), `Model.FromValue`
(src/value/de.rs, src/number.rs), projected by `Model.ViaValue`; specification `Spec.NumberAcc`.
(A separate file because `SJ.IntTy` of the typed universe and `SJ.Model.TypedInt.IntTy` of `C06.lean` share a name.)
-/

namespace SJ.Props.C06
open SJ SJ.Model SJ.Model.ViaValue SJ.Spec.NumberAcc SJ.Proofs.ViaValue
open SJ.Spec.Grammar (NumParts)
open SJ.Proofs.NumLinkParser (litOf)

/-- **C06 (all paths, default build).** For every number literal `p` of the RFC 8259 grammar (any spelling:
    integer literals of any length, `-0`, fraction / exponent spellings), every integer width `w` (8 to 128 bits,
    signed or unsigned), every input source and both float configurations, with `l` the literal as the
    specification reads it (`Spec.Decimal.NumLit`) and `targetInt w l` the statement's verdict (the mathematical
    value when `l` has no fraction/exponent, is not `-0` for the 8–64-bit targets, and lies in `w`'s range;
    nothing otherwise):

    * `from_str::<w>(lit)` (`Model.Typed.deTypedTop`) returns `targetInt w l`;
    * `lit` as a quoted key of a text object (`MapKey::deserialize_iN`, `Model.Typed.keyInt`, followed by any
      `rest`) returns `targetInt w l` and leaves exactly `rest` unread;
    * `lit` as a key of a `Value` object (`MapKeyDeserializer`, `Model.FromValue.keyInt`) returns `targetInt w l`;
    * whenever `from_str::<Value>(lit)` yields a `Value` `v` (`Model.Machine.parseTop`), `from_value::<w>(v)` and
      `w::deserialize(&v)` agree, and equal `targetInt w l` — for the 128-bit targets provided the `Value` can hold
      the literal as an integer (`representable`: not `-0`, within `[i64::MIN, u64::MAX]`) or the literal is no
      integer literal; otherwise (a 128-bit target on `-0` or on an integer beyond that range, which the `Value`
      stores as a float) `from_value` returns nothing — the statement's "only literals beyond [i64::MIN, u64::MAX]
      turn into floats in an untyped Value".

    So all paths return the same integer or all reject; none wraps, truncates or saturates. -/
theorem c06_via_value (cfg : Machine.Cfg) (hap : cfg.ap = false) (src : Machine.Src) (ext : FromValue.Ext)
    (w : IntTy) (p : NumParts) (hwf : p.WF = true) :
    textInt cfg src w p.bytes = targetInt w (litOf p) ∧
    (∀ rest pos, textKeyInt cfg src w p.bytes rest pos =
        (targetInt w (litOf p)).map fun x => (x, rest, pos + p.bytes.length + 2)) ∧
    valueKeyInt w p.bytes = targetInt w (litOf p) ∧
    (∀ v, valueOf cfg src p.bytes = some v →
      viaValueRefInt cfg ext w v = viaValueInt cfg ext w v ∧
      ((w.bits ≤ 64 ∨ isIntLit (litOf p) = false ∨ representable (litOf p) = true) →
        viaValueInt cfg ext w v = targetInt w (litOf p)) ∧
      (¬ w.bits ≤ 64 → isIntLit (litOf p) = true → representable (litOf p) = false →
        viaValueInt cfg ext w v = none)) := by
  refine ⟨textInt_lit cfg src w p hwf, fun rest pos => textKeyInt_lit cfg src w p hwf rest pos,
    valueKeyInt_lit w p hwf, ?_⟩
  intro v hv
  rw [valueOf_eq cfg src p hwf] at hv
  cases hn : Spec.Canon.numOf (SJ.Proofs.CanonM.specCfg cfg) p with
  | none => rw [hn] at hv; cases hv
  | some x =>
    rw [hn] at hv
    simp only [Option.map_some, Option.some.injEq] at hv
    subst hv
    have hvia := viaValue_default cfg hap ext w p hwf x hn
    rw [visitClass_partsOf w p hwf] at hvia
    refine ⟨viaValueRef_eq cfg ext w _, ?_, ?_⟩
    · intro h
      rw [hvia]
      cases hil : isIntLit (litOf p) with
      | false => rw [target_of_float w _ hil]; rfl
      | true =>
        simp only [if_true]
        have := visitClass_target w (litOf p) hil (by
          rcases h with h | h | h
          · exact .inl h
          · rw [hil] at h; cases h
          · exact .inr h)
        rw [SJ.Proofs.NumLinkParser.litOf_neg, SJ.Proofs.NumLinkParser.litOf_int] at this
        exact this
    · intro _ hil hrep
      rw [hvia, hil]
      simp only [if_true]
      have := visitClass_unrepresentable w (litOf p) hil hrep
      rw [SJ.Proofs.NumLinkParser.litOf_neg, SJ.Proofs.NumLinkParser.litOf_int] at this
      exact this

/-- non-vacuity of `c06_via_value` and of its 128-bit proviso (Bool tests evaluated by the kernel):
    `255` / `256` into `u8` on every path; `18446744073709551616` (2^64) into `u128`: text and keys give the
    value, the `Value` holds a float and `from_value` rejects. -/
example : (textInt {} .str .u8 [0x32, 0x35, 0x35] == some 255 && textInt {} .str .u8 [0x32, 0x35, 0x36] == none &&
    valueKeyInt .u8 [0x32, 0x35, 0x35] == some 255 && valueKeyInt .u8 [0x32, 0x35, 0x36] == none &&
    (textKeyInt {} .str .u8 [0x32, 0x35, 0x35] [0x3a] 1 == some (255, [0x3a], 6)) &&
    ((valueOf {} .str [0x32, 0x35, 0x35]).map (viaValueInt {} {} .u8) == some (some 255)) &&
    ((valueOf {} .str [0x32, 0x35, 0x36]).map (viaValueInt {} {} .u8) == some none)) = true := by decide +kernel
example : (textInt {} .str .u128 [0x31,0x38,0x34,0x34,0x36,0x37,0x34,0x34,0x30,0x37,0x33,0x37,0x30,0x39,0x35,0x35,0x31,0x36,0x31,0x36]
      == some 18446744073709551616 &&
    ((valueOf {} .str [0x31,0x38,0x34,0x34,0x36,0x37,0x34,0x34,0x30,0x37,0x33,0x37,0x30,0x39,0x35,0x35,0x31,0x36,0x31,0x36]).map
      (viaValueInt {} {} .u128) == some none)) = true := by decide +kernel
/-- `-0` and `1.0` are no integers for `i8` on any path of the default build; `-0` is the integer 0 for `i128` from text -/
example : (textInt {} .str .i8 [0x2d, 0x30] == none && valueKeyInt .i8 [0x2d, 0x30] == none &&
    ((valueOf {} .str [0x2d, 0x30]).map (viaValueInt {} {} .i8) == some none) &&
    textInt {} .str .i8 [0x31, 0x2e, 0x30] == none && valueKeyInt .i8 [0x31, 0x2e, 0x30] == none &&
    textInt {} .str .i128 [0x2d, 0x30] == some 0) = true := by decide +kernel

/-- **C06 (all paths, `arbitrary_precision`) — PARTIAL.** Text, quoted key and `Value`-object key are as in the
    default build (`targetInt w l`; the typed text path does not consult the feature). `from_str::<Value>(lit)`
    keeps the literal (`c20_verbatim`), and `from_value::<w>` / `w::deserialize(&v)` return `accInt w l` =
    `lit.parse::<w>()` — for EVERY width, 128 bits included, since nothing is lost in the `Value`. That is
    `targetInt w l` in all cases but one:

    **missing / false on the pinned tree:** the literal `-0` into a signed 8–64-bit target (`i8 i16 i32 i64`).
    The statement (and every other path) rejects it — `-0` is the float negative zero — but
    `"-0".parse::<iN>()` is `Ok(0)`, so `from_value` returns `0` (last conjunct; open known finding
    `C06-ap-negative-zero-via-value`, witness `c06_ap_negative_zero_via_value` below). -/
theorem c06_via_value_ap_partial (cfg : Machine.Cfg) (hap : cfg.ap = true) (src : Machine.Src) (ext : FromValue.Ext)
    (w : IntTy) (p : NumParts) (hwf : p.WF = true) :
    textInt cfg src w p.bytes = targetInt w (litOf p) ∧
    (∀ rest pos, textKeyInt cfg src w p.bytes rest pos =
        (targetInt w (litOf p)).map fun x => (x, rest, pos + p.bytes.length + 2)) ∧
    valueKeyInt w p.bytes = targetInt w (litOf p) ∧
    valueOf cfg src p.bytes = some (.num (.lit p.bytes)) ∧
    viaValueRefInt cfg ext w (.num (.lit p.bytes)) = viaValueInt cfg ext w (.num (.lit p.bytes)) ∧
    viaValueInt cfg ext w (.num (.lit p.bytes)) = accInt w (litOf p) ∧
    (¬ (w.bits ≤ 64 ∧ w.signed = true ∧ isNegZero (litOf p) = true) →
      viaValueInt cfg ext w (.num (.lit p.bytes)) = targetInt w (litOf p)) ∧
    ((w.bits ≤ 64 ∧ w.signed = true ∧ isNegZero (litOf p) = true) →
      viaValueInt cfg ext w (.num (.lit p.bytes)) = some 0 ∧ targetInt w (litOf p) = none) := by
  have hvia := viaValue_ap cfg hap ext w p hwf
  refine ⟨textInt_lit cfg src w p hwf, fun rest pos => textKeyInt_lit cfg src w p hwf rest pos,
    valueKeyInt_lit w p hwf, ?_, viaValueRef_eq cfg ext w _, hvia, ?_, ?_⟩
  · rw [valueOf_eq cfg src p hwf]
    simp [Spec.Canon.numOf, SJ.Proofs.CanonM.specCfg, hap]
  · intro hex
    rw [hvia]
    unfold targetInt
    cases hb : (decide (w.bits ≤ 64) && isNegZero (litOf p)) with
    | false => simp
    | true =>
      simp only [Bool.and_eq_true, decide_eq_true_eq] at hb
      simp only [if_true]
      -- then `w` is unsigned, and the unsigned accessor rejects the minus sign
      have hs : w.signed = false := by
        cases h : w.signed
        · rfl
        · exact absurd ⟨hb.1, h, hb.2⟩ hex
      have hneg : (litOf p).neg = true := by
        have := hb.2; unfold isNegZero at this
        simp only [Bool.and_eq_true] at this; exact this.1.2
      have hil : isIntLit (litOf p) = true := by
        have := hb.2; unfold isNegZero at this
        simp only [Bool.and_eq_true] at this; exact this.1.1
      unfold accInt
      simp [hil, hneg, hs]
  · rintro ⟨hw, hs, hz⟩
    rw [hvia]
    have hz' := hz
    unfold isNegZero at hz'
    simp only [Bool.and_eq_true, beq_iff_eq] at hz'
    obtain ⟨⟨hil, hneg⟩, h0⟩ := hz'
    constructor
    · unfold accInt intVal
      have hr : w.inRange 0 = true := by cases w <;> first | (simp [IntTy.signed] at hs; done) | decide
      simp [hil, hneg, hs, h0, hr]
    · unfold targetInt
      simp [hw, hz]

/-- **the exception is real** (kernel-evaluated on the models; replayed on the crate by op `int`,
    known finding `C06-ap-negative-zero-via-value`): under `arbitrary_precision` the literal `-0` is rejected by
    `from_str::<i8>` and as a key, but `from_value::<i8>(from_str::<Value>("-0"))` is `Ok(0)`. -/
theorem c06_ap_negative_zero_via_value :
    (textInt { ap := true } .str .i8 [0x2d, 0x30] == none &&
     valueKeyInt .i8 [0x2d, 0x30] == none &&
     (valueOf { ap := true } .str [0x2d, 0x30]).map (viaValueInt { ap := true } {} .i8) == some (some 0) &&
     (valueOf { ap := true } .str [0x2d, 0x30]).map (viaValueRefInt { ap := true } {} .i64) == some (some 0) &&
     (valueOf { ap := true } .str [0x2d, 0x30]).map (viaValueInt { ap := true } {} .u8) == some none) = true := by
  decide +kernel

/-- non-vacuity under `arbitrary_precision`: 2^64 into `u128` now survives the `Value` too -/
example : ((valueOf { ap := true } .str [0x31,0x38,0x34,0x34,0x36,0x37,0x34,0x34,0x30,0x37,0x33,0x37,0x30,0x39,0x35,0x35,0x31,0x36,0x31,0x36]).map
      (viaValueInt { ap := true } {} .u128) == some (some 18446744073709551616)) = true := by decide +kernel

end SJ.Props.C06
