import SJ.Proofs.LexTables
import SJ.Proofs.LexCorrect
import SJ.Proofs.LexTopParser
import SJ.Proofs.LexTopF32
import SJ.Proofs.LexMathTotal
import SJ.Proofs.LexMathKara
import SJ.Proofs.TypedFloatLink
/-!
# C07 — float_roundtrip: decimal → float conversion is correctly rounded

Layered as in DESIGN §6 C07. Model: `SJ.Model.Lexical` (lexical + the `float_roundtrip` integration of
`de.rs`), specification: `Spec.Ieee.roundNE64` / `Spec.Ieee.roundNE32` of the literal's exact value.
-/
namespace SJ.Props.C07
open SJ SJ.Gen SJ.Proofs.LexTables SJ.Model.Num SJ.Model.Lexical SJ.Spec.Ieee
open SJ.Proofs.LexSplit SJ.Proofs.LexRound SJ.Proofs.LexBh SJ.Proofs.LexFast SJ.Proofs.LexCorrect SJ.Proofs.NumInt
open SJ.Proofs.LexModerateOk SJ.Proofs.LexTopBh SJ.Proofs.LexTopParse SJ.Proofs.LexTopFloat SJ.Proofs.LexTopSpec
open SJ.Proofs.LexTopRoundtrip SJ.Proofs.LexTopParser
open SJ.Proofs.NumLink (toNumLit)

/-- **cached_power_accuracy.** What holds for the extracted 80-bit cached powers, stated exactly: the ten
    small powers `10^0 … 10^9` are *exact* (`mant · 2^exp = 10^i`) and agree with the integer table; each
    of the 66 large powers `10^(-350 + 10·i)` is the *truncated* normalised 64-bit image,
    `mant · 2^exp ≤ 10^k < (mant + 1) · 2^exp` with `2^63 ≤ mant < 2^64` (they are not rounded to nearest:
    38 of the 66 differ from the nearest value); `BASE10_STEP = 10`, `BASE10_BIAS = 350`. -/
theorem c07_cached_power_accuracy :
    (∀ i ∈ List.range 10,
      Exactly (base10SmallMantissa.getD i 0) (base10SmallExponent.getD i 0) i ∧
      2 ^ 63 ≤ base10SmallMantissa.getD i 0 ∧ base10SmallMantissa.getD i 0 < 2 ^ 64 ∧
      base10SmallIntPowers.getD i 0 = 10 ^ i) ∧
    (∀ i ∈ List.range 66,
      Brackets (base10LargeMantissa.getD i 0) (base10LargeExponent.getD i 0) (-350 + 10 * (i : Int)) ∧
      2 ^ 63 ≤ base10LargeMantissa.getD i 0 ∧ base10LargeMantissa.getD i 0 < 2 ^ 64) ∧
    base10LargeMantissa.length = 66 ∧ base10LargeExponent.length = 66 ∧ base10Step = 10 ∧ base10Bias = 350 :=
  ⟨small_powers_exact, large_powers_truncated, lengths.2.2.2.1, lengths.2.2.2.2.1, lengths.2.2.2.2.2.1, lengths.2.2.2.2.2.2.1⟩

/-- non-vacuity: the entry for `10^-230` (index 12), the one behind known finding C07-moderate-truncated -/
example : Brackets 17899314949046850752 (-828) (-230) := by decide +kernel

/-- **small tables.** `POW10_64[i] = 10^i`, `POW5_64[i] = 5^i`, `large_powers64::POW5[i] = 5^(2^i)` (limbs
    assembled), `F64_POW10[i] = 10^i` (`i ≤ 22`), `F32_POW10[i] = 10^i` (`i ≤ 10`). -/
theorem c07_power_tables :
    (∀ i ∈ List.range 20, pow10_64.getD i 0 = 10 ^ i) ∧ (∀ i ∈ List.range 28, pow5_64.getD i 0 = 5 ^ i) ∧
    (∀ i ∈ List.range 14, largePow5.getD i 0 = 5 ^ (2 ^ i)) ∧
    (∀ i ∈ List.range 23, f64Pow10.getD i 0 = 10 ^ i) ∧ (∀ i ∈ List.range 11, f32Pow10.getD i 0 = 10 ^ i) :=
  ⟨pow10_64_correct, pow5_64_correct, large_pow5_correct, f64_pow10_correct, f32_pow10_correct⟩

example : largePow5.getD 5 0 = 5 ^ 32 := by decide +kernel

/-! ## (i) the integration: what `de.rs` hands to lexical denotes the literal exactly -/

/-- **c07_split.** For every well-formed number literal, the leaf of `parse_integer` / `parse_decimal` /
    `parse_decimal_overflow` / `parse_long_integer/decimal/exponent` that is reached, and the arguments it passes
    (significand and exponent, or the scratch buffer split at `integer_end` and the exponent, or the
    exponent-overflow flags, or the integer classification) denote exactly the literal's digits `litN p` and
    decimal exponent `litE p` (`|literal| = litN p · 10^(litE p)`, the quantities `Model.Num.exact` is made of). -/
theorem c07_split (single : Bool) (p : Parts) (wf : WF p) : Presents single p (deCall single p) :=
  deCall_presents single p wf

/-- non-vacuity: `12345678901234567890.5e-3` goes through `parse_long_integer`/`parse_long_decimal`/`parse_long_exponent`:
    integer part `1844674407370955161` re-printed plus the overflowing digit, fraction `5`, exponent `-3` -/
example : deCall false (Parts.mk false [0x31,0x32,0x33,0x34,0x35,0x36,0x37,0x38,0x39,0x30,0x31,0x32,0x33,0x34,0x35,0x36,0x37,0x38,0x39,0x30]
      (some [0x35]) (some (true, [0x33])) []) =
    .truncated [0x31,0x32,0x33,0x34,0x35,0x36,0x37,0x38,0x39,0x30,0x31,0x32,0x33,0x34,0x35,0x36,0x37,0x38,0x39,0x30] [0x35] (-3) := by
  decide +kernel

/-! ## (iii) the fast path -/

/-- **c07_fast_path_exact.** Whenever `fast_path` answers (for `f64` and for `f32`), the answer is the bit pattern
    of the value nearest to `mantissa · 10^exponent`, ties to even (`roundDec`): the mantissa is converted exactly and
    one correctly rounded IEEE multiplication or division by an exactly representable power of ten follows. -/
theorem c07_fast_path_exact (single : Bool) (m : Nat) (e : Int) (r : Nat) (h : fastPath single m e = some r) :
    r = roundDec (fmtOf single) m e := fastPath_exact single m e r h

/-- non-vacuity: `123e-2` is decided by the fast path, to `0x3ff3ae147ae147ae` -/
example : fastPath false 123 (-2) = some 0x3ff3ae147ae147ae := by decide +kernel

/-! ## `into_float` is IEEE round-to-nearest-even -/

/-- **c07_into_float_rne.** `ExtendedFloat::into_float` (normalise, `round_to_float` with `round_nearest_tie_even`,
    carry, `avoid_overflow`, pack) returns the pattern nearest to the extended value `mant · 2^exp`, ties to even,
    infinity on overflow — for every non-zero 64-bit mantissa, both formats; `into_downward_float` rounds toward zero. -/
theorem c07_into_float_rne (single : Bool) (fp : ExtFloat) (h0 : 0 < fp.mant) (h64 : fp.mant < 2 ^ 64) :
    intoFloat (fc single) fp =
        clampInf (fmtOf single) (roundMag (fmtOf single) (sNum (fmtOf single) fp.mant fp.exp) (sDen (fmtOf single) fp.exp)) ∧
    intoDownwardFloat (fc single) fp =
        clampInf (fmtOf single) (floorMag (fmtOf single) (sNum (fmtOf single) fp.mant fp.exp) (sDen (fmtOf single) fp.exp)) :=
  ⟨intoFloat_eq_roundMag (fcokOf single) fp h0 h64, intoDownwardFloat_eq_floorMag (fcokOf single) fp h0 h64⟩

example : intoFloat f64Consts { mant := 2 ^ 63 + 2 ^ 10, exp := -63 } = 0x3ff0000000000000 := by decide +kernel

/-! ## (iv) the big-integer slow path -/

/-- **c07_bhcomp_exact.** With `Bigint` as `Nat`: for digit strings `integer`, `fraction` (no leading zero in
    `integer`, value non-zero, lengths and exponent below `2^30`), a finite `b` in whose neighbourhood the decimal
    value lies (`NearBelow`: strictly between the midpoint below `b` and the midpoint above `b + 1`), `bhcomp` returns
    the correctly rounded value — `large_atof` (exact integer, one rounding with a sticky flag) or `small_atof`
    (comparison with `b + h`), including the truncation to `MAX_DIGITS - 1` digits plus a sticky digit, justified by
    `2^(mbits+2) · 5^(qexp+1) < 10^(MAX_DIGITS-1)` (no midpoint has more significant digits), and including the case
    that every dropped digit is `0` (then no sticky digit is added — the repair of finding C07-zero-tail — and the
    mantissa `D·10` at `scaled_exponent` is the same rational as the literal). -/
theorem c07_bhcomp_exact (single : Bool) (integer fraction : Bytes) (hdi : IsDigits integer) (hdf : IsDigits fraction)
    (hhead : ∀ d r, integer = d :: r → d ≠ 0x30) (hpos : 0 < natOfDigits (integer ++ fraction)) (exponent : Int)
    (hexp1 : -(2 ^ 30 : Int) < exponent) (hexp2 : exponent < 2 ^ 30)
    (hlen : integer.length + fraction.length < 2 ^ 30) (b : Nat) (hb : b < (fmtOf single).infBits)
    (hnear : NearBelow (fmtOf single) b (dNum (fmtOf single) (natOfDigits (integer ++ fraction)) (exponent - fraction.length))
      (dDen (exponent - fraction.length))) :
    bhcomp (fc single) b integer fraction exponent =
      roundDec (fmtOf single) (natOfDigits (integer ++ fraction)) (exponent - fraction.length) :=
  bhcomp_ok (fcokOf single) integer fraction hdi hdf hhead hpos exponent hexp1 hexp2 hlen b hb hnear

/-- non-vacuity of the digit-count fact behind the truncation: binary64 and binary32 -/
example : 2 ^ 54 * 5 ^ 1075 < 10 ^ 768 ∧ 2 ^ 25 * 5 ^ 150 < 10 ^ 113 := by decide +kernel

/-! ## (v) the moderate path -/

/-- **c07_moderate_path_sound.** For every call of `moderate_path(w, me, truncated)` lexical makes — `0 < w < 2^64` the
    mantissa, `j` digits of value `r < 10^j` cut off (`r = 0` unless `truncated`; digits are cut only at a `u64`
    overflow, so `r ≠ 0 → 2^64 ≤ 11·w`), `me` the mantissa exponent computed for the true exponent `e0` (equal, or
    both saturated below `-350` / from `310` on) — the three facts `ModerateOk` the composition needs:

    * `sound`: if `error_is_accurate` accepts the extended product (mantissa × exact small power × truncated large
      cached power, `mul` = `⌊(a·b + 2^63) / 2^64⌋`, errors booked: `error_scale()` for a truncated mantissa — the repair
      of finding C07-moderate-truncated —, `error_halfscale()` per rounded multiplication, `+1`, shifted by the final
      normalisation), then `into_float` of it is the correctly rounded exact decimal;
    * `near`: if it rejects and the downward-rounded product `b` is finite, the exact decimal lies strictly between the
      midpoint below `b` and the midpoint above `b + 1` — what `bhcomp` assumes of `b`;
    * `special`: if it rejects and `b` is infinite, the exact decimal rounds to infinity as well;

    and the two early exits (`exponent + bias < 0` ⇒ `0`, `large_index ≥ 66` ⇒ `∞`) are correct. Both formats.
    The key quantitative fact (`LexModerate.moderate_main`): the true mantissa is *strictly* within the booked number of
    units (`4 ≤ err ≤ 68 < 2^(63−mbits)/4`) of the returned one. -/
theorem c07_moderate_path_sound (single : Bool) (w j r : Nat) (me e0 : Int) (t : Bool) (hw0 : 0 < w) (hw : w < 2 ^ 64)
    (hr : r < 10 ^ j) (hbig : r ≠ 0 → 2 ^ 64 ≤ 11 * w) (hexact : t = false → r = 0)
    (hme : (me < -350 ∧ e0 < -350) ∨ (310 ≤ me ∧ 310 ≤ e0) ∨ me = e0) :
    ModerateOk (fc single) (fmtOf single) w me t (w * 10 ^ j + r) (e0 - j) :=
  moderate_ok single w j r me e0 t hw0 hw hr hbig hexact hme

/-- non-vacuity, on the literal of finding C07-moderate-truncated (`2305843009213660156999999999999e-242`: mantissa
    `2305843009213660156`, 12 digits cut, mantissa exponent `-230`): with `error_scale()` booked the estimate is
    rejected and bhcomp decides; the result is the correctly rounded `0x13ff0ce48391985b` -/
example : (moderatePath f64Consts 2305843009213660156 (-230) true).2 = false ∧
    parseTruncatedFloat false [0x32,0x33,0x30,0x35,0x38,0x34,0x33,0x30,0x30,0x39,0x32,0x31,0x33,0x36,0x36,0x30,0x31,0x35,0x36,
      0x39,0x39,0x39,0x39,0x39,0x39,0x39,0x39,0x39,0x39,0x39,0x39] [] (-242) = 0x13ff0ce48391985b := by decide +kernel

/-- **c07_parse_exact.** The two entry points of lexical are correctly rounded for every argument `de.rs` can pass:
    `parse_concise_float(m, e)` = nearest to `m · 10^e`; `parse_truncated_float(integer, fraction, e)` = nearest to
    the digits' value `· 10^(e − |fraction|)` (fast path, moderate path, bhcomp composed). Both formats. -/
theorem c07_parse_exact (single : Bool) :
    (∀ (m : Nat) (e : Int), m < 2 ^ 64 → parseConciseFloat single m e = roundDec (fmtOf single) m e) ∧
    (∀ (integer fraction : Bytes) (e : Int), IsDigits integer → IsDigits fraction →
      (∀ d r, integer = d :: r → d ≠ 0x30) → 0 < natOfDigits (integer ++ fraction) →
      integer.length + fraction.length < 2 ^ 29 → -(2 ^ 31 : Int) < e → e < 2 ^ 31 →
      parseTruncatedFloat single integer fraction e =
        roundDec (fmtOf single) (natOfDigits (integer ++ fraction)) (e - fraction.length)) :=
  ⟨fun m e hm => parseConcise_ok single m e hm,
   fun integer fraction e hdi hdf hh hpos hlen he1 he2 => parseTruncated_ok single integer fraction e hdi hdf hh hpos hlen he1 he2⟩

example : parseConciseFloat true 16777217 0 = 0x4b800000 := by decide +kernel

/-! ## (vi) the composition -/

/-- **c07_correct.** For every well-formed literal of fewer than `2^29 - 20` digits (the documented digit-count
    bound: beyond `2^31` digits the `i32` exponent arithmetic of `exponent.rs` saturates) and both targets:
    `deFloatRoundtrip false p` — `de.rs`'s digit collection followed by `parse_concise_float` / `parse_truncated_float`
    (fast path, moderate path, bhcomp) and `de.rs`'s infinity check and sign — equals `Model.Num.convertRoundtrip p`
    (the conversion the byte machine uses under `float_roundtrip`): integers classified, otherwise the binary64 nearest
    to the exact value with ties to even, the sign kept (including `-0.0`), underflow to `±0`, `NumberOutOfRange` iff the
    rounded value is not finite, and the exponent-overflow rule; `deFloatRoundtrip true p` (`single_precision`, set by
    `deserialize_f32`) equals `convertRoundtripSingle p`: the same with binary32 rounding, handed on exactly widened.
    No hypothesis beyond well-formedness of the parts and the digit-count bound. -/
theorem c07_correct (p : Parts) (wf : WF p) (hlen : (p.int ++ p.frac.getD []).length + 20 < 2 ^ 29) :
    deFloatRoundtrip false p = convertRoundtrip p ∧ deFloatRoundtrip true p = convertRoundtripSingle p :=
  ⟨by rw [deFloat_eq false p wf hlen, specG_false], by rw [deFloat_eq true p wf hlen, specG_true]⟩

/-- non-vacuity: `0.5` (fast path), and the witness of finding C07-f32-negint, `-9223372586610589697` as `f32`:
    `0xdf000001` widened (the pinned tree returned `0xdf000000`) -/
example : deFloatRoundtrip false (Parts.mk false [0x30] (some [0x35]) none []) = .f64 0x3fe0000000000000 ∧
    deFloatRoundtrip true (Parts.mk true [0x39,0x32,0x32,0x33,0x33,0x37,0x32,0x35,0x38,0x36,0x36,0x31,0x30,0x35,0x38,0x39,0x36,0x39,0x37]
      none none []) = .f64 (F32.toF64 0xdf000001) := by decide +kernel

/-- **c07_nearest_even** (the statement in the standard's words, against the independent specification
    `Spec.Decimal` / `Spec.Ieee`). For a well-formed literal on the float path (`intClass p = none`: it has a fraction
    or an exponent, or is an integer beyond `u64`/`i64`, or `-0`) whose exponent digits pass the `i32` guard, with
    `num/den = (toNumLit p).exact` its exact value:
    * unless `num/den` overflows (`≥ 2^1024 − 2^970`), the `f64` result is *the* IEEE round-to-nearest-even image
      (`IsNearestEven64`: finite, sign = the literal's sign — `-0.0` and `-1e-400` included —, no other double closer,
      even significand on a tie), and if it overflows the literal is rejected (`NumberOutOfRange`): rejected exactly when
      the nearest value would be infinite;
    * likewise for an `f32` target with `IsNearestEven32` / `Overflows32` (`≥ 2^128 − 2^103`), the value handed on being
      the exact widening. -/
theorem c07_nearest_even (p : Parts) (wf : WF p) (hlen : (p.int ++ p.frac.getD []).length + 20 < 2 ^ 29)
    (hic : intClass p = none) (hfit : ExpFits p) :
    (¬ Overflows64 (toNumLit p).exact.1 (toNumLit p).exact.2 →
      ∃ r, deFloatRoundtrip false p = .f64 r ∧ IsNearestEven64 p.neg (toNumLit p).exact.1 (toNumLit p).exact.2 r) ∧
    (Overflows64 (toNumLit p).exact.1 (toNumLit p).exact.2 → deFloatRoundtrip false p = .outOfRange) ∧
    (¬ Overflows32 (toNumLit p).exact.1 (toNumLit p).exact.2 →
      ∃ r, deFloatRoundtrip true p = .f64 (F32.toF64 r) ∧ IsNearestEven32 p.neg (toNumLit p).exact.1 (toNumLit p).exact.2 r) ∧
    (Overflows32 (toNumLit p).exact.1 (toNumLit p).exact.2 → deFloatRoundtrip true p = .outOfRange) := by
  have hden : 0 < (toNumLit p).exact.2 := by rw [exact_eq_scale]; exact scale10_den_pos _ _
  obtain ⟨a1, a2⟩ := SJ.Proofs.Ieee.roundNE64_correct p.neg _ _ hden
  obtain ⟨b1, b2⟩ := SJ.Proofs.Ieee.roundNE32_correct p.neg _ _ hden
  rw [deFloat64_nearest p wf hlen hic hfit, deFloat32_nearest p wf hlen hic hfit]
  refine ⟨fun h => ?_, fun h => ?_, fun h => ?_, fun h => ?_⟩
  · obtain ⟨r, hr, hn⟩ := a1 h; exact ⟨r, by rw [hr], hn⟩
  · rw [a2 h]
  · obtain ⟨r, hr, hn⟩ := b1 h; exact ⟨r, by rw [hr], hn⟩
  · rw [b2 h]

/-- non-vacuity: `-0.0` and `-1e-400` are `-0.0` (`0x8000000000000000`), `1e400` is rejected, for both targets -/
example :
    deFloatRoundtrip false (Parts.mk true [0x30] (some [0x30]) none []) = .f64 0x8000000000000000 ∧
    deFloatRoundtrip false (Parts.mk true [0x31] none (some (true, [0x34,0x30,0x30])) []) = .f64 0x8000000000000000 ∧
    deFloatRoundtrip true (Parts.mk true [0x31] none (some (true, [0x34,0x30,0x30])) []) = .f64 0x8000000000000000 ∧
    deFloatRoundtrip false (Parts.mk false [0x31] none (some (false, [0x34,0x30,0x30])) []) = .outOfRange ∧
    deFloatRoundtrip true (Parts.mk false [0x31] none (some (false, [0x34,0x30])) []) = .outOfRange := by decide +kernel

/-- **c07_underflow.** A float-path literal whose exact value is below half the least subnormal (`2^-1075`, resp.
    `2^-150` for `f32`) gives `±0` with the literal's sign. -/
theorem c07_underflow (p : Parts) (wf : WF p) (hlen : (p.int ++ p.frac.getD []).length + 20 < 2 ^ 29)
    (hic : intClass p = none) (hfit : ExpFits p) :
    ((toNumLit p).exact.1 * 2 ^ 1075 < (toNumLit p).exact.2 → deFloatRoundtrip false p = .f64 (F64.zero p.neg)) ∧
    ((toNumLit p).exact.1 * 2 ^ 150 < (toNumLit p).exact.2 → deFloatRoundtrip true p = .f64 (F64.zero p.neg)) := by
  constructor
  · intro h
    rw [deFloat64_nearest p wf hlen hic hfit, SJ.Proofs.Ieee.roundNE64_eq]
    have hz : roundMag b64 ((toNumLit p).exact.1 * 2 ^ 1074) (toNumLit p).exact.2 = 0 := by
      apply roundMag_small
      have : (2 : Nat) ^ 1075 = 2 ^ 1074 * 2 := by rw [← Nat.pow_succ]
      rw [this] at h
      calc 2 * ((toNumLit p).exact.1 * 2 ^ 1074) = (toNumLit p).exact.1 * (2 ^ 1074 * 2) := by ring
        _ < (toNumLit p).exact.2 := h
    rw [hz, if_pos (by decide)]
    simp only []
    rw [zero_eq]; rfl
  · intro h
    rw [deFloat32_nearest p wf hlen hic hfit, SJ.Proofs.Ieee.roundNE32_eq]
    have hz : roundMag b32 ((toNumLit p).exact.1 * 2 ^ 149) (toNumLit p).exact.2 = 0 := by
      apply roundMag_small
      have : (2 : Nat) ^ 150 = 2 ^ 149 * 2 := by rw [← Nat.pow_succ]
      rw [this] at h
      calc 2 * ((toNumLit p).exact.1 * 2 ^ 149) = (toNumLit p).exact.1 * (2 ^ 149 * 2) := by ring
        _ < (toNumLit p).exact.2 := h
    rw [hz, if_pos (by decide)]
    simp only []
    rw [zero_toF64]; rfl

/-- **c07_other_literals.** Off the float path: an integer literal within `u64` / `i64` is returned exactly
    (`ParserNumber::U64/I64`, whichever the target), and an exponent whose digits overflow `i32` is decided by
    `parse_exponent_overflow` — out of range iff some significand digit is non-zero and the exponent is positive,
    `±0` otherwise — for both targets. -/
theorem c07_other_literals (single : Bool) (p : Parts) (wf : WF p) (hlen : (p.int ++ p.frac.getD []).length + 20 < 2 ^ 29) :
    (∀ r, intClass p = some r → deFloatRoundtrip single p = r) ∧
    (∀ en eds, p.exp = some (en, eds) → expOverflows eds = true →
      deFloatRoundtrip single p = exponentOverflow (!p.neg) ((p.int ++ p.frac.getD []).all (· == 0x30)) (!en)) := by
  constructor
  · intro r hr
    rw [deFloat_eq single p wf hlen, specG_eq, hr]
  · intro en eds hexp hov
    rw [deFloat_eq single p wf hlen, specG_overflow single p en eds hexp hov]

example : deFloatRoundtrip true (Parts.mk true [0x37] none none []) = .i64 (-7) ∧
    deFloatRoundtrip false (Parts.mk false [0x30] (some [0x30]) (some (false, [0x39,0x39,0x39,0x39,0x39,0x39,0x39,0x39,0x39,0x39])) [])
      = .f64 0 := by decide +kernel

/-- **c07_all_sources.** The byte-step parser (`Model.Machine.parseTop`: `from_str`, `from_slice`, `from_reader`
    alike, target `Value`; nested values go through the same `numValue`) under `float_roundtrip` without
    `arbitrary_precision` returns, for a bare RFC 8259 number literal `p`, exactly the number `de.rs` + lexical compute
    (`deFloatRoundtrip`), and fails with `NumberOutOfRange` exactly when that is out of range; `Spec.Canon.numOf` — the
    number in the denotation of C01/C02/C04 — is that number. -/
theorem c07_all_sources (env : Model.Machine.Env) (henv : env.tgt = .value) (hfr : env.cfg.fr = true)
    (hap : env.cfg.ap = false) (p : Spec.Grammar.NumParts) (hwf : p.WF = true)
    (hlen : p.int.length + p.frac.length + 20 < 2 ^ 29) :
    Spec.Canon.numOf (SJ.Proofs.CanonM.specCfg env.cfg) p =
      SJ.Proofs.NumLink.numOfNRes (deFloatRoundtrip false (Spec.Canon.partsOf p)) ∧
    (∀ x, SJ.Proofs.NumLink.numOfNRes (deFloatRoundtrip false (Spec.Canon.partsOf p)) = some x →
      Model.Machine.parseTop env p.bytes = .ok (.num x)) ∧
    (SJ.Proofs.NumLink.numOfNRes (deFloatRoundtrip false (Spec.Canon.partsOf p)) = none →
      ∃ idx, idx ≤ p.bytes.length ∧ Model.Machine.parseTop env p.bytes = .err .NumberOutOfRange idx) :=
  ⟨numOf_fr _ hfr hap p hwf hlen, (parseTop_fr env henv hfr hap p hwf hlen).1, (parseTop_fr env henv hfr hap p hwf hlen).2⟩

/-- `1e-7` from a reader under `float_roundtrip` -/
example : (Model.Machine.parseTop ⟨{ fr := true }, .reader, .value⟩ [0x31, 0x65, 0x2d, 0x37]).isOk
    (.num (.float 0x3e7ad7f29abcaf48)) = true := by decide +kernel

/-- **c07_roundtrip.** Under the named hypothesis `RyuShortest ext` (module `Proofs/LexTopRoundtrip`: the text `ryu`
    prints for a finite float is an RFC 8259 number (`ExtOK`) of at most 24 bytes — at most 17 significant digits for
    `f64`, 9 for `f32` —, written with a fraction or an exponent, exponent part at most `e-308`-sized, whose exact value
    rounds to nearest-even to the float printed), serialise-then-deserialise returns every finite `f64` and every finite
    `f32` bit for bit (`-0.0` and subnormals included) under `float_roundtrip`: the parser's result on the printed text is
    the float (`f32`: de.rs hands its exact widening to the visitor, and the visitor's `as f32` — `F64.toF32` — maps
    that back to the same pattern: second conjunct). -/
theorem c07_roundtrip (ext : Spec.Program.Ext) (hext : Spec.Program.ExtOK ext) (hr : RyuShortest ext) :
    (∀ b : UInt64, Spec.Program.finite64 b = true →
      deFloatRoundtrip false (Spec.Canon.partsOf (Spec.Number.splitNumber (ext.ryu64 b))) = .f64 b) ∧
    (∀ b : UInt32, Spec.Program.finite32 b = true →
      deFloatRoundtrip true (Spec.Canon.partsOf (Spec.Number.splitNumber (ext.ryu32 b))) = .f64 (F32.toF64 b) ∧
      F64.toF32 (F32.toF64 b) = b) :=
  ⟨fun b hb => roundtrip64 ext hext hr b hb,
   fun b hb => ⟨roundtrip32 ext hext hr b hb,
     SJ.Proofs.LexTopF32.toF32_toF64 b (by rw [← SJ.Proofs.LexTopF32.finite32_eq_isFinite]; exact hb)⟩⟩

/-- non-vacuity of `RyuText`/the nearest-value clause on `5e-324` (the least subnormal, as `ryu` prints it) -/
example : RyuText [0x35, 0x65, 0x2d, 0x33, 0x32, 0x34] ∧
    deFloatRoundtrip false (Spec.Canon.partsOf (Spec.Number.splitNumber [0x35, 0x65, 0x2d, 0x33, 0x32, 0x34])) = .f64 1 := by
  refine ⟨⟨by decide, by decide, by decide⟩, by decide +kernel⟩

/-! ## the typed entry points (`deserialize_f64`, `deserialize_f32`, and every other numeric target) -/

/-- **c07_typed_f32_link.** The typed text deserializer's number path (`Model.Typed.deNumber`: `deserialize_number`, i.e.
    `deserialize_i8 … u64`, `deserialize_f32`, `deserialize_f64`) is, for every build, target, source and input whose unread
    part is shorter than `2^29 - 20` bytes: skip whitespace, scan the literal (`scanNumber` = `parse_integer`), convert
    the scanned parts with `SJ.Proofs.TypedFloat.typedNumber` — `Model.Lexical.deFloatRoundtrip single_precision` under
    `float_roundtrip` (`single_precision` exactly for an `f32` target), `Model.Num.convertDefault` otherwise — and hand the
    `ParserNumber` to the target's visitor. In particular `Model.Typed.f32Roundtrip` (the model of `single_precision = true`)
    is `deFloatRoundtrip true` followed by serde's `f32` visitor (second conjunct), so `c07_correct`, `c07_nearest_even`
    (through `c07_typed_nearest` below) and, in the default build, C08's theorems about `convertDefault` speak about the
    typed targets. -/
theorem c07_typed_f32_link (env : Model.Typed.Env) (ty : Model.Typed.NumTy) (rest : Bytes) (pos : Nat)
    (hlen : rest.length + 20 < 2 ^ 29) :
    Model.Typed.deNumber env ty rest pos =
      (Model.Typed.withPeek env .EofWhileParsingValue rest pos fun b r p =>
        if Model.Typed.isNumStart b then
          (Model.Typed.scanNumber env (b :: r) p).bind fun parts rest' pos' =>
            match SJ.Proofs.NumLink.numOfNRes (SJ.Proofs.TypedFloat.typedNumber env ty parts) with
            | some n => Model.Typed.fixPos env true (Model.Typed.ofVisit (Model.Typed.visitNumber ty n) rest' pos')
            | none => .err .NumberOutOfRange (Model.Typed.peekErrorIdx rest' pos')
        else Model.Typed.peekInvalidType env (b :: r) p) ∧
    (∀ p : Parts, WF p → (p.int ++ p.frac.getD []).length + 20 < 2 ^ 29 →
      Model.Typed.f32Roundtrip p = SJ.Proofs.TypedFloat.f32OfNRes (deFloatRoundtrip true p)) ∧
    (∀ r : NRes, SJ.Proofs.TypedFloat.f32OfNRes r =
      match SJ.Proofs.NumLink.numOfNRes r with
      | some n => (match Model.FromValue.numberF32 {} n with | .ok (.f32 b) => some b | _ => none)
      | none => none) :=
  ⟨SJ.Proofs.TypedFloat.deNumber_link env ty rest pos hlen,
   fun p wf hl => SJ.Proofs.TypedFloat.f32Roundtrip_eq p wf hl, SJ.Proofs.TypedFloat.f32OfNRes_eq⟩

/-- non-vacuity: the witness of finding C07-f32-negint through the typed entry point: `from_str::<f32>("-9223372586610589697")`
    under `float_roundtrip` is `0xdf000001`; and `0.1` as `f32` is `0x3dcccccd` -/
example :
    (match Model.Typed.deTypedTop { cfg := { fr := true } } .f32
      [0x2d,0x39,0x32,0x32,0x33,0x33,0x37,0x32,0x35,0x38,0x36,0x36,0x31,0x30,0x35,0x38,0x39,0x36,0x39,0x37] with
     | .ok (.f32 b) => b == 0xdf000001 | _ => false) = true ∧
    (match Model.Typed.deTypedTop { cfg := { fr := true } } .f32 [0x30, 0x2e, 0x31] with
     | .ok (.f32 b) => b == 0x3dcccccd | _ => false) = true := by decide +kernel

/-- **c07_typed_nearest.** `float_roundtrip`, typed targets: when `parse_integer` has scanned a literal on the float path
    (a fraction or an exponent, an integer beyond `u64` / `i64`, or `-0`) whose exponent digits pass the `i32` guard,
    `deserialize_f64` returns *the* IEEE round-to-nearest-even `f64` of the literal's exact decimal value (`IsNearestEven64`)
    and `deserialize_f32` *the* nearest-even `f32` (`IsNearestEven32`: rounded once, straight to binary32), each leaving the
    reader right after the literal; the literal is rejected (`NumberOutOfRange`) exactly when that value would be
    infinite. (Integer literals within `u64` / `i64` are cast by serde's visitor: `c07_other_literals`.) -/
theorem c07_typed_nearest (env : Model.Typed.Env) (hfr : env.cfg.fr = true) (b : UInt8) (r : Bytes) (p0 : Nat) (parts : Parts)
    (rest' : Bytes) (pos' : Nat) (hb : Model.Typed.isNumStart b = true) (hlen : (b :: r).length + 20 < 2 ^ 29)
    (hsc : Model.Typed.scanNumber env (b :: r) p0 = .ok parts rest' pos') (hic : intClass parts = none) (hfit : ExpFits parts) :
    (¬ Overflows64 (toNumLit parts).exact.1 (toNumLit parts).exact.2 →
      ∃ x, Model.Typed.deNumber env .f64 (b :: r) p0 = .ok (.f64 x) rest' pos' ∧
        IsNearestEven64 parts.neg (toNumLit parts).exact.1 (toNumLit parts).exact.2 x) ∧
    (Overflows64 (toNumLit parts).exact.1 (toNumLit parts).exact.2 →
      Model.Typed.deNumber env .f64 (b :: r) p0 = .err .NumberOutOfRange (Model.Typed.peekErrorIdx rest' pos')) ∧
    (¬ Overflows32 (toNumLit parts).exact.1 (toNumLit parts).exact.2 →
      ∃ x, Model.Typed.deNumber env .f32 (b :: r) p0 = .ok (.f32 x) rest' pos' ∧
        IsNearestEven32 parts.neg (toNumLit parts).exact.1 (toNumLit parts).exact.2 x) ∧
    (Overflows32 (toNumLit parts).exact.1 (toNumLit parts).exact.2 →
      Model.Typed.deNumber env .f32 (b :: r) p0 = .err .NumberOutOfRange (Model.Typed.peekErrorIdx rest' pos')) := by
  have hden : 0 < (toNumLit parts).exact.2 := by rw [exact_eq_scale]; exact scale10_den_pos _ _
  obtain ⟨a1, a2⟩ := SJ.Proofs.Ieee.roundNE64_correct parts.neg _ _ hden
  obtain ⟨b1, b2⟩ := SJ.Proofs.Ieee.roundNE32_correct parts.neg _ _ hden
  obtain ⟨h64, h32⟩ := SJ.Proofs.TypedFloat.deNumber_nearest env hfr b r p0 parts rest' pos' hb hlen hsc hic hfit
  rw [h64, h32]
  refine ⟨fun h => ?_, fun h => ?_, fun h => ?_, fun h => ?_⟩
  · obtain ⟨x, hx, hn⟩ := a1 h; exact ⟨x, by rw [hx], hn⟩
  · rw [a2 h]
  · obtain ⟨x, hx, hn⟩ := b1 h; exact ⟨x, by rw [hx], hn⟩
  · rw [b2 h]

/-- non-vacuity: `1e39` is finite as `f64` and out of range as `f32` -/
example :
    (match Model.Typed.deTypedTop { cfg := { fr := true } } .f64 [0x31, 0x65, 0x33, 0x39] with
     | .ok (.f64 b) => b == 0x48078287f49c4a1d | _ => false) = true ∧
    (match Model.Typed.deTypedTop { cfg := { fr := true } } .f32 [0x31, 0x65, 0x33, 0x39] with
     | .err .NumberOutOfRange 4 => true | _ => false) = true := by decide +kernel

end SJ.Props.C07

/-! ## (iv′) the limb arithmetic of `lexical/math.rs` under the big-integer slow path

`c07_bhcomp_exact` is stated with `Bigint` as a natural number. The theorems below close that abstraction: the limb-level
transcription `Model.LexMath` of `math.rs` (64-bit limbs, `Vec<Limb>` little-endian, every wrap written out) refines
arithmetic on the numbers denoted (`value l = Σ l[i]·2^(64 i)`), and `bhcomp.rs` run on limb vectors
(`Model.LexBhLimbs`) returns what `Model.Lexical.bhcomp` returns on naturals. -/
namespace SJ.Props.C07
open SJ SJ.Gen SJ.Model.Num SJ.Model.Lexical SJ.Model.LexMath SJ.Model.LexBhLimbs SJ.Proofs.LexMath SJ.Proofs.NumInt

/-- **c07_limbs_scalar.** `scalar::add/sub/mul` on limbs: `overflowing_add`, `overflowing_sub` and the widening multiply
    with carry are addition / subtraction / multiplication with the carry (borrow, high limb) made explicit. -/
theorem c07_limbs_scalar (x y c : Nat) (hx : x < 2 ^ 64) (hy : y < 2 ^ 64) (hc : c < 2 ^ 64) :
    ((scalar.add x y).1 + 2 ^ 64 * (if (scalar.add x y).2 then 1 else 0) = x + y ∧ (scalar.add x y).1 < 2 ^ 64) ∧
    ((scalar.sub x y).1 + y = x + 2 ^ 64 * (if (scalar.sub x y).2 then 1 else 0) ∧ (scalar.sub x y).1 < 2 ^ 64) ∧
    ((scalar.mul x y c).1 + 2 ^ 64 * (scalar.mul x y c).2 = x * y + c ∧ (scalar.mul x y c).1 < 2 ^ 64 ∧
      (scalar.mul x y c).2 < 2 ^ 64) :=
  ⟨scalar_add_spec hx hy, scalar_sub_spec hx hy, scalar_mul_spec hx hy hc⟩

example : scalar.mul (2 ^ 64 - 1) (2 ^ 64 - 1) (2 ^ 64 - 1) = (0, 2 ^ 64 - 1) := by decide +kernel

/-- **c07_limbs_small.** `small::{iadd_impl, iadd, imul, mul, ishl_bits, ishl_limbs, ishl, normalize}` on a vector of
    limbs: the result denotes `value x + y·2^(64·xstart)`, `value x · y`, `value x · 2^n`, `value x` respectively, is a
    vector of limbs again, and (for `iadd` on a non-empty vector or with a non-zero addend, `imul` by a non-zero limb,
    the shifts) normalised if `x` is; `normalize` returns a normalised vector. -/
theorem c07_limbs_small (x : Limbs) (y n xstart : Nat) (hv : Valid x) (hy : y < 2 ^ 64) :
    (xstart ≤ x.length → value (small.iaddImpl x y xstart) = value x + y * 2 ^ (64 * xstart) ∧ Valid (small.iaddImpl x y xstart)) ∧
    (value (small.iadd x y) = value x + y ∧ Valid (small.iadd x y) ∧ (Normal x → x ≠ [] ∨ y ≠ 0 → Normal (small.iadd x y))) ∧
    (value (small.imul x y) = value x * y ∧ Valid (small.imul x y) ∧ (Normal x → y ≠ 0 → Normal (small.imul x y))) ∧
    (value (small.mul x y) = value x * y ∧ Valid (small.mul x y)) ∧
    (n < 64 → value (small.ishlBits x n) = value x * 2 ^ n ∧ Valid (small.ishlBits x n) ∧ (Normal x → Normal (small.ishlBits x n))) ∧
    (value (small.ishlLimbs x n) = value x * 2 ^ (64 * n) ∧ Valid (small.ishlLimbs x n) ∧ (Normal x → Normal (small.ishlLimbs x n))) ∧
    (value (small.ishl x n) = value x * 2 ^ n ∧ Valid (small.ishl x n) ∧ (Normal x → Normal (small.ishl x n))) ∧
    (value (small.normalize x) = value x ∧ Valid (small.normalize x) ∧ Normal (small.normalize x)) :=
  ⟨fun hs => small_iaddImpl_spec x y xstart hv hy hs,
   ⟨(small_iadd_spec x y hv hy).1, (small_iadd_spec x y hv hy).2, fun hn h => small_iadd_normal x y hv hy hn h⟩,
   ⟨(small_imul_spec x y hv hy).1, (small_imul_spec x y hv hy).2, fun hn h0 => small_imul_normal x y hv hy h0 hn⟩,
   small_mul_spec x y hv hy,
   fun hn => small_ishlBits_spec x n hn hv,
   small_ishlLimbs_spec x n hv,
   small_ishl_spec x n hv,
   ⟨value_normalize x, valid_normalize hv, normal_normalize x⟩⟩

/-- non-vacuity: a carry rippling through three full limbs, and a shift by `64 + 1` -/
example : small.iadd [2 ^ 64 - 1, 2 ^ 64 - 1, 2 ^ 64 - 1] 1 = [0, 0, 0, 1] ∧
    small.ishl [2 ^ 63, 1] 65 = [0, 0, 3] := by decide +kernel

/-- **c07_limbs_isub.** `small::isub_impl` / `large::isub` under the precondition the Rust `debug_assert!`s
    (subtrahend not larger): they return (no panic), the result denotes the difference and is normalised. -/
theorem c07_limbs_isub (x y : Limbs) (s k : Nat) (hvx : Valid x) (hvy : Valid y) (hs : s < 2 ^ 64) :
    (k < x.length → s * 2 ^ (64 * k) ≤ value x →
      ∃ z, small.isubImpl x s k = some z ∧ value z + s * 2 ^ (64 * k) = value x ∧ Valid z ∧ Normal z) ∧
    (y.length ≤ x.length → value y ≤ value x →
      ∃ z, large.isub x y = some z ∧ value z + value y = value x ∧ Valid z ∧ Normal z) :=
  ⟨fun hk hge => by
     obtain ⟨z, e, a, b, c, _⟩ := small_isubImpl_spec x s k hvx hs hk hge
     exact ⟨z, e, a, b, c⟩,
   fun hl hge => by
     obtain ⟨z, e, a, b, c, _⟩ := large_isub_spec x y hvx hvy hl hge
     exact ⟨z, e, a, b, c⟩⟩

example : large.isub [0, 0, 1] [1] = some [2 ^ 64 - 1, 2 ^ 64 - 1] := by decide +kernel

/-- **c07_limbs_compare.** On normalised vectors of limbs `large::compare` (length first, then limbs from the top) is
    the comparison of the numbers denoted; `less` / `greater_equal` likewise. -/
theorem c07_limbs_compare (x y : Limbs) (hvx : Valid x) (hvy : Valid y) (hnx : Normal x) (hny : Normal y) :
    large.compare x y = (if value x > value y then Ordering.gt else if value x < value y then Ordering.lt else Ordering.eq) ∧
    large.less x y = decide (value x < value y) ∧ large.greaterEqual x y = decide (value y ≤ value x) :=
  ⟨compare_spec x y hvx hvy hnx hny, less_spec x y hvx hvy hnx hny, greaterEqual_spec x y hvx hvy hnx hny⟩

/-- non-vacuity, and why normalisation is needed: `[5, 0]` denotes 5 but compares greater than `[7]` -/
example : large.compare [5, 1] [7, 1] = .lt ∧ large.compare [5, 0] [7] = .gt := by decide +kernel

/-- **c07_limbs_add.** `large::iadd_impl(x, y, xstart)` panics exactly when `xstart > x.len()`; otherwise the result
    denotes `value x + value y · 2^(64·xstart)`, consists of limbs, and is normalised if both operands are.
    `large::add` never panics. -/
theorem c07_limbs_add (x y : Limbs) (xstart : Nat) (hvx : Valid x) (hvy : Valid y) :
    (large.iaddImpl x y xstart = none ↔ x.length < xstart) ∧
    (∀ z, large.iaddImpl x y xstart = some z →
      value z = value x + value y * 2 ^ (64 * xstart) ∧ Valid z ∧ (Normal x → Normal y → Normal z)) ∧
    (value (large.add x y) = value x + value y ∧ Valid (large.add x y) ∧ (Normal x → Normal y → Normal (large.add x y))) :=
  ⟨large_iaddImpl_none x y xstart,
   fun z h => by
     obtain ⟨_, a, b, _, _, c⟩ := large_iaddImpl_some h hvx hvy
     exact ⟨a, b, c⟩,
   by
     obtain ⟨a, b, _, _, c⟩ := large_add_spec x y hvx hvy
     exact ⟨a, b, c⟩⟩

example : large.add [2 ^ 64 - 1, 2 ^ 64 - 1] [1] = [0, 0, 1] ∧ large.iaddImpl [] [1] 1 = none := by decide +kernel

/-- **c07_limbs_long_mul.** Schoolbook multiplication: `long_mul(x, y)` panics exactly on an empty `y` (`y[0]`);
    otherwise it returns the normalised product. -/
theorem c07_limbs_long_mul (x y : Limbs) (hvx : Valid x) (hvy : Valid y) :
    (y = [] → large.longMul x y = none) ∧
    (y ≠ [] → ∃ z, large.longMul x y = some z ∧ value z = value x * value y ∧ Valid z ∧ Normal z) :=
  ⟨fun h => by subst h; rfl, fun h => large_longMul_spec x y h hvx hvy⟩

example : large.longMul [2 ^ 64 - 1, 2 ^ 64 - 1] [2 ^ 64 - 1, 2 ^ 64 - 1] = some [1, 0, 2 ^ 64 - 2, 2 ^ 64 - 1] := by
  decide +kernel

/-- **c07_limbs_karatsuba.** Karatsuba = schoolbook = product: whenever `karatsuba_mul` (with the cut-off
    `KARATSUBA_CUTOFF`, the uneven variant, any fuel) returns, the result denotes the product of the numbers denoted,
    consists of limbs and is normalised — hence equals in value what `long_mul` returns; the same for
    `karatsuba_mul_fwd` and `large::imul`.

    PARTIAL correctness on purpose: `karatsuba_mul` does **not** always return (`c07_karatsuba_panics`). -/
theorem c07_limbs_karatsuba (fuel : Nat) (x y z : Limbs) (hvx : Valid x) (hvy : Valid y) :
    (large.karatsubaMul fuel x y = some z → value z = value x * value y ∧ Valid z ∧ Normal z) ∧
    (large.karatsubaMul fuel x y = some z → ∀ z', large.longMul x y = some z' → value z = value z') ∧
    (large.karatsubaMulFwd x y = some z → value z = value x * value y ∧ Valid z ∧ Normal z) ∧
    (large.imul x y = some z → value z = value x * value y ∧ Valid z ∧ (Normal x → value y ≠ 0 → Normal z)) :=
  ⟨karatsubaMul_some fuel x y z hvx hvy, fun hk _ hl => karatsuba_eq_long hvx hvy hk hl,
   karatsubaMulFwd_some hvx hvy, large_imul_some hvx hvy⟩

/-- non-vacuity: 33 × 33 all-ones limbs go through the three-multiplication branch (`m = 16`, carries everywhere) -/
example : (large.karatsubaMul 34 (List.replicate 33 (2 ^ 64 - 1)) (List.replicate 33 (2 ^ 64 - 1))).map value =
    some ((2 ^ (64 * 33) - 1) * (2 ^ (64 * 33) - 1)) := by decide +kernel

/-- **c07_karatsuba_panics.** `karatsuba_mul` panics on ordinary operands (both replayed on the crate by the harness,
    ops `lm kmul`, tag `witness`):
    * `x.len() = y.len() / 2` with `y.len() ≥ 65` — `xh` is empty, `karatsuba_mul(xh, yh)` takes the uneven branch with
      `m = 0` and reaches `long_mul(x, [])`, which indexes `y[0]`;
    * the low half of an operand is zero — `z0` is the empty vector and `iadd_impl(&mut result, &z1, m)` computes
      `x.len() - xstart = 0 - m`.
    Neither is reachable from `serde_json`'s API: `imul_pow5` takes the Karatsuba route only for operands of ≥ 26 limbs
    with exponents ≥ 1024 (`c07_limbs_total`); reachable through the `pub(crate)` trait `Math`:
    `imul_pow5` of a 37-limb vector by `5^2048`. -/
theorem c07_karatsuba_panics :
    large.karatsubaMul 66 (List.replicate 32 1) (List.replicate 65 1) = none ∧
    large.karatsubaMul 34 (List.replicate 17 0 ++ List.replicate 16 1) (List.replicate 33 1) = none ∧
    Math.imulPow5 (List.replicate 37 1) 2048 = none := by
  refine ⟨?_, ?_, ?_⟩ <;> rw [← Option.isNone_iff_eq_none] <;> decide +kernel

/-- **c07_limbs_hi64.** On a normalised vector of limbs `Bigint::hi64` (`hi64_1/2/3`, `u64_to_hi64_1/2`, `nonzero`)
    does not panic and returns exactly what `Model.Lexical.hi64` — the abstraction `c07_bhcomp_exact` is stated over —
    returns on the number denoted: the 64 most significant bits, left-aligned, and the sticky flag;
    `Bigint::bit_length` is `Model.Lexical.bitLength`. -/
theorem c07_limbs_hi64 (x : Limbs) (hv : Valid x) (hn : Normal x) :
    Math.hi64 x = some (Model.Lexical.hi64 (value x)) ∧ Math.bitLength x = Model.Lexical.bitLength (value x) :=
  ⟨hi64_refines x hv hn, bitLength_refines x hv hn⟩

/-- non-vacuity: three limbs, 61 leading zeros, a sticky bit only in the lowest limb; and the panic on a zero top limb -/
example : Math.hi64 [1, 0, 5] = some (5 * 2 ^ 61, true) ∧ Math.hi64 [0, 0, 5] = some (5 * 2 ^ 61, false) ∧
    Math.bitLength [1, 0, 5] = 131 ∧ Math.hi64 [5, 0] = none := by decide +kernel

/-- **c07_limbs_pow.** `imul_pow5` (either route: iterated `POW5_64` limbs, or the binary expansion of `n` over
    `large_powers64::POW5[i] = 5^(2^i)` through `large::imul`), `imul_pow2`, `imul_pow10`, `from_u64`: whenever they
    return, the result denotes `value x · 5^n` / `· 2^n` / `· 10^n`, consists of limbs, stays normalised. On the
    small-powers route (`x.len() + POW5[⌊log2 n⌋].len() < 2·KARATSUBA_CUTOFF`, `n < 2^14`) `imul_pow5` always returns. -/
theorem c07_limbs_pow (x : Limbs) (n : Nat) (hv : Valid x) :
    (∀ z, Math.imulPow5 x n = some z → value z = value x * 5 ^ n ∧ Valid z ∧ (Normal x → Normal z)) ∧
    (∀ z, Math.imulPow10 x n = some z → value z = value x * 10 ^ n ∧ Valid z ∧ (Normal x → Normal z)) ∧
    (value (Math.imulPow2 x n) = value x * 2 ^ n ∧ Valid (Math.imulPow2 x n) ∧ (Normal x → Normal (Math.imulPow2 x n))) ∧
    (n < 2 ^ 14 → (∀ lp, largePow5Limbs[Nat.log2 n]? = some lp → x.length + lp.length < 2 * karatsubaCutoff) →
      ∃ z, Math.imulPow5 x n = some z) ∧
    (n < 2 ^ 64 → value (Math.fromU64 n) = n ∧ Valid (Math.fromU64 n) ∧ Normal (Math.fromU64 n)) :=
  ⟨fun _ h => small_imulPow5_some hv h, fun _ h => math_imulPow10_some hv h, math_imulPow2_spec x n hv,
   fun hn hp => small_imulPow5_total hn hp,
   fun hn => ⟨(math_fromU64_spec n hn).1, (math_fromU64_spec n hn).2.1, (math_fromU64_spec n hn).2.2.1⟩⟩

/-- non-vacuity: `3 · 5^30` by the small route (one full step of `5^27`, then `5^3`) -/
example : (Math.imulPow5 [3] 30).map value = some (3 * 5 ^ 30) := by decide +kernel

/-- **c07_limbs_refine_nat.** Every big-integer operation sequence of `bhcomp.rs`, run on limb vectors through the
    trait `Math` (`Model.LexBhLimbs`), computes what `Model.Lexical` computes with `Bigint` as a natural number:

    * `parse_mantissa` (`imul_small(small_powers[counter])` / `iadd_small(value)` per chunk of 18 digits, the final
      `imul_small(10)` and sticky `iadd_small(1)`): the vector denotes `Model.Lexical.parseMantissa`, consists of limbs,
      and is normalised unless it denotes zero;
    * `large_atof` (`imul_pow10`, `hi64`, `bit_length`) and `small_atof` (`from_u64`, `imul_pow5`, `imul_pow2` on either
      side, `compare`): on a normalised mantissa, whenever they return they return the float of the `Nat`-level model;
    * `bhcomp`: for digit strings whose big-integer mantissa is not zero, any `b`, any `i32` exponent, `f64` and `f32`:
      whenever the limb-level `bhcomp` returns, it returns `Model.Lexical.bhcomp` — the function
      `c07_bhcomp_exact` proves correctly rounded.

    "Whenever it returns": the limb code can panic (`imul_pow5` beyond `5^(2^14 - 1)`, Karatsuba); `c07_limbs_total`
    shows it does not inside the exponent range `bhcomp` is called with. -/
theorem c07_limbs_refine_nat (single : Bool) (b : Nat) (integer fraction : Bytes) (exponent : Int)
    (hdi : IsDigits integer) (hdf : IsDigits fraction) :
    (value (parseMantissaL (fc single) integer fraction) = parseMantissa (fc single) integer fraction ∧
      Valid (parseMantissaL (fc single) integer fraction) ∧
      (parseMantissa (fc single) integer fraction ≠ 0 → Normal (parseMantissaL (fc single) integer fraction))) ∧
    (∀ (m : Limbs) (e : Int) (r : Nat), Valid m → Normal m → 0 ≤ e → e < 2 ^ 31 →
      largeAtofL (fc single) m e = some r → r = largeAtof (fc single) (value m) e) ∧
    (∀ (m : Limbs) (e : Int) (r : Nat), Valid m → Normal m → e < 0 → -(2 ^ 31 : Int) ≤ e →
      smallAtofL (fc single) m e b = some r → r = smallAtof (fc single) (value m) e b) ∧
    (bhMantissa (fc single) integer fraction ≠ 0 → ∀ r, bhcompL (fc single) b integer fraction exponent = some r →
      r = bhcomp (fc single) b integer fraction exponent) :=
  ⟨parseMantissaL_refines (fc single) integer fraction hdi hdf,
   fun m e r hv hn h0 h1 h => largeAtofL_refines (fc single) m e hv hn h0 (by omega) r h,
   fun m e r hv hn h0 h1 h => by
     have ⟨x1, x2⟩ := bhExtended_exp_bounds single b
     exact smallAtofL_refines (fc single) m e b hv hn h0 (by omega) (by omega) (by omega) r h,
   fun hm r h => bhcompL_refines single b integer fraction exponent hdi hdf hm r h⟩

/-- non-vacuity: `9007199254740993` (= 2^53 + 1, an exact midpoint) with `b = 2^53`: `large_atof` on the one-limb
    mantissa rounds to even; and the same digits as `0.9007199254740993e16` through `small_atof`'s comparison -/
example : bhcompL f64Consts 0x4340000000000000 [0x39,0x30,0x30,0x37,0x31,0x39,0x39,0x32,0x35,0x34,0x37,0x34,0x30,0x39,0x39,0x33] [] 0
      = some 0x4340000000000000 ∧
    bhcompL f64Consts 0x4340000000000000 [] [0x39,0x30,0x30,0x37,0x31,0x39,0x39,0x32,0x35,0x34,0x37,0x34,0x30,0x39,0x39,0x33,0x30,0x31] 16
      = some 0x4340000000000001 := by decide +kernel

/-- **c07_limbs_total.** Inside the exponent range `bhcomp` is called with, the limb code does not panic: for digit
    strings with a non-zero mantissa and `-2048 < scaled_exponent < 1024` (`bhScaled` = `bhcomp`'s `sci_exp + 1 - count`;
    above the range the value is `≥ 10^1024`, below it `< 10^-1280`, both far outside every float and decided before
    `bhcomp` is reached) the limb-level `bhcomp` returns — the mantissa has at most 40 limbs, `imul_pow5` stays on the
    small-powers route (never Karatsuba), `hi64` sees a normalised vector. With `c07_limbs_refine_nat`: it returns
    `Model.Lexical.bhcomp`. -/
theorem c07_limbs_total (single : Bool) (b : Nat) (integer fraction : Bytes) (exponent : Int) (hdi : IsDigits integer)
    (hdf : IsDigits fraction) (hm : bhMantissa (fc single) integer fraction ≠ 0)
    (h1 : -2048 < bhScaled (fc single) integer fraction exponent) (h2 : bhScaled (fc single) integer fraction exponent < 1024) :
    bhcompL (fc single) b integer fraction exponent = some (bhcomp (fc single) b integer fraction exponent) := by
  obtain ⟨r, hr⟩ := bhcompL_total single b integer fraction exponent hdi hdf hm h1 h2
  rw [hr, bhcompL_refines single b integer fraction exponent hdi hdf hm r hr]

/-- non-vacuity: the hypotheses hold for `9007199254740993` / exponent 0 (`scaled_exponent = 0`) -/
example : bhMantissa f64Consts [0x39,0x30,0x30,0x37,0x31,0x39,0x39,0x32,0x35,0x34,0x37,0x34,0x30,0x39,0x39,0x33] [] = 9007199254740993 ∧
    bhScaled f64Consts [0x39,0x30,0x30,0x37,0x31,0x39,0x39,0x32,0x35,0x34,0x37,0x34,0x30,0x39,0x39,0x33] [] 0 = 0 := by
  decide +kernel

open SJ.Spec.Ieee SJ.Proofs.LexSplit SJ.Proofs.LexRound SJ.Proofs.LexBh SJ.Proofs.LexFast SJ.Proofs.LexCorrect in
/-- **c07_bhcomp_limbs_exact.** `c07_bhcomp_exact` without the `Bigint = Nat` abstraction: under its hypotheses, and
    with `scaled_exponent` in the range where `bhcomp` is actually reached, `bhcomp.rs` *run on limb vectors through
    `math.rs`* returns (no panic) the correctly rounded value. (`hz` — the dropped digits are not all zero — is a leftover of
    the limb development: `c07_bhcomp_exact` no longer needs it; here it is only used for "the parsed mantissa is non-zero".) -/
theorem c07_bhcomp_limbs_exact (single : Bool) (integer fraction : Bytes) (hdi : IsDigits integer) (hdf : IsDigits fraction)
    (hhead : ∀ d r, integer = d :: r → d ≠ 0x30) (hpos : 0 < natOfDigits (integer ++ fraction)) (exponent : Int)
    (hexp1 : -(2 ^ 30 : Int) < exponent) (hexp2 : exponent < 2 ^ 30)
    (hlen : integer.length + fraction.length < 2 ^ 30) (b : Nat) (hb : b < (fmtOf single).infBits)
    (hz : (fc single).maxDigits - 1 < (sigDigits integer fraction).length →
      0 < natOfDigits ((sigDigits integer fraction).drop ((fc single).maxDigits - 1)))
    (hnear : NearBelow (fmtOf single) b (dNum (fmtOf single) (natOfDigits (integer ++ fraction)) (exponent - fraction.length))
      (dDen (exponent - fraction.length)))
    (h1 : -2048 < bhScaled (fc single) integer fraction exponent) (h2 : bhScaled (fc single) integer fraction exponent < 1024) :
    bhcompL (fc single) b integer fraction exponent =
      some (roundDec (fmtOf single) (natOfDigits (integer ++ fraction)) (exponent - fraction.length)) := by
  have hmax : 2 ≤ (fc single).maxDigits := by cases single <;> simp [fc, f32Consts, f64Consts]
  rw [c07_limbs_total single b integer fraction exponent hdi hdf
      (bhMantissa_ne_zero (fc single) hmax integer fraction hpos hz) h1 h2,
    c07_bhcomp_exact single integer fraction hdi hdf hhead hpos exponent hexp1 hexp2 hlen b hb hnear]

/-- non-vacuity: the conclusion on `9007199254740993` (a tie between `2^53` and `2^53 + 2`), evaluated in the kernel -/
example : bhcompL (fc false) 0x4340000000000000 [0x39,0x30,0x30,0x37,0x31,0x39,0x39,0x32,0x35,0x34,0x37,0x34,0x30,0x39,0x39,0x33] [] 0 =
    some (SJ.Proofs.LexBh.roundDec (SJ.Proofs.LexFast.fmtOf false) 9007199254740993 0) := by decide +kernel

/-- **c07_karatsuba_fuel.** The fuel argument of the model's `karatsubaMul` is immaterial above `y.len()` (the Rust
    recursion strictly decreases `y.len()` beyond the cut-off): a `none` at fuel `y.len() + 1` is a panic of the Rust. -/
theorem c07_karatsuba_fuel (x y : Limbs) (f : Nat) (h : y.length < f) :
    large.karatsubaMul f x y = large.karatsubaMul (y.length + 1) x y := karatsubaMul_fuel_enough x y f h

example : large.karatsubaMul 1000 (List.replicate 32 1) (List.replicate 65 1) = none := by
  rw [c07_karatsuba_fuel _ _ 1000 (by decide), ← Option.isNone_iff_eq_none]; decide +kernel

end SJ.Props.C07
