import SJ.Proofs.LexTables
/-!
# C07 — float_roundtrip: decimal → float conversion is correctly rounded

Layered as in DESIGN §6 C07. Model: `SJ.Model.Lexical` (lexical + the `float_roundtrip` integration of
`de.rs`), specification: `Spec.Ieee.roundNE64` / `Spec.Ieee32.roundNE32` of the literal's exact value.
-/
namespace SJ.Props.C07
open SJ SJ.Gen SJ.Proofs.LexTables

/-- **cached_power_accuracy.** What holds for the extracted 80-bit cached powers, stated exactly: the ten
    small powers `10^0 … 10^9` are *exact* (`mant · 2^exp = 10^i`) and agree with the integer table; each
    of the 66 large powers `10^(-350 + 10·i)` is the *truncated* normalised 64-bit image,
    `mant · 2^exp ≤ 10^k < (mant + 1) · 2^exp` with `2^63 ≤ mant < 2^64` (they are not rounded to nearest:
    38 of the 66 differ from the nearest value); `BASE10_STEP = 10`, `BASE10_BIAS = 350`. -/
theorem c07_cached_power_accuracy :
    (∀ i ∈ List.range 10,
      Exactly (base10SmallMantissa.getD i 0) (base10SmallExponent.getD i 0) i ∧
      2 ^ 63 ≤ base10SmallMantissa.getD i 0 ∧ base10SmallMantissa.getD i 0 < 2 ^ 64 ∧
      base10SmallIntPowers.getD i 0 = 10 ^ i) ∧
    (∀ i ∈ List.range 66,
      Brackets (base10LargeMantissa.getD i 0) (base10LargeExponent.getD i 0) (-350 + 10 * (i : Int)) ∧
      2 ^ 63 ≤ base10LargeMantissa.getD i 0 ∧ base10LargeMantissa.getD i 0 < 2 ^ 64) ∧
    base10LargeMantissa.length = 66 ∧ base10LargeExponent.length = 66 ∧ base10Step = 10 ∧ base10Bias = 350 :=
  ⟨small_powers_exact, large_powers_truncated, lengths.2.2.2.1, lengths.2.2.2.2.1, lengths.2.2.2.2.2.1, lengths.2.2.2.2.2.2.1⟩

/-- non-vacuity: the entry for `10^-230` (index 12), the one behind known finding C07-moderate-truncated -/
example : Brackets 17899314949046850752 (-828) (-230) := by decide +kernel

/-- **small tables.** `POW10_64[i] = 10^i`, `POW5_64[i] = 5^i`, `large_powers64::POW5[i] = 5^(2^i)` (limbs
    assembled), `F64_POW10[i] = 10^i` (`i ≤ 22`), `F32_POW10[i] = 10^i` (`i ≤ 10`). -/
theorem c07_power_tables :
    (∀ i ∈ List.range 20, pow10_64.getD i 0 = 10 ^ i) ∧ (∀ i ∈ List.range 28, pow5_64.getD i 0 = 5 ^ i) ∧
    (∀ i ∈ List.range 14, largePow5.getD i 0 = 5 ^ (2 ^ i)) ∧
    (∀ i ∈ List.range 23, f64Pow10.getD i 0 = 10 ^ i) ∧ (∀ i ∈ List.range 11, f32Pow10.getD i 0 = 10 ^ i) :=
  ⟨pow10_64_correct, pow5_64_correct, large_pow5_correct, f64_pow10_correct, f32_pow10_correct⟩

example : largePow5.getD 5 0 = 5 ^ 32 := by decide +kernel

end SJ.Props.C07
