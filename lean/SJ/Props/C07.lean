import SJ.Proofs.LexTables
import SJ.Proofs.LexCorrect
/-!
# C07 — float_roundtrip: decimal → float conversion is correctly rounded

Layered as in DESIGN §6 C07. Model: `SJ.Model.Lexical` (lexical + the `float_roundtrip` integration of
`de.rs`), specification: `Spec.Ieee.roundNE64` / `Spec.Ieee.roundNE32` of the literal's exact value.
-/
namespace SJ.Props.C07
open SJ SJ.Gen SJ.Proofs.LexTables SJ.Model.Num SJ.Model.Lexical SJ.Spec.Ieee
open SJ.Proofs.LexSplit SJ.Proofs.LexRound SJ.Proofs.LexBh SJ.Proofs.LexFast SJ.Proofs.LexCorrect SJ.Proofs.NumInt

/-- **cached_power_accuracy.** What holds for the extracted 80-bit cached powers, stated exactly: the ten
    small powers `10^0 … 10^9` are *exact* (`mant · 2^exp = 10^i`) and agree with the integer table; each
    of the 66 large powers `10^(-350 + 10·i)` is the *truncated* normalised 64-bit image,
    `mant · 2^exp ≤ 10^k < (mant + 1) · 2^exp` with `2^63 ≤ mant < 2^64` (they are not rounded to nearest:
    38 of the 66 differ from the nearest value); `BASE10_STEP = 10`, `BASE10_BIAS = 350`. -/
theorem c07_cached_power_accuracy :
    (∀ i ∈ List.range 10,
      Exactly (base10SmallMantissa.getD i 0) (base10SmallExponent.getD i 0) i ∧
      2 ^ 63 ≤ base10SmallMantissa.getD i 0 ∧ base10SmallMantissa.getD i 0 < 2 ^ 64 ∧
      base10SmallIntPowers.getD i 0 = 10 ^ i) ∧
    (∀ i ∈ List.range 66,
      Brackets (base10LargeMantissa.getD i 0) (base10LargeExponent.getD i 0) (-350 + 10 * (i : Int)) ∧
      2 ^ 63 ≤ base10LargeMantissa.getD i 0 ∧ base10LargeMantissa.getD i 0 < 2 ^ 64) ∧
    base10LargeMantissa.length = 66 ∧ base10LargeExponent.length = 66 ∧ base10Step = 10 ∧ base10Bias = 350 :=
  ⟨small_powers_exact, large_powers_truncated, lengths.2.2.2.1, lengths.2.2.2.2.1, lengths.2.2.2.2.2.1, lengths.2.2.2.2.2.2.1⟩

/-- non-vacuity: the entry for `10^-230` (index 12), the one behind known finding C07-moderate-truncated -/
example : Brackets 17899314949046850752 (-828) (-230) := by decide +kernel

/-- **small tables.** `POW10_64[i] = 10^i`, `POW5_64[i] = 5^i`, `large_powers64::POW5[i] = 5^(2^i)` (limbs
    assembled), `F64_POW10[i] = 10^i` (`i ≤ 22`), `F32_POW10[i] = 10^i` (`i ≤ 10`). -/
theorem c07_power_tables :
    (∀ i ∈ List.range 20, pow10_64.getD i 0 = 10 ^ i) ∧ (∀ i ∈ List.range 28, pow5_64.getD i 0 = 5 ^ i) ∧
    (∀ i ∈ List.range 14, largePow5.getD i 0 = 5 ^ (2 ^ i)) ∧
    (∀ i ∈ List.range 23, f64Pow10.getD i 0 = 10 ^ i) ∧ (∀ i ∈ List.range 11, f32Pow10.getD i 0 = 10 ^ i) :=
  ⟨pow10_64_correct, pow5_64_correct, large_pow5_correct, f64_pow10_correct, f32_pow10_correct⟩

example : largePow5.getD 5 0 = 5 ^ 32 := by decide +kernel

/-! ## (i) the integration: what `de.rs` hands to lexical denotes the literal exactly -/

/-- **c07_split.** For every well-formed number literal, the leaf of `parse_integer` / `parse_decimal` /
    `parse_decimal_overflow` / `parse_long_integer/decimal/exponent` that is reached, and the arguments it passes
    (significand and exponent, or the scratch buffer split at `integer_end` and the exponent, or the
    exponent-overflow flags, or the integer classification) denote exactly the literal's digits `litN p` and
    decimal exponent `litE p` (`|literal| = litN p · 10^(litE p)`, the quantities `Model.Num.exact` is made of). -/
theorem c07_split (single : Bool) (p : Parts) (wf : WF p) : Presents single p (deCall single p) :=
  deCall_presents single p wf

/-- non-vacuity: `12345678901234567890.5e-3` goes through `parse_long_integer`/`parse_long_decimal`/`parse_long_exponent`:
    integer part `1844674407370955161` re-printed plus the overflowing digit, fraction `5`, exponent `-3` -/
example : deCall false (Parts.mk false [0x31,0x32,0x33,0x34,0x35,0x36,0x37,0x38,0x39,0x30,0x31,0x32,0x33,0x34,0x35,0x36,0x37,0x38,0x39,0x30]
      (some [0x35]) (some (true, [0x33])) []) =
    .truncated [0x31,0x32,0x33,0x34,0x35,0x36,0x37,0x38,0x39,0x30,0x31,0x32,0x33,0x34,0x35,0x36,0x37,0x38,0x39,0x30] [0x35] (-3) := by
  decide +kernel

/-! ## (iii) the fast path -/

/-- **c07_fast_path_exact.** Whenever `fast_path` answers (for `f64` and for `f32`), the answer is the bit pattern
    of the value nearest to `mantissa · 10^exponent`, ties to even (`roundDec`): the mantissa is converted exactly and
    one correctly rounded IEEE multiplication or division by an exactly representable power of ten follows. -/
theorem c07_fast_path_exact (single : Bool) (m : Nat) (e : Int) (r : Nat) (h : fastPath single m e = some r) :
    r = roundDec (fmtOf single) m e := fastPath_exact single m e r h

/-- non-vacuity: `123e-2` is decided by the fast path, to `0x3ff3ae147ae147ae` -/
example : fastPath false 123 (-2) = some 0x3ff3ae147ae147ae := by decide +kernel

/-! ## `into_float` is IEEE round-to-nearest-even -/

/-- **c07_into_float_rne.** `ExtendedFloat::into_float` (normalise, `round_to_float` with `round_nearest_tie_even`,
    carry, `avoid_overflow`, pack) returns the pattern nearest to the extended value `mant · 2^exp`, ties to even,
    infinity on overflow — for every non-zero 64-bit mantissa, both formats; `into_downward_float` rounds toward zero. -/
theorem c07_into_float_rne (single : Bool) (fp : ExtFloat) (h0 : 0 < fp.mant) (h64 : fp.mant < 2 ^ 64) :
    intoFloat (fc single) fp =
        clampInf (fmtOf single) (roundMag (fmtOf single) (sNum (fmtOf single) fp.mant fp.exp) (sDen (fmtOf single) fp.exp)) ∧
    intoDownwardFloat (fc single) fp =
        clampInf (fmtOf single) (floorMag (fmtOf single) (sNum (fmtOf single) fp.mant fp.exp) (sDen (fmtOf single) fp.exp)) :=
  ⟨intoFloat_eq_roundMag (fcokOf single) fp h0 h64, intoDownwardFloat_eq_floorMag (fcokOf single) fp h0 h64⟩

example : intoFloat f64Consts { mant := 2 ^ 63 + 2 ^ 10, exp := -63 } = 0x3ff0000000000000 := by decide +kernel

/-! ## (iv) the big-integer slow path -/

/-- **c07_bhcomp_exact.** With `Bigint` as `Nat`: for digit strings `integer`, `fraction` (no leading zero in
    `integer`, value non-zero, lengths and exponent below `2^30`), a finite `b` in whose neighbourhood the decimal
    value lies (`NearBelow`: strictly between the midpoint below `b` and the midpoint above `b + 1`), `bhcomp` returns
    the correctly rounded value — `large_atof` (exact integer, one rounding with a sticky flag) or `small_atof`
    (comparison with `b + h`), including the truncation to `MAX_DIGITS - 1` digits plus a sticky digit, justified by
    `2^(mbits+2) · 5^(qexp+1) < 10^(MAX_DIGITS-1)` (no midpoint has more significant digits). Hypothesis `hz`
    excludes the shape of known finding C07-zero-tail: if digits are dropped, one of them is non-zero. -/
theorem c07_bhcomp_exact (single : Bool) (integer fraction : Bytes) (hdi : IsDigits integer) (hdf : IsDigits fraction)
    (hhead : ∀ d r, integer = d :: r → d ≠ 0x30) (hpos : 0 < natOfDigits (integer ++ fraction)) (exponent : Int)
    (hexp1 : -(2 ^ 30 : Int) < exponent) (hexp2 : exponent < 2 ^ 30)
    (hlen : integer.length + fraction.length < 2 ^ 30) (b : Nat) (hb : b < (fmtOf single).infBits)
    (hz : (fc single).maxDigits - 1 < (sigDigits integer fraction).length →
      0 < natOfDigits ((sigDigits integer fraction).drop ((fc single).maxDigits - 1)))
    (hnear : NearBelow (fmtOf single) b (dNum (fmtOf single) (natOfDigits (integer ++ fraction)) (exponent - fraction.length))
      (dDen (exponent - fraction.length))) :
    bhcomp (fc single) b integer fraction exponent =
      roundDec (fmtOf single) (natOfDigits (integer ++ fraction)) (exponent - fraction.length) :=
  bhcomp_eq (fcokOf single) integer fraction hdi hdf hhead hpos exponent hexp1 hexp2 hlen b hb hz hnear

/-- non-vacuity of the digit-count fact behind the truncation: binary64 and binary32 -/
example : 2 ^ 54 * 5 ^ 1075 < 10 ^ 768 ∧ 2 ^ 25 * 5 ^ 150 < 10 ^ 113 := by decide +kernel

/-! ## (vi) the composition -/

/-- **c07_correct_partial** (binary64 targets). For every well-formed literal of fewer than `2^29 - 20` digits,
    `deFloatRoundtrip false p` — `de.rs`'s digit collection followed by `parse_concise_float` /
    `parse_truncated_float` (fast path, moderate path, bhcomp) and `de.rs`'s infinity check and sign — equals
    `Model.Num.convertRoundtrip p`: integers classified, otherwise the binary64 nearest to the exact value with ties
    to even, the sign kept (including `-0.0`), underflow to `±0`, `NumberOutOfRange` iff the rounded value is not
    finite, and the exponent-overflow rule.

    PARTIAL — the two hypotheses that remain:
    * `hmod : ModOk false p` — **the missing lemma `moderate_path_sound`** for the one call `de.rs` makes on `p`
      (`ModerateOk`): if `error_is_accurate` accepts the 80-bit product, rounding it is rounding the exact value; if it
      rejects, the exact value lies in the neighbourhood of the downward-rounded product (or both are infinite). It is
      *false* on the pinned tree for the literals of known finding C07-moderate-truncated (truncated mantissa
      `< 2^61`, mantissa exponent `-230`), so it cannot be discharged unconditionally before that is repaired.
    * `hz : NoZeroTail false p` — not the shape of known finding C07-zero-tail. -/
theorem c07_correct_partial (p : Parts) (wf : WF p) (hlen : (p.int ++ p.frac.getD []).length + 20 < 2 ^ 29)
    (hz : NoZeroTail false p) (hmod : ModOk false p) :
    deFloatRoundtrip false p = convertRoundtrip p := deFloat64_eq p wf hlen hz hmod

/-- non-vacuity: for `0.5` the call is `parse_concise_float(5, -1)`, decided by the fast path; both hypotheses hold
    (the moderate path is not consulted) and both sides are `0x3fe0000000000000` -/
example : deFloatRoundtrip false (Parts.mk false [0x30] (some [0x35]) none []) =
    .f64 0x3fe0000000000000 := by decide +kernel

end SJ.Props.C07
