import SJ.Proofs.C19Utf8Map
import SJ.Props.C19Nested
import SJ.Props.C19Struct
/-!
# C19 — the capture theorems with the UTF-8 hypothesis on the WHOLE input

`c19_top_complete` and `c19_nested_capture` (`SJ/Props/C19Nested.lean`) ask, on byte sources, for the UTF-8
validity of every captured text (what `from_utf8` checks on the capture). Here that hypothesis is replaced by the
UTF-8 validity of the whole input `bs`: a captured text is one grammar value, which starts with an ASCII byte and
is followed by an ASCII byte (whitespace, `,`, `]`) or by the end of the input, so it is cut out of `bs` at
character boundaries (`Proofs.C19Utf8.validUtf8_mid`, over `Proofs.Utf8.validUtf8_ascii_split_eq`: no multi-byte
sequence contains a byte below 0x80).

* `c19_top_complete_valid_input`: for a JSON text `bs = w₁ v w₂` that is valid UTF-8 when the source is a byte
  source, `from_*::<Box<RawValue>>` captures exactly `v`;
* `c19_nested_capture_valid_input`: for an input that is valid UTF-8 when the source is a byte source,
  `from_*::<Vec<Box<RawValue>>>` succeeds with the captures `cs` iff `bs` is `ws [ inner ] ws`, `Inner inner cs`,
  every `cᵢ` one grammar value — no UTF-8 condition on the `cᵢ` is left;
* `c19_nested_complete_valid_input`: every array text that is valid UTF-8 is captured element by element;
* `c19_nested_capture_map_valid_input`, `c19_field_capture_valid_input`: the same for object values and struct fields:
  `MemOK` / `FieldOK` (key decodes to valid UTF-8, value text valid UTF-8) become `KeyLit` (well-formed literal, paired
  escapes, decoding to the key) and "one grammar value": the key literal too is cut out at ASCII bytes, and decoding
  a valid literal gives valid UTF-8 (`Proofs.Utf8.decodeItems_utf8`).

On a `&str` source the hypothesis is void, as in the original theorems. For a byte input that is NOT valid UTF-8
the original theorems remain the statement (success iff the captured texts are valid).
-/
namespace SJ.Props.C19
open SJ SJ.Gen SJ.Model.Machine SJ.Model.Stream SJ.Model.Raw SJ.Proofs.Machine
open SJ.Spec.Grammar (CST Ws Derives JsonText strBytes)
open SJ.Model.RawNested SJ.Proofs.RawNested SJ.Proofs.RawSpan SJ.Proofs.StreamValues SJ.Proofs.Complete
open SJ.Proofs.C19Utf8

/-- **C19 (top level, every value of a valid input is captured).** `c19_top_complete` with the UTF-8 hypothesis
    on the whole input: for a JSON text `w₁ v w₂` which, when the source is a byte source, is valid UTF-8,
    `from_*::<Box<RawValue>>` captures exactly `v`: `bs[|w₁| .. |w₁|+|v|]`. -/
theorem c19_top_complete_valid_input (cfg : Cfg) (src : Src) (w₁ v w₂ : Bytes) (t : CST) (h₁ : Ws w₁) (h₂ : Ws w₂)
    (hd : Derives v t) (hutf : src ≠ .str → Spec.Utf8.validUtf8 (w₁ ++ v ++ w₂) = true) :
    rawTop cfg src (w₁ ++ v ++ w₂) = .ok w₁.length (w₁.length + v.length) :=
  c19_top_complete cfg src w₁ v w₂ t h₁ h₂ hd (fun hs => top_valid w₁ v w₂ t h₂ hd (hutf hs))

/-- non-vacuity: ` "é" ` from a slice: the span 1..5 -/
example : rawTop {} .slice [0x20, 0x22, 0xc3, 0xa9, 0x22, 0x20] = .ok 1 5 :=
  c19_top_complete_valid_input {} .slice [0x20] [0x22, 0xc3, 0xa9, 0x22] [0x20] _ (by decide) (by decide)
    (.str [.raw 0xc3, .raw 0xa9] (by decide)) (fun _ => by decide +kernel)

/-- **C19 (array elements of a valid input, exactly the elements' texts).** `c19_nested_capture` with the UTF-8
    hypothesis on the whole input: if `bs` is valid UTF-8 when the source is a byte source,
    `from_*::<Vec<Box<RawValue>>>` succeeds on `bs` with the captures `cs` **iff** `bs` is `w₀ "[" inner "]" w₃`
    with `w₀`, `w₃` whitespace, `inner` whitespace (`cs = []`) or `ws c₁ ws "," ws c₂ … ws "," ws cₙ ws`, and every
    `cᵢ` one RFC 8259 `value` from its first to its last byte. -/
theorem c19_nested_capture_valid_input (env : SJ.Model.Typed.Env) (hflt : env.flt = false) (bs : Bytes) (v : TVal)
    (hutf : env.src ≠ .str → Spec.Utf8.validUtf8 bs = true) :
    rawSeqTop env bs = .ok v ↔
    ∃ cs w₀ inner w₃, v = .seq (cs.map TVal.str) ∧ bs = w₀ ++ [0x5b] ++ inner ++ [0x5d] ++ w₃ ∧ Ws w₀ ∧ Ws w₃ ∧
      Inner inner cs ∧ ∀ c ∈ cs, ∃ t, Derives c t := by
  rw [c19_nested_capture env hflt bs v]
  constructor
  · rintro ⟨cs, w₀, inner, w₃, hv, hbs, h₀, h₃, hin, hcap⟩
    exact ⟨cs, w₀, inner, w₃, hv, hbs, h₀, h₃, hin, fun c hc => (hcap c hc).1⟩
  · rintro ⟨cs, w₀, inner, w₃, hv, hbs, h₀, h₃, hin, hd⟩
    refine ⟨cs, w₀, inner, w₃, hv, hbs, h₀, h₃, hin, fun c hc => ⟨hd c hc, fun hs => ?_⟩⟩
    have hval := hutf hs
    rw [hbs] at hval
    exact inner_valid cs w₀ inner w₃ hin hd hval c hc

/-- … and every array text that is valid UTF-8 (byte sources) is captured element by element: `c19_nested_complete`
    without the hypothesis on the element texts -/
theorem c19_nested_complete_valid_input (env : SJ.Model.Typed.Env) (hflt : env.flt = false) (bs : Bytes) (ts : List CST)
    (h : JsonText bs (.arr ts)) (hutf : env.src ≠ .str → Spec.Utf8.validUtf8 bs = true) :
    ∃ cs : List Bytes, AllDerive cs ts ∧ rawSeqTop env bs = .ok (.seq (cs.map TVal.str)) := by
  obtain ⟨w₁, v0, w₂, rfl, hw₁, hw₂, hd⟩ := h
  obtain ⟨inner, cs, rfl, hin, hall⟩ := inner_of_derives hd
  refine ⟨cs, hall, ?_⟩
  refine (c19_nested_capture_valid_input env hflt _ _ hutf).mpr
    ⟨cs, w₁, inner, w₂, rfl, by simp [List.append_assoc], hw₁, hw₂, hin, ?_⟩
  intro c hc
  obtain ⟨i, hi, rfl⟩ := List.mem_iff_getElem.mp hc
  obtain ⟨hl, hg⟩ := allDerive_get hall
  exact ⟨ts[i]'(by omega), hg i hi (by omega)⟩

/-- non-vacuity: `["é" ,1]` from a slice: two captures, `"é"` and `1` -/
example : rawSeqTop {} [0x5b, 0x22, 0xc3, 0xa9, 0x22, 0x20, 0x2c, 0x31, 0x5d] =
    .ok (.seq [.str [0x22, 0xc3, 0xa9, 0x22], .str [0x31]]) := rfl
example : Spec.Utf8.validUtf8 [0x5b, 0x22, 0xc3, 0xa9, 0x22, 0x20, 0x2c, 0x31, 0x5d] = true := by decide +kernel

/-! ## object values, struct fields -/

open SJ.Proofs.RawMap SJ.Proofs.RawKey in
/-- **C19 (object values of a valid input).** `c19_nested_capture_map` with the UTF-8 hypothesis on the whole input:
    if `bs` is valid UTF-8 when the source is a byte source, the map of `Box<RawValue>` succeeds with the entries
    `(sᵢ, cᵢ)` **iff** `bs = w₀ "{" inner "}" w₃`, `MInner inner ms`, every key a well-formed literal with paired
    escapes decoding to `sᵢ` (`KeyLit`) and every `cᵢ` one RFC 8259 `value` from its first to its last byte. -/
theorem c19_nested_capture_map_valid_input (env : SJ.Model.Typed.Env) (hflt : env.flt = false) (bs : Bytes) (v : TVal)
    (hutf : env.src ≠ .str → Spec.Utf8.validUtf8 bs = true) :
    rawMapTop env bs = .ok v ↔
    ∃ (ms : List Mem) (w₀ inner w₃ : Bytes), v = .map (ms.map memVal) ∧ bs = w₀ ++ [0x7b] ++ inner ++ [0x7d] ++ w₃ ∧
      Ws w₀ ∧ Ws w₃ ∧ MInner inner ms ∧ ∀ m ∈ ms, KeyLit m.1 m.2.1 ∧ ∃ t, Derives m.2.2 t := by
  rw [c19_nested_capture_map env hflt bs v]
  constructor
  · rintro ⟨ms, w₀, inner, w₃, hv, hbs, h₀, h₃, hin, hcap⟩
    exact ⟨ms, w₀, inner, w₃, hv, hbs, h₀, h₃, hin, fun m hm => ⟨keyLit_of_ok (hcap m hm).1, (hcap m hm).2.1⟩⟩
  · rintro ⟨ms, w₀, inner, w₃, hv, hbs, h₀, h₃, hin, hd⟩
    refine ⟨ms, w₀, inner, w₃, hv, hbs, h₀, h₃, hin, fun m hm => ?_⟩
    have hval : env.src ≠ .str → Spec.Utf8.validUtf8 (strBytes m.1) = true ∧ Spec.Utf8.validUtf8 m.2.2 = true := by
      intro hs
      have hval := hutf hs
      rw [hbs] at hval
      exact minner_valid ms w₀ inner w₃ hin (fun m hm => (hd m hm).2) hval m hm
    exact ⟨keyOK_of_valid env (hd m hm).1 (fun hs => (hval hs).1), (hd m hm).2, fun hs => (hval hs).2⟩

open SJ.Proofs.RawMap SJ.Proofs.RawKey SJ.Proofs.RawStruct SJ.Model.RawStruct in
/-- **C19 (struct fields of a valid input).** `c19_field_capture` with the UTF-8 hypothesis on the whole input: if `bs`
    is valid UTF-8 when the source is a byte source, `from_*::<S>` (all fields `Box<RawValue>` /
    `Option<Box<RawValue>>`, object form) succeeds with `v` **iff** `bs = w₀ "{" inner "}" w₃`, `MInner inner ms`, every
    key a well-formed literal with paired escapes decoding to its name, every member value one RFC 8259 `value` from its
    first to its last byte, derive's visitor accepts the member sequence (`assign`, `finishSlots`) and `v` is the struct
    of the slots' values. -/
theorem c19_field_capture_valid_input (env : SJ.Model.Typed.Env) (hflt : env.flt = false) (fs : List (Bytes × FieldTy))
    (hfs : RawOnly fs) (deny : Bool) (bs : Bytes) (v : TVal) (hutf : env.src ≠ .str → Spec.Utf8.validUtf8 bs = true) :
    (rawStructTop env fs deny bs = .ok v ∧ ∃ w r, Ws w ∧ bs = w ++ 0x7b :: r) ↔
    ∃ (ms : List Mem) (w₀ inner w₃ : Bytes) (slots : List (Option TVal)) (vs : List TVal), v = .struct_ vs ∧
      bs = w₀ ++ [0x7b] ++ inner ++ [0x7d] ++ w₃ ∧ Ws w₀ ∧ Ws w₃ ∧ MInner inner ms ∧
      (∀ m ∈ ms, KeyLit m.1 m.2.1 ∧ ∃ t, Derives m.2.2 t) ∧
      assign fs deny ms (fs.map fun _ => none) = some slots ∧ finishSlots fs slots = .ok vs := by
  rw [c19_field_capture env hflt fs hfs deny bs v]
  constructor
  · rintro ⟨ms, w₀, inner, w₃, slots, vs, hv, hbs, h₀, h₃, hin, hok, hass, hfin⟩
    exact ⟨ms, w₀, inner, w₃, slots, vs, hv, hbs, h₀, h₃, hin, fun m hm => ⟨keyLit_of_ok (hok m hm).1, (hok m hm).2.1⟩, hass, hfin⟩
  · rintro ⟨ms, w₀, inner, w₃, slots, vs, hv, hbs, h₀, h₃, hin, hd, hass, hfin⟩
    refine ⟨ms, w₀, inner, w₃, slots, vs, hv, hbs, h₀, h₃, hin, fun m hm => ?_, hass, hfin⟩
    have hval : env.src ≠ .str → Spec.Utf8.validUtf8 (strBytes m.1) = true ∧ Spec.Utf8.validUtf8 m.2.2 = true := by
      intro hs
      have hval := hutf hs
      rw [hbs] at hval
      exact minner_valid ms w₀ inner w₃ hin (fun m hm => (hd m hm).2) hval m hm
    exact ⟨keyOK_of_valid env (hd m hm).1 (fun hs => (hval hs).1), (hd m hm).2, fun _ hs => (hval hs).2⟩

/-- non-vacuity: `{"é":"é"}` from a slice: one entry, key `é`, value text `"é"`; the input is valid UTF-8 -/
example : rawMapTop {} [0x7b, 0x22, 0xc3, 0xa9, 0x22, 0x3a, 0x22, 0xc3, 0xa9, 0x22, 0x7d] =
    .ok (.map [(.str [0xc3, 0xa9], .str [0x22, 0xc3, 0xa9, 0x22])]) := rfl
example : Spec.Utf8.validUtf8 [0x7b, 0x22, 0xc3, 0xa9, 0x22, 0x3a, 0x22, 0xc3, 0xa9, 0x22, 0x7d] = true := by decide +kernel

end SJ.Props.C19
