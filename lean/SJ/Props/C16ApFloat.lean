import SJ.Props.C16Ap
import SJ.Proofs.TypedAgreeApFr
/-!
# C16 under `arbitrary_precision` and `float_roundtrip`: the float hypothesis of `c16_text_agrees_ap_partial` follows from C07

(A separate module: C07's proofs use Mathlib tactics, which `SJ.Props.C16Ap` does not import.)
-/
namespace SJ.Props.C16
open SJ SJ.Model.FromValue

/-- **the float hypothesis of `c16_text_agrees_ap_partial` under `float_roundtrip`** (`apAccurate true`): it holds wherever the
    literals that meet an `f64` target are RFC 8259 numbers shorter than `2^29 − 20` bytes whose exponent digits pass de.rs's
    `i32` guard (`apLitBounded`) — by C07 (`deFloat64_nearest`: de.rs + lexical return the binary64 nearest to the exact
    value) and, for an integer literal within `u64` / `i64`, because serde's visitor casts the parsed integer (`as f64`). -/
theorem c16_ap_accurate_fr (s : Schema) (v : JV) (h : s.allPos apLitBounded v = true) : s.allPos (apAccurate true) v = true :=
  Proofs.Typed.allPos_accurate_fr s v h

/-- **C16, the text leg under `arbitrary_precision` + `float_roundtrip`.** As `c16_text_agrees_ap_partial` without the float
    hypothesis: the three exclusions (= the three open findings) remain, and the literals that meet an `f64` target are
    bounded (`apLitBounded`: shorter than `2^29 − 20` bytes, exponent digits within de.rs's `i32` guard — C07's domain). -/
theorem c16_text_agrees_ap_fr (mcfg : Model.Machine.Cfg) (hap : mcfg.ap = true) (hfr : mcfg.fr = true) (src : Model.Machine.Src)
    (ext : Spec.Program.Ext) (hext : Spec.Program.ExtOK ext) (ext' : Ext) (s : Schema) (hs : Proofs.Typed.agreeFrag2 s = true)
    (v : JV) (hv : Spec.WF.shapeOK (Proofs.CanonM.specCfg mcfg) v = true)
    (hNegZero : s.allPos (fun s v => !apNegZero s v) v = true)
    (hFinite : s.allPos (fun s v => !apNonFinite s v) v = true)
    (hAnyFixed : s.allPos (fun s v => !apAnyMoved ext' s v) v = true)
    (hBounded : s.allPos apLitBounded v = true)
    (hx : s.svArr v = false)
    (hd : mcfg.limitOff = true ∨ Spec.WF.depthJV v ≤ 127) :
    ∃ bufs, Model.Ser.serCompact ext (Model.Ser.ofValue v) = .ok bufs ∧
      (match fromValue { po := mcfg.po, fr := mcfg.fr, ap := true } ext' s v with
       | .ok t => Model.Typed.deTypedTop { cfg := mcfg, src := src } s bufs.flatten = .ok t
       | .error _ => ∀ t, Model.Typed.deTypedTop { cfg := mcfg, src := src } s bufs.flatten ≠ .ok t) :=
  c16_text_agrees_ap_partial mcfg hap src ext hext ext' s hs v hv hNegZero hFinite hAnyFixed
    (by rw [hfr]; exact c16_ap_accurate_fr s v hBounded) hx hd

/-- non-vacuity: `[0.1, 1e22, 3]` as `Vec<f64>` satisfies the side condition (and hence the float hypothesis) -/
example : (Schema.seq .f64).allPos apLitBounded
    (.arr [.num (.lit [0x30, 0x2e, 0x31]), .num (.lit [0x31, 0x65, 0x32, 0x32]), .num (.lit [0x33])]) = true := by decide +kernel

end SJ.Props.C16
