import SJ.Proofs.RawFault
import SJ.Props.C13
import SJ.Props.Typed
/-!
# C13 — a `RawValue` read from a reader that fails (raw_value builds)

`Model.IoFault.rawFault cfg bs` is the model op `rfault raw` compares the crate with: `from_reader::<Box<RawValue>>`
over a reader that delivers `bs` and then fails. It is DEFINED from the clean run `Model.Raw.rawTop cfg .reader bs`
(every point at which the clean run meets the end of input meets the fault instead). Here:

* `c13_raw_fault`, `c13_raw_fault_io`: what that definition amounts to, in the shape of `c13_read` /
  `c13_typed_fault_eq` — `Io`, or exactly the clean run's error, which is then Syntax-classified and positioned within
  the delivered bytes; never a value, never `Eof`-classified;
* `c13_raw_fault_steps`: the same statement for the byte-by-byte transcription — `deserialize_raw_value` of the typed
  model run with `flt := true` (`Model.RawNested.rawOneTop`: every `peek`/`next` beyond the delivered bytes is
  `Error::io`, the raw buffer is checked with `from_utf8`, then `end()`), against its own clean run, which IS `rawTop`
  (`c13_raw_clean_is_rawTop`);
* `c13_raw_fault_agrees`: that transcription and `rawFault` give the same answer on every input (exactly).
-/
namespace SJ.Props.C13
open SJ SJ.Gen SJ.Model SJ.Model.Typed SJ.Model.RawNested SJ.Proofs.Typed SJ.Proofs.RawSim SJ.Proofs.RawFault
open SJ.Model.IoFault (rawFault)
open SJ.Model.Raw (rawTop)
open SJ.Model.Machine (Src init)
open SJ.Model.Stream (skipWs)
open SJ.Props.Typed (Top.isErr)

/-- **C13 (reader, raw values).** With a reader that fails after delivering `bs`, `from_reader::<Box<RawValue>>` returns
    `Io`, or EXACTLY the error (code and index, hence message, line and column) that the same bytes followed by a clean
    end of input produce — and then that error is Syntax-classified (a defect of the delivered bytes: a byte the scanner
    rejects, a captured text that is not UTF-8, a non-whitespace byte after the value) and positioned within the
    delivered bytes. Never a value, never an `Eof`-classified error. -/
theorem c13_raw_fault (cfg : Machine.Cfg) (bs : Bytes) :
    rawFault cfg bs = .io ∨
    ∃ c i, rawFault cfg bs = .err c i ∧ rawTop cfg .reader bs = .err c i ∧ classify c = .syntax ∧ i ≤ bs.length := by
  unfold rawFault
  cases h : rawTop cfg .reader bs with
  | ok p e => exact .inl rfl
  | err c i =>
    obtain ⟨hc, hi⟩ := rawTop_err cfg .reader bs c i h
    rcases hc with hc | hc
    · right
      refine ⟨c, i, ?_, rfl, hc, hi⟩
      simp [hc]
    · left; simp [hc]

/-- … and it is `Io` exactly when the clean run accepts (the document is complete: `end()` asks for one more byte) or
    ends `Eof`-classified (the scanner wanted more input) -/
theorem c13_raw_fault_io (cfg : Machine.Cfg) (bs : Bytes) :
    rawFault cfg bs = .io ↔
      ((∃ p e, rawTop cfg .reader bs = .ok p e) ∨ ∃ c i, rawTop cfg .reader bs = .err c i ∧ classify c = .eof) := by
  unfold rawFault
  cases h : rawTop cfg .reader bs with
  | ok p e => simp
  | err c i =>
    by_cases hc : classify c = .eof
    · simp [hc]
    · simp [hc]

/-- the clean run of the typed model's entry point is `rawTop` (`Model.Raw`), for every source -/
theorem c13_raw_clean_is_rawTop (cfg : Machine.Cfg) (src : Src) (bs : Bytes) :
    rawOneTop { cfg := cfg, src := src, flt := false } bs = topOfRaw bs (rawTop cfg src bs) :=
  rawOneTop_clean cfg src bs

theorem fc_rawOneTop (cfg : Machine.Cfg) (src : Src) (bs : Bytes) :
    rawOneTop (eFault cfg src) bs = .io ∨ rawOneTop (eFault cfg src) bs = rawOneTop (eClean cfg src) bs := by
  unfold rawOneTop
  rcases sim_deRaw (sim_fault_clean cfg src) rfl bs 0 trivial with h | h
  · left; rw [h]; rfl
  · rw [h]
    cases deRaw (eClean cfg src) bs 0 with
    | ok v rest pos =>
      simp only [finishTop]
      split
      · exact .inl rfl
      · exact .inr rfl
    | _ => exact .inr rfl

/-- **C13 (reader, raw values, byte by byte).** `deserialize_raw_value` + `end()` of the typed model with a reader that
    fails after `bs` (every request for a byte beyond `bs` is `Error::io`), any source model and configuration: the
    outcome is `Io`, or EXACTLY the outcome of the same bytes followed by a clean end of input, which is then a
    Syntax-classified parser error positioned within `bs` — the statement of `c13_typed_fault_eq` for this entry
    point. -/
theorem c13_raw_fault_steps (cfg : Machine.Cfg) (src : Src) (bs : Bytes) :
    rawOneTop { cfg := cfg, src := src, flt := true } bs = .io ∨
    (rawOneTop { cfg := cfg, src := src, flt := true } bs = rawOneTop { cfg := cfg, src := src, flt := false } bs ∧
      ∃ c i, rawOneTop { cfg := cfg, src := src, flt := true } bs = .err c i ∧ classify c = .syntax ∧ i ≤ bs.length) := by
  show rawOneTop (eFault cfg src) bs = .io ∨ (rawOneTop (eFault cfg src) bs = rawOneTop (eClean cfg src) bs ∧
    ∃ c i, rawOneTop (eFault cfg src) bs = .err c i ∧ classify c = .syntax ∧ i ≤ bs.length)
  have key : rawOneTop (eFault cfg src) bs = .io ∨
      ∃ c i, rawOneTop (eFault cfg src) bs = .err c i ∧ classify c = .syntax ∧ i ≤ bs.length := by
    have hs : Syn (deRaw (eFault cfg src) bs 0) := syn_deRaw rfl bs 0
    have hw : Win bs.length (deRaw (eFault cfg src) bs 0) := win_deRaw bs 0 (by omega)
    unfold rawOneTop
    rcases deRaw_cases (eFault cfg src) bs 0 with ⟨c, rest, pos, hd⟩ | ⟨c, i, hd⟩ | hd
    · have hp := hw.2.2.2 _ _ _ hd
      have hsk := skipWs_pos rest pos
      rw [hd]
      simp only [finishTop]
      generalize skipWs rest pos = y at hsk
      obtain ⟨l, q⟩ := y
      cases l with
      | nil => left; simp [eFault]
      | cons b l' =>
        right
        simp only [List.length_cons] at hsk
        exact ⟨.TrailingCharacters, q + 1, rfl, rfl, by omega⟩
    · rw [hd]; exact .inr ⟨c, i, rfl, hs c i hd, hw.1 c i hd⟩
    · rw [hd]; exact .inl rfl
  rcases fc_rawOneTop cfg src bs with h | h
  · exact .inl h
  · rcases key with hk | hk
    · exact .inl hk
    · exact .inr ⟨h, hk⟩

/-- `rawFault`'s answer as an outcome of the typed model -/
def topOfFault : IoFault.ROut → Top
  | .io => .io
  | .err c i => .err c i

/-- **C13 (reader, raw values): the two models agree.** The byte-by-byte transcription under a failing reader
    (`rawOneTop` with `src := .reader`, `flt := true`) returns exactly what `rawFault` — the model defined from the
    clean run, the one op `rfault raw` compares the crate with — returns, on every input and configuration. The one
    place where the fault could pre-empt an error of the clean run that is not raised on a delivered byte by the
    scanner — the `from_utf8` check of the raw buffer, made only after `ignore_value` has returned — does not arise:
    `ignore_value` asks for a byte beyond a COMPLETE value only after a bare number, and a number literal is ASCII
    (`io_ok_ascii`). -/
theorem c13_raw_fault_agrees (cfg : Machine.Cfg) (bs : Bytes) :
    rawOneTop { cfg := cfg, src := .reader, flt := true } bs = topOfFault (rawFault cfg bs) := by
  show rawOneTop (eFault cfg .reader) bs = topOfFault (rawFault cfg bs)
  have hsteps := c13_raw_fault_steps cfg .reader bs
  have hclean := rawOneTop_clean cfg .reader bs
  change rawOneTop (eFault cfg .reader) bs = .io ∨ (rawOneTop (eFault cfg .reader) bs = rawOneTop (eClean cfg .reader) bs ∧
    ∃ c i, rawOneTop (eFault cfg .reader) bs = .err c i ∧ classify c = .syntax ∧ i ≤ bs.length) at hsteps
  change rawOneTop (eClean cfg .reader) bs = _ at hclean
  unfold rawFault
  cases hr : rawTop cfg .reader bs with
  | ok p e =>
    rw [hr] at hclean
    rcases hsteps with h | ⟨h, c, i, h', _⟩
    · rw [h]; rfl
    · rw [h, hclean] at h'; cases h'
  | err c i =>
    rw [hr] at hclean
    simp only [topOfRaw] at hclean
    by_cases hc : classify c = .eof
    · simp only [hc, beq_self_eq_true, if_true, topOfFault]
      rcases hsteps with h | ⟨h, c', i', h', hs, _⟩
      · exact h
      · rw [h, hclean] at h'
        simp only [Top.err.injEq] at h'
        rw [← h'.1, hc] at hs; cases hs
    · have hne : (classify c == Cat.eof) = false := by simpa using hc
      simp only [hne, Bool.false_eq_true, if_false, topOfFault]
      rcases hsteps with h | ⟨h, _⟩
      · -- the fault surfaced although the clean run fails on a delivered byte: impossible
        exfalso
        have hfc := sim_deRaw (sim_fault_clean cfg .reader) rfl bs 0 trivial
        unfold rawOneTop at h hclean
        rcases deRaw_cases (eFault cfg .reader) bs 0 with ⟨t, rest, pos, hd⟩ | ⟨c', i', hd⟩ | hd
        · -- the fault run captured a value: so did the clean run
          rcases hfc with hio | heq
          · rw [hd] at hio; cases hio
          · rw [hd] at heq h
            rw [← heq] at hclean
            simp only [finishTop] at h hclean
            generalize skipWs rest pos = y at h hclean
            obtain ⟨l, q⟩ := y
            cases l with
            | nil => simp [eClean] at hclean
            | cons b l' => cases h
        · rw [hd] at h; cases h
        · -- `Io` inside `deserialize_raw_value`: inside the scanner
          rw [deRaw_eq] at hd hclean
          generalize (skipWs bs 0).1 = r at hd hclean
          generalize (skipWs bs 0).2 = p at hd hclean
          have hmF : runPfx (ignEnv (eFault cfg .reader)) true 0 init p r = .io := by
            unfold machine at hd
            change (match runPfx (ignEnv (eFault cfg .reader)) true 0 init p r with
              | .ok v e => _ | .err c i => _ | .io => _ : Res JV).bind _ = _ at hd
            cases hm : runPfx (ignEnv (eFault cfg .reader)) true 0 init p r with
            | ok v e => rw [hm] at hd; simp only [Res.bind] at hd; split at hd <;> cases hd
            | err c i => rw [hm] at hd; cases hd
            | io => rfl
          unfold machine at hclean
          change finishTop (eClean cfg .reader) ((match runPfx (ignEnv (eFault cfg .reader)) false 0 init p r with
              | .ok v e => _ | .err c i => _ | .io => _ : Res JV).bind _) = _ at hclean
          cases hmC : runPfx (ignEnv (eFault cfg .reader)) false 0 init p r with
          | err c' i' =>
            rw [hmC] at hclean
            simp only [Res.bind, finishTop, Top.err.injEq] at hclean
            have := runPfx_clean_err_fault _ 0 (fun s c h => finishT_ignored_eof cfg .reader s c h) r init p c' i' hmC
              (by rw [hclean.1]; exact hc)
            have hx : MOut.err c' i' = MOut.io := this.symm.trans hmF
            cases hx
          | io =>
            rw [SJ.Proofs.RawSpan.runPfx_false_eq] at hmC
            split at hmC <;> cases hmC
          | ok v e =>
            have he := runPfx_io_end _ 0 r init p v e hmF hmC
            have hasc := io_ok_ascii _ r p v e hmF hmC
            have hvalid : Spec.Utf8.validUtf8 (r.take (e - p)) = true :=
              SJ.Proofs.Utf8.validUtf8_of_ascii _ fun x hx => hasc x (List.mem_of_mem_take hx)
            rw [hmC] at hclean
            simp only [Res.bind, eClean, hvalid, Bool.not_true, Bool.and_false, Bool.false_eq_true, if_false] at hclean
            have hdrop : r.drop (e - p) = [] := by
              apply List.drop_eq_nil_of_le; omega
            rw [hdrop] at hclean
            simp [finishTop, skipWs] at hclean
      · rw [h, hclean]

/-- non-vacuity: ` [1,]` then a fault: the `]` after the comma is rejected by the scanner (`ExpectedSomeValue`, index 5), not `Io`; ` [1,` then a fault: `Io`;
    `"\xff"` then a fault: the captured text is not UTF-8 (index 3); `1 x`: trailing characters (index 3) -/
example : rawFault {} [0x20, 0x5b, 0x31, 0x2c, 0x5d] = .err .ExpectedSomeValue 5 := rfl
example : rawFault {} [0x20, 0x5b, 0x31, 0x2c] = .io := rfl
example : rawFault {} [0x22, 0xff, 0x22] = .err .InvalidUnicodeCodePoint 3 := rfl
example : rawFault {} [0x31, 0x20, 0x78] = .err .TrailingCharacters 3 := rfl
example : rawFault {} [0x5b, 0x31, 0x5d] = .io := rfl
example : Top.isErr (rawOneTop { src := .reader, flt := true } [0x20, 0x5b, 0x31, 0x2c, 0x5d]) .ExpectedSomeValue 5 = true := by
  decide +kernel
example : (match rawOneTop { src := .reader, flt := true } [0x5b, 0x31, 0x5d] with | .io => true | _ => false) = true := by
  decide +kernel

end SJ.Props.C13
