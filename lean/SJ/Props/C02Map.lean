import SJ.Proofs.MkObj
/-!
# C02 (map level) — what object the parser builds from the members of `{ … }`

"An object holds one entry per distinct key carrying the last duplicate's value; objects iterate in
ascending key order by default and in first-occurrence order under `preserve_order`."

`Model.Machine.mkObj cfg ms` is the parser's construction: `BTreeMap::insert` (`btInsert`), or
`IndexMap::insert` (`ixInsert`) under `cfg.po`, folded over the members `ms` in source order.
`Spec.Canon.objectOf` is the declarative specification. Keys are UTF-8 byte lists; `bytesLt` is the
lexicographic byte order (= Rust's `Ord for String`). An object is its entry list in iteration order.
-/
namespace SJ.Props.C02Map
open SJ SJ.Model.Machine SJ.Proofs.CanonM SJ.Proofs.MkObj

/-- **`bytesLt` is a strict total order** (irreflexive, transitive, trichotomous), the same function
    in model and specification, and it is the lexicographic order `<` of `List UInt8`. -/
theorem c02_bytesLt_strict_total_order :
    Model.Machine.bytesLt = Spec.Canon.bytesLt ∧
    (∀ a, bytesLt a a = false) ∧
    (∀ a b c, bytesLt a b = true → bytesLt b c = true → bytesLt a c = true) ∧
    (∀ a b, bytesLt a b = true ∨ a = b ∨ bytesLt b a = true) ∧
    (∀ a b : Bytes, bytesLt a b = true ↔ a < b) :=
  ⟨bytesLt_eq, bytesLt_irrefl, fun _ _ _ => bytesLt_trans, bytesLt_total, bytesLt_iff_lt⟩

example : bytesLt [0x61] [0x61, 0x00] = true ∧ bytesLt [0x61, 0xff] [0x62] = true ∧
    bytesLt [0x7f] [0x80] = true ∧ bytesLt [] [] = false := by decide

/-- **The parser's object is the specified object**, in both builds, for every member list
    (duplicates included). -/
theorem c02_mkObj_eq_objectOf (cfg : Cfg) (ms : List (Bytes × JV)) :
    mkObj cfg ms = Spec.Canon.objectOf (specCfg cfg) ms :=
  mkObj_eq_objectOf cfg ms

/-- …hence the denotation with machine-built objects is the specified denotation. -/
theorem c02_canonM_eq_canon (cfg : Cfg) (t : Spec.Grammar.CST) :
    canonM cfg t = Spec.Canon.canon (specCfg cfg) t :=
  canonM_eq_canon cfg t

/-- **No key twice.** -/
theorem c02_object_keys_distinct (cfg : Cfg) (ms kvs : List (Bytes × JV))
    (h : mkObj cfg ms = .obj kvs) : (kvs.map Prod.fst).Nodup := by
  rw [mkObj_eq_build] at h; cases h
  exact nodup_keys_build cfg ms

/-- **The last duplicate wins; nothing else is in the object.** If `(k, v)` is the last member of
    `ms` with key `k`, looking `k` up in the object gives `v`; a key that does not occur in `ms` is
    not a key of the object. (Every key of `ms` has a last occurrence, so with
    `c02_object_keys_distinct` this determines the entry set.) -/
theorem c02_object_last_duplicate_wins (cfg : Cfg) (ms kvs : List (Bytes × JV)) (k : Bytes)
    (h : mkObj cfg ms = .obj kvs) :
    (∀ pre v post, ms = pre ++ (k, v) :: post → k ∉ post.map Prod.fst → kvs.lookup k = some v) ∧
    (k ∉ ms.map Prod.fst → k ∉ kvs.map Prod.fst ∧ kvs.lookup k = none) := by
  rw [mkObj_eq_build] at h; cases h
  constructor
  · rintro pre v post rfl hk
    rw [← find_eq_lookup, find_build, lookupLast_of_last _ _ _ _ hk]
  · intro hk
    have : k ∉ keys (build cfg ms) := by rw [mem_keys_build]; exact hk
    exact ⟨this, by rw [← find_eq_lookup]; exact find_none_of_not_mem this⟩

/-- **Default build: ascending key order** (strictly, w.r.t. `bytesLt` = Rust `String` order). -/
theorem c02_object_sorted_default (cfg : Cfg) (hpo : cfg.po = false) (ms kvs : List (Bytes × JV))
    (h : mkObj cfg ms = .obj kvs) :
    (kvs.map Prod.fst).Pairwise (fun a b => bytesLt a b = true) := by
  rw [mkObj_eq_build] at h; cases h
  exact (keys_build_bt cfg hpo ms).2

/-- `firstOccurrences`, used below, is: keep the head, drop its later repetitions. -/
example (k : Bytes) (r : List Bytes) :
    firstOccurrences [] = [] ∧
    firstOccurrences (k :: r) = k :: (firstOccurrences r).filter (· != k) := ⟨rfl, rfl⟩

example : firstOccurrences [[0x62], [0x61], [0x62], [0x63], [0x61]] = [[0x62], [0x61], [0x63]] := by
  decide

/-- **`preserve_order`: first-occurrence order.** The key sequence of the object is the sequence of
    distinct keys of `ms` in the order in which they first occur. -/
theorem c02_object_first_occurrence_order (cfg : Cfg) (hpo : cfg.po = true)
    (ms kvs : List (Bytes × JV)) (h : mkObj cfg ms = .obj kvs) :
    kvs.map Prod.fst = firstOccurrences (ms.map Prod.fst) := by
  rw [mkObj_eq_build] at h; cases h
  rw [← keys, keys_build_ix cfg hpo ms, distinctKeys_nil]; rfl

/-! ## non-vacuity: `{"b":1,"a":2,"b":3}` -/

def exMs : List (Bytes × JV) :=
  [([0x62], .num (.pos 1)), ([0x61], .num (.pos 2)), ([0x62], .num (.pos 3))]

/-- default build: `{"a":2,"b":3}` -/
example : mkObj {} exMs = .obj [([0x61], .num (.pos 2)), ([0x62], .num (.pos 3))] := by
  simp [mkObj, exMs, btInsert, bytesLt]

/-- `preserve_order`: `{"b":3,"a":2}` -/
example : mkObj { po := true } exMs = .obj [([0x62], .num (.pos 3)), ([0x61], .num (.pos 2))] := by
  simp [mkObj, exMs, ixInsert]

example (kvs : List (Bytes × JV)) (h : mkObj {} exMs = .obj kvs) :
    kvs.lookup [0x62] = some (.num (.pos 3)) :=
  (c02_object_last_duplicate_wins {} exMs kvs [0x62] h).1
    [([0x62], .num (.pos 1)), ([0x61], .num (.pos 2))] _ [] rfl (by simp)

example (kvs : List (Bytes × JV)) (h : mkObj {} exMs = .obj kvs) : kvs.lookup [0x63] = none :=
  ((c02_object_last_duplicate_wins {} exMs kvs [0x63] h).2 (by decide)).2

example (kvs : List (Bytes × JV)) (h : mkObj { po := true } exMs = .obj kvs) :
    kvs.map Prod.fst = [[0x62], [0x61]] := by
  rw [c02_object_first_occurrence_order _ rfl exMs kvs h]; decide

end SJ.Props.C02Map
