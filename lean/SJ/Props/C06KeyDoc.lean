import SJ.Proofs.C06KeyDoc
import SJ.Props.C06Via
/-!
# C06 — the quoted integer key, on the whole document `{"lit":value}`

`c06_via_value` (`C06Via.lean`) proves the quoted-key clause at `MapKey::deserialize_iN`
(`Model.Typed.keyInt` on `"lit"` followed by any rest, which is left unread). Here the object around the key is
part of the theorem: `Model.Typed.deTypedTop` with the schema `map (int w) s` — `serde_json::from_str::<BTreeMap<iN, S>>` —
on the document `{"lit":value}`, every width, configuration and source, every number literal of the grammar
(the class of inputs `c06_via_value` quantifies over), and any value schema / value text that its own `deTyped`
reads up to the closing brace. Lemmas: `SJ/Proofs/C06KeyDoc.lean` (`deserialize_map`, `next_key_seed`,
`parse_object_colon`, `next_value_seed`, `end_map`, `Deserializer::end` unfolded on this surrounding, with the
key-level lemma `keyInt_lit` plugged in).
-/

namespace SJ.Props.C06
open SJ SJ.Model SJ.Model.Typed SJ.Model.ViaValue SJ.Spec.NumberAcc SJ.Proofs.ViaValue SJ.Proofs.C06KeyDoc
open SJ.Spec.Grammar (NumParts)
open SJ.Proofs.NumLinkParser (litOf)

/-- **C06 (quoted key, whole document; any value).** For every integer width `w` (all ten of `IntTy`), every
    configuration and source, every number literal `p` of the RFC 8259 grammar (`l` = the literal as the
    specification reads it, `targetInt w l` = the statement's verdict: the mathematical value when `l` has no
    fraction/exponent, is not `-0` for the 8–64-bit targets and lies in `w`'s range; nothing otherwise), and every
    value schema `s` with a value text `vb` that `s`'s own deserialisation (one container open) reads up to the
    closing brace, yielding `v`:

    `from_str::<BTreeMap<w, S>>("{\"" ++ lit ++ "\":" ++ vb ++ "}")` (`Model.Typed.deTypedTop` on the schema
    `map (int w) s`)

    * returns the one-entry map `lit ↦ v` whose key is the literal's mathematical value when the verdict is that
      value (the trailing end-of-input check of `Deserializer::end` included);
    * returns no value when the verdict is "rejected" (out of range, `-0`, fraction, exponent) — an error; which
      class is not stated, as the key-level theorem does not state it either;
    * so it is accepted exactly when the key-level theorem's `textKeyInt` (for any rest and position) is, with the
      same integer. Never a wrapped, truncated or saturated key. -/
theorem c06_key_doc (cfg : Machine.Cfg) (src : Machine.Src) (w : IntTy) (p : NumParts) (hwf : p.WF = true)
    (s : Schema) (vb : Bytes) (v : TVal)
    (hval : ∀ pos, deTyped { cfg := cfg, src := src } (Schema.size s + 1) 1 s (vb ++ [0x7d]) pos =
      .ok v [0x7d] (pos + vb.length)) :
    (∀ x, targetInt w (litOf p) = some x →
      deTypedTop { cfg := cfg, src := src } (.map (.int w) s) ([0x7b, 0x22] ++ p.bytes ++ [0x22, 0x3a] ++ vb ++ [0x7d]) =
        .ok (.map [(.int x, v)])) ∧
    (targetInt w (litOf p) = none →
      ∀ v', deTypedTop { cfg := cfg, src := src } (.map (.int w) s) ([0x7b, 0x22] ++ p.bytes ++ [0x22, 0x3a] ++ vb ++ [0x7d]) ≠
        .ok v') ∧
    (∀ rest pos x,
      deTypedTop { cfg := cfg, src := src } (.map (.int w) s) ([0x7b, 0x22] ++ p.bytes ++ [0x22, 0x3a] ++ vb ++ [0x7d]) =
          .ok (.map [(.int x, v)]) ↔
        textKeyInt cfg src w p.bytes rest pos = some (x, rest, pos + p.bytes.length + 2)) := by
  have hflt : ({ cfg := cfg, src := src } : Env).flt = false := rfl
  have h := deTypedTop_keyDoc hflt w p hwf s vb v hval
  rw [keyDoc_eq] at h
  refine ⟨h.1, h.2, ?_⟩
  intro rest pos x
  rw [textKeyInt_lit cfg src w p hwf rest pos]
  cases htg : targetInt w (litOf p) with
  | none =>
    constructor
    · intro hd; exact absurd hd (h.2 htg _)
    · intro hk; cases hk
  | some y =>
    rw [h.1 y htg]
    simp only [Option.map_some, Option.some.injEq, Prod.mk.injEq, and_true, Top.ok.injEq, TVal.map.injEq,
      List.cons.injEq, TVal.int.injEq]

/-- **C06 (quoted key, whole document `{"lit":true}`).** The instance with a `bool` value:
    `from_str::<BTreeMap<w, bool>>("{\"" ++ lit ++ "\":true}")` is `{lit ↦ true}` with the literal's mathematical
    value as key exactly when the verdict `targetInt w l` is that value, and an error otherwise — every width,
    configuration and source, every number literal. -/
theorem c06_key_doc_bool (cfg : Machine.Cfg) (src : Machine.Src) (w : IntTy) (p : NumParts) (hwf : p.WF = true) :
    (∀ x, targetInt w (litOf p) = some x →
      deTypedTop { cfg := cfg, src := src } (.map (.int w) .bool)
          ([0x7b, 0x22] ++ p.bytes ++ [0x22, 0x3a] ++ [0x74, 0x72, 0x75, 0x65] ++ [0x7d]) =
        .ok (.map [(.int x, .bool true)])) ∧
    (targetInt w (litOf p) = none →
      ∀ v', deTypedTop { cfg := cfg, src := src } (.map (.int w) .bool)
          ([0x7b, 0x22] ++ p.bytes ++ [0x22, 0x3a] ++ [0x74, 0x72, 0x75, 0x65] ++ [0x7d]) ≠ .ok v') ∧
    (∀ rest pos x,
      deTypedTop { cfg := cfg, src := src } (.map (.int w) .bool)
          ([0x7b, 0x22] ++ p.bytes ++ [0x22, 0x3a] ++ [0x74, 0x72, 0x75, 0x65] ++ [0x7d]) =
          .ok (.map [(.int x, .bool true)]) ↔
        textKeyInt cfg src w p.bytes rest pos = some (x, rest, pos + p.bytes.length + 2)) :=
  c06_key_doc cfg src w p hwf .bool [0x74, 0x72, 0x75, 0x65] (.bool true)
    (fun pos => deTyped_true_close { cfg := cfg, src := src } (Schema.size .bool) 1 pos)

/-- Bool tests on a document's outcome, for the kernel-evaluated examples -/
def docIs (o : Top) (v : TVal) : Bool := match o with | .ok v' => v' == v | _ => false
/-- rejected with a genuine error (syntax or data), not by the model's fuel or an I/O fault -/
def docRejected (o : Top) : Bool := match o with | .err _ _ => true | .data _ => true | _ => false

/-- non-vacuity (evaluated by the kernel on the model, explicit bytes): `{"-128":true}` into `i8` keys is
    `{-128 ↦ true}`; `{"128":true}` and `{"-0":true}` into `i8` keys are rejected -/
example : (docIs (deTypedTop {} (.map (.int .i8) .bool) [0x7b, 0x22, 0x2d, 0x31, 0x32, 0x38, 0x22, 0x3a, 0x74, 0x72, 0x75, 0x65, 0x7d])
      (.map [(.int (-128), .bool true)]) &&
    docRejected (deTypedTop {} (.map (.int .i8) .bool) [0x7b, 0x22, 0x31, 0x32, 0x38, 0x22, 0x3a, 0x74, 0x72, 0x75, 0x65, 0x7d]) &&
    docRejected (deTypedTop {} (.map (.int .i8) .bool) [0x7b, 0x22, 0x2d, 0x30, 0x22, 0x3a, 0x74, 0x72, 0x75, 0x65, 0x7d]) &&
    docRejected (deTypedTop { src := .reader } (.map (.int .u8) .bool)
      [0x7b, 0x22, 0x31, 0x2e, 0x30, 0x22, 0x3a, 0x74, 0x72, 0x75, 0x65, 0x7d]) &&
    docRejected (deTypedTop {} (.map (.int .u16) .bool) [0x7b, 0x22, 0x31, 0x65, 0x32, 0x22, 0x3a, 0x74, 0x72, 0x75, 0x65, 0x7d])) = true := by
  decide +kernel

/-- `{"340282366920938463463374607431768211455":true}` (2^128 - 1) into `u128` keys is accepted with that value;
    2^128 is rejected -/
example : (docIs (deTypedTop {} (.map (.int .u128) .bool)
      ([0x7b, 0x22] ++ [0x33,0x34,0x30,0x32,0x38,0x32,0x33,0x36,0x36,0x39,0x32,0x30,0x39,0x33,0x38,0x34,0x36,0x33,0x34,0x36,
        0x33,0x33,0x37,0x34,0x36,0x30,0x37,0x34,0x33,0x31,0x37,0x36,0x38,0x32,0x31,0x31,0x34,0x35,0x35] ++
        [0x22, 0x3a, 0x74, 0x72, 0x75, 0x65, 0x7d]))
      (.map [(.int 340282366920938463463374607431768211455, .bool true)]) &&
    docRejected (deTypedTop {} (.map (.int .u128) .bool)
      ([0x7b, 0x22] ++ [0x33,0x34,0x30,0x32,0x38,0x32,0x33,0x36,0x36,0x39,0x32,0x30,0x39,0x33,0x38,0x34,0x36,0x33,0x34,0x36,
        0x33,0x33,0x37,0x34,0x36,0x30,0x37,0x34,0x33,0x31,0x37,0x36,0x38,0x32,0x31,0x31,0x34,0x35,0x36] ++
        [0x22, 0x3a, 0x74, 0x72, 0x75, 0x65, 0x7d]))) = true := by
  decide +kernel

/-- the generic form with another value: `{"255":[null]}` into `BTreeMap<u8, Vec<()>>` -/
example : docIs (deTypedTop {} (.map (.int .u8) (.seq .unit))
      [0x7b, 0x22, 0x32, 0x35, 0x35, 0x22, 0x3a, 0x5b, 0x6e, 0x75, 0x6c, 0x6c, 0x5d, 0x7d])
      (.map [(.int 255, .seq [.unit])]) = true := by
  decide +kernel

end SJ.Props.C06
