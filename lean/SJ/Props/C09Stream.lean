import SJ.Proofs.StreamSources
import SJ.Proofs.RawSources
import SJ.Props.C19Nested
/-!
# C09 — the three sources agree item by item on streams (with `byte_offset()`) and on raw captures

`Model.Stream.history env k (start bs)` is the sequence of `(item, byte_offset())` pairs of `k` calls of
`next()` on a `StreamDeserializer` over `bs`; an item is `None`, `Some(Ok(value))` or `Some(Err(code at
index))` — code and index determine message, category, line and column. `Model.Raw.rawTop` is
`from_*::<Box<RawValue>>`, `Model.RawNested.rawSeqTop` is `from_*::<Vec<Box<RawValue>>>`.
A `&str` is valid UTF-8 by type: that is the hypothesis of the `&str` clauses.
-/
namespace SJ.Props.C09
open SJ SJ.Gen SJ.Model.Machine SJ.Model.Stream SJ.Model.Raw SJ.Proofs.Machine SJ.Proofs.StreamSources
open SJ.Proofs.RawSources SJ.Model.RawNested SJ.Proofs.RawNested

/-- **C09 (streams, item by item, with `byte_offset()`).** For every configuration, both item types
    (`Value`, skipped content), every byte string and any number of calls: the slice and the reader source
    yield the same sequence of items — values, or errors with the same code at the same index — with the
    same `byte_offset()` after each call; and on valid UTF-8 input the `&str` source yields that very
    sequence too. -/
theorem c09_stream_offsets (cfg : Cfg) (tgt : Tgt) (bs : Bytes) (k : Nat) :
    history (envOf cfg .slice tgt) k (start bs) = history (envOf cfg .reader tgt) k (start bs) ∧
    (Spec.Utf8.validUtf8 bs = true →
      history (envOf cfg .str tgt) k (start bs) = history (envOf cfg .slice tgt) k (start bs)) :=
  ⟨history_slice_reader cfg tgt k (start bs), fun h => history_str_slice cfg tgt k (start bs) (.inr h)⟩

/-- the same from any stream state reached so far (the statement is about whole call histories) -/
theorem c09_stream_offsets_from (cfg : Cfg) (tgt : Tgt) (st : SS) (k : Nat) :
    history (envOf cfg .slice tgt) k st = history (envOf cfg .reader tgt) k st ∧
    (st.failed = true ∨ Spec.Utf8.validUtf8 st.rest = true →
      history (envOf cfg .str tgt) k st = history (envOf cfg .slice tgt) k st) :=
  ⟨history_slice_reader cfg tgt k st, fun h => history_str_slice cfg tgt k st h⟩

/-- non-vacuity: `1 "é"x` — a value, a value, an error (the same from all three sources), then `None` -/
def exStream : Bytes := [0x31, 0x20, 0x22, 0xc3, 0xa9, 0x22, 0x78]
example : history (envOf {} .reader .value) 4 (start exStream) =
    [(.ok (.num (.pos 1)), 1), (.ok (.str [0xc3, 0xa9]), 6), (.err .ExpectedSomeValue 7, 6), (.none, 6)] := by
  rw [← (c09_stream_offsets {} .value exStream 4).1]; rfl
example : history (envOf {} .str .value) 4 (start exStream) = history (envOf {} .reader .value) 4 (start exStream) := by
  rw [(c09_stream_offsets {} .value exStream 4).2 (by decide +kernel), (c09_stream_offsets {} .value exStream 4).1]
/-- the hypothesis is needed for the `&str` clause (bytes that no `&str` can hold) -/
example : history (envOf {} .str .value) 1 (start [0x22, 0xff, 0x22]) = [(.ok (.str [0xff]), 3)] ∧
    history (envOf {} .slice .value) 1 (start [0x22, 0xff, 0x22]) = [(.err .InvalidUnicodeCodePoint 3, 0)] := ⟨rfl, rfl⟩

/-- **C09 (raw values, top level).** `from_slice::<Box<RawValue>>` and `from_reader::<Box<RawValue>>`
    give the same outcome on every byte string — the same captured span, or the same error code at the same
    index —, and on valid UTF-8 input `from_str` gives that outcome too (the `from_utf8` check of the byte
    sources cannot fail on a captured value of such input: it begins and ends with an ASCII byte). -/
theorem c09_raw_sources (cfg : Cfg) (bs : Bytes) :
    rawTop cfg .slice bs = rawTop cfg .reader bs ∧
    (Spec.Utf8.validUtf8 bs = true → rawTop cfg .str bs = rawTop cfg .slice bs) :=
  ⟨rawTop_slice_reader cfg bs, rawTop_str_slice cfg bs⟩

/-- ` "é" x`: all three sources report the trailing character at the same index; `"é"` alone is captured
    as bytes 0..4 by all three -/
example : rawTop {} .reader [0x22, 0xc3, 0xa9, 0x22, 0x20, 0x78] = .err .TrailingCharacters 6 := by
  rw [← (c09_raw_sources {} _).1]; rfl
example : rawTop {} .str [0x22, 0xc3, 0xa9, 0x22] = .ok 0 4 ∧ rawTop {} .reader [0x22, 0xc3, 0xa9, 0x22] = .ok 0 4 := by
  refine ⟨?_, ?_⟩
  · rw [(c09_raw_sources {} _).2 (by decide +kernel)]; rfl
  · rw [← (c09_raw_sources {} _).1]; rfl

/-- **C09 (raw values, array elements).** `from_*::<Vec<Box<RawValue>>>`: the slice and the reader source
    succeed on the same inputs with the same captures; on valid UTF-8 input so does the `&str` source.
    (Errors: identical codes; positions of visitor errors raised on behalf of the `Vec` may differ by the
    reader's peeked byte — checked per case by op `rawnest`.) -/
theorem c09_raw_nested_sources (cfg : Cfg) (bs : Bytes) (v : TVal) :
    (rawSeqTop { cfg := cfg, src := .slice } bs = .ok v ↔ rawSeqTop { cfg := cfg, src := .reader } bs = .ok v) ∧
    (Spec.Utf8.validUtf8 bs = true →
      (rawSeqTop { cfg := cfg, src := .str } bs = .ok v ↔ rawSeqTop { cfg := cfg, src := .slice } bs = .ok v)) := by
  have key : ∀ (e1 e2 : SJ.Model.Typed.Env), e1.flt = false → e2.flt = false →
      (∀ w₀ inner w₃ cs, bs = w₀ ++ [0x5b] ++ inner ++ [0x5d] ++ w₃ → Inner inner cs →
        (∀ c ∈ cs, Captured e1 c) → ∀ c ∈ cs, Captured e2 c) →
      rawSeqTop e1 bs = .ok v → rawSeqTop e2 bs = .ok v := by
    intro e1 e2 h1 h2 hc h
    obtain ⟨cs, w₀, inner, w₃, rfl, hbs, h₀, h₃, hin, hcap⟩ := (SJ.Props.C19.c19_nested_capture e1 h1 bs v).mp h
    exact (SJ.Props.C19.c19_nested_capture e2 h2 bs _).mpr ⟨cs, w₀, inner, w₃, rfl, hbs, h₀, h₃, hin, hc w₀ inner w₃ cs hbs hin hcap⟩
  refine ⟨⟨key _ _ rfl rfl ?_, key _ _ rfl rfl ?_⟩, fun hv => ⟨key _ _ rfl rfl ?_, key _ _ rfl rfl ?_⟩⟩
  · intro _ _ _ _ _ _ hcap c hc; exact ⟨(hcap c hc).1, fun _ => (hcap c hc).2 (by intro h; cases h)⟩
  · intro _ _ _ _ _ _ hcap c hc; exact ⟨(hcap c hc).1, fun _ => (hcap c hc).2 (by intro h; cases h)⟩
  · intro w₀ inner w₃ cs hbs hin hcap
    exact captured_of_valid _ _ w₀ inner w₃ cs (hbs ▸ hv) hin hcap
  · intro _ _ _ _ _ _ hcap c hc; exact ⟨(hcap c hc).1, fun h => absurd rfl h⟩

example : rawSeqTop { src := .reader } SJ.Props.C19.exArr = .ok (.seq [.str [0x31], .str [0x5b, 0x32, 0x5d]]) :=
  (c09_raw_nested_sources {} _ _).1.mp rfl

open SJ.Proofs.RawMap SJ.Proofs.RawKey in
/-- **C09 (raw values, object values).** The same for a map of `Box<RawValue>`: slice and reader succeed on the
    same inputs with the same entries; on valid UTF-8 input so does the `&str` source (a key literal inside
    valid UTF-8 input is valid UTF-8, hence so is its decoding; a value text as for array elements). -/
theorem c09_raw_map_sources (cfg : Cfg) (bs : Bytes) (v : TVal) :
    (rawMapTop { cfg := cfg, src := .slice } bs = .ok v ↔ rawMapTop { cfg := cfg, src := .reader } bs = .ok v) ∧
    (Spec.Utf8.validUtf8 bs = true →
      (rawMapTop { cfg := cfg, src := .str } bs = .ok v ↔ rawMapTop { cfg := cfg, src := .slice } bs = .ok v)) := by
  have key : ∀ (e1 e2 : SJ.Model.Typed.Env), e1.flt = false → e2.flt = false →
      (∀ w₀ inner w₃ ms, bs = w₀ ++ [0x7b] ++ inner ++ [0x7d] ++ w₃ → MInner inner ms →
        (∀ m ∈ ms, MemOK e1 m) → ∀ m ∈ ms, MemOK e2 m) → rawMapTop e1 bs = .ok v → rawMapTop e2 bs = .ok v := by
    intro e1 e2 h1 h2 hc h
    obtain ⟨ms, w₀, inner, w₃, rfl, hbs, h₀, h₃, hin, hcap⟩ := (SJ.Props.C19.c19_nested_capture_map e1 h1 bs v).mp h
    exact (SJ.Props.C19.c19_nested_capture_map e2 h2 bs _).mpr
      ⟨ms, w₀, inner, w₃, rfl, hbs, h₀, h₃, hin, hc w₀ inner w₃ ms hbs hin hcap⟩
  have conv : ∀ (a b : Src), (b ≠ .str → a ≠ .str) →
      ∀ m, MemOK { cfg := cfg, src := a } m → MemOK { cfg := cfg, src := b } m := by
    intro a b hab m hm
    exact ⟨⟨hm.1.wf, hm.1.dec, hm.1.sur, fun hb => hm.1.utf (hab hb)⟩, hm.2.1, fun hb => hm.2.2 (hab hb)⟩
  refine ⟨⟨key _ _ rfl rfl ?_, key _ _ rfl rfl ?_⟩, fun hv => ⟨key _ _ rfl rfl ?_, key _ _ rfl rfl ?_⟩⟩
  · intro _ _ _ _ _ _ hcap m hm; exact conv .slice .reader (fun _ h => by cases h) m (hcap m hm)
  · intro _ _ _ _ _ _ hcap m hm; exact conv .reader .slice (fun _ h => by cases h) m (hcap m hm)
  · intro w₀ inner w₃ ms hbs hin hcap
    exact memOK_of_valid _ _ w₀ inner w₃ ms (hbs ▸ hv) hin hcap
  · intro _ _ _ _ _ _ hcap m hm; exact conv .slice .str (fun h => absurd rfl h) m (hcap m hm)

example : rawMapTop { src := .reader } SJ.Props.C19.exObj =
    .ok (.map [(.str [0x61], .str [0x31]), (.str [0x61], .str [0x5b, 0x20, 0x5d])]) :=
  (c09_raw_map_sources {} _ _).1.mp rfl

end SJ.Props.C09
