import SJ.Proofs.TypedFuel
import SJ.Proofs.TypedFault
import SJ.Proofs.TypedPrefixInt
/-!
# The typed text deserializer model (`SJ.Model.Typed`): totality, fuel, and the typed clauses of
# C10 / C13 / C16 that are stated over it

Property theorems only; helper lemmas live in `SJ/Proofs/Typed*.lean`. The model serves C04, C09, C10,
C13 and C16 (no property id of its own); each theorem is listed in the audit file of the property it
belongs to.
-/
namespace SJ.Props.Typed
open SJ SJ.Gen SJ.Model SJ.Model.Typed SJ.Proofs.Typed

/-- **Fuel suffices.** With fuel at least the size of the schema, `deTyped` never answers "out of fuel"
    (also none of the loops over elements / entries / fields does: their fuel is the length of the unread
    input and every iteration consumes a byte), for every configuration, source, fault mode, depth,
    input and position. -/
theorem typed_fuel_suffices (env : Env) (s : Schema) (f : Nat) (hf : Schema.size s ≤ f) (t : Nat) (rest : Bytes) (pos : Nat) :
    deTyped env f t s rest pos ≠ .fuel :=
  (deTyped_good env f s hf t rest pos).1

/-- … and more fuel than that changes nothing: the result is the one for fuel = size of the schema. -/
theorem typed_fuel_irrelevant (env : Env) (s : Schema) (f : Nat) (hf : Schema.size s ≤ f) (t : Nat) (rest : Bytes) (pos : Nat) :
    deTyped env f t s rest pos = deTyped env (Schema.size s) t s rest pos := by
  rw [deTyped_fuel_ge env s t f hf]

/-- **Totality / no panic.** The model is a total function whose only outcome without a counterpart in
    the crate is "out of fuel"; it is unreachable: a whole-document run is a value, a parser error, a
    visitor error or (with a failing reader) an I/O error. The typed entry points of `de.rs` contain no
    panic site of their own (no indexing, `unwrap`, `unreachable!`); the machine parts are covered by C14. -/
theorem typed_no_panic (env : Env) (s : Schema) (bs : Bytes) : deTypedTop env s bs ≠ .fuel := by
  unfold deTypedTop
  have := typed_fuel_suffices env s (Schema.size s + 1) (by omega) 0 bs 0
  split
  · split
    · split <;> simp
    · simp
  all_goals first
    | (simp; done)
    | (rename_i h; exact absurd h this)

/-- **Progress.** A successful typed parse consumes at least one byte (so the loops terminate, and a
    stream of typed values over `n` bytes yields at most `n` items), and the position it returns is
    the start position advanced by exactly what was consumed. -/
theorem typed_progress (env : Env) (s : Schema) (f : Nat) (hf : Schema.size s ≤ f) (t : Nat) (rest : Bytes) (pos : Nat)
    (v : TVal) (rest' : Bytes) (pos' : Nat) (h : deTyped env f t s rest pos = .ok v rest' pos') :
    rest'.length < rest.length ∧ pos' + rest'.length = pos + rest.length :=
  (deTyped_good env f s hf t rest pos).2 v rest' pos' h

/-- **C13 (reader, typed targets).** When the reader fails (I/O error) after delivering `bs` — instead of
    reporting end of input — the typed deserializer returns `Io`, or an error raised on the delivered
    bytes: a Syntax-classified parser error or a visitor (`Data`) error. Never a value, never an
    `Eof`-classified error (the typed analogue of `c13_read` / `c13_read_error_class`). Every schema,
    configuration and source. -/
theorem c13_typed_fault (env : Env) (hf : env.flt = true) (s : Schema) (bs : Bytes) :
    deTypedTop env s bs = .io ∨
    (∃ c i, deTypedTop env s bs = .err c i ∧ classify c = .syntax) ∨
    (∃ i, deTypedTop env s bs = .data i) := by
  unfold deTypedTop
  have hs := syn_deTyped hf (Schema.size s + 1) 0 s bs 0
  have hfuel := typed_fuel_suffices env s (Schema.size s + 1) (by omega) 0 bs 0
  cases h : deTyped env (Schema.size s + 1) 0 s bs 0 with
  | ok v rest pos =>
    dsimp only
    split
    · simp [hf]
    · exact .inr (.inl ⟨_, _, rfl, rfl⟩)
  | err c i => exact .inr (.inl ⟨c, i, rfl, hs c i h⟩)
  | data i => exact .inr (.inr ⟨_, rfl⟩)
  | raw r p => exact .inr (.inr ⟨_, rfl⟩)
  | io => exact .inl rfl
  | fuel => exact absurd h hfuel

/-- the core of the C10 theorems: `A` = the codes allowed at the end of a prefix -/
theorem c10_typed_core (A : Code → Prop) (hAe : ∀ c, classify c = .eof → A c) (env : Env) (hflt : env.flt = false) (s : Schema)
    (hAn : Schema.rangeSite s = true → A .NumberOutOfRange) (bs : Bytes) (k : Nat) (v : TVal)
    (h : deTypedTop env s bs = .ok v) :
    (∃ v', deTypedTop env s (bs.take k) = .ok v') ∨
    (∃ c, deTypedTop env s (bs.take k) = .err c (bs.take k).length ∧ A c) := by
  have hpre := (pre_deTyped (A := A) (b := bs.drop k) (N := (bs.take k).length) hflt hAe (intPre hflt hAe)
    (Schema.size s + 1) s (by omega) hAn 0).1 (bs.take k) 0 (by omega)
  rw [List.take_append_drop] at hpre
  unfold deTypedTop at h ⊢
  cases hfull : deTyped env (Schema.size s + 1) 0 s bs 0 with
  | ok x rest pos =>
    rw [hfull] at h hpre
    simp only at h
    generalize deTyped env (Schema.size s + 1) 0 s (bs.take k) 0 = pre at hpre ⊢
    cases hpre with
    | same hp =>
      rename_i r
      -- the rest of the full text is whitespace: so is the rest of the prefix
      rcases skipWs_append r (bs.drop k) pos with ⟨c, a', p, h1, h2⟩ | ⟨h1, h2⟩
      · rw [h2] at h; simp at h
      · simp only [h1, hflt]
        exact .inl ⟨_, rfl⟩
    | cut _ => simp [Stream.skipWs, hflt]
    | eof hc => exact .inr ⟨_, rfl, hc⟩
    | fail hf => exact absurd rfl (hf _ _ _)
  | _ => rw [hfull] at h; simp at h

/-- **C10 (typed targets).** For every schema without a target that converts number literals to floats while parsing
    (no `f64`, `f32`, `Value` anywhere in it — `Schema.rangeSite s = false`): if the typed deserializer accepts a text,
    it accepts every prefix of it or fails at the end of the prefix with an `Eof`-classified error. This covers bool,
    the twelve integer targets incl. the 128-bit ones (`scan_integer128`), char / String / bytes, unit, Option, newtype,
    Vec, tuples, maps with every key kind (quoted numeric keys, bool keys `"true"`, char and unit-enum keys), structs from
    arrays and from maps (unknown fields skipped by `ignore_value`), externally tagged enums, IgnoredAny; every
    configuration and source. In particular no Syntax code of a truncation site survives: `InvalidNumber` (128-bit `-`),
    `ExpectedNumericKey` / `ExpectedDoubleQuote` (quoted numeric keys cut short), `ExpectedSomeIdent` (bool keys),
    `TrailingCharacters` — the defects repaired by 50d9fce / afff6b0 cannot come back unnoticed. -/
theorem c10_typed_prefix (env : Env) (hflt : env.flt = false) (s : Schema) (hs : Schema.rangeSite s = false) (bs : Bytes) (k : Nat)
    (v : TVal) (h : deTypedTop env s bs = .ok v) :
    (∃ v', deTypedTop env s (bs.take k) = .ok v') ∨
    (∃ c, deTypedTop env s (bs.take k) = .err c (bs.take k).length ∧ classify c = .eof) :=
  c10_typed_core (fun c => classify c = .eof) (fun _ h => h) env hflt s (fun h' => by rw [hs] at h'; cases h') bs k v h

/-- **C10 (typed targets), every schema** — with the one exception the proof forces (`_partial`): a prefix that ends in
    a complete number literal whose value is not a finite float (`1` followed by 400 zeros, although `…e-395` is
    accepted) fails with `NumberOutOfRange` (Syntax) at its end. The exception is inherent to the number-range rule of
    the `f64` / `f32` / `Value` targets (open finding C10-out-of-range-number-prefix) and arises only there
    (`c10_typed_prefix`). -/
theorem c10_typed_prefix_partial (env : Env) (hflt : env.flt = false) (s : Schema) (bs : Bytes) (k : Nat) (v : TVal)
    (h : deTypedTop env s bs = .ok v) :
    (∃ v', deTypedTop env s (bs.take k) = .ok v') ∨
    (∃ c, deTypedTop env s (bs.take k) = .err c (bs.take k).length ∧ (classify c = .eof ∨ c = .NumberOutOfRange)) :=
  c10_typed_core (fun c => classify c = .eof ∨ c = .NumberOutOfRange) (fun _ h => .inl h) env hflt s (fun _ => .inr rfl) bs k v h

/-- Bool-valued tests on outcomes (for kernel-evaluated examples) -/
def Top.isOk (o : Top) (v : TVal) : Bool := match o with | .ok v' => v' == v | _ => false
def Top.isErr (o : Top) (c : Code) (idx : Nat) : Bool := match o with | .err c' i => c' == c && i == idx | _ => false
def Top.isData (o : Top) (idx : Option Nat) : Bool := match o with | .data i => i == idx | _ => false

-- `[1, 2,3 ]` as `Vec<u8>`; `[1,2,]` is a trailing comma at byte 6; `{"a":1}` as a struct { a: u8, b: Option<String> }
example : Top.isOk (deTypedTop {} (.seq (.int .u8)) [0x5b, 0x31, 0x2c, 0x20, 0x32, 0x2c, 0x33, 0x20, 0x5d])
    (.seq [.int 1, .int 2, .int 3]) = true := by decide +kernel
example : Top.isErr (deTypedTop {} (.seq (.int .u8)) [0x5b, 0x31, 0x2c, 0x32, 0x2c, 0x5d]) .TrailingComma 6 = true := by
  decide +kernel
example : Top.isOk (deTypedTop {} (.struct_ [([0x61], .int .u8), ([0x62], .option .string)] false)
    [0x7b, 0x22, 0x61, 0x22, 0x3a, 0x31, 0x7d]) (.struct_ [.int 1, .none]) = true := by decide +kernel
-- `256` as `u8`: a visitor error positioned at the end of the literal (index 3)
example : Top.isData (deTypedTop {} (.int .u8) [0x32, 0x35, 0x36]) (some 3) = true := by decide +kernel
-- `"N"` for a newtype variant: a visitor error that is never positioned (no `fix_position` in `deserialize_enum`)
example : Top.isData (deTypedTop {} (.enum_ [([0x4e], .newtype .bool)]) [0x22, 0x4e, 0x22]) none = true := by decide +kernel

-- a failing reader after `[1,`: `Io` for `Vec<u8>`; after `[1,]`: the trailing comma (Syntax), not `Io`;
-- after `[1,` for a 1-tuple: `end_seq` swallows the reader's answer and reports trailing characters (Syntax)
example : (match deTypedTop { src := .reader, flt := true } (.seq (.int .u8)) [0x5b, 0x31, 0x2c] with | .io => true | _ => false) = true := by
  decide +kernel
example : Top.isErr (deTypedTop { src := .reader, flt := true } (.seq (.int .u8)) [0x5b, 0x31, 0x2c, 0x5d]) .TrailingComma 4 = true := by
  decide +kernel
example : Top.isErr (deTypedTop { src := .reader, flt := true } (.tuple [.int .u8]) [0x5b, 0x31, 0x2c]) .TrailingCharacters 3 = true := by
  decide +kernel

-- `{"12":true}` as a map with `u8` keys is accepted; cut inside the key (`{"12`, `{"1`, `{"`) it is `Eof` at the end
-- (these were Syntax errors before fix 50d9fce), and the 128-bit `-17` cut after `-` likewise
example : Top.isOk (deTypedTop {} (.map (.int .u8) .bool) [0x7b, 0x22, 0x31, 0x32, 0x22, 0x3a, 0x74, 0x72, 0x75, 0x65, 0x7d])
    (.map [(.int 12, .bool true)]) = true := by decide +kernel
example : Top.isErr (deTypedTop {} (.map (.int .u8) .bool) [0x7b, 0x22, 0x31, 0x32]) .EofWhileParsingString 4 = true := by decide +kernel
example : Top.isErr (deTypedTop {} (.map (.int .u8) .bool) [0x7b, 0x22]) .EofWhileParsingString 2 = true := by decide +kernel
example : Top.isErr (deTypedTop {} (.int .i128) [0x2d]) .EofWhileParsingValue 1 = true := by decide +kernel
example : Top.isErr (deTypedTop {} (.map .bool .bool) [0x7b, 0x22, 0x74, 0x72]) .EofWhileParsingValue 4 = true := by decide +kernel

end SJ.Props.Typed
